(* Public operations of the unsized containers on the pointer machine, addressed by a path from the
   top-level value.  No proofs in this file. *)
From SF Require Import Base.Prelude Gen.Generated Unsized.Types Unsized.Parse Unsized.Machine.

(* static positions inside a pointer tree *)
Inductive pos := PF (i : nat) | PI | PV.


Fixpoint get_at (t : ty) (p : ptr) (ps : list pos) {struct ps} : option (ty * ptr) :=
  match ps with
  | [] => Some (t, p)
  | PF i :: r =>
      match t, p with
      | TStruct ts, PStruct qs =>
          match nth_error ts i, nth_error qs i with
          | Some ti, Some qi => get_at ti qi r
          | _, _ => None
          end
      | _, _ => None
      end
  | PI :: r =>
      match t, p with
      | TUList it _, PUList _ _ (Some q) _ _ _ => get_at it q r
      | _, _ => None
      end
  | PV :: r =>
      match t, p with
      | TEnum _ vs, PEnum _ d q =>
          match find_variant d vs with Some vt => get_at vt q r | None => None end
      | _, _ => None
      end
  end.

Fixpoint set_at (t : ty) (p : ptr) (ps : list pos) (new : ptr) {struct ps} : ptr :=
  match ps with
  | [] => new
  | PF i :: r =>
      match t, p with
      | TStruct ts, PStruct qs =>
          match nth_error ts i, nth_error qs i with
          | Some ti, Some qi => PStruct (set_nth i (set_at ti qi r new) qs)
          | _, _ => p
          end
      | _, _ => p
      end
  | PI :: r =>
      match t, p with
      | TUList it _, PUList a n (Some q) pmb rs re => PUList a n (Some (set_at it q r new)) pmb rs re
      | _, _ => p
      end
  | PV :: r =>
      match t, p with
      | TEnum _ vs, PEnum st d q =>
          match find_variant d vs with Some vt => PEnum st d (set_at vt q r new) | None => p end
      | _, _ => p
      end
  end.

Definition sub (t : ty) (top : ptr) (ps : list pos) : out (ty * ptr) :=
  match get_at t top ps with Some x => Ok x | None => Panic end.

(* ---------------------------------------------------------------------------------------------- *)
(* initializers (UnsizedInit): kind 0 = DefaultInit; 1 = a 3-item array of all-ones items (lists), two
   default elements (lists of unsized elements), [1;3] for RemainingBytes; 2 = a 300-item array          *)
Fixpoint init_size (t : ty) (kind : Z) {struct t} : Z :=
  match t with
  | TFixed c => Z.of_nat (fsize c)
  | TList c lw =>
      Z.of_nat lw + Z.of_nat (fsize c) * (if kind =? 1 then 3 else if kind =? 2 then 300 else 0)
  | TRem => if kind =? 1 then 3 else 0
  | TUList it k => 12
  | TStruct ts => (fix go ts := match ts with [] => 0 | t :: r => init_size t 0 + go r end) ts
  | TEnum rw vs => Z.of_nat rw + match vs with (_, vt) :: _ => init_size vt 0 | [] => 0 end
  end.

(* the bytes UnsizedInit::init writes, or its error *)
Fixpoint init_bytes (t : ty) (kind : Z) {struct t} : out (list Z) :=
  match t with
  | TFixed c => Ok (zrepeat 0 (Z.of_nat (fsize c)))
  | TList c lw =>
      let n := if kind =? 1 then 3 else if kind =? 2 then 300 else 0 in
      if 256 ^ Z.of_nat lw <=? n then Err E_TOPRIM
      else Ok (le_bytes lw n ++ zrepeat 1 (Z.of_nat (fsize c) * n))
  | TRem => Ok (if kind =? 1 then [1; 1; 1] else [])
  | TUList it k => Ok (zrepeat 0 12)
  | TStruct ts =>
      (fix go ts :=
         match ts with
         | [] => Ok []
         | t :: r => do a <- init_bytes t 0; do b <- go r; Ok (a ++ b)
         end) ts
  | TEnum rw vs =>
      match vs with
      | (d, vt) :: _ => do b <- init_bytes vt 0; Ok (le_bytes rw d ++ b)
      | [] => Ok (zrepeat 0 (Z.of_nat rw))
      end
  end.

(* Enums.  The generated impls (star_frame_proc/src/unsize/enum_impl.rs):
     503-553  UnsizedInit<DefaultInit> exists only when one variant carries #[default_init]; INIT_BYTES = size_of discriminant
              + the variant's INIT_BYTES (0 for a unit variant); init = the discriminant of THAT variant (little endian),
              then the variant's own DefaultInit.  The universe `ty` has no marker for the #[default_init] variant: the
              convention (kept by the harness descriptors, harness/src/shapes.rs enum_node!) is that it is the FIRST
              listed variant of `TEnum rw vs` (vs is an association list keyed by discriminant, its order means nothing
              else), which is what init_size / init_bytes above initialise.
     555-646  UnsizedInit<EnumInitVariant<I>> for every variant: INIT_BYTES = size_of discriminant + the variant's
              INIT_BYTES for I; init = that variant's discriminant, then the variant's init with I.
     733-764  set_<variant>(init) = set_from_init(EnumInitVariant(init)) (wrapper.rs set_data_inner: resize at the enum's
              start pointer, initialise, re-derive the whole StartPointer with get_ptr), then the payload's wrapper. *)
Definition init_variant_size (rw : nat) (vt : ty) (kind : Z) : Z := Z.of_nat rw + init_size vt kind.
Definition init_variant (rw : nat) (d : Z) (vt : ty) (kind : Z) : out (list Z) :=
  do b <- init_bytes vt kind; Ok (le_bytes rw d ++ b).

(* ---------------------------------------------------------------------------------------------- *)
Definition res := (mach * ptr * list Z)%type.

(* an error returned by the Rust call AFTER it has already changed state (memory, pointer flags): the
   state is kept and the error code travels in the extra observation as [-1; code] *)
Definition efail (s : mach) (top : ptr) (c : Z) : out res := Ok (s, top, [-1; c]).

(* run `o`; an Err it returns is reported with the state (s, top) reached before it *)
Definition catch {A} (o : out A) (s : mach) (top : ptr) (k : A -> out res) : out res :=
  match o with
  | Ok a => k a
  | Err c => efail s top c
  | Panic => Panic
  | Fault => Fault
  end.

(* UnsizedListPtr::check_inner_initialized *)
Definition inner_ok (p : ptr) : bool :=
  match p with
  | PUList _ _ (Some q) true rs re => fst (check_ptrs q rs re rs)
  | _ => true
  end.

Definition set_pmb (p : ptr) (b : bool) : ptr :=
  match p with PUList a n i _ rs re => PUList a n i b rs re | _ => p end.

(* get_unsized_range(index) read through the list pointer *)
Definition ulist_range (k : nat) (m : list Z) (a n idx : Z) : out (option (Z * Z)) :=
  let esz := 4 + Z.of_nat k in
  if (idx <? 0) || (n <=? idx) then Ok None else
  do st <- rd32 m (a + 8 + idx * esz);
  do usz <- rd32 m a;
  do en <- (if idx + 1 <? n then rd32 m (a + 8 + (idx + 1) * esz) else Ok usz);
  Ok (Some (st, en)).

(* get_offset(index): the offset of element index, or unsized_size when index = len *)
Definition ulist_offset (k : nat) (m : list Z) (a n idx : Z) : out Z :=
  let esz := 4 + Z.of_nat k in
  if (0 <=? idx) && (idx <? n) then rd32 m (a + 8 + idx * esz) else rd32 m a.

Definition ulist_dbase (k : nat) (a n : Z) : Z := a + 8 + n * (4 + Z.of_nat k) + 4.

(* unsized_list_exclusive_fn / get_mut: record a fresh inner pointer for the element starting at `st` *)
Definition ulist_enter (ovf : bool) (t : ty) (s : mach) (top : ptr) (ps : list pos) (st : Z) : out ptr :=
  do ' (ut, up) <- sub t top ps;
  match ut, up with
  | TUList it k, PUList a n inner pmb rs re =>
      if negb (inner_ok up) then Panic else
      do usz <- rd32 (m_mem s) a;
      if usz <? st then Err E_ADV else
      do ' (q, _) <- get_ptr ovf it (m_mem s) (ulist_dbase k a n + st) (usz - st);
      Ok (set_at t top ps (PUList a n (Some q) true rs re))
  | _, _ => Panic
  end.

(* ---- List<T, L> ---- *)
Definition list_len (lw : nat) (c : fcheck) (m : list Z) (a blen : Z) : out Z :=
  do h <- rd m a (Z.of_nat lw);
  let len := le_decode h in
  (* debug_assert_eq!(len, self.bytes.len() / size_of::<T>()) *)
  if len =? blen / Z.of_nat (fsize c) then Ok len else Panic.

Definition list_insert (t : ty) (s : mach) (top : ptr) (ps : list pos) (idx : Z) (items : list (list Z)) : out res :=
  do ' (lt, lp) <- sub t top ps;
  match lt, lp with
  | TList c lw, PList a blen =>
      let esz := Z.of_nat (fsize c) in
      let n := zlen items in
      do old <- list_len lw c (m_mem s) a blen;
      if old <? idx then Err E_INDEX else
      if 256 ^ Z.of_nat lw <=? old + n then Err E_TOPRIM else
      do ' (s1, top1) <- add_bytes t s top a (a + Z.of_nat lw + idx * esz) (esz * n);
      do ' (_, lp1) <- sub t top1 ps;
      let a1 := start_of lp1 in
      do m1 <- wr (m_mem s1) a1 (le_bytes lw (old + n));
      do m2 <- wr m1 (a1 + Z.of_nat lw + idx * esz) (concat items);
      Ok (set_mem s1 m2, set_at t top1 ps (PList a1 ((old + n) * esz)), [])
  | _, _ => Panic
  end.

Definition list_remove (t : ty) (s : mach) (top : ptr) (ps : list pos) (st en : Z) : out res :=
  do ' (lt, lp) <- sub t top ps;
  match lt, lp with
  | TList c lw, PList a blen =>
      let esz := Z.of_nat (fsize c) in
      do old <- list_len lw c (m_mem s) a blen;
      if en <? st then Err E_RANGE else
      if old <? en then Err E_INDEX else
      let body := a + Z.of_nat lw in
      do ' (s1, top1) <- remove_bytes t s top a (body + st * esz) (body + en * esz);
      do ' (_, lp1) <- sub t top1 ps;
      let a1 := start_of lp1 in
      let new := old - (en - st) in
      do m1 <- wr (m_mem s1) a1 (le_bytes lw new);
      Ok (set_mem s1 m1, set_at t top1 ps (PList a1 (new * esz)), [])
  | _, _ => Panic
  end.

Definition list_write (t : ty) (s : mach) (top : ptr) (ps : list pos) (idx : Z) (item : list Z) : out res :=
  do ' (lt, lp) <- sub t top ps;
  match lt, lp with
  | TList c lw, PList a blen =>
      let esz := Z.of_nat (fsize c) in
      do old <- list_len lw c (m_mem s) a blen;
      if (idx <? 0) || (old <=? idx) then Err E_INDEX else
      (* index_mut: checked::try_from_bytes_mut(..).expect(..) panics on an invalid stored pattern *)
      do cur <- rd (m_mem s) (a + Z.of_nat lw + idx * esz) esz;
      if negb (fvalid c cur) then Panic else
      do m1 <- wr (m_mem s) (a + Z.of_nat lw + idx * esz) item;
      Ok (set_mem s m1, top, [])
  | _, _ => Panic
  end.

(* ---- RemainingBytes ---- *)
Definition rem_set_len (t : ty) (s : mach) (top : ptr) (ps : list pos) (len : Z) : out res :=
  do ' (rt, rp) <- sub t top ps;
  match rt, rp with
  | TRem, PRem a cur =>
      if cur =? len then Ok (s, top, []) else
      do ' (s1, top1) <-
        (if cur <? len then add_bytes t s top a (a + cur) (len - cur)
         else remove_bytes t s top a (a + len) (a + cur));
      do ' (_, rp1) <- sub t top1 ps;
      Ok (s1, set_at t top1 ps (PRem (start_of rp1) len), [])
  | _, _ => Panic
  end.

Definition rem_write (t : ty) (s : mach) (top : ptr) (ps : list pos) (idx b : Z) : out res :=
  do ' (rt, rp) <- sub t top ps;
  match rt, rp with
  | TRem, PRem a cur =>
      if (idx <? 0) || (cur <=? idx) then Err E_INDEX else
      do m1 <- wr (m_mem s) (a + idx) [b];
      Ok (set_mem s m1, top, [])
  | _, _ => Panic
  end.

(* ---- UnsizedList<T, C> ---- *)
Fixpoint write_new_offsets (m : list Z) (tbl esz : Z) (idx : Z) (ins isz : Z) (keys : list (list Z)) (i : Z) : out (list Z) :=
  match keys with
  | [] => Ok m
  | key :: r =>
      if U32_LIMIT <=? ins + i * isz then Err E_TRYFROMINT else
      do m1 <- wr m (tbl + (idx + i) * esz) (le_bytes 4 (ins + i * isz) ++ key);
      write_new_offsets m1 tbl esz idx ins isz r (i + 1)
  end.

Definition ulist_insert (t : ty) (s : mach) (top : ptr) (ps : list pos) (idx kind : Z) (keys : list (list Z)) : out res :=
  do ' (ut, up) <- sub t top ps;
  match ut, up with
  | TUList it k, PUList a n inner pmb rs re =>
      if negb (inner_ok up) then Panic else
      let top0 := set_at t top ps (set_pmb up false) in
      if n <? idx then efail s top0 E_INDEX else
      let esz := 4 + Z.of_nat k in
      do off <- ulist_offset k (m_mem s) a n idx;
      let dbase := ulist_dbase k a n in
      let start := dbase + off in
      let to_add := zlen keys in
      let isz := init_size it kind in
      let amount := (isz + esz) * to_add in
      catch (add_bytes t s top0 a start amount) s top0 (fun '(s1, top1) =>
      do ' (_, up1) <- sub t top1 ps;
      match up1 with
      | PUList a1 _ inner1 pmb1 rs1 re1 =>
          let n1 := n + to_add in
          let tbl := a1 + 8 in
          let new_off_start := tbl + idx * esz in
          (* shift [offset entries from idx .. up to the insertion point) down by to_add entries *)
          do m1 <- mmove (m_mem s1) (new_off_start + to_add * esz) new_off_start (start - new_off_start);
          if U32_LIMIT <=? n1 then Err E_TRYFROMINT else
          do m2 <- wr m1 (a1 + 4) (le_bytes 4 n1);
          do m3 <- wr m2 (tbl + n1 * esz) (le_bytes 4 n1);      (* the trailing copy of len *)
          let size_inc := to_add * isz in
          do usz <- rd32 m3 a1;
          if U32_LIMIT <=? size_inc then Err E_TRYFROMINT else
          if U32_LIMIT <=? usz + size_inc then Panic else       (* `+=` on u32 with overflow checks *)
          do m4 <- wr m3 a1 (le_bytes 4 (usz + size_inc));
          do m5 <- adjust_offsets m4 tbl n1 esz (idx + to_add) size_inc;
          let dbase1 := ulist_dbase k a1 n1 in
          let top2 := set_at t top1 ps (PUList a1 n1 inner1 pmb1 rs1 re1) in
          (* T::init for every item, then its offset entry *)
          match init_bytes it kind with
          | Ok ib =>
              do m6 <- wr m5 (dbase1 + off) (concat (repeat ib (Z.to_nat to_add)));
              do m7 <- write_new_offsets m6 tbl esz idx off isz keys 0;
              Ok (set_mem s1 m7, top2, [])
          | Err c =>
              (* the first init fails after the bytes were added and the header updated: state is left as is *)
              if to_add =? 0 then Ok (set_mem s1 m5, top2, []) else
              efail (set_mem s1 m5) top2 c
          | Panic => Panic
          | Fault => Fault
          end
      | _ => Panic
      end)
  | _, _ => Panic
  end.

Definition ulist_clear (t : ty) (s : mach) (top : ptr) (ps : list pos) : out res :=
  do ' (ut, up) <- sub t top ps;
  match ut, up with
  | TUList it k, PUList a n inner pmb rs re =>
      if negb (inner_ok up) then Panic else
      let top0 := set_at t top ps (set_pmb up false) in
      do usz <- rd32 (m_mem s) a;
      let start := a + 8 + 4 in
      let end_ := ulist_dbase k a n + usz in
      catch (remove_bytes t s top0 a start end_) s top0 (fun '(s1, top1) =>
      do ' (_, up1) <- sub t top1 ps;
      match up1 with
      | PUList a1 _ inner1 pmb1 rs1 re1 =>
          do m1 <- wr (m_mem s1) (a1 + 4) (le_bytes 4 0);
          do m2 <- wr m1 (a1 + 8) (le_bytes 4 0);
          do m3 <- wr m2 a1 (le_bytes 4 0);
          Ok (set_mem s1 m3, set_at t top1 ps (PUList a1 0 inner1 pmb1 rs1 re1), [])
      | _ => Panic
      end)
  | _, _ => Panic
  end.

Definition ulist_remove (t : ty) (s : mach) (top : ptr) (ps : list pos) (st en : Z) : out res :=
  do ' (ut, up) <- sub t top ps;
  match ut, up with
  | TUList it k, PUList a n inner pmb rs re =>
      if negb (inner_ok up) then Panic else
      let top0 := set_at t top ps (set_pmb up false) in
      if (st =? 0) && (en =? n) then ulist_clear t s top0 ps else
      if en <? st then efail s top0 E_RANGE else
      if n <? en then efail s top0 E_INDEX else
      let esz := 4 + Z.of_nat k in
      do so <- ulist_offset k (m_mem s) a n st;
      do eo <- ulist_offset k (m_mem s) a n en;
      let dbase := ulist_dbase k a n in
      let start_ptr := dbase + so in
      let to_remove := en - st in
      let removed := eo - so in
      let tbl := a + 8 in
      (* memmove BEFORE remove_bytes: close the gap of the removed offset entries *)
      do m1 <- mmove (m_mem s) (tbl + st * esz) (tbl + en * esz) (start_ptr - (tbl + en * esz));
      let s0 := set_mem s m1 in
      catch (remove_bytes t s0 top0 a (start_ptr - esz * to_remove) (dbase + eo)) s0 top0 (fun '(s1, top1) =>
      do ' (_, up1) <- sub t top1 ps;
      match up1 with
      | PUList a1 _ inner1 pmb1 rs1 re1 =>
          let n1 := n - to_remove in
          let tbl1 := a1 + 8 in
          do m2 <- wr (m_mem s1) (a1 + 4) (le_bytes 4 n1);
          do m3 <- wr m2 (tbl1 + n1 * esz) (le_bytes 4 n1);
          do usz <- rd32 m3 a1;
          if usz - removed <? 0 then Panic else
          do m4 <- wr m3 a1 (le_bytes 4 (usz - removed));
          do m5 <- adjust_offsets m4 tbl1 n1 esz st (- removed);
          Ok (set_mem s1 m5, set_at t top1 ps (PUList a1 n1 inner1 pmb1 rs1 re1), [])
      | _ => Panic
      end)
  | _, _ => Panic
  end.

(* get_mut(i): returns the element's data_len *)
Definition ulist_touch (ovf : bool) (t : ty) (s : mach) (top : ptr) (ps : list pos) (idx : Z) : out res :=
  do ' (ut, up) <- sub t top ps;
  match ut, up with
  | TUList it k, PUList a n inner pmb rs re =>
      do r <- ulist_range k (m_mem s) a n idx;
      match r with
      | None => Ok (s, top, [-1])
      | Some (st, _) =>
          do top1 <- ulist_enter ovf t s top ps st;
          do ' (_, q) <- sub t top1 (ps ++ [PI]);
          do dl <- data_len it (m_mem s) q;
          Ok (s, top1, [dl])
      end
  | _, _ => Panic
  end.

(* ---- whole-value replacement: set_data_inner ---- *)
Definition set_data (ovf : bool) (t : ty) (s : mach) (top : ptr) (ps : list pos) (new_len : Z) (bytes : out (list Z)) : out res :=
  do ' (vt, vp) <- sub t top ps;
  do cur <- data_len vt (m_mem s) vp;
  let st := start_of vp in
  do ' (s1, top1) <-
    (if cur <? new_len then add_bytes t s top st st (new_len - cur)
     else if cur =? new_len then Ok (s, top)
     else remove_bytes t s top st st (st + (cur - new_len)));
  match bytes with
  | Ok bs =>
      do m1 <- wr (m_mem s1) st bs;
      do ' (q, _) <- get_ptr ovf vt m1 st new_len;
      Ok (set_mem s1 m1, set_at t top1 ps q, [])
  | Err c => efail s1 top1 c              (* initialise failed after the resize *)
  | Panic => Panic
  | Fault => Fault
  end.
