(* C05 - sized (bytemuck) values as unsized types: the blanket impls of star_frame/src/unsize/impls/checked.rs.
     UnsizedInit<DefaultInit> for T   INIT_BYTES = size_of::<T>(); init advances the destination by size_of::<T>() bytes and
                                      copies bytes_of(&T::default_init()) there - the DEFAULT VALUE's bytes, which are not the
                                      all-zero pattern for a type that implements DefaultInitable by hand (only Zeroable types
                                      get the zeroed value, init.rs 29-36)
     UnsizedInit<T> for T             the same with the bytes of the argument
     owned / deserialize              exactly size_of::<T>() bytes that satisfy the type's bit-pattern check
   A sized type is described by its size, its bit-pattern check and the bytes of its default value. *)
From SF Require Import Base.Prelude Gen.Generated.

Record sized_ty := mkSized { s_size : nat; s_valid : list Z -> bool; s_default : list Z }.

Definition sized_ok (t : sized_ty) : Prop :=
  length (s_default t) = s_size t /\ bytes_ok (s_default t) = true /\ s_valid t (s_default t) = true.

(* the bytes an initializer denotes: None = DefaultInit, Some v = the value v itself *)
Definition denoted (t : sized_ty) (arg : option (list Z)) : list Z :=
  match arg with None => s_default t | Some v => v end.

(* init on a destination: the destination after the call and what is left of the cursor; None when it is too short *)
Definition sized_init (t : sized_ty) (arg : option (list Z)) (dst : list Z) : option (list Z * list Z) :=
  if (length dst <? s_size t)%nat then None
  else Some (denoted t arg ++ skipn (s_size t) dst, skipn (s_size t) dst).

Definition sized_parse (t : sized_ty) (bs : list Z) : option (list Z) :=
  if ((length bs =? s_size t)%nat && s_valid t bs)%bool then Some bs else None.

Fixpoint zlist_eqb (a b : list Z) : bool :=
  match a, b with
  | [], [] => true
  | x :: a', y :: b' => (x =? y) && zlist_eqb a' b'
  | _, _ => false
  end.

(* bit-pattern checks of the harness types: 0 = any pattern, 1 = every byte one of the listed discriminants *)
Definition valid_of (kind : Z) (ds : list Z) (bs : list Z) : bool :=
  if kind =? 0 then true else forallb (fun b => existsb (Z.eqb b) ds) bs.

(* c05s case: kind :: nd :: ds(nd) :: size :: mode :: filler :: extra :: default(size) :: [value(size) when mode = 1]
   observation: announced :: consumed :: written bytes (size) :: untouched tail intact (1/0) :: parses back to the denoted value (1/0) *)
Definition run_c05s (input : list Z) : list Z :=
  match input with
  | kind :: nd :: r0 =>
      let ds := firstn (Z.to_nat nd) r0 in
      match skipn (Z.to_nat nd) r0 with
      | size :: mode :: filler :: extra :: r1 =>
          let n := Z.to_nat size in
          let dflt := firstn n r1 in
          let arg := if mode =? 1 then Some (firstn n (skipn n r1)) else None in
          let t := mkSized n (valid_of kind ds) dflt in
          let dst := repeat filler (n + Z.to_nat extra) in
          match sized_init t arg dst with
          | Some (after, rest) =>
              [size; Z.of_nat (length dst) - Z.of_nat (length rest)] ++ firstn n after
              ++ [if zlist_eqb (skipn n after) (repeat filler (Z.to_nat extra)) then 1 else 0;
                  match sized_parse t (firstn n after) with
                  | Some v => if zlist_eqb v (denoted t arg) then 1 else 0
                  | None => 0
                  end]
          | None => [-1]
          end
      | _ => []
      end
  | _ => []
  end.
