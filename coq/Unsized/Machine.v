(* The pointer machine: an executable model of the exclusive-access implementation of unsized types.
   Memory is the account's allocation (current data + headroom) as a byte list; pointers are byte
   offsets from the start of the data; the pointer tree `ptr` mirrors every Rust `UnsizedType::Ptr`.

   Mirrors, line by line where it matters:
     wrapper.rs 345-546  add_bytes / remove_bytes (ensure!s, early return on 0, realloc-then-memmove
                         for growth, memmove-then-realloc for shrink, notification broadcast)
     wrapper.rs 661-707  set_data_inner (set_from_init / set_from_owned)
     list.rs 333-411     ListPtr::check_pointers, get_ptr, resize_notification;  479-574 insert_all, remove_range
     remaining_bytes.rs  get_ptr, resize_notification (three-way), set_len
     checked.rs          CheckedPtr
     unsized_list.rs 265-329 adjust_offsets(_from_ptr); 387-398 check_inner_initialized; 410-438 get / get_mut;
                     511-521 check_pointers; 539-601 get_ptr; 625-668 resize_notification (four-way);
                     671-689 unsized_list_exclusive_fn; 802-878 insert_all_with_offsets; 891-1006 remove_range, clear
     struct_impl.rs 596-676  generated struct: check_pointers, get_ptr, resize_notification (broadcast)
     enum_impl.rs 375-500    generated enum: StartPointer + variant
   Every access is tagged: CHECKED accesses (try_advance, slice indexing, ensure!) fail with Err / Panic,
   UNCHECKED raw-pointer accesses (reads through list_ptr, sol_memmove, from_raw_parts) fail with Fault
   when they leave the allocation [0, cap).
   No proofs in this file. *)
From SF Require Import Base.Prelude Gen.Generated Unsized.Types Unsized.Parse.

Definition E_PTR_OOB : Z := EC_POINTER_OUT_OF_BOUNDS.
Definition E_INDEX : Z := EC_INDEX_OUT_OF_BOUNDS.
Definition E_RANGE : Z := EC_INVALID_RANGE.
Definition E_TOPRIM : Z := EC_TO_PRIMITIVE_ERROR.
Definition E_TRYFROMINT : Z := EC_TRY_FROM_INT_ERROR.
Definition E_UNEXPECTED : Z := EC_UNSIZED_UNEXPECTED.
Definition E_REALLOC : Z := PE_INVALID_ACCOUNT_DATA_REALLOC.
Definition E_ARITH : Z := PE_ARITHMETIC_OVERFLOW.

(* ---------------------------------------------------------------------------------------------- *)
(* memory                                                                                          *)
Record mach := mkMach {
  m_mem : list Z;     (* the whole allocation, length = capacity *)
  m_len : Z;          (* current data length *)
  m_grow : Z;         (* number of growing reallocs granted so far *)
  m_refuse : Z;       (* 1 = the data access refuses growth during the current step (fault injection) *)
}.
Definition m_cap (s : mach) : Z := zlen (m_mem s).
Definition set_mem (s : mach) (m : list Z) : mach := mkMach m (m_len s) (m_grow s) (m_refuse s).

(* unchecked accesses *)
Definition rd (m : list Z) (a n : Z) : out (list Z) :=
  if (a <? 0) || (n <? 0) || (zlen m <? a + n) then Fault else Ok (ztake n (zdrop a m)).
Definition wr (m : list Z) (a : Z) (bs : list Z) : out (list Z) :=
  if (a <? 0) || (zlen m <? a + zlen bs) then Fault else Ok (ztake a m ++ bs ++ zdrop (a + zlen bs) m).
Definition mmove (m : list Z) (dst src n : Z) : out (list Z) :=
  if n =? 0 then Ok m else
  do bs <- rd m src n; wr m dst bs.
Definition rd32 (m : list Z) (a : Z) : out Z := do bs <- rd m a 4; Ok (le_decode bs).

(* UnsizedTypeDataAccess::unsized_data_realloc (the harness buffer = a runtime account: capacity is
   fixed, growth is zero-filled, growth may be refused for the duration of one step) *)
Definition realloc (s : mach) (new_len : Z) : out mach :=
  let grows := m_len s <? new_len in
  if grows && (m_refuse s =? 1) then Err E_REALLOC
  else if m_cap s <? new_len then Err E_REALLOC
  else if grows then
    do m' <- wr (m_mem s) (m_len s) (zrepeat 0 (new_len - m_len s));
    Ok (mkMach m' new_len (m_grow s + 1) (m_refuse s))
  else Ok (mkMach (m_mem s) new_len (m_grow s) (m_refuse s)).

(* ---------------------------------------------------------------------------------------------- *)
(* pointer trees                                                                                   *)
Inductive ptr :=
| PFixed (addr : Z)
| PList (addr : Z) (blen : Z)                               (* address of the length prefix; byte length of the items *)
| PRem (addr : Z) (len : Z)
| PUList (addr : Z) (n : Z) (inner : option ptr) (pmb : bool) (rs re : Z)
      (* list_ptr address + element count (pointer metadata); inner_exclusive; possible_mut_borrow; range *)
| PStruct (fs : list ptr)
| PEnum (start : Z) (d : Z) (p : ptr).                      (* StartPointer { data = variant d with pointer p; start } *)

Definition in_range (a lo hi : Z) : bool := (lo <=? a) && (a <? hi).

(* UnsizedTypePtr::check_pointers: (result, new cursor) *)
Fixpoint check_ptrs (p : ptr) (lo hi : Z) (cursor : Z) {struct p} : bool * Z :=
  match p with
  | PFixed a | PList a _ => ((cursor <=? a) && in_range a lo hi, a)
  | PRem a _ => ((cursor <=? a) && (in_range a lo hi || (a =? hi)), a)   (* an empty tail may sit at the end of the allocation *)
  | PUList a _ inner pmb _ _ =>
      (* the recorded inner pointer takes part only while a mutable borrow of an element may be live (D26) *)
      let ic := match inner with Some q => if pmb then fst (check_ptrs q lo hi lo) else true | None => true end in
      ((cursor <=? a) && in_range a lo hi && ic, a)
  | PStruct fs =>
      (fix go fs cursor :=
         match fs with
         | [] => (true, cursor)
         | f :: r =>
             let '(b, c1) := check_ptrs f lo hi cursor in
             (* `a && b && ... && true` short-circuits: the cursor of later fields is irrelevant once false *)
             if b then go r c1 else (false, c1)
         end) fs cursor
  | PEnum st _ q =>
      let adv := cursor <=? st in
      if adv && in_range st lo hi then check_ptrs q lo hi st else (false, st)
  end.

Definition top_check (s : mach) (top : ptr) : bool := fst (check_ptrs top 0 (m_cap s) 0).

(* UnsizedType::start_ptr / data_len, computed from the pointer (and memory for list headers) *)
Fixpoint start_of (p : ptr) : Z :=
  match p with
  | PFixed a | PList a _ | PRem a _ => a
  | PUList a _ _ _ _ _ => a
  | PStruct fs => match fs with f :: _ => start_of f | [] => 0 end
  | PEnum st _ _ => st
  end.

Fixpoint data_len (t : ty) (m : list Z) (p : ptr) {struct t} : out Z :=
  match t, p with
  | TFixed c, PFixed _ => Ok (Z.of_nat (fsize c))
  | TList c lw, PList _ blen => Ok (blen + Z.of_nat lw)
  | TRem, PRem _ len => Ok len
  | TUList it k, PUList a n _ _ _ _ =>
      (* total_byte_size = size_of_val(self) + 4 + unsized_size; size_of_val = 8 + n * (4+k) *)
      do usz <- rd32 m a;
      Ok (8 + n * (4 + Z.of_nat k) + 4 + usz)
  | TStruct ts, PStruct ps =>
      (fix go ts ps :=
         match ts, ps with
         | t :: ts', q :: ps' => do a <- data_len t m q; do b <- go ts' ps'; Ok (a + b)
         | _, _ => Ok 0
         end) ts ps
  | TEnum rw vs, PEnum _ d q =>
      (fix go vs :=
         match vs with
         | [] => Panic
         | (d', vt) :: r => if d =? d' then (do n <- data_len vt m q; Ok (Z.of_nat rw + n)) else go r
         end) vs
  | _, _ => Panic
  end.

(* UnsizedType::get_ptr on the raw slice [base, base+avail): pointer tree and bytes consumed.
   Reads go through the slice (bounds known) so failures are Err RawSliceAdvance like `extent`. *)
Fixpoint get_ptr (ovf : bool) (t : ty) (m : list Z) (base avail : Z) {struct t} : out (ptr * Z) :=
  match t with
  | TFixed c =>
      let n := Z.of_nat (fsize c) in
      if avail <? n then Err E_ADV else
      do bs <- rd m base n;
      if fvalid c bs then Ok (PFixed base, n) else Err E_CAST
  | TList c lw =>
      let w := Z.of_nat lw in
      if avail <? w then Err E_ADV else
      do h <- rd m base w;
      let total := Z.of_nat (fsize c) * le_decode h in
      if (U64_LIMIT <=? total) && ovf then Panic else
      let total := total mod U64_LIMIT in
      if avail - w <? total then Err E_ADV else Ok (PList base total, w + total)
  | TRem => Ok (PRem base avail, avail)
  | TUList it k =>
      if avail <? 4 then Err E_ADV else
      do usz <- rd32 m base;
      if avail - 4 <? 4 then Err E_ADV else
      do len <- rd32 m (base + 4);
      let osz := len * (4 + Z.of_nat k) in
      if avail - 8 <? osz then Err E_ADV else
      if avail - 8 - osz <? 4 then Err E_ADV else
      if avail - 12 - osz <? usz then Err E_ADV else
      let total := 12 + osz + usz in
      Ok (PUList base len None false base (base + total), total)
  | TStruct ts =>
      do ' (ps, n) <-
        (fix go ts base avail :=
           match ts with
           | [] => Ok ([], 0)
           | t :: r =>
               do ' (p, n) <- get_ptr ovf t m base avail;
               do ' (ps, k) <- go r (base + n) (avail - n);
               Ok (p :: ps, n + k)
           end) ts base avail;
      Ok (PStruct ps, n)
  | TEnum rw vs =>
      let w := Z.of_nat rw in
      if avail <? w then Err E_ADV else
      do h <- rd m base w;
      let d := le_decode h in
      (fix go vs :=
         match vs with
         | [] => Err E_INVALID_DATA
         | (d', vt) :: r =>
             if d =? d' then (do ' (q, n) <- get_ptr ovf vt m (base + w) (avail - w); Ok (PEnum base d q, w + n))
             else go r
         end) vs
  end.

(* UnsizedType::owned_from_ptr: the value read THROUGH the live pointers (addresses and metadata held by
   the pointer tree), which is what a program holding the exclusive wrapper observes *)
Fixpoint owned_ptr (ovf : bool) (t : ty) (m : list Z) (p : ptr) {struct t} : out val :=
  match t, p with
  | TFixed c, PFixed a => do bs <- rd m a (Z.of_nat (fsize c)); Ok (VBytes bs)
  | TList c lw, PList a blen =>
      do body <- rd m (a + Z.of_nat lw) blen;
      let items := chunks (length body) (fsize c) body in
      if forallb (fvalid c) items then Ok (VList items) else Err E_CAST
  | TRem, PRem a len => do bs <- rd m a len; Ok (VBytes bs)
  | TUList it k, PUList a n _ _ _ _ =>
      do usz <- rd32 m a;
      let esz := 4 + Z.of_nat k in
      do ob <- rd m (a + 8) (n * esz);
      let ents := split_entries k n ob in
      let dbase := a + 8 + n * esz + 4 in
      if (k =? 0)%nat then
      do l <-
        (fix go ents :=
           match ents with
           | [] => Ok []
           | (off, key) :: r =>
               if usz <? off then Panic else
               do ' (q, _) <- get_ptr ovf it m (dbase + off) (usz - off);
               do v <- owned_ptr ovf it m q;
               do vs <- go r;
               Ok ((key, v) :: vs)
           end) ents;
      Ok (VUList l)
      else
      (* UnsizedMap: through the offset iterator, collected into a BTreeMap (see Parse.owned) *)
      do l <-
        (fix go ents :=
           match ents with
           | [] => Ok []
           | (off, key) :: r =>
               let en := match r with (o2, _) :: _ => o2 | [] => usz end in
               if (en <? off) || (usz <? en) then Err EC_POINTER_OUT_OF_BOUNDS else
               match get_ptr ovf it m (dbase + off) (en - off) with
               | Ok (q, _) => do v <- owned_ptr ovf it m q; do vs <- go r; Ok ((key, v) :: vs)
               | Err _ => Ok []
               | Panic => Panic
               | Fault => Fault
               end
           end) ents;
      Ok (VUList (bt_collect l))
  | TStruct ts, PStruct ps =>
      do l <-
        (fix go ts ps :=
           match ts, ps with
           | t :: ts', q :: ps' => do v <- owned_ptr ovf t m q; do vs <- go ts' ps'; Ok (v :: vs)
           | _, _ => Ok []
           end) ts ps;
      Ok (VStruct l)
  | TEnum rw vs, PEnum _ d q =>
      (fix go vs :=
         match vs with
         | [] => Panic
         | (d', vt) :: r => if d =? d' then (do v <- owned_ptr ovf vt m q; Ok (VEnum d v)) else go r
         end) vs
  | _, _ => Panic
  end.

(* ---------------------------------------------------------------------------------------------- *)
(* resize notifications                                                                            *)
Definition wrap_usize (z : Z) : Z := z mod U64_LIMIT.

(* first index whose offset is >= target / the Ok(i) => i+1 rule of adjust_offsets_from_ptr *)
Fixpoint search_offsets (offs : list Z) (target : Z) (i : Z) : Z :=
  match offs with
  | [] => i
  | o :: r => if o <? target then search_offsets r target (i + 1)
              else if o =? target then i + 1 else i
  end.

(* adjust_offsets(start_index, change) on the offset table at `tbl` (n entries of stride `esz`) *)
Definition adjust_offsets (m : list Z) (tbl n esz start change : Z) : out (list Z) :=
  if n =? 0 then Ok m else
  if change =? 0 then Ok m else
  if n <=? start then Ok m else
  (* the checked element: first (shrink) / last (growth) of the adjusted suffix *)
  let chk := if change <? 0 then start else n - 1 in
  do c <- rd32 m (tbl + chk * esz);
  if (c + change <? 0) || (U32_LIMIT <=? c + change) then Err E_ARITH else
  (fix go (fuel : nat) (i : Z) (m : list Z) : out (list Z) :=
     match fuel with
     | O => Ok m
     | S f =>
         if n <=? i then Ok m else
         do o <- rd32 m (tbl + i * esz);
         do m' <- wr m (tbl + i * esz) (le_bytes 4 ((o + change) mod U32_LIMIT));
         go f (i + 1) m'
     end) (Z.to_nat (n - start)) start m.

Fixpoint read_offsets (m : list Z) (tbl esz : Z) (n : nat) (i : Z) : out (list Z) :=
  match n with
  | O => Ok []
  | S k => do o <- rd32 m (tbl + i * esz); do r <- read_offsets m tbl esz k (i + 1); Ok (o :: r)
  end.

Fixpoint notify (t : ty) (p : ptr) (src c : Z) (m : list Z) {struct t} : out (ptr * list Z) :=
  match t, p with
  | TFixed _, PFixed a => Ok ((if src <? a then PFixed (a + c) else p), m)
  | TList _ _, PList a bl => Ok ((if src <? a then PList (a + c) bl else p), m)
  | TRem, PRem a len =>
      if src <? a then Ok (PRem (a + c) len, m)
      else if src =? a then Ok (p, m)
      else Err E_UNEXPECTED
  | TUList it k, PUList a n inner pmb rs re =>
      let esz := 4 + Z.of_nat k in
      if src <? a then
        (* "the change happened before me": the recorded inner pointer moves with the list *)
        match inner with
        | None => Ok (PUList (a + c) n None pmb (rs + c) (re + c), m)
        | Some q => do ' (q', m1) <- notify it q src c m; Ok (PUList (a + c) n (Some q') pmb (rs + c) (re + c), m1)
        end
      else if src =? a then Ok (PUList a n inner pmb rs (re + c), m)
      else
        do usz <- rd32 m a;
        let total := 8 + n * esz + 4 + usz in
        if src <? a + total then
          match inner with
          | None => Err E_UNEXPECTED
          | Some q =>
              do ' (q', m1) <- notify it q src c m;
              do m2 <- wr m1 a (le_bytes 4 (usz + c));
              let tbl := a + 8 in
              let dbase := a + 8 + n * esz + 4 in
              do offs <- read_offsets m2 tbl esz (Z.to_nat n) 0;
              let start := if n =? 0 then 0 else search_offsets offs (src - dbase) 0 in
              do m3 <- adjust_offsets m2 tbl n esz start c;
              Ok (PUList a n (Some q') pmb rs (re + c), m3)
          end
        else Ok (p, m)
  | TStruct ts, PStruct ps =>
      do ' (ps', m') <-
        (fix go ts ps m :=
           match ts, ps with
           | t :: ts', q :: ps' =>
               do ' (q', m1) <- notify t q src c m;
               do ' (r', m2) <- go ts' ps' m1;
               Ok (q' :: r', m2)
           | _, _ => Ok ([], m)
           end) ts ps m;
      Ok (PStruct ps', m')
  | TEnum rw vs, PEnum st d q =>
      let st' := if src <? st then st + c else st in
      (fix go vs :=
         match vs with
         | [] => Panic
         | (d', vt) :: r => if d =? d' then (do ' (q', m') <- notify vt q src c m; Ok (PEnum st' d q', m')) else go r
         end) vs
  | _, _ => Panic
  end.

(* ---------------------------------------------------------------------------------------------- *)
(* add_bytes / remove_bytes at the top wrapper                                                     *)
Definition add_bytes (t : ty) (s : mach) (top : ptr) (src start amount : Z) : out (mach * ptr) :=
  if negb (top_check s top) then Panic else          (* debug_assert! *)
  let old_len := m_len s in
  if (start <? 0) || (old_len <? start) then Err E_PTR_OOB else
  if amount =? 0 then Ok (s, top) else
  do s1 <- realloc s (old_len + amount);
  do m1 <- (if start =? old_len then Ok (m_mem s1) else mmove (m_mem s1) (start + amount) start (old_len - start));
  do ' (top', m2) <- notify t top src amount m1;
  Ok (set_mem s1 m2, top').

Definition remove_bytes (t : ty) (s : mach) (top : ptr) (src start end_ : Z) : out (mach * ptr) :=
  if negb (top_check s top) then Panic else
  let old_len := m_len s in
  if (start <? 0) || (old_len <? start) then Err E_PTR_OOB else
  if (end_ <? start) || (old_len <? end_) then Err E_PTR_OOB else
  let amount := end_ - start in
  if amount =? 0 then Ok (s, top) else
  do m1 <- (if end_ =? old_len then Ok (m_mem s) else mmove (m_mem s) start end_ (old_len - end_));
  do s1 <- realloc (set_mem s m1) (old_len - amount);
  do ' (top', m2) <- notify t top src (- amount) (m_mem s1);
  Ok (set_mem s1 m2, top').
