(* Reading bytes as an unsized type: `extent` mirrors UnsizedType::get_ptr (how many bytes the value
   occupies, with every error get_ptr can return), `owned` mirrors owned_from_ptr, `parse` =
   UnsizedType::owned = get_ptr then owned_from_ptr.  Every slice access of the Rust code is a
   CHECKED access here (try_advance -> Err RawSliceAdvance, slice index -> Panic); the one unchecked
   access path of the parser (the offset iterator) is modelled separately in Iter.v.
   `ovf` = whether integer overflow checks are compiled in (debug / the workspace's release profile).
   No proofs in this file. *)
From SF Require Import Base.Prelude Gen.Generated Unsized.Types.

Definition E_ADV : Z := EC_RAW_SLICE_ADVANCE.
Definition E_CAST : Z := EC_CHECKED_CAST_ERROR.
Definition E_INVALID_DATA : Z := PE_INVALID_ACCOUNT_DATA.

(* RawSliceAdvance::try_advance on the remaining slice *)
Definition adv (n : Z) (bs : list Z) : out (list Z * list Z) :=
  if (n <? 0) || (zlen bs <? n) then Err E_ADV else Ok (ztake n bs, zdrop n bs).

Fixpoint chunks (fuel : nat) (n : nat) (bs : list Z) : list (list Z) :=
  match fuel with
  | O => []
  | S k => match bs with [] => [] | _ => firstn n bs :: chunks k n (skipn n bs) end
  end.

Fixpoint extent (ovf : bool) (t : ty) (bs : list Z) {struct t} : out Z :=
  match t with
  | TFixed c =>
      do ' (h, _) <- adv (Z.of_nat (fsize c)) bs;
      if fvalid c h then Ok (Z.of_nat (fsize c)) else Err E_CAST
  | TList c lw =>
      do ' (h, r) <- adv (Z.of_nat lw) bs;
      let len := le_decode h in
      let total := Z.of_nat (fsize c) * len in
      if (U64_LIMIT <=? total) && ovf then Panic else
      let total := total mod U64_LIMIT in
      do ' (_, _) <- adv total r;
      Ok (Z.of_nat lw + total)
  | TRem => Ok (zlen bs)
  | TUList it k =>
      do ' (h1, r1) <- adv 4 bs;
      do ' (h2, r2) <- adv 4 r1;
      let usz := le_decode h1 in
      let len := le_decode h2 in
      do ' (_, r3) <- adv (len * (4 + Z.of_nat k)) r2;
      do ' (_, r4) <- adv 4 r3;
      do ' (_, _) <- adv usz r4;
      Ok (12 + len * (4 + Z.of_nat k) + usz)
  | TStruct ts =>
      (fix go ts bs :=
         match ts with
         | [] => Ok 0
         | t :: r => do n <- extent ovf t bs; do m <- go r (zdrop n bs); Ok (n + m)
         end) ts bs
  | TEnum rw vs =>
      do ' (h, r) <- adv (Z.of_nat rw) bs;
      (fix go vs :=
         match vs with
         | [] => Err E_INVALID_DATA
         | (d, t) :: vs' => if le_decode h =? d then (do n <- extent ovf t r; Ok (Z.of_nat rw + n)) else go vs'
         end) vs
  end.

(* BTreeMap::insert on an association list kept in ascending key order (keys compare as LE integers) *)
Fixpoint bt_insert {A} (key : list Z) (v : A) (l : list (list Z * A)) : list (list Z * A) :=
  match l with
  | [] => [(key, v)]
  | (k', v') :: r =>
      if le_decode key <? le_decode k' then (key, v) :: l
      else if le_decode key =? le_decode k' then (key, v) :: r
      else (k', v') :: bt_insert key v r
  end.
Definition bt_collect {A} (l : list (list Z * A)) : list (list Z * A) :=
  fold_left (fun acc kv => bt_insert (fst kv) (snd kv) acc) l [].

Definition omap {A B} (f : A -> B) (o : out A) : out B := do a <- o; Ok (f a).

(* offset entries of an UnsizedList: (offset, key bytes) *)
Definition split_entries (k : nat) (len : Z) (bs : list Z) : list (Z * list Z) :=
  map (fun e => (le_decode (firstn 4 e), skipn 4 e)) (chunks (Z.to_nat len) (4 + k) bs).

Fixpoint owned (ovf : bool) (t : ty) (bs : list Z) {struct t} : out val :=
  match t with
  | TFixed c => Ok (VBytes (firstn (fsize c) bs))
  | TList c lw =>
      let len := le_decode (firstn lw bs) in
      let total := (Z.of_nat (fsize c) * len) mod U64_LIMIT in
      let body := ztake total (skipn lw bs) in
      let items := chunks (length body) (fsize c) body in
      if forallb (fvalid c) items then Ok (VList items) else Err E_CAST
  | TRem => Ok (VBytes bs)
  | TUList it k =>
      let usz := le_decode (firstn 4 bs) in
      let len := le_decode (firstn 4 (skipn 4 bs)) in
      let ents := split_entries k len (ztake (len * (4 + Z.of_nat k)) (skipn 8 bs)) in
      let data := ztake usz (zdrop (12 + len * (4 + Z.of_nat k)) bs) in
      if (k =? 0)%nat then
      omap VUList ((fix go ents :=
         match ents with
         | [] => Ok []
         | (off, key) :: r =>
             if usz <? off then Panic else          (* &unsized_bytes[off..] *)
             let sl := zdrop off data in
             do _ <- extent ovf it sl;
             do v <- owned ovf it sl;
             do vs <- go r;
             Ok ((key, v) :: vs)
         end) ents)
      else
      (* UnsizedMap: owned_from_ptr goes through the offset iterator (unsized_list.rs 1233-1249): element i is
         the slice [off_i, off_{i+1}) of the unsized bytes (checked); an element that does not parse ENDS the
         iteration (`.ok()?`); the pairs are collected into a BTreeMap (ascending keys, a later duplicate wins) *)
      omap (fun l => VUList (bt_collect l)) ((fix go ents :=
         match ents with
         | [] => Ok []
         | (off, key) :: r =>
             let en := match r with (o2, _) :: _ => o2 | [] => usz end in
             if (en <? off) || (usz <? en) then Err EC_POINTER_OUT_OF_BOUNDS else
             let sl := ztake (en - off) (zdrop off data) in
             match extent ovf it sl with
             | Ok _ => do v <- owned ovf it sl; do vs <- go r; Ok ((key, v) :: vs)
             | Err _ => Ok []
             | Panic => Panic
             | Fault => Fault
             end
         end) ents)
  | TStruct ts =>
      omap VStruct ((fix go ts bs :=
         match ts with
         | [] => Ok []
         | t :: r =>
             do n <- extent ovf t bs;
             do v <- owned ovf t bs;
             do vs <- go r (zdrop n bs);
             Ok (v :: vs)
         end) ts bs)
  | TEnum rw vs =>
      let d := le_decode (firstn rw bs) in
      (fix go vs :=
         match vs with
         | [] => Err E_INVALID_DATA
         | (d', t) :: vs' => if d =? d' then (do p <- owned ovf t (skipn rw bs); Ok (VEnum d p)) else go vs'
         end) vs
  end.

(* UnsizedType::owned(data): get_ptr on the whole slice, then owned_from_ptr; also reports how many
   bytes the value occupies (its extent, what data_len / start_ptr describe) *)
Definition parse (ovf : bool) (t : ty) (bs : list Z) : out (val * Z) :=
  do n <- extent ovf t bs;
  do v <- owned ovf t bs;
  Ok (v, n).
