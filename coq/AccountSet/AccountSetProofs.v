(* C14 - proofs about the three views of an account set (AccountSet.v).  Axiom-free. *)
From SF Require Import Base.Prelude Gen.Generated AccountSet.AccountSet.

(* ---- induction over shapes (nested through the field list of Struct) --------------------------- *)
Section ShapeInd.
  Variable P : shape -> Prop.
  Hypothesis HLeaf : forall mods, P (Leaf mods).
  Hypothesis HProg : forall id, P (ProgramLeaf id).
  Hypothesis HSys : forall id, P (SysvarLeaf id).
  Hypothesis HOpt : forall s, P s -> P (Opt s).
  Hypothesis HVec : forall s, P s -> P (Vec s).
  Hypothesis HArr : forall n s, P s -> P (Arr n s).
  Hypothesis HBox : forall s, P s -> P (Boxed s).
  Hypothesis HRest : forall s, P s -> P (Rest s).
  Hypothesis HStruct : forall fs, Forall P fs -> P (Struct fs).

  Fixpoint shape_ind' (s : shape) : P s :=
    match s with
    | Leaf mods => HLeaf mods
    | ProgramLeaf id => HProg id
    | SysvarLeaf id => HSys id
    | Opt s' => HOpt s' (shape_ind' s')
    | Vec s' => HVec s' (shape_ind' s')
    | Arr n s' => HArr n s' (shape_ind' s')
    | Boxed s' => HBox s' (shape_ind' s')
    | Rest s' => HRest s' (shape_ind' s')
    | Struct fs =>
        HStruct fs ((fix go (l : list shape) : Forall P l :=
                       match l with
                       | [] => Forall_nil P
                       | f :: r => Forall_cons f (shape_ind' f) (go r)
                       end) fs)
    end.
End ShapeInd.

(* ---- declared flags = required flags ------------------------------------------------------------ *)
Lemma leaf_meta_from_spec sg wr mods :
  leaf_meta_from sg wr mods = (sg || req_signer mods, wr || req_writable mods).
Proof.
  revert sg wr; induction mods as [|m mods IH]; intros sg wr; cbn [leaf_meta_from req_signer req_writable existsb].
  - now rewrite !orb_false_r.
  - destruct m as [b|b]; rewrite IH; unfold req_signer, req_writable; cbn [existsb];
      destruct b, sg, wr; cbn; reflexivity.
Qed.

Theorem leaf_meta_exact mods : leaf_meta mods = (req_signer mods, req_writable mods).
Proof. unfold leaf_meta. now rewrite leaf_meta_from_spec. Qed.

Lemma validate_mods_ok mods a :
  (req_signer mods = true -> m_signer a = true) ->
  (req_writable mods = true -> m_writable a = true) ->
  validate_mods mods a = Ok tt.
Proof.
  induction mods as [|m mods IH]; intros Hs Hw; [reflexivity|].
  unfold req_signer, req_writable in *. cbn [existsb validate_mods] in *.
  destruct m as [b|b]; destruct b; cbn [andb negb orb] in *.
  - rewrite Hs by reflexivity. cbn. apply IH; auto.
  - apply IH; auto.
  - rewrite Hw by reflexivity. cbn. apply IH; auto.
  - apply IH; auto.
Qed.

(* ---- decode of the client's own metas ------------------------------------------------------------- *)
Lemma rep_ok (f : list meta -> dres) (M : cval -> list meta) (Dv : cval -> dval) cs :
  Forall (fun c => forall tl, f (M c ++ tl) = Ok (Dv c, tl)) cs ->
  forall tl, rep f (length cs) (flat_map M cs ++ tl) = Ok (map Dv cs, tl).
Proof.
  induction 1 as [|c cs Hc _ IH]; intros tl; [reflexivity|].
  cbn [length rep flat_map map]. rewrite <- app_assoc, Hc. cbn [obind fst snd].
  rewrite IH. reflexivity.
Qed.

Lemma rest_loop_step (f : list meta -> dres) fuel accts :
  accts <> [] ->
  rest_loop f (S fuel) accts =
  (do r <- f accts; do r' <- rest_loop f fuel (snd r); Ok (fst r :: fst r', snd r')).
Proof. destruct accts; [contradiction|reflexivity]. Qed.

Lemma rest_ok (f : list meta -> dres) (M : cval -> list meta) (Dv : cval -> dval) cs :
  Forall (fun c => (forall tl, f (M c ++ tl) = Ok (Dv c, tl)) /\ M c <> []) cs ->
  forall fuel, (length (flat_map M cs) < fuel)%nat ->
  rest_loop f fuel (flat_map M cs) = Ok (map Dv cs, []).
Proof.
  induction 1 as [|c cs [Hc Hne] _ IH]; intros fuel Hf.
  - destruct fuel; reflexivity.
  - cbn [flat_map map] in *. rewrite app_length in Hf.
    assert (0 < length (M c))%nat by (destruct (M c); [contradiction|cbn; lia]).
    destruct fuel as [|fuel]; [lia|].
    rewrite rest_loop_step.
    + rewrite Hc. cbn [obind fst snd]. rewrite IH by lia. reflexivity.
    + intros E. apply app_eq_nil in E as [E _]. contradiction.
Qed.

Definition decodes_back (pid : Z) (s : shape) : Prop :=
  forall lens last c tl,
    wf_client pid s lens last c = true -> (last = true -> tl = []) ->
    decode pid s lens (accounts_of (client_metas pid s c) ++ tl) = Ok (dshape pid s c, tl).

Lemma fields_ok pid fs :
  Forall (decodes_back pid) fs ->
  forall lens last cs tl,
    wf_fields (wf_client pid) fs lens last cs = true -> (last = true -> tl = []) ->
    decode_fields (decode pid) fs lens (zip_fields (client_metas pid) fs cs ++ tl)
    = Ok (zip_dshape (dshape pid) fs cs, tl).
Proof.
  induction 1 as [|f fs Hf _ IH]; intros lens last cs tl Hwf Htl.
  - destruct cs; [reflexivity|discriminate].
  - destruct cs as [|c cs]; [discriminate|].
    cbn [wf_fields] in Hwf. apply andb_true_iff in Hwf as [H1 H2].
    cbn [zip_fields zip_dshape decode_fields]. rewrite <- app_assoc.
    unfold decodes_back, accounts_of in Hf. rewrite (Hf _ _ _ _ H1).
    + cbn [obind fst snd]. rewrite (IH _ _ _ _ H2 Htl). reflexivity.
    + intros Hl. apply andb_true_iff in Hl as [Hl Hn]. destruct fs; [|discriminate].
      destruct cs; [|discriminate]. cbn [zip_fields app]. auto.
Qed.

Theorem decode_client_gen pid s : decodes_back pid s.
Proof.
  induction s using shape_ind'; unfold decodes_back, accounts_of in *; intros lens last c tl Hwf Htl.
  - (* Leaf *) destruct c; try discriminate. reflexivity.
  - destruct c; try discriminate. reflexivity.
  - destruct c; try discriminate. reflexivity.
  - (* Opt *)
    destruct c as [| |[c'|]| |]; try discriminate.
    + cbn [wf_client] in Hwf. apply andb_true_iff in Hwf as [H1 H2].
      cbn [client_metas dshape]. specialize (IHs _ _ _ _ H1 Htl).
      destruct (client_metas pid s c') as [|m ms] eqn:E; [discriminate|].
      cbn [first_key_ok] in H2. apply negb_true_iff in H2.
      cbn [app decode]. rewrite H2. change (m :: ms ++ tl) with ((m :: ms) ++ tl). rewrite IHs. reflexivity.
    + cbn [client_metas dshape app decode placeholder m_key]. rewrite Z.eqb_refl. reflexivity.
  - (* Vec *)
    destruct c as [| | |cs|]; try discriminate.
    cbn [wf_client] in Hwf. apply andb_true_iff in Hwf as [H1 H2]. apply Nat.eqb_eq in H1.
    cbn [client_metas dshape decode]. rewrite <- H1.
    rewrite (rep_ok _ (client_metas pid s) (dshape pid s)); [reflexivity|].
    apply Forall_forall. intros c Hin tl'. rewrite forallb_forall in H2.
    apply (IHs (List.tl lens) false); [now apply H2|discriminate].
  - (* Arr *)
    destruct c as [| | |cs|]; try discriminate.
    cbn [wf_client] in Hwf. apply andb_true_iff in Hwf as [H1 H2]. apply Nat.eqb_eq in H1.
    cbn [client_metas dshape decode]. rewrite <- H1.
    rewrite (rep_ok _ (client_metas pid s) (dshape pid s)); [reflexivity|].
    apply Forall_forall. intros c Hin tl'. rewrite forallb_forall in H2.
    apply (IHs lens false); [now apply H2|discriminate].
  - (* Boxed *) cbn [wf_client client_metas dshape decode] in *. now apply (IHs lens last).
  - (* Rest *)
    destruct c as [| | |cs|]; try discriminate.
    cbn [wf_client] in Hwf. apply andb_true_iff in Hwf as [H1 H2]. subst last. rewrite (Htl eq_refl), app_nil_r.
    cbn [client_metas dshape decode].
    rewrite (rest_ok _ (client_metas pid s) (dshape pid s)); [reflexivity| |lia].
    apply Forall_forall. intros c Hin. rewrite forallb_forall in H2. specialize (H2 _ Hin).
    apply andb_true_iff in H2 as [H3 H4]. split.
    + intros tl'. apply (IHs lens false); [exact H3|discriminate].
    + intros E. rewrite E in H4. discriminate.
  - (* Struct *)
    destruct c as [| | | |cs]; try discriminate.
    cbn [wf_client client_metas dshape decode] in *.
    rewrite (fields_ok pid fs H _ _ _ _ Hwf Htl). reflexivity.
Qed.

Theorem decode_client pid s lens c :
  wf_client pid s lens true c = true ->
  decode pid s lens (accounts_of (client_metas pid s c)) = Ok (dshape pid s c, []).
Proof.
  intros Hwf. pose proof (decode_client_gen pid s lens true c [] Hwf (fun _ => eq_refl)) as Hd.
  now rewrite app_nil_r in Hd.
Qed.

(* ---- flags suffice ------------------------------------------------------------------------------ *)
Lemma validate_list_ok (V : dval -> out unit) ds :
  Forall (fun d => V d = Ok tt) ds -> validate_list V ds = Ok tt.
Proof. induction 1 as [|d ds Hd _ IH]; [reflexivity|]. cbn [validate_list]. rewrite Hd. exact IH. Qed.

Definition validates (pid : Z) (s : shape) : Prop :=
  forall c, keys_valid s c = true -> validate s (dshape pid s c) = Ok tt.

Lemma validate_fields_ok pid fs :
  Forall (validates pid) fs ->
  forall cs, keys_valid_fields keys_valid fs cs = true ->
    validate_fields validate fs (zip_dshape (dshape pid) fs cs) = Ok tt.
Proof.
  induction 1 as [|f fs Hf _ IH]; intros cs Hk; [reflexivity|].
  destruct cs as [|c cs]; [reflexivity|].
  cbn [keys_valid_fields] in Hk. apply andb_true_iff in Hk as [H1 H2].
  cbn [zip_dshape validate_fields]. rewrite (Hf _ H1). cbn [obind]. now apply IH.
Qed.

Theorem flags_suffice pid s : validates pid s.
Proof.
  induction s using shape_ind'; unfold validates in *; intros c Hk.
  - destruct c; try reflexivity. cbn [dshape validate]. apply validate_mods_ok; rewrite leaf_meta_exact; cbn; auto.
  - destruct c; try reflexivity. cbn [dshape validate keys_valid m_key] in *. now rewrite Hk.
  - destruct c; try reflexivity. cbn [dshape validate keys_valid m_key] in *. now rewrite Hk.
  - destruct c as [| |[c'|]| |]; try reflexivity. cbn [dshape validate keys_valid] in *. now apply IHs.
  - destruct c as [| | |cs|]; try reflexivity. cbn [dshape validate keys_valid] in *.
    apply validate_list_ok. apply Forall_forall. intros d Hin. apply in_map_iff in Hin as (c & <- & Hc).
    rewrite forallb_forall in Hk. apply IHs. now apply Hk.
  - destruct c as [| | |cs|]; try reflexivity. cbn [dshape validate keys_valid] in *.
    apply validate_list_ok. apply Forall_forall. intros d Hin. apply in_map_iff in Hin as (c & <- & Hc).
    rewrite forallb_forall in Hk. apply IHs. now apply Hk.
  - cbn [dshape validate keys_valid] in *. now apply IHs.
  - destruct c as [| | |cs|]; try reflexivity. cbn [dshape validate keys_valid] in *.
    apply validate_list_ok. apply Forall_forall. intros d Hin. apply in_map_iff in Hin as (c & <- & Hc).
    rewrite forallb_forall in Hk. apply IHs. now apply Hk.
  - destruct c as [| | | |cs]; try (cbn; destruct fs; reflexivity). cbn [dshape validate keys_valid] in *.
    now apply validate_fields_ok.
Qed.

(* the program's entry path accepts what the client built *)
Theorem entry_accepts pid s lens c :
  wf_client pid s lens true c = true -> keys_valid s c = true ->
  entry pid s lens (accounts_of (client_metas pid s c)) = Ok (dshape pid s c).
Proof.
  intros Hwf Hk. unfold entry. rewrite (decode_client _ _ _ _ Hwf). cbn [obind fst].
  rewrite (flags_suffice pid s c Hk). reflexivity.
Qed.

(* ---- CPI metas = client metas ------------------------------------------------------------------- *)
Lemma cpi_fields_eq pid fs :
  Forall (fun s => forall c, cpi_metas pid s (dshape pid s c) = client_metas pid s c) fs ->
  forall cs, cpi_fields (cpi_metas pid) fs (zip_dshape (dshape pid) fs cs) = zip_fields (client_metas pid) fs cs.
Proof.
  induction 1 as [|f fs Hf _ IH]; intros cs; [reflexivity|].
  destruct cs as [|c cs]; [reflexivity|].
  cbn [zip_dshape cpi_fields zip_fields]. now rewrite Hf, IH.
Qed.

Lemma flat_map_map {A B C} (f : B -> list C) (g : A -> B) l : flat_map f (map g l) = flat_map (fun x => f (g x)) l.
Proof. induction l as [|x l IH]; [reflexivity|]. cbn [map flat_map]. now rewrite IH. Qed.

Lemma flat_map_ext_in {A B} (f g : A -> list B) l : (forall x, In x l -> f x = g x) -> flat_map f l = flat_map g l.
Proof.
  induction l as [|x l IH]; intros H; [reflexivity|]. cbn [flat_map].
  rewrite H by now left. rewrite IH; [reflexivity|]. intros y Hy. apply H. now right.
Qed.

Theorem cpi_eq_client pid s : forall c, cpi_metas pid s (dshape pid s c) = client_metas pid s c.
Proof.
  induction s using shape_ind'; intros c.
  - destruct c; reflexivity.
  - destruct c; reflexivity.
  - destruct c; reflexivity.
  - destruct c as [| |[c'|]| |]; try reflexivity. cbn [dshape cpi_metas client_metas]. apply IHs.
  - destruct c as [| | |cs|]; try reflexivity. cbn [dshape cpi_metas client_metas].
    rewrite flat_map_map. apply flat_map_ext_in. intros; apply IHs.
  - destruct c as [| | |cs|]; try reflexivity. cbn [dshape cpi_metas client_metas].
    rewrite flat_map_map. apply flat_map_ext_in. intros; apply IHs.
  - cbn [dshape cpi_metas client_metas]. apply IHs.
  - destruct c as [| | |cs|]; try reflexivity. cbn [dshape cpi_metas client_metas].
    rewrite flat_map_map. apply flat_map_ext_in. intros; apply IHs.
  - destruct c as [| | | |cs]; try (cbn; destruct fs; reflexivity). cbn [dshape cpi_metas client_metas].
    now apply cpi_fields_eq.
Qed.

(* ---- CPI infos ---------------------------------------------------------------------------------- *)
Lemma infos_list_ok (F : dval -> ires) (K : dval -> list Z) ds :
  Forall (fun d => F d = IOk (K d)) ds -> infos_list F ds = IOk (flat_map K ds).
Proof.
  induction 1 as [|d ds Hd _ IH]; [reflexivity|].
  cbn [infos_list flat_map]. unfold ibind. now rewrite Hd, IH.
Qed.

Lemma infos_list_ext (F G : dval -> ires) ds : (forall d, In d ds -> F d = G d) -> infos_list F ds = infos_list G ds.
Proof.
  induction ds as [|d ds IH]; intros H; [reflexivity|]. cbn [infos_list].
  rewrite H by now left. rewrite IH; [reflexivity|]. intros; apply H; now right.
Qed.

Definition infos_back (pid : Z) (s : shape) : Prop :=
  forall c, cpi_infos (Some pid) s (dshape pid s c) = IOk (map m_key (client_metas pid s c)).

Lemma infos_fields_ok pid fs :
  Forall (infos_back pid) fs ->
  forall cs, infos_fields (cpi_infos (Some pid)) fs (zip_dshape (dshape pid) fs cs)
             = IOk (map m_key (zip_fields (client_metas pid) fs cs)).
Proof.
  induction 1 as [|f fs Hf _ IH]; intros cs; [reflexivity|].
  destruct cs as [|c cs]; [reflexivity|].
  cbn [zip_dshape infos_fields zip_fields]. unfold ibind. rewrite Hf, IH, map_app. reflexivity.
Qed.

Lemma map_flat_map {A B C} (g : B -> C) (f : A -> list B) l : map g (flat_map f l) = flat_map (fun x => map g (f x)) l.
Proof. induction l as [|x l IH]; [reflexivity|]. cbn [flat_map]. now rewrite map_app, IH. Qed.

Theorem cpi_infos_client pid s : infos_back pid s.
Proof.
  induction s using shape_ind'; unfold infos_back in *; intros c.
  - destruct c; reflexivity.
  - destruct c; reflexivity.
  - destruct c; reflexivity.
  - destruct c as [| |[c'|]| |]; try reflexivity. cbn [dshape cpi_infos client_metas]. apply IHs.
  - destruct c as [| | |cs|]; try reflexivity. cbn [dshape cpi_infos client_metas].
    rewrite (infos_list_ok _ (fun d => map m_key (cpi_metas pid s d))).
    + rewrite flat_map_map, map_flat_map. f_equal. apply flat_map_ext_in. intros x _. now rewrite cpi_eq_client.
    + apply Forall_forall. intros d Hin. apply in_map_iff in Hin as (x & <- & _). now rewrite IHs, cpi_eq_client.
  - destruct c as [| | |cs|]; try reflexivity. cbn [dshape cpi_infos client_metas].
    rewrite (infos_list_ok _ (fun d => map m_key (cpi_metas pid s d))).
    + rewrite flat_map_map, map_flat_map. f_equal. apply flat_map_ext_in. intros x _. now rewrite cpi_eq_client.
    + apply Forall_forall. intros d Hin. apply in_map_iff in Hin as (x & <- & _). now rewrite IHs, cpi_eq_client.
  - cbn [dshape cpi_infos client_metas]. apply IHs.
  - destruct c as [| | |cs|]; try reflexivity. cbn [dshape cpi_infos client_metas].
    rewrite (infos_list_ok _ (fun d => map m_key (cpi_metas pid s d))).
    + rewrite flat_map_map, map_flat_map. f_equal. apply flat_map_ext_in. intros x _. now rewrite cpi_eq_client.
    + apply Forall_forall. intros d Hin. apply in_map_iff in Hin as (x & <- & _). now rewrite IHs, cpi_eq_client.
  - destruct c as [| | | |cs]; try (cbn; destruct fs; reflexivity). cbn [dshape cpi_infos client_metas].
    now apply infos_fields_ok.
Qed.

(* a set without Option never needs the program account *)
Lemma infos_fields_ext (F G : shape -> dval -> ires) fs :
  Forall (fun s => forall d, F s d = G s d) fs -> forall ds, infos_fields F fs ds = infos_fields G fs ds.
Proof.
  induction 1 as [|f fs Hf _ IH]; intros ds; [reflexivity|].
  destruct ds as [|d ds]; [reflexivity|]. cbn [infos_fields]. now rewrite Hf, IH.
Qed.

Theorem no_option_no_program s :
  contains_option s = false -> forall p d, cpi_infos None s d = cpi_infos (Some p) s d.
Proof.
  induction s using shape_ind'; intros Hc p d; try reflexivity; try discriminate; cbn [contains_option] in Hc.
  - destruct d; try reflexivity. cbn [cpi_infos]. apply infos_list_ext. intros; now apply IHs.
  - destruct d; try reflexivity. cbn [cpi_infos]. apply infos_list_ext. intros; now apply IHs.
  - cbn [cpi_infos]. now apply IHs.
  - destruct d; try reflexivity. cbn [cpi_infos]. apply infos_list_ext. intros; now apply IHs.
  - destruct d; try reflexivity. cbn [cpi_infos]. apply infos_fields_ext.
    rewrite Forall_forall in *. intros f Hin d. apply H; auto.
    destruct (contains_option f) eqn:E; auto.
    assert (existsb contains_option fs = true) by (apply existsb_exists; eauto). congruence.
Qed.

(* ---- declared length ----------------------------------------------------------------------------- *)
Lemma zsum_map_nonneg {A} (f : A -> Z) l : (forall x, In x l -> 0 <= f x) -> 0 <= zsum_map f l.
Proof.
  induction l as [|x l IH]; intros H; cbn [zsum_map]; [lia|].
  pose proof (H x (or_introl eq_refl)). assert (0 <= zsum_map f l) by (apply IH; intros; apply H; now right). lia.
Qed.

Lemma declared_len_nonneg s : 0 <= declared_len s.
Proof.
  induction s using shape_ind'; cbn [declared_len]; unfold DYNAMIC_LEN; try lia.
  - destruct (_ =? 1); lia.
  - rewrite Forall_forall in H. pose proof (zsum_map_nonneg declared_len fs H). lia.
Qed.

Lemma zlen_flat_map_const {A B} (f : A -> list B) l k :
  (forall x, In x l -> zlen (f x) = k) -> zlen (flat_map f l) = k * Z.of_nat (length l).
Proof.
  induction l as [|x l IH]; intros H; [cbn; lia|].
  cbn [flat_map length]. rewrite zlen_app, H by now left. rewrite IH by (intros; apply H; now right). lia.
Qed.

Definition static_count (pid : Z) (s : shape) : Prop :=
  forall lens last c, wf_client pid s lens last c = true -> declared_len s < DYNAMIC_LEN ->
    zlen (client_metas pid s c) = declared_len s.

Lemma static_fields pid fs :
  Forall (static_count pid) fs ->
  forall lens last cs, wf_fields (wf_client pid) fs lens last cs = true ->
    zsum_map declared_len fs < DYNAMIC_LEN ->
    zlen (zip_fields (client_metas pid) fs cs) = zsum_map declared_len fs.
Proof.
  induction 1 as [|f fs Hf _ IH]; intros lens last cs Hwf Hlt.
  - destruct cs; [reflexivity|discriminate].
  - destruct cs as [|c cs]; [discriminate|].
    cbn [wf_fields] in Hwf. apply andb_true_iff in Hwf as [H1 H2].
    cbn [zip_fields zsum_map] in *. rewrite zlen_app.
    pose proof (declared_len_nonneg f).
    assert (0 <= zsum_map declared_len fs) by (apply zsum_map_nonneg; intros; apply declared_len_nonneg).
    rewrite (Hf _ _ _ H1) by lia. rewrite (IH _ _ _ H2) by lia. reflexivity.
Qed.

Theorem cpi_static_count pid s : static_count pid s.
Proof.
  induction s using shape_ind'; unfold static_count in *; intros lens last c Hwf Hlt.
  - destruct c; try discriminate. reflexivity.
  - destruct c; try discriminate. reflexivity.
  - destruct c; try discriminate. reflexivity.
  - cbn [declared_len] in *. destruct (declared_len s =? 1) eqn:E; [|unfold DYNAMIC_LEN in Hlt; lia].
    apply Z.eqb_eq in E. destruct c as [| |[c'|]| |]; try discriminate.
    + cbn [wf_client] in Hwf. apply andb_true_iff in Hwf as [H1 _]. cbn [client_metas].
      rewrite (IHs _ _ _ H1); unfold DYNAMIC_LEN; lia.
    + reflexivity.
  - cbn [declared_len] in Hlt. lia.
  - destruct c as [| | |cs|]; try discriminate.
    cbn [wf_client] in Hwf. apply andb_true_iff in Hwf as [H1 H2]. apply Nat.eqb_eq in H1.
    cbn [client_metas declared_len] in *. pose proof (declared_len_nonneg s).
    destruct n as [|n].
    + destruct cs; [|discriminate]. cbn. lia.
    + rewrite (zlen_flat_map_const _ _ (declared_len s)); [now rewrite H1|].
      intros x Hx. rewrite forallb_forall in H2. apply (IHs lens false); [now apply H2|]. nia.
  - cbn [wf_client client_metas declared_len] in *. eapply IHs; eauto.
  - cbn [declared_len] in Hlt. lia.
  - destruct c as [| | | |cs]; try discriminate.
    cbn [wf_client client_metas declared_len] in *.
    assert (zsum_map declared_len fs < DYNAMIC_LEN) by lia.
    rewrite (static_fields pid fs H _ _ _ Hwf) by assumption. lia.
Qed.

(* ---- the CPI the runtime sees ---------------------------------------------------------------------- *)
Theorem cpi_invoke_client pid s lens c :
  wf_client pid s lens true c = true ->
  declared_len s <= 63 \/ (declared_len s = DYNAMIC_LEN /\ zlen (client_metas pid s c) <= DYNAMIC_CAP) ->
  cpi_invoke pid s (dshape pid s c) = Ok (client_metas pid s c, map m_key (client_metas pid s c)).
Proof.
  intros Hwf Hlen. unfold cpi_invoke.
  assert (Hi : cpi_infos (if contains_option s then Some pid else None) s (dshape pid s c)
               = IOk (map m_key (client_metas pid s c))).
  { destruct (contains_option s) eqn:E; [apply cpi_infos_client|].
    rewrite (no_option_no_program s E pid). apply cpi_infos_client. }
  rewrite Hi, cpi_eq_client.
  assert (Hm : zlen (map m_key (client_metas pid s c)) = zlen (client_metas pid s c)).
  { unfold zlen. now rewrite map_length. }
  rewrite Hm. unfold DYNAMIC_LEN, DYNAMIC_CAP in *.
  destruct Hlen as [Hs | [Hd Hc]].
  - assert (declared_len s =? 100 = false) as -> by (apply Z.eqb_neq; lia).
    pose proof (cpi_static_count pid s lens true c Hwf) as Hn. unfold DYNAMIC_LEN in Hn.
    rewrite Hn by lia. rewrite Z.ltb_irrefl, Z.eqb_refl. reflexivity.
  - rewrite Hd. cbn [Z.eqb Pos.eqb].
    destruct (64 <? zlen (client_metas pid s c)) eqn:E; zb; [lia|]. rewrite Z.eqb_refl. reflexivity.
Qed.

(* more than 64 accounts in a dynamic CPI: an indexed store past the arrays, i.e. a panic *)
Theorem cpi_dynamic_bound pid s lens c :
  wf_client pid s lens true c = true -> declared_len s = DYNAMIC_LEN ->
  DYNAMIC_CAP < zlen (client_metas pid s c) -> cpi_invoke pid s (dshape pid s c) = Panic.
Proof.
  intros Hwf Hd Hc. unfold cpi_invoke.
  assert (Hi : cpi_infos (if contains_option s then Some pid else None) s (dshape pid s c)
               = IOk (map m_key (client_metas pid s c))).
  { destruct (contains_option s) eqn:E; [apply cpi_infos_client|].
    rewrite (no_option_no_program s E pid). apply cpi_infos_client. }
  rewrite Hi, Hd. unfold DYNAMIC_LEN, DYNAMIC_CAP in *. cbn [Z.eqb Pos.eqb].
  assert (zlen (map m_key (client_metas pid s c)) = zlen (client_metas pid s c)) as ->.
  { unfold zlen. now rewrite map_length. }
  destruct (64 <? zlen (client_metas pid s c)) eqn:E; zb; [reflexivity|lia].
Qed.

(* whatever cpi_invoke hands to the runtime has as many infos as metas, and exactly AccountLen of them
   for a static set *)
Theorem cpi_invoke_counts pid s d ms ks :
  cpi_invoke pid s d = Ok (ms, ks) ->
  zlen ms = zlen ks /\ (declared_len s <> DYNAMIC_LEN -> zlen ms = declared_len s) /\
  (declared_len s = DYNAMIC_LEN -> zlen ms <= DYNAMIC_CAP) /\ ms = cpi_metas pid s d.
Proof.
  unfold cpi_invoke. destruct (cpi_infos _ s d) as [keys|w].
  2:{ destruct (_ <? w); discriminate. }
  destruct (_ <? zlen keys) eqn:E1; [discriminate|].
  destruct (_ <? zlen (cpi_metas pid s d)) eqn:E2; [discriminate|].
  destruct (declared_len s =? DYNAMIC_LEN) eqn:E3.
  - destruct (zlen keys =? zlen (cpi_metas pid s d)) eqn:E4; [|discriminate].
    intros [= <- <-]. zb. unfold DYNAMIC_LEN, DYNAMIC_CAP in *. repeat split; auto; intros; try lia; try congruence.
  - destruct ((zlen keys =? declared_len s) && (zlen (cpi_metas pid s d) =? declared_len s)) eqn:E4; [|discriminate].
    intros [= <- <-]. zb. unfold DYNAMIC_LEN, DYNAMIC_CAP in *. repeat split; auto; intros; try lia; try congruence.
Qed.

(* ---- no privilege beyond what the leaves require -------------------------------------------------- *)
Fixpoint leaf_in (mods : list modifier) (s : shape) : Prop :=
  match s with
  | Leaf mods' => mods = mods'
  | ProgramLeaf _ | SysvarLeaf _ => False
  | Opt s' | Vec s' | Arr _ s' | Boxed s' | Rest s' => leaf_in mods s'
  | Struct fs => (fix any (l : list shape) : Prop := match l with [] => False | f :: r => leaf_in mods f \/ any r end) fs
  end.

Definition meta_allowed (s : shape) (m : meta) : Prop :=
  (m_signer m = false /\ m_writable m = false) \/
  exists mods, leaf_in mods s /\ m_signer m = req_signer mods /\ m_writable m = req_writable mods.

Lemma leaf_in_struct mods f fs : In f fs -> leaf_in mods f -> leaf_in mods (Struct fs).
Proof.
  intros Hin Hl. cbn [leaf_in]. induction fs as [|g fs IH]; [contradiction|].
  destruct Hin as [->|Hin]; [now left|right; now apply IH].
Qed.

Lemma allowed_lift (s t : shape) :
  (forall mods, leaf_in mods s -> leaf_in mods t) -> forall m, meta_allowed s m -> meta_allowed t m.
Proof. intros H m [Hm|(mods & Hl & Hm)]; [now left|right; exists mods; split; auto]. Qed.

Theorem cpi_no_excess pid s : forall d, Forall (meta_allowed s) (cpi_metas pid s d).
Proof.
  induction s using shape_ind'; intros d.
  - destruct d; cbn [cpi_metas]; try constructor; [|constructor].
    right. exists mods. split; [reflexivity|]. unfold leaf_of. rewrite leaf_meta_exact. cbn. auto.
  - destruct d; cbn [cpi_metas]; try constructor; [|constructor]. left. cbn. auto.
  - destruct d; cbn [cpi_metas]; try constructor; [|constructor]. left. cbn. auto.
  - destruct d as [|[d'|]| |]; cbn [cpi_metas]; try constructor.
    + eapply Forall_impl; [|apply IHs]. apply allowed_lift. auto.
    + left. cbn. auto.
    + constructor.
  - destruct d as [| |ds|]; cbn [cpi_metas]; try constructor.
    apply Forall_flat_map. apply Forall_forall. intros x _.
    eapply Forall_impl; [|apply IHs]. apply allowed_lift. auto.
  - destruct d as [| |ds|]; cbn [cpi_metas]; try constructor.
    apply Forall_flat_map. apply Forall_forall. intros x _.
    eapply Forall_impl; [|apply IHs]. apply allowed_lift. auto.
  - cbn [cpi_metas]. eapply Forall_impl; [|apply IHs]. apply allowed_lift. auto.
  - destruct d as [| |ds|]; cbn [cpi_metas]; try constructor.
    apply Forall_flat_map. apply Forall_forall. intros x _.
    eapply Forall_impl; [|apply IHs]. apply allowed_lift. auto.
  - destruct d as [| | |ds]; cbn [cpi_metas]; try constructor.
    assert (Hsub : forall f, In f fs -> forall mods, leaf_in mods f -> leaf_in mods (Struct fs))
      by (intros; eapply leaf_in_struct; eauto).
    revert ds Hsub. generalize (Struct fs) as t. induction H as [|f fs Hf _ IH]; intros t ds Hsub; [constructor|].
    destruct ds as [|d ds]; [constructor|]. cbn [cpi_fields]. apply Forall_app. split.
    + eapply Forall_impl; [|apply Hf]. apply allowed_lift. apply Hsub. now left.
    + apply IH. intros g Hg. apply Hsub. now right.
Qed.
