(* C14 - the three generated views of an account set: executable model (no proofs here).

   Mirrors
     star_frame/src/account_set/impls/account_info.rs   ClientAccountSet 60-78, CpiAccountSet 80-116, decode 169-181
     star_frame/src/account_set/impls/option.rs         CpiAccountSet 29-81, ClientAccountSet 83-101, decode 103-124, validate 126-139
     star_frame/src/account_set/impls/vec.rs            CpiAccountSet 11-45, ClientAccountSet 47-62, decode 64-95, validate 152-163
     star_frame/src/account_set/impls/array.rs          CpiAccountSet 14-52, ClientAccountSet 54-70, decode 72-108, validate 134-144
     star_frame/src/account_set/impls/boxed.rs          30-96
     star_frame/src/account_set/rest.rs                 CpiAccountSet 37-65, ClientAccountSet 67-82, decode 84-101
     star_frame/src/account_set/program.rs 30-52, sysvar.rs 66-82 (client: Option<Pubkey> override, read-only meta)
     star_frame/src/account_set/modifiers/signer.rs 22-30, mutable.rs 14-23 (SingleSetMeta of MaybeSigner / MaybeMut)
     star_frame_proc/src/account_set/struct_impl/mod.rs single sets 197-262, struct CPI 397-478, struct client 480-530,
                                                        AccountLen / ContainsOption clauses 586-640
     star_frame_proc/src/account_set/struct_impl/decode.rs 128-201 (fields in declaration order, one decode arg per field)
     star_frame/src/cpi.rs                              invoke_signed 129-186, HandleCpiArray 189-340
     star_frame/src/instruction/mod.rs                  process_from_raw 137-176

   Two places follow the REPAIRED code (proposed/C14-*.patch); the shipped variants are kept as *_shipped:
     - leaf_meta: a `false` MaybeSigner / MaybeMut passes the inner requirement through (shipped: it overwrites it)
     - contains_option (Arr _ s) = contains_option s            (shipped: typenum::False)                          *)
From SF Require Import Base.Prelude Gen.Generated.

(* keys are abstract integers here (the harness maps them to 32-byte keys and back) *)
Record meta := mkMeta { m_key : Z; m_signer : bool; m_writable : bool }.

Inductive modifier := MSigner (b : bool) | MMut (b : bool).

Inductive shape :=
| Leaf (mods : list modifier)      (* AccountInfo under MaybeSigner / MaybeMut layers, innermost first *)
| ProgramLeaf (id : Z)             (* Program<T>, T::ID = id *)
| SysvarLeaf (id : Z)              (* Sysvar<T>, T::id() = id *)
| Opt (s : shape)
| Vec (s : shape)
| Arr (n : nat) (s : shape)
| Boxed (s : shape)
| Rest (s : shape)
| Struct (fs : list shape).

(* what the client passes (ClientAccounts) *)
Inductive cval :=
| CKey (k : Z)                     (* Pubkey *)
| COptKey (k : option Z)           (* Option<Pubkey>: Program / Sysvar address override *)
| COpt (c : option cval)
| CList (cs : list cval)           (* Vec, array, Rest *)
| CStruct (cs : list cval).

(* what decode produces *)
Inductive dval :=
| DAcct (a : meta)
| DOpt (o : option dval)
| DList (l : list dval)
| DStruct (l : list dval).

(* ---- SingleSetMeta of a leaf ----------------------------------------------------------------- *)
Fixpoint leaf_meta_from (sg wr : bool) (mods : list modifier) : bool * bool :=
  match mods with
  | [] => (sg, wr)
  | MSigner b :: r => leaf_meta_from (b || sg) wr r
  | MMut b :: r => leaf_meta_from sg (b || wr) r
  end.
Definition leaf_meta (mods : list modifier) : bool * bool := leaf_meta_from false false mods.

(* signer.rs 28 `SingleSetMeta { signer: SIGNER, ..T::meta() }`, mutable.rs 21 *)
Fixpoint leaf_meta_shipped_from (sg wr : bool) (mods : list modifier) : bool * bool :=
  match mods with
  | [] => (sg, wr)
  | MSigner b :: r => leaf_meta_shipped_from b wr r
  | MMut b :: r => leaf_meta_shipped_from sg b r
  end.
Definition leaf_meta_shipped (mods : list modifier) : bool * bool := leaf_meta_shipped_from false false mods.

(* what validation demands *)
Definition req_signer (mods : list modifier) : bool :=
  existsb (fun m => match m with MSigner true => true | _ => false end) mods.
Definition req_writable (mods : list modifier) : bool :=
  existsb (fun m => match m with MMut true => true | _ => false end) mods.

Definition leaf_of (k : Z) (f : bool * bool) : meta := mkMeta k (fst f) (snd f).
Definition placeholder (pid : Z) : meta := mkMeta pid false false.     (* AccountMeta::new_readonly(program_id, false) *)
Definition addr_or (o : option Z) (id : Z) : Z := match o with Some k => k | None => id end.

(* ---- number of Vec nodes (one decode length each) ---------------------------------------------- *)
Section SumMap.
  Variable A : Type.
  Variable f : A -> nat.
  Fixpoint sum_map (l : list A) : nat :=
  match l with [] => O | x :: r => (f x + sum_map r)%nat end.
End SumMap.
Arguments sum_map {A} f l.

Fixpoint nvec (s : shape) : nat :=
  match s with
  | Leaf _ | ProgramLeaf _ | SysvarLeaf _ => O
  | Opt s' | Boxed s' | Rest s' | Arr _ s' => nvec s'
  | Vec s' => S (nvec s')
  | Struct fs => sum_map nvec fs
  end.

(* ---- client view: ClientAccountSet::extend_account_metas -------------------------------------- *)
Section ZipFields.
  Variable R : Type.
  Variable F : shape -> cval -> list R.
  Fixpoint zip_fields (fs : list shape) (cs : list cval) : list R :=
  match fs, cs with
  | f :: fs', c :: cs' => F f c ++ zip_fields fs' cs'
  | _, _ => []
  end.
End ZipFields.
Arguments zip_fields {R} F fs cs.

Fixpoint client_metas (pid : Z) (s : shape) (c : cval) : list meta :=
  match s with
  | Leaf mods => match c with CKey k => [leaf_of k (leaf_meta mods)] | _ => [] end
  | ProgramLeaf id | SysvarLeaf id => match c with COptKey o => [mkMeta (addr_or o id) false false] | _ => [] end
  | Opt s' =>
      match c with
      | COpt None => [placeholder pid]
      | COpt (Some c') => client_metas pid s' c'
      | _ => []
      end
  | Vec s' | Rest s' | Arr _ s' => match c with CList cs => flat_map (client_metas pid s') cs | _ => [] end
  | Boxed s' => client_metas pid s' c
  | Struct fs => match c with CStruct cs => zip_fields (client_metas pid) fs cs | _ => [] end
  end.

(* the runtime accounts a transaction with these metas presents to the program *)
Definition accounts_of (ms : list meta) : list meta := ms.

(* ---- on-chain view: AccountSetDecode ----------------------------------------------------------- *)
Definition dres := out (dval * list meta).

Fixpoint rep (f : list meta -> dres) (n : nat) (accts : list meta) : out (list dval * list meta) :=
  match n with
  | O => Ok ([], accts)
  | S n' =>
      do r <- f accts;
      do r' <- rep f n' (snd r);
      Ok (fst r :: fst r', snd r')
  end.

(* rest.rs 94-97: `while !accounts.is_empty()`; an element that consumes nothing makes the real loop run
   until memory is exhausted: out of fuel = Panic (fuel = number of accounts + 1) *)
Fixpoint rest_loop (f : list meta -> dres) (fuel : nat) (accts : list meta) : out (list dval * list meta) :=
  match accts with
  | [] => Ok ([], [])
  | _ :: _ =>
      match fuel with
      | O => Panic
      | S fuel' =>
          do r <- f accts;
          do r' <- rest_loop f fuel' (snd r);
          Ok (fst r :: fst r', snd r')
      end
  end.

Section DecodeFields.
  Variable D : shape -> list Z -> list meta -> dres.
  Fixpoint decode_fields (fs : list shape) (lens : list Z)
  (accts : list meta) : out (list dval * list meta) :=
  match fs with
  | [] => Ok ([], accts)
  | f :: fs' =>
      do r <- D f (firstn (nvec f) lens) accts;
      do r' <- decode_fields fs' (skipn (nvec f) lens) (snd r);
      Ok (fst r :: fst r', snd r')
  end.
End DecodeFields.

(* lens: one length per Vec node of the shape, in declaration order (a length is cloned for every
   run-time instance of its node: vec.rs 86-91 `decode_input.clone()`, array.rs 97, rest.rs 96) *)
Fixpoint decode (pid : Z) (s : shape) (lens : list Z) (accts : list meta) : dres :=
  match s with
  | Leaf _ | ProgramLeaf _ | SysvarLeaf _ =>
      match accts with
      | [] => Err EC_ADVANCE_ERROR                      (* try_advance_array *)
      | a :: r => Ok (DAcct a, r)
      end
  | Opt s' =>
      match accts with
      | [] => Ok (DOpt None, [])
      | a :: r =>
          if m_key a =? pid then Ok (DOpt None, r)
          else do x <- decode pid s' lens accts; Ok (DOpt (Some (fst x)), snd x)
      end
  | Vec s' =>
      do x <- rep (decode pid s' (tl lens)) (Z.to_nat (hd 0 lens)) accts;
      Ok (DList (fst x), snd x)
  | Arr n s' =>
      do x <- rep (decode pid s' lens) n accts;
      Ok (DList (fst x), snd x)
  | Boxed s' => decode pid s' lens accts
  | Rest s' =>
      do x <- rest_loop (decode pid s' lens) (S (length accts)) accts;
      Ok (DList (fst x), snd x)
  | Struct fs =>
      do x <- decode_fields (decode pid) fs lens accts;
      Ok (DStruct (fst x), snd x)
  end.

(* what decoding the client's own metas should give back *)
Section ZipDshape.
  Variable F : shape -> cval -> dval.
  Fixpoint zip_dshape (fs : list shape) (cs : list cval) : list dval :=
  match fs, cs with
  | f :: fs', c :: cs' => F f c :: zip_dshape fs' cs'
  | _, _ => []
  end.
End ZipDshape.

Fixpoint dshape (pid : Z) (s : shape) (c : cval) : dval :=
  match s with
  | Leaf mods => match c with CKey k => DAcct (leaf_of k (leaf_meta mods)) | _ => DStruct [] end
  | ProgramLeaf id | SysvarLeaf id =>
      match c with COptKey o => DAcct (mkMeta (addr_or o id) false false) | _ => DStruct [] end
  | Opt s' =>
      match c with
      | COpt (Some c') => DOpt (Some (dshape pid s' c'))
      | COpt None => DOpt None
      | _ => DStruct []
      end
  | Vec s' | Rest s' | Arr _ s' => match c with CList cs => DList (map (dshape pid s') cs) | _ => DList [] end
  | Boxed s' => dshape pid s' c
  | Struct fs => match c with CStruct cs => DStruct (zip_dshape (dshape pid) fs cs) | _ => DStruct [] end
  end.

(* ---- well-formed client values: exactly what the round trip needs ------------------------------- *)
Definition first_key_ok (pid : Z) (ms : list meta) : bool :=
  match ms with [] => false | m :: _ => negb (m_key m =? pid) end.
Definition nonempty {A} (l : list A) : bool := match l with [] => false | _ => true end.
Definition is_nil {A} (l : list A) : bool := match l with [] => true | _ => false end.

Section WfFields.
  Variable W : shape -> list Z -> bool -> cval -> bool.
  Fixpoint wf_fields (fs : list shape) (lens : list Z) (last : bool)
  (cs : list cval) : bool :=
  match fs, cs with
  | [], [] => true
  | f :: fs', c :: cs' =>
      W f (firstn (nvec f) lens) (last && is_nil fs') c && wf_fields fs' (skipn (nvec f) lens) last cs'
  | _, _ => false
  end.
End WfFields.

(* last = nothing follows this set in the account list *)
Fixpoint wf_client (pid : Z) (s : shape) (lens : list Z) (last : bool) (c : cval) : bool :=
  match s with
  | Leaf _ => match c with CKey _ => true | _ => false end
  | ProgramLeaf _ | SysvarLeaf _ => match c with COptKey _ => true | _ => false end
  | Opt s' =>
      match c with
      | COpt None => true
      | COpt (Some c') =>
          (* a present optional must start with an account, and not with the program id *)
          wf_client pid s' lens last c' && first_key_ok pid (client_metas pid s' c')
      | _ => false
      end
  | Vec s' =>
      match c with
      | CList cs => Nat.eqb (length cs) (Z.to_nat (hd 0 lens)) && forallb (wf_client pid s' (tl lens) false) cs
      | _ => false
      end
  | Arr n s' =>
      match c with
      | CList cs => Nat.eqb (length cs) n && forallb (wf_client pid s' lens false) cs
      | _ => false
      end
  | Boxed s' => wf_client pid s' lens last c
  | Rest s' =>
      match c with
      | CList cs =>
          (* trailing, and every element takes at least one account *)
          last && forallb (fun c' => wf_client pid s' lens false c' && nonempty (client_metas pid s' c')) cs
      | _ => false
      end
  | Struct fs => match c with CStruct cs => wf_fields (wf_client pid) fs lens last cs | _ => false end
  end.

(* ---- validation: the signer / writable / address checks of the leaves -------------------------- *)
(* inner field first, then the wrapper's extra_validation (signer.rs 24-26, mutable.rs 16-18) *)
Fixpoint validate_mods (mods : list modifier) (a : meta) : out unit :=
  match mods with
  | [] => Ok tt
  | MSigner b :: r => if b && negb (m_signer a) then Err EC_EXPECTED_SIGNER else validate_mods r a
  | MMut b :: r => if b && negb (m_writable a) then Err EC_EXPECTED_WRITABLE else validate_mods r a
  end.

Fixpoint validate_list (V : dval -> out unit) (ds : list dval) : out unit :=
  match ds with
  | [] => Ok tt
  | d :: r => do _ <- V d; validate_list V r
  end.

Section ValidateFields.
  Variable V : shape -> dval -> out unit.
  Fixpoint validate_fields (fs : list shape) (ds : list dval) : out unit :=
  match fs, ds with
  | f :: fs', d :: ds' => do _ <- V f d; validate_fields fs' ds'
  | _, _ => Ok tt
  end.
End ValidateFields.

Fixpoint validate (s : shape) (d : dval) : out unit :=
  match s with
  | Leaf mods => match d with DAcct a => validate_mods mods a | _ => Ok tt end
  | ProgramLeaf id =>
      match d with DAcct a => if m_key a =? id then Ok tt else Err PE_INCORRECT_PROGRAM_ID | _ => Ok tt end
  | SysvarLeaf id =>
      match d with DAcct a => if m_key a =? id then Ok tt else Err EC_ADDRESS_MISMATCH | _ => Ok tt end
  | Opt s' => match d with DOpt (Some d') => validate s' d' | _ => Ok tt end
  | Vec s' | Rest s' | Arr _ s' => match d with DList ds => validate_list (validate s') ds | _ => Ok tt end
  | Boxed s' => validate s' d
  | Struct fs => match d with DStruct ds => validate_fields validate fs ds | _ => Ok tt end
  end.

(* Program / Sysvar addresses are the expected ones ("the accounts are otherwise valid") *)
Section KeysValidFields.
  Variable K : shape -> cval -> bool.
  Fixpoint keys_valid_fields (fs : list shape) (cs : list cval) : bool :=
  match fs, cs with
  | f :: fs', c :: cs' => K f c && keys_valid_fields fs' cs'
  | _, _ => true
  end.
End KeysValidFields.
Fixpoint keys_valid (s : shape) (c : cval) : bool :=
  match s with
  | Leaf _ => true
  | ProgramLeaf id | SysvarLeaf id => match c with COptKey o => addr_or o id =? id | _ => true end
  | Opt s' => match c with COpt (Some c') => keys_valid s' c' | _ => true end
  | Vec s' | Rest s' | Arr _ s' => match c with CList cs => forallb (keys_valid s') cs | _ => true end
  | Boxed s' => keys_valid s' c
  | Struct fs => match c with CStruct cs => keys_valid_fields keys_valid fs cs | _ => true end
  end.

(* ---- CPI view ---------------------------------------------------------------------------------- *)
Definition DYNAMIC_LEN : Z := 100.     (* DynamicCpiAccountSetLen = typenum::U100, account_set/mod.rs 212 *)
Definition DYNAMIC_CAP : Z := 64.      (* cpi.rs 275: [MaybeUninit<T>; 64] *)

Section ZsumMap.
  Variable A : Type.
  Variable f : A -> Z.
  Fixpoint zsum_map (l : list A) : Z :=
  match l with [] => 0 | x :: r => f x + zsum_map r end.
End ZsumMap.
Arguments zsum_map {A} f l.

(* CpiAccountSet::AccountLen *)
Fixpoint declared_len (s : shape) : Z :=
  match s with
  | Leaf _ | ProgramLeaf _ | SysvarLeaf _ => 1
  | Opt s' => if declared_len s' =? 1 then 1 else DYNAMIC_LEN            (* option.rs 16-26, 37-38 *)
  | Vec _ | Rest _ => DYNAMIC_LEN
  | Arr n s' => declared_len s' * Z.of_nat n                              (* array.rs 22: Prod, no cap *)
  | Boxed s' => declared_len s'
  | Struct fs => Z.min (zsum_map declared_len fs) DYNAMIC_LEN             (* struct_impl/mod.rs 445 *)
  end.

(* CpiAccountSet::ContainsOption *)
Fixpoint contains_option (s : shape) : bool :=
  match s with
  | Leaf _ | ProgramLeaf _ | SysvarLeaf _ => false
  | Opt _ => true
  | Vec s' | Rest s' | Boxed s' | Arr _ s' => contains_option s'
  | Struct fs => existsb contains_option fs
  end.
Fixpoint contains_option_shipped (s : shape) : bool :=
  match s with
  | Leaf _ | ProgramLeaf _ | SysvarLeaf _ => false
  | Opt _ => true
  | Vec s' | Rest s' | Boxed s' => contains_option_shipped s'
  | Arr _ _ => false                                                      (* array.rs 20 *)
  | Struct fs => existsb contains_option_shipped fs
  end.

(* HandleCpiArray is implemented for U0..U63 and for the dynamic sentinel only (cpi.rs 262-266, 269) *)
Definition cpi_compiles (s : shape) : bool := (declared_len s <=? 63) || (declared_len s =? DYNAMIC_LEN).

(* write_account_metas, as a pure list *)
Section CpiFields.
  Variable R : Type.
  Variable F : shape -> dval -> list R.
  Fixpoint cpi_fields (fs : list shape) (ds : list dval) : list R :=
  match fs, ds with
  | f :: fs', d :: ds' => F f d ++ cpi_fields fs' ds'
  | _, _ => []
  end.
End CpiFields.
Arguments cpi_fields {R} F fs ds.

Fixpoint cpi_metas (pid : Z) (s : shape) (d : dval) : list meta :=
  match s with
  | Leaf mods => match d with DAcct a => [leaf_of (m_key a) (leaf_meta mods)] | _ => [] end
  | ProgramLeaf _ | SysvarLeaf _ => match d with DAcct a => [mkMeta (m_key a) false false] | _ => [] end
  | Opt s' =>
      match d with
      | DOpt None => [placeholder pid]
      | DOpt (Some d') => cpi_metas pid s' d'
      | _ => []
      end
  | Vec s' | Rest s' | Arr _ s' => match d with DList ds => flat_map (cpi_metas pid s') ds | _ => [] end
  | Boxed s' => cpi_metas pid s' d
  | Struct fs => match d with DStruct ds => cpi_fields (cpi_metas pid) fs ds | _ => [] end
  end.

(* write_account_infos: the keys of the infos, or MissingOptionalProgram when an absent optional meets no
   program account (option.rs 53-58).  `n` = infos written before (an error is reported with that count so
   that the bounded arrays below can tell whether a write past the end came first). *)
Inductive ires := IOk (keys : list Z) | IErr (written : Z).

Definition ibind (x : ires) (f : list Z -> ires) : ires :=
  match x with
  | IOk ks => match f ks with IOk ks' => IOk (ks ++ ks') | IErr w => IErr (zlen ks + w) end
  | IErr w => IErr w
  end.

Fixpoint infos_list (F : dval -> ires) (ds : list dval) : ires :=
  match ds with
  | [] => IOk []
  | d :: r => ibind (F d) (fun _ => infos_list F r)
  end.
Section InfosFields.
  Variable F : shape -> dval -> ires.
  Fixpoint infos_fields (fs : list shape) (ds : list dval) : ires :=
  match fs, ds with
  | f :: fs', d :: ds' => ibind (F f d) (fun _ => infos_fields fs' ds')
  | _, _ => IOk []
  end.
End InfosFields.

Fixpoint cpi_infos (prog : option Z) (s : shape) (d : dval) : ires :=
  match s with
  | Leaf _ | ProgramLeaf _ | SysvarLeaf _ => match d with DAcct a => IOk [m_key a] | _ => IOk [] end
  | Opt s' =>
      match d with
      | DOpt None => match prog with Some p => IOk [p] | None => IErr 0 end
      | DOpt (Some d') => cpi_infos prog s' d'
      | _ => IOk []
      end
  | Vec s' | Rest s' | Arr _ s' => match d with DList ds => infos_list (cpi_infos prog s') ds | _ => IOk [] end
  | Boxed s' => cpi_infos prog s' d
  | Struct fs => match d with DStruct ds => infos_fields (cpi_infos prog) fs ds | _ => IOk [] end
  end.

(* CpiBuilder::invoke_signed (cpi.rs 129-186) with the arrays of HandleCpiArray: a static set has arrays of
   exactly AccountLen entries and asserts that both write indices end there; a dynamic set has 64 entries and
   asserts that the indices agree.  Every write is an indexed store, so a write past the end is a panic
   (never undefined behaviour).  Result: the metas and info keys handed to the runtime. *)
Definition cpi_invoke (pid : Z) (s : shape) (d : dval) : out (list meta * list Z) :=
  let L := declared_len s in
  let cap := if L =? DYNAMIC_LEN then DYNAMIC_CAP else L in
  let prog := if contains_option s then Some pid else None in
  match cpi_infos prog s d with
  | IErr w => if cap <? w then Panic else Err EC_MISSING_OPTIONAL_PROGRAM
  | IOk keys =>
      if cap <? zlen keys then Panic
      else
        let ms := cpi_metas pid s d in
        if cap <? zlen ms then Panic
        else if L =? DYNAMIC_LEN then (if zlen keys =? zlen ms then Ok (ms, keys) else Panic)
        else if (zlen keys =? L) && (zlen ms =? L) then Ok (ms, keys) else Panic
  end.

(* the same with the shipped ContainsOption *)
Definition cpi_invoke_shipped (pid : Z) (s : shape) (d : dval) : out (list meta * list Z) :=
  let L := declared_len s in
  let cap := if L =? DYNAMIC_LEN then DYNAMIC_CAP else L in
  let prog := if contains_option_shipped s then Some pid else None in
  match cpi_infos prog s d with
  | IErr w => if cap <? w then Panic else Err EC_MISSING_OPTIONAL_PROGRAM
  | IOk keys =>
      if cap <? zlen keys then Panic
      else
        let ms := cpi_metas pid s d in
        if cap <? zlen ms then Panic
        else if L =? DYNAMIC_LEN then (if zlen keys =? zlen ms then Ok (ms, keys) else Panic)
        else if (zlen keys =? L) && (zlen ms =? L) then Ok (ms, keys) else Panic
  end.

(* ---- the entry path (instruction/mod.rs 137-176): decode, validate, process, cleanup ------------ *)
Definition entry (pid : Z) (s : shape) (lens : list Z) (accts : list meta) : out dval :=
  do x <- decode pid s lens accts;
  do _ <- validate s (fst x);
  Ok (fst x).

(* ------------------------------------------------------------------------------------------------ *)
(* runner entry point                                                                                *)
(* case: shape_index shape_len shape.. K lens(K) client-value-stream extra..
   shape:  1 n (m b)* | 2 id | 3 id | 4 s | 5 s | 6 n s | 7 s | 8 s | 9 n s*        (m: 0 signer, 1 mut)
   value:  leaf k | prog/sysvar 0 / 1 k | opt 0 / 1 v | vec,rest n v* | arr v* | box v | struct v*          *)
Definition bool_of_z (z : Z) : bool := negb (z =? 0).

Fixpoint parse_mods (n : nat) (l : list Z) : list modifier * list Z :=
  match n with
  | O => ([], l)
  | S k =>
      match l with
      | m :: b :: r =>
          let '(ms, r') := parse_mods k r in
          ((if m =? 0 then MSigner (bool_of_z b) else MMut (bool_of_z b)) :: ms, r')
      | _ => ([], [])
      end
  end.

Fixpoint parse_shape (fuel : nat) (l : list Z) : shape * list Z :=
  match fuel with
  | O => (Struct [], [])
  | S k =>
      match l with
      | 1 :: n :: r => let '(ms, r') := parse_mods (Z.to_nat n) r in (Leaf ms, r')
      | 2 :: id :: r => (ProgramLeaf id, r)
      | 3 :: id :: r => (SysvarLeaf id, r)
      | 4 :: r => let '(s, r') := parse_shape k r in (Opt s, r')
      | 5 :: r => let '(s, r') := parse_shape k r in (Vec s, r')
      | 6 :: n :: r => let '(s, r') := parse_shape k r in (Arr (Z.to_nat n) s, r')
      | 7 :: r => let '(s, r') := parse_shape k r in (Boxed s, r')
      | 8 :: r => let '(s, r') := parse_shape k r in (Rest s, r')
      | 9 :: n :: r =>
          let '(fs, r') :=
            (fix go (m : nat) (l : list Z) : list shape * list Z :=
               match m with
               | O => ([], l)
               | S m' => let '(s, r1) := parse_shape k l in
                         let '(ss, r2) := go m' r1 in (s :: ss, r2)
               end) (Z.to_nat n) r in
          (Struct fs, r')
      | _ => (Struct [], [])
      end
  end.

Fixpoint parse_n (P : list Z -> cval * list Z) (n : nat) (l : list Z) : list cval * list Z :=
  match n with
  | O => ([], l)
  | S k => let '(v, r) := P l in let '(vs, r') := parse_n P k r in (v :: vs, r')
  end.
Section ParseFieldsV.
  Variable P : shape -> list Z -> cval * list Z.
  Fixpoint parse_fields_v (fs : list shape) (l : list Z) : list cval * list Z :=
  match fs with
  | [] => ([], l)
  | f :: fs' => let '(v, r) := P f l in let '(vs, r') := parse_fields_v fs' r in (v :: vs, r')
  end.
End ParseFieldsV.

Fixpoint parse_val (s : shape) (l : list Z) : cval * list Z :=
  match s with
  | Leaf _ => match l with k :: r => (CKey k, r) | [] => (CKey 0, []) end
  | ProgramLeaf _ | SysvarLeaf _ =>
      match l with
      | 0 :: r => (COptKey None, r)
      | _ :: k :: r => (COptKey (Some k), r)
      | _ => (COptKey None, [])
      end
  | Opt s' =>
      match l with
      | 0 :: r => (COpt None, r)
      | _ :: r => let '(v, r') := parse_val s' r in (COpt (Some v), r')
      | [] => (COpt None, [])
      end
  | Vec s' | Rest s' =>
      match l with
      | n :: r => let '(vs, r') := parse_n (parse_val s') (Z.to_nat n) r in (CList vs, r')
      | [] => (CList [], [])
      end
  | Arr n s' => let '(vs, r') := parse_n (parse_val s') n l in (CList vs, r')
  | Boxed s' => parse_val s' l
  | Struct fs => let '(vs, r') := parse_fields_v parse_val fs l in (CStruct vs, r')
  end.

Definition obs_meta (m : meta) : list Z :=
  [m_key m; if m_signer m then 1 else 0; if m_writable m then 1 else 0].
Definition obs_metas (ms : list meta) : list Z := zlen ms :: concat (map obs_meta ms).

Fixpoint obs_tree (d : dval) : list Z :=
  match d with
  | DAcct a => obs_meta a
  | DOpt None => [0]
  | DOpt (Some d') => 1 :: obs_tree d'
  | DList l => zlen l :: concat (map obs_tree l)
  | DStruct l => concat (map obs_tree l)
  end.

Definition run_c14 (input : list Z) : list Z :=
  match input with
  | _sidx :: slen :: r0 =>
      let '(s, _) := parse_shape (S (length r0)) (ztake slen r0) in
      match zdrop slen r0 with
      | k :: r1 =>
          let lens := ztake k r1 in
          let '(c, _) := parse_val s (zdrop k r1) in
          let pid := 77 in
          let ms := client_metas pid s c in
          let accts := accounts_of ms in
          let decoded := decode pid s lens accts in
          obs_metas ms
          ++ match decoded with
             | Ok (d, rest) => [0; zlen rest] ++ obs_tree d ++ out_tag (validate s d)
             | o => out_tag o
             end
          ++ match entry pid s lens accts with
             | Ok d =>
                 [0; 1; 1]
                 ++ (if cpi_compiles s then
                       [1; declared_len s; if contains_option s then 1 else 0]
                       ++ match cpi_invoke pid s d with
                          | Ok (cm, ck) => [0; pid] ++ obs_metas cm ++ zlen ck :: ck ++ [1]
                          | Err e => [1; e]
                          | _ => [2]
                          end
                     else [0; declared_len s; if contains_option s then 1 else 0])
             | o => out_tag o ++ [0]
             end
      | [] => []
      end
  | _ => []
  end.
