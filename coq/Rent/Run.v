(* Runner entry points of C12 / C13: decode a case from integers, run the model with the flags generated from the
   working tree (coq/Gen/Gen_c12.v, Gen_c13.v), print the observation as integers.  Mirrors
   harness/src/bin/vh_c12.rs / vh_c13.rs (case and observation formats are documented there).  No proofs. *)
From SF Require Import Base.Prelude Gen.Generated Gen.Gen_c12 Gen.Gen_c13 Rent.Ledger Rent.Init Rent.RentOps.

Definition nz (z : Z) : bool := negb (z =? 0).

Definition rd_key (l : list Z) : key * list Z := (le_decode (firstn 32 l), skipn 32 l).

Definition dummy_acct : acct := mkAcct (-1) (-1) 0 [] false false false.

Definition rd_acc (l : list Z) : acct * list Z :=
  let '(k, l1) := rd_key l in
  let '(o, l2) := rd_key l1 in
  match l2 with
  | lam :: sg :: wr :: n :: r => (mkAcct k o lam (ztake n r) false (nz sg) (nz wr), zdrop n r)
  | _ => (dummy_acct, [])
  end.

Definition rd_bytes (l : list Z) : list Z * list Z :=
  match l with
  | n :: r => (ztake n r, zdrop n r)
  | [] => ([], [])
  end.

Fixpoint rd_seeds_n (n : nat) (l : list Z) : seeds * list Z :=
  match n with
  | O => ([], l)
  | S k => let '(b, r) := rd_bytes l in let '(sd, r2) := rd_seeds_n k r in (b :: sd, r2)
  end.
Definition rd_seeds (l : list Z) : seeds * list Z :=
  match l with
  | n :: r => rd_seeds_n (Z.to_nat n) r
  | [] => ([], [])
  end.

Definition rd_find (l : list Z) : (key * Z) * list Z :=
  let '(k, r) := rd_key l in
  match r with b :: r2 => ((k, b), r2) | [] => ((k, 0), []) end.

Fixpoint rd_table_n (n : nat) (l : list Z) : list (seeds * option key) * list Z :=
  match n with
  | O => ([], l)
  | S k =>
      let '(sd, r) := rd_seeds l in
      match r with
      | res :: r1 =>
          let '(ky, r2) := rd_key r1 in
          let '(t, r3) := rd_table_n k r2 in
          ((sd, if nz res then Some ky else None) :: t, r3)
      | [] => ([], [])
      end
  end.
Definition rd_table (l : list Z) : list (seeds * option key) * list Z :=
  match l with
  | n :: r => rd_table_n (Z.to_nat n) r
  | [] => ([], [])
  end.

Fixpoint table_pda (t : list (seeds * option key)) (s : seeds) : option key :=
  match t with
  | [] => None
  | (sd, r) :: t' => if seeds_eqb sd s then r else table_pda t' s
  end.

(* index of a key among the keys the case knows, -1 otherwise *)
Fixpoint kidx_from (i : Z) (known : list key) (k : key) : Z :=
  match known with
  | [] => -1
  | x :: r => if x =? k then i else kidx_from (i + 1) r k
  end.

Definition acc_obs (known : list key) (a : acct) : list Z :=
  [a_lam a; kidx_from 0 known (a_owner a); zlen (a_data a)] ++ a_data a.

Definition seeds_obs (sd : seeds) : list Z :=
  zlen sd :: flat_map (fun s => zlen s :: s) sd.

Definition cpi_obs (known : list key) (c : cpi) : list Z :=
  (match c_ix c with
   | SCreate lam sp ow => [0; lam; sp; kidx_from 0 known ow]
   | SAssign ow => [1; 0; 0; kidx_from 0 known ow]
   | STransfer lam => [2; lam; 0; 0]
   | SAllocate sp => [8; 0; sp; 0]
   end)
  ++ zlen (c_metas c) :: flat_map (fun m => [kidx_from 0 known (m_key m); if m_signer m then 1 else 0;
                                              if m_writable m then 1 else 0]) (c_metas c)
  ++ zlen (c_seeds c) :: flat_map seeds_obs (c_seeds c).

Definition log_obs (known : list key) (log : list cpi) : list Z :=
  zlen log :: flat_map (cpi_obs known) log.

Definition acct_or_dummy (o : option acct) : acct := match o with Some a => a | None => dummy_acct end.

(* ------------------------------------------------------------------------------------------ *)
(* the funder as its account-set type validates it (harness glue; modifiers/{mutable,signer,seeded}.rs,
   system_account.rs): inner before outer *)
Definition validate_funder (findp : seeds -> key * Z) (fkind : Z) (fsd : seeds) (a : acct) : out funder :=
  if fkind =? 0 then                                (* Mut<Signer<AccountInfo>> *)
    if negb (a_signer a) then Err EC_EXPECTED_SIGNER
    else if negb (a_writable a) then Err EC_EXPECTED_WRITABLE
    else Ok (mkFunder (a_key a) None)
  else if fkind =? 1 then                           (* Mut<Seeded<SystemAccount, VSeeds>> with Seeds(fsd) *)
    let '(addr, bump) := findp fsd in
    if negb (addr =? a_key a) then Err EC_ADDRESS_MISMATCH
    else if negb (a_owner a =? SYS) then Err PE_ILLEGAL_OWNER
    else if negb (a_writable a) then Err EC_EXPECTED_WRITABLE
    else Ok (mkFunder (a_key a) (Some (with_bump fsd bump)))
  else                                              (* Signer<Mut<SystemAccount>> *)
    if negb (a_owner a =? SYS) then Err PE_ILLEGAL_OWNER
    else if negb (a_writable a) then Err EC_EXPECTED_WRITABLE
    else if negb (a_signer a) then Err EC_EXPECTED_SIGNER
    else Ok (mkFunder (a_key a) None).

(* account kinds of vh_c12.rs *)
Definition PROG_KEY : key := le_decode (repeat 77 32).
Definition kind_cfg (kind : Z) : tcfg :=
  if kind =? 0 then mkCfg PROG_KEY [1; 2; 3; 4; 5; 6; 7; 8] false
  else if kind =? 1 then mkCfg PROG_KEY [9; 8; 7; 6; 5; 4; 3; 2] false
  else if kind =? 2 then mkCfg PROG_KEY [176; 0; 0; 0; 0; 0; 0; 1] true
  else if kind =? 4 then mkCfg PROG_KEY [7; 0; 0; 0; 0; 0; 0; 0] false   (* FixZ: a discriminant with zero bytes in it *)
  else mkCfg PROG_KEY [165] false.

Definition pad_to (n : Z) (l : list Z) : list Z := ztake n (l ++ zrepeat 0 n).

(* encoding of the initial value handed to Create(..) *)
Definition init_body (kind argform : Z) (ival : list Z) : list Z :=
  let dflt := (argform =? 0) || (argform =? 1) in
  if (kind =? 0) || (kind =? 4) then (if dflt then zrepeat 0 13 else pad_to 13 ival)
  else if kind =? 1 then zrepeat 0 6
  else if kind =? 2 then (if dflt then [0; 0; 0; 0] else le_bytes 4 (zlen ival) ++ ival)
  else (if dflt then zrepeat 0 3 else pad_to 3 ival).

(* borsh Vec<u8>::try_from_slice *)
Definition vec_dec_ok (b : list Z) : bool :=
  (4 <=? zlen b) && (le_decode (firstn 4 b) =? zlen b - 4).

Definition held_obs (h : option (list Z)) : list Z :=
  match h with None => [-1] | Some b => zlen b :: b end.

Definition run_c12 (input : list Z) : list Z :=
  match input with
  | kind :: mode :: seeded :: argform :: fkind :: cache :: lpby :: mult :: r0 =>
      let '(fa, r1) := rd_acc r0 in
      let '(ta, r2) := rd_acc r1 in
      let '(tsd, r3) := rd_seeds r2 in
      match r3 with
      | tbump :: r4 =>
          let '(fsd, r5) := rd_seeds r4 in
          let '(findt, r6) := rd_find r5 in
          let '(findf, r7) := rd_find r6 in
          let '(table, r8) := rd_table r7 in
          let '(ival, _) := rd_bytes r8 in
          let pda := table_pda table in
          let findp := fun s => if seeds_eqb s tsd then findt else findf in
          let minb := fun n => (128 + n) * lpby * mult in
          let cfg := kind_cfg kind in
          let l := [fa; ta] in
          let known := [SYS; PROG_KEY; a_key fa; a_key ta; a_owner fa; a_owner ta] in
          match validate_funder findp fkind fsd fa with
          | Err c => [3; c]
          | Ok f =>
              let cx := if cache =? 1 then cache_funder f (mkCtx None None) else mkCtx None None in
              let who_ := if (argform =? 1) || (argform =? 3) then Explicit f else Cached in
              let sa := if seeded =? 0 then SANone else if seeded =? 1 then SAFind tsd else SABump tsd tbump in
              let ib := init_body kind argform ival in
              match borsh_decode cfg vec_dec_ok ta with
              | Err c => [4; c]
              | Ok _ =>
                  match init_validate TOPUP_FIXED SHORT_FIXED pda findp minb cfg (mode =? 1) (a_key ta) sa
                                      (resolve_funder cx who_) ib (l, []) with
                  | Ok ((l', log), ni) =>
                      [0; if ni then 1 else 0]
                      ++ acc_obs known (acct_or_dummy (find (a_key fa) l'))
                      ++ acc_obs known (acct_or_dummy (find (a_key ta) l'))
                      ++ held_obs (borsh_held cfg ni ib ta)
                      ++ log_obs known log
                  | o => out_tag o
                  end
              | _ => [-1]
              end
          | _ => [-1]
          end
      | [] => [-1]
      end
  | _ => [-1]
  end.

(* ------------------------------------------------------------------------------------------ *)
(* C13 *)
Definition validate_signer_mut (a : acct) : out unit :=       (* Mut<Signer<AccountInfo>> *)
  if negb (a_signer a) then Err EC_EXPECTED_SIGNER
  else if negb (a_writable a) then Err EC_EXPECTED_WRITABLE else Ok tt.

Definition validate_recipient (okind : Z) (a : acct) : out key :=
  if okind =? 0 then                                          (* Mut<AccountInfo> *)
    if negb (a_writable a) then Err EC_EXPECTED_WRITABLE else Ok (a_key a)
  else                                                        (* Mut<SystemAccount> *)
    if negb (a_owner a =? SYS) then Err PE_ILLEGAL_OWNER
    else if negb (a_writable a) then Err EC_EXPECTED_WRITABLE else Ok (a_key a).

(* Mut<Account<T>> / Mut<BorshAccount<T>>: decode, validate_account_info, check_writable *)
Definition validate_target (cfg : tcfg) (a : acct) : out unit :=
  do _ <- borsh_decode cfg vec_dec_ok a;
  do _ <- validate_account_info cfg a;
  if a_writable a then Ok tt else Err EC_EXPECTED_WRITABLE.

Definition c13_arg (op : Z) (fw : who) (rw : rwho) : cleanup_arg :=
  if op =? 0 then CNormalize fw else if op =? 1 then CRefund rw else if op =? 2 then CReceive fw else CClose rw.

Definition tag3 {A} (o : out A) : list Z :=
  match o with Err c => [3; c] | Panic => [2] | _ => [-1] end.

Definition run_c13 (input : list Z) : list Z :=
  match input with
  | op :: via :: kind :: okind :: lpby :: mult :: r0 =>
      let '(aa, r1) := rd_acc r0 in
      let '(oa, r2) := rd_acc r1 in
      let '(ta, r3) := rd_acc r2 in
      let '(osd, r4) := rd_seeds r3 in
      let '(findo, r5) := rd_find r4 in
      let '(table, _) := rd_table r5 in
      let pda := table_pda table in
      let findp := fun _ : seeds => findo in
      let minb := fun n => (128 + n) * lpby * mult in
      let cfg := kind_cfg (if kind =? 0 then 0 else if kind =? 1 then 3 else 2) in
      let dw := zlen (t_disc cfg) in
      let l := [aa; oa; ta] in
      let known := [SYS; PROG_KEY; a_key aa; a_key oa; a_key ta; a_owner aa; a_owner oa; a_owner ta] in
      let is_funder_op := (op =? 0) || (op =? 2) in
      let derived := (via =? 2) || (via =? 4) in
      (* kind 2: BorshAccount exercised through the trait methods (and close); kind >= 3: BorshAccount through the cleanup
         arguments, every route, after the write-back of a value of another size (the case's data is the image after it) *)
      let op' := if derived && (kind =? 2) then 3 else op in
      let is_funder_op' := (op' =? 0) || (op' =? 2) in
      (* set-up: account sets validated before the operation, in the harness's order *)
      let setup : out (ctx * who * rwho) :=
        do cx0 <- (if via =? 4 then
                     do _ <- validate_signer_mut ta;
                     Ok (if is_funder_op then mkCtx (Some (mkFunder (a_key ta) None)) None
                         else mkCtx None (Some (a_key ta)))
                   else Ok (mkCtx None None));
        if derived then
          do _ <- borsh_decode cfg vec_dec_ok aa;
          do cx1 <- (if is_funder_op' then
                       do _ <- validate_signer_mut oa; Ok (cache_funder (mkFunder (a_key oa) None) cx0)
                     else
                       do r <- validate_recipient 0 oa; Ok (cache_recipient r cx0));
          do _ <- validate_account_info cfg aa;
          do _ <- (if a_writable aa then Ok tt else Err EC_EXPECTED_WRITABLE);
          Ok (cx1, Cached, RCached)
        else
          do wr <- (if is_funder_op then
                      do f <- validate_funder findp okind osd oa; Ok (Explicit f, RCached)
                    else
                      do r <- validate_recipient okind oa; Ok (Cached, RExplicit r));
          do _ <- validate_target cfg aa;
          let direct := (via =? 0) || (via =? 1) || ((kind =? 2) && negb (op =? 3)) in
          Ok (cx0, (if direct then fst wr else Cached), (if direct then snd wr else RCached)) in
      match setup with
      | Ok (cx, fw, rw) =>
          match cleanup REFUND_FIXED pda minb dw cx (a_key aa) (c13_arg op' fw rw) (l, []) with
          | Ok (l', log) =>
              [0] ++ acc_obs known (acct_or_dummy (find (a_key aa) l'))
                  ++ acc_obs known (acct_or_dummy (find (a_key oa) l'))
                  ++ acc_obs known (acct_or_dummy (find (a_key ta) l'))
                  ++ log_obs known log
          | o => out_tag o
          end
      | o => tag3 o
      end
  | _ => [-1]
  end.
