(* C13 proofs: normalize / refund / receive rent, close, the cached funder / recipient. *)
From SF Require Import Base.Prelude Gen.Generated Rent.Ledger Rent.LedgerProofs Rent.Init Rent.InitProofs Rent.RentOps.

(* two different accounts of a ledger of u64 balances hold at most the total between them *)
Lemma lam_nonneg_total l : forallb lam_ok l = true -> 0 <= total l.
Proof.
  unfold total. induction l as [|b r IH]; cbn [forallb map zsum]; [lia|].
  intros H. apply andb_true_iff in H as [Hb Hr]. unfold lam_ok in Hb. zb. specialize (IH Hr). lia.
Qed.

Lemma find_lam_ok k l a : forallb lam_ok l = true -> find k l = Some a -> 0 <= a_lam a <= total l.
Proof.
  unfold total. induction l as [|b r IH]; cbn [forallb find map zsum]; [discriminate|].
  intros H. apply andb_true_iff in H as [Hb Hr]. pose proof (lam_nonneg_total r Hr) as Hn. unfold total in Hn.
  unfold lam_ok in Hb. zb.
  destruct (a_key b =? k).
  - intros E; inversion E; subst. lia.
  - intros E. specialize (IH Hr E). lia.
Qed.

Lemma two_lam_le_total k k' l a b :
  forallb lam_ok l = true -> find k l = Some a -> find k' l = Some b -> k <> k' -> a_lam a + a_lam b <= total l.
Proof.
  unfold total. induction l as [|c r IH]; cbn [forallb find map zsum]; [discriminate|].
  intros H. apply andb_true_iff in H as [Hc Hr]. unfold lam_ok in Hc. zb.
  destruct (a_key c =? k) eqn:E1; destruct (a_key c =? k') eqn:E2.
  - zb. congruence.
  - intros Ea Eb Hn. inversion Ea; subst. pose proof (find_lam_ok _ _ _ Hr Eb). unfold total in *. lia.
  - intros Ea Eb Hn. inversion Eb; subst. pose proof (find_lam_ok _ _ _ Hr Ea). unfold total in *. lia.
  - intros Ea Eb Hn. specialize (IH Hr Ea Eb Hn). lia.
Qed.

Section Theorems.
Variable pda : pda_fn.
Variable minb : Z -> Z.
Hypothesis minb_nonneg : forall n, 0 <= minb n.

(* ---------------- zero lamports: left alone ---------------- *)
Theorem zero_left_alone ak f rk s a :
  find ak (fst s) = Some a -> a_lam a = 0 ->
  normalize_rent pda minb ak f s = Ok s /\ receive_rent pda minb ak f s = Ok s /\
  refund_rent true minb ak rk s = Ok s.
Proof.
  intros Ha H0. unfold normalize_rent, receive_rent, refund_rent. rewrite Ha, H0.
  pose proof (minb_nonneg (zlen (a_data a))) as Hm.
  destruct (minb (zlen (a_data a)) =? 0) eqn:E.
  - zb. rewrite E. cbn. auto.
  - zb. replace (0 <? minb (zlen (a_data a))) with true by (symmetry; apply Z.ltb_lt; lia). cbn. auto.
Qed.

(* D14, first half: the shipped refund_rent turns the zero-lamport account into an error *)
Theorem zero_left_alone_refuted :
  exists minb' ak rk s a, (forall n, 0 <= minb' n) /\ find ak (fst s) = Some a /\ a_lam a = 0 /\
    refund_rent false minb' ak rk s = Err PE_INSUFFICIENT_FUNDS.
Proof.
  exists ex_minb, 4, 3, (ex_ledger 77 0 [1; 2; 3; 4; 5; 6; 7; 8], []), (mkAcct 4 77 0 [1; 2; 3; 4; 5; 6; 7; 8] false true true).
  split; [exact ex_minb_nonneg|]. vm_compute. repeat split; reflexivity.
Qed.

(* ---------------- normalize ---------------- *)
Theorem normalize_exact f ak l log l' log' a fa :
  find ak l = Some a -> find (f_key f) l = Some fa -> f_key f <> ak -> a_lam a <> 0 ->
  normalize_rent pda minb ak f (l, log) = Ok (l', log') ->
  exists a' fa',
    find ak l' = Some a' /\ find (f_key f) l' = Some fa' /\
    a_lam a' = minb (zlen (a_data a)) /\ a_data a' = a_data a /\ a_owner a' = a_owner a /\
    a_lam fa' = a_lam fa + (a_lam a - minb (zlen (a_data a))) /\
    (forall k, k <> ak -> k <> f_key f -> find k l' = find k l) /\
    total l' = total l.
Proof.
  intros Ha Hf Hne Hnz. unfold normalize_rent. cbn [fst snd]. rewrite Ha.
  set (rent := minb (zlen (a_data a))).
  destruct (rent =? a_lam a) eqn:E1.
  - intros H; inversion H; subst. zb. exists a, fa. repeat split; auto; lia.
  - destruct (a_lam a <? rent) eqn:E2.
    + destruct (a_lam a =? 0) eqn:E3; [zb; contradiction|].
      unfold fund_rent, invoke. cbn [fst snd].
      match goal with |- context [sys_exec pda ?c l] => destruct (sys_exec pda c l) as [l1| | |] eqn:E; cbn [obind]; try discriminate end.
      intros H; inversion H; subst l' log'; clear H.
      pose proof (sys_exec_total _ _ _ _ E) as Htot.
      apply transfer_effect in E; [|exact Hne].
      destruct E as (fa0 & ta & Hfa & Hta & Hle & Hu & _ & _ & ->).
      rewrite Hf in Hfa; inversion Hfa; subst fa0. rewrite Ha in Hta; inversion Hta; subst ta.
      eexists; eexists. split; [finds; rewrite Ha; reflexivity|]. split; [finds; rewrite Hf; reflexivity|].
      cbn [set_lam a_lam a_data a_owner]. repeat split; auto; try lia.
      intros k H1 H2. now finds.
    + unfold sub_lamports, add_lamports. rewrite Ha.
      destruct (a_lam a - (a_lam a - rent) <? 0); cbn [obind]; [discriminate|].
      rewrite find_credit_other, Hf by congruence.
      destruct (U64_MAX <? a_lam fa + (a_lam a - rent)); cbn [obind]; [discriminate|].
      intros H; inversion H; subst l' log'; clear H.
      eexists; eexists. split; [finds; rewrite Ha; reflexivity|]. split; [finds; rewrite Hf; reflexivity|].
      cbn [set_lam a_lam a_data a_owner]. repeat split; auto; try lia.
      * intros k H1 H2. now finds.
      * rewrite (total_credit _ _ _ fa), (total_credit _ _ _ a); auto; [lia|]. now finds.
Qed.

(* ---------------- refund (repaired) ---------------- *)
Theorem refund_keeps_min_and_moves_excess ak rk l log l' log' a ra :
  find ak l = Some a -> find rk l = Some ra -> rk <> ak -> a_lam a <> 0 ->
  refund_rent true minb ak rk (l, log) = Ok (l', log') ->
  exists a' ra',
    find ak l' = Some a' /\ find rk l' = Some ra' /\
    minb (zlen (a_data a')) <= a_lam a' /\ a_data a' = a_data a /\
    a_lam a - a_lam a' = Z.max 0 (a_lam a - minb (zlen (a_data a))) /\
    a_lam ra' - a_lam ra = a_lam a - a_lam a' /\
    log' = log /\
    (forall k, k <> ak -> k <> rk -> find k l' = find k l) /\
    total l' = total l.
Proof.
  intros Ha Hr Hne Hnz. unfold refund_rent. cbn [fst snd]. rewrite Ha.
  set (rent := minb (zlen (a_data a))).
  destruct (rent =? a_lam a) eqn:E1.
  - intros H; inversion H; subst. zb. exists a, ra. fold rent. repeat split; auto; lia.
  - destruct (a_lam a <? rent) eqn:E2.
    + destruct (a_lam a =? 0) eqn:E3; [zb; contradiction|discriminate].
    + unfold sub_lamports, add_lamports. rewrite Ha.
      destruct (a_lam a - (a_lam a - rent) <? 0); cbn [obind]; [discriminate|].
      rewrite find_credit_other, Hr by congruence.
      destruct (U64_MAX <? a_lam ra + (a_lam a - rent)); cbn [obind]; [discriminate|].
      intros H; inversion H; subst l' log'; clear H. zb.
      eexists; eexists. split; [finds; rewrite Ha; reflexivity|]. split; [finds; rewrite Hr; reflexivity|].
      cbn [set_lam a_lam a_data a_owner]. fold rent. repeat split; auto; try lia.
      * intros k H1 H2. now finds.
      * rewrite (total_credit _ _ _ ra), (total_credit _ _ _ a); auto; [lia|]. now finds.
Qed.

(* D14, second half: the shipped refund_rent reports success and leaves the account below the minimum *)
Theorem refund_keeps_min_refuted :
  exists minb' ak rk l l' log' a',
    (forall n, 0 <= minb' n) /\
    refund_rent false minb' ak rk (l, []) = Ok (l', log') /\ find ak l' = Some a' /\
    0 < a_lam a' < minb' (zlen (a_data a')).
Proof.
  exists ex_minb, 4, 3, (ex_ledger 77 10 [1; 2; 3; 4; 5; 6; 7; 8]), (ex_ledger 77 10 [1; 2; 3; 4; 5; 6; 7; 8]), [],
         (mkAcct 4 77 10 [1; 2; 3; 4; 5; 6; 7; 8] false true true).
  split; [exact ex_minb_nonneg|]. vm_compute. repeat split; reflexivity.
Qed.

(* ---------------- receive ---------------- *)
Theorem receive_only_adds_shortfall f ak l log l' log' a fa :
  find ak l = Some a -> find (f_key f) l = Some fa -> f_key f <> ak -> a_lam a <> 0 ->
  receive_rent pda minb ak f (l, log) = Ok (l', log') ->
  exists a' fa',
    find ak l' = Some a' /\ find (f_key f) l' = Some fa' /\
    a_lam a' = Z.max (a_lam a) (minb (zlen (a_data a))) /\ a_data a' = a_data a /\
    a_lam fa - a_lam fa' = Z.max 0 (minb (zlen (a_data a)) - a_lam a) /\
    a_lam a' - a_lam a = a_lam fa - a_lam fa' /\
    (forall k, k <> ak -> k <> f_key f -> find k l' = find k l) /\
    total l' = total l.
Proof.
  intros Ha Hf Hne Hnz. unfold receive_rent. cbn [fst snd]. rewrite Ha.
  set (rent := minb (zlen (a_data a))).
  destruct (a_lam a <? rent) eqn:E2.
  - destruct (a_lam a =? 0) eqn:E3; [zb; contradiction|].
    unfold fund_rent, invoke. cbn [fst snd].
    match goal with |- context [sys_exec pda ?c l] => destruct (sys_exec pda c l) as [l1| | |] eqn:E; cbn [obind]; try discriminate end.
    intros H; inversion H; subst l' log'; clear H.
    pose proof (sys_exec_total _ _ _ _ E) as Htot.
    apply transfer_effect in E; [|exact Hne].
    destruct E as (fa0 & ta & Hfa & Hta & Hle & Hu & _ & _ & ->).
    rewrite Hf in Hfa; inversion Hfa; subst fa0. rewrite Ha in Hta; inversion Hta; subst ta. zb.
    eexists; eexists. split; [finds; rewrite Ha; reflexivity|]. split; [finds; rewrite Hf; reflexivity|].
    cbn [set_lam a_lam a_data a_owner]. repeat split; auto; try lia.
    intros k H1 H2. now finds.
  - intros H; inversion H; subst. zb. exists a, fa. repeat split; auto; lia.
Qed.

(* ---------------- close ---------------- *)
Theorem close_post w ak rk l log l' log' a ra :
  find ak l = Some a -> find rk l = Some ra -> rk <> ak -> 0 <= w ->
  close_account w ak rk (l, log) = Ok (l', log') ->
  exists a' ra',
    find ak l' = Some a' /\ find rk l' = Some ra' /\
    a_lam a' = 0 /\ a_data a' = zrepeat 255 w /\ zlen (a_data a') = w /\ a_owner a' = a_owner a /\
    a_lam ra' = a_lam ra + a_lam a /\ a_data ra' = a_data ra /\
    log' = log /\
    (forall k, k <> ak -> k <> rk -> find k l' = find k l) /\
    total l' = total l.
Proof.
  intros Ha Hr Hne Hw. unfold close_account, add_lamports. cbn [fst snd]. rewrite Ha.
  rewrite find_upd_other, Hr by (first [congruence|intros; reflexivity]).
  destruct (U64_MAX <? a_lam ra + a_lam a); cbn [obind]; [discriminate|].
  intros H; inversion H; subst l' log'; clear H.
  eexists; eexists. split; [finds; rewrite Ha; reflexivity|]. split; [finds; rewrite Hr; reflexivity|].
  cbn [set_lam set_data a_lam a_data a_owner]. repeat split; auto.
  - now apply zlen_zrepeat.
  - intros k H1 H2. now finds.
  - assert (H1 : find ak (credit rk (a_lam a) (upd ak (set_data (zrepeat 255 w)) l)) = Some (set_data (zrepeat 255 w) a))
      by (finds; rewrite Ha; reflexivity).
    rewrite (total_upd _ _ _ _ H1). cbn [set_lam set_data a_lam].
    rewrite (total_credit _ _ _ ra) by (finds; exact Hr). rewrite total_set_data. lia.
Qed.

(* ---------------- conservation, for every operation and every way of naming funder / recipient ---------------- *)
Lemma normalize_total ak f s s' : normalize_rent pda minb ak f s = Ok s' -> total (fst s') = total (fst s).
Proof.
  unfold normalize_rent. destruct (find ak (fst s)) as [a|]; [|discriminate].
  destruct (_ =? _); [intros H; now inversion H|].
  destruct (_ <? _).
  - destruct (_ =? _); [intros H; now inversion H|]. apply invoke_total.
  - destruct (sub_lamports _ _ _) as [l1| | |] eqn:E1; cbn [obind]; try discriminate.
    destruct (add_lamports _ _ _) as [l2| | |] eqn:E2; cbn [obind]; try discriminate.
    intros H; inversion H; subst. cbn [fst].
    rewrite (add_lamports_total _ _ _ _ E2), (sub_lamports_total _ _ _ _ E1). lia.
Qed.

Lemma refund_total fixed ak rk s s' : refund_rent fixed minb ak rk s = Ok s' -> total (fst s') = total (fst s).
Proof.
  unfold refund_rent. destruct (find ak (fst s)) as [a|]; [|discriminate].
  destruct (_ =? _); [intros H; now inversion H|].
  destruct (_ <? _).
  - destruct (if fixed then _ else _); [intros H; now inversion H|discriminate].
  - destruct (sub_lamports _ _ _) as [l1| | |] eqn:E1; cbn [obind]; try discriminate.
    destruct (add_lamports _ _ _) as [l2| | |] eqn:E2; cbn [obind]; try discriminate.
    intros H; inversion H; subst. cbn [fst].
    rewrite (add_lamports_total _ _ _ _ E2), (sub_lamports_total _ _ _ _ E1). lia.
Qed.

Lemma receive_total ak f s s' : receive_rent pda minb ak f s = Ok s' -> total (fst s') = total (fst s).
Proof.
  unfold receive_rent. destruct (find ak (fst s)) as [a|]; [|discriminate].
  destruct (_ <? _); [|intros H; now inversion H].
  destruct (_ =? _); [intros H; now inversion H|]. apply invoke_total.
Qed.

Lemma close_total w ak rk s s' :
  rk <> ak -> close_account w ak rk s = Ok s' -> total (fst s') = total (fst s).
Proof.
  intros Hne. unfold close_account. destruct (find ak (fst s)) as [a|] eqn:Ha; [|discriminate].
  destruct (add_lamports _ _ _) as [l2| | |] eqn:E2; cbn [obind]; try discriminate.
  intros H; inversion H; subst. cbn [fst].
  pose proof (add_lamports_total _ _ _ _ E2) as Ht. rewrite total_set_data in Ht.
  unfold add_lamports in E2. destruct (find rk _); [|discriminate]. destruct (_ <? _); [discriminate|].
  inversion E2; subst.
  assert (H1 : find ak (credit rk (a_lam a) (upd ak (set_data (zrepeat 255 w)) (fst s))) = Some (set_data (zrepeat 255 w) a))
    by (finds; rewrite Ha; reflexivity).
  rewrite (total_upd _ _ _ _ H1). cbn [set_lam set_data a_lam]. lia.
Qed.

Theorem conservation fixed dw cx ak arg s s' :
  (forall w r, arg = CClose w -> resolve_recipient cx w = Ok r -> r <> ak) ->
  cleanup fixed pda minb dw cx ak arg s = Ok s' -> total (fst s') = total (fst s).
Proof.
  intros Hd. destruct arg as [w|w|w|w]; cbn [cleanup].
  - destruct (resolve_funder cx w); cbn [obind]; try discriminate. apply normalize_total.
  - destruct (resolve_funder cx w); cbn [obind]; try discriminate. apply receive_total.
  - destruct (resolve_recipient cx w); cbn [obind]; try discriminate. apply refund_total.
  - destruct (resolve_recipient cx w) as [r| | |] eqn:E; cbn [obind]; try discriminate.
    apply close_total. now apply (Hd w).
Qed.

(* ---------------- with every balance and the supply below 2^64 nothing overflows ---------------- *)
Theorem rent_ops_no_overflow fixed w ak f rk l log a fa ra :
  ledger_ok l -> find ak l = Some a ->
  find (f_key f) l = Some fa -> f_key f <> ak -> find rk l = Some ra -> rk <> ak ->
  ok_or_err (normalize_rent pda minb ak f (l, log)) /\ ok_or_err (receive_rent pda minb ak f (l, log)) /\
  ok_or_err (refund_rent fixed minb ak rk (l, log)) /\ ok_or_err (close_account w ak rk (l, log)).
Proof.
  intros [Hok Hsup] Ha Hf Hnf Hr Hnr.
  pose proof (find_lam_ok _ _ _ Hok Ha) as [Ha0 _].
  pose proof (minb_nonneg (zlen (a_data a))) as Hm.
  assert (Hmove : forall ok oa t, find ok l = Some oa -> ok <> ak -> 0 <= t <= a_lam a ->
            ok_or_err (do l1 <- sub_lamports ak t l; do l2 <- add_lamports ok t l1; Ok (l2, log))).
  { intros ok oa t Ho Hne Ht. unfold sub_lamports, add_lamports. rewrite Ha.
    pose proof (two_lam_le_total _ _ _ _ _ Hok Ha Ho ltac:(congruence)) as H2.
    destruct (a_lam a - t <? 0) eqn:E; [zb; lia|]. cbn [obind].
    rewrite find_credit_other, Ho by congruence.
    destruct (U64_MAX <? a_lam oa + t) eqn:E2; [zb; lia|]. cbn [obind]. left; eauto. }
  repeat split.
  - unfold normalize_rent. cbn [fst snd]. rewrite Ha.
    destruct (_ =? _); [left; eauto|]. destruct (_ <? _) eqn:E.
    + destruct (_ =? _); [left; eauto|]. apply invoke_ooe.
    + zb. apply (Hmove _ _ _ Hf Hnf). lia.
  - unfold receive_rent. cbn [fst]. rewrite Ha.
    destruct (_ <? _); [|left; eauto]. destruct (_ =? _); [left; eauto|]. apply invoke_ooe.
  - unfold refund_rent. cbn [fst snd]. rewrite Ha.
    destruct (_ =? _); [left; eauto|]. destruct (_ <? _) eqn:E.
    + destruct (if fixed then _ else _); [left|right]; eauto.
    + zb. apply (Hmove _ _ _ Hr Hnr). lia.
  - unfold close_account, add_lamports. cbn [fst snd]. rewrite Ha.
    rewrite find_upd_other, Hr by (first [congruence|intros; reflexivity]).
    pose proof (two_lam_le_total _ _ _ _ _ Hok Ha Hr ltac:(congruence)) as H2.
    destruct (U64_MAX <? a_lam ra + a_lam a) eqn:E2; [zb; lia|]. cbn [obind]. left; eauto.
Qed.

(* ---------------- the cached funder / recipient ---------------- *)
Theorem cached_lookup fixed dw cx ak s :
  (forall f, cx_funder cx = Some f ->
     cleanup fixed pda minb dw cx ak (CNormalize Cached) s = normalize_rent pda minb ak f s /\
     cleanup fixed pda minb dw cx ak (CReceive Cached) s = receive_rent pda minb ak f s) /\
  (forall r, cx_recipient cx = Some r ->
     cleanup fixed pda minb dw cx ak (CRefund RCached) s = refund_rent fixed minb ak r s /\
     cleanup fixed pda minb dw cx ak (CClose RCached) s = close_account dw ak r s) /\
  (cx_funder cx = None ->
     cleanup fixed pda minb dw cx ak (CNormalize Cached) s = Err EC_EMPTY_FUNDER_CACHE /\
     cleanup fixed pda minb dw cx ak (CReceive Cached) s = Err EC_EMPTY_FUNDER_CACHE) /\
  (cx_recipient cx = None ->
     cleanup fixed pda minb dw cx ak (CRefund RCached) s = Err EC_EMPTY_RECIPIENT_CACHE /\
     cleanup fixed pda minb dw cx ak (CClose RCached) s = Err EC_EMPTY_RECIPIENT_CACHE).
Proof.
  repeat split; intros; cbn [cleanup resolve_funder resolve_recipient];
    match goal with H : _ = _ |- _ => rewrite H end; reflexivity.
Qed.

(* validate.rs 227-248: the first account marked funder / recipient stays cached *)
Theorem cache_first_wins f1 f2 r1 r2 cx :
  cx_funder (cache_funder f2 (cache_funder f1 cx)) = cx_funder (cache_funder f1 cx) /\
  cx_recipient (cache_recipient r2 (cache_recipient r1 cx)) = cx_recipient (cache_recipient r1 cx) /\
  (cx_funder cx = None -> cx_funder (cache_funder f1 cx) = Some f1) /\
  (cx_recipient cx = None -> cx_recipient (cache_recipient r1 cx) = Some r1).
Proof.
  unfold cache_funder, cache_recipient. destruct cx as [[f|] [r|]]; cbn; repeat split; auto; discriminate.
Qed.
End Theorems.

(* non-vacuity: the four operations on a program-owned account holding more / less than the minimum *)
Example normalize_example :
  let l := [mkAcct 3 SYS 1000000000 [] false true true; mkAcct 4 77 2000000 [1; 2; 3; 4; 5; 6; 7; 8] false false true] in
  option_map (fun s => map a_lam (fst s)) (match normalize_rent no_pda ex_minb 4 ex_funder (l, []) with Ok s => Some s | _ => None end)
    = Some [1000000000 + (2000000 - 946560); 946560] /\
  option_map (fun s => map a_lam (fst s)) (match refund_rent true ex_minb 4 3 (l, []) with Ok s => Some s | _ => None end)
    = Some [1000000000 + (2000000 - 946560); 946560] /\
  option_map (fun s => map a_lam (fst s)) (match receive_rent no_pda ex_minb 4 ex_funder (l, []) with Ok s => Some s | _ => None end)
    = Some [1000000000; 2000000] /\
  option_map (fun s => map (fun a => (a_lam a, a_data a)) (fst s)) (match close_account 8 4 3 (l, []) with Ok s => Some s | _ => None end)
    = Some [(1002000000, []); (0, [255; 255; 255; 255; 255; 255; 255; 255])].
Proof. vm_compute. repeat split; reflexivity. Qed.

Example receive_example :
  let l := [mkAcct 3 SYS 1000000000 [] false true true; mkAcct 4 77 10 [1; 2; 3; 4; 5; 6; 7; 8] false false true] in
  option_map (fun s => (map a_lam (fst s), zlen (snd s)))
             (match receive_rent no_pda ex_minb 4 ex_funder (l, []) with Ok s => Some s | _ => None end)
    = Some ([1000000000 - (946560 - 10); 946560], 1) /\
  refund_rent true ex_minb 4 3 (l, []) = Err PE_INSUFFICIENT_FUNDS.
Proof. vm_compute. split; reflexivity. Qed.
