(* C13 model: rent adjustment and close.

   Sources:
     account_set/single_set.rs 200-216   close_account (resize to the discriminant size, fill with 0xFF, move the
                                         whole balance, zero the lamports)
                               227-255   normalize_rent      257-282 refund_rent      284-299 receive_rent
                               154-198   add_lamports / fund_rent (Transfer CPI signed with the funder's seeds)
     account_set/account.rs 47-110       cleanup ids: NormalizeRent / ReceiveRent / RefundRent / CloseAccount with an
                                         explicit &funder / &recipient or `()` = the cached one (error when empty)
     context.rs 85-103, star_frame_proc validate.rs 227-248   the cache: first `#[validate(funder)]` wins
   `fixed = false` is the shipped refund_rent (`ensure!(lamports > 0, InsufficientFunds)` in the branch
   "minimum > balance": zero lamports => error, 0 < balance < minimum => Ok, D14);
   `fixed = true` is the repaired test `lamports == 0`.
   No proofs in this file. *)
From SF Require Import Base.Prelude Gen.Generated Rent.Ledger Rent.Init.

Section Model.
Variable fixed : bool.
Variable pda : pda_fn.
Variable minb : Z -> Z.

(* single_set.rs 232-255 *)
Definition normalize_rent (ak : key) (f : funder) (s : st) : out st :=
  match find ak (fst s) with
  | None => Fault
  | Some a =>
      let lam := a_lam a in
      let rent := minb (zlen (a_data a)) in
      if rent =? lam then Ok s
      else if lam <? rent then
        if lam =? 0 then Ok s
        else fund_rent pda f ak (rent - lam) s
      else
        let t := lam - rent in
        do l1 <- sub_lamports ak t (fst s);
        do l2 <- add_lamports (f_key f) t l1;
        Ok (l2, snd s)
  end.

(* single_set.rs 258-282 *)
Definition refund_rent (ak : key) (rk : key) (s : st) : out st :=
  match find ak (fst s) with
  | None => Fault
  | Some a =>
      let lam := a_lam a in
      let rent := minb (zlen (a_data a)) in
      if rent =? lam then Ok s
      else if lam <? rent then
        if (if fixed then lam =? 0 else 0 <? lam) then Ok s else Err PE_INSUFFICIENT_FUNDS
      else
        let t := lam - rent in
        do l1 <- sub_lamports ak t (fst s);
        do l2 <- add_lamports rk t l1;
        Ok (l2, snd s)
  end.

(* single_set.rs 285-299 *)
Definition receive_rent (ak : key) (f : funder) (s : st) : out st :=
  match find ak (fst s) with
  | None => Fault
  | Some a =>
      let lam := a_lam a in
      let rent := minb (zlen (a_data a)) in
      if lam <? rent then
        if lam =? 0 then Ok s
        else fund_rent pda f ak (rent - lam) s
      else Ok s
  end.

(* single_set.rs 205-216; w = size_of::<OwnerProgramDiscriminant<Self>>().  pinocchio's resize refuses
   growth beyond the 10 KiB allowance, which a discriminant never reaches. *)
Definition close_account (w : Z) (ak rk : key) (s : st) : out st :=
  match find ak (fst s) with
  | None => Fault
  | Some a =>
      let l1 := upd ak (set_data (zrepeat 255 w)) (fst s) in
      do l2 <- add_lamports rk (a_lam a) l1;
      Ok (upd ak (set_lam 0) l2, snd s)
  end.

(* account.rs 47-110: the cleanup argument decides where funder / recipient come from *)
Inductive rwho := RExplicit (r : key) | RCached.
Definition resolve_recipient (c : ctx) (w : rwho) : out key :=
  match w with
  | RExplicit r => Ok r
  | RCached => match cx_recipient c with Some r => Ok r | None => Err EC_EMPTY_RECIPIENT_CACHE end
  end.

Inductive cleanup_arg :=
| CNormalize (w : who) | CReceive (w : who) | CRefund (w : rwho) | CClose (w : rwho).

Definition cleanup (dw : Z) (c : ctx) (ak : key) (arg : cleanup_arg) (s : st) : out st :=
  match arg with
  | CNormalize w => do f <- resolve_funder c w; normalize_rent ak f s
  | CReceive w => do f <- resolve_funder c w; receive_rent ak f s
  | CRefund w => do r <- resolve_recipient c w; refund_rent ak r s
  | CClose w => do r <- resolve_recipient c w; close_account dw ak r s
  end.

End Model.
