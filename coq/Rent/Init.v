(* C12 model: Init<T> validated with Create(..) / CreateIfNeeded(..).

   Sources (line by line where it matters):
     account_set/modifiers/init.rs 20-75      the four validate ids: init_seeds, init_account::<IF_NEEDED>, then the
                                              inner field's own validation
     account_set/modifiers/seeded.rs 79-95    seeds_with_bump;  241-276 validate_and_set_seeds(_with_bump);
                                              309-340 Seeded::init_account (hands seeds_with_bump to the inner account)
     account_set/modifiers/signer.rs 57-67    CanInitSeeds on Signer<_> is a no-op
     account_set/account.rs 277-369           Account<T>: the four init_account impls (cached funder looked up FIRST),
                                              needs_init test, check_writable, system_create_account, data initialisation
     account_set/borsh_account.rs 164-183     decode (try_from_slice of the body when longer than the discriminant)
                                 253-338      BorshAccount<T>: same shape; only the discriminant is written at init,
                                              the value is held in memory until cleanup serialises it (C15)
     account_set/single_set.rs 164-198        CanFundRent::fund_rent = system Transfer CPI signed with the funder's seeds
                               325-393        system_create_account, both branches
     account_set/mod.rs 33-124                validate_account_info (C08's model, restated on this ledger)
   `fixed = false` is the shipped top-up arithmetic `exempt.saturating_sub(current).max(1)` (D5);
   `fixed = true` is `exempt.max(1).saturating_sub(current)` with the transfer skipped when it is 0.
   The decode step of BorshAccount and the value it holds after validation are `borsh_decode` / `borsh_held`.
   No proofs in this file. *)
From SF Require Import Base.Prelude Gen.Generated Rent.Ledger.

(* what the framework knows about a funder (trait CanFundRent): the account it debits and, for a
   Seeded<_, _, CurrentProgram> funder, its seeds_with_bump *)
Record funder := mkFunder { f_key : key; f_seeds : option seeds }.

(* context.rs 20-23, 85-103: cached funder / recipient; validate.rs 227-248: first one wins *)
Record ctx := mkCtx { cx_funder : option funder; cx_recipient : option key }.
Definition cache_funder (f : funder) (c : ctx) : ctx :=
  match cx_funder c with None => mkCtx (Some f) (cx_recipient c) | Some _ => c end.
Definition cache_recipient (r : key) (c : ctx) : ctx :=
  match cx_recipient c with None => mkCtx (cx_funder c) (Some r) | Some _ => c end.

Inductive who := Explicit (f : funder) | Cached.
Definition resolve_funder (c : ctx) (w : who) : out funder :=
  match w with
  | Explicit f => Ok f
  | Cached => match cx_funder c with Some f => Ok f | None => Err EC_EMPTY_FUNDER_CACHE end
  end.

(* the account type being initialised *)
Record tcfg := mkCfg {
  t_prog : key;          (* T::OwnerProgram::ID (= the running program) *)
  t_disc : list Z;       (* bytes_of(&T::DISCRIMINANT) *)
  t_borsh : bool;        (* BorshAccount<T> rather than Account<T> *)
}.

(* seeded.rs 83-94: replace a trailing empty seed by the bump, otherwise push the bump *)
Definition with_bump (sd : seeds) (b : Z) : seeds :=
  match rev sd with
  | [] :: r => rev r ++ [[b]]
  | _ => sd ++ [[b]]
  end.

Inductive seed_arg :=
| SANone                           (* Init<Signer<_>> validated with Create(c) / CreateIfNeeded(c) *)
| SAFind (sd : seeds)              (* Init<Seeded<_>> validated with (Create(c), Seeds(sd)) *)
| SABump (sd : seeds) (b : Z).     (* ... with (Create(c), SeedsWithBump { seeds: sd, bump: b }) *)

Section Model.
Variable fixed : bool.                     (* D5: top-up arithmetic, see above *)
Variable short_fixed : bool.               (* D10: false = shipped slice index `account_data()?[..w]` (panics when the data
                                              is shorter than the discriminant), true = `.get(..w).is_some_and(all zero)` *)
Variable pda : pda_fn.                    (* Pubkey::create_program_address(_, current program) *)
Variable findp : seeds -> key * Z.        (* Pubkey::find_program_address(_, current program) *)
Variable minb : Z -> Z.                   (* Rent::minimum_balance *)

(* single_set.rs 173-192 *)
Definition fund_rent (f : funder) (tk : key) (lam : Z) (s : st) : out st :=
  invoke pda (mkCpi SYS (STransfer lam) [mkMeta (f_key f) true true; mkMeta tk false true]
                    (match f_seeds f with None => [] | Some sd => [sd] end)) s.

(* single_set.rs 365 (shipped) / the repaired form *)
Definition topup (exempt cur : Z) : Z :=
  if fixed then Z.max 0 (Z.max exempt 1 - cur)
  else Z.max (Z.max 0 (exempt - cur)) 1.

(* single_set.rs 330-392 *)
Definition system_create_account (f : funder) (tk owner : key) (space : Z) (aseeds : option seeds) (s : st)
  : out st :=
  match find tk (fst s) with
  | None => Fault
  | Some a =>
      let current := a_lam a in
      let exempt := minb space in
      if current =? 0 then       (* can_create_account() is `true` for every funder the framework defines *)
        let sl := match f_seeds f, aseeds with
                  | Some fs, Some sa => [fs; sa]
                  | Some fs, None => [fs]
                  | None, Some sa => [sa]
                  | None, None => []
                  end in
        invoke pda (mkCpi SYS (SCreate exempt space owner)
                          [mkMeta (f_key f) true true; mkMeta tk true true] sl) s
      else
        let required := topup exempt current in
        do s1 <- (if 0 <? required then fund_rent f tk required s else Ok s);
        let sl := match aseeds with Some sa => [sa] | None => [] end in
        do s2 <- invoke pda (mkCpi SYS (SAllocate space) [mkMeta tk true true] sl) s1;
        invoke pda (mkCpi SYS (SAssign owner) [mkMeta tk true true] sl) s2
  end.

(* account.rs 345-353 / borsh_account.rs 317-325 *)
Definition needs_init (w : Z) (a : acct) : out bool :=
  if a_owner a =? SYS then Ok true
  else if zlen (a_data a) <? w then (if short_fixed then Ok false else Panic)   (* account_data()?[..w] : slice index *)
  else Ok (forallb (fun b => b =? 0) (ztake w (a_data a))).

(* account.rs 364-366 with discriminant::AccountDiscriminant::init (246-257) and a T::init that advances over
   exactly its INIT_BYTES;  borsh_account.rs 332-335 *)
Definition write_init (cfg : tcfg) (ib : list Z) (a : acct) : out acct :=
  let w := zlen (t_disc cfg) in
  if t_borsh cfg then
    if zlen (a_data a) <? w then Panic
    else Ok (set_data (t_disc cfg ++ zdrop w (a_data a)) a)
  else
    if zlen (a_data a) <? w + zlen ib then Err EC_ADVANCE_ERROR
    else Ok (set_data (t_disc cfg ++ ib ++ zdrop (w + zlen ib) (a_data a)) a).

(* account.rs 308-369 / borsh_account.rs 268-338.  `fo` is the funder after the cache lookup that the
   `InitFn`-only argument forms do first. *)
Definition init_account (cfg : tcfg) (if_needed : bool) (tk : key) (fo : out funder) (aseeds : option seeds)
           (ib : list Z) (s : st) : out (st * bool) :=
  do f <- fo;
  match find tk (fst s) with
  | None => Fault
  | Some a =>
      let w := zlen (t_disc cfg) in
      do ni <- (if if_needed then needs_init w a else Ok true);
      if negb ni then Ok (s, false) else
      if negb (a_writable a) then Err EC_EXPECTED_WRITABLE else
      do s1 <- system_create_account f tk (t_prog cfg) (w + zlen ib) aseeds s;
      match find tk (fst s1) with
      | None => Fault
      | Some a1 =>
          do a2 <- write_init cfg ib a1;
          Ok ((upd tk (fun _ => a2) (fst s1), snd s1), true)
      end
  end.

(* seeded.rs 241-276 *)
Definition init_seeds (tk : key) (sa : seed_arg) : out (option (seeds * Z)) :=
  match sa with
  | SANone => Ok None
  | SAFind sd =>
      let '(addr, bump) := findp sd in
      if addr =? tk then Ok (Some (sd, bump)) else Err EC_ADDRESS_MISMATCH
  | SABump sd b =>
      match pda (with_bump sd b) with
      | None => Err PE_INVALID_SEEDS
      | Some addr => if addr =? tk then Ok (Some (sd, b)) else Err EC_ADDRESS_MISMATCH
      end
  end.

(* mod.rs 33-124 on this ledger (the borrow always succeeds here) *)
Definition validate_account_info (cfg : tcfg) (a : acct) : out unit :=
  let w := zlen (t_disc cfg) in
  do _ <- (if w =? 0 then Ok tt
           else if zlen (a_data a) <? w then Err PE_ACCOUNT_DATA_TOO_SMALL
           else if seed_eqb (ztake w (a_data a)) (t_disc cfg) then Ok tt
           else Err EC_DISCRIMINANT_MISMATCH);
  if a_owner a =? t_prog cfg then Ok tt else Err PE_INVALID_ACCOUNT_OWNER.

(* init.rs 22-65 then the inner field (Signer<Account<T>>: Account then check_signer;
   Seeded<Account<T>>: validate_and_set_seeds is a no-op the second time, then Account) *)
Definition init_validate (cfg : tcfg) (if_needed : bool) (tk : key) (sa : seed_arg) (fo : out funder)
           (ib : list Z) (s : st) : out (st * bool) :=
  do ss <- init_seeds tk sa;
  do aseeds <- (match sa, ss with
                | SANone, _ => Ok None                          (* derived pass-through, account_seeds = None *)
                | _, None => Err EC_SEEDS_NOT_SET               (* seeded.rs 327-336 *)
                | _, Some (sd, b) => Ok (Some (with_bump sd b))
                end);
  do r <- init_account cfg if_needed tk fo aseeds ib s;
  match find tk (fst (fst r)) with
  | None => Fault
  | Some a =>
      do _ <- validate_account_info cfg a;
      do _ <- (match sa with
               | SANone => if a_signer a then Ok tt else Err EC_EXPECTED_SIGNER
               | _ => Ok tt
               end);
      Ok r
  end.

End Model.

(* borsh_account.rs 164-183: the body is deserialised at decode time when the data is longer than the
   discriminant; `dec_ok` is the user type's try_from_slice succeeding (oracle). Zero-copy accounts decode nothing. *)
Definition borsh_decode (cfg : tcfg) (dec_ok : list Z -> bool) (a : acct) : out unit :=
  let w := zlen (t_disc cfg) in
  if t_borsh cfg && (w <? zlen (a_data a)) && negb (dec_ok (zdrop w (a_data a))) then Err EC_IO_ERROR else Ok tt.

(* the value a BorshAccount holds after validation, as its serialisation: the initial value when it was just
   initialised (borsh_account.rs 335), else what decode read *)
Definition borsh_held (cfg : tcfg) (ni : bool) (ib : list Z) (a0 : acct) : option (list Z) :=
  let w := zlen (t_disc cfg) in
  if negb (t_borsh cfg) then None
  else if ni then Some ib
  else if w <? zlen (a_data a0) then Some (zdrop w (a_data a0)) else None.
