(* C12 / C13 foundations: the ledger and the SYSTEM PROGRAM SIMULATOR (an oracle, DESIGN.md section 8).

   The ledger is the list of accounts an instruction was given.  Keys are 256-bit numbers (the
   little-endian value of the 32 key bytes), lamports are integers with the u64 bounds made
   explicit wherever Rust code or the system program adds to a balance.

   The simulator states the rules of the runtime + system program that the framework's account
   creation relies on (agave programs/system/src/system_processor.rs: create_account, allocate,
   assign, transfer; runtime: CPI privilege check, only-the-owner-may-debit/reassign, read-only
   accounts may not change, CPI growth limit).  The SAME rules are implemented in Rust in
   harness/src/rent_sim.rs behind the CPI hook; their agreement is part of the correspondence check.
   No proofs in this file. *)
From SF Require Import Base.Prelude Gen.Generated.

Definition key := Z.
Definition SYS : key := 0.                       (* System::ID is the all-zero key (program/system.rs 22) *)
Definition U64_MAX : Z := 18446744073709551615.

Record acct := mkAcct {
  a_key : key;
  a_owner : key;
  a_lam : Z;                 (* u64 *)
  a_data : list Z;           (* bytes; the data length is zlen a_data *)
  a_exec : bool;             (* carried, never changed by anything modelled here *)
  a_signer : bool;           (* AccountInfo::is_signer of the running instruction *)
  a_writable : bool;         (* AccountInfo::is_writable of the running instruction *)
}.
Definition ledger := list acct.

Definition set_lam (x : Z) (a : acct) : acct :=
  mkAcct (a_key a) (a_owner a) x (a_data a) (a_exec a) (a_signer a) (a_writable a).
Definition set_owner (o : key) (a : acct) : acct :=
  mkAcct (a_key a) o (a_lam a) (a_data a) (a_exec a) (a_signer a) (a_writable a).
Definition set_data (d : list Z) (a : acct) : acct :=
  mkAcct (a_key a) (a_owner a) (a_lam a) d (a_exec a) (a_signer a) (a_writable a).

Fixpoint find (k : key) (l : ledger) : option acct :=
  match l with
  | [] => None
  | a :: r => if a_key a =? k then Some a else find k r
  end.

(* update the (first) account with key k *)
Fixpoint upd (k : key) (f : acct -> acct) (l : ledger) : ledger :=
  match l with
  | [] => []
  | a :: r => if a_key a =? k then f a :: r else a :: upd k f r
  end.

Definition total (l : ledger) : Z := zsum (map a_lam l).

(* add n (possibly negative) lamports to the account with key k *)
Definition credit (k : key) (n : Z) (l : ledger) : ledger := upd k (fun a => set_lam (a_lam a + n) a) l.

(* every balance is a u64 and so is the total supply (the property's standing assumption) *)
Definition lam_ok (a : acct) : bool := (0 <=? a_lam a) && (a_lam a <=? U64_MAX).
Definition ledger_ok (l : ledger) : Prop := forallb lam_ok l = true /\ total l <= U64_MAX.

(* ------------------------------------------------------------------------------------------ *)
(* seeds and the PDA oracle                                                                     *)
Definition seed := list Z.
Definition seeds := list seed.
(* create_program_address(seeds, current program) : None = the hash is on the curve / seeds invalid *)
Definition pda_fn := seeds -> option key.

Fixpoint seed_eqb (a b : seed) : bool :=
  match a, b with
  | [], [] => true
  | x :: a', y :: b' => (x =? y) && seed_eqb a' b'
  | _, _ => false
  end.
Fixpoint seeds_eqb (a b : seeds) : bool :=
  match a, b with
  | [], [] => true
  | x :: a', y :: b' => seed_eqb x y && seeds_eqb a' b'
  | _, _ => false
  end.

(* ------------------------------------------------------------------------------------------ *)
(* CPIs into the system program                                                                 *)
Inductive sysix :=
| SCreate (lam space : Z) (owner : key)        (* discriminant 0 *)
| SAssign (owner : key)                        (* 1 *)
| STransfer (lam : Z)                          (* 2 *)
| SAllocate (space : Z).                       (* 8 *)

Record meta := mkMeta { m_key : key; m_signer : bool; m_writable : bool }.
Record cpi := mkCpi { c_prog : key; c_ix : sysix; c_metas : list meta; c_seeds : list seeds }.

(* error codes of the simulated runtime that have no ProgramError of their own: Custom(n) *)
Definition SIM_PRIVILEGE_ESCALATION : Z := 20736.     (* 0x5100 InstructionError::PrivilegeEscalation *)
Definition SIM_EXTERNAL_SPEND : Z := 20737.           (* ExternalAccountLamportSpend *)
Definition SIM_MODIFIED_PROGRAM_ID : Z := 20738.      (* ModifiedProgramId *)
Definition SIM_READONLY_MODIFIED : Z := 20739.        (* Readonly{Lamport,Data}Change *)
Definition SIM_UNKNOWN_PROGRAM : Z := 20740.
Definition SIM_MISSING_ACCOUNT : Z := 20741.
(* SystemError as ProgramError::Custom *)
Definition SYS_ALREADY_IN_USE : Z := PE_CUSTOM_ZERO.  (* Custom(0) *)
Definition SYS_RESULT_WITH_NEGATIVE_LAMPORTS : Z := 1.
Definition SYS_INVALID_ACCOUNT_DATA_LENGTH : Z := 3.
Definition MAX_PERMITTED_DATA_LENGTH : Z := 10485760.

Definition is_nil {A} (l : list A) : bool := match l with [] => true | _ => false end.

(* runtime: a CPI may mark an account signer only if the caller saw it as signer or one of the signer-seed
   lists derives its address under the calling program; writable only if the caller saw it writable *)
Definition pda_signs (pda : pda_fn) (ss : list seeds) (k : key) : bool :=
  existsb (fun s => match pda s with Some k' => k' =? k | None => false end) ss.

Definition priv_one (pda : pda_fn) (l : ledger) (ss : list seeds) (m : meta) : out unit :=
  match find (m_key m) l with
  | None => Err SIM_MISSING_ACCOUNT
  | Some a =>
      if m_signer m && negb (a_signer a || pda_signs pda ss (m_key m)) then Err SIM_PRIVILEGE_ESCALATION
      else if m_writable m && negb (a_writable a) then Err SIM_PRIVILEGE_ESCALATION
      else Ok tt
  end.

Fixpoint priv_all (pda : pda_fn) (l : ledger) (ss : list seeds) (ms : list meta) : out unit :=
  match ms with
  | [] => Ok tt
  | m :: r => do _ <- priv_one pda l ss m; priv_all pda l ss r
  end.

(* system program: transfer (system_processor.rs transfer / transfer_verified) *)
Definition sys_transfer (l : ledger) (f t : meta) (lam : Z) : out ledger :=
  if negb (m_signer f) then Err PE_MISSING_REQUIRED_SIGNATURES else
  match find (m_key f) l, find (m_key t) l with
  | Some fa, Some ta =>
      if negb (is_nil (a_data fa)) then Err PE_INVALID_ARGUMENT
      else if a_lam fa <? lam then Err SYS_RESULT_WITH_NEGATIVE_LAMPORTS
      else if negb (a_owner fa =? SYS) then Err SIM_EXTERNAL_SPEND
      else if negb (m_writable f && m_writable t) then Err SIM_READONLY_MODIFIED
      else
        let l1 := credit (m_key f) (- lam) l in
        match find (m_key t) l1 with
        | Some ta1 =>
            if U64_MAX <? a_lam ta1 + lam then Err PE_ARITHMETIC_OVERFLOW
            else Ok (credit (m_key t) lam l1)
        | None => Err SIM_MISSING_ACCOUNT
        end
  | _, _ => Err SIM_MISSING_ACCOUNT
  end.

(* allocate *)
Definition sys_allocate (l : ledger) (m : meta) (space : Z) : out ledger :=
  if negb (m_signer m) then Err PE_MISSING_REQUIRED_SIGNATURES else
  match find (m_key m) l with
  | Some a =>
      if negb (is_nil (a_data a)) || negb (a_owner a =? SYS) then Err SYS_ALREADY_IN_USE
      else if MAX_PERMITTED_DATA_LENGTH <? space then Err SYS_INVALID_ACCOUNT_DATA_LENGTH
      else if MAX_PERMITTED_DATA_INCREASE <? space then Err PE_INVALID_ACCOUNT_DATA_REALLOC
      else if negb (m_writable m) then Err SIM_READONLY_MODIFIED
      else Ok (upd (m_key m) (set_data (zrepeat 0 space)) l)
  | None => Err SIM_MISSING_ACCOUNT
  end.

(* assign *)
Definition sys_assign (l : ledger) (m : meta) (owner : key) : out ledger :=
  match find (m_key m) l with
  | Some a =>
      if a_owner a =? owner then Ok l
      else if negb (m_signer m) then Err PE_MISSING_REQUIRED_SIGNATURES
      else if negb (a_owner a =? SYS) then Err SIM_MODIFIED_PROGRAM_ID
      else if negb (m_writable m) then Err SIM_READONLY_MODIFIED
      else Ok (upd (m_key m) (set_owner owner) l)
  | None => Err SIM_MISSING_ACCOUNT
  end.

(* create_account = "already in use" test, allocate, assign, transfer *)
Definition sys_create (l : ledger) (f t : meta) (lam space : Z) (owner : key) : out ledger :=
  match find (m_key t) l with
  | Some ta =>
      if 0 <? a_lam ta then Err SYS_ALREADY_IN_USE else
      do l1 <- sys_allocate l t space;
      do l2 <- sys_assign l1 t owner;
      sys_transfer l2 f t lam
  | None => Err SIM_MISSING_ACCOUNT
  end.

Definition sys_exec (pda : pda_fn) (c : cpi) (l : ledger) : out ledger :=
  if negb (c_prog c =? SYS) then Err SIM_UNKNOWN_PROGRAM else
  do _ <- priv_all pda l (c_seeds c) (c_metas c);
  match c_ix c, c_metas c with
  | SCreate lam sp ow, [f; t] => sys_create l f t lam sp ow
  | STransfer lam, [f; t] => sys_transfer l f t lam
  | SAllocate sp, [a] => sys_allocate l a sp
  | SAssign ow, [a] => sys_assign l a ow
  | _, _ => Err PE_NOT_ENOUGH_ACCOUNT_KEYS
  end.

(* the state threaded through framework code: ledger + the log of CPIs made so far *)
Definition st := (ledger * list cpi)%type.

Definition invoke (pda : pda_fn) (c : cpi) (s : st) : out st :=
  do l' <- sys_exec pda c (fst s); Ok (l', snd s ++ [c]).

(* Rust `*x.try_borrow_mut_lamports()? += n` / `-= n` under overflow checks (the workspace's release
   profile sets overflow-checks = true; debug always has them) *)
Definition add_lamports (k : key) (n : Z) (l : ledger) : out ledger :=
  match find k l with
  | Some a => if U64_MAX <? a_lam a + n then Panic else Ok (credit k n l)
  | None => Fault      (* the account set always holds the account it names: not reachable *)
  end.
Definition sub_lamports (k : key) (n : Z) (l : ledger) : out ledger :=
  match find k l with
  | Some a => if a_lam a - n <? 0 then Panic else Ok (credit k (- n) l)
  | None => Fault
  end.
