(* C12 proofs: Init<T> with Create / CreateIfNeeded. *)
From SF Require Import Base.Prelude Gen.Generated Rent.Ledger Rent.LedgerProofs Rent.Init.

(* ---------------- list helpers ---------------- *)
Lemma zdrop_zrepeat {A} (x : A) a b : 0 <= a -> 0 <= b -> zdrop a (zrepeat x (a + b)) = zrepeat x b.
Proof.
  intros Ha Hb. unfold zdrop, zrepeat. rewrite Z2Nat.inj_add by lia. rewrite repeat_app.
  rewrite skipn_app, repeat_length, Nat.sub_diag. cbn [skipn].
  rewrite skipn_all2 by (rewrite repeat_length; lia). reflexivity.
Qed.

Lemma zdrop_all {A} n (l : list A) : zlen l <= n -> zdrop n l = [].
Proof. unfold zdrop, zlen. intros H. apply skipn_all2. lia. Qed.

Lemma zrepeat_zero {A} (x : A) : zrepeat x 0 = [].
Proof. reflexivity. Qed.

(* ---------------- outcomes of the simulator are Ok or Err ---------------- *)
Definition ok_or_err {A} (o : out A) : Prop := (exists a, o = Ok a) \/ (exists c, o = Err c).

Lemma sys_exec_ooe pda c l : ok_or_err (sys_exec pda c l).
Proof.
  assert (P1 : forall m, ok_or_err (priv_one pda l (c_seeds c) m)).
  { intros m. unfold priv_one. destruct (find (m_key m) l); [|right; eauto].
    destruct (_ && _); [right; eauto|]. destruct (_ && _); [right; eauto|left; eauto]. }
  assert (PA : forall ms, ok_or_err (priv_all pda l (c_seeds c) ms)).
  { induction ms as [|m r IH]; cbn [priv_all]; [left; eauto|].
    destruct (P1 m) as [[[] ->]|[e ->]]; cbn [obind]; [exact IH|right; eauto]. }
  assert (TR : forall l f t lam, ok_or_err (sys_transfer l f t lam)).
  { intros. unfold sys_transfer. destruct (negb _); [right; eauto|].
    destruct (find (m_key f) l0); [|right; eauto]. destruct (find (m_key t) l0); [|right; eauto].
    destruct (negb _); [right; eauto|]. destruct (_ <? _); [right; eauto|].
    destruct (negb _); [right; eauto|]. destruct (negb _); [right; eauto|].
    destruct (find _ _); [|right; eauto]. destruct (_ <? _); [right; eauto|left; eauto]. }
  assert (AL : forall l m sp, ok_or_err (sys_allocate l m sp)).
  { intros. unfold sys_allocate. destruct (negb _); [right; eauto|].
    destruct (find _ _); [|right; eauto]. destruct (_ || _); [right; eauto|].
    destruct (_ <? _); [right; eauto|]. destruct (_ <? _); [right; eauto|].
    destruct (negb _); [right; eauto|left; eauto]. }
  assert (AS : forall l m ow, ok_or_err (sys_assign l m ow)).
  { intros. unfold sys_assign. destruct (find _ _); [|right; eauto].
    destruct (_ =? _); [left; eauto|]. destruct (negb _); [right; eauto|].
    destruct (negb _); [right; eauto|]. destruct (negb _); [right; eauto|left; eauto]. }
  unfold sys_exec. destruct (negb _); [right; eauto|].
  destruct (PA (c_metas c)) as [[[] ->]|[e ->]]; cbn [obind]; [|right; eauto].
  destruct (c_ix c); destruct (c_metas c) as [|m1 [|m2 [|m3 r]]]; try (right; eauto; fail); auto.
  unfold sys_create. destruct (find _ _); [|right; eauto]. destruct (_ <? _); [right; eauto|].
  destruct (AL l m2 space) as [[l1 ->]|[e ->]]; cbn [obind]; [|right; eauto].
  destruct (AS l1 m2 owner) as [[l2 ->]|[e ->]]; cbn [obind]; [|right; eauto]. apply TR.
Qed.

Lemma invoke_ooe pda c s : ok_or_err (invoke pda c s).
Proof.
  unfold invoke. destruct (sys_exec_ooe pda c (fst s)) as [[l ->]|[e ->]]; cbn [obind]; [left|right]; eauto.
Qed.

(* ---------------- what a successful system_create_account did ---------------- *)
Definition debit_of (fixed : bool) (exempt cur : Z) : Z :=
  if cur =? 0 then exempt else let r := topup fixed exempt cur in if 0 <? r then r else 0.

(* the signer seeds of a CPI are the funder's and/or the account's, and the account's are there whenever the
   account is marked as signer *)
Definition cpi_seeds_ok (f : funder) (tk : key) (aseeds : option seeds) (c : cpi) : Prop :=
  (forall s, In s (c_seeds c) -> Some s = f_seeds f \/ Some s = aseeds) /\
  (In (mkMeta tk true true) (c_metas c) -> forall sa, aseeds = Some sa -> In sa (c_seeds c)).

Lemma seeds_ok_target f tk aseeds ix :
  cpi_seeds_ok f tk aseeds (mkCpi SYS ix [mkMeta tk true true] (match aseeds with Some sa => [sa] | None => [] end)).
Proof.
  split; cbn [c_seeds c_metas].
  - intros s Hs. destruct aseeds; cbn [In] in Hs; [destruct Hs as [<-|[]]; auto|destruct Hs].
  - intros _ sa ->. cbn [In]. auto.
Qed.

Ltac finds :=
  repeat first
    [ rewrite find_credit_same
    | rewrite find_credit_other by congruence
    | rewrite find_upd_same by (intros; reflexivity)
    | rewrite find_upd_other by (first [congruence | intros; reflexivity]) ].

Lemma sca_ok fixed pda minb f tk ow sp aseeds l log l1 log1 a0 fa0 :
  (forall n, 0 <= minb n) ->
  f_key f <> tk -> find tk l = Some a0 -> find (f_key f) l = Some fa0 -> 0 <= a_lam a0 -> 0 <= a_lam fa0 ->
  system_create_account fixed pda minb f tk ow sp aseeds (l, log) = Ok (l1, log1) ->
  let debit := debit_of fixed (minb sp) (a_lam a0) in
  0 <= debit <= a_lam fa0 /\
  a_owner a0 = SYS /\ a_data a0 = [] /\ a_writable a0 = true /\
  find tk l1 = Some (set_lam (a_lam a0 + debit) (set_owner ow (set_data (zrepeat 0 sp) a0))) /\
  (exists fa1, find (f_key f) l1 = Some fa1 /\ a_lam fa1 = a_lam fa0 - debit) /\
  (forall k, k <> tk -> k <> f_key f -> find k l1 = find k l) /\
  total l1 = total l /\
  (exists new, log1 = log ++ new /\ new <> [] /\ Forall (cpi_seeds_ok f tk aseeds) new).
Proof.
  intros Hmin Hne Ht Hf Hlam Hflam. unfold system_create_account, debit_of. cbn [fst]. rewrite Ht.
  destruct (a_lam a0 =? 0) eqn:E0.
  - (* fresh account: one CreateAccount *)
    intros H. unfold invoke in H. cbn [fst snd] in H.
    match type of H with context [sys_exec pda ?c l] => destruct (sys_exec pda c l) as [l'| | |] eqn:E; cbn [obind] in H; try discriminate end.
    inversion H; subst l1 log1; clear H.
    pose proof (sys_exec_total _ _ _ _ E) as Htot.
    apply create_effect in E; [|exact Hne|apply Hmin].
    destruct E as (fa & ta & Hfa & Hta & Hl0 & Hd & Ho & Hw & Hs & Hle & ->).
    rewrite Hf in Hfa; inversion Hfa; subst fa. rewrite Ht in Hta; inversion Hta; subst ta.
    zb. pose proof (Hmin sp).
    repeat split; auto; try lia.
    + finds. rewrite Ht. cbn [option_map]. f_equal.
    + finds. rewrite Hf. cbn [option_map]. eexists; split; [reflexivity|]. cbn [set_lam a_lam]. lia.
    + intros k Hk1 Hk2. now finds.
    + eexists; split; [reflexivity|]. split; [discriminate|].
      constructor; [|constructor]. split; cbn [c_seeds c_metas].
      * intros s Hs'. destruct (f_seeds f), aseeds; cbn [In] in Hs'; intuition (subst; auto).
      * intros _ sa ->. destruct (f_seeds f); cbn [In]; auto.
  - (* pre-funded: optional Transfer, Allocate, Assign *)
    cbv zeta. set (req := topup fixed (minb sp) (a_lam a0)).
    intros H.
    match type of H with obind ?X _ = _ => destruct X as [[l1' log1']| | |] eqn:Hs1 end;
      cbn [obind] in H; try discriminate.
    (* state after the optional transfer *)
    assert (Hmid : let d := if 0 <? req then req else 0 in
              0 <= d <= a_lam fa0 /\
              find tk l1' = Some (set_lam (a_lam a0 + d) a0) /\
              find (f_key f) l1' = Some (set_lam (a_lam fa0 + - d) fa0) /\
              (forall k, k <> tk -> k <> f_key f -> find k l1' = find k l) /\
              total l1' = total l /\
              exists n1, log1' = log ++ n1 /\ Forall (cpi_seeds_ok f tk aseeds) n1).
    { destruct (0 <? req) eqn:Er.
      - unfold fund_rent, invoke in Hs1. cbn [fst snd] in Hs1.
        match type of Hs1 with context [sys_exec pda ?c l] => destruct (sys_exec pda c l) as [l'| | |] eqn:E; cbn [obind] in Hs1; try discriminate end.
        inversion Hs1; subst l1' log1'; clear Hs1.
        pose proof (sys_exec_total _ _ _ _ E) as Htot.
        apply transfer_effect in E; [|exact Hne].
        destruct E as (fa & ta & Hfa & Hta & Hle & Hu & _ & _ & ->).
        rewrite Hf in Hfa; inversion Hfa; subst fa. rewrite Ht in Hta; inversion Hta; subst ta.
        zb. cbv zeta. repeat split; auto; try lia.
        + finds. rewrite Ht. reflexivity.
        + finds. rewrite Hf. reflexivity.
        + intros k Hk1 Hk2. now finds.
        + eexists; split; [reflexivity|]. constructor; [|constructor]. split; cbn [c_seeds c_metas].
          * intros s Hs'. destruct (f_seeds f); cbn [In] in Hs'; intuition (subst; auto).
          * cbn [In]. intros [Hx|[Hx|[]]]; inversion Hx. congruence.
      - inversion Hs1; subst l1' log1'. cbv zeta. zb. repeat split; auto; try lia.
        + rewrite Ht. f_equal. destruct a0; unfold set_lam; cbn. f_equal. lia.
        + rewrite Hf. f_equal. destruct fa0; unfold set_lam; cbn. f_equal. lia.
        + exists []. split; [now rewrite app_nil_r|constructor]. }
    cbv zeta in Hmid. set (d := if 0 <? req then req else 0) in *.
    destruct Hmid as (Hd & Ht1 & Hf1 & Hfr1 & Htot1 & n1 & Hlog1 & Hn1).
    (* allocate *)
    unfold invoke in H. cbn [fst snd] in H.
    match type of H with context [sys_exec pda ?c l1'] => destruct (sys_exec pda c l1') as [l2| | |] eqn:E2; cbn [obind] in H; try discriminate end.
    cbn [fst snd] in H.
    match type of H with context [sys_exec pda ?c l2] => destruct (sys_exec pda c l2) as [l3| | |] eqn:E3; cbn [obind] in H; try discriminate end.
    inversion H; subst l1 log1; clear H.
    pose proof (sys_exec_total _ _ _ _ E2) as Htot2. pose proof (sys_exec_total _ _ _ _ E3) as Htot3.
    apply allocate_effect in E2. destruct E2 as (a2 & Ha2 & Hd2 & Ho2 & Hw2 & Hs2 & ->).
    rewrite Ht1 in Ha2; inversion Ha2; subst a2. cbn [set_lam a_data a_owner a_writable] in Hd2, Ho2, Hw2.
    apply assign_effect in E3. destruct E3 as (a3 & Ha3 & Hs3 & Hcase).
    rewrite find_upd_same, Ht1 in Ha3 by (intros; reflexivity). cbn [option_map] in Ha3. inversion Ha3; subst a3.
    assert (Hl3 : find tk l3 = Some (set_lam (a_lam a0 + d) (set_owner ow (set_data (zrepeat 0 sp) a0))) /\
                  (forall k, k <> tk -> find k l3 = find k l1') /\ total l3 = total l1').
    { destruct Hcase as [[Hoo ->]|[_ ->]].
      - split; [|split].
        + rewrite find_upd_same, Ht1 by (intros; reflexivity). cbn [option_map]. f_equal.
          cbn [set_data set_lam a_owner] in Hoo. destruct a0; cbn in *. subst. reflexivity.
        + intros k Hk. now finds.
        + lia.
      - split; [|split].
        + finds. rewrite Ht1. cbn [option_map]. f_equal.
        + intros k Hk. now finds.
        + lia. }
    destruct Hl3 as (Ht3 & Hfr3 & Htot3').
    repeat split; auto; try lia.
    + rewrite Hfr3 by congruence. rewrite Hf1. eexists; split; [reflexivity|]. cbn [set_lam a_lam]. lia.
    + intros k Hk1 Hk2. rewrite Hfr3 by assumption. now apply Hfr1.
    + exists (n1 ++ [mkCpi SYS (SAllocate sp) [mkMeta tk true true] (match aseeds with Some sa => [sa] | None => [] end);
                     mkCpi SYS (SAssign ow) [mkMeta tk true true] (match aseeds with Some sa => [sa] | None => [] end)]).
      split; [|split].
      * rewrite Hlog1. rewrite <- !app_assoc. reflexivity.
      * destruct n1; discriminate.
      * apply Forall_app; split; [exact Hn1|].
        constructor; [apply seeds_ok_target|constructor; [apply seeds_ok_target|constructor]].
Qed.

(* ---------------- arithmetic of the top-up ---------------- *)
Lemma debit_fixed exempt cur : 0 <= exempt -> 0 <= cur -> debit_of true exempt cur = Z.max 0 (exempt - cur).
Proof.
  unfold debit_of, topup. intros He Hc. destruct (cur =? 0) eqn:E; zb; [subst; lia|].
  destruct (0 <? Z.max 0 (Z.max exempt 1 - cur)) eqn:E2; zb; lia.
Qed.

Lemma debit_covers fixed exempt cur : 0 <= exempt -> 0 <= cur -> exempt <= cur + debit_of fixed exempt cur.
Proof.
  unfold debit_of, topup. intros He Hc. destruct (cur =? 0) eqn:E; zb; [lia|].
  destruct fixed.
  - destruct (0 <? Z.max 0 (Z.max exempt 1 - cur)) eqn:E2; zb; lia.
  - destruct (0 <? Z.max (Z.max 0 (exempt - cur)) 1) eqn:E2; zb; lia.
Qed.

(* ---------------- init_account when it initialises ---------------- *)
Lemma init_account_created fixed shortf pda minb cfg ifn tk f aseeds ib l log l' log' a0 fa0 :
  (forall n, 0 <= minb n) ->
  f_key f <> tk -> find tk l = Some a0 -> find (f_key f) l = Some fa0 -> 0 <= a_lam a0 -> 0 <= a_lam fa0 ->
  init_account fixed shortf pda minb cfg ifn tk (Ok f) aseeds ib (l, log) = Ok ((l', log'), true) ->
  let sp := zlen (t_disc cfg) + zlen ib in
  let debit := debit_of fixed (minb sp) (a_lam a0) in
  a_owner a0 = SYS /\ a_data a0 = [] /\ a_writable a0 = true /\ 0 <= debit <= a_lam fa0 /\
  (exists a1, find tk l' = Some a1 /\
     a_owner a1 = t_prog cfg /\
     a_data a1 = t_disc cfg ++ (if t_borsh cfg then zrepeat 0 (zlen ib) else ib) /\
     a_lam a1 = a_lam a0 + debit /\ a_signer a1 = a_signer a0 /\ a_writable a1 = a_writable a0) /\
  (exists fa1, find (f_key f) l' = Some fa1 /\ a_lam fa1 = a_lam fa0 - debit) /\
  (forall k, k <> tk -> k <> f_key f -> find k l' = find k l) /\
  total l' = total l /\
  (exists new, log' = log ++ new /\ new <> [] /\ Forall (cpi_seeds_ok f tk aseeds) new).
Proof.
  intros Hmin Hne Ht Hf Hlam Hflam. unfold init_account. cbn [obind fst]. rewrite Ht.
  destruct (if ifn then needs_init shortf (zlen (t_disc cfg)) a0 else Ok true) as [ni| | |]; cbn [obind]; try discriminate.
  destruct ni; cbn [negb]; [|discriminate].
  destruct (a_writable a0) eqn:Hw; cbn [negb]; [|discriminate].
  destruct (system_create_account _ _ _ _ _ _ _ _ _) as [[l1 log1]| | |] eqn:Hs; cbn [obind]; try discriminate.
  cbn [fst snd].
  pose proof (sca_ok _ _ _ _ _ _ _ _ _ _ _ _ _ _ Hmin Hne Ht Hf Hlam Hflam Hs) as H. cbv zeta in H.
  destruct H as (Hd & Ho & Hda & _ & Ht1 & (fa1 & Hf1 & Hfl1) & Hfr & Htot & Hlog).
  rewrite Ht1.
  remember (set_lam (a_lam a0 + debit_of fixed (minb (zlen (t_disc cfg) + zlen ib)) (a_lam a0))
             (set_owner (t_prog cfg) (set_data (zrepeat 0 (zlen (t_disc cfg) + zlen ib)) a0))) as X eqn:HX.
  pose proof (zlen_nonneg (t_disc cfg)) as Hw0. pose proof (zlen_nonneg ib) as Hn0.
  assert (HdX : a_data X = zrepeat 0 (zlen (t_disc cfg) + zlen ib)) by (subst X; reflexivity).
  assert (HlX : zlen (a_data X) = zlen (t_disc cfg) + zlen ib) by (rewrite HdX; apply zlen_zrepeat; lia).
  assert (HkX : a_key X = tk) by (subst X; apply (find_key _ _ _ Ht)).
  destruct (write_init cfg ib X) as [a2| | |] eqn:Hwi; cbn [obind]; try discriminate.
  intros H; inversion H; subst l' log'; clear H.
  assert (Ha2 : a2 = set_data (t_disc cfg ++ (if t_borsh cfg then zrepeat 0 (zlen ib) else ib)) X).
  { unfold write_init in Hwi. destruct (t_borsh cfg).
    - destruct (zlen (a_data X) <? zlen (t_disc cfg)) eqn:E; [discriminate|]. inversion Hwi; subst.
      rewrite HdX, zdrop_zrepeat by lia. reflexivity.
    - destruct (zlen (a_data X) <? zlen (t_disc cfg) + zlen ib) eqn:E; [zb; lia|]. inversion Hwi; subst.
      rewrite (zdrop_all (zlen (t_disc cfg) + zlen ib)) by lia. now rewrite app_nil_r. }
  assert (Hk2 : forall a : acct, a_key a = tk -> a_key ((fun _ : acct => a2) a) = tk) by (intros; subst a2; exact HkX).
  cbv zeta. repeat split; auto.
  - lia.
  - lia.
  - rewrite find_upd_same' by exact Hk2. rewrite Ht1. cbn [option_map].
    exists a2. subst a2 X. repeat split; try reflexivity. exact Hw.
  - rewrite find_upd_other' by (auto; exact Hk2). eauto.
  - intros k Hk1 Hk2'. rewrite find_upd_other' by (auto; exact Hk2). now apply Hfr.
  - rewrite (total_upd _ _ _ _ Ht1). subst a2. cbn [set_data a_lam]. lia.
Qed.

(* ---------------- validate_account_info ---------------- *)
Lemma seed_eqb_eq a b : seed_eqb a b = true <-> a = b.
Proof.
  revert b; induction a as [|x a IH]; intros [|y b]; cbn [seed_eqb]; split; try discriminate; auto.
  - intros H. apply andb_true_iff in H as [H1 H2]. apply Z.eqb_eq in H1. apply IH in H2. congruence.
  - intros H; inversion H; subst. rewrite Z.eqb_refl. cbn [andb]. now apply IH.
Qed.

Lemma seeds_eqb_eq a b : seeds_eqb a b = true <-> a = b.
Proof.
  revert b; induction a as [|x a IH]; intros [|y b]; cbn [seeds_eqb]; split; try discriminate; auto.
  - intros H. apply andb_true_iff in H as [H1 H2]. apply seed_eqb_eq in H1. apply IH in H2. congruence.
  - intros H; inversion H; subst. apply andb_true_iff; split; [now apply seed_eqb_eq|now apply IH].
Qed.

(* ---------------- weaker facts needing fewer hypotheses ---------------- *)
Lemma sca_fresh fixed pda minb f tk ow sp aseeds l log s1 a0 :
  (forall n, 0 <= minb n) -> f_key f <> tk -> find tk l = Some a0 ->
  system_create_account fixed pda minb f tk ow sp aseeds (l, log) = Ok s1 ->
  a_owner a0 = SYS /\ a_data a0 = [].
Proof.
  intros Hmin Hne Ht. unfold system_create_account. cbn [fst]. rewrite Ht.
  destruct (a_lam a0 =? 0).
  - unfold invoke. cbn [fst snd].
    match goal with |- context [sys_exec pda ?c l] => destruct (sys_exec pda c l) as [l'| | |] eqn:E; cbn [obind]; try discriminate end.
    intros _. apply create_effect in E; [|exact Hne|apply Hmin].
    destruct E as (fa & ta & _ & Hta & _ & Hd & Ho & _). rewrite Ht in Hta; inversion Hta; subst. auto.
  - cbv zeta. intros H.
    match type of H with obind ?X _ = _ => destruct X as [[l1 log1]| | |] eqn:Hs1 end; cbn [obind] in H; try discriminate.
    assert (Ht1 : exists x, find tk l1 = Some (set_lam x a0)).
    { destruct (0 <? _).
      - unfold fund_rent, invoke in Hs1. cbn [fst snd] in Hs1.
        match type of Hs1 with context [sys_exec pda ?c l] => destruct (sys_exec pda c l) as [l'| | |] eqn:E; cbn [obind] in Hs1; try discriminate end.
        inversion Hs1; subst. apply transfer_effect in E; [|exact Hne].
        destruct E as (fa & ta & _ & Hta & _ & _ & _ & _ & ->). rewrite Ht in Hta; inversion Hta; subst.
        eexists. finds. rewrite Ht. reflexivity.
      - inversion Hs1; subst. exists (a_lam a0). rewrite Ht. f_equal. destruct a0; reflexivity. }
    destruct Ht1 as (x & Ht1).
    unfold invoke in H. cbn [fst snd] in H.
    match type of H with context [sys_exec pda ?c l1] => destruct (sys_exec pda c l1) as [l2| | |] eqn:E2; cbn [obind] in H; try discriminate end.
    apply allocate_effect in E2. destruct E2 as (a2 & Ha2 & Hd2 & Ho2 & _).
    rewrite Ht1 in Ha2; inversion Ha2; subst a2. auto.
Qed.

Lemma sca_ooe fixed pda minb f tk ow sp aseeds (s : st) a0 :
  find tk (fst s) = Some a0 -> ok_or_err (system_create_account fixed pda minb f tk ow sp aseeds s).
Proof.
  intros Ht. unfold system_create_account. rewrite Ht.
  destruct (a_lam a0 =? 0); [apply invoke_ooe|]. cbv zeta.
  match goal with |- ok_or_err (obind ?X _) => assert (H1 : ok_or_err X) end.
  { destruct (0 <? _); [apply invoke_ooe|left; eauto]. }
  destruct H1 as [[s1 ->]|[e ->]]; cbn [obind]; [|right; eauto].
  match goal with |- context [invoke pda ?c s1] => destruct (invoke_ooe pda c s1) as [[s2 ->]|[e ->]]; cbn [obind]; [|right; eauto] end.
  apply invoke_ooe.
Qed.

Lemma sca_log fixed pda minb f tk ow sp aseeds l log l1 log1 :
  f_key f <> tk ->
  system_create_account fixed pda minb f tk ow sp aseeds (l, log) = Ok (l1, log1) ->
  exists new, log1 = log ++ new /\ new <> [] /\ Forall (cpi_seeds_ok f tk aseeds) new.
Proof.
  intros Hne. unfold system_create_account. cbn [fst]. destruct (find tk l) as [a0|]; [|discriminate].
  destruct (a_lam a0 =? 0).
  - intros H. pose proof (invoke_log _ _ _ _ H) as Hl. cbn [snd] in Hl. subst log1.
    eexists; split; [reflexivity|]. split; [discriminate|].
    constructor; [|constructor]. split; cbn [c_seeds c_metas].
    + intros s Hs'. destruct (f_seeds f), aseeds; cbn [In] in Hs'; intuition (subst; auto).
    + intros _ sa ->. destruct (f_seeds f); cbn [In]; auto.
  - cbv zeta. intros H.
    match type of H with obind ?X _ = _ => destruct X as [[l1' log1']| | |] eqn:Hs1 end; cbn [obind] in H; try discriminate.
    assert (Hn1 : exists n1, log1' = log ++ n1 /\ Forall (cpi_seeds_ok f tk aseeds) n1).
    { destruct (0 <? _).
      - pose proof (invoke_log _ _ _ _ Hs1) as Hl. cbn [snd] in Hl. subst log1'.
        eexists; split; [reflexivity|]. constructor; [|constructor]. split; cbn [c_seeds c_metas].
        + intros s Hs'. destruct (f_seeds f); cbn [In] in Hs'; intuition (subst; auto).
        + cbn [In]. intros [Hx|[Hx|[]]]; inversion Hx. congruence.
      - inversion Hs1; subst. exists []. split; [now rewrite app_nil_r|constructor]. }
    destruct Hn1 as (n1 & -> & Hn1).
    match type of H with obind ?X _ = _ => destruct X as [[l2 log2]| | |] eqn:Hs2 end; cbn [obind] in H; try discriminate.
    pose proof (invoke_log _ _ _ _ Hs2) as Hl2. pose proof (invoke_log _ _ _ _ H) as Hl3. cbn [snd] in Hl2, Hl3. subst.
    eexists. split; [rewrite <- !app_assoc; reflexivity|]. split; [destruct n1; discriminate|].
    apply Forall_app; split; [exact Hn1|].
    constructor; [apply seeds_ok_target|constructor; [apply seeds_ok_target|constructor]].
Qed.

Lemma init_account_log fixed shortf pda minb cfg ifn tk fo f aseeds ib l log l' log' ni :
  fo = Ok f -> f_key f <> tk ->
  init_account fixed shortf pda minb cfg ifn tk fo aseeds ib (l, log) = Ok ((l', log'), ni) ->
  (ni = false /\ l' = l /\ log' = log) \/
  (ni = true /\ exists new, log' = log ++ new /\ new <> [] /\ Forall (cpi_seeds_ok f tk aseeds) new).
Proof.
  intros -> Hne. unfold init_account. cbn [obind fst]. destruct (find tk l) as [a0|]; [|discriminate].
  destruct (if ifn then _ else _) as [b| | |]; cbn [obind]; try discriminate.
  destruct b; cbn [negb]; [|intros H; inversion H; auto].
  destruct (negb (a_writable a0)); [discriminate|].
  destruct (system_create_account _ _ _ _ _ _ _ _ _) as [[l1 log1]| | |] eqn:Hs; cbn [obind]; try discriminate.
  cbn [fst snd]. destruct (find tk l1); [|discriminate].
  destruct (write_init cfg ib a); cbn [obind]; try discriminate.
  intros H; inversion H; subst. right. split; [reflexivity|]. eapply sca_log; eassumption.
Qed.

Definition initialized (cfg : tcfg) (a : acct) : Prop :=
  a_owner a <> SYS /\ zlen (t_disc cfg) <= zlen (a_data a) /\
  forallb (fun b => b =? 0) (ztake (zlen (t_disc cfg)) (a_data a)) = false.

(* the seeds (and bump) an Init<Seeded<_>> argument names *)
Definition seeds_of (findp : seeds -> key * Z) (sa : seed_arg) : option (seeds * Z) :=
  match sa with
  | SANone => None
  | SAFind sd => Some (sd, snd (findp sd))
  | SABump sd b => Some (sd, b)
  end.

(* ---------------- C12 theorems ---------------- *)
Section Theorems.
Variable pda : pda_fn.
Variable findp : seeds -> key * Z.
Variable minb : Z -> Z.
Hypothesis minb_nonneg : forall n, 0 <= minb n.       (* the one fact used: minimum_balance is a u64 *)

(* success of `create` (repaired top-up): exactly what was asked, shortfall and nothing more, conservation *)
Theorem create_post shortf cfg tk sa f ib l log l' log' ni a0 fa0 :
  find tk l = Some a0 -> find (f_key f) l = Some fa0 -> f_key f <> tk -> 0 <= a_lam a0 -> 0 <= a_lam fa0 ->
  init_validate true shortf pda findp minb cfg false tk sa (Ok f) ib (l, log) = Ok ((l', log'), ni) ->
  exists a1 fa1,
    find tk l' = Some a1 /\ find (f_key f) l' = Some fa1 /\ ni = true /\
    a_owner a1 = t_prog cfg /\
    a_data a1 = t_disc cfg ++ (if t_borsh cfg then zrepeat 0 (zlen ib) else ib) /\
    zlen (a_data a1) = zlen (t_disc cfg) + zlen ib /\
    borsh_held cfg ni ib a0 = (if t_borsh cfg then Some ib else None) /\
    minb (zlen (a_data a1)) <= a_lam a1 /\
    a_lam fa0 - a_lam fa1 = Z.max 0 (minb (zlen (t_disc cfg) + zlen ib) - a_lam a0) /\
    a_lam a1 - a_lam a0 = a_lam fa0 - a_lam fa1 /\
    (forall k, k <> tk -> k <> f_key f -> find k l' = find k l) /\
    total l' = total l.
Proof.
  intros Ht Hf Hne Hlam Hflam. unfold init_validate.
  destruct (init_seeds pda findp tk sa) as [ss| | |]; cbn [obind]; try discriminate.
  match goal with |- context [obind ?X _] => destruct X as [aseeds| | |]; cbn [obind]; try discriminate end.
  destruct (init_account _ _ _ _ _ _ _ _ _ _ _) as [[[l1 log1] ni1]| | |] eqn:Hia; cbn [obind]; try discriminate.
  cbn [fst]. destruct (find tk l1) as [a1|] eqn:Ht1; [|discriminate].
  destruct (validate_account_info cfg a1) as [[]| | |]; cbn [obind]; try discriminate.
  match goal with |- context [obind ?X _] => destruct X as [[]| | |]; cbn [obind]; try discriminate end.
  intros H; inversion H; subst l1 log1 ni1; clear H.
  assert (ni = true).
  { unfold init_account in Hia. cbn [obind fst] in Hia. rewrite Ht in Hia. cbn [obind] in Hia.
    destruct (a_writable a0); cbn [negb] in Hia; [|discriminate].
    destruct (system_create_account _ _ _ _ _ _ _ _ _) as [s1| | |]; cbn [obind] in Hia; try discriminate.
    destruct (find tk (fst s1)); [|discriminate].
    destruct (write_init cfg ib a); cbn [obind] in Hia; try discriminate. now inversion Hia. }
  subst ni.
  pose proof (init_account_created _ _ _ _ _ _ _ _ _ _ _ _ _ _ _ _ minb_nonneg Hne Ht Hf Hlam Hflam Hia) as H.
  cbv zeta in H. destruct H as (Ho & Hd & Hw & Hdeb & (a1' & Ht1' & Hown & Hdata & Hl1 & _ & _) & (fa1 & Hf1 & Hfl1) & Hfr & Htot & _).
  rewrite Ht1 in Ht1'; inversion Ht1'; subst a1'.
  pose proof (zlen_nonneg (t_disc cfg)) as Hw0. pose proof (zlen_nonneg ib) as Hn0.
  assert (Hlen : zlen (a_data a1) = zlen (t_disc cfg) + zlen ib).
  { rewrite Hdata, zlen_app. destruct (t_borsh cfg); [rewrite zlen_zrepeat by lia|]; lia. }
  rewrite debit_fixed in * by auto.
  exists a1, fa1. repeat split; auto; try lia.
  - unfold borsh_held. destruct (t_borsh cfg); reflexivity.
  - rewrite Hlen, Hl1. pose proof (minb_nonneg (zlen (t_disc cfg) + zlen ib)). lia.
Qed.

(* `create` on an account that is already initialised (owner set or data allocated) is an error - for the shipped
   and for the repaired top-up alike *)
Theorem create_on_initialized_errs fixed shortf cfg tk sa cx w ib l log a0 :
  find tk l = Some a0 ->
  (a_owner a0 <> SYS \/ a_data a0 <> []) ->
  (forall f, resolve_funder cx w = Ok f -> f_key f <> tk) ->
  exists c, init_validate fixed shortf pda findp minb cfg false tk sa (resolve_funder cx w) ib (l, log) = Err c.
Proof.
  intros Ht Hinit Hne. unfold init_validate.
  assert (Hs : ok_or_err (init_seeds pda findp tk sa)).
  { destruct sa as [|sd|sd b]; cbn [init_seeds]; [left; eauto| |].
    - destruct (findp sd) as [addr bump]. destruct (addr =? tk); [left|right]; eauto.
    - destruct (pda (with_bump sd b)) as [addr|]; [|right; eauto]. destruct (addr =? tk); [left|right]; eauto. }
  destruct Hs as [[ss ->]|[e ->]]; cbn [obind]; [|eauto].
  match goal with |- context [obind ?X _] =>
    assert (Ha : ok_or_err X) by (destruct sa; [left; eauto|destruct ss as [[? ?]|]; [left|right]; eauto..]) end.
  destruct Ha as [[aseeds ->]|[e ->]]; cbn [obind]; [|eauto].
  unfold init_account.
  assert (Hf : ok_or_err (resolve_funder cx w)).
  { destruct w; cbn [resolve_funder]; [left; eauto|]. destruct (cx_funder cx); [left|right]; eauto. }
  destruct Hf as [[f Hf]|[e ->]]; cbn [obind]; [|eauto].
  rewrite Hf. cbn [obind fst]. rewrite Ht. cbn [obind negb].
  destruct (negb (a_writable a0)); [cbn [obind]; eauto|].
  match goal with |- context [system_create_account ?x1 ?x2 ?x3 ?x4 ?x5 ?x6 ?x7 ?x8 ?x9] =>
    destruct (sca_ooe x1 x2 x3 x4 x5 x6 x7 x8 x9 a0 Ht) as [[s1 Hs1]|[ec Hs1]]; rewrite Hs1; cbn [obind]; [|eauto] end.
  exfalso. apply (sca_fresh _ _ _ _ _ _ _ _ _ _ _ _ minb_nonneg (Hne f Hf) Ht) in Hs1. destruct Hs1. tauto.
Qed.

(* `create if needed` on an initialised account: not newly initialised, ledger and CPI log untouched *)
Theorem if_needed_untouched fixed shortf cfg tk sa f ib l log a0 r :
  find tk l = Some a0 -> initialized cfg a0 ->
  init_validate fixed shortf pda findp minb cfg true tk sa (Ok f) ib (l, log) = Ok r ->
  r = ((l, log), false).
Proof.
  intros Ht (Ho & Hlen & Hnz). unfold init_validate.
  destruct (init_seeds pda findp tk sa) as [ss| | |]; cbn [obind]; try discriminate.
  match goal with |- context [obind ?X _] => destruct X as [aseeds| | |]; cbn [obind]; try discriminate end.
  unfold init_account. cbn [obind fst]. rewrite Ht. unfold needs_init.
  destruct (a_owner a0 =? SYS) eqn:E; [zb; contradiction|].
  destruct (zlen (a_data a0) <? zlen (t_disc cfg)) eqn:E2; [zb; lia|].
  rewrite Hnz. cbn [obind negb fst]. rewrite Ht.
  destruct (validate_account_info cfg a0) as [[]| | |]; cbn [obind]; try discriminate.
  match goal with |- context [obind ?X _] => destruct X as [[]| | |]; cbn [obind]; try discriminate end.
  intros H; now inversion H.
Qed.

(* the step itself, before the inner account is validated: Ok(false), nothing touched, whatever follows *)
Theorem if_needed_skips fixed shortf cfg tk f aseeds ib s a0 :
  find tk (fst s) = Some a0 -> initialized cfg a0 ->
  init_account fixed shortf pda minb cfg true tk (Ok f) aseeds ib s = Ok (s, false).
Proof.
  intros Ht (Ho & Hlen & Hnz). unfold init_account. cbn [obind]. rewrite Ht. unfold needs_init.
  destruct (a_owner a0 =? SYS) eqn:E; [zb; contradiction|].
  destruct (zlen (a_data a0) <? zlen (t_disc cfg)) eqn:E2; [zb; lia|].
  rewrite Hnz. reflexivity.
Qed.

(* the seeds handed to every CPI are the validated seeds with their bump (and the funder's own), and they are
   present whenever the new account is marked as signer; the address was checked against them first *)
Theorem seeds_sign fixed shortf cfg ifn tk sa f ib l l' log' ni sd b :
  seeds_of findp sa = Some (sd, b) -> f_key f <> tk ->
  init_validate fixed shortf pda findp minb cfg ifn tk sa (Ok f) ib (l, []) = Ok ((l', log'), ni) ->
  (match sa with SAFind _ => fst (findp sd) = tk | _ => pda (with_bump sd b) = Some tk end) /\
  Forall (cpi_seeds_ok f tk (Some (with_bump sd b))) log' /\
  (ni = true -> log' <> []).
Proof.
  intros Hsa Hne. unfold init_validate.
  destruct (init_seeds pda findp tk sa) as [ss| | |] eqn:Hi; cbn [obind]; try discriminate.
  assert (Hss : ss = Some (sd, b) /\ match sa with SAFind _ => fst (findp sd) = tk | _ => pda (with_bump sd b) = Some tk end).
  { destruct sa as [|sd' |sd' b']; cbn [seeds_of init_seeds] in *; [discriminate| |].
    - inversion Hsa; subst. destruct (findp sd) as [addr bump]. cbn [snd fst] in *.
      destruct (addr =? tk) eqn:E; [|discriminate]. inversion Hi. zb. auto.
    - inversion Hsa; subst. destruct (pda (with_bump sd b)) as [addr|]; [|discriminate].
      destruct (addr =? tk) eqn:E; [|discriminate]. inversion Hi. zb. subst. auto. }
  destruct Hss as (-> & Haddr).
  assert (Hna : sa <> SANone) by (destruct sa; [discriminate|congruence..]).
  replace (match sa with SANone => Ok None | _ => Ok (Some (with_bump sd b)) end) with (@Ok (option seeds) (Some (with_bump sd b)))
    by (destruct sa; [contradiction|reflexivity..]).
  cbn [obind].
  destruct (init_account _ _ _ _ _ _ _ _ _ _ _) as [[[l1 log1] ni1]| | |] eqn:Hia; cbn [obind]; try discriminate.
  cbn [fst]. destruct (find tk l1) as [a1|]; [|discriminate].
  destruct (validate_account_info cfg a1) as [[]| | |]; cbn [obind]; try discriminate.
  match goal with |- context [obind ?X _] => destruct X as [[]| | |]; cbn [obind]; try discriminate end.
  intros H; inversion H; subst l1 log1 ni1; clear H.
  split; [exact Haddr|].
  destruct (init_account_log _ _ _ _ _ _ _ _ _ _ _ _ _ _ _ _ eq_refl Hne Hia) as [(-> & _ & ->)|(-> & new & -> & Hnn & Hall)].
  - split; [constructor|discriminate].
  - cbn [app]. split; [exact Hall|intros _; exact Hnn].
Qed.
End Theorems.

(* ---------------- witnesses: what the shipped forms refute, and non-vacuity ---------------- *)
Definition ex_minb (n : Z) : Z := Z.max 0 ((128 + n) * 3480 * 2).
Lemma ex_minb_nonneg n : 0 <= ex_minb n. Proof. unfold ex_minb. lia. Qed.
Definition ex_cfg : tcfg := mkCfg 77 [1; 2; 3; 4; 5; 6; 7; 8] false.
Definition ex_ib : list Z := [5; 0; 0; 0; 0; 0; 0; 0; 1; 2; 3; 4; 5].
Definition ex_ledger (towner tlam : Z) (tdata : list Z) : ledger :=
  [mkAcct 3 SYS 1000000000 [] false true true; mkAcct 4 towner tlam tdata false true true].
Definition ex_funder : funder := mkFunder 3 None.
Definition no_pda : pda_fn := fun _ => None.
Definition no_find : seeds -> key * Z := fun _ => (0, 0).
Definition unwrap_res (o : out (st * bool)) : st * bool := match o with Ok r => r | _ => (([], []), false) end.
(* (needed_init, funder lamports, account, number of CPIs) of a result *)
Definition summary (o : out (st * bool)) : option (bool * option Z * option acct * Z) :=
  match o with
  | Ok ((l, log), ni) => Some (ni, option_map a_lam (find 3 l), find 4 l, zlen log)
  | _ => None
  end.

(* D5: the shipped top-up takes a lamport from the funder although the account already holds the minimum *)
Theorem create_post_refuted :
  exists pda findp minb shortf cfg tk sa f ib l l' log' a0 fa0 fa1,
    (forall n, 0 <= minb n) /\ find tk l = Some a0 /\ find (f_key f) l = Some fa0 /\ f_key f <> tk /\
    0 <= a_lam a0 /\ 0 <= a_lam fa0 /\
    init_validate false shortf pda findp minb cfg false tk sa (Ok f) ib (l, []) = Ok ((l', log'), true) /\
    find (f_key f) l' = Some fa1 /\
    a_lam fa0 - a_lam fa1 = 1 /\ Z.max 0 (minb (zlen (t_disc cfg) + zlen ib) - a_lam a0) = 0.
Proof.
  pose (R := unwrap_res (init_validate false false no_pda no_find ex_minb ex_cfg false 4 SANone (Ok ex_funder) ex_ib
                                       (ex_ledger SYS 1037040 [], []))).
  exists no_pda, no_find, ex_minb, false, ex_cfg, 4, SANone, ex_funder, ex_ib, (ex_ledger SYS 1037040 []).
  exists (fst (fst R)), (snd (fst R)).
  exists (mkAcct 4 SYS 1037040 [] false true true), (mkAcct 3 SYS 1000000000 [] false true true).
  exists (mkAcct 3 SYS 999999999 [] false true true).
  split; [exact ex_minb_nonneg|]. vm_compute. repeat split; try reflexivity; discriminate.
Qed.

(* the same input with the repaired top-up: nothing is taken *)
Example create_prefunded_fixed :
  summary (init_validate true false no_pda no_find ex_minb ex_cfg false 4 SANone (Ok ex_funder) ex_ib
                         (ex_ledger SYS 1037040 [], []))
  = Some (true, Some 1000000000, Some (mkAcct 4 77 1037040 ([1; 2; 3; 4; 5; 6; 7; 8] ++ ex_ib) false true true), 2).
Proof. vm_compute. reflexivity. Qed.

Example create_fresh_fixed :
  summary (init_validate true false no_pda no_find ex_minb ex_cfg false 4 SANone (Ok ex_funder) ex_ib
                         (ex_ledger SYS 0 [], []))
  = Some (true, Some (1000000000 - 1037040),
          Some (mkAcct 4 77 1037040 ([1; 2; 3; 4; 5; 6; 7; 8] ++ ex_ib) false true true), 1).
Proof. vm_compute. reflexivity. Qed.

Example create_on_initialized_example :
  init_validate true false no_pda no_find ex_minb ex_cfg false 4 SANone (Ok ex_funder) ex_ib
                (ex_ledger 77 1037040 ([1; 2; 3; 4; 5; 6; 7; 8] ++ ex_ib), []) = Err SYS_ALREADY_IN_USE.
Proof. vm_compute. reflexivity. Qed.

Example if_needed_example :
  initialized ex_cfg (mkAcct 4 77 1037040 ([1; 2; 3; 4; 5; 6; 7; 8] ++ ex_ib) false true true) /\
  init_validate true false no_pda no_find ex_minb ex_cfg true 4 SANone (Ok ex_funder) ex_ib
                (ex_ledger 77 1037040 ([1; 2; 3; 4; 5; 6; 7; 8] ++ ex_ib), [])
  = Ok ((ex_ledger 77 1037040 ([1; 2; 3; 4; 5; 6; 7; 8] ++ ex_ib), []), false).
Proof. split; [|vm_compute; reflexivity]. unfold initialized. vm_compute. repeat split; try discriminate. Qed.

(* a seeded account and a seeded funder: both seed lists reach the CreateAccount CPI *)
Definition ex_pda : pda_fn := fun s => if seeds_eqb s [[99]; [254]] then Some 4 else if seeds_eqb s [[7]; [255]] then Some 3 else None.
Definition ex_find : seeds -> key * Z := fun s => if seeds_eqb s [[99]; []] then (4, 254) else (3, 255).
Example seeded_example :
  match init_validate true false ex_pda ex_find ex_minb ex_cfg false 4 (SAFind [[99]; []])
                      (Ok (mkFunder 3 (Some [[7]; [255]]))) ex_ib
                      ([mkAcct 3 SYS 1000000000 [] false false true; mkAcct 4 SYS 0 [] false false true], []) with
  | Ok ((_, log'), ni) => Some (ni, map c_seeds log')
  | _ => None
  end = Some (true, [[[[7]; [255]]; [[99]; [254]]]]).
Proof. vm_compute. reflexivity. Qed.

(* D10: create-if-needed on a foreign-owned account shorter than the discriminant *)
Theorem if_needed_short_refuted :
  exists pda findp minb fixed cfg tk sa f ib l a0,
    find tk l = Some a0 /\ a_owner a0 <> SYS /\ zlen (a_data a0) < zlen (t_disc cfg) /\
    init_validate fixed false pda findp minb cfg true tk sa (Ok f) ib (l, []) = Panic.
Proof.
  exists no_pda, no_find, ex_minb, true, ex_cfg, 4, SANone, ex_funder, ex_ib, (ex_ledger 238 5 [1; 2; 3]).
  exists (mkAcct 4 238 5 [1; 2; 3] false true true). vm_compute. repeat split; try reflexivity; discriminate.
Qed.

Theorem if_needed_short_errs pda findp minb fixed cfg tk sa cx w ib l log a0 :
  find tk l = Some a0 -> a_owner a0 <> SYS -> zlen (a_data a0) < zlen (t_disc cfg) ->
  exists c, init_validate fixed true pda findp minb cfg true tk sa (resolve_funder cx w) ib (l, log) = Err c.
Proof.
  intros Ht Ho Hlen. unfold init_validate.
  assert (Hs : ok_or_err (init_seeds pda findp tk sa)).
  { destruct sa as [|sd|sd b]; cbn [init_seeds]; [left; eauto| |].
    - destruct (findp sd) as [addr bump]. destruct (addr =? tk); [left|right]; eauto.
    - destruct (pda (with_bump sd b)) as [addr|]; [|right; eauto]. destruct (addr =? tk); [left|right]; eauto. }
  destruct Hs as [[ss ->]|[e ->]]; cbn [obind]; [|eauto].
  match goal with |- context [obind ?X _] =>
    assert (Ha : ok_or_err X) by (destruct sa; [left; eauto|destruct ss as [[? ?]|]; [left|right]; eauto..]) end.
  destruct Ha as [[aseeds ->]|[e ->]]; cbn [obind]; [|eauto].
  unfold init_account.
  assert (Hf : ok_or_err (resolve_funder cx w)).
  { destruct w; cbn [resolve_funder]; [left; eauto|]. destruct (cx_funder cx); [left|right]; eauto. }
  destruct Hf as [[f ->]|[e ->]]; cbn [obind]; [|eauto].
  cbn [fst]. rewrite Ht. unfold needs_init.
  destruct (a_owner a0 =? SYS) eqn:E; [zb; contradiction|].
  destruct (zlen (a_data a0) <? zlen (t_disc cfg)) eqn:E2; [|zb; lia].
  cbn [obind negb fst]. rewrite Ht. unfold validate_account_info.
  pose proof (zlen_nonneg (a_data a0)).
  destruct (zlen (t_disc cfg) =? 0) eqn:E3; [zb; lia|]. rewrite E2. cbn [obind]. eauto.
Qed.
