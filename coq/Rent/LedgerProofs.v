(* Facts about the ledger and the system-program simulator used by the C12 / C13 proofs. *)
From SF Require Import Base.Prelude Gen.Generated Rent.Ledger.

(* ---------------- find / upd ---------------- *)
Lemma find_key k l a : find k l = Some a -> a_key a = k.
Proof.
  induction l as [|b r IH]; cbn [find]; [discriminate|].
  destruct (a_key b =? k) eqn:E; [intros H; inversion H; subst; now apply Z.eqb_eq|exact IH].
Qed.

Lemma find_upd_same k f l :
  (forall a, a_key (f a) = a_key a) -> find k (upd k f l) = option_map f (find k l).
Proof.
  intros Hf. induction l as [|b r IH]; cbn [find upd option_map]; [reflexivity|].
  destruct (a_key b =? k) eqn:E.
  - cbn [find]. now rewrite Hf, E.
  - cbn [find]. now rewrite E.
Qed.

Lemma find_upd_other k k' f l :
  k' <> k -> (forall a, a_key (f a) = a_key a) -> find k' (upd k f l) = find k' l.
Proof.
  intros Hn Hf. induction l as [|b r IH]; cbn [find upd]; [reflexivity|].
  destruct (a_key b =? k) eqn:E.
  - cbn [find]. rewrite Hf. apply Z.eqb_eq in E.
    destruct (a_key b =? k') eqn:E'; [apply Z.eqb_eq in E'; congruence|reflexivity].
  - cbn [find]. destruct (a_key b =? k'); [reflexivity|exact IH].
Qed.

Lemma find_upd_same' k f l :
  (forall a, a_key a = k -> a_key (f a) = k) -> find k (upd k f l) = option_map f (find k l).
Proof.
  intros Hf. induction l as [|b r IH]; cbn [find upd option_map]; [reflexivity|].
  destruct (a_key b =? k) eqn:E.
  - cbn [find]. apply Z.eqb_eq in E. rewrite (Hf b E). now rewrite Z.eqb_refl.
  - cbn [find]. now rewrite E.
Qed.

Lemma find_upd_other' k k' f l :
  k' <> k -> (forall a, a_key a = k -> a_key (f a) = k) -> find k' (upd k f l) = find k' l.
Proof.
  intros Hn Hf. induction l as [|b r IH]; cbn [find upd]; [reflexivity|].
  destruct (a_key b =? k) eqn:E.
  - cbn [find]. apply Z.eqb_eq in E. rewrite (Hf b E).
    destruct (k =? k') eqn:E1; [apply Z.eqb_eq in E1; congruence|].
    destruct (a_key b =? k') eqn:E'; [apply Z.eqb_eq in E'; congruence|reflexivity].
  - cbn [find]. destruct (a_key b =? k'); [reflexivity|exact IH].
Qed.

Lemma upd_none k f l : find k l = None -> upd k f l = l.
Proof.
  induction l as [|b r IH]; cbn [find upd]; [reflexivity|].
  destruct (a_key b =? k); [discriminate|intros H; now rewrite IH].
Qed.

Lemma total_upd k f l a :
  find k l = Some a -> total (upd k f l) = total l - a_lam a + a_lam (f a).
Proof.
  unfold total. induction l as [|b r IH]; cbn [find upd map zsum]; [discriminate|].
  destruct (a_key b =? k).
  - intros H; inversion H; subst. cbn [map zsum]. lia.
  - intros H. cbn [map zsum]. rewrite (IH H). lia.
Qed.

Lemma keys_upd k f l : (forall a, a_key (f a) = a_key a) -> map a_key (upd k f l) = map a_key l.
Proof.
  intros Hf. induction l as [|b r IH]; cbn [upd map]; [reflexivity|].
  destruct (a_key b =? k); cbn [map]; [now rewrite Hf|now rewrite IH].
Qed.

Lemma set_lam_key x a : a_key (set_lam x a) = a_key a. Proof. reflexivity. Qed.
Lemma set_owner_key x a : a_key (set_owner x a) = a_key a. Proof. reflexivity. Qed.
Lemma set_data_key x a : a_key (set_data x a) = a_key a. Proof. reflexivity. Qed.

Lemma set_owner_same a : set_owner (a_owner a) a = a.
Proof. destruct a; reflexivity. Qed.

Lemma upd_set_owner_noop k ow f l a :
  find k l = Some a -> a_owner (f a) = ow -> (forall x, a_key (f x) = a_key x) ->
  upd k (set_owner ow) (upd k f l) = upd k f l.
Proof.
  intros Hf Ho Hk. induction l as [|b r IH]; cbn [upd find] in *; [reflexivity|].
  destruct (a_key b =? k) eqn:Ek.
  - cbn [upd]. rewrite Hk, Ek. inversion Hf; subst. now rewrite set_owner_same.
  - cbn [upd]. rewrite Ek. now rewrite IH.
Qed.

(* ---------------- credit ---------------- *)
Lemma find_credit_same k n l :
  find k (credit k n l) = option_map (fun a => set_lam (a_lam a + n) a) (find k l).
Proof. unfold credit. now apply find_upd_same. Qed.

Lemma find_credit_other k k' n l : k' <> k -> find k' (credit k n l) = find k' l.
Proof. intros. unfold credit. now apply find_upd_other. Qed.

Lemma total_credit k n l a : find k l = Some a -> total (credit k n l) = total l + n.
Proof. intros H. unfold credit. rewrite (total_upd _ _ _ _ H). cbn [set_lam a_lam]. lia. Qed.

Lemma total_set_data k d l : total (upd k (set_data d) l) = total l.
Proof.
  destruct (find k l) as [a|] eqn:E.
  - rewrite (total_upd _ _ _ _ E). cbn [set_data a_lam]. lia.
  - now rewrite upd_none.
Qed.

Lemma total_set_owner k o l : total (upd k (set_owner o) l) = total l.
Proof.
  destruct (find k l) as [a|] eqn:E.
  - rewrite (total_upd _ _ _ _ E). cbn [set_owner a_lam]. lia.
  - now rewrite upd_none.
Qed.

(* ---------------- the simulator conserves lamports ---------------- *)
Lemma sys_transfer_total l f t lam l' : sys_transfer l f t lam = Ok l' -> total l' = total l.
Proof.
  unfold sys_transfer.
  destruct (negb (m_signer f)); [discriminate|].
  destruct (find (m_key f) l) as [fa|] eqn:Ef; [|discriminate].
  destruct (find (m_key t) l) as [ta|] eqn:Et; [|discriminate].
  destruct (negb (is_nil (a_data fa))); [discriminate|].
  destruct (a_lam fa <? lam); [discriminate|].
  destruct (negb (a_owner fa =? SYS)); [discriminate|].
  destruct (negb (m_writable f && m_writable t)); [discriminate|].
  destruct (find (m_key t) (credit (m_key f) (- lam) l)) as [ta1|] eqn:Et1; [|discriminate].
  destruct (U64_MAX <? a_lam ta1 + lam); [discriminate|].
  intros H; inversion H; subst.
  rewrite (total_credit _ _ _ _ Et1), (total_credit _ _ _ _ Ef). lia.
Qed.

Lemma sys_allocate_total l m sp l' : sys_allocate l m sp = Ok l' -> total l' = total l.
Proof.
  unfold sys_allocate.
  destruct (negb (m_signer m)); [discriminate|].
  destruct (find (m_key m) l) as [a|]; [|discriminate].
  destruct (negb (is_nil (a_data a)) || negb (a_owner a =? SYS)); [discriminate|].
  destruct (MAX_PERMITTED_DATA_LENGTH <? sp); [discriminate|].
  destruct (MAX_PERMITTED_DATA_INCREASE <? sp); [discriminate|].
  destruct (negb (m_writable m)); [discriminate|].
  intros H; inversion H; subst. apply total_set_data.
Qed.

Lemma sys_assign_total l m ow l' : sys_assign l m ow = Ok l' -> total l' = total l.
Proof.
  unfold sys_assign.
  destruct (find (m_key m) l) as [a|]; [|discriminate].
  destruct (a_owner a =? ow); [intros H; now inversion H|].
  destruct (negb (m_signer m)); [discriminate|].
  destruct (negb (a_owner a =? SYS)); [discriminate|].
  destruct (negb (m_writable m)); [discriminate|].
  intros H; inversion H; subst. apply total_set_owner.
Qed.

Lemma sys_create_total l f t lam sp ow l' : sys_create l f t lam sp ow = Ok l' -> total l' = total l.
Proof.
  unfold sys_create.
  destruct (find (m_key t) l) as [ta|]; [|discriminate].
  destruct (0 <? a_lam ta); [discriminate|].
  destruct (sys_allocate l t sp) as [l1| | |] eqn:E1; cbn [obind]; try discriminate.
  destruct (sys_assign l1 t ow) as [l2| | |] eqn:E2; cbn [obind]; try discriminate.
  intros H. rewrite (sys_transfer_total _ _ _ _ _ H), (sys_assign_total _ _ _ _ E2).
  apply (sys_allocate_total _ _ _ _ E1).
Qed.

Theorem sys_exec_total pda c l l' : sys_exec pda c l = Ok l' -> total l' = total l.
Proof.
  unfold sys_exec.
  destruct (negb (c_prog c =? SYS)); [discriminate|].
  destruct (priv_all pda l (c_seeds c) (c_metas c)); cbn [obind]; try discriminate.
  destruct (c_ix c) as [lam sp ow|ow|lam|sp]; destruct (c_metas c) as [|m1 [|m2 [|m3 r]]]; try discriminate.
  - apply sys_create_total.
  - apply sys_assign_total.
  - apply sys_transfer_total.
  - apply sys_allocate_total.
Qed.

Lemma invoke_total pda c s s' : invoke pda c s = Ok s' -> total (fst s') = total (fst s).
Proof.
  unfold invoke. destruct (sys_exec pda c (fst s)) as [l'| | |] eqn:E; cbn [obind]; try discriminate.
  intros H; inversion H; subst. cbn [fst]. now apply sys_exec_total in E.
Qed.

Lemma invoke_log pda c s s' : invoke pda c s = Ok s' -> snd s' = snd s ++ [c].
Proof.
  unfold invoke. destruct (sys_exec pda c (fst s)); cbn [obind]; try discriminate.
  intros H; now inversion H.
Qed.

Lemma add_lamports_total k n l l' : add_lamports k n l = Ok l' -> total l' = total l + n.
Proof.
  unfold add_lamports. destruct (find k l) as [a|] eqn:E; [|discriminate].
  destruct (U64_MAX <? a_lam a + n); [discriminate|].
  intros H; inversion H; subst. now apply (total_credit _ _ _ _ E).
Qed.

Lemma sub_lamports_total k n l l' : sub_lamports k n l = Ok l' -> total l' = total l - n.
Proof.
  unfold sub_lamports. destruct (find k l) as [a|] eqn:E; [|discriminate].
  destruct (a_lam a - n <? 0); [discriminate|].
  intros H; inversion H; subst. rewrite (total_credit _ _ _ _ E). lia.
Qed.

(* ---------------- exact effects of the four instructions as the framework issues them ---------------- *)
Lemma priv_all_cons pda l ss m r :
  priv_all pda l ss (m :: r) = Ok tt -> priv_one pda l ss m = Ok tt /\ priv_all pda l ss r = Ok tt.
Proof.
  cbn [priv_all]. destruct (priv_one pda l ss m) as [[]| | |]; cbn [obind]; try discriminate. auto.
Qed.

Lemma priv_one_signer pda l ss k w :
  priv_one pda l ss (mkMeta k true w) = Ok tt ->
  exists a, find k l = Some a /\ (a_signer a = true \/ pda_signs pda ss k = true) /\ (w = true -> a_writable a = true).
Proof.
  unfold priv_one. cbn [m_key m_signer m_writable]. destruct (find k l) as [a|]; [|discriminate].
  cbn [andb]. destruct (a_signer a || pda_signs pda ss k) eqn:E; cbn [negb]; [|discriminate].
  destruct w; cbn [andb].
  - destruct (a_writable a) eqn:W; cbn [negb]; [|discriminate]. intros _. exists a.
    apply orb_true_iff in E. auto.
  - intros _. exists a. apply orb_true_iff in E. split; [reflexivity|split; [exact E|discriminate]].
Qed.

(* Transfer {lam} [funder s w; recipient - w] between two different accounts *)
Lemma transfer_effect pda fk tk lam ss l l' :
  sys_exec pda (mkCpi SYS (STransfer lam) [mkMeta fk true true; mkMeta tk false true] ss) l = Ok l' ->
  fk <> tk ->
  exists fa ta, find fk l = Some fa /\ find tk l = Some ta /\ lam <= a_lam fa /\ a_lam ta + lam <= U64_MAX /\
                a_owner fa = SYS /\ a_data fa = [] /\
                l' = credit tk lam (credit fk (- lam) l).
Proof.
  unfold sys_exec. cbn [c_prog c_ix c_metas c_seeds].
  replace (SYS =? SYS) with true by reflexivity. cbn [negb].
  destruct (priv_all pda l ss _) as [[]| | |]; cbn [obind]; try discriminate.
  unfold sys_transfer. cbn [m_key m_signer m_writable negb andb].
  destruct (find fk l) as [fa|] eqn:Ef; [|discriminate].
  destruct (find tk l) as [ta|] eqn:Et; [|discriminate].
  destruct (is_nil (a_data fa)) eqn:Ed; cbn [negb]; [|discriminate].
  destruct (a_lam fa <? lam) eqn:El; [discriminate|].
  destruct (a_owner fa =? SYS) eqn:Eo; cbn [negb]; [|discriminate].
  intros H Hne.
  rewrite find_credit_other, Et in H by congruence.
  destruct (U64_MAX <? a_lam ta + lam) eqn:Eu; [discriminate|].
  inversion H; subst. zb. exists fa, ta. repeat split; try assumption; try lia.
  destruct (a_data fa); [reflexivity|discriminate].
Qed.

(* Allocate {space} [account s w] *)
Lemma allocate_effect pda tk sp ss l l' :
  sys_exec pda (mkCpi SYS (SAllocate sp) [mkMeta tk true true] ss) l = Ok l' ->
  exists a, find tk l = Some a /\ a_data a = [] /\ a_owner a = SYS /\ a_writable a = true /\
            (a_signer a = true \/ pda_signs pda ss tk = true) /\
            l' = upd tk (set_data (zrepeat 0 sp)) l.
Proof.
  unfold sys_exec. cbn [c_prog c_ix c_metas c_seeds].
  replace (SYS =? SYS) with true by reflexivity. cbn [negb].
  destruct (priv_all pda l ss _) as [[]| | |] eqn:P; cbn [obind]; try discriminate.
  apply priv_all_cons in P as [P _]. apply priv_one_signer in P as (a & Ha & Hs & Hw).
  unfold sys_allocate. cbn [m_key m_signer m_writable negb]. rewrite Ha.
  destruct (is_nil (a_data a)) eqn:Ed; cbn [negb orb]; [|discriminate].
  destruct (a_owner a =? SYS) eqn:Eo; cbn [negb]; [|discriminate].
  destruct (MAX_PERMITTED_DATA_LENGTH <? sp); [discriminate|].
  destruct (MAX_PERMITTED_DATA_INCREASE <? sp); [discriminate|].
  intros H; inversion H; subst. zb. exists a. repeat split; auto.
  destruct (a_data a); [reflexivity|discriminate].
Qed.

(* Assign {owner} [account s w] *)
Lemma assign_effect pda tk ow ss l l' :
  sys_exec pda (mkCpi SYS (SAssign ow) [mkMeta tk true true] ss) l = Ok l' ->
  exists a, find tk l = Some a /\ (a_signer a = true \/ pda_signs pda ss tk = true) /\
            ((a_owner a = ow /\ l' = l) \/ (a_owner a = SYS /\ l' = upd tk (set_owner ow) l)).
Proof.
  unfold sys_exec. cbn [c_prog c_ix c_metas c_seeds].
  replace (SYS =? SYS) with true by reflexivity. cbn [negb].
  destruct (priv_all pda l ss _) as [[]| | |] eqn:P; cbn [obind]; try discriminate.
  apply priv_all_cons in P as [P _]. apply priv_one_signer in P as (a & Ha & Hs & Hw).
  unfold sys_assign. cbn [m_key m_signer m_writable negb]. rewrite Ha.
  destruct (a_owner a =? ow) eqn:E1.
  - intros H; inversion H; subst. zb. exists a. auto.
  - destruct (a_owner a =? SYS) eqn:Eo; cbn [negb]; [|discriminate].
    intros H; inversion H; subst. zb. exists a. auto.
Qed.

(* CreateAccount {lam, space, owner} [funder s w; new s w] between two different accounts *)
Lemma create_effect pda fk tk lam sp ow ss l l' :
  sys_exec pda (mkCpi SYS (SCreate lam sp ow) [mkMeta fk true true; mkMeta tk true true] ss) l = Ok l' ->
  fk <> tk -> 0 <= lam ->
  exists fa ta, find fk l = Some fa /\ find tk l = Some ta /\
    a_lam ta <= 0 /\ a_data ta = [] /\ a_owner ta = SYS /\ a_writable ta = true /\
    (a_signer ta = true \/ pda_signs pda ss tk = true) /\
    lam <= a_lam fa /\
    l' = credit tk lam (credit fk (- lam) (upd tk (set_owner ow) (upd tk (set_data (zrepeat 0 sp)) l))).
Proof.
  unfold sys_exec. cbn [c_prog c_ix c_metas c_seeds].
  replace (SYS =? SYS) with true by reflexivity. cbn [negb].
  destruct (priv_all pda l ss _) as [[]| | |] eqn:P; cbn [obind]; try discriminate.
  apply priv_all_cons in P as [_ P]. apply priv_all_cons in P as [P _].
  apply priv_one_signer in P as (ta & Ht & Hs & Hw).
  unfold sys_create. cbn [m_key]. rewrite Ht.
  destruct (0 <? a_lam ta) eqn:E0; [discriminate|].
  unfold sys_allocate. cbn [m_key m_signer m_writable negb]. rewrite Ht.
  destruct (is_nil (a_data ta)) eqn:Ed; cbn [negb orb]; [|discriminate].
  destruct (a_owner ta =? SYS) eqn:Eo; cbn [negb]; [|discriminate].
  destruct (MAX_PERMITTED_DATA_LENGTH <? sp); [discriminate|].
  destruct (MAX_PERMITTED_DATA_INCREASE <? sp); [discriminate|].
  cbn [obind].
  unfold sys_assign. cbn [m_key m_signer m_writable negb].
  rewrite find_upd_same by apply set_data_key. rewrite Ht. cbn [option_map set_data a_owner].
  intros H Hne Hlam.
  assert (Hda : a_data ta = []) by (destruct (a_data ta); [reflexivity|discriminate]).
  zb.
  (* both outcomes of the "owner already equal" test give the same ledger *)
  assert (Hl2 : exists l2, l2 = upd tk (set_owner ow) (upd tk (set_data (zrepeat 0 sp)) l) /\
                sys_transfer l2 (mkMeta fk true true) (mkMeta tk true true) lam = Ok l').
  { destruct (a_owner ta =? ow) eqn:E1.
    - cbn [obind] in H. eexists; split; [reflexivity|].
      zb. rewrite (upd_set_owner_noop tk ow (set_data (zrepeat 0 sp)) l ta Ht); auto using set_data_key.
    - replace (a_owner ta =? SYS) with true in H by (symmetry; now apply Z.eqb_eq).
      cbn [negb obind] in H. eexists; split; [reflexivity|exact H]. }
  destruct Hl2 as (l2 & Hl2 & Htr). clear H.
  unfold sys_transfer in Htr. cbn [m_key m_signer m_writable negb andb] in Htr.
  assert (Hf2 : find fk l2 = find fk l).
  { subst l2. rewrite !find_upd_other; auto using set_owner_key, set_data_key. }
  rewrite Hf2 in Htr.
  destruct (find fk l) as [fa|] eqn:Ef; [|discriminate].
  destruct (find tk l2) as [ta2|] eqn:Et2; [|discriminate].
  destruct (is_nil (a_data fa)); cbn [negb] in Htr; [|discriminate].
  destruct (a_lam fa <? lam) eqn:El; [discriminate|].
  destruct (a_owner fa =? SYS); cbn [negb] in Htr; [|discriminate].
  rewrite find_credit_other, Et2 in Htr by congruence.
  destruct (U64_MAX <? a_lam ta2 + lam); [discriminate|].
  inversion Htr; subst. zb.
  exists fa, ta. repeat split; auto; lia.
Qed.
