From SF Require Import Base.Prelude Properties.C03.
