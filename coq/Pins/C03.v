(* Pinned statements of C03: re-checked on every run. *)
From SF Require Import Base.Prelude Gen.Generated Unsized.Types Unsized.Parse Unsized.Machine Unsized.Ops Unsized.Run Unsized.Proofs.EncodeParse Unsized.Proofs.Mem Unsized.Proofs.Notify Unsized.Proofs.Flat Unsized.Proofs.Layout Unsized.Proofs.Observe Unsized.Proofs.Path Unsized.Proofs.Context Unsized.Proofs.FocusOps Unsized.Proofs.NotifyInside Unsized.Proofs.Resize Unsized.Proofs.GenOps Unsized.Proofs.History Unsized.Proofs.Init Unsized.Proofs.History2 Unsized.Proofs.ExecTie Unsized.Proofs.History3 Unsized.Proofs.Enums Unsized.Proofs.InitKinds Unsized.Proofs.StringSet Unsized.Proofs.SwapOps Properties.C03.

Check (C03_all_ops_no_fault_in_any_history :
  forall ovf t h v s top pi0 v',
    RepF pi0 t v s top -> m_refuse s <> 1 -> orunX (m_cap s) t v h = Some v' ->
    exists s' top', mrunX ovf t s top h = Ok (s', top') /\ top_check s' top' = true /\ m_len s' <= m_cap s' /\ m_cap s' = m_cap s).
Check (C03_no_fault_in_any_full_history :
  forall ovf t h v s top pi0 v' obss,
    RepF pi0 t v s top -> m_refuse s <> 1 -> orunZ (m_cap s) t v h = Some (v', obss) ->
    exists s' top', mrunZ ovf t s top h = Ok (s', top', obss) /\ top_check s' top' = true /\ m_len s' <= m_cap s' /\ m_cap s' = m_cap s).
Check (C03_no_fault_in_any_history_of_every_operation :
  forall ovf t h v s top pi0 v' obss,
    RepF pi0 t v s top -> m_refuse s <> 1 -> orunS (m_cap s) t v h = Some (v', obss) ->
    exists s' top', mrunS ovf t s top h = Ok (s', top', obss) /\ top_check s' top' = true /\ m_len s' <= m_cap s' /\ m_cap s' = m_cap s).
Check (C03_general_no_fault_in_any_history :
  forall ovf t h v s top pi0 v' l,
    RepF pi0 t v s top -> m_refuse s <> 1 -> orunE (m_cap s) (m_refuse s) t v h = Some (v', l) ->
    exists s' top', mrunE ovf t s top h = Ok (s', top', l) /\ top_check s' top' = true /\ m_len s' <= m_cap s').
Check (C03_general_pointer_assertions_hold :
  forall pi t v s top, RepF pi t v s top -> top_check s top = true).
Check (C03_notify_stays_in_allocation :
  forall t p src c m p' m', notify t p src c m = Ok (p', m') -> zlen m' = zlen m).
Check (C03_add_bytes_stays_in_allocation :
  forall t s top src start amount s' top',
    add_bytes t s top src start amount = Ok (s', top') -> m_cap s' = m_cap s).
Check (C03_remove_bytes_stays_in_allocation :
  forall t s top src start end_ s' top',
    remove_bytes t s top src start end_ = Ok (s', top') -> m_cap s' = m_cap s).
Check (C03_realloc_limit :
  forall tsA tsB vsA vsB c lw items, length tsA = length vsA -> forall s top idx new,
    Rep (tsA ++ TList c lw :: tsB) (vsA ++ VList items :: vsB) s top ->
    0 <= idx <= zlen items -> zlen items + zlen new < 256 ^ Z.of_nat lw -> new <> [] ->
    (m_refuse s = 1 \/ m_cap s < m_len s + Z.of_nat (fsize c) * zlen new) ->
    list_insert (TStruct (tsA ++ TList c lw :: tsB)) s top [PF (length tsA)] idx new = Err E_REALLOC).
Check (C03_flat_pointer_assertions_hold :
  forall ts vs s top, Rep ts vs s top -> top_check s top = true).
Check (C03_check_pointers_in_range :
  forall p lo hi cursor, lo <= hi -> fst (check_ptrs p lo hi cursor) = true -> Forall (fun a => lo <= a <= hi) (addrs p)).
Check (C03_swapped_accessor_detected :
  forall p lo hi cursor a, lo <= hi -> In a (addrs p) -> (a < lo \/ hi < a) -> fst (check_ptrs p lo hi cursor) = false).
Check (C03_swapped_element_accessor_reported_by_the_next_operation :
  forall t s top ps it k a n q rs re x,
    sub t top ps = Ok (TUList it k, PUList a n (Some q) true rs re) ->
    rs <= re -> In x (addrs q) -> (x < rs \/ re < x) ->
    (forall idx kind keys, ulist_insert t s top ps idx kind keys = Panic) /\
    (forall st en, ulist_remove t s top ps st en = Panic) /\
    ulist_clear t s top ps = Panic).

Print Assumptions C03_all_ops_no_fault_in_any_history.
Print Assumptions C03_no_fault_in_any_full_history.
Print Assumptions C03_no_fault_in_any_history_of_every_operation.
Print Assumptions C03_general_no_fault_in_any_history.
Print Assumptions C03_general_pointer_assertions_hold.
Print Assumptions C03_notify_stays_in_allocation.
Print Assumptions C03_add_bytes_stays_in_allocation.
Print Assumptions C03_remove_bytes_stays_in_allocation.
Print Assumptions C03_realloc_limit.
Print Assumptions C03_flat_pointer_assertions_hold.
Print Assumptions C03_check_pointers_in_range.
Print Assumptions C03_swapped_accessor_detected.
Print Assumptions C03_swapped_element_accessor_reported_by_the_next_operation.
