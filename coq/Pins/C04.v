(* Pinned statements of C04: re-checked on every run. *)
From SF Require Import Base.Prelude Gen.Generated Unsized.Types Unsized.Parse Unsized.Proofs.EncodeParse Properties.C04.

Check (C04_parse_never_faults :
 forall ovf t bs, parse ovf t bs <> Fault).
Check (C04_extent_never_faults :
 forall ovf t bs, extent ovf t bs <> Fault).
Check (C04_owned_never_faults :
 forall ovf t bs, owned ovf t bs <> Fault).
Check (C04_extent_inside :
 forall ovf t bs n, extent ovf t bs = Ok n -> 0 <= n <= zlen bs).
Check (C04_valid_bits :
  forall ovf t bs v n, parse ovf t bs = Ok (v, n) -> valid_bits t v = true /\ 0 <= n <= zlen bs).
Check (C04_extent_total_unchecked :
 forall t bs, extent false t bs <> Panic).

Print Assumptions C04_parse_never_faults.
Print Assumptions C04_extent_never_faults.
Print Assumptions C04_owned_never_faults.
Print Assumptions C04_extent_inside.
Print Assumptions C04_valid_bits.
Print Assumptions C04_extent_total_unchecked.
