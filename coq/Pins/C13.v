(* Pinned statements of C13: re-checked on every run. *)
From SF Require Import Base.Prelude Gen.Generated Gen.Gen_c13 Rent.Ledger Rent.Init Rent.InitProofs Rent.RentOps Rent.RentOpsProofs Properties.C13.

Check (C13_source_has_repaired_refund :
  REFUND_FIXED = true).
Check (C13_normalize_exact :
  forall pda minb f ak l log l' log' a fa,
  find ak l = Some a -> find (f_key f) l = Some fa -> f_key f <> ak -> a_lam a <> 0 ->
  normalize_rent pda minb ak f (l, log) = Ok (l', log') ->
  exists a' fa',
    find ak l' = Some a' /\ find (f_key f) l' = Some fa' /\
    a_lam a' = minb (zlen (a_data a)) /\ a_data a' = a_data a /\ a_owner a' = a_owner a /\
    a_lam fa' = a_lam fa + (a_lam a - minb (zlen (a_data a))) /\
    (forall k, k <> ak -> k <> f_key f -> find k l' = find k l) /\
    total l' = total l).
Check (C13_refund_keeps_min_and_moves_excess :
  forall minb ak rk l log l' log' a ra,
  find ak l = Some a -> find rk l = Some ra -> rk <> ak -> a_lam a <> 0 ->
  refund_rent true minb ak rk (l, log) = Ok (l', log') ->
  exists a' ra',
    find ak l' = Some a' /\ find rk l' = Some ra' /\
    minb (zlen (a_data a')) <= a_lam a' /\ a_data a' = a_data a /\
    a_lam a - a_lam a' = Z.max 0 (a_lam a - minb (zlen (a_data a))) /\
    a_lam ra' - a_lam ra = a_lam a - a_lam a' /\
    log' = log /\
    (forall k, k <> ak -> k <> rk -> find k l' = find k l) /\
    total l' = total l).
Check (C13_refund_keeps_min_refuted :
  exists minb' ak rk l l' log' a',
    (forall n, 0 <= minb' n) /\
    refund_rent false minb' ak rk (l, []) = Ok (l', log') /\ find ak l' = Some a' /\
    0 < a_lam a' < minb' (zlen (a_data a'))).
Check (C13_zero_left_alone_refuted :
  exists minb' ak rk s a, (forall n, 0 <= minb' n) /\ find ak (fst s) = Some a /\ a_lam a = 0 /\
    refund_rent false minb' ak rk s = Err PE_INSUFFICIENT_FUNDS).
Check (C13_receive_only_adds_shortfall :
  forall pda minb f ak l log l' log' a fa,
  find ak l = Some a -> find (f_key f) l = Some fa -> f_key f <> ak -> a_lam a <> 0 ->
  receive_rent pda minb ak f (l, log) = Ok (l', log') ->
  exists a' fa',
    find ak l' = Some a' /\ find (f_key f) l' = Some fa' /\
    a_lam a' = Z.max (a_lam a) (minb (zlen (a_data a))) /\ a_data a' = a_data a /\
    a_lam fa - a_lam fa' = Z.max 0 (minb (zlen (a_data a)) - a_lam a) /\
    a_lam a' - a_lam a = a_lam fa - a_lam fa' /\
    (forall k, k <> ak -> k <> f_key f -> find k l' = find k l) /\
    total l' = total l).
Check (C13_zero_left_alone :
  forall pda minb, (forall n, 0 <= minb n) ->
  forall ak f rk s a,
  find ak (fst s) = Some a -> a_lam a = 0 ->
  normalize_rent pda minb ak f s = Ok s /\ receive_rent pda minb ak f s = Ok s /\
  refund_rent true minb ak rk s = Ok s).
Check (C13_close_post :
  forall w ak rk l log l' log' a ra,
  find ak l = Some a -> find rk l = Some ra -> rk <> ak -> 0 <= w ->
  close_account w ak rk (l, log) = Ok (l', log') ->
  exists a' ra',
    find ak l' = Some a' /\ find rk l' = Some ra' /\
    a_lam a' = 0 /\ a_data a' = zrepeat 255 w /\ zlen (a_data a') = w /\ a_owner a' = a_owner a /\
    a_lam ra' = a_lam ra + a_lam a /\ a_data ra' = a_data ra /\
    log' = log /\
    (forall k, k <> ak -> k <> rk -> find k l' = find k l) /\
    total l' = total l).
Check (C13_conservation :
  forall pda minb fixed dw cx ak arg s s',
  (forall w r, arg = CClose w -> resolve_recipient cx w = Ok r -> r <> ak) ->
  cleanup fixed pda minb dw cx ak arg s = Ok s' -> total (fst s') = total (fst s)).
Check (C13_no_overflow :
  forall pda minb, (forall n, 0 <= minb n) ->
  forall fixed w ak f rk l log a fa ra,
  ledger_ok l -> find ak l = Some a ->
  find (f_key f) l = Some fa -> f_key f <> ak -> find rk l = Some ra -> rk <> ak ->
  ok_or_err (normalize_rent pda minb ak f (l, log)) /\ ok_or_err (receive_rent pda minb ak f (l, log)) /\
  ok_or_err (refund_rent fixed minb ak rk (l, log)) /\ ok_or_err (close_account w ak rk (l, log))).
Check (C13_cached_lookup :
  forall pda minb fixed dw cx ak s,
  (forall f, cx_funder cx = Some f ->
     cleanup fixed pda minb dw cx ak (CNormalize Cached) s = normalize_rent pda minb ak f s /\
     cleanup fixed pda minb dw cx ak (CReceive Cached) s = receive_rent pda minb ak f s) /\
  (forall r, cx_recipient cx = Some r ->
     cleanup fixed pda minb dw cx ak (CRefund RCached) s = refund_rent fixed minb ak r s /\
     cleanup fixed pda minb dw cx ak (CClose RCached) s = close_account dw ak r s) /\
  (cx_funder cx = None ->
     cleanup fixed pda minb dw cx ak (CNormalize Cached) s = Err EC_EMPTY_FUNDER_CACHE /\
     cleanup fixed pda minb dw cx ak (CReceive Cached) s = Err EC_EMPTY_FUNDER_CACHE) /\
  (cx_recipient cx = None ->
     cleanup fixed pda minb dw cx ak (CRefund RCached) s = Err EC_EMPTY_RECIPIENT_CACHE /\
     cleanup fixed pda minb dw cx ak (CClose RCached) s = Err EC_EMPTY_RECIPIENT_CACHE)).
Check (C13_cache_first_wins :
  forall f1 f2 r1 r2 cx,
  cx_funder (cache_funder f2 (cache_funder f1 cx)) = cx_funder (cache_funder f1 cx) /\
  cx_recipient (cache_recipient r2 (cache_recipient r1 cx)) = cx_recipient (cache_recipient r1 cx) /\
  (cx_funder cx = None -> cx_funder (cache_funder f1 cx) = Some f1) /\
  (cx_recipient cx = None -> cx_recipient (cache_recipient r1 cx) = Some r1)).

Print Assumptions C13_source_has_repaired_refund.
Print Assumptions C13_normalize_exact.
Print Assumptions C13_refund_keeps_min_and_moves_excess.
Print Assumptions C13_refund_keeps_min_refuted.
Print Assumptions C13_zero_left_alone_refuted.
Print Assumptions C13_receive_only_adds_shortfall.
Print Assumptions C13_zero_left_alone.
Print Assumptions C13_close_post.
Print Assumptions C13_conservation.
Print Assumptions C13_no_overflow.
Print Assumptions C13_cached_lookup.
Print Assumptions C13_cache_first_wins.
