(* Pinned statements of C09: re-checked on every run. *)
From SF Require Import Base.Prelude Gen.Generated Account.Validate Account.ValidateProofs Properties.C09.

Check (C09_fast_eq_iff :
  forall a b, key_ok a -> key_ok b -> (fast_eq a b = true <-> a = b)).
Check (C09_layer_exact :
  forall a l, key_ok (a_key a) -> key_ok (a_owner a) -> layer_wf l -> (layer_check a l = Ok tt <-> layer_ok a l)).
Check (C09_nesting_accepts_iff_every_layer :
  forall a ls, key_ok (a_key a) -> key_ok (a_owner a) -> Forall layer_wf ls ->
    (validate_layers a ls = Ok tt <-> Forall (layer_ok a) ls)).
Check (C09_first_error_is_innermost :
  forall a pre l post c,
    validate_layers a pre = Ok tt -> layer_check a l = Err c -> validate_layers a (pre ++ l :: post) = Err c).
Check (C09_optional_absent :
 forall prog ls, validate_optional prog None ls = Ok false).
Check (C09_optional_present :
  forall prog a ls, key_ok prog -> key_ok (a_key a) -> key_ok (a_owner a) -> Forall layer_wf ls -> a_key a <> prog ->
    (validate_optional prog (Some a) ls = Ok true <-> Forall (layer_ok a) ls)).
Check (C09_optional_placeholder :
  forall prog a ls, key_ok prog -> key_ok (a_key a) -> a_key a = prog -> validate_optional prog (Some a) ls = Ok false).
Check (C09_vec_accepts_iff_every_account :
  forall accs ls form k, Forall acct_ok accs -> Forall layer_wf ls ->
    (validate_vec accs ls form k = Ok tt <-> args_fit form k (zlen accs) /\ Forall (fun a => Forall (layer_ok a) ls) accs)).
Check (C09_vec_no_account_skipped :
  forall accs ls form k a, Forall acct_ok accs -> Forall layer_wf ls -> In a accs -> ~ Forall (layer_ok a) ls ->
    validate_vec accs ls form k <> Ok tt).
Check (C09_set_accepts_iff_every_field :
  forall fs, Forall (fun '(a, ls) => acct_ok a /\ Forall layer_wf ls) fs ->
    (validate_fields fs = Ok tt <-> Forall (fun '(a, ls) => Forall (layer_ok a) ls) fs)).
Check (C09_set_first_error :
  forall fs e, validate_fields fs = Err e ->
    exists pre a ls post,
      fs = pre ++ (a, ls) :: post /\ Forall (fun '(a', ls') => validate_layers a' ls' = Ok tt) pre /\ validate_layers a ls = Err e).
Check (C09_set_first_error_conv :
  forall pre a ls post e,
    Forall (fun '(a', ls') => validate_layers a' ls' = Ok tt) pre -> validate_layers a ls = Err e ->
    validate_fields (pre ++ (a, ls) :: post) = Err e).
Check (C09_set_check_stays_with_its_field :
  forall fs i a ls k, Forall (fun '(a, ls) => acct_ok a /\ Forall layer_wf ls) fs ->
    nth_error fs i = Some (a, ls) -> In (LAddress k) ls -> a_key a <> k ->
    validate_fields fs <> Ok tt).

Print Assumptions C09_fast_eq_iff.
Print Assumptions C09_layer_exact.
Print Assumptions C09_nesting_accepts_iff_every_layer.
Print Assumptions C09_first_error_is_innermost.
Print Assumptions C09_optional_absent.
Print Assumptions C09_optional_present.
Print Assumptions C09_optional_placeholder.
Print Assumptions C09_vec_accepts_iff_every_account.
Print Assumptions C09_vec_no_account_skipped.
Print Assumptions C09_set_accepts_iff_every_field.
Print Assumptions C09_set_first_error.
Print Assumptions C09_set_first_error_conv.
Print Assumptions C09_set_check_stays_with_its_field.
