(* Pinned statements of C02: re-checked on every run. *)
From SF Require Import Base.Prelude Gen.Generated Unsized.Types Unsized.Parse Unsized.Machine Unsized.Ops Unsized.Run Unsized.Proofs.EncodeParse Unsized.Proofs.Mem Unsized.Proofs.Notify Unsized.Proofs.Flat Unsized.Proofs.Layout Unsized.Proofs.Observe Unsized.Proofs.Path Unsized.Proofs.Context Unsized.Proofs.FocusOps Unsized.Proofs.NotifyInside Unsized.Proofs.Resize Unsized.Proofs.GenOps Unsized.Proofs.History Unsized.Proofs.Init Unsized.Proofs.History2 Unsized.Proofs.ExecTie Unsized.Proofs.History3 Unsized.Proofs.Enums Unsized.Proofs.InitKinds Unsized.Proofs.StringSet Properties.C02.

Check (C02_all_ops_canonical_after_any_history :
  forall ovf t h v s top pi0 v',
    RepF pi0 t v s top -> m_refuse s <> 1 -> orunX (m_cap s) t v h = Some v' ->
    exists s' top', mrunX ovf t s top h = Ok (s', top') /\
      ztake (m_len s') (m_mem s') = encode t v' /\ m_len s' = byte_size t v').
Check (C02_canonical_after_any_full_history :
  forall ovf t h v s top pi0 v' obss,
    RepF pi0 t v s top -> m_refuse s <> 1 -> orunZ (m_cap s) t v h = Some (v', obss) ->
    exists s' top', mrunZ ovf t s top h = Ok (s', top', obss) /\
      ztake (m_len s') (m_mem s') = encode t v' /\ m_len s' = byte_size t v').
Check (C02_canonical_after_any_history_of_every_operation :
  forall ovf t h v s top pi0 v' obss,
    RepF pi0 t v s top -> m_refuse s <> 1 -> orunS (m_cap s) t v h = Some (v', obss) ->
    exists s' top', mrunS ovf t s top h = Ok (s', top', obss) /\
      ztake (m_len s') (m_mem s') = encode t v' /\ m_len s' = byte_size t v').
Check (C02_general_canonical_after_any_history :
  forall ovf t h v s top pi0 v' l,
    RepF pi0 t v s top -> m_refuse s <> 1 -> orunE (m_cap s) (m_refuse s) t v h = Some (v', l) ->
    exists s' top', mrunE ovf t s top h = Ok (s', top', l) /\
      ztake (m_len s') (m_mem s') = encode t v' /\ m_len s' = byte_size t v').
Check (C02_flat_canonical_after_any_history :
  forall ts h vs s top vs',
    Rep ts vs s top -> m_refuse s <> 1 -> orun (m_cap s) ts vs h = Some vs' ->
    exists s' top', mrun ts s top h = Ok (s', top') /\
      ztake (m_len s') (m_mem s') = encode (TStruct ts) (VStruct vs') /\
      m_len s' = byte_size (TStruct ts) (VStruct vs')).
Check (C02_encode_size :
 forall t v, wf t v = true -> zlen (encode t v) = byte_size t v).
Check (C02_encode_injective :
  forall t v v', ty_ok true t = true -> wf t v = true -> wf t v' = true -> encode t v = encode t v' -> v = v').
Check (C02_any_reader_sees_the_value :
  forall ovf t v, ty_ok true t = true -> wf t v = true -> parse ovf t (encode t v) = Ok (v, byte_size t v)).

Print Assumptions C02_all_ops_canonical_after_any_history.
Print Assumptions C02_canonical_after_any_full_history.
Print Assumptions C02_canonical_after_any_history_of_every_operation.
Print Assumptions C02_general_canonical_after_any_history.
Print Assumptions C02_flat_canonical_after_any_history.
Print Assumptions C02_encode_size.
Print Assumptions C02_encode_injective.
Print Assumptions C02_any_reader_sees_the_value.
