(* Pinned statements of C19: re-checked on every run. *)
From SF Require Import Base.Prelude Meta.Layout Meta.LayoutProofs Meta.Derives Meta.DerivesProofs Properties.C19.

Check (C19_align1_sound :
  forall d : decl,
    align1_accepts true d = true ->
    (forall v f, In v (d_variants d) -> In f v -> 1 <= f_align f /\ 0 <= f_size f) ->
    (forall f, In f (align1_bounded true d) -> f_a1 f = true -> f_align f = 1) ->
    decl_align d = 1).
Check (C19_align1_sound_unrepaired_refuted :
  exists d : decl,
    align1_accepts false d = true
    /\ (forall v f, In v (d_variants d) -> In f v -> 1 <= f_align f /\ 0 <= f_size f)
    /\ (forall f, In f (align1_bounded false d) -> f_a1 f = true -> f_align f = 1)
    /\ decl_align d = 2).
Check (C19_zero_copy_sound :
  forall (a : zc_args) (d : decl),
    d_form d = FStruct \/ d_form d = FTuple ->
    zc_accepts true a d = true ->
    (forall v f, In v (d_variants d) -> In f v -> 1 <= f_align f /\ 0 <= f_size f) ->
    (forall f, In f (align1_bounded true (zc_decl a d)) -> f_a1 f = true -> f_align f = 1) ->
    decl_size (zc_decl a d) = fsum (d_fields d)
    /\ decl_align (zc_decl a d) = 1
    /\ (if zc_pod a then forallb f_pod (d_fields d) = true
        else forallb f_checked (d_fields d) = true /\ forallb f_nouninit (d_fields d) = true
             /\ forall cs : list (list Z), Forall2 (fun f c => zlen c = f_size f) (d_fields d) cs ->
                  checked_ok (zc_decl a d) (concat cs) = valid_chunks (d_fields d) cs)).
Check (C19_zero_copy_enum_sound :
  forall (a : zc_args) (d : decl),
    d_form d = FEnum -> zc_accepts true a d = true ->
    decl_size (zc_decl a d) = 1 /\ decl_align (zc_decl a d) = 1 /\ 0 < zlen (d_variants d)
    /\ forall b : Z, checked_ok (zc_decl a d) [b] = (0 <=? b) && (b <? zlen (d_variants d))).
Check (C19_zero_copy_sound_unrepaired_refuted :
  zc_accepts false (mkZc false false) d13_enum = true
  /\ decl_size (zc_decl (mkZc false false) d13_enum) = 2 /\ decl_align (zc_decl (mkZc false false) d13_enum) = 2).
Check (C19_sized_part_sound :
  forall (g : bool) (fs : list fld),
    sized_accepts true g fs = true -> (forall f, In f fs -> 1 <= f_align f) ->
    decl_size (sized_decl g fs) = fsum fs /\ decl_align (sized_decl g fs) = 1
    /\ forallb f_checked fs = true /\ forallb f_nouninit fs = true
    /\ forall cs : list (list Z), Forall2 (fun f c => zlen c = f_size f) (d_fields (sized_decl g fs)) cs ->
         checked_ok (sized_decl g fs) (concat cs) = valid_chunks (d_fields (sized_decl g fs)) cs).
Check (C19_packed_no_padding :
  forall (r : repr) (fs : list field),
    r_packed r = Some 1 -> r_align r = None -> (forall f, In f fs -> 1 <= falign f) ->
    struct_align r fs = 1 /\ struct_size r fs = zsum (sizes fs) /\ c_offsets r fs = prefix_offsets 0 fs).
Check (C19_zst_rejected :
  forall (s : option Z) (fs init : list uty) (c : uty) (rest : list uty),
    all_wf (components s fs) ->
    components s fs = init ++ c :: rest -> rest <> [] -> min_size c = 0 ->
    zst_status (UStruct s fs) = None).
Check (C19_zst_status_true_nonempty :
  forall t : uty, uty_wf t -> zst_status t = Some true -> 0 < min_size t).
Check (C19_zst_accepted_shape :
  forall (s : option Z) (fs : list uty) (b : bool),
    zst_status (UStruct s fs) = Some b ->
    exists init last, components s fs = init ++ [last]
      /\ Forall (fun c => zst_status c = Some true) init /\ zst_status last = Some b).
Check (C19_zst_rejected_status :
  forall (s : option Z) (fs init : list uty) (c : uty) (rest : list uty),
    components s fs = init ++ c :: rest -> rest <> [] -> zst_status c <> Some true ->
    zst_status (UStruct s fs) = None).
Check (C19_zst_enum_value :
  forall (vs : list (option uty)) (b : bool),
    zst_status (UEnum vs) = Some b <->
    (forall t, In (Some t) vs -> zst_status t <> None)
    /\ (b = true <-> forall t, In (Some t) vs -> zst_status t = Some true)).
Check (C19_zst_enum_rejected :
  forall (s : option Z) (fs init : list uty) (vs : list (option uty)) (t : uty) (rest : list uty),
    components s fs = init ++ UEnum vs :: rest -> rest <> [] ->
    In (Some t) vs -> uty_wf t -> min_size t = 0 ->
    zst_status (UStruct s fs) = None).
Check (C19_valid_align1_plain :
  forall (fm : form) (c : bool) (fs : list fld),
    fm = FStruct \/ fm = FTuple -> forallb f_a1 fs = true ->
    align1_accepts true (mkDecl fm false (if c then [[IC]] else []) [fs]) = true).
Check (C19_valid_align1_packed :
  forall (fm : form) (g : bool) (fs : list fld),
    fm = FStruct \/ fm = FTuple -> (g = true -> existsb f_param fs = true) ->
    align1_accepts true (mkDecl fm g [[IC; IPacked 1]] [fs]) = true).
Check (C19_valid_align1_transparent :
  forall (fm : form) (f : fld),
    fm = FStruct \/ fm = FTuple -> f_a1 f = true -> f_param f = false ->
    align1_accepts true (mkDecl fm false [[ITransparent]] [[f]]) = true).
Check (C19_valid_align1_unit_enum :
  forall vs : list (list fld),
    vs <> [] -> has_data vs = false -> align1_accepts true (mkDecl FEnum false [[IInt 0]] vs) = true).
Check (C19_valid_align1_data_enum :
  forall vs : list (list fld),
    vs <> [] -> (forall v f, In v vs -> In f v -> f_align f = 1) ->
    align1_accepts true (mkDecl FEnum false [[IInt 0]] vs) = true).
Check (C19_valid_zero_copy_struct :
  forall (fm : form) (fs : list fld),
    fm = FStruct \/ fm = FTuple -> (forall f, In f fs -> 1 <= f_align f) ->
    forallb f_checked fs = true -> forallb f_nouninit fs = true -> forallb f_zeroable fs = true ->
    zc_accepts true (mkZc false false) (mkDecl fm false [] [fs]) = true).
Check (C19_valid_zero_copy_pod :
  forall (fm : form) (fs : list fld),
    fm = FStruct \/ fm = FTuple -> forallb f_pod fs = true -> forallb f_zeroable fs = true ->
    zc_accepts true (mkZc true false) (mkDecl fm false [] [fs]) = true).
Check (C19_valid_zero_copy_skip_packed :
  forall (fm : form) (fs : list fld),
    fm = FStruct \/ fm = FTuple -> (forall f, In f fs -> f_align f = 1) -> forallb f_a1 fs = true ->
    forallb f_checked fs = true -> forallb f_nouninit fs = true -> forallb f_zeroable fs = true ->
    zc_accepts true (mkZc false true) (mkDecl fm false [] [fs]) = true).
Check (C19_valid_zero_copy_enum :
  forall vs : list (list fld),
    vs <> [] -> has_data vs = false ->
    zc_accepts true (mkZc false false) (mkDecl FEnum false [[IInt 0]] vs) = true).
Check (C19_valid_unsized :
  forall (fs : list fld) (init : list uty) (last : uty) (b : bool),
    fs <> [] -> fsum fs <> 0 ->
    (forall f, In f fs -> 1 <= f_align f) ->
    forallb f_checked fs = true -> forallb f_nouninit fs = true -> forallb f_zeroable fs = true ->
    Forall (fun c => zst_status c = Some true) init -> zst_status last = Some b ->
    unsized_accepts true false true fs (init ++ [last]) = true).
Check (C19_bound_style_irrelevant :
  forall (m f k s : Z) (rest : list Z),
    0 < k < 100 -> 0 <= s <= 2 ->
    run_c19 (m :: f :: (k + 100 * s) :: rest) = run_c19 (m :: f :: k :: rest)).
Check (C19_tuple_align1_sound :
  forall es : list fld,
    (forall e, In e es -> f_a1 e = true -> f_align e = 1) ->
    f_a1 (tuple_fld es) = true ->
    f_align (tuple_fld es) = 1 /\ f_size (tuple_fld es) = fsum es).
Check (C19_tuple_align1_first_unbounded_refuted :
  exists es : list fld,
    (forall e, In e es -> f_a1 e = true -> f_align e = 1)
    /\ f_a1 (tuple_fld_first_unbounded es) = true
    /\ f_align (tuple_fld_first_unbounded es) = 8
    /\ f_a1 (tuple_fld es) = false).
Check (C19_field_menu_align1_sound :
  forall (g c : Z) (f : fld),
    field_of (menu g) c = Some f -> f_a1 f = true -> f_align f = 1).

Print Assumptions C19_align1_sound.
Print Assumptions C19_align1_sound_unrepaired_refuted.
Print Assumptions C19_zero_copy_sound.
Print Assumptions C19_zero_copy_enum_sound.
Print Assumptions C19_zero_copy_sound_unrepaired_refuted.
Print Assumptions C19_sized_part_sound.
Print Assumptions C19_packed_no_padding.
Print Assumptions C19_zst_rejected.
Print Assumptions C19_zst_status_true_nonempty.
Print Assumptions C19_zst_accepted_shape.
Print Assumptions C19_zst_rejected_status.
Print Assumptions C19_zst_enum_value.
Print Assumptions C19_zst_enum_rejected.
Print Assumptions C19_valid_align1_plain.
Print Assumptions C19_valid_align1_packed.
Print Assumptions C19_valid_align1_transparent.
Print Assumptions C19_valid_align1_unit_enum.
Print Assumptions C19_valid_align1_data_enum.
Print Assumptions C19_valid_zero_copy_struct.
Print Assumptions C19_valid_zero_copy_pod.
Print Assumptions C19_valid_zero_copy_skip_packed.
Print Assumptions C19_valid_zero_copy_enum.
Print Assumptions C19_valid_unsized.
Print Assumptions C19_bound_style_irrelevant.
Print Assumptions C19_tuple_align1_sound.
Print Assumptions C19_tuple_align1_first_unbounded_refuted.
Print Assumptions C19_field_menu_align1_sound.
