(* Pinned statements of C12: re-checked on every run. *)
From SF Require Import Base.Prelude Gen.Generated Gen.Gen_c12 Rent.Ledger Rent.Init Rent.InitProofs Properties.C12.

Check (C12_source_has_repaired_topup :
  TOPUP_FIXED = true).
Check (C12_create_post :
  forall pda findp minb, (forall n, 0 <= minb n) ->
  forall shortf cfg tk sa f ib l log l' log' ni a0 fa0,
  find tk l = Some a0 -> find (f_key f) l = Some fa0 -> f_key f <> tk -> 0 <= a_lam a0 -> 0 <= a_lam fa0 ->
  init_validate true shortf pda findp minb cfg false tk sa (Ok f) ib (l, log) = Ok ((l', log'), ni) ->
  exists a1 fa1,
    find tk l' = Some a1 /\ find (f_key f) l' = Some fa1 /\ ni = true /\
    a_owner a1 = t_prog cfg /\
    a_data a1 = t_disc cfg ++ (if t_borsh cfg then zrepeat 0 (zlen ib) else ib) /\
    zlen (a_data a1) = zlen (t_disc cfg) + zlen ib /\
    borsh_held cfg ni ib a0 = (if t_borsh cfg then Some ib else None) /\
    minb (zlen (a_data a1)) <= a_lam a1 /\
    a_lam fa0 - a_lam fa1 = Z.max 0 (minb (zlen (t_disc cfg) + zlen ib) - a_lam a0) /\
    a_lam a1 - a_lam a0 = a_lam fa0 - a_lam fa1 /\
    (forall k, k <> tk -> k <> f_key f -> find k l' = find k l) /\
    total l' = total l).
Check (C12_create_post_refuted :
  exists pda findp minb shortf cfg tk sa f ib l l' log' a0 fa0 fa1,
    (forall n, 0 <= minb n) /\ find tk l = Some a0 /\ find (f_key f) l = Some fa0 /\ f_key f <> tk /\
    0 <= a_lam a0 /\ 0 <= a_lam fa0 /\
    init_validate false shortf pda findp minb cfg false tk sa (Ok f) ib (l, []) = Ok ((l', log'), true) /\
    find (f_key f) l' = Some fa1 /\
    a_lam fa0 - a_lam fa1 = 1 /\ Z.max 0 (minb (zlen (t_disc cfg) + zlen ib) - a_lam a0) = 0).
Check (C12_create_on_initialized_errs :
  forall pda findp minb, (forall n, 0 <= minb n) ->
  forall fixed shortf cfg tk sa cx w ib l log a0,
  find tk l = Some a0 ->
  (a_owner a0 <> SYS \/ a_data a0 <> []) ->
  (forall f, resolve_funder cx w = Ok f -> f_key f <> tk) ->
  exists c, init_validate fixed shortf pda findp minb cfg false tk sa (resolve_funder cx w) ib (l, log) = Err c).
Check (C12_if_needed_untouched :
  forall pda findp minb fixed shortf cfg tk sa f ib l log a0 r,
  find tk l = Some a0 -> initialized cfg a0 ->
  init_validate fixed shortf pda findp minb cfg true tk sa (Ok f) ib (l, log) = Ok r ->
  r = ((l, log), false)).
Check (C12_if_needed_skips :
  forall pda minb fixed shortf cfg tk f aseeds ib s a0,
  find tk (fst s) = Some a0 -> initialized cfg a0 ->
  init_account fixed shortf pda minb cfg true tk (Ok f) aseeds ib s = Ok (s, false)).
Check (C12_seeds_sign :
  forall pda findp minb fixed shortf cfg ifn tk sa f ib l l' log' ni sd b,
  seeds_of findp sa = Some (sd, b) -> f_key f <> tk ->
  init_validate fixed shortf pda findp minb cfg ifn tk sa (Ok f) ib (l, []) = Ok ((l', log'), ni) ->
  (match sa with SAFind _ => fst (findp sd) = tk | _ => pda (with_bump sd b) = Some tk end) /\
  Forall (cpi_seeds_ok f tk (Some (with_bump sd b))) log' /\
  (ni = true -> log' <> [])).
Check (C12_if_needed_short_refuted :
  exists pda findp minb fixed cfg tk sa f ib l a0,
    find tk l = Some a0 /\ a_owner a0 <> SYS /\ zlen (a_data a0) < zlen (t_disc cfg) /\
    init_validate fixed false pda findp minb cfg true tk sa (Ok f) ib (l, []) = Panic).
Check (C12_if_needed_short_errs :
  forall pda findp minb fixed cfg tk sa cx w ib l log a0,
  find tk l = Some a0 -> a_owner a0 <> SYS -> zlen (a_data a0) < zlen (t_disc cfg) ->
  exists c, init_validate fixed true pda findp minb cfg true tk sa (resolve_funder cx w) ib (l, log) = Err c).
Check (C12_system_program_conserves :
  forall pda c l l', sys_exec pda c l = Ok l' -> total l' = total l).

Print Assumptions C12_source_has_repaired_topup.
Print Assumptions C12_create_post.
Print Assumptions C12_create_post_refuted.
Print Assumptions C12_create_on_initialized_errs.
Print Assumptions C12_if_needed_untouched.
Print Assumptions C12_if_needed_skips.
Print Assumptions C12_seeds_sign.
Print Assumptions C12_if_needed_short_refuted.
Print Assumptions C12_if_needed_short_errs.
Print Assumptions C12_system_program_conserves.
