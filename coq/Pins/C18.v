(* Pinned statements of C18: re-checked on every run. *)
From Coq Require Import Permutation.
From SF Require Import Base.Prelude Gen.Gen_c18 Idl.IdlTypes Idl.Verifier Idl.VerifierSpec Idl.VerifierProofs Properties.C18.

Check (C18_verify_iff :
  forall mode defs, verify mode defs = Ok tt <-> Sound mode defs).
Check (C18_rule_sound :
  forall mode defs r, verify mode defs = Err r -> Violates r mode defs).
Check (C18_order_independent :
  forall mode defs defs', Permutation defs defs' -> (verify mode defs = Ok tt <-> verify mode defs' = Ok tt)).
Check (C18_outcome :
  forall mode defs, verify mode defs = Ok tt \/ exists r, verify mode defs = Err r /\ In r (map snd RULE_IDS)).
Check (C18_walk_exact :
  forall cur idx mode, verify_definition cur idx mode = all_ok (check_pos cur idx mode) (def_positions cur)).
Check (C18_violates_unsound :
  forall r mode defs, Violates r mode defs -> ~ Sound mode defs).
Check (C18_sound_or_violates :
  forall mode defs, Sound mode defs \/ exists r, Violates r mode defs).

Print Assumptions C18_verify_iff.
Print Assumptions C18_rule_sound.
Print Assumptions C18_order_independent.
Print Assumptions C18_outcome.
Print Assumptions C18_walk_exact.
Print Assumptions C18_violates_unsound.
Print Assumptions C18_sound_or_violates.
