(* Pinned statements of C07: re-checked on every run so that no theorem is quietly weakened. *)
From SF Require Import Base.Prelude Gen.Generated Account.AccountInfo Account.AccountInfoProofs Properties.C07.

Check (C07_range_is_alloc :
  forall orig s, Inv orig s -> data_mut_range_end (s_hdr s) = orig + MAX_INC).
Check (C07_reachable_no_panic :
  forall lw v w ops, shape_ok lw v -> size_ok (value_size lw v) ->
    Inv (value_size lw v) (fst (run (init_st lw v w) ops)) /\
    Forall (fun ob => ob <> [2]) (snd (run (init_st lw v w) ops))).
Check (C07_step_inv :
  forall orig s o, size_ok orig -> Inv orig s -> Inv orig (fst (step s o)) /\ snd (step s o) <> [2]).
Check (C07_reborrow_mut_ok :
  forall orig s, Inv orig s -> h_writable (s_hdr s) = true -> s_excl s = None -> s_nsh s = 0 ->
    snd (step s OBorrowMut) = [0] /\ s_excl (fst (step s OBorrowMut)) = Some (orig + MAX_INC)).
Check (C07_reborrow_shared_ok :
  forall orig s, Inv orig s -> s_excl s = None -> s_nsh s < 7 -> snd (step s OBorrowSh) = [0]).
Check (C07_read_observes_current :
  forall orig s, Inv orig s -> (s_excl s <> None \/ 0 < s_nsh s) ->
    step s ORead = (s, 0 :: value_size (s_lw s) (s_val s) :: observe_value (s_val s))).
Check (C07_growth_within_allowance_ok :
  forall orig s r i f n b,
    size_ok orig -> Inv orig s -> s_excl s = Some r -> nth_error (s_val s) i = Some f ->
    0 < n -> (s_lw s = 4 -> zlen f + n <= U32_MAX) ->
    value_size (s_lw s) (s_val s) + n <= orig + MAX_INC ->
    snd (step s (OPush i n b)) = [0] /\
    s_val (fst (step s (OPush i n b))) = set_nth i (f ++ zrepeat b n) (s_val s) /\
    h_dlen (s_hdr (fst (step s (OPush i n b)))) = value_size (s_lw s) (s_val s) + n).
Check (C07_over_allowance_is_error :
  forall orig s r i f n b,
    size_ok orig -> Inv orig s -> s_excl s = Some r -> nth_error (s_val s) i = Some f ->
    0 < n -> (s_lw s = 4 -> zlen f + n <= U32_MAX) ->
    orig + MAX_INC < value_size (s_lw s) (s_val s) + n ->
    step s (OPush i n b) = (s, [1; PE_INVALID_ACCOUNT_DATA_REALLOC])).
Check (C07_overlap_refused :
  forall orig s, Inv orig s ->
  (s_excl s <> None -> step s OBorrowMut = (s, [1; E_BORROW]) /\ step s OBorrowSh = (s, [1; E_BORROW])) /\
  (0 < s_nsh s -> step s OBorrowMut = (s, [1; E_BORROW])) /\
  (s_nsh s = 7 -> step s OBorrowSh = (s, [1; E_BORROW]))).
Check (C07_readonly_refused :
  forall s, h_writable (s_hdr s) = false -> step s OBorrowMut = (s, [1; E_BORROW])).
(* the definitions the statements rest on, pinned as well *)
Check (eq_refl : data_mut_range_end = fun h => h_dlen h + MAX_INC - h_delta h).
Check (eq_refl : MAX_INC = 10240).
Check (eq_refl : value_size = fun lw v => DISC_W + zsum (map (field_size lw) v)).
Check (eq_refl : field_size = fun lw f => lw + zlen f).
Check (eq_refl : shape_ok = fun lw v => 0 < lw \/ (lw = 0 /\ (length v <= 1)%nat)).

Print Assumptions C07_range_is_alloc.
Print Assumptions C07_reachable_no_panic.
Print Assumptions C07_step_inv.
Print Assumptions C07_reborrow_mut_ok.
Print Assumptions C07_reborrow_shared_ok.
Print Assumptions C07_read_observes_current.
Print Assumptions C07_growth_within_allowance_ok.
Print Assumptions C07_over_allowance_is_error.
Print Assumptions C07_overlap_refused.
Print Assumptions C07_readonly_refused.
