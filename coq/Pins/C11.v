(* Pinned statements of C11: re-checked on every run. *)
From SF Require Import Base.Prelude Gen.Generated Gen.Gen_c11 Dispatch.ReqOrder Dispatch.ReqOrderProofs Dispatch.Dispatch Dispatch.DispatchProofs Dispatch.Lifecycle Dispatch.LifecycleProofs Dispatch.RunC11 Properties.C11.
From Coq Require Import Permutation.

Check (C11_dispatch_exact :
  forall w align1 ds aligned data,
  NoDup ds -> Forall (fun d => length d = w) ds -> align1 || aligned = true ->
  forall i, (i < length ds)%nat ->
    (dispatch w align1 ds aligned data = Ok (i, skipn w data) <-> firstn w data = nth i ds [])).
Check (C11_dispatch_total :
  forall w align1 ds aligned data,
  (exists i, (i < length ds)%nat /\ dispatch w align1 ds aligned data = Ok (i, skipn w data) /\
             firstn w data = nth i ds [] /\ (w <= length data)%nat) \/
  (exists c, dispatch w align1 ds aligned data = Err c /\
     (c = PE_INVALID_INSTRUCTION_DATA \/ c = EC_ADVANCE_ERROR \/ c = EC_POD_CAST_ERROR))).
Check (C11_entrypoint_selected :
  forall H p aligned data nacc armed i ix,
  NoDup (program_discs H p) ->
  Forall (fun d => length d = disc_width (p_mode p)) (program_discs H p) ->
  mode_align1 (p_mode p) || aligned = true ->
  (i < length (program_discs H p))%nat -> nth_error (p_ixs p) i = Some ix ->
  firstn (disc_width (p_mode p)) data = nth i (program_discs H p) [] ->
  entrypoint H p aligned data nacc armed =
  strip (process_from_raw armed ix (skipn (disc_width (p_mode p)) data) nacc)).
Check (C11_entrypoint_rejected :
  forall H p aligned data nacc armed,
  (forall i, (i < length (program_discs H p))%nat ->
     firstn (disc_width (p_mode p)) data <> nth i (program_discs H p) []) ->
  exists c, entrypoint H p aligned data nacc armed = ([], Err c)).
Check (C11_phases_ordered :
  forall (S : Type) (ps : list (Z * phase S)) (s : S),
  (entered ps s = map fst ps /\ exists s', snd (seq_phases (map snd ps) s) = Ok s') \/
  (exists pre tag p post t1 s1,
      ps = pre ++ (tag, p) :: post /\
      seq_phases (map snd pre) s = (t1, Ok s1) /\
      failed (snd (p s1)) /\
      seq_phases (map snd ps) s = (t1 ++ fst (p s1), snd (p s1)) /\
      entered ps s = map fst pre ++ [tag])).
Check (C11_phases_once :
  forall (S : Type) (ps : list (Z * phase S)) (s : S),
  NoDup (map fst ps) -> NoDup (entered ps s)).
Check (C11_ix_phases_ordered :
  forall armed ix data nacc,
  exists rest, [PH_ARGS; PH_DECODE; PH_VALIDATE; PH_PROCESS; PH_CLEANUP] = entered (ix_phases armed ix data) nacc ++ rest).
Check (C11_lifecycle_cut :
  forall armed ix data nacc,
  let full := decode_steps (ix_accounts ix) ++ validate_steps (ix_accounts ix) ++
              [SEvent (ix_process_ev ix)] ++ cleanup_steps (ix_accounts ix) in
  ((length data < ix_args_len ix)%nat /\ process_from_raw armed ix data nacc = ([], Err EC_IO_ERROR)) \/
  ((ix_args_len ix <= length data)%nat /\ unarmed armed full /\ (ndec full <= nacc)%nat /\
     process_from_raw armed ix data nacc = (map step_ev full, Ok (nacc - ndec full)%nat)) \/
  ((ix_args_len ix <= length data)%nat /\
   exists pre s post, full = pre ++ s :: post /\ unarmed armed pre /\ (ndec pre <= nacc)%nat /\
     ((exists c, armed_code armed (step_ev s) = Some c /\ (ndec (pre ++ [s]) <= nacc)%nat /\
         process_from_raw armed ix data nacc = (map step_ev pre ++ [step_ev s], Err c)) \/
      (exists ev, s = SDecode ev /\ ndec pre = nacc /\
         process_from_raw armed ix data nacc = (map step_ev pre, Err EC_ADVANCE_ERROR))))).
Check (C11_order_correct :
  forall (fields : list nat) (req : nat -> list nat),
  NoDup fields -> closed fields req -> acyclic fields req ->
  Permutation (order_fixed req fields) fields /\
  NoDup (order_fixed req fields) /\
  (forall f r, In f fields -> In r (req f) -> before r f (order_fixed req fields))).
Check (C11_order_once :
  forall fields req f,
  NoDup fields -> closed fields req -> acyclic fields req ->
  count_occ Nat.eq_dec (order_fixed req fields) f = count_occ Nat.eq_dec fields f /\
  (In f fields -> count_occ Nat.eq_dec (order_fixed req fields) f = 1%nat)).
Check (C11_order_default :
  forall fields req, (forall f, req f = []) -> order_fixed req fields = fields).
Check (C11_order_first_ready :
  forall req placed pending f rest,
  pick req placed pending = Some (f, rest) ->
  exists l1 l2, pending = l1 ++ f :: l2 /\ rest = l1 ++ l2 /\
    (forall r, In r (req f) -> In r placed) /\
    (forall g, In g l1 -> exists r, In r (req g) /\ ~ In r placed)).
Check (C11_order_shipped_refuted :
  exists fields req, NoDup fields /\ closed fields req /\ acyclic fields req /\
    ~ (forall f r, In f fields -> In r (req f) -> before r f (order_shipped req fields))).
Check (C11_validate_once :
  forall id hb he hc fs req,
  Permutation (validate_steps (Node id hb he hc fs req))
              (opt_step hb (EV_BEFORE + id) ++ concat (map validate_steps fs) ++ opt_step he (EV_EXTRA + id))).
Check (C11_validate_after_required :
  forall id hb he hc fs req i j,
  closed (seq 0 (length fs)) (req_of req) -> acyclic (seq 0 (length fs)) (req_of req) ->
  (i < length fs)%nat -> In j (req_of req i) ->
  exists s1 s2 s3,
    validate_steps (Node id hb he hc fs req) =
    s1 ++ validate_steps (nth j fs (Leaf 0)) ++ s2 ++ validate_steps (nth i fs (Leaf 0)) ++ s3).
Check (C11_validate_default :
  forall id hb he hc fs req,
  (forall f, req_of req f = []) ->
  validate_steps (Node id hb he hc fs req) =
  opt_step hb (EV_BEFORE + id) ++ concat (map validate_steps fs) ++ opt_step he (EV_EXTRA + id)).
Check (C11_source_ties :
  C11_SIGHASH_NAMESPACE ++ [C11_SIGHASH_SEP] = global_prefix /\
  (forall H name, sighash H name = firstn (Z.to_nat C11_SIGHASH_LEN) (H (sighash_preimage name))) /\
  Z.of_nat (disc_width DSighash) = C11_DEFAULT_DISC_WIDTH /\
  (forall offset disc, sfe_code offset disc = offset * 2 ^ C11_SFE_SHIFT + disc) /\
  (forall vs, enum_discs vs C11_ENUM_DISC_START = enum_discs vs 0) /\ C11_ENUM_DISC_STEP = 1 /\
  C11_PHASE_ORDER = [PH_ARGS; PH_DECODE; PH_VALIDATE; PH_PROCESS; PH_CLEANUP] /\
  (forall armed ix data, map fst (ix_phases armed ix data) = C11_PHASE_ORDER)).

Print Assumptions C11_dispatch_exact.
Print Assumptions C11_dispatch_total.
Print Assumptions C11_entrypoint_selected.
Print Assumptions C11_entrypoint_rejected.
Print Assumptions C11_phases_ordered.
Print Assumptions C11_phases_once.
Print Assumptions C11_ix_phases_ordered.
Print Assumptions C11_lifecycle_cut.
Print Assumptions C11_order_correct.
Print Assumptions C11_order_once.
Print Assumptions C11_order_default.
Print Assumptions C11_order_first_ready.
Print Assumptions C11_order_shipped_refuted.
Print Assumptions C11_validate_once.
Print Assumptions C11_validate_after_required.
Print Assumptions C11_validate_default.
Print Assumptions C11_source_ties.
