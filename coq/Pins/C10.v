(* Pinned statements of C10: re-checked on every run. *)
From SF Require Import Base.Prelude Gen.Generated Seeds.Seeds Seeds.SeedsProofs Properties.C10.

Check (C10_find_spec :
  forall (H : list Z -> list Z) (on_curve : list Z -> bool) l pid k b,
    find_pda H on_curve l pid = Some (k, b) <->
    1 <= b <= 255 /\ create_pda H on_curve (l ++ [[b]]) pid = Ok k /\
    forall b', b < b' <= 255 -> create_pda H on_curve (l ++ [[b']]) pid = Err PE_INVALID_SEEDS).
Check (C10_create_spec :
  forall (H : list Z -> list Z) (on_curve : list Z -> bool) seeds pid k,
    create_pda H on_curve seeds pid = Ok k <->
    zlen seeds <= 16 /\ Forall (fun s => zlen s <= 32) seeds /\
    k = H (concat seeds ++ pid ++ PDA_MARKER) /\ on_curve k = false).
Check (C10_seeds_ok :
  forall (H : list Z -> list Z) (on_curve : list Z -> bool) l pid key b,
    validate_and_set_seeds H on_curve None l pid key = Ok (Some (l, b)) <-> find_pda H on_curve l pid = Some (key, b)).
Check (C10_seeds_outcomes :
  forall (H : list Z -> list Z) (on_curve : list Z -> bool) l pid key,
    match validate_and_set_seeds H on_curve None l pid key with
    | Ok st => exists b, st = Some (l, b) /\ find_pda H on_curve l pid = Some (key, b)
    | Err c => c = EC_ADDRESS_MISMATCH /\ exists a b, find_pda H on_curve l pid = Some (a, b) /\ a <> key
    | Panic => find_pda H on_curve l pid = None
    | Fault => False
    end).
Check (C10_bump_ok :
  forall (H : list Z -> list Z) (on_curve : list Z -> bool) l b pid key,
    validate_and_set_seeds_with_bump H on_curve None l b pid key = Ok (Some (l, b)) <->
    create_pda H on_curve (with_bump l b) pid = Ok key).
Check (C10_bump_outcomes :
  forall (H : list Z -> list Z) (on_curve : list Z -> bool) l b pid key,
    match validate_and_set_seeds_with_bump H on_curve None l b pid key with
    | Ok st => st = Some (l, b) /\ create_pda H on_curve (with_bump l b) pid = Ok key
    | Err c => (c = EC_ADDRESS_MISMATCH /\ exists a, create_pda H on_curve (with_bump l b) pid = Ok a /\ a <> key) \/
               create_pda H on_curve (with_bump l b) pid = Err c
    | _ => False
    end).
Check (C10_validated_once :
  forall (H : list Z -> list Z) (on_curve : list Z -> bool) st0 l b pid key,
    validate_and_set_seeds H on_curve (Some st0) l pid key = Ok (Some st0) /\
    validate_and_set_seeds_with_bump H on_curve (Some st0) l b pid key = Ok (Some st0)).
Check (C10_signer_agrees :
  forall (H : list Z -> list Z) (on_curve : list Z -> bool) l b pid key st,
    validate_and_set_seeds H on_curve None l pid key = Ok st \/
    validate_and_set_seeds_with_bump H on_curve None l b pid key = Ok st ->
    exists ss, signer_seeds st = Ok ss /\ create_pda H on_curve ss pid = Ok key).
Check (C10_empty_elided :
  forall (l r : list (list Z)), concat (l ++ [[]] ++ r) = concat (l ++ r)).
Check (C10_create_elide :
  forall (H : list Z -> list Z) (on_curve : list Z -> bool) l r pid,
    zlen (l ++ [[]] ++ r) <= 16 -> create_pda H on_curve (l ++ [[]] ++ r) pid = create_pda H on_curve (l ++ r) pid).
Check (C10_find_elide :
  forall (H : list Z -> list Z) (on_curve : list Z -> bool) l pid,
    zlen l <= 14 -> find_pda H on_curve (l ++ [[]]) pid = find_pda H on_curve l pid).
Check (C10_find_limit :
  forall (H : list Z -> list Z) (on_curve : list Z -> bool) l pid,
    16 <= zlen l -> find_pda H on_curve l pid = None).
Check (C10_with_bump_cases :
  forall l b,
    (exists l', l = l' ++ [[]] /\ with_bump l b = l' ++ [[b]]) \/
    ((forall l', l <> l' ++ [[]]) /\ with_bump l b = l ++ [[b]])).
Check (C10_client_agrees :
  forall (H : list Z -> list Z) (on_curve : list Z -> bool) l b pid key st,
    (validate_and_set_seeds H on_curve None l pid key = Ok st ->
       exists b0, st = Some (l, b0) /\ client_find H on_curve l pid = Ok (key, b0) /\
                  client_create H on_curve l b0 pid = Ok key) /\
    (validate_and_set_seeds_with_bump H on_curve None l b pid key = Ok st ->
       st = Some (l, b) /\ client_create H on_curve l b pid = Ok key)).
Check (C10_client_same_calls :
  forall (H : list Z -> list Z) (on_curve : list Z -> bool) l b pid,
    client_find H on_curve l pid = find_program_address H on_curve l pid /\
    client_create H on_curve l b pid = create_pda H on_curve (with_bump l b) pid).
Check (C10_client_shipped_agrees :
  forall (H : list Z -> list Z) (on_curve : list Z -> bool) l b pid,
    zlen l <= 15 -> client_create_shipped H on_curve l b pid = client_create H on_curve l b pid).
Check (C10_client_shipped_refuted :
  forall (H : list Z -> list Z) (on_curve : list Z -> bool) l' b pid,
    zlen l' = 15 -> Forall (fun s => zlen s <= 32) l' -> 0 <= b < 256 ->
    client_create_shipped H on_curve (l' ++ [[]]) b pid = Err PE_MAX_SEED_LENGTH_EXCEEDED /\
    (on_curve (H (concat (l' ++ [[b]]) ++ pid ++ PDA_MARKER)) = false ->
     exists key, validate_and_set_seeds_with_bump H on_curve None (l' ++ [[]]) b pid key = Ok (Some (l' ++ [[]], b)) /\
                 signer_seeds (Some (l' ++ [[]], b)) = Ok (l' ++ [[b]]) /\
                 create_pda H on_curve (l' ++ [[b]]) pid = Ok key)).
Check (C10_field_encoding :
  forall S,
    seeds_of S = const_seed (s_const S) ++ map field_seed (s_fields S) ++ [[]] /\
    (forall i v, nth_error (s_fields S) i = Some v ->
       nth_error (seeds_of S) (length (const_seed (s_const S)) + i) = Some (field_seed v)) /\
    (forall c, s_const S = Some c -> nth_error (seeds_of S) 0 = Some c) /\
    (forall b, with_bump (seeds_of S) b = const_seed (s_const S) ++ map field_seed (s_fields S) ++ [[b]])).
Check (C10_int_seed_le :
  forall w n,
    length (field_seed (VInt w n)) = w /\ bytes_ok (field_seed (VInt w n)) = true /\
    (0 <= n < 256 ^ Z.of_nat w -> le_decode (field_seed (VInt w n)) = n)).
Check (C10_seeds_of_inj :
  forall S S',
    s_const S = s_const S' -> Forall2 same_ty (s_fields S) (s_fields S') ->
    seeds_of S = seeds_of S' -> S = S').

Print Assumptions C10_find_spec.
Print Assumptions C10_create_spec.
Print Assumptions C10_seeds_ok.
Print Assumptions C10_seeds_outcomes.
Print Assumptions C10_bump_ok.
Print Assumptions C10_bump_outcomes.
Print Assumptions C10_validated_once.
Print Assumptions C10_signer_agrees.
Print Assumptions C10_empty_elided.
Print Assumptions C10_create_elide.
Print Assumptions C10_find_elide.
Print Assumptions C10_find_limit.
Print Assumptions C10_with_bump_cases.
Print Assumptions C10_client_agrees.
Print Assumptions C10_client_same_calls.
Print Assumptions C10_client_shipped_agrees.
Print Assumptions C10_client_shipped_refuted.
Print Assumptions C10_field_encoding.
Print Assumptions C10_int_seed_le.
Print Assumptions C10_seeds_of_inj.
