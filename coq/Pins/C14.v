(* Pinned statements of C14: re-checked on every run. *)
From SF Require Import Base.Prelude Gen.Generated AccountSet.AccountSet AccountSet.AccountSetProofs Properties.C14.

Check (C14_decode_client :
  forall pid s lens c,
    wf_client pid s lens true c = true ->
    decode pid s lens (accounts_of (client_metas pid s c)) = Ok (dshape pid s c, [])).
Check (C14_decode_client_gen :
  forall pid s lens last c tl,
    wf_client pid s lens last c = true -> (last = true -> tl = []) ->
    decode pid s lens (accounts_of (client_metas pid s c) ++ tl) = Ok (dshape pid s c, tl)).
Check (C14_flags_suffice :
  forall pid s c, keys_valid s c = true -> validate s (dshape pid s c) = Ok tt).
Check (C14_leaf_meta_exact :
  forall mods, leaf_meta mods = (req_signer mods, req_writable mods)).
Check (C14_entry_accepts :
  forall pid s lens c,
    wf_client pid s lens true c = true -> keys_valid s c = true ->
    entry pid s lens (accounts_of (client_metas pid s c)) = Ok (dshape pid s c)).
Check (C14_cpi_eq_client :
  forall pid s c, cpi_metas pid s (dshape pid s c) = client_metas pid s c).
Check (C14_cpi_infos_client :
  forall pid s c, cpi_infos (Some pid) s (dshape pid s c) = IOk (map m_key (client_metas pid s c))).
Check (C14_no_option_no_program :
  forall s, contains_option s = false -> forall p d, cpi_infos None s d = cpi_infos (Some p) s d).
Check (C14_cpi_static_count :
  forall pid s lens last c,
    wf_client pid s lens last c = true -> declared_len s < DYNAMIC_LEN ->
    zlen (client_metas pid s c) = declared_len s).
Check (C14_cpi_invoke_client :
  forall pid s lens c,
    wf_client pid s lens true c = true ->
    declared_len s <= 63 \/ (declared_len s = DYNAMIC_LEN /\ zlen (client_metas pid s c) <= DYNAMIC_CAP) ->
    cpi_invoke pid s (dshape pid s c) = Ok (client_metas pid s c, map m_key (client_metas pid s c))).
Check (C14_cpi_dynamic_bound :
  forall pid s lens c,
    wf_client pid s lens true c = true -> declared_len s = DYNAMIC_LEN ->
    DYNAMIC_CAP < zlen (client_metas pid s c) -> cpi_invoke pid s (dshape pid s c) = Panic).
Check (C14_cpi_invoke_counts :
  forall pid s d ms ks,
    cpi_invoke pid s d = Ok (ms, ks) ->
    zlen ms = zlen ks /\ (declared_len s <> DYNAMIC_LEN -> zlen ms = declared_len s) /\
    (declared_len s = DYNAMIC_LEN -> zlen ms <= DYNAMIC_CAP) /\ ms = cpi_metas pid s d).
Check (C14_cpi_no_excess :
  forall pid s d, Forall (meta_allowed s) (cpi_metas pid s d)).

Print Assumptions C14_decode_client.
Print Assumptions C14_decode_client_gen.
Print Assumptions C14_flags_suffice.
Print Assumptions C14_leaf_meta_exact.
Print Assumptions C14_entry_accepts.
Print Assumptions C14_cpi_eq_client.
Print Assumptions C14_cpi_infos_client.
Print Assumptions C14_no_option_no_program.
Print Assumptions C14_cpi_static_count.
Print Assumptions C14_cpi_invoke_client.
Print Assumptions C14_cpi_dynamic_bound.
Print Assumptions C14_cpi_invoke_counts.
Print Assumptions C14_cpi_no_excess.
