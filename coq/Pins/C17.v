(* Pinned statements of C17: re-checked on every run. *)
From SF Require Import Base.Prelude Unsized.Types Gen.Gen_c17 IdlSem.IdlSem IdlSem.IdlSemProofs IdlSem.Accounts IdlSem.AccountsProofs Properties.C17.

Check (C17_layout_faithful :
  forall s v, sty_ok true s = true -> wf (erase s) v = true ->
    idl_decodes (type_defs s) (type_to_idl s) (encode (erase s) v) (embed s v) []).
Check (C17_layout_faithful_prefix :
  forall s v defs0 rest, sty_ok false s = true -> wf (erase s) v = true ->
    idl_decodes (snd (to_idl s defs0)) (fst (to_idl s defs0)) (encode (erase s) v ++ rest) (embed s v) rest).
Check (C17_layout_functional :
  forall defs t bs v r v' r', idl_decodes defs t bs v r -> idl_decodes defs t bs v' r' -> v = v' /\ r = r').
Check (C17_layout_run :
  forall defs t bs v r f v' r', idl_decodes defs t bs v r -> idl_decode f defs t bs = Some (v', r') -> v = v' /\ r = r').
Check (C17_offsets_gap_free :
  forall it items i o, nth_error (offsets_from 0 (item_sizes it items)) i = Some o ->
    o = zsum (firstn i (item_sizes it items))).
Check (C17_skip_struct_prefix :
  forall fs k defs0 bs, forallb fix_ok fs = true ->
    length bs = fsizes (map erase_fix fs) -> fvalids (map erase_fix fs) bs = true ->
    idl_decodes (snd (skip_struct_to_idl fs k defs0)) (fst (skip_struct_to_idl fs k defs0)) bs
      (IVStruct (firstn k (embed_fixes fs bs))) (skipn (fixes_size (firstn k fs)) bs)).
Check (C17_skip_enum_prefix :
  forall vs defs0 d fs k bs, skip_variants_ok vs = true -> find_skip_variant d vs = Some (Some (fs, k)) ->
    length bs = fsizes (map erase_fix fs) -> fvalids (map erase_fix fs) bs = true ->
    idl_decodes (snd (skip_enum_to_idl vs defs0)) (fst (skip_enum_to_idl vs defs0)) (d :: bs)
      (IVEnum d (Some (IVStruct (firstn k (embed_fixes fs bs))))) (skipn (fixes_size (firstn k fs)) bs)).
Check (C17_skip_enum_unit :
  forall vs defs0 d rest, skip_variants_ok vs = true -> find_skip_variant d vs = Some None ->
    idl_decodes (snd (skip_enum_to_idl vs defs0)) (fst (skip_enum_to_idl vs defs0)) (d :: rest) (IVEnum d None) rest).
Check (C17_skip_hole_refuted :
  exists fs k bs v r,
    forallb fix_ok fs = true /\ length bs = fsizes (map erase_fix fs) /\ fvalids (map erase_fix fs) bs = true /\
    idl_decode 10 (snd (hole_struct_to_idl fs k [])) (fst (hole_struct_to_idl fs k [])) bs = Some (IVStruct v, r) /\
    nth_error v k <> nth_error (embed_fixes fs bs) (S k)).
Check (C17_accounts_faithful :
  forall c pid ixs a, In a ixs -> ok c pid a = true -> consistent (program_defs c pid ixs) ->
    forall ts ms r, client_metas c pid a ts = Some (ms, r) ->
      exists F, forall f, (F <= f)%nat -> flatten f pid (program_defs c pid ixs) (idl_of c pid a) ts = Some (ms, r)).
Check (C17_accounts_consistent :
  forall c pid ixs, key_full c = true -> type_identity ixs -> consistent (program_defs c pid ixs)).
Check (C17_accounts_faithful_source :
  forall pid ixs a, In a ixs -> ok SOURCE_CFG pid a = true -> consistent (program_defs SOURCE_CFG pid ixs) ->
    forall ts ms r, client_metas SOURCE_CFG pid a ts = Some (ms, r) ->
      exists F, forall f, (F <= f)%nat ->
        flatten f pid (program_defs SOURCE_CFG pid ixs) (idl_of SOURCE_CFG pid a) ts = Some (ms, r)).
Check (C17_accounts_generic_refuted :
  exists pid ixs a ts ms ms', In a ixs /\ ok SHIPPED pid a = true /\
    client_metas SHIPPED pid a ts = Some (ms, []) /\
    flatten 10 pid (program_defs SHIPPED pid ixs) (idl_of SHIPPED pid a) ts = Some (ms', []) /\ ms <> ms').
Check (C17_accounts_option_refuted :
  exists pid a ts ms ms', client_metas SHIPPED pid a ts = Some (ms, []) /\
    flatten 10 pid (program_defs SHIPPED pid [a]) (idl_of SHIPPED pid a) ts = Some (ms', []) /\ length ms <> length ms').
Check (C17_accounts_false_modifier_refuted :
  exists pid a ts ms ms', client_metas SHIPPED pid a ts = Some (ms, []) /\
    flatten 10 pid [] (idl_of SHIPPED pid a) ts = Some (ms', []) /\ ms <> ms').
Check (C17_codama_accounts_order :
  forall f t i accs rems, lower f t false i = Some (accs, rems) -> singles (S f) t i = Some (accs ++ rems)).
Check (C17_codama_discriminant :
  forall bits bs n, discriminant_to_usize bits bs = Some n -> n = le_decode bs).
Check (C17_codama_discriminant_total :
  forall bs, (length bs <= 8)%nat -> discriminant_to_usize false bs = Some (le_decode bs)).
Check (C17_codama_discriminant_bits_refuted :
  forall bs, (2 <= length bs)%nat -> discriminant_to_usize true bs = None).

Print Assumptions C17_layout_faithful.
Print Assumptions C17_layout_faithful_prefix.
Print Assumptions C17_layout_functional.
Print Assumptions C17_layout_run.
Print Assumptions C17_offsets_gap_free.
Print Assumptions C17_skip_struct_prefix.
Print Assumptions C17_skip_enum_prefix.
Print Assumptions C17_skip_enum_unit.
Print Assumptions C17_skip_hole_refuted.
Print Assumptions C17_accounts_faithful.
Print Assumptions C17_accounts_consistent.
Print Assumptions C17_accounts_faithful_source.
Print Assumptions C17_accounts_generic_refuted.
Print Assumptions C17_accounts_option_refuted.
Print Assumptions C17_accounts_false_modifier_refuted.
Print Assumptions C17_codama_accounts_order.
Print Assumptions C17_codama_discriminant.
Print Assumptions C17_codama_discriminant_total.
Print Assumptions C17_codama_discriminant_bits_refuted.
