(* Pinned statements of C06: re-checked on every run. *)
From SF Require Import Base.Prelude Gen.Generated Unsized.Types Unsized.Parse Unsized.Machine Unsized.Ops Unsized.Run Unsized.Proofs.EncodeParse Unsized.Proofs.Mem Unsized.Proofs.Notify Unsized.Proofs.Flat Unsized.Proofs.Layout Unsized.Proofs.Observe Unsized.Proofs.Path Unsized.Proofs.Context Unsized.Proofs.FocusOps Unsized.Proofs.NotifyInside Unsized.Proofs.Resize Unsized.Proofs.GenOps Unsized.Proofs.History Unsized.Proofs.Init Unsized.Proofs.History2 Unsized.Proofs.ExecTie Unsized.Proofs.ExecTie2 Unsized.Proofs.Keyed Unsized.Proofs.NotifyInside2 Unsized.Proofs.SetData Unsized.Proofs.History3 Unsized.Proofs.History4 Unsized.Proofs.InitFail Unsized.Proofs.StringSet Unsized.Proofs.Context Properties.C06.

Check (C06_all_ops_continue_after_failures :
  forall ovf t h v s top pi0 v' l,
    RepF pi0 t v s top -> m_refuse s <> 1 -> orunXE (m_cap s) (m_refuse s) t v h = Some (v', l) ->
    exists s' top' pi', mrunXE ovf t s top h = Ok (s', top', l) /\ RepF pi' t v' s' top').
Check (C06_all_ops_failure_is_clean :
  forall ovf t v s top pi0 o code,
    RepF pi0 t v s top -> oerrX (m_cap s) (m_refuse s) t v o = Some code ->
    exists top1, menter ovf t s top [] (xfocus o) = Ok top1 /\
      (mopX t s top1 o = Err code /\ RepF (xfocus o) t v s top1 \/
       (exists top0, mopX t s top1 o = Ok (s, top0, [-1; code]) /\ RepF (xfocus o) t v s top0))).
Check (C06_general_failure_is_clean :
  forall ovf t v s top pi0 o code,
    RepF pi0 t v s top -> oerrG (m_cap s) (m_refuse s) t v o = Some code ->
    exists top1, menter ovf t s top [] (focus_of o) = Ok top1 /\ mopG t s top1 o = Err code /\
                 RepF (focus_of o) t v s top1).
Check (C06_general_continue_after_failures :
  forall ovf t h v s top pi0 v' l,
    RepF pi0 t v s top -> m_refuse s <> 1 -> orunE (m_cap s) (m_refuse s) t v h = Some (v', l) ->
    exists s' top' pi', mrunE ovf t s top h = Ok (s', top', l) /\ RepF pi' t v' s' top').
Check (C06_flat_growth_refused_is_clean :
  forall tsA tsB vsA vsB c lw items, length tsA = length vsA -> forall s top idx new,
    Rep (tsA ++ TList c lw :: tsB) (vsA ++ VList items :: vsB) s top ->
    0 <= idx <= zlen items -> zlen items + zlen new < 256 ^ Z.of_nat lw -> new <> [] ->
    (m_refuse s = 1 \/ m_cap s < m_len s + Z.of_nat (fsize c) * zlen new) ->
    list_insert (TStruct (tsA ++ TList c lw :: tsB)) s top [PF (length tsA)] idx new = Err E_REALLOC).
Check (C06_flat_index_error_is_clean :
  forall tsA tsB vsA vsB c lw items, length tsA = length vsA -> forall s top idx new,
    Rep (tsA ++ TList c lw :: tsB) (vsA ++ VList items :: vsB) s top -> zlen items < idx ->
    list_insert (TStruct (tsA ++ TList c lw :: tsB)) s top [PF (length tsA)] idx new = Err E_INDEX).
Check (C06_flat_prefix_overflow_is_clean :
  forall tsA tsB vsA vsB c lw items, length tsA = length vsA -> forall s top idx new,
    Rep (tsA ++ TList c lw :: tsB) (vsA ++ VList items :: vsB) s top -> idx <= zlen items ->
    256 ^ Z.of_nat lw <= zlen items + zlen new ->
    list_insert (TStruct (tsA ++ TList c lw :: tsB)) s top [PF (length tsA)] idx new = Err E_TOPRIM).
Check (C06_flat_remove_errors_are_clean :
  forall tsA tsB vsA vsB c lw items, length tsA = length vsA -> forall s top st en,
    Rep (tsA ++ TList c lw :: tsB) (vsA ++ VList items :: vsB) s top ->
    (en < st -> list_remove (TStruct (tsA ++ TList c lw :: tsB)) s top [PF (length tsA)] st en = Err E_RANGE) /\
    (st <= en -> zlen items < en -> list_remove (TStruct (tsA ++ TList c lw :: tsB)) s top [PF (length tsA)] st en = Err E_INDEX)).
Check (C06_flat_continue_after_failure :
  forall ts vs s top o c h vs',
    Rep ts vs s top -> m_refuse s <> 1 -> mstep ts s top o = Err c ->
    orun (m_cap s) ts vs h = Some vs' ->
    ztake (m_len s) (m_mem s) = encode (TStruct ts) (VStruct vs) /\
    exists s', mrun ts s top h = Ok (s', PStruct (lay ts vs' 0)) /\ Rep ts vs' s' (PStruct (lay ts vs' 0))).
Check (C06_realloc_refusal_precedes_writes :
  forall s n, m_len s < n -> m_refuse s = 1 -> realloc s n = Err E_REALLOC).
Check (C06_failing_initializer_refuted :
  ~ (forall t v s top ps idx kind keys s' top' c,
       wf t v = true -> ztake (m_len s) (m_mem s) = encode t v ->
       get_ptr true t (m_mem s) 0 (m_len s) = Ok (top, m_len s) ->
       ulist_insert t s top ps idx kind keys = Ok (s', top', [-1; c]) ->
       ztake (m_len s') (m_mem s') = encode t v)).
Check (C06_string_set_failure_leaves_a_value :
  forall ovf t v s top pi0 pi c lw old bs,
    RepF pi0 t v s top -> resolve t v pi = Some (TStruct [TList c lw], VStruct [VList old]) ->
    256 ^ Z.of_nat lw <= zlen bs ->
    exists s' top' pi', mstepStr ovf t s top pi bs = Ok (s', top', [-1; E_TOPRIM]) /\
                        RepF pi' t (plug t v pi (VStruct [VList []])) s' top' /\
                        m_cap s' = m_cap s /\ m_refuse s' = m_refuse s).

Print Assumptions C06_all_ops_continue_after_failures.
Print Assumptions C06_all_ops_failure_is_clean.
Print Assumptions C06_general_failure_is_clean.
Print Assumptions C06_general_continue_after_failures.
Print Assumptions C06_flat_growth_refused_is_clean.
Print Assumptions C06_flat_index_error_is_clean.
Print Assumptions C06_flat_prefix_overflow_is_clean.
Print Assumptions C06_flat_remove_errors_are_clean.
Print Assumptions C06_flat_continue_after_failure.
Print Assumptions C06_realloc_refusal_precedes_writes.
Print Assumptions C06_failing_initializer_refuted.
Print Assumptions C06_string_set_failure_leaves_a_value.
