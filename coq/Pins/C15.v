(* Pinned statements of C15: re-checked on every run. *)
From SF Require Import Base.Prelude Gen.Generated Account.Validate Account.ValidateProofs Borsh.Codec Borsh.CodecProofs Borsh.BorshAccount Borsh.BorshAccountProofs Properties.C15.

Check (C15_persist :
  forall (T : Type) (ser : T -> list Z) (de : list Z -> option (T * list Z)) (wf : T -> Prop)
         (pid : key) (w : nat) (d : list Z),
  oracle_ok ser de wf -> prog_ok pid w d ->
  forall (a : bacct) (i : instr T) (v : T),
  acct_ok a -> instr_wf T wf i ->
  let r := exec_instr T ser de true pid w d a i in
  r_end r = IDone (Some v) -> b_owner (r_acct r) = pid -> zlen (b_data (r_acct r)) > Z.of_nat w ->
  (forall wr, try_from_accounts T de pid w d (begin_instr wr (r_acct r)) = Ok (Some v)) /\
  client_deserialize T de w d (b_data (r_acct r)) = Ok v).
Check (C15_persist_seq :
  forall (T : Type) (ser : T -> list Z) (de : list Z -> option (T * list Z)) (wf : T -> Prop)
         (pid : key) (w : nat) (d : list Z),
  oracle_ok ser de wf -> prog_ok pid w d ->
  forall (l : list (instr T)) (a : bacct) (k : nat) (r r' : iresult T) (v : T),
  acct_ok a -> Forall (instr_wf T wf) l ->
  nth_error (exec_seq T ser de true pid w d a l) k = Some r ->
  nth_error (exec_seq T ser de true pid w d a l) (S k) = Some r' ->
  r_end r = IDone (Some v) -> b_owner (r_acct r) = pid -> zlen (b_data (r_acct r)) > Z.of_nat w ->
  r_tfa r' = Ok (Some v) /\ client_deserialize T de w d (b_data (r_acct r)) = Ok v).
Check (C15_len_exact :
  forall (T : Type) (ser : T -> list Z) (de : list Z -> option (T * list Z)) (wf : T -> Prop)
         (pid : key) (w : nat) (d : list Z),
  oracle_ok ser de wf -> prog_ok pid w d ->
  forall (a : bacct) (i : instr T) (v : T),
  acct_ok a -> instr_wf T wf i ->
  let r := exec_instr T ser de true pid w d a i in
  i_wr i = true -> r_end r = IDone (Some v) -> b_owner (r_acct r) = pid -> zlen (b_data (r_acct r)) > Z.of_nat w ->
  b_data (r_acct r) = d ++ ser v /\ zlen (b_data (r_acct r)) = Z.of_nat w + zlen (ser v)).
Check (C15_no_write :
  forall (T : Type) (ser : T -> list Z) (pid : key) (w : nat) (d : list Z),
  prog_ok pid w d ->
  forall (fixed : bool) (a : bacct) (ov : option T),
  b_writable a = false \/ b_owner a <> pid \/ zlen (b_data a) <= Z.of_nat w ->
  serialize T ser fixed pid w a ov = Ok a).
Check (C15_no_write_readonly :
  forall (T : Type) (ser : T -> list Z) (de : list Z -> option (T * list Z)) (pid : key) (w : nat) (d : list Z),
  prog_ok pid w d ->
  forall (fixed : bool) (a : bacct) (i : instr T),
  i_wr i = false -> i_close i = false -> ~ In OClose (i_ops i) ->
  b_data (r_acct (exec_instr T ser de fixed pid w d a i)) = b_data a).
Check (C15_no_write_rejected :
  forall (T : Type) (ser : T -> list Z) (de : list Z -> option (T * list Z)) (pid : key) (w : nat) (d : list Z),
  prog_ok pid w d ->
  forall (fixed : bool) (a : bacct) (i : instr T),
  acct_ok a -> b_owner a <> pid \/ firstn w (b_data a) <> d ->
  let r := exec_instr T ser de fixed pid w d a i in
  r_end r = IRejected /\ b_data (r_acct r) = b_data a /\ b_owner (r_acct r) = b_owner a).
Check (C15_size_change_ok :
  forall (T : Type) (ser : T -> list Z) (de : list Z -> option (T * list Z)) (wf : T -> Prop)
         (pid : key) (w : nat) (d : list Z),
  oracle_ok ser de wf -> prog_ok pid w d ->
  forall (vs : list T) (a : bacct) (v0 : T),
  acct_ok a -> b_owner a = pid -> good T de w d a v0 -> Forall wf vs ->
  growth_ok T ser w (zlen (b_data a)) vs -> chain T ser de pid w d a vs).
Check (C15_write_back_size :
  forall (T : Type) (ser : T -> list Z) (pid : key) (w : nat) (d : list Z),
  prog_ok pid w d ->
  forall (a : bacct) (v : T),
  b_writable a = true -> zlen (b_data a) > Z.of_nat w -> b_owner a = pid ->
  let n := Z.of_nat w + zlen (ser v) in
  (n <= I32_MAX /\ (n = zlen (b_data a) \/ b_delta a + (n - zlen (b_data a)) <= MAX_PERMITTED_DATA_INCREASE) ->
     exists a', serialize T ser true pid w a (Some v) = Ok a' /\ b_data a' = firstn w (b_data a) ++ ser v /\
                zlen (b_data a') = n) /\
  (~ (n <= I32_MAX /\ (n = zlen (b_data a) \/ b_delta a + (n - zlen (b_data a)) <= MAX_PERMITTED_DATA_INCREASE)) ->
     serialize T ser true pid w a (Some v) = Err PE_INVALID_ACCOUNT_DATA_REALLOC)).
Check (C15_growth_refused :
  forall (T : Type) (ser : T -> list Z) (de : list Z -> option (T * list Z)) (wf : T -> Prop)
         (pid : key) (w : nat) (d : list Z),
  prog_ok pid w d ->
  forall (a : bacct) (v0 v : T),
  acct_ok a -> b_owner a = pid -> good T de w d a v0 -> wf v ->
  Z.of_nat w + zlen (ser v) - zlen (b_data a) > MAX_PERMITTED_DATA_INCREASE ->
  let res := exec_instr T ser de true pid w d a (set_instr T v) in
  r_end res = ICleanupFailed PE_INVALID_ACCOUNT_DATA_REALLOC /\ b_data (r_acct res) = b_data a /\
  (forall wr, try_from_accounts T de pid w d (begin_instr wr (r_acct res)) = Ok (Some v0))).
Check (C15_instances :
  oracle_ok (c_ser c_fx) (c_de c_fx) (c_wf c_fx) /\ oracle_ok (c_ser c_bv) (c_de c_bv) (c_wf c_bv) /\
  oracle_ok (c_ser c_st) (c_de c_st) (c_wf c_st) /\ oracle_ok (c_ser c_ns) (c_de c_ns) (c_wf c_ns) /\
  oracle_ok (c_ser c_sb) (c_de c_sb) (c_wf c_sb) /\
  prog_ok PID_A 8 DISC_FX /\ prog_ok PID_A 8 DISC_BV /\ prog_ok PID_B 1 DISC_ST /\ prog_ok PID_C 4 DISC_NS /\
  prog_ok PID_A 8 DISC_SB /\ prog_ok PID_B 1 DISC_ZD).
Check (C15_noncanonical_image :
  let a := mkB PID_A true (DISC_SB ++ [4; 0; 0; 0; 9; 2; 9; 5]) 0 1000000 in
  let l := [mkInstr false false [ORead; OSerialize; OReload];
            mkInstr true false [];
            mkInstr false false [ORead]] in
  acct_ok a /\
  map (fun r => (r_tfa r, r_end r, b_data (r_acct r)))
      (exec_seq (list Z) (c_ser c_sb) (c_de c_sb) true PID_A 8 DISC_SB a l) =
  [ (Ok (Some [2; 5; 9]), IDone (Some [2; 5; 9]), DISC_SB ++ [4; 0; 0; 0; 9; 2; 9; 5]);
    (Ok (Some [2; 5; 9]), IDone (Some [2; 5; 9]), DISC_SB ++ [3; 0; 0; 0; 2; 5; 9]);
    (Ok (Some [2; 5; 9]), IDone (Some [2; 5; 9]), DISC_SB ++ [3; 0; 0; 0; 2; 5; 9]) ]).
Check (C15_persist_unrepaired_refuted :
  exists (a : bacct) (i : instr (list Z)) (v : list Z),
    acct_ok a /\ instr_wf (list Z) (c_wf c_bv) i /\
    let r := exec_instr (list Z) (c_ser c_bv) (c_de c_bv) false PID_A 8 DISC_BV a i in
    r_end r = IDone (Some v) /\ b_owner (r_acct r) = PID_A /\ zlen (b_data (r_acct r)) > 8 /\
    b_data (r_acct r) = DISC_BV ++ [1; 4; 0; 0; 0; 1; 2; 3; 4] /\
    try_from_accounts (list Z) (c_de c_bv) PID_A 8 DISC_BV (begin_instr true (r_acct r)) = Err EC_IO_ERROR /\
    client_deserialize (list Z) (c_de c_bv) 8 DISC_BV (b_data (r_acct r)) = Err EC_IO_ERROR /\
    zlen (b_data (r_acct r)) <> 8 + zlen (c_ser c_bv v)).
Check (C15_manual_serialize_keeps_the_value :
  forall (T : Type) (ser : T -> list Z) (de : list Z -> option (T * list Z)) (fixed : bool) (pid : key) (w : nat)
         (a : bacct) (ov : option T) r a' ov',
    step T ser de fixed pid w OSerialize a ov = (r, a', ov') ->
    ov' = ov /\ (forall t, ov = Some t -> step T ser de fixed pid w ORead a' ov' = (SVal t, a', ov'))).

Print Assumptions C15_persist.
Print Assumptions C15_persist_seq.
Print Assumptions C15_len_exact.
Print Assumptions C15_no_write.
Print Assumptions C15_no_write_readonly.
Print Assumptions C15_no_write_rejected.
Print Assumptions C15_size_change_ok.
Print Assumptions C15_write_back_size.
Print Assumptions C15_growth_refused.
Print Assumptions C15_instances.
Print Assumptions C15_noncanonical_image.
Print Assumptions C15_persist_unrepaired_refuted.
Print Assumptions C15_manual_serialize_keeps_the_value.
