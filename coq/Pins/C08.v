(* Pinned statements of C08: re-checked on every run. *)
From SF Require Import Base.Prelude Gen.Generated Account.Validate Account.ValidateProofs Properties.C08.

Check (C08_validate_iff :
  forall pid w d a, c08_wf pid w d a -> a_can_borrow a = true ->
    (validate_account_info pid w d a = Ok tt <-> a_owner a = pid /\ firstn w (a_data a) = d)).
Check (C08_validate_err :
  forall pid w d a,
  validate_account_info pid w d a = Ok tt \/
  exists c, validate_account_info pid w d a = Err c /\
    (c = PE_INVALID_ACCOUNT_OWNER \/ c = PE_ACCOUNT_DATA_TOO_SMALL \/ c = EC_DISCRIMINANT_MISMATCH \/
     (c = PE_ACCOUNT_BORROW_FAILED /\ a_can_borrow a = false))).
Check (C08_fastpath_exact :
  forall w d data, length d = w -> bytes_ok d = true -> bytes_ok data = true -> (w <= length data)%nat ->
    (disc_matches w d data = true <-> firstn w data = d)).
Check (C08_data_revalidates :
  forall pid w d a, a_writable a = true -> data_access pid w d a = Ok tt -> validate_account_info pid w d a = Ok tt).
Check (C08_data_mut_revalidates :
  forall pid w d a cbm, data_mut_access pid w d a cbm = Ok tt ->
    a_writable a = true /\ validate_account_info pid w d a = Ok tt).
Check (C08_data_mut_needs_writable :
  forall pid w d a cbm, a_writable a = false -> data_mut_access pid w d a cbm = Err PE_ACCOUNT_BORROW_FAILED).
Check (C08_closed_rejected :
  forall pid w d a, c08_wf pid w d a -> a_can_borrow a = true -> d <> repeat 255 w ->
    validate_account_info pid w d (close w a) <> Ok tt).

Print Assumptions C08_validate_iff.
Print Assumptions C08_validate_err.
Print Assumptions C08_fastpath_exact.
Print Assumptions C08_data_revalidates.
Print Assumptions C08_data_mut_revalidates.
Print Assumptions C08_data_mut_needs_writable.
Print Assumptions C08_closed_rejected.
