(* Pinned statements of C05: re-checked on every run. *)
From SF Require Import Base.Prelude Gen.Generated Unsized.Types Unsized.Parse Unsized.Machine Unsized.Ops Unsized.Run Unsized.Proofs.EncodeParse Unsized.Proofs.Mem Unsized.Proofs.Notify Unsized.Proofs.Flat Unsized.Proofs.Layout Unsized.Proofs.Observe Unsized.Proofs.Path Unsized.Proofs.Context Unsized.Proofs.FocusOps Unsized.Proofs.NotifyInside Unsized.Proofs.Resize Unsized.Proofs.GenOps Unsized.Proofs.History Unsized.Proofs.Init Unsized.Proofs.History2 Unsized.Proofs.ExecTie Unsized.Proofs.InitKinds Unsized.SizedInit Unsized.Proofs.SizedInitProofs Unsized.ClientAcct Unsized.Proofs.ClientAcctProofs Properties.C05.

Check (C05_encode_size :
 forall t v, wf t v = true -> zlen (encode t v) = byte_size t v).
Check (C05_roundtrip :
  forall ovf t v, ty_ok true t = true -> wf t v = true -> parse ovf t (encode t v) = Ok (v, byte_size t v)).
Check (C05_roundtrip_prefix :
  forall ovf t v tl, ty_ok false t = true -> wf t v = true -> parse ovf t (encode t v ++ tl) = Ok (v, byte_size t v)).
Check (C05_roundtrip_general :
  forall ovf t last v tl, ty_ok last t = true -> wf t v = true -> (last = true -> tl = []) ->
    extent ovf t (encode t v ++ tl) = Ok (zlen (encode t v)) /\ owned ovf t (encode t v ++ tl) = Ok v).
Check (C05_discriminant_roundtrip :
  forall ovf d t v, (0 < length d)%nat -> bytes_ok d = true -> ty_ok true t = true -> wf t v = true ->
    parse ovf (TStruct [TFixed (FAny (length d)); t]) (d ++ encode t v)
    = Ok (VStruct [VBytes d; v], Z.of_nat (length d) + byte_size t v)).
Check (C05_init_default_exact :
  forall t, plain t = true -> zero_ok t = true ->
    init_bytes t 0 = Ok (encode t (dflt t)) /\ init_size t 0 = zlen (encode t (dflt t)) /\ wf t (dflt t) = true).
Check (C05_init_then_deserialize :
  forall ovf t, plain t = true -> zero_ok t = true -> ty_ok true t = true ->
    exists bs, init_bytes t 0 = Ok bs /\ zlen bs = init_size t 0 /\ parse ovf t bs = Ok (dflt t, init_size t 0)).
Check (C05_init_array_exact :
  forall c lw kind n, (kind = 1 /\ n = 3) \/ (kind = 2 /\ n = 300) -> n < 256 ^ Z.of_nat lw ->
    init_bytes (TList c lw) kind = Ok (encode (TList c lw) (VList (repeat (repeat 1 (fsize c)) (Z.to_nat n)))) /\
    init_size (TList c lw) kind = zlen (encode (TList c lw) (VList (repeat (repeat 1 (fsize c)) (Z.to_nat n))))).
Check (C05_every_initializer_exact :
  forall ovf it kind dv,
    ty_ok true it = true -> ival it kind = Some dv -> ones_ok it kind = true ->
    exists bs, init_bytes it kind = Ok bs /\ zlen bs = init_size it kind /\ bs = encode it dv /\
               parse ovf it bs = Ok (dv, init_size it kind)).
Check (C05_init_array_too_long :
  forall c lw kind n, (kind = 1 /\ n = 3) \/ (kind = 2 /\ n = 300) -> 256 ^ Z.of_nat lw <= n ->
    init_bytes (TList c lw) kind = Err E_TOPRIM).
Check (C05_sized_init_exact :
  forall t arg dst,
    sized_ok t -> arg_ok t arg -> (s_size t <= length dst)%nat ->
    exists after rest,
      sized_init t arg dst = Some (after, rest) /\
      (length dst - length rest = s_size t)%nat /\
      firstn (s_size t) after = denoted t arg /\
      skipn (s_size t) after = skipn (s_size t) dst /\
      length after = length dst /\
      sized_parse t (firstn (s_size t) after) = Some (denoted t arg)).
Check (C05_sized_default_init_writes_the_default :
  forall t dst after rest,
    sized_ok t -> (s_size t <= length dst)%nat -> sized_init t None dst = Some (after, rest) ->
    firstn (s_size t) after = s_default t /\
    (s_default t <> repeat 0 (s_size t) -> firstn (s_size t) after <> repeat 0 (s_size t))).
Check (C05_client_roundtrip :
  forall d bs, zlen bs < 256 ^ 4 -> client_de d (client_ser d bs) = Some bs).
Check (C05_client_rejects_other_discriminant :
  forall d data, firstn (length d) data <> d -> client_de d data = None).
Check (C05_client_rejects_sibling_account :
  forall d d' bs, length d' = length d -> d' <> d -> client_de d (client_ser d' bs) = None).

Print Assumptions C05_encode_size.
Print Assumptions C05_roundtrip.
Print Assumptions C05_roundtrip_prefix.
Print Assumptions C05_roundtrip_general.
Print Assumptions C05_discriminant_roundtrip.
Print Assumptions C05_init_default_exact.
Print Assumptions C05_init_then_deserialize.
Print Assumptions C05_init_array_exact.
Print Assumptions C05_every_initializer_exact.
Print Assumptions C05_init_array_too_long.
Print Assumptions C05_sized_init_exact.
Print Assumptions C05_sized_default_init_writes_the_default.
Print Assumptions C05_client_roundtrip.
Print Assumptions C05_client_rejects_other_discriminant.
Print Assumptions C05_client_rejects_sibling_account.
