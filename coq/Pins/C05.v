(* Pinned statements of C05: re-checked on every run. *)
From SF Require Import Base.Prelude Unsized.Types Unsized.Parse Unsized.Proofs.EncodeParse Properties.C05.

Check (C05_encode_size :
 forall t v, wf t v = true -> zlen (encode t v) = byte_size t v).
Check (C05_roundtrip :
  forall ovf t v, ty_ok true t = true -> wf t v = true -> parse ovf t (encode t v) = Ok (v, byte_size t v)).
Check (C05_roundtrip_prefix :
  forall ovf t v tl, ty_ok false t = true -> wf t v = true -> parse ovf t (encode t v ++ tl) = Ok (v, byte_size t v)).
Check (C05_roundtrip_general :
  forall ovf t last v tl, ty_ok last t = true -> wf t v = true -> (last = true -> tl = []) ->
    extent ovf t (encode t v ++ tl) = Ok (zlen (encode t v)) /\ owned ovf t (encode t v ++ tl) = Ok v).
Check (C05_discriminant_roundtrip :
  forall ovf d t v, (0 < length d)%nat -> bytes_ok d = true -> ty_ok true t = true -> wf t v = true ->
    parse ovf (TStruct [TFixed (FAny (length d)); t]) (d ++ encode t v)
    = Ok (VStruct [VBytes d; v], Z.of_nat (length d) + byte_size t v)).

Print Assumptions C05_encode_size.
Print Assumptions C05_roundtrip.
Print Assumptions C05_roundtrip_prefix.
Print Assumptions C05_roundtrip_general.
Print Assumptions C05_discriminant_roundtrip.
