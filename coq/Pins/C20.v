(* Pinned statements of C20: re-checked on every run. *)
From SF Require Import Base.Prelude Gen.Gen_c20 Cli.Name Cli.NameProofs Cli.Template Cli.TemplateProofs Cli.Fs Cli.FsProofs Cli.Scaffold Cli.ScaffoldProofs Cli.Consistency Properties.C20.

Check (C20_name_iff :
  forall raw, (exists n, validate_arg raw = Accept n) <-> crate_safe (trim raw)).
Check (C20_name_returned :
  forall raw n, validate_arg raw = Accept n -> n = trim raw).
Check (C20_trim_spec :
  forall s, exists a b, s = a ++ trim s ++ b /\ forallb is_ws a = true /\ forallb is_ws b = true /\
    (forall c r, trim s = c :: r -> is_ws c = false) /\ (forall pre c, trim s = pre ++ [c] -> is_ws c = false)).
Check (C20_atomic :
  forall c k e tag raw pubkey keyjson f f' o,
  wf f -> sf_new (one_fault c k e) tag true raw pubkey keyjson f = (f', o) ->
  match o with
  | Done => exists name, validate_arg raw = Accept name /\ lookup [name] f = None /\
            (forall q, is_prefix [name] q = false -> lookup q f' = lookup q f) /\
            (forall rel, lookup ([name] ++ rel) f' = project_tree name pubkey keyjson rel)
  | Failed _ => forall q, lookup q f' = lookup q f
  end).
Check (C20_atomic_any_faults :
  forall inj tag raw pubkey keyjson f f' o,
  wf f -> sf_new inj tag true raw pubkey keyjson f = (f', o) ->
  match o with
  | Done => exists name, validate_arg raw = Accept name /\ lookup [name] f = None /\
            (forall q, is_prefix [name] q = false -> lookup q f' = lookup q f) /\
            (forall rel, lookup ([name] ++ rel) f' = project_tree name pubkey keyjson rel)
  | Failed _ => forall q, lookup q f' = lookup q f
  end).
Check (C20_no_staging_left :
  forall inj tag raw pubkey keyjson f f' o name i,
  wf f -> validate_arg raw = Accept name -> sf_new inj tag true raw pubkey keyjson f = (f', o) ->
  forall rel, lookup ([staging_name tag name i] ++ rel) f' = lookup ([staging_name tag name i] ++ rel) f).
Check (C20_existing_untouched :
  forall inj tag raw pubkey keyjson f f' o name,
  wf f -> validate_arg raw = Accept name -> lookup [name] f <> None ->
  sf_new inj tag true raw pubkey keyjson f = (f', o) ->
  (exists stage, o = Failed stage) /\ forall q, lookup q f' = lookup q f).
Check (C20_project_files :
  forall name pubkey keyjson rel tpl,
  In (rel, tpl) c20_files -> project_tree name pubkey keyjson rel = Some (File (render tpl name pubkey))).
Check (C20_cleanup_failure_leaves_staging :
  let '(f', o) := sf_new (one_fault CMkdir 2 EIO) fake_tag false demo_name [] [] demo_fs in
  o = Failed ST_DIRS /\ lookup [demo_name] f' = None /\ lookup [staging_name fake_tag demo_name 0] f' = Some Dir).
Check (C20_no_placeholder_left :
  forall raw name pubkey rel tpl p fld,
  validate_arg raw = Accept name -> forallb is_base58 pubkey = true ->
  In (rel, tpl) c20_files -> In (p, fld) c20_placeholders ->
  ~ occurs p (render tpl name pubkey)).
Check (C20_names_consistent :
  forall raw name pubkey,
  validate_arg raw = Accept name -> forallb is_base58 pubkey = true -> consistent_names name pubkey).

Print Assumptions C20_name_iff.
Print Assumptions C20_name_returned.
Print Assumptions C20_trim_spec.
Print Assumptions C20_atomic.
Print Assumptions C20_atomic_any_faults.
Print Assumptions C20_no_staging_left.
Print Assumptions C20_existing_untouched.
Print Assumptions C20_project_files.
Print Assumptions C20_cleanup_failure_leaves_staging.
Print Assumptions C20_no_placeholder_left.
Print Assumptions C20_names_consistent.
