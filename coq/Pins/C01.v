(* Pinned statements of C01: re-checked on every run. *)
From SF Require Import Base.Prelude Gen.Generated Unsized.Types Unsized.Parse Unsized.Machine Unsized.Ops Unsized.Run Unsized.Proofs.EncodeParse Unsized.Proofs.Mem Unsized.Proofs.Notify Unsized.Proofs.Flat Unsized.Proofs.Layout Unsized.Proofs.Observe Unsized.Proofs.Path Unsized.Proofs.Context Unsized.Proofs.FocusOps Unsized.Proofs.NotifyInside Unsized.Proofs.Resize Unsized.Proofs.GenOps Unsized.Proofs.History Unsized.Proofs.Init Unsized.Proofs.History2 Unsized.Proofs.ExecTie Unsized.Proofs.ExecTie2 Unsized.Proofs.Keyed Unsized.Proofs.NotifyInside2 Unsized.Proofs.SetData Unsized.Proofs.History3 Unsized.Proofs.History4 Unsized.Proofs.Enums Unsized.Proofs.InitKinds Unsized.Proofs.StringSet Unsized.Proofs.Context Properties.C01.

Check (C01_flat_step_refines :
  forall ts vs s top o vs',
    Rep ts vs s top -> m_refuse s <> 1 -> ostep (m_cap s) ts vs o = Some vs' ->
    exists s', mstep ts s top o = Ok (s', PStruct (lay ts vs' 0), []) /\
               Rep ts vs' s' (PStruct (lay ts vs' 0)) /\ m_cap s' = m_cap s /\ m_refuse s' = m_refuse s).
Check (C01_flat_run_refines :
  forall ts h vs s top vs',
    Rep ts vs s top -> m_refuse s <> 1 -> orun (m_cap s) ts vs h = Some vs' ->
    exists s', mrun ts s top h = Ok (s', PStruct (lay ts vs' 0)) /\ Rep ts vs' s' (PStruct (lay ts vs' 0))).
Check (C01_flat_insert_index_error :
  forall tsA tsB vsA vsB c lw items, length tsA = length vsA -> forall s top idx new,
    Rep (tsA ++ TList c lw :: tsB) (vsA ++ VList items :: vsB) s top -> zlen items < idx ->
    list_insert (TStruct (tsA ++ TList c lw :: tsB)) s top [PF (length tsA)] idx new = Err E_INDEX).
Check (C01_flat_insert_prefix_error :
  forall tsA tsB vsA vsB c lw items, length tsA = length vsA -> forall s top idx new,
    Rep (tsA ++ TList c lw :: tsB) (vsA ++ VList items :: vsB) s top -> idx <= zlen items ->
    256 ^ Z.of_nat lw <= zlen items + zlen new ->
    list_insert (TStruct (tsA ++ TList c lw :: tsB)) s top [PF (length tsA)] idx new = Err E_TOPRIM).
Check (C01_flat_remove_range_error :
  forall tsA tsB vsA vsB c lw items, length tsA = length vsA -> forall s top st en,
    Rep (tsA ++ TList c lw :: tsB) (vsA ++ VList items :: vsB) s top -> en < st ->
    list_remove (TStruct (tsA ++ TList c lw :: tsB)) s top [PF (length tsA)] st en = Err E_RANGE).
Check (C01_flat_remove_index_error :
  forall tsA tsB vsA vsB c lw items, length tsA = length vsA -> forall s top st en,
    Rep (tsA ++ TList c lw :: tsB) (vsA ++ VList items :: vsB) s top -> st <= en -> zlen items < en ->
    list_remove (TStruct (tsA ++ TList c lw :: tsB)) s top [PF (length tsA)] st en = Err E_INDEX).
Check (C01_flat_observable :
  forall ovf ts vs s top, Rep ts vs s top ->
    owned_ptr ovf (TStruct ts) (m_mem s) top = Ok (VStruct vs) /\
    ztake (m_len s) (m_mem s) = encode (TStruct ts) (VStruct vs) /\
    m_len s = byte_size (TStruct ts) (VStruct vs) /\
    parse ovf (TStruct ts) (ztake (m_len s) (m_mem s)) = Ok (VStruct vs, m_len s)).
Check (C01_flat_reborrow :
  forall ovf ts vs s,
    forallb leaf ts = true -> ty_ok true (TStruct ts) = true -> wf (TStruct ts) (VStruct vs) = true ->
    (exists junk, m_mem s = encs ts vs ++ junk) -> m_len s = zlen (encs ts vs) ->
    exists top, get_ptr ovf (TStruct ts) (m_mem s) 0 (m_len s) = Ok (top, m_len s) /\ Rep ts vs s top).
Check (C01_notify_shift :
  forall t p src c m, after src t p = true -> notify t p src c m = Ok (shift c p, m)).
Check (C01_general_descent :
  forall ovf r pre t v s top X xv,
    RepF pre t v s top -> resolve t v (pre ++ r) = Some (X, xv) ->
    exists top', menter ovf t s top (mpath pre) r = Ok top' /\ RepF (pre ++ r) t v s top').
Check (C01_general_step_refines :
  forall ovf t v s top pi0 o v',
    RepF pi0 t v s top -> m_refuse s <> 1 -> ostepG (m_cap s) t v o = Some v' ->
    exists s' top', mstepG ovf t s top o = Ok (s', top', []) /\ RepF (focus_of o) t v' s' top' /\
                    m_cap s' = m_cap s /\ m_refuse s' = m_refuse s).
Check (C01_general_run_refines :
  forall ovf t h v s top pi0 v',
    RepF pi0 t v s top -> m_refuse s <> 1 -> orunG (m_cap s) t v h = Some v' ->
    exists s' top' pi', mrunG ovf t s top h = Ok (s', top') /\ RepF pi' t v' s' top' /\ m_cap s' = m_cap s).
Check (C01_general_notify_inside :
  forall pi t last v p X xv xv' c h pre post,
    plain t = true -> ty_ok last t = true -> wf t v = true ->
    resolve t v pi = Some (X, xv) -> container X = true ->
    LayP Lay pi t v (zlen pre) p ->
    zlen h = zlen (encode X xv) + c ->
    zlen (encode X xv') = zlen (encode X xv) + c ->
    0 <= zlen (encode X xv) + c ->
    zlen (encode t v) + c < U32_LIMIT ->
    exists p',
      notify t p (addr_of t v pi (zlen pre)) c (pre ++ fst (hctx t v pi 0) ++ h ++ snd (hctx t v pi 0) ++ post)
      = Ok (p', pre ++ fst (hctx t v pi c) ++ h ++ snd (hctx t v pi 0) ++ post)
      /\ LayP (EndNotified xv c) pi t (plug t v pi xv') (zlen pre) p').
Check (C01_general_observable :
  forall ovf pi t v s top, RepF pi t v s top ->
    owned_ptr ovf t (m_mem s) top = Ok v /\
    ztake (m_len s) (m_mem s) = encode t v /\
    m_len s = byte_size t v /\
    parse ovf t (ztake (m_len s) (m_mem s)) = Ok (v, m_len s) /\
    top_check s top = true).
Check (C01_general_reborrow :
  forall ovf t v s,
    plain t = true -> ty_ok true t = true -> wf t v = true ->
    (exists junk, m_mem s = encode t v ++ junk) -> m_len s = zlen (encode t v) -> m_cap s < U32_LIMIT ->
    exists top, get_ptr ovf t (m_mem s) 0 (m_len s) = Ok (top, m_len s) /\ RepF [] t v s top).
Check (C01_all_ops_step_refines :
  forall ovf t v s top pi0 o v',
    RepF pi0 t v s top -> m_refuse s <> 1 -> ostepX (m_cap s) t v o = Some v' ->
    exists s' top', mstepX ovf t s top o = Ok (s', top', []) /\ RepF (xfocus o) t v' s' top' /\
                    m_cap s' = m_cap s /\ m_refuse s' = m_refuse s).
Check (C01_all_ops_run_refines :
  forall ovf t h v s top pi0 v',
    RepF pi0 t v s top -> m_refuse s <> 1 -> orunX (m_cap s) t v h = Some v' ->
    exists s' top' pi', mrunX ovf t s top h = Ok (s', top') /\ RepF pi' t v' s' top' /\ m_cap s' = m_cap s).
Check (C01_dispatcher_tie :
  forall ovf t v s top o r,
    RepF [] t v s top ->
    (exists X xv, resolve t v (focus_of o) = Some (X, xv) /\ (exists c lw, X = TList c lw)) ->
    mstepG ovf t s top o = Ok r ->
    forall fuel, (length (focus_of o) < fuel)%nat -> exec fuel ovf t s top [] (enc_op t v o) = Ok r).
Check (C01_dispatcher_tie_all_ops :
  forall ovf t v s top o r,
    RepF [] t v s top -> (exists v', ostepX (m_cap s) t v o = Some v') ->
    mstepX ovf t s top o = Ok r ->
    forall fuel, (length (xfocus o) < fuel)%nat -> exec fuel ovf t s top [] (enc_xop t v o) = Ok r).
Check (C01_set_data_refines :
  forall ovf pi t v X xv xv' s top,
    resolve t v pi = Some (X, xv) -> headed X = true -> wf X xv' = true -> 0 < zlen (encode X xv) ->
    RepF pi t v s top -> m_refuse s <> 1 -> m_len s + (zlen (encode X xv') - zlen (encode X xv)) <= m_cap s ->
    exists s' top', set_data ovf t s top (mpath pi) (zlen (encode X xv')) (Ok (encode X xv')) = Ok (s', top', []) /\
                    RepF pi t (plug t v pi xv') s' top' /\ m_cap s' = m_cap s /\ m_refuse s' = m_refuse s).
Check (C01_keyed_lower_bound :
  forall keys k, strictly_ascending keys = true ->
    let '(idx, found) := lower_bound keys k 0 in
    0 <= idx <= zlen keys /\ Forall (fun x => x < k) (firstn (Z.to_nat idx) keys) /\
    Forall (fun x => k <= x) (skipn (Z.to_nat idx) keys) /\
    (found = true <-> nth_error keys (Z.to_nat idx) = Some k) /\ (found = false -> ~ In k keys)).
Check (C01_keyed_set_insert :
  forall pi t v c lw items x,
    resolve t v (pi ++ [SF 0]) = Some (TList c lw, VList items) ->
    strictly_ascending (map le_decode items) = true ->
    forall s top idx,
    RepF (pi ++ [SF 0]) t v s top -> item_ok c x ->
    lower_bound (map le_decode items) (le_decode x) 0 = (idx, false) ->
    m_refuse s <> 1 -> m_len s + Z.of_nat (fsize c) <= m_cap s ->
    zlen items + 1 < 256 ^ Z.of_nat lw -> Z.of_nat (fsize c) * (zlen items + 1) < U64_LIMIT ->
    let items' := firstn (Z.to_nat idx) items ++ x :: skipn (Z.to_nat idx) items in
    exists s' top',
      set_insert_op t s top (mpath pi) c lw x = Ok (s', top', [1]) /\
      RepF (pi ++ [SF 0]) t (plug t v (pi ++ [SF 0]) (VList items')) s' top' /\
      m_cap s' = m_cap s /\ m_refuse s' = m_refuse s /\ strictly_ascending (map le_decode items') = true).
Check (C01_keyed_map_overwrite :
  forall pi t v c lw items key,
    resolve t v (pi ++ [SF 0]) = Some (TList c lw, VList items) ->
    strictly_ascending (lkeys (length key) items) = true ->
    forall value, item_ok c (key ++ value) ->
    forall s top idx,
    RepF (pi ++ [SF 0]) t v s top ->
    lower_bound (lkeys (length key) items) (le_decode key) 0 = (idx, true) ->
    let items' := firstn (Z.to_nat idx) items ++ (key ++ value) :: skipn (S (Z.to_nat idx)) items in
    exists s',
      map_insert_op t s top (mpath pi) c lw key value = Ok (s', top, [1]) /\
      RepF (pi ++ [SF 0]) t (plug t v (pi ++ [SF 0]) (VList items')) s' top /\
      m_cap s' = m_cap s /\ m_refuse s' = m_refuse s /\
      lkeys (length key) items' = lkeys (length key) items /\ strictly_ascending (lkeys (length key) items') = true).
Check (C01_keyed_unsized_map_insert :
  forall pi t v it k items key,
    resolve t v (pi ++ [SF 0]) = Some (TUList it k, VUList items) -> k <> 0%nat ->
    forall ovf s top idx,
    RepF (pi ++ [SF 0]) t v s top -> zero_ok it = true -> 0 <= key < 256 ^ Z.of_nat k ->
    lower_bound (ukeys items) key 0 = (idx, false) ->
    m_refuse s <> 1 -> m_len s + (zlen (encode it (dflt it)) + (4 + Z.of_nat k)) <= m_cap s ->
    let items' := firstn (Z.to_nat idx) items ++ (le_bytes k key, dflt it) :: skipn (Z.to_nat idx) items in
    exists s' top',
      umap_insert_op ovf t s top (mpath pi) it k key 0 = Ok (s', top', [1]) /\
      RepF (pi ++ [SF 0]) t (plug t v (pi ++ [SF 0]) (VUList items')) s' top' /\
      m_cap s' = m_cap s /\ m_refuse s' = m_refuse s /\ strictly_ascending (ukeys items') = true).
Check (C01_keyed_unsized_map_remove :
  forall pi t v it k items key,
    resolve t v (pi ++ [SF 0]) = Some (TUList it k, VUList items) -> k <> 0%nat ->
    forall s top idx,
    RepF (pi ++ [SF 0]) t v s top -> lower_bound (ukeys items) key 0 = (idx, true) ->
    let items' := firstn (Z.to_nat idx) items ++ skipn (Z.to_nat (idx + 1)) items in
    exists s' top',
      umap_remove_op t s top (mpath pi) k key = Ok (s', top', [1]) /\
      RepF (pi ++ [SF 0]) t (plug t v (pi ++ [SF 0]) (VUList items')) s' top' /\
      m_cap s' = m_cap s /\ m_refuse s' = m_refuse s /\ strictly_ascending (ukeys items') = true).
Check (C01_keyed_unsized_map_overwrite :
  forall ovf pi t v it k items key s top idx,
    resolve t v (pi ++ [SF 0]) = Some (TUList it k, VUList items) -> k <> 0%nat ->
    RepF (pi ++ [SF 0]) t v s top -> zero_ok it = true -> headed it = true ->
    lower_bound (ukeys items) key 0 = (idx, true) -> m_refuse s <> 1 ->
    (forall kv, nth_error items (Z.to_nat idx) = Some kv ->
       0 < zlen (encode it (snd kv)) /\ m_len s + (zlen (encode it (dflt it)) - zlen (encode it (snd kv))) <= m_cap s) ->
    exists kv s' top',
      nth_error items (Z.to_nat idx) = Some kv /\
      (let items' := firstn (Z.to_nat idx) items ++ (fst kv, dflt it) :: skipn (S (Z.to_nat idx)) items in
       umap_insert_op ovf t s top (mpath pi) it k key 0 = Ok (s', top', [0]) /\
       RepF (pi ++ [SF 0; SE (Z.to_nat idx)]) t (plug t v (pi ++ [SF 0]) (VUList items')) s' top' /\
       m_cap s' = m_cap s /\ m_refuse s' = m_refuse s /\ ukeys items' = ukeys items /\
       strictly_ascending (ukeys items') = true)).
Check (C01_full_step_refines :
  forall ovf t v s top pi0 o v' obs,
    RepF pi0 t v s top -> m_refuse s <> 1 -> ostepY (m_cap s) t v o = Some (v', obs) ->
    exists s' top' pi', mstepY ovf t s top o = Ok (s', top', obs) /\ RepF pi' t v' s' top' /\
                        m_cap s' = m_cap s /\ m_refuse s' = m_refuse s).
Check (C01_full_run_refines :
  forall ovf t h v s top pi0 v' obss,
    RepF pi0 t v s top -> m_refuse s <> 1 -> orunY (m_cap s) t v h = Some (v', obss) ->
    exists s' top' pi', mrunY ovf t s top h = Ok (s', top', obss) /\ RepF pi' t v' s' top' /\ m_cap s' = m_cap s).
Check (C01_keyed_views_stay_sorted :
  forall cap t v o v' obs, ostepY cap t v o = Some (v', obs) -> sorted_view t v o /\ sorted_view t v' o).
Check (C01_every_shape :
 forall t, plain t = true).
Check (C01_enum_switch_refines :
  forall ovf pi t v rw vs xv d vt s top,
    resolve t v pi = Some (TEnum rw vs, xv) -> find_variant d vs = Some vt ->
    0 <= d < 256 ^ Z.of_nat rw -> zero_ok vt = true ->
    RepF pi t v s top -> m_refuse s <> 1 ->
    m_len s + (Z.of_nat rw + init_size vt 0 - zlen (encode (TEnum rw vs) xv)) <= m_cap s ->
    exists s' top', set_data ovf t s top (mpath pi) (init_variant_size rw vt 0) (init_variant rw d vt 0) = Ok (s', top', []) /\
                    RepF pi t (plug t v pi (VEnum d (dflt vt))) s' top' /\ m_cap s' = m_cap s /\ m_refuse s' = m_refuse s).
Check (C01_run_refines_with_switches :
  forall ovf t h v s top pi0 v' obss,
    RepF pi0 t v s top -> m_refuse s <> 1 -> orunZ (m_cap s) t v h = Some (v', obss) ->
    exists s' top' pi', mrunZ ovf t s top h = Ok (s', top', obss) /\ RepF pi' t v' s' top' /\ m_cap s' = m_cap s).
Check (C01_dispatcher_tie_switch :
  forall ovf t v s top pi d r,
    RepF [] t v s top ->
    (exists X xv, resolve t v pi = Some (X, xv) /\ (exists rw vs, X = TEnum rw vs)) ->
    mstepZ ovf t s top (ZSwitch pi d) = Ok r ->
    forall fuel, (length pi < fuel)%nat -> exec fuel ovf t s top [] (enc_path t v pi ++ [60; d]) = Ok r).
Check (C01_initializer_writes_its_value :
  forall it kind dv, ival it kind = Some dv -> ones_ok it kind = true ->
    init_bytes it kind = Ok (encode it dv) /\ init_size it kind = zlen (encode it dv) /\ wf it dv = true).
Check (C01_run_refines_with_initializers :
  forall ovf t h v s top pi0 v' obss,
    RepF pi0 t v s top -> m_refuse s <> 1 -> orunK (m_cap s) t v h = Some (v', obss) ->
    exists s' top' pi', mrunK ovf t s top h = Ok (s', top', obss) /\ RepF pi' t v' s' top' /\ m_cap s' = m_cap s).
Check (C01_dispatcher_refines_initializers :
  forall ovf t v s top o v' obs,
    RepF [] t v s top -> m_refuse s <> 1 -> is_new o -> ostepK (m_cap s) t v o = Some (v', obs) ->
    forall fuel, (length (kfocus o) < fuel)%nat ->
    exists s' top' pi', exec fuel ovf t s top [] (enc_kop t v o) = Ok (s', top', obs) /\
                        RepF pi' t v' s' top' /\ m_cap s' = m_cap s /\ m_refuse s' = m_refuse s).
Check (C01_string_set_refines :
  forall ovf t v s top pi0 pi bs v',
    RepF pi0 t v s top -> m_refuse s <> 1 -> ostepStr (m_cap s) t v pi bs = Some v' ->
    exists s' top' pi', mstepStr ovf t s top pi bs = Ok (s', top', []) /\ RepF pi' t v' s' top' /\
                        m_cap s' = m_cap s /\ m_refuse s' = m_refuse s).
Check (C01_run_refines_every_operation :
  forall ovf t h v s top pi0 v' obss,
    RepF pi0 t v s top -> m_refuse s <> 1 -> orunS (m_cap s) t v h = Some (v', obss) ->
    exists s' top' pi', mrunS ovf t s top h = Ok (s', top', obss) /\ RepF pi' t v' s' top' /\ m_cap s' = m_cap s).
Check (C01_dispatcher_run_refines :
  forall fuel ovf t h v s top pi0 v' obss,
    RepF pi0 t v s top -> m_refuse s <> 1 -> Forall snew h -> Forall (fun o => (length (sfocus o) < fuel)%nat) h ->
    orunS (m_cap s) t v h = Some (v', obss) ->
    exists s' top' pi', xrunS fuel ovf (m_cap s) t v s top h = Ok (s', top', obss) /\ RepF pi' t v' s' top' /\ m_cap s' = m_cap s).

Print Assumptions C01_flat_step_refines.
Print Assumptions C01_flat_run_refines.
Print Assumptions C01_flat_insert_index_error.
Print Assumptions C01_flat_insert_prefix_error.
Print Assumptions C01_flat_remove_range_error.
Print Assumptions C01_flat_remove_index_error.
Print Assumptions C01_flat_observable.
Print Assumptions C01_flat_reborrow.
Print Assumptions C01_notify_shift.
Print Assumptions C01_general_descent.
Print Assumptions C01_general_step_refines.
Print Assumptions C01_general_run_refines.
Print Assumptions C01_general_notify_inside.
Print Assumptions C01_general_observable.
Print Assumptions C01_general_reborrow.
Print Assumptions C01_all_ops_step_refines.
Print Assumptions C01_all_ops_run_refines.
Print Assumptions C01_dispatcher_tie.
Print Assumptions C01_dispatcher_tie_all_ops.
Print Assumptions C01_set_data_refines.
Print Assumptions C01_keyed_lower_bound.
Print Assumptions C01_keyed_set_insert.
Print Assumptions C01_keyed_map_overwrite.
Print Assumptions C01_keyed_unsized_map_insert.
Print Assumptions C01_keyed_unsized_map_remove.
Print Assumptions C01_keyed_unsized_map_overwrite.
Print Assumptions C01_full_step_refines.
Print Assumptions C01_full_run_refines.
Print Assumptions C01_keyed_views_stay_sorted.
Print Assumptions C01_every_shape.
Print Assumptions C01_enum_switch_refines.
Print Assumptions C01_run_refines_with_switches.
Print Assumptions C01_dispatcher_tie_switch.
Print Assumptions C01_initializer_writes_its_value.
Print Assumptions C01_run_refines_with_initializers.
Print Assumptions C01_dispatcher_refines_initializers.
Print Assumptions C01_string_set_refines.
Print Assumptions C01_run_refines_every_operation.
Print Assumptions C01_dispatcher_run_refines.
