From SF Require Import Base.Prelude Unsized.Types Properties.C01.
