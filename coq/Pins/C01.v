(* Pinned statements of C01: re-checked on every run. *)
From SF Require Import Base.Prelude Gen.Generated Unsized.Types Unsized.Parse Unsized.Machine Unsized.Ops Unsized.Proofs.EncodeParse Unsized.Proofs.Mem Unsized.Proofs.Notify Unsized.Proofs.Flat Properties.C01.

Check (C01_flat_step_refines :
  forall ts vs s top o vs',
    Rep ts vs s top -> m_refuse s <> 1 -> ostep (m_cap s) ts vs o = Some vs' ->
    exists s', mstep ts s top o = Ok (s', PStruct (lay ts vs' 0), []) /\
               Rep ts vs' s' (PStruct (lay ts vs' 0)) /\ m_cap s' = m_cap s /\ m_refuse s' = m_refuse s).
Check (C01_flat_run_refines :
  forall ts h vs s top vs',
    Rep ts vs s top -> m_refuse s <> 1 -> orun (m_cap s) ts vs h = Some vs' ->
    exists s', mrun ts s top h = Ok (s', PStruct (lay ts vs' 0)) /\ Rep ts vs' s' (PStruct (lay ts vs' 0))).
Check (C01_flat_insert_index_error :
  forall tsA tsB vsA vsB c lw items, length tsA = length vsA -> forall s top idx new,
    Rep (tsA ++ TList c lw :: tsB) (vsA ++ VList items :: vsB) s top -> zlen items < idx ->
    list_insert (TStruct (tsA ++ TList c lw :: tsB)) s top [PF (length tsA)] idx new = Err E_INDEX).
Check (C01_flat_insert_prefix_error :
  forall tsA tsB vsA vsB c lw items, length tsA = length vsA -> forall s top idx new,
    Rep (tsA ++ TList c lw :: tsB) (vsA ++ VList items :: vsB) s top -> idx <= zlen items ->
    256 ^ Z.of_nat lw <= zlen items + zlen new ->
    list_insert (TStruct (tsA ++ TList c lw :: tsB)) s top [PF (length tsA)] idx new = Err E_TOPRIM).
Check (C01_flat_remove_range_error :
  forall tsA tsB vsA vsB c lw items, length tsA = length vsA -> forall s top st en,
    Rep (tsA ++ TList c lw :: tsB) (vsA ++ VList items :: vsB) s top -> en < st ->
    list_remove (TStruct (tsA ++ TList c lw :: tsB)) s top [PF (length tsA)] st en = Err E_RANGE).
Check (C01_flat_remove_index_error :
  forall tsA tsB vsA vsB c lw items, length tsA = length vsA -> forall s top st en,
    Rep (tsA ++ TList c lw :: tsB) (vsA ++ VList items :: vsB) s top -> st <= en -> zlen items < en ->
    list_remove (TStruct (tsA ++ TList c lw :: tsB)) s top [PF (length tsA)] st en = Err E_INDEX).
Check (C01_flat_observable :
  forall ovf ts vs s top, Rep ts vs s top ->
    owned_ptr ovf (TStruct ts) (m_mem s) top = Ok (VStruct vs) /\
    ztake (m_len s) (m_mem s) = encode (TStruct ts) (VStruct vs) /\
    m_len s = byte_size (TStruct ts) (VStruct vs) /\
    parse ovf (TStruct ts) (ztake (m_len s) (m_mem s)) = Ok (VStruct vs, m_len s)).
Check (C01_flat_reborrow :
  forall ovf ts vs s,
    forallb leaf ts = true -> ty_ok true (TStruct ts) = true -> wf (TStruct ts) (VStruct vs) = true ->
    (exists junk, m_mem s = encs ts vs ++ junk) -> m_len s = zlen (encs ts vs) ->
    exists top, get_ptr ovf (TStruct ts) (m_mem s) 0 (m_len s) = Ok (top, m_len s) /\ Rep ts vs s top).
Check (C01_notify_shift :
  forall t p src c m, after src t p = true -> notify t p src c m = Ok (shift c p, m)).

Print Assumptions C01_flat_step_refines.
Print Assumptions C01_flat_run_refines.
Print Assumptions C01_flat_insert_index_error.
Print Assumptions C01_flat_insert_prefix_error.
Print Assumptions C01_flat_remove_range_error.
Print Assumptions C01_flat_remove_index_error.
Print Assumptions C01_flat_observable.
Print Assumptions C01_flat_reborrow.
Print Assumptions C01_notify_shift.
