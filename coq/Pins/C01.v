(* Pinned statements of C01: re-checked on every run. *)
From SF Require Import Base.Prelude Gen.Generated Unsized.Types Unsized.Parse Unsized.Machine Unsized.Ops Unsized.Run Unsized.Proofs.EncodeParse Unsized.Proofs.Mem Unsized.Proofs.Notify Unsized.Proofs.Flat Unsized.Proofs.Layout Unsized.Proofs.Observe Unsized.Proofs.Path Unsized.Proofs.Context Unsized.Proofs.FocusOps Unsized.Proofs.NotifyInside Unsized.Proofs.Resize Unsized.Proofs.GenOps Unsized.Proofs.History Unsized.Proofs.Init Unsized.Proofs.History2 Unsized.Proofs.ExecTie Properties.C01.

Check (C01_flat_step_refines :
  forall ts vs s top o vs',
    Rep ts vs s top -> m_refuse s <> 1 -> ostep (m_cap s) ts vs o = Some vs' ->
    exists s', mstep ts s top o = Ok (s', PStruct (lay ts vs' 0), []) /\
               Rep ts vs' s' (PStruct (lay ts vs' 0)) /\ m_cap s' = m_cap s /\ m_refuse s' = m_refuse s).
Check (C01_flat_run_refines :
  forall ts h vs s top vs',
    Rep ts vs s top -> m_refuse s <> 1 -> orun (m_cap s) ts vs h = Some vs' ->
    exists s', mrun ts s top h = Ok (s', PStruct (lay ts vs' 0)) /\ Rep ts vs' s' (PStruct (lay ts vs' 0))).
Check (C01_flat_insert_index_error :
  forall tsA tsB vsA vsB c lw items, length tsA = length vsA -> forall s top idx new,
    Rep (tsA ++ TList c lw :: tsB) (vsA ++ VList items :: vsB) s top -> zlen items < idx ->
    list_insert (TStruct (tsA ++ TList c lw :: tsB)) s top [PF (length tsA)] idx new = Err E_INDEX).
Check (C01_flat_insert_prefix_error :
  forall tsA tsB vsA vsB c lw items, length tsA = length vsA -> forall s top idx new,
    Rep (tsA ++ TList c lw :: tsB) (vsA ++ VList items :: vsB) s top -> idx <= zlen items ->
    256 ^ Z.of_nat lw <= zlen items + zlen new ->
    list_insert (TStruct (tsA ++ TList c lw :: tsB)) s top [PF (length tsA)] idx new = Err E_TOPRIM).
Check (C01_flat_remove_range_error :
  forall tsA tsB vsA vsB c lw items, length tsA = length vsA -> forall s top st en,
    Rep (tsA ++ TList c lw :: tsB) (vsA ++ VList items :: vsB) s top -> en < st ->
    list_remove (TStruct (tsA ++ TList c lw :: tsB)) s top [PF (length tsA)] st en = Err E_RANGE).
Check (C01_flat_remove_index_error :
  forall tsA tsB vsA vsB c lw items, length tsA = length vsA -> forall s top st en,
    Rep (tsA ++ TList c lw :: tsB) (vsA ++ VList items :: vsB) s top -> st <= en -> zlen items < en ->
    list_remove (TStruct (tsA ++ TList c lw :: tsB)) s top [PF (length tsA)] st en = Err E_INDEX).
Check (C01_flat_observable :
  forall ovf ts vs s top, Rep ts vs s top ->
    owned_ptr ovf (TStruct ts) (m_mem s) top = Ok (VStruct vs) /\
    ztake (m_len s) (m_mem s) = encode (TStruct ts) (VStruct vs) /\
    m_len s = byte_size (TStruct ts) (VStruct vs) /\
    parse ovf (TStruct ts) (ztake (m_len s) (m_mem s)) = Ok (VStruct vs, m_len s)).
Check (C01_flat_reborrow :
  forall ovf ts vs s,
    forallb leaf ts = true -> ty_ok true (TStruct ts) = true -> wf (TStruct ts) (VStruct vs) = true ->
    (exists junk, m_mem s = encs ts vs ++ junk) -> m_len s = zlen (encs ts vs) ->
    exists top, get_ptr ovf (TStruct ts) (m_mem s) 0 (m_len s) = Ok (top, m_len s) /\ Rep ts vs s top).
Check (C01_notify_shift :
  forall t p src c m, after src t p = true -> notify t p src c m = Ok (shift c p, m)).
Check (C01_general_descent :
  forall ovf r pre t v s top X xv,
    RepF pre t v s top -> resolve t v (pre ++ r) = Some (X, xv) ->
    exists top', menter ovf t s top (mpath pre) r = Ok top' /\ RepF (pre ++ r) t v s top').
Check (C01_general_step_refines :
  forall ovf t v s top pi0 o v',
    RepF pi0 t v s top -> m_refuse s <> 1 -> ostepG (m_cap s) t v o = Some v' ->
    exists s' top', mstepG ovf t s top o = Ok (s', top', []) /\ RepF (focus_of o) t v' s' top' /\
                    m_cap s' = m_cap s /\ m_refuse s' = m_refuse s).
Check (C01_general_run_refines :
  forall ovf t h v s top pi0 v',
    RepF pi0 t v s top -> m_refuse s <> 1 -> orunG (m_cap s) t v h = Some v' ->
    exists s' top' pi', mrunG ovf t s top h = Ok (s', top') /\ RepF pi' t v' s' top' /\ m_cap s' = m_cap s).
Check (C01_general_notify_inside :
  forall pi t last v p X xv xv' c h pre post,
    plain t = true -> ty_ok last t = true -> wf t v = true ->
    resolve t v pi = Some (X, xv) -> container X = true ->
    LayP Lay pi t v (zlen pre) p ->
    zlen h = zlen (encode X xv) + c ->
    zlen (encode X xv') = zlen (encode X xv) + c ->
    0 <= zlen (encode X xv) + c ->
    zlen (encode t v) + c < U32_LIMIT ->
    exists p',
      notify t p (addr_of t v pi (zlen pre)) c (pre ++ fst (hctx t v pi 0) ++ h ++ snd (hctx t v pi 0) ++ post)
      = Ok (p', pre ++ fst (hctx t v pi c) ++ h ++ snd (hctx t v pi 0) ++ post)
      /\ LayP (EndNotified xv c) pi t (plug t v pi xv') (zlen pre) p').
Check (C01_general_observable :
  forall ovf pi t v s top, RepF pi t v s top ->
    owned_ptr ovf t (m_mem s) top = Ok v /\
    ztake (m_len s) (m_mem s) = encode t v /\
    m_len s = byte_size t v /\
    parse ovf t (ztake (m_len s) (m_mem s)) = Ok (v, m_len s) /\
    top_check s top = true).
Check (C01_general_reborrow :
  forall ovf t v s,
    plain t = true -> ty_ok true t = true -> wf t v = true ->
    (exists junk, m_mem s = encode t v ++ junk) -> m_len s = zlen (encode t v) -> m_cap s < U32_LIMIT ->
    exists top, get_ptr ovf t (m_mem s) 0 (m_len s) = Ok (top, m_len s) /\ RepF [] t v s top).
Check (C01_all_ops_step_refines :
  forall ovf t v s top pi0 o v',
    RepF pi0 t v s top -> m_refuse s <> 1 -> ostepX (m_cap s) t v o = Some v' ->
    exists s' top', mstepX ovf t s top o = Ok (s', top', []) /\ RepF (xfocus o) t v' s' top' /\
                    m_cap s' = m_cap s /\ m_refuse s' = m_refuse s).
Check (C01_all_ops_run_refines :
  forall ovf t h v s top pi0 v',
    RepF pi0 t v s top -> m_refuse s <> 1 -> orunX (m_cap s) t v h = Some v' ->
    exists s' top' pi', mrunX ovf t s top h = Ok (s', top') /\ RepF pi' t v' s' top' /\ m_cap s' = m_cap s).
Check (C01_dispatcher_tie :
  forall ovf t v s top o r,
    RepF [] t v s top ->
    (exists X xv, resolve t v (focus_of o) = Some (X, xv) /\ (exists c lw, X = TList c lw)) ->
    mstepG ovf t s top o = Ok r ->
    forall fuel, (length (focus_of o) < fuel)%nat -> exec fuel ovf t s top [] (enc_op o) = Ok r).

Print Assumptions C01_flat_step_refines.
Print Assumptions C01_flat_run_refines.
Print Assumptions C01_flat_insert_index_error.
Print Assumptions C01_flat_insert_prefix_error.
Print Assumptions C01_flat_remove_range_error.
Print Assumptions C01_flat_remove_index_error.
Print Assumptions C01_flat_observable.
Print Assumptions C01_flat_reborrow.
Print Assumptions C01_notify_shift.
Print Assumptions C01_general_descent.
Print Assumptions C01_general_step_refines.
Print Assumptions C01_general_run_refines.
Print Assumptions C01_general_notify_inside.
Print Assumptions C01_general_observable.
Print Assumptions C01_general_reborrow.
Print Assumptions C01_all_ops_step_refines.
Print Assumptions C01_all_ops_run_refines.
Print Assumptions C01_dispatcher_tie.
