(* Pinned statements of C16: re-checked on every run. *)
From SF Require Import Base.Prelude Gen.Generated Gen.Gen_c16 Wire.Borsh Wire.Desc Wire.SystemWire Wire.TokenWire Wire.AtaWire Wire.TokenState Wire.WireProofs Wire.TokenStateProofs Properties.C16.
From Coq Require Import String.
Open Scope string_scope.
Open Scope list_scope.
Open Scope Z_scope.

Check (C16_ids_agree :
  SF_SYSTEM_ID = REF_SYSTEM_ID /\ SF_TOKEN_ID = REF_TOKEN_ID /\ SF_ATA_ID = REF_ATA_ID /\
  SF_RENT_ID = REF_RENT_ID /\ SF_RECENT_BLOCKHASHES_ID = REF_RECENT_BLOCKHASHES_ID).
Check (C16_u64_encoding_lossless :
  forall n, is_u64 n = true -> ref_u64_le n = borsh_u64 n /\ le_decode (ref_u64_le n) = n).
Check (C16_sys_create_account_agrees :
  forall funder new_account lamports space owner,
  sf_sys_create_account funder new_account lamports space owner = Some (ref_sys_create_account funder new_account lamports space owner)).
Check (C16_sys_assign_agrees :
  forall account owner,
  sf_sys_assign account owner = Some (ref_sys_assign account owner)).
Check (C16_sys_transfer_agrees :
  forall funder recipient lamports,
  sf_sys_transfer funder recipient lamports = Some (ref_sys_transfer funder recipient lamports)).
Check (C16_sys_advance_nonce_agrees :
  forall nonce authority,
  sf_sys_advance_nonce nonce SF_RECENT_BLOCKHASHES_ID authority = Some (ref_sys_advance_nonce nonce authority)).
Check (C16_sys_withdraw_nonce_agrees :
  forall nonce recipient rent authority lamports,
  default_or_none rent SF_RENT_ID -> sf_sys_withdraw_nonce nonce recipient SF_RECENT_BLOCKHASHES_ID rent authority lamports = Some (ref_sys_withdraw_nonce nonce authority recipient lamports)).
Check (C16_sys_initialize_nonce_agrees :
  forall nonce rent authority,
  default_or_none rent SF_RENT_ID -> sf_sys_initialize_nonce nonce SF_RECENT_BLOCKHASHES_ID rent authority = Some (ref_sys_initialize_nonce nonce authority)).
Check (C16_sys_authorize_nonce_agrees :
  forall nonce authority new_authority,
  sf_sys_authorize_nonce nonce authority new_authority = Some (ref_sys_authorize_nonce nonce authority new_authority)).
Check (C16_sys_allocate_agrees :
  forall account space,
  sf_sys_allocate account space = Some (ref_sys_allocate account space)).
Check (C16_sys_upgrade_nonce_agrees :
  forall nonce,
  sf_sys_upgrade_nonce nonce = Some (ref_sys_upgrade_nonce nonce)).
Check (C16_tok_initialize_mint_agrees :
  forall mint rent decimals mint_authority freeze_authority,
  is_u8 decimals = true -> default_or_none rent SF_RENT_ID -> sf_tok_initialize_mint mint rent decimals mint_authority freeze_authority = Some (ref_tok_initialize_mint mint mint_authority freeze_authority decimals)).
Check (C16_tok_initialize_account_agrees :
  forall account mint owner rent,
  default_or_none rent SF_RENT_ID -> sf_tok_initialize_account account mint owner rent = Some (ref_tok_initialize_account account mint owner)).
Check (C16_tok_initialize_multisig_agrees :
  forall multisig rent signers m ix,
  default_or_none rent SF_RENT_ID -> ref_tok_initialize_multisig multisig signers m = Some ix -> sf_tok_initialize_multisig multisig rent signers m = Some ix).
Check (C16_tok_transfer_agrees :
  forall source destination owner amount,
  sf_tok_transfer source destination owner amount = Some (ref_tok_transfer source destination owner [] amount)).
Check (C16_tok_approve_agrees :
  forall source delegate owner amount,
  sf_tok_approve source delegate owner amount = Some (ref_tok_approve source delegate owner [] amount)).
Check (C16_tok_revoke_agrees :
  forall source owner,
  sf_tok_revoke source owner = Some (ref_tok_revoke source owner [])).
Check (C16_tok_set_authority_agrees :
  forall account current_authority t new_authority,
  sf_tok_set_authority account current_authority t new_authority = Some (ref_tok_set_authority account new_authority t current_authority [])).
Check (C16_tok_mint_to_agrees :
  forall mint account mint_authority amount,
  sf_tok_mint_to mint account mint_authority amount = Some (ref_tok_mint_to mint account mint_authority [] amount)).
Check (C16_tok_burn_agrees :
  forall account mint owner amount,
  sf_tok_burn account mint owner amount = Some (ref_tok_burn account mint owner [] amount)).
Check (C16_tok_close_account_agrees :
  forall account destination owner,
  sf_tok_close_account account destination owner = Some (ref_tok_close_account account destination owner [])).
Check (C16_tok_freeze_account_agrees :
  forall account mint authority,
  sf_tok_freeze_account account mint authority = Some (ref_tok_freeze_account account mint authority [])).
Check (C16_tok_thaw_account_agrees :
  forall account mint authority,
  sf_tok_thaw_account account mint authority = Some (ref_tok_thaw_account account mint authority [])).
Check (C16_tok_transfer_checked_agrees :
  forall source mint destination owner amount decimals,
  is_u8 decimals = true -> sf_tok_transfer_checked source mint destination owner amount decimals = Some (ref_tok_transfer_checked source mint destination owner [] amount decimals)).
Check (C16_tok_approve_checked_agrees :
  forall source mint delegate owner amount decimals,
  is_u8 decimals = true -> sf_tok_approve_checked source mint delegate owner amount decimals = Some (ref_tok_approve_checked source mint delegate owner [] amount decimals)).
Check (C16_tok_mint_to_checked_agrees :
  forall mint account mint_authority amount decimals,
  is_u8 decimals = true -> sf_tok_mint_to_checked mint account mint_authority amount decimals = Some (ref_tok_mint_to_checked mint account mint_authority [] amount decimals)).
Check (C16_tok_burn_checked_agrees :
  forall account mint owner amount decimals,
  is_u8 decimals = true -> sf_tok_burn_checked account mint owner amount decimals = Some (ref_tok_burn_checked account mint owner [] amount decimals)).
Check (C16_tok_initialize_account2_agrees :
  forall account mint rent owner,
  default_or_none rent SF_RENT_ID -> sf_tok_initialize_account2 account mint rent owner = Some (ref_tok_initialize_account2 account mint owner)).
Check (C16_tok_sync_native_agrees :
  forall account,
  sf_tok_sync_native account = Some (ref_tok_sync_native account)).
Check (C16_tok_initialize_account3_agrees :
  forall account mint owner,
  sf_tok_initialize_account3 account mint owner = Some (ref_tok_initialize_account3 account mint owner)).
Check (C16_tok_initialize_multisig2_agrees :
  forall multisig signers m ix,
  ref_tok_initialize_multisig2 multisig signers m = Some ix -> sf_tok_initialize_multisig2 multisig signers m = Some ix).
Check (C16_tok_initialize_mint2_agrees :
  forall mint decimals mint_authority freeze_authority,
  is_u8 decimals = true -> sf_tok_initialize_mint2 mint decimals mint_authority freeze_authority = Some (ref_tok_initialize_mint2 mint mint_authority freeze_authority decimals)).
Check (C16_tok_get_account_data_size_agrees :
  forall mint,
  sf_tok_get_account_data_size mint = Some (ref_tok_get_account_data_size mint)).
Check (C16_tok_initialize_immutable_owner_agrees :
  forall account,
  sf_tok_initialize_immutable_owner account = Some (ref_tok_initialize_immutable_owner account)).
Check (C16_tok_amount_to_ui_amount_agrees :
  forall mint amount,
  sf_tok_amount_to_ui_amount mint amount = Some (ref_tok_amount_to_ui_amount mint amount)).
Check (C16_multisig_builder_domain :
  forall multisig signers m,
  (exists ix, ref_tok_initialize_multisig2 multisig signers m = Some ix) <-> (1 <= m <= 11 /\ 1 <= zlen signers <= 11 /\ m <= zlen signers)).
Check (C16_note_tok_transfer_no_multisig :
  forall s d o a s' d' o' a' signers,
  signers <> [] -> sf_tok_transfer s d o a <> Some (ref_tok_transfer s' d' o' signers a')).
Check (C16_note_tok_approve_no_multisig :
  forall s d o a s' d' o' a' signers,
  signers <> [] -> sf_tok_approve s d o a <> Some (ref_tok_approve s' d' o' signers a')).
Check (C16_note_tok_revoke_no_multisig :
  forall s o s' o' signers,
  signers <> [] -> sf_tok_revoke s o <> Some (ref_tok_revoke s' o' signers)).
Check (C16_note_tok_set_authority_no_multisig :
  forall a c t n a' c' t' n' signers,
  signers <> [] -> sf_tok_set_authority a c t n <> Some (ref_tok_set_authority a' n' t' c' signers)).
Check (C16_note_tok_mint_to_no_multisig :
  forall s d o a s' d' o' a' signers,
  signers <> [] -> sf_tok_mint_to s d o a <> Some (ref_tok_mint_to s' d' o' signers a')).
Check (C16_note_tok_burn_no_multisig :
  forall s d o a s' d' o' a' signers,
  signers <> [] -> sf_tok_burn s d o a <> Some (ref_tok_burn s' d' o' signers a')).
Check (C16_note_tok_close_account_no_multisig :
  forall s d o s' d' o' signers,
  signers <> [] -> sf_tok_close_account s d o <> Some (ref_tok_close_account s' d' o' signers)).
Check (C16_note_tok_freeze_account_no_multisig :
  forall s d o s' d' o' signers,
  signers <> [] -> sf_tok_freeze_account s d o <> Some (ref_tok_freeze_account s' d' o' signers)).
Check (C16_note_tok_thaw_account_no_multisig :
  forall s d o s' d' o' signers,
  signers <> [] -> sf_tok_thaw_account s d o <> Some (ref_tok_thaw_account s' d' o' signers)).
Check (C16_note_tok_transfer_checked_no_multisig :
  forall s m d o a c s' m' d' o' a' c' signers,
  signers <> [] -> sf_tok_transfer_checked s m d o a c <> Some (ref_tok_transfer_checked s' m' d' o' signers a' c')).
Check (C16_note_tok_approve_checked_no_multisig :
  forall s m d o a c s' m' d' o' a' c' signers,
  signers <> [] -> sf_tok_approve_checked s m d o a c <> Some (ref_tok_approve_checked s' m' d' o' signers a' c')).
Check (C16_note_tok_mint_to_checked_no_multisig :
  forall s d o a c s' d' o' a' c' signers,
  signers <> [] -> sf_tok_mint_to_checked s d o a c <> Some (ref_tok_mint_to_checked s' d' o' signers a' c')).
Check (C16_note_tok_burn_checked_no_multisig :
  forall s d o a c s' d' o' a' c' signers,
  signers <> [] -> sf_tok_burn_checked s d o a c <> Some (ref_tok_burn_checked s' d' o' signers a' c')).
Check (C16_ata_address_agrees :
  forall (pda : list (list Z) -> key -> key) wallet mint,
  sf_ata_find_address pda wallet mint = Some (ref_ata_address pda wallet mint)).
Check (C16_ata_create_agrees :
  forall (pda : list (list Z) -> key -> key) funder wallet mint system_program token_program,
  default_or_none system_program SF_SYSTEM_ID -> let tp := unwrap_or token_program SF_TOKEN_ID in sf_ata_create funder (ref_ata_address_with_program_id pda wallet mint tp) wallet mint system_program token_program = Some (ref_ata_create pda funder wallet mint tp)).
Check (C16_ata_create_idempotent_agrees :
  forall (pda : list (list Z) -> key -> key) funder wallet mint system_program token_program,
  default_or_none system_program SF_SYSTEM_ID -> let tp := unwrap_or token_program SF_TOKEN_ID in sf_ata_create_idempotent funder (ref_ata_address_with_program_id pda wallet mint tp) wallet mint system_program token_program = Some (ref_ata_create_idempotent pda funder wallet mint tp)).
Check (C16_ata_create_with_find_address :
  forall (pda : list (list Z) -> key -> key) funder wallet mint a,
  sf_ata_find_address pda wallet mint = Some a -> sf_ata_create funder a wallet mint None None = Some (ref_ata_create pda funder wallet mint REF_TOKEN_ID)).
Check (C16_ata_recover_nested_agrees :
  forall (pda : list (list Z) -> key -> key) wallet owner_mint nested_mint token_program,
  let tp := unwrap_or token_program SF_TOKEN_ID in let owner_ata := ref_ata_address_with_program_id pda wallet owner_mint tp in let destination_ata := ref_ata_address_with_program_id pda wallet nested_mint tp in let nested_ata := ref_ata_address_with_program_id pda owner_ata nested_mint tp in sf_ata_recover_nested nested_ata nested_mint destination_ata owner_ata owner_mint wallet token_program = Some (ref_ata_recover_nested pda wallet owner_mint nested_mint tp)).
Check (C16_mint_view_agrees :
  forall img m, ref_mint_unpack img = Ok m ->
  exists v, sf_mint_data_unchecked img = Ok v /\ sf_mint_validate SF_TOKEN_ID img = Ok tt /\
            (forall writable, sf_mint_data SF_TOKEN_ID writable img = Ok v) /\ sf_mint_fields v = Some m).
Check (C16_token_view_agrees :
  forall img a, ref_account_unpack img = Ok a ->
  exists v, sf_token_data_unchecked img = Ok v /\ sf_token_validate SF_TOKEN_ID img = Ok tt /\
            (forall writable, sf_token_data SF_TOKEN_ID writable img = Ok v) /\ sf_token_fields v = Some a).
Check (C16_mint_view_unchecked_agrees :
  forall img m, ref_mint_unpack_unchecked img = Ok m ->
  exists v, sf_mint_data_unchecked img = Ok v /\ sf_mint_fields v = Some m).
Check (C16_token_view_unchecked_agrees :
  forall img a, ref_account_unpack_unchecked img = Ok a ->
  exists v, sf_token_data_unchecked img = Ok v /\ sf_token_fields v = Some a).
Check (C16_layout_sizes :
  option_map total_size (sizes_of fty_size SF_MINT_LAYOUT) = Some 82%nat /\ SF_MINT_LEN = 82 /\
  option_map total_size (sizes_of fty_size SF_TOKENACC_LAYOUT) = Some 165%nat /\ SF_TOKENACC_LEN = 165).
Check (C16_note_mint_view_accepts_more :
  ref_mint_unpack mint_tag2_image = Err REF_INVALID_ACCOUNT_DATA /\
  sf_mint_validate SF_TOKEN_ID mint_tag2_image = Ok tt /\
  exists v, sf_mint_data_unchecked mint_tag2_image = Ok v /\
            view_optkey v "mint_authority" = Some None /\
            lookupf "mint_authority" v = Some (FPodKey [2; 0; 0; 0] (repeat 5 32)) /\
            pod_is_some [2; 0; 0; 0] = false /\ pod_is_none [2; 0; 0; 0] = false).

Print Assumptions C16_ids_agree.
Print Assumptions C16_u64_encoding_lossless.
Print Assumptions C16_sys_create_account_agrees.
Print Assumptions C16_sys_assign_agrees.
Print Assumptions C16_sys_transfer_agrees.
Print Assumptions C16_sys_advance_nonce_agrees.
Print Assumptions C16_sys_withdraw_nonce_agrees.
Print Assumptions C16_sys_initialize_nonce_agrees.
Print Assumptions C16_sys_authorize_nonce_agrees.
Print Assumptions C16_sys_allocate_agrees.
Print Assumptions C16_sys_upgrade_nonce_agrees.
Print Assumptions C16_tok_initialize_mint_agrees.
Print Assumptions C16_tok_initialize_account_agrees.
Print Assumptions C16_tok_initialize_multisig_agrees.
Print Assumptions C16_tok_transfer_agrees.
Print Assumptions C16_tok_approve_agrees.
Print Assumptions C16_tok_revoke_agrees.
Print Assumptions C16_tok_set_authority_agrees.
Print Assumptions C16_tok_mint_to_agrees.
Print Assumptions C16_tok_burn_agrees.
Print Assumptions C16_tok_close_account_agrees.
Print Assumptions C16_tok_freeze_account_agrees.
Print Assumptions C16_tok_thaw_account_agrees.
Print Assumptions C16_tok_transfer_checked_agrees.
Print Assumptions C16_tok_approve_checked_agrees.
Print Assumptions C16_tok_mint_to_checked_agrees.
Print Assumptions C16_tok_burn_checked_agrees.
Print Assumptions C16_tok_initialize_account2_agrees.
Print Assumptions C16_tok_sync_native_agrees.
Print Assumptions C16_tok_initialize_account3_agrees.
Print Assumptions C16_tok_initialize_multisig2_agrees.
Print Assumptions C16_tok_initialize_mint2_agrees.
Print Assumptions C16_tok_get_account_data_size_agrees.
Print Assumptions C16_tok_initialize_immutable_owner_agrees.
Print Assumptions C16_tok_amount_to_ui_amount_agrees.
Print Assumptions C16_multisig_builder_domain.
Print Assumptions C16_note_tok_transfer_no_multisig.
Print Assumptions C16_note_tok_approve_no_multisig.
Print Assumptions C16_note_tok_revoke_no_multisig.
Print Assumptions C16_note_tok_set_authority_no_multisig.
Print Assumptions C16_note_tok_mint_to_no_multisig.
Print Assumptions C16_note_tok_burn_no_multisig.
Print Assumptions C16_note_tok_close_account_no_multisig.
Print Assumptions C16_note_tok_freeze_account_no_multisig.
Print Assumptions C16_note_tok_thaw_account_no_multisig.
Print Assumptions C16_note_tok_transfer_checked_no_multisig.
Print Assumptions C16_note_tok_approve_checked_no_multisig.
Print Assumptions C16_note_tok_mint_to_checked_no_multisig.
Print Assumptions C16_note_tok_burn_checked_no_multisig.
Print Assumptions C16_ata_address_agrees.
Print Assumptions C16_ata_create_agrees.
Print Assumptions C16_ata_create_idempotent_agrees.
Print Assumptions C16_ata_create_with_find_address.
Print Assumptions C16_ata_recover_nested_agrees.
Print Assumptions C16_mint_view_agrees.
Print Assumptions C16_token_view_agrees.
Print Assumptions C16_mint_view_unchecked_agrees.
Print Assumptions C16_token_view_unchecked_agrees.
Print Assumptions C16_layout_sizes.
Print Assumptions C16_note_mint_view_accepts_more.
