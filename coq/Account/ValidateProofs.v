(* Proofs about Account/Validate.v (C08, C09). *)
From SF Require Import Base.Prelude Gen.Generated Account.Validate.

Lemma list_eqb_eq a b : list_eqb a b = true <-> a = b.
Proof.
  revert b; induction a as [|x a IH]; intros [|y b]; cbn [list_eqb]; split; intros H; try discriminate; auto.
  - apply andb_true_iff in H as [H1 H2]. apply Z.eqb_eq in H1. apply IH in H2. congruence.
  - injection H as -> ->. rewrite Z.eqb_refl. cbn. now apply IH.
Qed.

Lemma bytes_ok_app a b : bytes_ok (a ++ b) = bytes_ok a && bytes_ok b.
Proof. unfold bytes_ok. apply forallb_app. Qed.

Lemma bytes_ok_firstn n l : bytes_ok l = true -> bytes_ok (firstn n l) = true.
Proof.
  intros H. rewrite <- (firstn_skipn n l), bytes_ok_app in H. now apply andb_true_iff in H as [H _].
Qed.

Lemma bytes_ok_skipn n l : bytes_ok l = true -> bytes_ok (skipn n l) = true.
Proof.
  intros H. rewrite <- (firstn_skipn n l), bytes_ok_app in H. now apply andb_true_iff in H as [_ H].
Qed.

Lemma bytes_ok_repeat b n : is_byte b = true -> bytes_ok (repeat b n) = true.
Proof. intros H. induction n; cbn; auto. now rewrite H. Qed.

(* ---- fast_32_byte_eq ---- *)
Lemma split4 (k : list Z) : length k = 32%nat ->
  k = firstn 8 (skipn (8 * 0) k) ++ firstn 8 (skipn (8 * 1) k) ++ firstn 8 (skipn (8 * 2) k) ++ firstn 8 (skipn (8 * 3) k).
Proof.
  intros H.
  do 33 (destruct k as [|? k]; [cbn in H; try discriminate|]); [reflexivity|cbn in H; discriminate].
Qed.

Lemma chunk_len (k : list Z) i : length k = 32%nat -> (i < 4)%nat -> length (firstn 8 (skipn (8 * i) k)) = 8%nat.
Proof. intros H Hi. rewrite firstn_length, skipn_length. lia. Qed.

Lemma word_inj a b i :
  key_ok a -> key_ok b -> (i < 4)%nat -> word a i = word b i ->
  firstn 8 (skipn (8 * i) a) = firstn 8 (skipn (8 * i) b).
Proof.
  intros [La Ba] [Lb Bb] Hi H. unfold word in H.
  apply le_decode_inj; auto.
  - now apply bytes_ok_firstn, bytes_ok_skipn.
  - now apply bytes_ok_firstn, bytes_ok_skipn.
  - rewrite !chunk_len; auto.
Qed.

Lemma fast_eq_iff a b : key_ok a -> key_ok b -> (fast_eq a b = true <-> a = b).
Proof.
  intros Ha Hb. split.
  - unfold fast_eq. intros H. repeat (apply andb_true_iff in H as [H ?]). zb.
    rewrite (split4 a (proj1 Ha)), (split4 b (proj1 Hb)).
    rewrite (word_inj a b 0), (word_inj a b 1), (word_inj a b 2), (word_inj a b 3) by (auto; lia).
    reflexivity.
  - intros ->. unfold fast_eq. now rewrite !Z.eqb_refl.
Qed.

Lemma fast_eq_false a b : key_ok a -> key_ok b -> (fast_eq a b = false <-> a <> b).
Proof.
  intros Ha Hb. pose proof (fast_eq_iff a b Ha Hb) as H. destruct (fast_eq a b); split; intros; try congruence.
  - exfalso. apply H0. now apply H.
  - intros E. apply H in E. discriminate.
Qed.

(* ---- discriminant ---- *)
Lemma disc_matches_iff w d data :
  length d = w -> bytes_ok d = true -> bytes_ok data = true -> (w <= length data)%nat ->
  (disc_matches w d data = true <-> firstn w data = d).
Proof.
  intros Ld Bd Bdata Hw.
  assert (length (firstn w data) = length d) as Hl by (rewrite firstn_length; lia).
  assert (bytes_ok (firstn w data) = true) as Bf by now apply bytes_ok_firstn.
  assert (le_decode (firstn w data) =? le_decode d = true <-> firstn w data = d) as Hle.
  { split; intros H; [zb; now apply le_decode_inj|rewrite H; apply Z.eqb_refl]. }
  unfold disc_matches.
  destruct w as [|[|[|[|[|[|[|[|[|w]]]]]]]]]; try exact Hle; apply list_eqb_eq.
Qed.

Definition c08_wf (pid : key) (w : nat) (d : list Z) (a : acct) : Prop :=
  key_ok pid /\ key_ok (a_owner a) /\ length d = w /\ bytes_ok d = true /\ bytes_ok (a_data a) = true.

Lemma validate_discriminant_iff pid w d a :
  c08_wf pid w d a -> a_can_borrow a = true ->
  (validate_discriminant w d a = Ok tt <-> firstn w (a_data a) = d).
Proof.
  intros (Hp & Ho & Ld & Bd & Bdata) Hb. unfold validate_discriminant.
  destruct w as [|w'] eqn:Ew.
  - destruct d; [|discriminate]. cbn. tauto.
  - rewrite <- Ew in *. clear Ew w'.
    destruct (zlen (a_data a) <? Z.of_nat w) eqn:E.
    + zb. unfold zlen in E. split; [discriminate|]. intros H.
      assert (length (firstn w (a_data a)) = w) by (rewrite H; exact Ld).
      rewrite firstn_length in H0. lia.
    + zb. unfold zlen in E. rewrite Hb. cbn [negb].
      pose proof (disc_matches_iff w d (a_data a) Ld Bd Bdata ltac:(lia)) as Hm.
      destruct (disc_matches w d (a_data a)); split; intros H; auto; try discriminate.
      * now apply Hm.
      * apply Hm in H. discriminate.
Qed.

Lemma validate_iff pid w d a :
  c08_wf pid w d a -> a_can_borrow a = true ->
  (validate_account_info pid w d a = Ok tt <-> a_owner a = pid /\ firstn w (a_data a) = d).
Proof.
  intros Hwf Hb. pose proof (validate_discriminant_iff pid w d a Hwf Hb) as Hd.
  destruct Hwf as (Hp & Ho & _).
  unfold validate_account_info.
  destruct (validate_discriminant w d a) as [[]| | |] eqn:E; cbn [obind].
  - pose proof (fast_eq_iff _ _ Ho Hp) as Hf.
    destruct (fast_eq (a_owner a) pid); split.
    + intros _. split; [now apply Hf|now apply Hd].
    + reflexivity.
    + discriminate.
    + intros [H _]. apply Hf in H. discriminate.
  - split; [discriminate|]. intros [_ H]. apply Hd in H. discriminate.
  - split; [discriminate|]. intros [_ H]. apply Hd in H. discriminate.
  - split; [discriminate|]. intros [_ H]. apply Hd in H. discriminate.
Qed.

(* the only ways to fail: owner / size / discriminant (/ borrow) errors; never a panic or fault *)
Lemma validate_err pid w d a :
  validate_account_info pid w d a = Ok tt \/
  exists c, validate_account_info pid w d a = Err c /\
    (c = PE_INVALID_ACCOUNT_OWNER \/ c = PE_ACCOUNT_DATA_TOO_SMALL \/ c = EC_DISCRIMINANT_MISMATCH \/
     (c = PE_ACCOUNT_BORROW_FAILED /\ a_can_borrow a = false)).
Proof.
  unfold validate_account_info, validate_discriminant.
  destruct w.
  - cbn [obind]. destruct (fast_eq _ _); [left; reflexivity|right; eauto].
  - destruct (_ <? _); [right; cbn; eauto|].
    destruct (a_can_borrow a) eqn:Eb; cbn [negb]; [|right; cbn; eauto 8].
    destruct (disc_matches _ _ _); cbn [obind]; [|right; eauto 8].
    destruct (fast_eq _ _); [left; reflexivity|right; eauto].
Qed.

Lemma firstn_repeat {A} (x : A) n : firstn n (repeat x n) = repeat x n.
Proof. induction n; cbn; congruence. Qed.

Lemma closed_rejected pid w d a :
  c08_wf pid w d a -> a_can_borrow a = true -> d <> repeat 255 w ->
  validate_account_info pid w d (close w a) <> Ok tt.
Proof.
  intros (Hp & Ho & Ld & Bd & Bdata) Hb Hne H.
  assert (c08_wf pid w d (close w a)) as Hwf.
  { unfold c08_wf. cbn [close a_owner a_data]. repeat split; try assumption; try apply Hp; try apply Ho.
    now apply bytes_ok_repeat. }
  apply (validate_iff pid w d (close w a) Hwf Hb) in H.
  destruct H as [_ H]. cbn [close a_data] in H. rewrite firstn_repeat in H. congruence.
Qed.

Lemma data_revalidates pid w d a :
  a_writable a = true -> data_access pid w d a = Ok tt -> validate_account_info pid w d a = Ok tt.
Proof.
  unfold data_access. intros -> H. destruct (validate_account_info pid w d a) as [[]| | |]; cbn in H; congruence.
Qed.

Lemma data_mut_revalidates pid w d a cbm :
  data_mut_access pid w d a cbm = Ok tt -> a_writable a = true /\ validate_account_info pid w d a = Ok tt.
Proof.
  unfold data_mut_access. destruct (a_writable a); [|discriminate].
  destruct (validate_account_info pid w d a) as [[]| | |]; cbn; intros; try discriminate. auto.
Qed.

Lemma data_mut_needs_writable pid w d a cbm :
  a_writable a = false -> data_mut_access pid w d a cbm = Err PE_ACCOUNT_BORROW_FAILED.
Proof. unfold data_mut_access. now intros ->. Qed.

(* ---- C09 ---- *)
Lemma layer_check_iff a l :
  key_ok (a_key a) -> key_ok (a_owner a) -> layer_wf l -> (layer_check a l = Ok tt <-> layer_ok a l).
Proof.
  intros Hk Ho Hl. destruct l; cbn [layer_check layer_ok layer_wf] in *.
  - destruct (a_signer a); split; congruence.
  - destruct (a_writable a); split; congruence.
  - destruct b; [destruct (a_signer a)|]; split; intros; try congruence; auto. specialize (H eq_refl). discriminate.
  - destruct b; [destruct (a_writable a)|]; split; intros; try congruence; auto. specialize (H eq_refl). discriminate.
  - pose proof (fast_eq_iff _ _ Hk Hl) as H. destruct (fast_eq _ _); split; intros; try congruence; try (now apply H).
    apply H in H0. discriminate.
  - pose proof (fast_eq_iff _ _ Hk Hl) as H. destruct (fast_eq _ _); split; intros; try congruence; try (now apply H).
    apply H in H0. discriminate.
  - pose proof (fast_eq_iff _ _ Ho Hl) as H. destruct (fast_eq _ _); split; intros; try congruence; try (now apply H).
    apply H in H0. discriminate.
Qed.

Lemma layer_check_no_panic a l : layer_check a l = Ok tt \/ exists c, layer_check a l = Err c.
Proof.
  destruct l; cbn; repeat match goal with |- context [if ?c then _ else _] => destruct c end; eauto.
Qed.

Lemma validate_layers_iff a ls :
  key_ok (a_key a) -> key_ok (a_owner a) -> Forall layer_wf ls ->
  (validate_layers a ls = Ok tt <-> Forall (layer_ok a) ls).
Proof.
  intros Hk Ho. induction ls as [|l ls IH]; intros Hwf; cbn [validate_layers].
  - split; auto.
  - inversion Hwf as [|? ? Hl Hr]; subst. specialize (IH Hr).
    pose proof (layer_check_iff a l Hk Ho Hl) as Hc.
    destruct (layer_check a l) as [[]| | |] eqn:E; cbn [obind]; split; intros H.
    + constructor; [now apply Hc|now apply IH].
    + inversion H; subst. now apply IH.
    + discriminate.
    + inversion H; subst. apply Hc in H2. discriminate.
    + discriminate.
    + inversion H; subst. apply Hc in H2. discriminate.
    + discriminate.
    + inversion H; subst. apply Hc in H2. discriminate.
Qed.

(* the error reported is that of the innermost failing layer *)
Lemma validate_layers_first_error a pre l post c :
  validate_layers a pre = Ok tt -> layer_check a l = Err c -> validate_layers a (pre ++ l :: post) = Err c.
Proof.
  induction pre as [|p pre IH]; cbn [validate_layers app]; intros H1 H2.
  - now rewrite H2.
  - destruct (layer_check a p) as [[]| | |]; cbn [obind] in *; try discriminate. now apply IH.
Qed.

Lemma optional_absent prog ls : validate_optional prog None ls = Ok false.
Proof. reflexivity. Qed.

Lemma optional_present prog a ls :
  key_ok prog -> key_ok (a_key a) -> key_ok (a_owner a) -> Forall layer_wf ls -> a_key a <> prog ->
  (validate_optional prog (Some a) ls = Ok true <-> Forall (layer_ok a) ls).
Proof.
  intros Hp Hk Ho Hwf Hne. unfold validate_optional.
  apply (fast_eq_false _ _ Hk Hp) in Hne. rewrite Hne.
  pose proof (validate_layers_iff a ls Hk Ho Hwf) as H.
  destruct (validate_layers a ls) as [[]| | |]; cbn [obind]; split; intros H0; try discriminate; auto.
  - now apply H.
  - apply H in H0; discriminate.
  - apply H in H0; discriminate.
  - apply H in H0; discriminate.
Qed.

(* the documented encoding of absence: an account whose key is the program id decodes as absent *)
Lemma optional_placeholder prog a ls :
  key_ok prog -> key_ok (a_key a) -> a_key a = prog -> validate_optional prog (Some a) ls = Ok false.
Proof.
  intros Hp Hk E. unfold validate_optional. apply (fast_eq_iff _ _ Hk Hp) in E. now rewrite E.
Qed.

(* ---------------- Vec<T> ---------------- *)
Definition acct_ok (a : acct) : Prop := key_ok (a_key a) /\ key_ok (a_owner a).

Fixpoint validate_each (accs : list acct) (ls : list layer) : out unit :=
  match accs with
  | [] => Ok tt
  | a :: r => do _ <- validate_layers a ls; validate_each r ls
  end.

Lemma validate_vec_unfold accs ls form k :
  validate_vec accs ls form k =
  if (form =? 2) && (k <? zlen accs) then Err PE_INVALID_ARGUMENT
  else if (form =? 3) && negb (k =? zlen accs) then Err PE_INVALID_ARGUMENT
  else validate_each accs ls.
Proof.
  unfold validate_vec. destruct ((form =? 2) && (k <? zlen accs)); [reflexivity|].
  destruct ((form =? 3) && negb (k =? zlen accs)); [reflexivity|].
  induction accs as [|a r IH]; [reflexivity|]. cbn [validate_each]. now rewrite <- IH.
Qed.

Lemma validate_layers_no_panic a ls : validate_layers a ls = Ok tt \/ exists c, validate_layers a ls = Err c.
Proof.
  induction ls as [|l ls IH]; cbn [validate_layers]; [now left|].
  destruct (layer_check_no_panic a l) as [H|[c H]]; rewrite H; cbn [obind]; [exact IH|right; eauto].
Qed.

Lemma validate_each_iff accs ls :
  Forall acct_ok accs -> Forall layer_wf ls ->
  (validate_each accs ls = Ok tt <-> Forall (fun a => Forall (layer_ok a) ls) accs).
Proof.
  intros Ha Hwf. induction Ha as [|a r [Hk Ho] _ IH]; cbn [validate_each]; [split; auto|].
  pose proof (validate_layers_iff a ls Hk Ho Hwf) as Hl.
  destruct (validate_layers_no_panic a ls) as [H|[c H]]; rewrite H; cbn [obind].
  - split; intros H0; [constructor; [now apply Hl|now apply IH]|inversion H0; subst; now apply IH].
  - split; intros H0; [discriminate|]. inversion H0; subst.
    match goal with H1 : Forall (layer_ok a) ls |- _ => apply Hl in H1; congruence end.
Qed.

(* a Vec of accounts is accepted iff the argument form fits the number of accounts and EVERY account satisfies every layer *)
Lemma validate_vec_iff accs ls form k :
  Forall acct_ok accs -> Forall layer_wf ls ->
  (validate_vec accs ls form k = Ok tt <-> args_fit form k (zlen accs) /\ Forall (fun a => Forall (layer_ok a) ls) accs).
Proof.
  intros Ha Hwf. rewrite validate_vec_unfold. unfold args_fit.
  destruct (form =? 2) eqn:E2; destruct (form =? 3) eqn:E3; cbn [andb]; zb; try lia.
  - destruct (k <? zlen accs) eqn:E; zb.
    + split; [discriminate|intros [[H _] _]; specialize (H E2); lia].
    + rewrite (validate_each_iff accs ls Ha Hwf). split; [intros H; split; [split; intros; lia|exact H]|tauto].
  - destruct (k =? zlen accs) eqn:E; cbn [negb]; zb.
    + rewrite (validate_each_iff accs ls Ha Hwf). split; [intros H; split; [split; intros; lia|exact H]|tauto].
    + split; [discriminate|intros [[_ H] _]; specialize (H E3); lia].
  - rewrite (validate_each_iff accs ls Ha Hwf). split; [intros H; split; [split; intros; lia|exact H]|tauto].
Qed.

(* accounts after the first failing one do not change the verdict: the error is the first failing account's *)
Lemma validate_each_first_error pre a post ls c :
  validate_each pre ls = Ok tt -> validate_layers a ls = Err c -> validate_each (pre ++ a :: post) ls = Err c.
Proof.
  induction pre as [|p pre IH]; cbn [validate_each app]; intros H1 H2; [now rewrite H2|].
  destruct (validate_layers p ls) as [[]| | |]; cbn [obind] in *; try discriminate. now apply IH.
Qed.

(* in particular NO account is skipped: one failing account anywhere makes the whole Vec fail *)
Lemma validate_vec_no_account_skipped accs ls form k a :
  Forall acct_ok accs -> Forall layer_wf ls -> In a accs -> ~ Forall (layer_ok a) ls ->
  validate_vec accs ls form k <> Ok tt.
Proof.
  intros Ha Hwf Hin Hbad H. apply (validate_vec_iff accs ls form k Ha Hwf) in H as [_ H].
  rewrite Forall_forall in H. exact (Hbad (H a Hin)).
Qed.

(* ---------------- derived sets with several fields ---------------- *)
Lemma validate_fields_iff fs :
  Forall (fun '(a, ls) => acct_ok a /\ Forall layer_wf ls) fs ->
  (validate_fields fs = Ok tt <-> Forall (fun '(a, ls) => Forall (layer_ok a) ls) fs).
Proof.
  induction fs as [|[a ls] r IH]; intros Hwf; cbn [validate_fields]; [split; auto|].
  inversion Hwf as [|? ? Hf Hr]; subst. cbn beta iota in Hf. destruct Hf as [[Hk Ho] Hl]. specialize (IH Hr).
  pose proof (validate_layers_iff a ls Hk Ho Hl) as Hc.
  destruct (validate_layers_no_panic a ls) as [H|[c H]]; rewrite H; cbn [obind].
  - split; intros H0; [constructor; [now apply Hc|now apply IH]|inversion H0; subst; now apply IH].
  - split; intros H0; [discriminate|]. inversion H0 as [|? ? H1 H2]; subst. apply Hc in H1. congruence.
Qed.

(* the error of a rejected set is the error of the FIRST field (declaration order) whose account fails its own checks *)
Lemma validate_fields_first_error fs e :
  validate_fields fs = Err e ->
  exists pre a ls post,
    fs = pre ++ (a, ls) :: post /\ Forall (fun '(a', ls') => validate_layers a' ls' = Ok tt) pre /\ validate_layers a ls = Err e.
Proof.
  induction fs as [|[a ls] r IH]; cbn [validate_fields]; [discriminate|].
  destruct (validate_layers a ls) as [[]|c| |] eqn:E; cbn [obind]; intros H; try discriminate.
  - destruct (IH H) as (pre & a1 & ls1 & post & -> & Hpre & H1).
    exists ((a, ls) :: pre), a1, ls1, post. repeat split; auto.
  - injection H as ->. exists [], a, ls, r. repeat split; auto.
Qed.

Lemma validate_fields_first_error_conv pre a ls post e :
  Forall (fun '(a', ls') => validate_layers a' ls' = Ok tt) pre -> validate_layers a ls = Err e ->
  validate_fields (pre ++ (a, ls) :: post) = Err e.
Proof.
  induction pre as [|[p pl] pre IH]; cbn [validate_fields app]; intros H1 H2; [now rewrite H2|].
  inversion H1 as [|? ? Hp Hr]; subst. rewrite Hp. cbn [obind]. now apply IH.
Qed.

(* a check stays with the field it is written on: when field i pins the address k and the account given for field i has
   another key, the set is rejected - whatever the accounts of the other fields are (one of them may well have the key k) *)
Lemma validate_fields_check_stays_with_its_field fs i a ls k :
  Forall (fun '(a, ls) => acct_ok a /\ Forall layer_wf ls) fs ->
  nth_error fs i = Some (a, ls) -> In (LAddress k) ls -> a_key a <> k ->
  validate_fields fs <> Ok tt.
Proof.
  intros Hwf Hn Hin Hne H. apply (validate_fields_iff fs Hwf) in H.
  rewrite Forall_forall in H. specialize (H (a, ls) (nth_error_In _ _ Hn)). cbn beta iota in H.
  rewrite Forall_forall in H. exact (Hne (H _ Hin)).
Qed.
