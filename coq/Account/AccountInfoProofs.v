(* Proofs about the C07 model (Account/AccountInfo.v). *)
From SF Require Import Base.Prelude Gen.Generated Account.AccountInfo.

Arguments Z.add : simpl never.
Arguments Z.sub : simpl never.
Arguments Z.mul : simpl never.

Lemma MAX_INC_val : MAX_INC = 10240. Proof. reflexivity. Qed.

(* The two shapes the model covers: fields with a (positive-width) length prefix, any number of
   them; or prefix-less bytes, which only make sense as the single trailing field. *)
Definition shape_ok (lw : Z) (v : value) : Prop :=
  0 < lw \/ (lw = 0 /\ (length v <= 1)%nat).

Lemma shape_ok_nonneg lw v : shape_ok lw v -> 0 <= lw.
Proof. intros [H|[H _]]; lia. Qed.

Lemma shape_ok_set_nth lw i g v : shape_ok lw v -> shape_ok lw (set_nth i g v).
Proof. unfold shape_ok. rewrite set_nth_length. auto. Qed.

Lemma shape_ok_list lw v : 0 < lw -> shape_ok lw v.
Proof. left; assumption. Qed.

Lemma shape_ok_bytes f : shape_ok 0 [f].
Proof. right; split; [reflexivity|apply le_n]. Qed.

Lemma field_size_pos lw f : 0 <= lw -> lw <= field_size lw f.
Proof. unfold field_size. pose proof (zlen_nonneg f). lia. Qed.

Lemma fields_size_nonneg lw v : 0 <= lw -> 0 <= zsum (map (field_size lw) v).
Proof.
  intros Hlw. induction v as [|f v IH]; cbn [map zsum]; [lia|]. pose proof (field_size_pos lw f Hlw). lia.
Qed.

Lemma value_size_nonneg lw v : 0 <= lw -> DISC_W <= value_size lw v.
Proof. intros Hlw. unfold value_size. pose proof (fields_size_nonneg lw v Hlw). lia. Qed.

(* prefixed fields: every field pointer lies in [base, base + total size of the fields) and they
   are monotone *)
Lemma check_pointers_from_ok lw rend cursor base v :
  0 < lw -> cursor <= base -> 0 <= base ->
  (v = [] \/ base + zsum (map (field_size lw) v) <= rend) ->
  check_pointers_from rend cursor (field_offsets_from lw base v) = true.
Proof.
  intros Hlw. revert cursor base. induction v as [|f v IH]; intros cursor base Hc Hb Hsz; cbn [field_offsets_from check_pointers_from]; auto.
  destruct Hsz as [Hsz|Hsz]; [discriminate|]. cbn [map zsum] in Hsz.
  assert (0 <= lw) as Hlw0 by lia.
  pose proof (field_size_pos lw f Hlw0) as Hf.
  pose proof (fields_size_nonneg lw v Hlw0) as Hnn.
  rewrite !andb_true_iff. repeat split.
  - apply Z.leb_le; lia.
  - apply Z.leb_le; lia.
  - apply Z.ltb_lt; lia.
  - apply IH; lia.
Qed.

(* Either shape: the pointers are fine as long as the value fits the range and the range reaches
   past the discriminant (the prefix-less field's pointer sits at DISC_W even when the body is
   empty, i.e. AT the end of the data). *)
Lemma check_pointers_ok lw rend v :
  shape_ok lw v -> value_size lw v <= rend -> DISC_W < rend -> check_pointers lw rend v = true.
Proof.
  intros [Hlw|[-> Hlen]] H Hr; unfold check_pointers, field_offsets.
  - apply check_pointers_from_ok; unfold DISC_W; try lia.
    unfold value_size, DISC_W in H. destruct v; [left; reflexivity|right; lia].
  - destruct v as [|f [|g v]]; cbn [length] in Hlen; [reflexivity| |lia].
    cbn [field_offsets_from check_pointers_from]. unfold DISC_W in *.
    rewrite !andb_true_iff. repeat split; try reflexivity. apply Z.ltb_lt; lia.
Qed.

(* ---- value updates ---- *)
Lemma zsum_map_set_nth lw (i : nat) (f g : list Z) (v : value) :
  nth_error v i = Some f ->
  zsum (map (field_size lw) (set_nth i g v)) =
  zsum (map (field_size lw) v) - field_size lw f + field_size lw g.
Proof.
  revert i. induction v as [|h v IH]; intros [|i] H; cbn [nth_error] in H; try discriminate.
  - injection H as ->. cbn [set_nth map zsum]. lia.
  - cbn [set_nth map zsum]. rewrite (IH _ H). lia.
Qed.

Lemma value_size_set_nth lw i f g v :
  nth_error v i = Some f -> value_size lw (set_nth i g v) = value_size lw v - zlen f + zlen g.
Proof. intros H. unfold value_size. rewrite (zsum_map_set_nth lw _ _ _ _ H). unfold field_size. lia. Qed.

(* ---- the invariant ---- *)
Record Inv (orig : Z) (s : st) : Prop := mkInv {
  inv_shape : shape_ok (s_lw s) (s_val s);
  inv_len : h_dlen (s_hdr s) = value_size (s_lw s) (s_val s);
  inv_delta : h_dlen (s_hdr s) - h_delta (s_hdr s) = orig;
  inv_cap : h_delta (s_hdr s) <= MAX_INC;
  inv_excl : match s_excl s with
             | Some r => r = orig + MAX_INC /\ h_mut (s_hdr s) = true
             | None => h_mut (s_hdr s) = false
             end;
  inv_shr : h_shr (s_hdr s) = s_nsh s /\ 0 <= s_nsh s <= 7;
  inv_excl_shr : s_excl s <> None -> s_nsh s = 0;
}.

Definition size_ok (orig : Z) : Prop := 0 <= orig /\ orig + MAX_INC <= I32_MAX.

Lemma init_inv lw v w : shape_ok lw v -> Inv (value_size lw v) (init_st lw v w).
Proof.
  intros Hsh.
  constructor; cbn [init_st s_hdr s_val s_excl s_nsh s_lw h_dlen h_delta h_mut h_shr].
  - assumption.
  - reflexivity.
  - lia.
  - rewrite MAX_INC_val; lia.
  - reflexivity.
  - lia.
  - congruence.
Qed.

Lemma range_is_alloc orig s : Inv orig s -> data_mut_range_end (s_hdr s) = orig + MAX_INC.
Proof. intros [? ? Hd ? ? ? ?]. unfold data_mut_range_end. lia. Qed.

Lemma inv_fits orig s : Inv orig s -> value_size (s_lw s) (s_val s) <= orig + MAX_INC.
Proof. intros [_ Hl Hd Hc _ _ _]. lia. Qed.

Lemma inv_lw_nonneg orig s : Inv orig s -> 0 <= s_lw s.
Proof. intros [Hsh _ _ _ _ _ _]. exact (shape_ok_nonneg _ _ Hsh). Qed.

(* the pointer check of a live exclusive wrapper (range = the allocation) always passes *)
Lemma inv_pointers_ok orig s :
  size_ok orig -> Inv orig s -> check_pointers (s_lw s) (orig + MAX_INC) (s_val s) = true.
Proof.
  intros [Ho _] HI. apply check_pointers_ok.
  - apply (inv_shape _ _ HI).
  - apply (inv_fits _ _ HI).
  - rewrite MAX_INC_val. unfold DISC_W. lia.
Qed.

Ltac break_if :=
  match goal with
  | |- context [if ?c then _ else _] => destruct c eqn:?
  | H : context [if ?c then _ else _] |- _ => destruct c eqn:?
  end.

Lemma resize_ok orig s n :
  size_ok orig -> Inv orig s -> 0 <= n -> n <> value_size (s_lw s) (s_val s) -> n <= orig + MAX_INC ->
  resize_unchecked (s_hdr s) n = Ok (set_len (s_hdr s) n (h_delta (s_hdr s) + (n - h_dlen (s_hdr s)))).
Proof.
  intros [Ho Hm] [_ Hl Hd Hc _ _ _] Hn Hne Hle. unfold resize_unchecked.
  destruct (n >? I32_MAX) eqn:E1; [zb; lia|].
  destruct (n =? h_dlen (s_hdr s)) eqn:E2; [zb; lia|].
  destruct (_ >? MAX_INC) eqn:E3; [zb; lia|]. reflexivity.
Qed.

Lemma resize_too_big orig s n :
  size_ok orig -> Inv orig s -> orig + MAX_INC < n ->
  resize_unchecked (s_hdr s) n = Err PE_INVALID_ACCOUNT_DATA_REALLOC.
Proof.
  intros [Ho Hm] [_ Hl Hd Hc _ _ _] Hn. unfold resize_unchecked.
  destruct (n >? I32_MAX) eqn:E1; [reflexivity|].
  destruct (n =? h_dlen (s_hdr s)) eqn:E2; [zb; lia|].
  destruct (_ >? MAX_INC) eqn:E3; [reflexivity|]. zb. lia.
Qed.

(* One step preserves the invariant and never panics. *)
Lemma step_inv orig s o :
  size_ok orig -> Inv orig s ->
  Inv orig (fst (step s o)) /\ snd (step s o) <> [2].
Proof.
  intros Hso HI. pose proof HI as [Hsh Hl Hd Hc He Hs Hes]. pose proof (shape_ok_nonneg _ _ Hsh) as Hlw.
  destruct o; cbn [step].
  - (* BorrowMut *)
    repeat break_if; cbn [fst snd]; try (split; [assumption|discriminate]).
    split; [|discriminate].
    unfold can_borrow_mut_data in *. rewrite negb_false_iff, andb_true_iff, negb_true_iff, Z.eqb_eq in *.
    destruct Heqb1 as [Hm Hz].
    constructor; cbn; try assumption; try lia.
    split; [apply (range_is_alloc _ _ HI)|reflexivity].
  - (* RelMut *)
    destruct (s_excl s) as [r|] eqn:Ex; cbn [fst snd]; [|split; [assumption|discriminate]].
    destruct He as [-> Hm].
    rewrite (inv_pointers_ok orig s Hso HI). cbn [fst snd].
    split; [|discriminate]. constructor; cbn; try assumption; try lia; auto; try congruence.
  - (* BorrowSh *)
    break_if; cbn [fst snd]; [split; [assumption|discriminate]|].
    split; [|discriminate].
    unfold can_borrow_data in *. rewrite negb_false_iff, andb_true_iff, negb_true_iff, Z.ltb_lt in *.
    destruct Heqb as [Hm Hlt].
    constructor; cbn; try assumption; try lia.
    intros Hx. destruct (s_excl s); [destruct He; congruence|congruence].
  - (* RelSh *)
    break_if; cbn [fst snd]; [split; [assumption|discriminate]|].
    split; [|discriminate]. zb.
    constructor; cbn; try assumption; try lia.
    intros Hx. specialize (Hes Hx). lia.
  - (* Push *)
    destruct (s_excl s) as [r|] eqn:Ex; [|cbn [fst snd]; split; [assumption|discriminate]].
    destruct (nth_error (s_val s) i) as [f|] eqn:En; [|cbn [fst snd]; split; [assumption|discriminate]].
    destruct He as [-> Hm].
    destruct (n <? 0) eqn:En0; [cbn [fst snd]; split; [assumption|discriminate]|]. zb.
    destruct ((s_lw s =? U32_W) && (zlen f + n >? U32_MAX)); [cbn [fst snd]; split; [assumption|discriminate]|].
    rewrite (inv_pointers_ok orig s Hso HI). cbn [negb].
    destruct (n =? 0) eqn:Ez; [cbn [fst snd]; split; [assumption|discriminate]|]. zb.
    destruct (Z_le_gt_dec (h_dlen (s_hdr s) + n) (orig + MAX_INC)) as [Hfit|Hbig].
    + rewrite (resize_ok orig) by (try assumption; pose proof (value_size_nonneg (s_lw s) (s_val s) Hlw); unfold DISC_W in *; lia).
      cbn [fst snd]. split; [|discriminate].
      constructor; cbn; try assumption; try lia.
      * apply shape_ok_set_nth; assumption.
      * rewrite (value_size_set_nth _ _ _ _ _ En), zlen_app, zlen_zrepeat by lia. lia.
      * split; [reflexivity|assumption].
    + rewrite (resize_too_big orig) by (try assumption; lia). cbn [fst snd]. split; [assumption|discriminate].
  - (* Remove *)
    destruct (s_excl s) as [r|] eqn:Ex; [|cbn [fst snd]; split; [assumption|discriminate]].
    destruct (nth_error (s_val s) i) as [f|] eqn:En; [|cbn [fst snd]; split; [assumption|discriminate]].
    destruct He as [-> Hm].
    destruct ((s0 <? 0) || (e <? 0)) eqn:Eneg; [cbn [fst snd]; split; [assumption|discriminate]|].
    apply orb_false_iff in Eneg as [Ea Ee]. zb.
    destruct (e <? s0) eqn:Eord; [cbn [fst snd]; split; [assumption|discriminate]|]. zb.
    destruct (zlen f <? e) eqn:Ein; [cbn [fst snd]; split; [assumption|discriminate]|]. zb.
    rewrite (inv_pointers_ok orig s Hso HI). cbn [negb].
    destruct (e - s0 =? 0) eqn:Ez; [cbn [fst snd]; split; [assumption|discriminate]|]. zb.
    assert (value_size (s_lw s) (s_val s) - zlen f >= DISC_W) as Hrest.
    { pose proof (value_size_set_nth (s_lw s) i f [] (s_val s) En) as Hx. rewrite zlen_nil in Hx.
      pose proof (value_size_nonneg (s_lw s) (set_nth i [] (s_val s)) Hlw). lia. }
    rewrite (resize_ok orig) by (try assumption; unfold DISC_W in *; lia).
    cbn [fst snd]. split; [|discriminate].
    constructor; cbn; try assumption; try lia.
    + apply shape_ok_set_nth; assumption.
    + rewrite (value_size_set_nth _ _ _ _ _ En), zlen_app, zlen_ztake, zlen_zdrop by lia. lia.
    + split; [reflexivity|assumption].
  - (* Read *)
    destruct (s_excl s); [cbn [fst snd]; split; [assumption|discriminate]|].
    break_if; cbn [fst snd]; split; try assumption; discriminate.
Qed.

(* ---- reachable states ---- *)
Lemma run_inv orig s ops :
  size_ok orig -> Inv orig s ->
  Inv orig (fst (run s ops)) /\ Forall (fun ob => ob <> [2]) (snd (run s ops)).
Proof.
  intros Hso. revert s. induction ops as [|o ops IH]; intros s HI; cbn [run].
  - split; [assumption|constructor].
  - destruct (step_inv orig s o Hso HI) as [HI1 Hnp].
    destruct (step s o) as [s1 ob] eqn:Es. cbn [fst snd] in *.
    destruct (is_panic ob) eqn:Ep.
    + exfalso. destruct ob as [|x [|y r]]; cbn in Ep; try discriminate. zb. congruence.
    + specialize (IH s1 HI1). destruct (run s1 ops) as [s2 obs]. cbn [fst snd] in *.
      destruct IH as [IHa IHb]. split; [assumption|constructor; assumption].
Qed.

(* ---- the individual guarantees of the property ---- *)
Lemma borrow_mut_succeeds orig s :
  Inv orig s -> h_writable (s_hdr s) = true -> s_excl s = None -> s_nsh s = 0 ->
  snd (step s OBorrowMut) = [0] /\ s_excl (fst (step s OBorrowMut)) = Some (orig + MAX_INC).
Proof.
  intros HI Hw Hx Hn. pose proof HI as [Hsh Hl Hd Hc He [Hs Hr] Hes]. rewrite Hx in He.
  cbn [step]. rewrite Hw. unfold can_borrow_data, can_borrow_mut_data. rewrite He, Hs, Hn. cbn.
  rewrite (range_is_alloc _ _ HI). split; reflexivity.
Qed.

Lemma borrow_shared_succeeds orig s :
  Inv orig s -> s_excl s = None -> s_nsh s < 7 -> snd (step s OBorrowSh) = [0].
Proof.
  intros [Hsh Hl Hd Hc He [Hs Hr] Hes] Hx Hn. rewrite Hx in He.
  cbn [step]. unfold can_borrow_data. rewrite He, Hs. cbn.
  destruct (s_nsh s <? 7) eqn:E; [reflexivity|zb; lia].
Qed.

Lemma overlap_refused orig s :
  Inv orig s ->
  (s_excl s <> None -> step s OBorrowMut = (s, [1; E_BORROW]) /\ step s OBorrowSh = (s, [1; E_BORROW])) /\
  (0 < s_nsh s -> step s OBorrowMut = (s, [1; E_BORROW])) /\
  (s_nsh s = 7 -> step s OBorrowSh = (s, [1; E_BORROW])).
Proof.
  intros [Hsh Hl Hd Hc He [Hs Hr] Hes]. repeat split.
  - destruct (s_excl s) as [r|]; [|congruence]. destruct He as [_ Hm].
    cbn [step]. unfold can_borrow_data. rewrite Hm. cbn. destruct (h_writable (s_hdr s)); reflexivity.
  - destruct (s_excl s) as [r|]; [|congruence]. destruct He as [_ Hm].
    cbn [step]. unfold can_borrow_data. rewrite Hm. reflexivity.
  - intros Hp. cbn [step]. unfold can_borrow_data, can_borrow_mut_data. rewrite Hs.
    destruct (h_writable (s_hdr s)); cbn; [|reflexivity].
    destruct (h_mut (s_hdr s)); cbn; [reflexivity|].
    destruct (s_nsh s <? 7); cbn; [|reflexivity].
    destruct (s_nsh s =? 0) eqn:E; [zb; lia|reflexivity].
  - intros H7. cbn [step]. unfold can_borrow_data. rewrite Hs, H7.
    destruct (h_mut (s_hdr s)); reflexivity.
Qed.

Lemma readonly_refused s : h_writable (s_hdr s) = false -> step s OBorrowMut = (s, [1; E_BORROW]).
Proof. intros H. cbn [step]. rewrite H. reflexivity. Qed.

Lemma push_within_limit orig s r i f n b :
  size_ok orig -> Inv orig s -> s_excl s = Some r -> nth_error (s_val s) i = Some f ->
  0 < n -> (s_lw s = 4 -> zlen f + n <= U32_MAX) ->
  value_size (s_lw s) (s_val s) + n <= orig + MAX_INC ->
  snd (step s (OPush i n b)) = [0] /\
  s_val (fst (step s (OPush i n b))) = set_nth i (f ++ zrepeat b n) (s_val s) /\
  h_dlen (s_hdr (fst (step s (OPush i n b)))) = value_size (s_lw s) (s_val s) + n.
Proof.
  intros Hso HI Hx Hn Hpos Hu Hfit. pose proof HI as [Hsh Hl Hd Hc He Hs Hes]. pose proof (shape_ok_nonneg _ _ Hsh) as Hlw. rewrite Hx in He. destruct He as [-> Hm].
  cbn [step]. rewrite Hx, Hn.
  destruct (n <? 0) eqn:E0; [zb; lia|].
  destruct ((s_lw s =? U32_W) && (zlen f + n >? U32_MAX)) eqn:E1; [zb; unfold U32_W in *; lia|].
  rewrite (inv_pointers_ok orig s Hso HI). cbn [negb].
  destruct (n =? 0) eqn:E2; [zb; lia|].
  rewrite (resize_ok orig) by (try assumption; pose proof (value_size_nonneg (s_lw s) (s_val s) Hlw); unfold DISC_W in *; lia).
  cbn. repeat split; lia.
Qed.

Lemma push_over_limit orig s r i f n b :
  size_ok orig -> Inv orig s -> s_excl s = Some r -> nth_error (s_val s) i = Some f ->
  0 < n -> (s_lw s = 4 -> zlen f + n <= U32_MAX) ->
  orig + MAX_INC < value_size (s_lw s) (s_val s) + n ->
  step s (OPush i n b) = (s, [1; PE_INVALID_ACCOUNT_DATA_REALLOC]).
Proof.
  intros Hso HI Hx Hn Hpos Hu Hbig. pose proof HI as [Hsh Hl Hd Hc He Hs Hes]. pose proof (shape_ok_nonneg _ _ Hsh) as Hlw. rewrite Hx in He. destruct He as [-> Hm].
  cbn [step]. rewrite Hx, Hn.
  destruct (n <? 0) eqn:E0; [zb; lia|].
  destruct ((s_lw s =? U32_W) && (zlen f + n >? U32_MAX)) eqn:E1; [zb; unfold U32_W in *; lia|].
  rewrite (inv_pointers_ok orig s Hso HI). cbn [negb].
  destruct (n =? 0) eqn:E2; [zb; lia|].
  rewrite (resize_too_big orig) by (try assumption; lia). reflexivity.
Qed.

Lemma read_observes_current orig s :
  Inv orig s -> (s_excl s <> None \/ 0 < s_nsh s) ->
  step s ORead = (s, 0 :: value_size (s_lw s) (s_val s) :: observe_value (s_val s)).
Proof.
  intros [_ Hl _ _ _ _ _] H. cbn [step]. rewrite Hl.
  destruct (s_excl s); [reflexivity|]. destruct H as [H|H]; [congruence|].
  destruct (0 <? s_nsh s) eqn:E; [reflexivity|zb; lia].
Qed.
