(* C07 model: the runtime account header (pinocchio `Account`), its borrow state, resizing, and
   star_frame's `AccountInfo::data_mut` / `Account<T>::data{,_mut}` borrow protocol
   (star_frame/src/unsize/wrapper.rs 53-87, account_set/account.rs 123-151,
   pinocchio-0.9.2 account_info.rs 366-460, 517-566).

   The account's value is a generated unsized struct behind an 8-byte account discriminant, in
   one of the two shapes the harness instantiates, told apart by the width `lw` of the length
   prefix in front of every field's bytes (carried in the machine state as `s_lw`):
     lw = 4: k = 1..3 fields, each a `List<u8>` (u32 length prefix + items);
     lw = 0: a single `RemainingBytes` field (`#[unsized_start] rest: RemainingBytes`), no prefix
             at all, so that the body can be EMPTY (data length = exactly the discriminant).
   The
   byte-level behaviour of the containers is the business of the Unsized model (C01/C02); here
   the value is kept abstractly as the list of its fields' contents and the pointers held by an
   exclusive wrapper are the layout offsets of the fields (that the resize notifications keep
   them there is C01's theorem, and is part of what the correspondence check compares).

   No proofs in this file. *)
From SF Require Import Base.Prelude Gen.Generated.

Definition MAX_INC : Z := MAX_PERMITTED_DATA_INCREASE.
Definition I32_MAX : Z := 2147483647.
Definition DISC_W : Z := 8.
Definition U32_W : Z := 4.     (* width of a `List<u8>` length prefix; the other width in use is 0 *)
Definition U32_MAX : Z := 4294967295.

(* pinocchio's borrow_state byte, abstracted: bit 3 clear <-> h_mut; 7 - (bits 0..2) = h_shr *)
Record hdr := mkHdr {
  h_dlen : Z;        (* data_len *)
  h_delta : Z;       (* resize_delta (i32) *)
  h_mut : bool;      (* an exclusive data borrow is outstanding *)
  h_shr : Z;         (* number of outstanding shared data borrows, 0..7 *)
  h_writable : bool;
}.

Definition can_borrow_data (h : hdr) : bool := negb (h_mut h) && (h_shr h <? 7).
Definition can_borrow_mut_data (h : hdr) : bool := negb (h_mut h) && (h_shr h =? 0).

Definition set_len (h : hdr) (dlen delta : Z) : hdr :=
  mkHdr dlen delta (h_mut h) (h_shr h) (h_writable h).
Definition set_mut (h : hdr) (m : bool) : hdr :=
  mkHdr (h_dlen h) (h_delta h) m (h_shr h) (h_writable h).
Definition set_shr (h : hdr) (s : Z) : hdr :=
  mkHdr (h_dlen h) (h_delta h) (h_mut h) s (h_writable h).

(* AccountInfo::resize_unchecked *)
Definition resize_unchecked (h : hdr) (new_len : Z) : out hdr :=
  if new_len >? I32_MAX then Err PE_INVALID_ACCOUNT_DATA_REALLOC
  else if new_len =? h_dlen h then Ok h
  else
    let difference := new_len - h_dlen h in
    let acc := h_delta h + difference in
    if acc >? MAX_INC then Err PE_INVALID_ACCOUNT_DATA_REALLOC
    else Ok (set_len h new_len acc).

(* ---- the account's value and its layout ---- *)
Definition value := list (list Z).

Definition field_size (lw : Z) (f : list Z) : Z := lw + zlen f.
Definition value_size (lw : Z) (v : value) : Z := DISC_W + zsum (map (field_size lw) v).

(* offsets (relative to the start of the account data) of the fields' ListPtr / RemainingBytesPtr *)
Fixpoint field_offsets_from (lw : Z) (base : Z) (v : value) : list Z :=
  match v with
  | [] => []
  | f :: r => base :: field_offsets_from lw (base + field_size lw f) r
  end.
Definition field_offsets (lw : Z) (v : value) : list Z := field_offsets_from lw DISC_W v.

(* UnsizedTypePtr::check_pointers for the generated struct of ListPtr's (or its one
   RemainingBytesPtr): every pointer is at or after the cursor (which then moves to it) and inside
   `range` = [0, range_end) relative to the data start.  With lw = 0 and an empty body the one
   pointer sits at DISC_W = the data length, which is inside the range as long as the range is the
   allocation and not the current data. *)
Fixpoint check_pointers_from (range_end cursor : Z) (offs : list Z) : bool :=
  match offs with
  | [] => true
  | a :: r => (cursor <=? a) && ((0 <=? a) && (a <? range_end)) && check_pointers_from range_end a r
  end.
Definition check_pointers (lw : Z) (range_end : Z) (v : value) : bool :=
  check_pointers_from range_end 0 (field_offsets lw v).

(* `AccountInfo::data_mut`: the range in which the wrapper's pointers must stay, relative to the
   data start: [0, current_len + MAX - resize_delta).                                         *)
Definition data_mut_range_end (h : hdr) : Z := h_dlen h + MAX_INC - h_delta h.

(* ---- machine state ---- *)
Record st := mkSt {
  s_hdr : hdr;
  s_val : value;
  s_excl : option Z;   (* live exclusive wrapper: its range end *)
  s_nsh : Z;           (* live shared wrappers held by the program *)
  s_lw : Z;            (* width of the fields' length prefix: 4 (List<u8>) or 0 (RemainingBytes); never changes *)
}.

Inductive op :=
| OBorrowMut            (* Account::data_mut() *)
| ORelMut               (* drop the exclusive wrapper *)
| OBorrowSh             (* Account::data() *)
| ORelSh                (* drop the most recent shared wrapper *)
| OPush (i : nat) (n : Z) (b : Z)   (* field i: push_all of n copies of byte b (through the exclusive wrapper);
                                       for the prefix-less field: append n bytes b *)
| ORemove (i : nat) (s e : Z)       (* field i: remove_range(s..e); for the prefix-less field: that byte range *)
| ORead.                (* read lengths and checksums of every field through whichever borrow is live *)

(* error codes *)
Definition E_BORROW : Z := PE_ACCOUNT_BORROW_FAILED.

Definition upd_hdr (s : st) (h : hdr) : st := mkSt h (s_val s) (s_excl s) (s_nsh s) (s_lw s).

(* observation helpers *)
Definition checksum (f : list Z) : Z := fold_left (fun a b => (a * 31 + b) mod 65521) f 7.
Definition observe_value (v : value) : list Z :=
  flat_map (fun f => [zlen f; checksum f]) v.

Definition SKIP : list Z := [9].

(* One step: new state and the observation printed for it. *)
Definition step (s : st) (o : op) : st * list Z :=
  let h := s_hdr s in
  let lw := s_lw s in
  match o with
  | OBorrowMut =>
      (* the harness never holds two exclusive wrappers; a second request while one is live is
         still issued and must be refused *)
      if negb (h_writable h) then (s, [1; E_BORROW])
      else if negb (can_borrow_data h) then (s, [1; E_BORROW])       (* validate_discriminant *)
      else if negb (can_borrow_mut_data h) then (s, [1; E_BORROW])   (* try_borrow_mut_data *)
      else
        let h' := set_mut h true in
        (mkSt h' (s_val s) (Some (data_mut_range_end h)) (s_nsh s) lw, [0])
  | ORelMut =>
      match s_excl s with
      | None => (s, SKIP)
      | Some rend =>
          (* ExclusiveTopDrop::drop asserts check_pointers; then the RefMut is released *)
          let s' := mkSt (set_mut h false) (s_val s) None (s_nsh s) lw in
          if check_pointers lw rend (s_val s) then (s', [0]) else (s', [2])
      end
  | OBorrowSh =>
      if negb (can_borrow_data h) then (s, [1; E_BORROW])
      else (mkSt (set_shr h (h_shr h + 1)) (s_val s) (s_excl s) (s_nsh s + 1) lw, [0])
  | ORelSh =>
      if s_nsh s <=? 0 then (s, SKIP)
      else (mkSt (set_shr h (h_shr h - 1)) (s_val s) (s_excl s) (s_nsh s - 1) lw, [0])
  | OPush i n b =>
      match s_excl s, nth_error (s_val s) i with
      | Some rend, Some f =>
          if n <? 0 then (s, SKIP) else
          (* List::insert_all: new length must fit the u32 prefix; no prefix, no such limit *)
          if (lw =? U32_W) && (zlen f + n >? U32_MAX) then (s, [1; EC_TO_PRIMITIVE_ERROR])
          (* add_bytes: debug_assert check_pointers, then realloc *)
          else if negb (check_pointers lw rend (s_val s)) then (s, [2])
          else if n =? 0 then (s, [0])
          else
            match resize_unchecked h (h_dlen h + n) with
            | Ok h' => (mkSt h' (set_nth i (f ++ zrepeat b n) (s_val s)) (s_excl s) (s_nsh s) lw, [0])
            | Err c => (s, [1; c])
            | _ => (s, [2])
            end
      | _, _ => (s, SKIP)
      end
  | ORemove i a e =>
      match s_excl s, nth_error (s_val s) i with
      | Some rend, Some f =>
          if (a <? 0) || (e <? 0) then (s, SKIP) else
          if e <? a then (s, [1; EC_INVALID_RANGE])
          else if zlen f <? e then (s, [1; EC_INDEX_OUT_OF_BOUNDS])
          else if negb (check_pointers lw rend (s_val s)) then (s, [2])
          else if e - a =? 0 then (s, [0])
          else
            match resize_unchecked h (h_dlen h - (e - a)) with
            | Ok h' =>
                (mkSt h' (set_nth i (ztake a f ++ zdrop e f) (s_val s)) (s_excl s) (s_nsh s) lw, [0])
            | Err c => (s, [1; c])
            | _ => (s, [2])
            end
      | _, _ => (s, SKIP)
      end
  | ORead =>
      match s_excl s with
      | Some _ => (s, 0 :: h_dlen h :: observe_value (s_val s))
      | None =>
          if 0 <? s_nsh s then (s, 0 :: h_dlen h :: observe_value (s_val s)) else (s, SKIP)
      end
  end.

(* A panic ends the case (the harness stops driving the account after catching one). *)
Definition is_panic (ob : list Z) : bool :=
  match ob with [x] => x =? 2 | _ => false end.

Fixpoint run (s : st) (ops : list op) : st * list (list Z) :=
  match ops with
  | [] => (s, [])
  | o :: r =>
      let '(s1, ob) := step s o in
      if is_panic ob then (s1, [ob]) else
      let '(s2, obs) := run s1 r in
      (s2, ob :: obs)
  end.

Definition init_st (lw : Z) (v : value) (writable : bool) : st :=
  mkSt (mkHdr (value_size lw v) 0 false 0 writable) v None 0 lw.

(* ---- case decoding for the correspondence runner ---- *)
(* case := writable :: k :: len_0 .. len_{k-1} :: ops ; initial field i holds len_i copies
   of byte (i+1).  k = 1..3: that many `List<u8>` fields (width 4).  k = 0: the prefix-less account,
   ONE field of width 0, and ONE length follows (the initial number of body bytes, possibly 0):
   writable :: 0 :: len_0 :: ops ; field index 0 addresses the single field.  op encodings: 1 BorrowMut | 2 RelMut | 3 BorrowSh | 4 RelSh | 5 i n b Push |
   6 i s e Remove | 7 Read *)
Fixpoint decode_ops (fuel : nat) (l : list Z) : list op :=
  match fuel with
  | O => []
  | S k =>
      match l with
      | 1 :: r => OBorrowMut :: decode_ops k r
      | 2 :: r => ORelMut :: decode_ops k r
      | 3 :: r => OBorrowSh :: decode_ops k r
      | 4 :: r => ORelSh :: decode_ops k r
      | 5 :: i :: n :: b :: r => OPush (Z.to_nat i) n b :: decode_ops k r
      | 6 :: i :: a :: e :: r => ORemove (Z.to_nat i) a e :: decode_ops k r
      | 7 :: r => ORead :: decode_ops k r
      | _ => []
      end
  end.

Fixpoint init_fields (i : Z) (lens : list Z) : value :=
  match lens with
  | [] => []
  | n :: r => zrepeat i n :: init_fields (i + 1) r
  end.

Definition run_c07 (input : list Z) : list Z :=
  match input with
  | w :: k :: rest =>
      let lw := if k =? 0 then 0 else U32_W in
      let nf := if k =? 0 then 1 else k in
      let lens := ztake nf rest in
      let ops := decode_ops (length rest) (zdrop nf rest) in
      let s0 := init_st lw (init_fields 1 lens) (negb (w =? 0)) in
      let '(s1, obs) := run s0 ops in
      concat (map (fun ob => zlen ob :: ob) obs) ++ [h_dlen (s_hdr s1); h_delta (s_hdr s1)]
  | _ => []
  end.
