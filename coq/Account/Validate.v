(* C08 / C09 models: program-account admission (owner + discriminant), account modifiers, the
   fast 32-byte key comparison.  Sources: star_frame/src/account_set/mod.rs 33-124
   (validate_account_info, validate_discriminant), account.rs 123-151 (data / data_mut),
   single_set.rs (check_signer, check_writable, check_key, close_account), program.rs, sysvar.rs,
   system_account.rs, modifiers/{signer,mutable}.rs, impls/option.rs, util.rs 71-73.
   No proofs in this file. *)
From SF Require Import Base.Prelude Gen.Generated.

Definition key := list Z.   (* 32 bytes *)

Fixpoint list_eqb (a b : list Z) : bool :=
  match a, b with
  | [], [] => true
  | x :: a', y :: b' => (x =? y) && list_eqb a' b'
  | _, _ => false
  end.

(* util::fast_32_byte_eq: the two arrays are compared as four little-endian u64 words *)
Definition word (k : key) (i : nat) : Z := le_decode (firstn 8 (skipn (8 * i) k)).
Definition fast_eq (a b : key) : bool :=
  (word a 0 =? word b 0) && (word a 1 =? word b 1) && (word a 2 =? word b 2) && (word a 3 =? word b 3).

Record acct := mkAcct {
  a_key : key;
  a_owner : key;
  a_signer : bool;
  a_writable : bool;
  a_data : list Z;
  a_can_borrow : bool;      (* pinocchio can_borrow_data: no exclusive borrow, < 7 shared *)
}.

(* ---------------- C08 ---------------- *)
(* width-specialised comparison of validate_discriminant *)
Definition disc_matches (w : nat) (d data : list Z) : bool :=
  match w with
  | 1%nat | 2%nat | 4%nat | 8%nat => le_decode (firstn w data) =? le_decode d
  | _ => list_eqb (firstn w data) d
  end.

Definition validate_discriminant (w : nat) (d : list Z) (a : acct) : out unit :=
  match w with
  | O => Ok tt
  | _ =>
    if zlen (a_data a) <? Z.of_nat w then Err PE_ACCOUNT_DATA_TOO_SMALL
    else if negb (a_can_borrow a) then Err PE_ACCOUNT_BORROW_FAILED
    else if disc_matches w d (a_data a) then Ok tt
    else Err EC_DISCRIMINANT_MISMATCH
  end.

Definition validate_account_info (pid : key) (w : nat) (d : list Z) (a : acct) : out unit :=
  do _ <- validate_discriminant w d a;
  if fast_eq (a_owner a) pid then Ok tt else Err PE_INVALID_ACCOUNT_OWNER.

(* the typed view the harness asks for is AccountDiscriminant<struct { list: List<u8> }>: skip the
   discriminant, read a u32 length, require that many bytes (each step is a checked try_advance) *)
Definition parse_view (w : nat) (data : list Z) : out unit :=
  if zlen data <? Z.of_nat w then Err EC_RAW_SLICE_ADVANCE else
  let rest := skipn w data in
  if zlen rest <? 4 then Err EC_RAW_SLICE_ADVANCE else
  if zlen rest - 4 <? le_decode (firstn 4 rest) then Err EC_RAW_SLICE_ADVANCE else Ok tt.

(* Account::data(): writable accounts are re-validated on every access *)
Definition data_access (pid : key) (w : nat) (d : list Z) (a : acct) : out unit :=
  do _ <- (if a_writable a then validate_account_info pid w d a else Ok tt);
  if a_can_borrow a then parse_view w (a_data a) else Err PE_ACCOUNT_BORROW_FAILED.

(* Account::data_mut(): refused for read-only accounts *)
Definition data_mut_access (pid : key) (w : nat) (d : list Z) (a : acct) (can_borrow_mut : bool) : out unit :=
  if a_writable a then
    do _ <- validate_account_info pid w d a;
    if can_borrow_mut then parse_view w (a_data a) else Err PE_ACCOUNT_BORROW_FAILED
  else Err PE_ACCOUNT_BORROW_FAILED.

(* CanCloseAccount::close_account: data := w bytes of 0xFF (lamports are C13's business) *)
Definition close (w : nat) (a : acct) : acct :=
  mkAcct (a_key a) (a_owner a) (a_signer a) (a_writable a) (repeat 255 w) (a_can_borrow a).

(* ---------------- C09 ---------------- *)
Inductive layer :=
| LSigner                       (* Signer<_> = MaybeSigner<true,_> *)
| LMut                          (* Mut<_> = MaybeMut<true,_> *)
| LMaybeSigner (b : bool)
| LMaybeMut (b : bool)
| LProgram (id : key)           (* Program<P>::check_id *)
| LAddress (k : key)            (* #[validate(address = ..)] / Sysvar<T> *)
| LSystemAccount (sys : key).   (* owner must be the system program *)

Definition layer_check (a : acct) (l : layer) : out unit :=
  match l with
  | LSigner => if a_signer a then Ok tt else Err EC_EXPECTED_SIGNER
  | LMut => if a_writable a then Ok tt else Err EC_EXPECTED_WRITABLE
  | LMaybeSigner b => if b then (if a_signer a then Ok tt else Err EC_EXPECTED_SIGNER) else Ok tt
  | LMaybeMut b => if b then (if a_writable a then Ok tt else Err EC_EXPECTED_WRITABLE) else Ok tt
  | LProgram id => if fast_eq (a_key a) id then Ok tt else Err PE_INCORRECT_PROGRAM_ID
  | LAddress k => if fast_eq (a_key a) k then Ok tt else Err EC_ADDRESS_MISMATCH
  | LSystemAccount sys => if fast_eq (a_owner a) sys then Ok tt else Err PE_ILLEGAL_OWNER
  end.

(* layers are listed innermost first: "Evaluate wrapping as inner before outer" *)
Fixpoint validate_layers (a : acct) (ls : list layer) : out unit :=
  match ls with
  | [] => Ok tt
  | l :: r => do _ <- layer_check a l; validate_layers a r
  end.

(* Option<T>: absent when no account is left or the next account is the current program *)
Definition validate_optional (prog : key) (a : option acct) (ls : list layer) : out bool :=
  match a with
  | None => Ok false
  | Some a =>
      if fast_eq (a_key a) prog then Ok false
      else do _ <- validate_layers a ls; Ok true
  end.

(* Vec<T> of single-account sets validated as a whole (account_set/impls/vec.rs 158-224): every element in order with
   the element's own argument; the argument forms are 0 = `()`, 1 = `(TA,)` (cloned for every element), 2 = `Vec<TA>` with
   k arguments (at least one per account, surplus ignored), 3 = `[TA; k]` (exactly one per account); any other form code
   stands for a container without an argument-count condition: the fixed-size array `[T; n]` with `()`, `(TA,)`, `[TA; n]`
   (impls/array.rs 112-145: codes 4, 5, 6) and `Rest<T>` (rest.rs 28-34: code 7) *)
Definition validate_vec (accs : list acct) (ls : list layer) (form k : Z) : out unit :=
  if (form =? 2) && (k <? zlen accs) then Err PE_INVALID_ARGUMENT
  else if (form =? 3) && negb (k =? zlen accs) then Err PE_INVALID_ARGUMENT
  else (fix go (l : list acct) : out unit :=
          match l with
          | [] => Ok tt
          | a :: r => do _ <- validate_layers a ls; go r
          end) accs.

(* a derived account set with SEVERAL fields (star_frame_proc account_set/struct_impl/validate.rs): the generated
   validate_accounts validates the unskipped fields in declaration order (no `requires` between them), each field with ITS
   OWN stack of checks - the `#[validate(address = ..)]` written on a field is checked against that field's account - and
   the first error is returned.  A field is the pair (the account decoded into it, its layer list); nested sets flatten *)
Fixpoint validate_fields (fs : list (acct * list layer)) : out unit :=
  match fs with
  | [] => Ok tt
  | (a, ls) :: r => do _ <- validate_layers a ls; validate_fields r
  end.

Definition args_fit (form k n : Z) : Prop := (form = 2 -> n <= k) /\ (form = 3 -> k = n).

(* plain specification the layers are compared with *)
Definition layer_ok (a : acct) (l : layer) : Prop :=
  match l with
  | LSigner => a_signer a = true
  | LMut => a_writable a = true
  | LMaybeSigner b => b = true -> a_signer a = true
  | LMaybeMut b => b = true -> a_writable a = true
  | LProgram id => a_key a = id
  | LAddress k => a_key a = k
  | LSystemAccount sys => a_owner a = sys
  end.

Definition key_ok (k : key) : Prop := length k = 32%nat /\ bytes_ok k = true.

Definition layer_wf (l : layer) : Prop :=
  match l with
  | LProgram id | LAddress id | LSystemAccount id => key_ok id
  | _ => True
  end.

(* ---------------- runner entry points ---------------- *)
Definition bool_of_z (z : Z) : bool := negb (z =? 0).

(* c08 case: w :: d (w) :: pid (32) :: owner (32) :: writable :: canborrow :: canborrowmut :: closefirst :: data *)
Definition run_c08 (input : list Z) : list Z :=
  match input with
  | wz :: rest =>
      let w := Z.to_nat wz in
      let d := firstn w rest in
      let r1 := skipn w rest in
      let pid := firstn 32 r1 in
      let r2 := skipn 32 r1 in
      let owner := firstn 32 r2 in
      match skipn 32 r2 with
      | wr :: cb :: cbm :: cl :: data =>
          let a0 := mkAcct (repeat 9 32) owner false (bool_of_z wr) data (bool_of_z cb) in
          let a := if bool_of_z cl then close w a0 else a0 in
          out_tag (validate_account_info pid w d a)
          ++ out_tag (data_access pid w d a)
          ++ out_tag (data_mut_access pid w d a (bool_of_z cbm))
      | _ => []
      end
  | _ => []
  end.

(* c09 case: prog(32) :: present :: key(32) :: owner(32) :: signer :: writable :: optional :: layers
   layer encoding: 1 | 2 | 3 b | 4 b | 5 id(32) | 6 k(32) | 7 sys(32) *)
Fixpoint decode_layers (fuel : nat) (l : list Z) : list layer :=
  match fuel with
  | O => []
  | S k =>
      match l with
      | 1 :: r => LSigner :: decode_layers k r
      | 2 :: r => LMut :: decode_layers k r
      | 3 :: b :: r => LMaybeSigner (bool_of_z b) :: decode_layers k r
      | 4 :: b :: r => LMaybeMut (bool_of_z b) :: decode_layers k r
      | 5 :: r => LProgram (firstn 32 r) :: decode_layers k (skipn 32 r)
      | 6 :: r => LAddress (firstn 32 r) :: decode_layers k (skipn 32 r)
      | 7 :: r => LSystemAccount (firstn 32 r) :: decode_layers k (skipn 32 r)
      | 8 :: r => decode_layers k r   (* Box<_>: no check *)
      | 9 :: r => decode_layers k r   (* nested struct: no check *)
      | _ => []   (* in particular 10 n, the harness marker "which validate id pins / validates" that ends a layer list *)
      end
  end.

Definition run_c09 (input : list Z) : list Z :=
  let prog := firstn 32 input in
  match skipn 32 input with
  | present :: r0 =>
      let k := firstn 32 r0 in
      let r1 := skipn 32 r0 in
      let owner := firstn 32 r1 in
      match skipn 32 r1 with
      | sg :: wr :: opt :: ls =>
          let a := mkAcct k owner (bool_of_z sg) (bool_of_z wr) [] true in
          let layers := decode_layers (length ls) ls in
          if bool_of_z opt then
            match validate_optional prog (if bool_of_z present then Some a else None) layers with
            | Ok b => [0; if b then 1 else 0]
            | o => out_tag o
            end
          else
            if bool_of_z present then out_tag (validate_layers a layers)
            else [1; EC_ADVANCE_ERROR]
      | _ => []
      end
  | _ => []
  end.

(* c09v case: prog(32) :: form :: k :: n :: n * (key(32) owner(32) signer writable) :: layers *)
Fixpoint decode_accts (n : nat) (l : list Z) : list acct * list Z :=
  match n with
  | O => ([], l)
  | S m =>
      let k := firstn 32 l in
      let r1 := skipn 32 l in
      let owner := firstn 32 r1 in
      match skipn 32 r1 with
      | sg :: wr :: r2 =>
          let '(rest, tail) := decode_accts m r2 in
          (mkAcct k owner (bool_of_z sg) (bool_of_z wr) [] true :: rest, tail)
      | _ => ([], [])
      end
  end.

Definition run_c09v (input : list Z) : list Z :=
  match skipn 32 input with
  | form :: k :: n :: r =>
      let '(accs, ls) := decode_accts (Z.to_nat n) r in
      out_tag (validate_vec accs (decode_layers (length ls) ls) form k)
  | _ => []
  end.

(* c09s case: prog(32) :: shape :: nf :: nf * (key(32) owner(32) signer writable nl <nl integers: the field's layer list in
   the encoding of decode_layers>).  `shape` only selects the Rust type in the harness: the model ignores it *)
Fixpoint decode_fields (n : nat) (l : list Z) : list (acct * list layer) :=
  match n with
  | O => []
  | S m =>
      let k := firstn 32 l in
      let r1 := skipn 32 l in
      let owner := firstn 32 r1 in
      match skipn 32 r1 with
      | sg :: wr :: nl :: r2 =>
          let ls := firstn (Z.to_nat nl) r2 in
          (mkAcct k owner (bool_of_z sg) (bool_of_z wr) [] true, decode_layers (length ls) ls)
            :: decode_fields m (skipn (Z.to_nat nl) r2)
      | _ => []
      end
  end.

Definition run_c09s (input : list Z) : list Z :=
  match skipn 32 input with
  | _shape :: nf :: r => out_tag (validate_fields (decode_fields (Z.to_nat nf) r))
  | _ => []
  end.
