(* C19 - facts about the layout functions of Meta/Layout.v (all proofs; no model definitions). *)
From SF Require Import Base.Prelude Meta.Layout.

Lemma round_up_1 x : round_up x 1 = x.
Proof. unfold round_up. cbn. replace (x + 1 - 1) with x by lia. rewrite Z.div_1_r. lia. Qed.

Lemma round_up_ge x a : x <= round_up x a.
Proof.
  unfold round_up. destruct (a <=? 0) eqn:E; [lia|]. apply Z.leb_gt in E.
  pose proof (Z.div_mod (x + a - 1) a ltac:(lia)) as H.
  pose proof (Z.mod_pos_bound (x + a - 1) a ltac:(lia)) as Hb.
  rewrite Z.mul_comm. lia.
Qed.

Lemma cap_pos r a : 0 < a -> (forall p, r_packed r = Some p -> 0 < p) -> 0 < cap r a.
Proof. unfold cap. intros Ha Hp. destruct (r_packed r) as [p|]; [specialize (Hp p eq_refl)|]; lia. Qed.

Lemma max_align_ge1 r fs : 1 <= max_align r fs.
Proof. induction fs as [|f t IH]; cbn [max_align]; lia. Qed.

Lemma max_align_all1 r fs :
  (forall f, In f fs -> cap r (falign f) = 1) -> max_align r fs = 1.
Proof.
  induction fs as [|f t IH]; intros H; cbn [max_align]; [reflexivity|].
  rewrite (H f (or_introl eq_refl)), IH; [reflexivity|]. intros g Hg. apply H. now right.
Qed.

Lemma cap_packed1 r a : r_packed r = Some 1 -> 1 <= a -> cap r a = 1.
Proof. unfold cap. intros -> H. lia. Qed.

Lemma max_align_packed1 r fs :
  r_packed r = Some 1 -> (forall f, In f fs -> 1 <= falign f) -> max_align r fs = 1.
Proof. intros Hp H. apply max_align_all1. intros f Hf. apply cap_packed1; auto. Qed.

(* the offsets a padding-free layout would have *)
Fixpoint prefix_offsets (cur : Z) (fs : list field) : list Z :=
  match fs with [] => [] | f :: t => cur :: prefix_offsets (cur + fsize f) t end.

Lemma c_layout_end_ge r fs : forall cur, cur + zsum (sizes fs) <= snd (c_layout r cur fs).
Proof.
  induction fs as [|f t IH]; intros cur; cbn [c_layout sizes map zsum snd]; [lia|].
  destruct (c_layout r (round_up cur (cap r (falign f)) + fsize f) t) as [os e] eqn:E.
  cbn [snd]. specialize (IH (round_up cur (cap r (falign f)) + fsize f)). rewrite E in IH. cbn [snd] in IH.
  pose proof (round_up_ge cur (cap r (falign f))). unfold sizes in *. lia.
Qed.

(* no padding at all  =>  every field sits at the sum of the sizes before it *)
Lemma c_layout_tight r fs : forall cur,
  snd (c_layout r cur fs) = cur + zsum (sizes fs) -> fst (c_layout r cur fs) = prefix_offsets cur fs.
Proof.
  induction fs as [|f t IH]; intros cur H; cbn [c_layout sizes map zsum snd fst prefix_offsets] in *; [reflexivity|].
  destruct (c_layout r (round_up cur (cap r (falign f)) + fsize f) t) as [os e] eqn:E.
  cbn [snd fst] in *.
  pose proof (c_layout_end_ge r t (round_up cur (cap r (falign f)) + fsize f)) as Hge. rewrite E in Hge. cbn [snd] in Hge.
  pose proof (round_up_ge cur (cap r (falign f))) as Hr. unfold sizes in *.
  assert (Ho : round_up cur (cap r (falign f)) = cur) by lia.
  rewrite Ho in *. f_equal.
  specialize (IH (cur + fsize f)). rewrite E in IH. cbn [snd fst] in IH. apply IH. lia.
Qed.

Lemma c_layout_packed1 r fs : forall cur,
  r_packed r = Some 1 -> (forall f, In f fs -> 1 <= falign f) ->
  c_layout r cur fs = (prefix_offsets cur fs, cur + zsum (sizes fs)).
Proof.
  induction fs as [|f t IH]; intros cur Hp H; cbn [c_layout sizes map zsum prefix_offsets]; [f_equal; lia|].
  rewrite (cap_packed1 r _ Hp (H f (or_introl eq_refl))), round_up_1.
  rewrite IH; auto. 2:{ intros g Hg. apply H. now right. }
  unfold sizes. f_equal. lia.
Qed.

(* repr(.., packed) without align(N): alignment 1, size = sum of the field sizes, whatever the fields are *)
Lemma packed1_struct r fs :
  r_packed r = Some 1 -> r_align r = None -> (forall f, In f fs -> 1 <= falign f) ->
  struct_align r fs = 1 /\ struct_size r fs = zsum (sizes fs)
  /\ c_offsets r fs = prefix_offsets 0 fs.
Proof.
  intros Hp Ha H.
  assert (A : struct_align r fs = 1).
  { unfold struct_align, raise. rewrite Ha. now apply max_align_packed1. }
  split; [exact A|]. unfold struct_size, c_end, c_offsets. rewrite A, !round_up_1, c_layout_packed1 by auto.
  cbn [snd fst]. split; [destruct (r_base r); lia|reflexivity].
Qed.

(* a repr(C)-ordered struct whose size is the sum of its field sizes has every field at its prefix sum *)
Lemma no_padding_offsets r fs :
  r_base r <> BRust -> struct_size r fs = zsum (sizes fs) -> c_offsets r fs = prefix_offsets 0 fs.
Proof.
  intros Hb Hs. unfold c_offsets. apply c_layout_tight.
  unfold struct_size in Hs.
  assert (Hs' : round_up (c_end r fs) (struct_align r fs) = zsum (sizes fs)) by (destruct (r_base r); congruence).
  pose proof (round_up_ge (c_end r fs) (struct_align r fs)).
  pose proof (c_layout_end_ge r fs 0). unfold c_end in *. lia.
Qed.

Lemma list_min_all l n : l <> [] -> Forall (fun x => x = n) l -> list_min l = Some n.
Proof.
  induction l as [|x r IH]; intros Hn H; [congruence|].
  inversion H as [|? ? Hx Hr]; subst. cbn [list_min].
  destruct r as [|y r']; [reflexivity|]. rewrite IH by (auto; congruence). f_equal. lia.
Qed.

Lemma list_min_pos l m : Forall (fun x => 0 < x) l -> list_min l = Some m -> 0 < m.
Proof.
  revert m; induction l as [|x r IH]; intros m H E; [discriminate|].
  inversion H as [|? ? Hx Hr]; subst. cbn [list_min] in E.
  destruct (list_min r) as [k|]; inversion E; subst; [specialize (IH k Hr eq_refl)|]; lia.
Qed.

Lemma list_max_le l n m : Forall (fun x => x <= n) l -> list_max l = Some m -> m <= n.
Proof.
  revert m; induction l as [|x r IH]; intros m H E; [discriminate|].
  inversion H as [|? ? Hx Hr]; subst. cbn [list_max] in E.
  destruct (list_max r) as [k|]; inversion E; subst; [specialize (IH k Hr eq_refl)|]; lia.
Qed.

Lemma packs_app a b : packs (a ++ b) = packs a ++ packs b.
Proof. induction a as [|i a IH]; [reflexivity|]. destruct i; cbn [app packs]; now rewrite ?IH. Qed.
Lemma aligns_app a b : aligns (a ++ b) = aligns a ++ aligns b.
Proof. induction a as [|i a IH]; [reflexivity|]. destruct i; cbn [app aligns]; now rewrite ?IH. Qed.
Lemma bases_app a b : bases (a ++ b) = bases a ++ bases b.
Proof. unfold bases. apply filter_app. Qed.

Lemma pow2_pos x : pow2 x = true -> 0 < x.
Proof. unfold pow2. intros H. apply andb_true_iff in H as [H _]. apply andb_true_iff in H as [H _]. now apply Z.ltb_lt. Qed.

Lemma first_int_bases l k : bases l = [IInt k] -> first_int l = Some k.
Proof.
  induction l as [|i r IH]; intros H; [discriminate|].
  destruct i; cbn [bases filter is_base first_int] in *; try (apply IH; exact H); try discriminate.
  inversion H; reflexivity.
Qed.

Lemma first_int_none l : (forall k, ~ In (IInt k) (bases l)) -> first_int l = None.
Proof.
  induction l as [|i r IH]; intros H; [reflexivity|].
  destruct i; cbn [bases filter is_base first_int] in *; try (apply IH; intros k Hk; apply (H k); cbn; auto; fail).
  exfalso. apply (H k). now left.
Qed.

Lemma c_layout_cap1 r fs : forall cur,
  (forall f, In f fs -> cap r (falign f) = 1) ->
  c_layout r cur fs = (prefix_offsets cur fs, cur + zsum (sizes fs)).
Proof.
  induction fs as [|f t IH]; intros cur H; cbn [c_layout sizes map zsum prefix_offsets]; [f_equal; lia|].
  rewrite (H f (or_introl eq_refl)), round_up_1.
  rewrite IH by (intros g Hg; apply H; now right).
  unfold sizes. f_equal. lia.
Qed.

(* every field 1-aligned, no align(N): no padding in any representation *)
Lemma all1_struct r fs :
  r_align r = None -> (forall f, In f fs -> cap r (falign f) = 1) ->
  struct_align r fs = 1 /\ struct_size r fs = zsum (sizes fs).
Proof.
  intros Ha H.
  assert (A : struct_align r fs = 1) by (unfold struct_align, raise; rewrite Ha; now apply max_align_all1).
  split; [exact A|]. unfold struct_size, c_end. rewrite A, !round_up_1, c_layout_cap1 by auto.
  cbn [snd]. destruct (r_base r); lia.
Qed.
