(* C19 - the DECISIONS of the safety-marker macros, transcribed from the proc-macro sources (no proofs here).

     star_frame_proc/src/util/repr.rs        the macros' own parser of #[repr(..)]            (sf_parse, sf_get_repr)
     star_frame_proc/src/align1.rs           #[derive(Align1)]                               (align1_struct, align1_enum)
     star_frame_proc/src/zero_copy.rs        #[zero_copy(..)]                                (zc_attrs, zc_accepts)
     star_frame_proc/src/unsize/struct_impl.rs  the generated packed sized part, ZST_STATUS  (sized_accepts, struct_status)
     star_frame_proc/src/unsize/enum_impl.rs    ZST_STATUS of an unsized enum                 (enum_status)
     bytemuck_derive-1.10.1/src/traits.rs    the derives zero_copy delegates to              (the bm_ functions)

   `reject_align` parameterises the Align1 derive: `true` is the REPAIRED rule (an `align(N)` hint with N > 1 aborts
   the derive - proposed/C19-align1-fix.patch), `false` is the code as shipped when D13 was found.  The runner and
   the main theorems use `true`. *)
From SF Require Import Base.Prelude Meta.Layout.

(* ------------------------------------------------------------------------------------------ *)
(* a field as the macros and the compiler see it: layout, which marker traits its type implements, whether its
   type is the item's type parameter, and its own bit-pattern validator (CheckedBitPattern::is_valid_bit_pattern) *)
Record fld := mkFld {
  f_size : Z; f_align : Z;
  f_a1 : bool;            (* an `Align1` impl applies to the field's type *)
  f_nouninit : bool; f_zeroable : bool; f_checked : bool; f_pod : bool;
  f_param : bool;         (* the type is the type parameter T (instantiated: the other components describe the instance),
                             or a tuple one of whose elements is T *)
  f_valid : list Z -> bool
}.
Definition lay (f : fld) : field := (f_size f, f_align f).
Definition lays (fs : list fld) : list field := map lay fs.
Definition fsum (fs : list fld) : Z := zsum (map f_size fs).

Inductive form := FStruct | FTuple | FEnum | FUnion.
Record decl := mkDecl {
  d_form : form;
  d_generic : bool;                 (* one type parameter T *)
  d_attrs : attrs;                  (* the #[repr(..)] attributes the derive sees, in order *)
  d_variants : list (list fld)      (* structs / unions: exactly one list; enums: one per variant *)
}.
Definition d_fields (d : decl) : list fld := match d_variants d with v :: _ => v | [] => [] end.
Definition kind_of (f : form) : kind := match f with FEnum => KEnum | FUnion => KUnion | _ => KStruct end.

(* ------------------------------------------------------------------------------------------ *)
(* util/repr.rs                                                                                *)
Inductive sf_base := SRust | SC | STransparent | SInt (k : Z).
Inductive sf_mod := MPacked (n : Z) | MAlign (n : Z).
Record sf_repr := mkSf { s_base : sf_base; s_mod : option sf_mod }.
Definition sf_default : sf_repr := mkSf SRust None.

Definition u32_ok (n : Z) : bool := (0 <=? n) && (n <? 4294967296).     (* LitInt::base10_parse::<u32> *)

(* impl Parse for Representation (repr.rs 146-214): the items of ONE attribute, left to right *)
Fixpoint sf_parse (ret : sf_repr) (items : list ritem) : option sf_repr :=
  match items with
  | [] => Some ret
  | IPacked n :: rest =>                                                   (* 156-176 *)
      match s_mod ret with
      | Some (MAlign _) => None                                            (* "duplicate representation hint" *)
      | Some (MPacked m) =>
          if u32_ok n && (m =? n) then sf_parse (mkSf (s_base ret) (Some (MPacked n))) rest else None
      | None => if u32_ok n then sf_parse (mkSf (s_base ret) (Some (MPacked n))) rest else None
      end
  | IAlign n :: rest =>                                                    (* 177-194 *)
      match s_mod ret with
      | Some (MPacked _) => None
      | Some (MAlign a) => if u32_ok n then sf_parse (mkSf (s_base ret) (Some (MAlign (Z.max n a)))) rest else None
      | None => if u32_ok n then sf_parse (mkSf (s_base ret) (Some (MAlign (Z.max n 1)))) rest else None   (* unwrap_or(1) *)
      end
  | b :: rest =>                                                           (* 154-155, 195-210 *)
      match s_base ret with
      | SRust => sf_parse (mkSf (match b with IC => SC | ITransparent => STransparent | IInt k => SInt k | _ => SRust end)
                                (s_mod ret)) rest
      | _ => None                                                          (* "duplicate representation hint" *)
      end
  end.

(* the fold of get_repr (repr.rs 29-49) *)
Definition sf_combine_base (a b : sf_base) : option sf_base :=            (* 30-34 *)
  match a, b with
  | x, SRust => Some x
  | SRust, y => Some y
  | _, _ => None                                                          (* "conflicting representation hints" *)
  end.
Definition sf_combine_mod (a b : option sf_mod) : option (option sf_mod) :=   (* 35-48 *)
  match a, b with
  | Some (MPacked x), Some (MPacked y) => if x =? y then Some (Some (MPacked x)) else None   (* "conflicting packed size" *)
  | Some (MAlign x), Some (MAlign y) => Some (Some (MAlign (Z.max x y)))
  | Some _, Some _ => None                                                (* "conflicting representation hints" *)
  | x, None => Some x
  | None, y => Some y
  end.
Definition sf_combine (a b : sf_repr) : option sf_repr :=
  match sf_combine_base (s_base a) (s_base b), sf_combine_mod (s_mod a) (s_mod b) with
  | Some bs, Some m => Some (mkSf bs m)
  | _, _ => None
  end.

Fixpoint sf_fold (acc : sf_repr) (ats : attrs) : option sf_repr :=
  match ats with
  | [] => Some acc
  | a :: rest =>
      match sf_parse sf_default a with
      | None => None
      | Some b => match sf_combine acc b with None => None | Some c => sf_fold c rest end
      end
  end.
Definition sf_get_repr (ats : attrs) : option sf_repr := sf_fold sf_default ats.

(* Representation::is_packed (repr.rs 132-134) *)
Definition is_packed (r : sf_repr) : bool :=
  match s_mod r with Some (MPacked n) => n =? 1 | _ => false end.

(* the repaired rule: an align(N) hint with N > 1 *)
Definition over_aligned (r : sf_repr) : bool :=
  match s_mod r with Some (MAlign n) => 1 <? n | _ => false end.

(* ------------------------------------------------------------------------------------------ *)
(* align1.rs                                                                                   *)
(* derive_align1_for_struct (23-44), also used for unions (16-18): None = the derive aborts; Some bs = an
   `unsafe impl Align1` is emitted whose where-clause bounds the types of the fields bs *)
Definition align1_struct (reject_align : bool) (ats : attrs) (fs : list fld) : option (list fld) :=
  match sf_get_repr ats with
  | None => None
  | Some r => if reject_align && over_aligned r then None
              else Some (if is_packed r then [] else fs)
  end.

(* derive_align1_for_enum (46-77) *)
Inductive enum_out := EAbort | EPlain | EAssert.      (* EAssert: impl + static_assertions::assert_eq_align!(T, u8) *)
Definition is_u8 (b : sf_base) : bool := match b with SInt k => k =? 0 | _ => false end.
Definition has_data (vs : list (list fld)) : bool := existsb (fun v => negb (is_nil v)) vs.
Definition align1_enum (reject_align : bool) (ats : attrs) (generic : bool) (vs : list (list fld)) : enum_out :=
  match sf_get_repr ats with
  | None => EAbort
  | Some r =>
      if negb (is_u8 (s_base r)) then EAbort                              (* "Align1 requires repr(u8) for enums" *)
      else if reject_align && over_aligned r then EAbort
      else if has_data vs then (if generic then EAbort else EAssert)      (* 59-72 *)
      else EPlain
  end.

(* ------------------------------------------------------------------------------------------ *)
(* the compiler's side of a declaration                                                        *)
Definition nontrivial_count (fs : list fld) : Z :=
  zlen (filter (fun f => f_param f || negb ((f_size f =? 0) && (f_align f =? 1))) fs).
Definition uses_param (d : decl) : bool := existsb (existsb f_param) (d_variants d).

Definition rustc_ok (d : decl) : bool :=
  rustc_repr_ok (kind_of (d_form d)) (d_attrs d) (zlen (d_variants d)) (nontrivial_count (d_fields d))
  && (negb (d_generic d) || uses_param d)                                 (* E0392 unused type parameter *)
  && match d_form d with
     | FUnion => negb (is_nil (d_fields d))                               (* unions cannot have zero fields *)
     | FEnum => true
     | _ => zlen (d_variants d) =? 1
     end.

Definition decl_repr (d : decl) : repr := rustc_repr (d_attrs d).
Definition decl_align (d : decl) : Z :=
  match d_form d with
  | FEnum => enum_align (decl_repr d) (map lays (d_variants d))
  | _ => struct_align (decl_repr d) (lays (d_fields d))
  end.
Definition decl_size (d : decl) : Z :=
  match d_form d with
  | FEnum => enum_size (decl_repr d) (map lays (d_variants d))
  | FUnion => union_size (decl_repr d) (lays (d_fields d))
  | _ => struct_size (decl_repr d) (lays (d_fields d))
  end.

(* the fields whose types the emitted impl bounds by `Align1` *)
Definition align1_bounded (reject_align : bool) (d : decl) : list fld :=
  match d_form d with
  | FEnum => []
  | _ => match align1_struct reject_align (d_attrs d) (d_fields d) with Some bs => bs | None => [] end
  end.

(* `T: Align1` is certified for the declaration: the attribute is legal Rust, the derive emits an impl, every bound
   of the impl holds (trivially-false bounds are errors at the impl; bounds on T are checked where the impl is used)
   and the static assertion, when emitted, passes *)
Definition align1_accepts (reject_align : bool) (d : decl) : bool :=
  rustc_ok d &&
  match d_form d with
  | FEnum => match align1_enum reject_align (d_attrs d) (d_generic d) (d_variants d) with
             | EAbort => false
             | EPlain => true
             | EAssert => decl_align d =? 1
             end
  | _ => match align1_struct reject_align (d_attrs d) (d_fields d) with
         | None => false
         | Some bs => forallb f_a1 bs
         end
  end.

(* ------------------------------------------------------------------------------------------ *)
(* bytemuck_derive 1.10.1, traits.rs: its own repr parser (1208-1238, 1322-1380) and the checks of the derives
   zero_copy uses.  Modelled for structs and unit-only enums (enums with data-carrying variants are outside the
   modelled grammar: bm_* return false for them). *)
Inductive bm_base := MRust | MC | MTransparent | MInt (k : Z) | MCInt (k : Z).
Record bm_repr := mkBm { b_base : bm_base; b_packed : option Z; b_align : option Z }.
Definition bm_default : bm_repr := mkBm MRust None None.

Fixpoint bm_parse (ret : bm_repr) (items : list ritem) : option bm_repr :=
  match items with
  | [] => Some ret
  | IPacked n :: rest => if u32_ok n then bm_parse (mkBm (b_base ret) (Some n) (b_align ret)) rest else None
  | IAlign n :: rest =>
      if u32_ok n then bm_parse (mkBm (b_base ret) (b_packed ret)
                                      (Some (match b_align ret with Some a => Z.max a n | None => n end))) rest
      else None
  | b :: rest =>
      match b_base ret, b with
      | MRust, IC => bm_parse (mkBm MC (b_packed ret) (b_align ret)) rest
      | MRust, ITransparent => bm_parse (mkBm MTransparent (b_packed ret) (b_align ret)) rest
      | MRust, IInt k => bm_parse (mkBm (MInt k) (b_packed ret) (b_align ret)) rest
      | MC, IInt k => bm_parse (mkBm (MCInt k) (b_packed ret) (b_align ret)) rest
      | MInt k, IC => bm_parse (mkBm (MCInt k) (b_packed ret) (b_align ret)) rest
      | _, _ => None
      end
  end.

Definition bm_combine_base (a b : bm_base) : option bm_base :=
  match a, b with | x, MRust => Some x | MRust, y => Some y | _, _ => None end.
Definition bm_combine_packed (a b : option Z) : option (option Z) :=
  match a, b with | x, None => Some x | None, y => Some y | _, _ => None end.
Definition bm_combine (a b : bm_repr) : option bm_repr :=
  match bm_combine_base (b_base a) (b_base b), bm_combine_packed (b_packed a) (b_packed b) with
  | Some bs, Some pk =>
      Some (mkBm bs pk (match b_align a, b_align b with
                        | Some x, Some y => Some (Z.max x y) | x, None => x | None, y => y end))
  | _, _ => None
  end.

Fixpoint bm_fold (acc : bm_repr) (ats : attrs) : option bm_repr :=
  match ats with
  | [] => Some acc
  | a :: rest =>
      match bm_parse bm_default a with
      | None => None
      | Some b => match bm_combine acc b with None => None | Some c => bm_fold c rest end
      end
  end.
Definition bm_get_repr (ats : attrs) : option bm_repr := bm_fold bm_default ats.

Definition bm_c_or_transparent (b : bm_base) : bool := match b with MC | MTransparent => true | _ => false end.
Definition bm_c_or_int (b : bm_base) : bool := match b with MC | MInt _ => true | _ => false end.

(* generate_assert_no_padding (1049-1086): `size_of::<T>() == sum of size_of of the fields`, a const assertion
   evaluated by rustc with the real layout *)
Definition no_padding_assert (d : decl) : bool := decl_size d =? fsum (d_fields d).

(* NoUninit (228-350) *)
Definition bm_nouninit (d : decl) : bool :=
  match bm_get_repr (d_attrs d) with
  | None => false
  | Some r =>
      match d_form d with
      | FUnion => false
      | FEnum => negb (has_data (d_variants d)) && bm_c_or_int (b_base r) && negb (d_generic d)
      | _ => bm_c_or_transparent (b_base r) && negb (d_generic d)
             && no_padding_assert d && forallb f_nouninit (d_fields d)
      end
  end.

(* CheckedBitPattern (352-440) *)
Definition bm_checked (d : decl) : bool :=
  match bm_get_repr (d_attrs d) with
  | None => false
  | Some r =>
      match d_form d with
      | FUnion => false
      | FEnum => negb (has_data (d_variants d)) && bm_c_or_int (b_base r) && negb (d_generic d)
      | _ => bm_c_or_transparent (b_base r) && negb (d_generic d) && forallb f_checked (d_fields d)
      end
  end.

(* Zeroable (158-226): enums need an explicit repr and a variant with discriminant 0 (implicit discriminants start
   at 0, so: at least one variant) *)
Definition bm_zeroable (d : decl) : bool :=
  match bm_get_repr (d_attrs d) with
  | None => false
  | Some r =>
      match d_form d with
      | FUnion => true
      | FEnum => negb (has_data (d_variants d))
                 && match b_base r with MC | MInt _ | MCInt _ => true | _ => false end
                 && (0 <? zlen (d_variants d))
      | _ => forallb f_zeroable (d_fields d)
      end
  end.

(* Pod (59-113) *)
Definition bm_pod (d : decl) : bool :=
  match bm_get_repr (d_attrs d) with
  | None => false
  | Some r =>
      match d_form d with
      | FUnion | FEnum => false
      | _ =>
          let completely_packed := match b_packed r with Some p => p =? 1 | None => false end
                                   || match b_base r with MTransparent => true | _ => false end in
          bm_c_or_transparent (b_base r)
          && (completely_packed || negb (d_generic d))
          && (completely_packed || no_padding_assert d)
          && forallb f_pod (d_fields d)
      end
  end.

(* ------------------------------------------------------------------------------------------ *)
(* zero_copy.rs                                                                                *)
Record zc_args := mkZc { zc_pod : bool; zc_skip_packed : bool }.

(* 30-47: structs get `#[repr(C, packed)]` (or `#[repr(C,)]` with skip_packed) in front of the item's own
   attributes; enums get nothing *)
Definition zc_attrs (a : zc_args) (d : decl) : attrs :=
  match d_form d with
  | FEnum => d_attrs d
  | _ => (IC :: (if zc_skip_packed a then [] else [IPacked 1])) :: d_attrs d
  end.
Definition zc_decl (a : zc_args) (d : decl) : decl :=
  mkDecl (d_form d) (d_generic d) (zc_attrs a d) (d_variants d).

(* 23-28 unions abort; 30-42 pod / skip_packed abort on enums; 49-59 the derive list
   Copy, Clone, Align1, Zeroable, and Pod | CheckedBitPattern + NoUninit (all field types of the grammar are Copy) *)
Definition zc_accepts (reject_align : bool) (a : zc_args) (d : decl) : bool :=
  match d_form d with
  | FUnion => false
  | FEnum =>
      negb (zc_pod a) && negb (zc_skip_packed a) && negb (has_data (d_variants d))
      && align1_accepts reject_align (zc_decl a d) && bm_zeroable (zc_decl a d)
      && bm_checked (zc_decl a d) && bm_nouninit (zc_decl a d)
  | _ =>
      align1_accepts reject_align (zc_decl a d) && bm_zeroable (zc_decl a d)
      && (if zc_pod a then bm_pod (zc_decl a d)
          else bm_checked (zc_decl a d) && bm_nouninit (zc_decl a d))
  end.

(* the generated `is_valid_bit_pattern` of a struct (bytemuck_derive generate_checked_bit_pattern_struct; the
   generic sized part writes the same conjunction by hand, struct_impl.rs 493-503): the `Bits` struct has the same
   repr attributes and fields of the same sizes, and every field's validator is applied to that field of `Bits` *)
Fixpoint fields_valid (fs : list fld) (offs : list Z) (bytes : list Z) : bool :=
  match fs, offs with
  | f :: ft, o :: ot => f_valid f (ztake (f_size f) (zdrop o bytes)) && fields_valid ft ot bytes
  | _, _ => true
  end.
Definition struct_valid (d : decl) (bytes : list Z) : bool :=
  fields_valid (d_fields d) (c_offsets (decl_repr d) (lays (d_fields d))) bytes.

(* unit-only enum with implicit discriminants 0 .. n-1: `*bits >= 0 && *bits <= n-1` over `Bits = u8`
   (generate_checked_bit_pattern_enum_without_fields 719-777) *)
Definition enum_valid (d : decl) (bytes : list Z) : bool :=
  match bytes with [b] => (0 <=? b) && (b <? zlen (d_variants d)) | _ => false end.

(* bytemuck::checked::try_from_bytes::<T>(bytes).is_ok() on a suitably aligned buffer: the length must be
   size_of::<T::Bits>() = size_of::<T>() and the bit pattern valid *)
Definition checked_ok (d : decl) (bytes : list Z) : bool :=
  (zlen bytes =? decl_size d) &&
  match d_form d with
  | FEnum => enum_valid d bytes
  | _ => struct_valid d bytes
  end.

(* ------------------------------------------------------------------------------------------ *)
(* unsize/struct_impl.rs: the generated sized part                                             *)
(* the PhantomData field added for generic structs (324-329; first field of the Bits struct 409-416) *)
Definition phantom_fld : fld := mkFld 0 1 true true true true true false (fun _ => true).

(* sized_struct (314-354): `#[derive(Align1, <bytemuck derives unless generic>)] #[repr(C, packed)] struct XSized`;
   sized_bytemuck_derives (402-505): for generic structs an assertion that every sized field is
   NoUninit + Zeroable + CheckedBitPattern (427-431) and hand-written impls *)
Definition sized_attrs : attrs := [[IC; IPacked 1]].
Definition sized_decl (generic : bool) (fs : list fld) : decl :=
  mkDecl FStruct generic sized_attrs [if generic then fs ++ [phantom_fld] else fs].
Definition sized_accepts (reject_align : bool) (generic : bool) (fs : list fld) : bool :=
  let d := sized_decl generic fs in
  align1_accepts reject_align d &&
  (if generic
   then forallb (fun f => f_nouninit f && f_zeroable f && f_checked f) fs
   else bm_checked d && bm_nouninit d && bm_zeroable d).

(* ------------------------------------------------------------------------------------------ *)
(* ZST_STATUS.  An unsized type's status is `true` when it has no zero-sized component, `false` when its LAST
   component may be zero sized, and evaluating it panics (= the program does not compile) when a zero-sized
   component sits anywhere else (unsize/mod.rs 43-45). *)
Inductive uty :=
| UChecked (size : Z)                     (* a CheckedBitPattern value: checked.rs 68  `size_of::<T>() != 0` *)
| UList                                   (* List<T, u32>: list.rs 354  `size_of::<L>() != 0` *)
| URemaining                              (* RemainingBytes: remaining_bytes.rs 65  `false` *)
| UStruct (sized : option Z) (fs : list uty)    (* #[unsized_type] struct: optional sized part of that size, then fields *)
| UEnum (vs : list (option uty)).               (* #[unsized_type] #[repr(u8)] enum: per variant None = unit variant,
                                                   Some t = one payload of type t (enum_impl.rs 104-127) *)

(* the generated const (struct_impl.rs 642-647) over `with_sized_types` = sized part (if any) ++ unsized fields:
   `#(if !<all_but_last>::ZST_STATUS { panic!(..) })*  <last>::ZST_STATUS`;  None = the evaluation panics.
   The empty list cannot occur: split_last().expect("self should have fields") (613-615) *)
Fixpoint struct_status (cs : list (option bool)) : option bool :=
  match cs with
  | [] => None
  | [c] => c
  | c :: rest => match c with Some true => struct_status rest | _ => None end
  end.

Definition sized_status (s : option Z) : list (option bool) :=
  match s with Some n => [Some (negb (n =? 0))] | None => [] end.

(* the generated const of an unsized enum (enum_impl.rs 450-452) over the payload types of its data-carrying variants
   (unit variants contribute nothing): `true #(&& <payload>::ZST_STATUS)*`.  Every mentioned const is evaluated
   (a required const of the initialiser, whatever `&&` short-circuits), so a payload whose own evaluation panics
   makes the enum's evaluation fail; otherwise the value is the conjunction *)
Fixpoint enum_status (cs : list (option bool)) : option bool :=
  match cs with
  | [] => Some true
  | None :: _ => None
  | Some b :: rest => match enum_status rest with Some r => Some (b && r) | None => None end
  end.

(* the payload types of the data-carrying variants, in declaration order (filtered_variant_types) *)
Fixpoint data_variants (vs : list (option uty)) : list uty :=
  match vs with
  | [] => []
  | Some t :: r => t :: data_variants r
  | None :: r => data_variants r
  end.

Fixpoint zst_status (t : uty) : option bool :=
  match t with
  | UChecked n => Some (negb (n =? 0))
  | UList => Some true
  | URemaining => Some false
  | UStruct s fs => struct_status (sized_status s ++ map zst_status fs)
  | UEnum vs => enum_status (flat_map (fun v => match v with Some p => [zst_status p] | None => [] end) vs)
  end.

(* the least number of bytes a value of the type occupies *)
Fixpoint min_size (t : uty) : Z :=
  match t with
  | UChecked n => n
  | UList => 4
  | URemaining => 0
  | UStruct s fs => (match s with Some n => n | None => 0 end) + zsum (map min_size fs)
  | UEnum _ => 1          (* the discriminant is always present (repr(u8): one byte, enum_impl.rs 457, 476), then the
                             payload of the current variant - nothing for a unit variant.  A lower bound for enums
                             without a unit variant *)
  end.

(* the components of a struct, as uty values (the sized part is one CheckedBitPattern value) *)
Definition components (s : option Z) (fs : list uty) : list uty :=
  (match s with Some n => [UChecked n] | None => [] end) ++ fs.

(* #[unsized_type] struct, opened through the wrapper API (wrapper.rs 104, 195 evaluate ZST_STATUS).
   unnamed fields abort (struct_impl.rs 144-146); item-level #[repr] attributes are not looked at and not
   re-emitted (restrict_attributes only walks the FIELDS' attributes, util/mod.rs 83-96, 160-182). *)
Definition unsized_accepts (reject_align : bool) (generic : bool) (inst_ok : bool) (sized : list fld) (ufs : list uty) : bool :=
  negb (is_nil ufs)
  && (is_nil sized || sized_accepts reject_align generic sized)
  && (negb generic || (inst_ok && existsb f_param sized))
  && match zst_status (UStruct (if is_nil sized then None else Some (fsum sized)) ufs) with
     | Some _ => true
     | None => false
     end.

(* ========================================================================================== *)
(* the correspondence runner: decode the integer encoding of lib/props/c19.py, decide, observe  *)

Inductive vkind := VAny | VBool | VLe2 | VNonZero.
Definition valid_of (k : vkind) (bytes : list Z) : bool :=
  match k with
  | VAny => true
  | VBool => forallb (fun b => (b =? 0) || (b =? 1)) bytes
  | VLe2 => forallb (fun b => (0 <=? b) && (b <=? 2)) bytes
  | VNonZero => forallb (fun b => negb (b =? 0)) bytes
  end.

(*                       size align a1 nouninit zeroable checked pod *)
Definition mk (s a : Z) (a1 nu ze ch pod : bool) (k : vkind) : fld := mkFld s a a1 nu ze ch pod false (valid_of k).
Definition pod_fld (s a : Z) : fld := mk s a (a =? 1) true true true true VAny.

(* a tuple type (E1, .., En) as a field type.  Layout: a repr(Rust) aggregate of its elements (Layout.v: alignment =
   the largest element alignment, size = the sum rounded up to it).  Marker traits:
     Align1     star_frame/src/align1.rs 40-66 `unsafe impl<T1..Tn> Align1 for (T1, .., Tn) where T1: Align1, .., Tn: Align1`
                (arities 1..16): a tuple is Align1 iff EVERY element is
     Zeroable   bytemuck 1.23.2 zeroable.rs 122-170 (arities 1..8): iff every element is
     Pod / NoUninit / CheckedBitPattern   no impl for tuples (CheckedBitPattern only through the blanket impl for Pod)
   so every zero_copy flavour and the generated sized part reject a tuple field; f_valid is never consulted *)
Definition rust_repr : repr := mkRepr BRust None None.
Definition tuple_fld (es : list fld) : fld :=
  mkFld (struct_size rust_repr (lays es)) (struct_align rust_repr (lays es))
        (forallb f_a1 es) false (forallb f_zeroable es) false false (existsb f_param es) (fun _ => false).

(* the field-type menu (same codes as FIELDS in lib/props/c19.py); traits as implemented by star_frame
   (align1.rs 28-66, packed_value.rs), solana-pubkey and bytemuck 1.23.2 *)
Definition u8_fld : fld := pod_fld 1 1.
Definition bool_fld : fld := mk 1 1 true true true true false VBool.
Definition menu (c : Z) : option fld :=
  if c =? 0 then Some (pod_fld 1 1)                                       (* u8 *)
  else if c =? 1 then Some (mk 1 1 true true true true false VBool)        (* bool *)
  else if c =? 2 then Some (pod_fld 0 1)                                  (* () *)
  else if c =? 3 then Some (pod_fld 1 1)                                  (* i8 *)
  else if c =? 4 then Some (pod_fld 8 1)                                  (* PackedValue<u64> *)
  else if c =? 5 then Some (pod_fld 2 1)                                  (* PackedValue<u16> *)
  else if c =? 6 then Some (pod_fld 32 1)                                 (* Pubkey *)
  else if c =? 7 then Some (mk 1 1 true true true true false VLe2)         (* #[zero_copy] #[repr(u8)] enum Tri {A,B,C} *)
  else if c =? 8 then Some (mk 1 1 true true false true false VNonZero)    (* NonZeroU8 *)
  else if c =? 9 then Some (mk 2 1 true true true false false VBool)       (* [bool; 2]: not CheckedBitPattern *)
  else if c =? 10 then Some (pod_fld 2 2)                                 (* u16 *)
  else if c =? 11 then Some (pod_fld 4 4)                                 (* u32 *)
  else if c =? 12 then Some (pod_fld 8 8)                                 (* u64 *)
  else if c =? 13 then Some (pod_fld 16 16)                               (* u128 *)
  else if c =? 14 then Some (pod_fld 4 2)                                 (* [u16; 2] *)
  else if c =? 15 then Some (mk 1 1 true true false true false VNonZero)   (* PackedValueChecked<NonZeroU8>: packed_value.rs 25-37 *)
  else if c =? 16 then Some (mk 1 1 true true true true false VBool)       (* PackedValueChecked<bool> *)
  else if c =? 17 then Some (mk 2 1 true true true true false VAny)        (* PackedValueChecked<u16> *)
  else if (20 <=? c) && (c <=? 32) then Some (pod_fld (c - 20) 1)         (* [u8; N] *)
  else if c =? 18 then Some (tuple_fld [u8_fld; u8_fld])                   (* (u8, u8) *)
  else if c =? 19 then Some (tuple_fld [u8_fld])                           (* (u8,) *)
  else if c =? 33 then Some (tuple_fld [pod_fld 2 2])                      (* (u16,) *)
  else if c =? 34 then Some (tuple_fld [pod_fld 2 2; u8_fld])              (* (u16, u8) *)
  else if c =? 35 then Some (tuple_fld [u8_fld; pod_fld 2 2])              (* (u8, u16) *)
  else if c =? 36 then Some (tuple_fld [pod_fld 8 8; u8_fld])              (* (u64, u8) *)
  else if c =? 37 then Some (tuple_fld [u8_fld; pod_fld 8 8])              (* (u8, u64) *)
  else if c =? 38 then Some (tuple_fld [u8_fld; bool_fld; u8_fld])         (* (u8, bool, u8) *)
  else if c =? 39 then Some (tuple_fld [pod_fld 4 4; u8_fld; u8_fld])      (* (u32, u8, u8) *)
  else if c =? 40 then Some (tuple_fld [u8_fld; pod_fld 2 2; u8_fld])      (* (u8, u16, u8) *)
  else if c =? 41 then Some (pod_fld 0 8)                                 (* [u64; 0]: no bytes, alignment 8 *)
  else if c =? 42 then Some (pod_fld 0 2)                                 (* [u16; 0] *)
  else if c =? 43 then Some (mk 8 8 false false true false false VAny)    (* *const u8: pointer-sized and -aligned whatever it points to; bytemuck: Zeroable only *)
  else if c =? 44 then Some (mk 8 8 false false true false false VAny)    (* *mut [u8; 2] *)
  else if c =? 45 then Some (mk 8 1 true false false false false VAny)    (* PackedValueChecked<Padded>, Padded = repr(C) {u8, u32}: padding inside, so NOT NoUninit - and the wrapper's CheckedBitPattern impl asks for T: NoUninit as well *)
  else None.

Definition as_param (f : fld) : fld :=
  mkFld (f_size f) (f_align f) (f_a1 f) (f_nouninit f) (f_zeroable f) (f_checked f) (f_pod f) true (f_valid f).

(* 99 = the type parameter, described by its instantiation; 97 = the tuple (T, u8), 98 = the tuple (u8, T): the
   parameter INSIDE a tuple field (the tuple's Align1 impl is then selected at the instantiation, like a bound on T) *)
Definition field_of (inst : option fld) (c : Z) : option fld :=
  if c =? 99 then match inst with Some f => Some (as_param f) | None => None end
  else if c =? 97 then match inst with Some f => Some (tuple_fld [as_param f; u8_fld]) | None => None end
  else if c =? 98 then match inst with Some f => Some (tuple_fld [u8_fld; as_param f]) | None => None end
  else menu c.

(* the unsized-field menu (UFIELDS in lib/props/c19.py) *)
Definition zst_at_end : uty := UStruct (Some 1) [URemaining].      (* the doctest's ZstAtEnd *)
Definition inner_list : uty := UStruct (Some 1) [UList].
Definition umenu (c : Z) : option uty :=
  if c =? 0 then Some UList
  else if c =? 1 then Some URemaining
  else if c =? 2 then Some (UChecked 1)
  else if c =? 3 then Some (UChecked 0)
  else if c =? 4 then Some zst_at_end
  else if c =? 5 then Some inner_list
  else if c =? 6 then Some (UChecked 0)
  else if c =? 7 then Some (UChecked 8)
  else if c =? 8 then Some UList
  else if c =? 9 then Some (UChecked 1)
  else if c =? 10 then Some (UEnum [None; Some UList; Some URemaining])      (* EnumMayEndEmpty *)
  else if c =? 11 then Some (UEnum [None; Some UList])                       (* EnumNeverEmpty *)
  else if c =? 12 then Some (UEnum [None; Some zst_at_end])                  (* EnumOfZstStruct *)
  else None.

(* ---- list-of-integers parsing (fuel = structural recursion on a counter) ---- *)
Fixpoint take_n {A} (n : nat) (l : list A) : option (list A * list A) :=
  match n with
  | O => Some ([], l)
  | S k => match l with [] => None | x :: r => match take_n k r with Some (a, b) => Some (x :: a, b) | None => None end end
  end.

Fixpoint all_some {A} (l : list (option A)) : option (list A) :=
  match l with
  | [] => Some []
  | Some x :: r => match all_some r with Some t => Some (x :: t) | None => None end
  | None :: _ => None
  end.

Definition item_of (c a : Z) : option (option ritem) :=      (* Some None = attribute separator *)
  if c =? 0 then Some None
  else if c =? 1 then Some (Some IC)
  else if c =? 2 then Some (Some ITransparent)
  else if c =? 3 then Some (Some (IInt a))
  else if c =? 4 then Some (Some (IPacked 1))
  else if c =? 5 then Some (Some (IPacked a))
  else if c =? 6 then Some (Some (IAlign a))
  else None.

Fixpoint parse_items (n : nat) (l : list Z) : option (list (option ritem) * list Z) :=
  match n with
  | O => Some ([], l)
  | S k => match l with
           | c :: a :: r =>
               match item_of c a, parse_items k r with
               | Some i, Some (is, rest) => Some (i :: is, rest)
               | _, _ => None
               end
           | _ => None
           end
  end.

Fixpoint group_items (cur : list ritem) (l : list (option ritem)) : attrs :=
  match l with
  | [] => [rev cur]
  | None :: r => rev cur :: group_items [] r
  | Some i :: r => group_items (i :: cur) r
  end.
Definition attrs_of (l : list (option ritem)) : attrs := match l with [] => [] | _ => group_items [] l end.

Fixpoint parse_variants (inst : option fld) (n : nat) (l : list Z) : option (list (list fld) * list Z) :=
  match n with
  | O => Some ([], l)
  | S k => match l with
           | nf :: r =>
               match take_n (Z.to_nat nf) r with
               | Some (codes, r2) =>
                   match all_some (map (field_of inst) codes), parse_variants inst k r2 with
                   | Some fs, Some (vs, rest) => Some (fs :: vs, rest)
                   | _, _ => None
                   end
               | None => None
               end
           | [] => None
           end
  end.

Definition form_of (f : Z) : option form :=
  if f =? 0 then Some FStruct else if f =? 1 then Some FTuple else if f =? 2 then Some FEnum
  else if f =? 3 then Some FUnion else None.

(* the byte patterns of the acceptance table, a function of the size (same list as gen_c19::patterns) *)
Fixpoint pokes (size : Z) (n : nat) (j : Z) : list (list Z) :=
  match n with
  | O => []
  | S k => map (fun v => set_nth (Z.to_nat j) v (zrepeat 1 size)) [0; 2; 255] ++ pokes size k (j + 1)
  end.
Definition patterns (size : Z) : list (list Z) :=
  map (fun k => zrepeat k size) [0; 1; 2; 3; 255] ++ pokes size (Z.to_nat (Z.min size 8)) 0.

Definition b2z (b : bool) : Z := if b then 1 else 0.

Definition table (d : decl) : list Z :=
  let ps := patterns (decl_size d) in zlen ps :: map (fun p => b2z (checked_ok d p)) ps.

Definition enum_sum (d : decl) : Z := if has_data (d_variants d) then 0 else 1.
Definition decl_sum (d : decl) : Z := match d_form d with FEnum => enum_sum d | _ => fsum (d_fields d) end.

Definition rejected : list Z := [0].

(* generic items declare `T: Pod` for zero_copy(pod), `T: UnsizedGenerics` for unsized_type: checked at the instantiation *)
Definition unsized_generics_ok (f : fld) : bool := f_checked f && f_a1 f && f_nouninit f && f_zeroable f.

Definition run_decl (m : Z) (generic : bool) (inst : option fld) (d : decl) (ufs : list uty) : list Z :=
  if m =? 0 then
    if align1_accepts true d then [1; decl_align d; decl_size d; decl_sum d; 0] else rejected
  else if (1 <=? m) && (m <=? 4) then
    let a := mkZc ((m =? 3) || (m =? 4)) ((m =? 2) || (m =? 4)) in
    let inst_ok := match inst with Some f => negb (zc_pod a) || f_pod f | None => true end in
    if zc_accepts true a d && inst_ok
    then [1; decl_align (zc_decl a d); decl_size (zc_decl a d); decl_sum d] ++ table (zc_decl a d)
    else rejected
  else if m =? 5 then
    let inst_ok := match inst with Some f => unsized_generics_ok f | None => true end in
    match d_form d with
    | FStruct =>
        if unsized_accepts true generic inst_ok (d_fields d) ufs
        then (if is_nil (d_fields d) then [1; 0; 0; 0; 0]
              else let sd := sized_decl generic (d_fields d) in
                   [1; decl_align sd; decl_size sd; fsum (d_fields d)] ++ table sd)
        else rejected
    | _ => rejected
    end
  else rejected.

(* the G component of the encoding: G = k + 100 * B.  k = 0: not generic; k > 0: one type parameter instantiated with
   field type k - 1.  B is the BOUND STYLE in which the declaration writes the parameter's bounds (0 only the needed
   ones inline | 1 an extra inline `T: Copy` | 2 everything in an explicit `where` clause).  The macros copy the
   declaration's generics to their impls (split_for_impl) and ADD their own predicates to whatever where clause is
   there (align1.rs 46-53: make_where_clause + push), so the style is decoded, range-checked and dropped *)
Definition g_inst (g : Z) : Z := g mod 100.
Definition g_style (g : Z) : Z := g / 100.
Definition g_ok (g : Z) : bool :=
  (0 <=? g) && (g_style g <=? 2) && ((g_style g =? 0) || negb (g_inst g =? 0)).

(* g is the decoded instantiation component (g_inst) *)
Definition run_core (m f g : Z) (r : list Z) : list Z :=
  match r with
  | nr :: r0 =>
      let inst := if g =? 0 then None else menu (g - 1) in
      match form_of f, parse_items (Z.to_nat nr) r0 with
      | Some fm, Some (items, nv :: r1) =>
          match parse_variants inst (Z.to_nat nv) r1 with
          | Some (vs, nu :: r2) =>
              match take_n (Z.to_nat nu) r2 with
              | Some (ucodes, []) =>
                  match all_some (map umenu ucodes) with
                  | Some ufs =>
                      if (negb (g =? 0)) && (match inst with None => true | Some _ => false end) then [-1]
                      else run_decl m (negb (g =? 0)) inst
                                    (mkDecl fm (negb (g =? 0)) (if m =? 5 then [] else attrs_of items) vs) ufs
                  | None => [-1]
                  end
              | _ => [-1]
              end
          | _ => [-1]
          end
      | _, _ => [-1]
      end
  | [] => [-1]
  end.

Definition run_c19 (ints : list Z) : list Z :=
  match ints with
  | m :: f :: g :: r => if g_ok g then run_core m f (g_inst g) r else [-1]
  | _ => [-1]
  end.
