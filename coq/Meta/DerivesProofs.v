(* C19 - proofs about the macro decisions of Meta/Derives.v. *)
From SF Require Import Base.Prelude Meta.Layout Meta.LayoutProofs Meta.Derives.

(* ------------------------------------------------------------------------------------------ *)
(* what the macros' repr parser knows about the attribute items it has consumed               *)
Definition mod_sound (m : option sf_mod) (l : list ritem) : Prop :=
  match m with
  | None => packs l = [] /\ aligns l = []
  | Some (MPacked n) => packs l <> [] /\ Forall (fun x => x = n) (packs l) /\ aligns l = []
  | Some (MAlign n) => packs l = [] /\ Forall (fun x => x <= n) (aligns l)
  end.

Definition base_items (b : sf_base) : list ritem :=
  match b with SRust => [] | SC => [IC] | STransparent => [ITransparent] | SInt k => [IInt k] end.
Definition base_sound (b : sf_base) (l : list ritem) : Prop := bases l = base_items b.

Definition sound (r : sf_repr) (l : list ritem) : Prop := mod_sound (s_mod r) l /\ base_sound (s_base r) l.

Lemma sound_default : sound sf_default [].
Proof. repeat split. Qed.

Lemma Forall_le_mono (l : list Z) a b : a <= b -> Forall (fun x => x <= a) l -> Forall (fun x => x <= b) l.
Proof. intros Hab H. eapply Forall_impl; [|exact H]. cbn. intros; lia. Qed.

Lemma sf_parse_sound items : forall ret seen r,
  sound ret seen -> sf_parse ret items = Some r -> sound r (seen ++ items).
Proof.
  induction items as [|i rest IH]; intros ret seen r [Hm Hb] H.
  - cbn [sf_parse] in H. inversion H; subst. rewrite app_nil_r. now split.
  - replace (seen ++ i :: rest) with ((seen ++ [i]) ++ rest) by (rewrite <- app_assoc; reflexivity).
    destruct ret as [b m]. cbn [s_mod s_base] in *.
    destruct i as [| |k|n|n]; cbn [sf_parse s_mod s_base] in H.
    + (* C *) destruct b; try discriminate. eapply IH; [|exact H]. split; cbn [s_mod s_base].
      * unfold mod_sound in *. rewrite packs_app, aligns_app. cbn [packs aligns]. rewrite !app_nil_r. exact Hm.
      * unfold base_sound in *. rewrite bases_app, Hb. reflexivity.
    + destruct b; try discriminate. eapply IH; [|exact H]. split; cbn [s_mod s_base].
      * unfold mod_sound in *. rewrite packs_app, aligns_app. cbn [packs aligns]. rewrite !app_nil_r. exact Hm.
      * unfold base_sound in *. rewrite bases_app, Hb. reflexivity.
    + destruct b; try discriminate. eapply IH; [|exact H]. split; cbn [s_mod s_base].
      * unfold mod_sound in *. rewrite packs_app, aligns_app. cbn [packs aligns]. rewrite !app_nil_r. exact Hm.
      * unfold base_sound in *. rewrite bases_app, Hb. reflexivity.
    + (* packed n *)
      assert (Hb' : base_sound b (seen ++ [IPacked n])).
      { unfold base_sound in *. rewrite bases_app, Hb. cbn. now rewrite app_nil_r. }
      destruct m as [[p|a]|].
      * destruct (u32_ok n && (p =? n)) eqn:E; [|discriminate]. apply andb_true_iff in E as [_ E]. apply Z.eqb_eq in E. subst p.
        eapply IH; [|exact H]. split; [|exact Hb']. cbn [s_mod mod_sound] in *.
        destruct Hm as (Hne & Hall & Hal). rewrite packs_app, aligns_app. cbn [packs aligns]. rewrite app_nil_r.
        repeat split; auto.
        -- intros C. apply app_eq_nil in C as [C _]. auto.
        -- apply Forall_app; split; auto.
      * discriminate.
      * destruct (u32_ok n); [|discriminate]. eapply IH; [|exact H]. split; [|exact Hb']. cbn [s_mod mod_sound] in *.
        destruct Hm as (Hp & Hal). rewrite packs_app, aligns_app, Hp, Hal. cbn [packs aligns app].
        repeat split; auto. discriminate.
    + (* align n *)
      assert (Hb' : base_sound b (seen ++ [IAlign n])).
      { unfold base_sound in *. rewrite bases_app, Hb. cbn. now rewrite app_nil_r. }
      destruct m as [[p|a]|].
      * discriminate.
      * destruct (u32_ok n); [|discriminate]. eapply IH; [|exact H]. split; [|exact Hb']. cbn [s_mod mod_sound] in *.
        destruct Hm as (Hp & Hal). rewrite packs_app, aligns_app, Hp. cbn [packs aligns app]. split; auto.
        apply Forall_app; split.
        -- eapply Forall_le_mono; [|exact Hal]. lia.
        -- repeat constructor. lia.
      * destruct (u32_ok n); [|discriminate]. eapply IH; [|exact H]. split; [|exact Hb']. cbn [s_mod mod_sound] in *.
        destruct Hm as (Hp & Hal). rewrite packs_app, aligns_app, Hp, Hal. cbn [packs aligns app]. split; auto.
        repeat constructor. lia.
Qed.

Lemma sf_combine_base_sound a b c la lb :
  base_sound a la -> base_sound b lb -> sf_combine_base a b = Some c -> base_sound c (la ++ lb).
Proof.
  unfold base_sound. intros Ha Hb H. rewrite bases_app, Ha, Hb.
  destruct a, b; cbn in H; inversion H; subst; reflexivity.
Qed.

Lemma sf_combine_mod_sound a b c la lb :
  mod_sound a la -> mod_sound b lb -> sf_combine_mod a b = Some c -> mod_sound c (la ++ lb).
Proof.
  intros Hma Hmb H. unfold mod_sound in *.
  destruct a as [[x|x]|], b as [[y|y]|]; cbn [sf_combine_mod] in H; try discriminate.
  - destruct (x =? y) eqn:E; [|discriminate]. apply Z.eqb_eq in E. subst y. inversion H; subst.
    destruct Hma as (A1 & A2 & A3), Hmb as (B1 & B2 & B3). rewrite packs_app, aligns_app, A3, B3.
    repeat split; auto. + intros C. apply app_eq_nil in C as [C _]. auto. + apply Forall_app; auto.
  - inversion H; subst. destruct Hma as (A1 & A2 & A3), Hmb as (B1 & B2).
    rewrite packs_app, aligns_app, A3, B1, B2, !app_nil_r. auto.
  - inversion H; subst. destruct Hma as (A1 & A2), Hmb as (B1 & B2).
    rewrite packs_app, aligns_app, A1, B1. split; auto. apply Forall_app; split; eapply Forall_le_mono; eauto; lia.
  - inversion H; subst. destruct Hma as (A1 & A2), Hmb as (B1 & B2).
    rewrite packs_app, aligns_app, A1, B1, B2, !app_nil_r. auto.
  - inversion H; subst. destruct Hma as (A1 & A2), Hmb as (B1 & B2 & B3).
    rewrite packs_app, aligns_app, A1, A2, B3. cbn [app]. auto.
  - inversion H; subst. destruct Hma as (A1 & A2), Hmb as (B1 & B2).
    rewrite packs_app, aligns_app, A1, A2, B1. cbn [app]. auto.
  - inversion H; subst. destruct Hma as (A1 & A2), Hmb as (B1 & B2).
    rewrite packs_app, aligns_app, A1, A2, B1, B2. auto.
Qed.

Lemma sf_combine_sound a b c la lb :
  sound a la -> sound b lb -> sf_combine a b = Some c -> sound c (la ++ lb).
Proof.
  intros [Hma Hba] [Hmb Hbb] H. unfold sf_combine in H.
  destruct (sf_combine_base (s_base a) (s_base b)) as [bs|] eqn:Eb; [|discriminate].
  destruct (sf_combine_mod (s_mod a) (s_mod b)) as [m|] eqn:Em; [|discriminate].
  inversion H; subst. split; cbn [s_mod s_base].
  - eapply sf_combine_mod_sound; eauto.
  - eapply sf_combine_base_sound; eauto.
Qed.

Lemma sf_fold_sound ats : forall acc seen r,
  sound acc seen -> sf_fold acc ats = Some r -> sound r (seen ++ concat ats).
Proof.
  induction ats as [|a rest IH]; intros acc seen r Hs H; cbn [sf_fold concat] in *.
  - inversion H; subst. now rewrite app_nil_r.
  - destruct (sf_parse sf_default a) as [b|] eqn:Ep; [|discriminate].
    destruct (sf_combine acc b) as [c|] eqn:Ec; [|discriminate].
    rewrite app_assoc. eapply IH; [|exact H].
    eapply sf_combine_sound; [exact Hs| |exact Ec].
    pose proof (sf_parse_sound a sf_default [] b sound_default Ep) as S. exact S.
Qed.

Lemma sf_get_repr_sound ats r : sf_get_repr ats = Some r -> sound r (concat ats).
Proof. intros H. exact (sf_fold_sound ats sf_default [] r sound_default H). Qed.

(* ------------------------------------------------------------------------------------------ *)
(* the macro's view and the compiler's view of the same attributes agree                       *)
Lemma rustc_repr_mod ats r :
  sound r (concat ats) ->
  match s_mod r with
  | None => r_packed (rustc_repr ats) = None /\ r_align (rustc_repr ats) = None
  | Some (MPacked n) => r_packed (rustc_repr ats) = Some n /\ r_align (rustc_repr ats) = None
  | Some (MAlign n) => r_packed (rustc_repr ats) = None
                       /\ match r_align (rustc_repr ats) with None => True | Some m => m <= n end
  end.
Proof.
  intros [Hm _]. unfold rustc_repr. cbn [r_packed r_align]. unfold mod_sound in Hm.
  destruct (s_mod r) as [[n|n]|].
  - destruct Hm as (A & B & C). rewrite C. split; [now apply list_min_all|reflexivity].
  - destruct Hm as (A & B). rewrite A. split; [reflexivity|].
    destruct (list_max (aligns (concat ats))) as [m|] eqn:E; [|exact I]. eapply list_max_le; eauto.
  - destruct Hm as (A & B). now rewrite A, B.
Qed.

Lemma rustc_repr_base_int ats r k :
  sound r (concat ats) -> s_base r = SInt k -> r_base (rustc_repr ats) = BInt (int_width k).
Proof.
  intros [_ Hb] E. unfold base_sound in Hb. rewrite E in Hb. cbn [base_items] in Hb.
  unfold rustc_repr. cbn [r_base]. now rewrite (first_int_bases _ _ Hb).
Qed.

Lemma has_c_bases l : In IC (bases l) -> has_c l = true.
Proof.
  unfold has_c, bases. intros H. apply filter_In in H as [H _]. apply existsb_exists. exists IC. auto.
Qed.

Lemma rustc_repr_base_c ats r :
  sound r (concat ats) -> s_base r = SC -> r_base (rustc_repr ats) = BC.
Proof.
  intros [_ Hb] E. unfold base_sound in Hb. rewrite E in Hb. cbn [base_items] in Hb.
  unfold rustc_repr. cbn [r_base]. rewrite first_int_none.
  - rewrite has_c_bases; [reflexivity|]. rewrite Hb. now left.
  - intros k Hk. rewrite Hb in Hk. destruct Hk as [Hk|[]]. discriminate.
Qed.

Lemma in_lays g fs : In g (lays fs) -> exists f, In f fs /\ g = lay f.
Proof. unfold lays. intros H. apply in_map_iff in H as (f & E & Hf). eauto. Qed.

Lemma repr_ok_packs_pos k ats nv nt :
  rustc_repr_ok k ats nv nt = true -> Forall (fun x => 0 < x) (packs (concat ats)).
Proof.
  unfold rustc_repr_ok. intros H. zb.
  apply Forall_forall. intros x Hx.
  match goal with H : forallb pow2 (packs _) = true |- _ => rewrite forallb_forall in H; apply pow2_pos, H, Hx end.
Qed.

(* the heart of align1_sound: what the struct/union path of the derive guarantees *)
Lemma align1_struct_align ats fs bs :
  align1_struct true ats fs = Some bs ->
  Forall (fun x => 0 < x) (packs (concat ats)) ->
  (forall f, In f fs -> 1 <= f_align f) ->
  (forall f, In f bs -> f_align f = 1) ->
  struct_align (rustc_repr ats) (lays fs) = 1.
Proof.
  unfold align1_struct. intros H Hpos Hge Hb.
  destruct (sf_get_repr ats) as [r|] eqn:E; [|discriminate].
  destruct (true && over_aligned r) eqn:Eo; [discriminate|]. cbn [andb] in Eo. unfold over_aligned in Eo.
  pose proof (rustc_repr_mod ats r (sf_get_repr_sound ats r E)) as Hm.
  inversion H as [Hbs]; clear H.
  unfold struct_align.
  destruct (is_packed r) eqn:Ep.
  - (* packed(1): unconditional *)
    unfold is_packed in Ep. destruct (s_mod r) as [[n|n]|]; try discriminate. apply Z.eqb_eq in Ep. subst n.
    destruct Hm as [Hp Ha]. unfold raise. rewrite Ha.
    apply max_align_packed1; auto. intros g Hg. apply in_lays in Hg as (f & Hf & ->). cbn. auto.
  - (* every field is bounded *)
    subst bs.
    assert (M : max_align (rustc_repr ats) (lays fs) = 1).
    { apply max_align_all1. intros g Hg. apply in_lays in Hg as (f & Hf & ->). cbn [lay falign snd].
      rewrite (Hb f Hf). unfold cap.
      destruct (r_packed (rustc_repr ats)) as [p|] eqn:Epk; [|reflexivity].
      assert (0 < p) by (eapply list_min_pos; [exact Hpos|exact Epk]). lia. }
    rewrite M. unfold raise.
    destruct (s_mod r) as [[n|n]|].
    + destruct Hm as [_ Ha]. now rewrite Ha.
    + destruct Hm as [_ Ha]. apply Z.ltb_ge in Eo.
      destruct (r_align (rustc_repr ats)); [lia|reflexivity].
    + destruct Hm as [_ Ha]. now rewrite Ha.
Qed.

Lemma variants_align_unit r tag vs :
  1 <= cap r (falign tag) -> has_data vs = false -> variants_align r tag (map lays vs) = cap r (falign tag).
Proof.
  intros Hc. induction vs as [|v t IH]; intros H; cbn [map variants_align]; [reflexivity|].
  cbn [has_data existsb] in H. apply orb_false_iff in H as [Hv Ht].
  destruct v; [|discriminate]. cbn [lays map max_align]. fold (has_data t) in Ht. rewrite (IH Ht). lia.
Qed.

Lemma raise_le1 ats r a :
  sound r (concat ats) -> over_aligned r = false -> 1 <= a -> raise (rustc_repr ats) a = a.
Proof.
  intros Hs Ho Ha. pose proof (rustc_repr_mod ats r Hs) as Hm. unfold raise.
  destruct (s_mod r) as [[n|n]|] eqn:E.
  - destruct Hm as [_ ->]. reflexivity.
  - destruct Hm as [_ Hm]. unfold over_aligned in Ho. rewrite E in Ho. apply Z.ltb_ge in Ho.
    destruct (r_align (rustc_repr ats)); lia.
  - destruct Hm as [_ ->]. reflexivity.
Qed.

(* the bound hypothesis: the Align1 impls of the bounded field types are themselves sound *)
Definition bounds_sound (d : decl) : Prop :=
  forall f, In f (align1_bounded true d) -> f_a1 f = true -> f_align f = 1.
Definition fields_wf (d : decl) : Prop :=
  forall v f, In v (d_variants d) -> In f v -> 1 <= f_align f /\ 0 <= f_size f.

Lemma d_fields_in d f : In f (d_fields d) -> exists v, In v (d_variants d) /\ In f v.
Proof. unfold d_fields. destruct (d_variants d) as [|v t]; [intros []|]. intros H. exists v. split; [now left|exact H]. Qed.

Theorem align1_sound d :
  align1_accepts true d = true -> fields_wf d -> bounds_sound d -> decl_align d = 1.
Proof.
  unfold align1_accepts. intros H Hwf Hb. apply andb_true_iff in H as [Hok H].
  unfold decl_align, decl_repr.
  destruct (d_form d) eqn:Ef.
  1,2,4:
    (destruct (align1_struct true (d_attrs d) (d_fields d)) as [bs|] eqn:E; [|discriminate];
     eapply align1_struct_align; [exact E| | |];
     [ unfold rustc_ok in Hok; zb; eapply repr_ok_packs_pos; eauto
     | intros f Hf; apply d_fields_in in Hf as (v & Hv & Hf); apply (Hwf v f Hv Hf)
     | intros f Hf; apply Hb; [unfold align1_bounded; rewrite Ef, E; exact Hf|];
       rewrite forallb_forall in H; auto ]).
  (* enum *)
  unfold align1_enum in H.
  destruct (sf_get_repr (d_attrs d)) as [r|] eqn:E; [|discriminate].
  pose proof (sf_get_repr_sound _ _ E) as Hs.
  destruct (negb (is_u8 (s_base r))) eqn:Eu; [discriminate|]. apply negb_false_iff in Eu.
  destruct (true && over_aligned r) eqn:Eo; [discriminate|]. cbn [andb] in Eo.
  destruct (has_data (d_variants d)) eqn:Ed.
  - destruct (d_generic d); [discriminate|]. apply Z.eqb_eq in H. unfold decl_align, decl_repr in H. now rewrite Ef in H.
  - unfold is_u8 in Eu. destruct (s_base r) as [| | |k] eqn:Eb; try discriminate. apply Z.eqb_eq in Eu. subst k.
    unfold enum_align. rewrite (rustc_repr_base_int _ _ _ Hs Eb). cbn [enum_tag int_width Z.ltb Z.compare tag_field Z.leb].
    assert (Hp : r_packed (rustc_repr (d_attrs d)) = None).
    { unfold rustc_ok, rustc_repr_ok in Hok. rewrite Ef in Hok. cbn [kind_of] in Hok. zb.
      unfold rustc_repr. cbn [r_packed].
      match goal with H : is_nil (packs _) = true |- _ => destruct (packs (concat (d_attrs d))); [reflexivity|discriminate] end. }
    rewrite variants_align_unit; [|unfold cap; rewrite Hp; cbn; lia|exact Ed].
    unfold cap. rewrite Hp. cbn [falign snd]. eapply raise_le1; eauto. lia.
Qed.

(* ------------------------------------------------------------------------------------------ *)
(* the unrepaired derive certifies alignment 1 for types of alignment 2 (D13)                  *)
Definition u8_fld : fld := pod_fld 1 1.
Definition d13_struct : decl := mkDecl FStruct false [[IC; IAlign 2]] [[u8_fld]].       (* #[repr(C, align(2))] struct S { a: u8 } *)
Definition d13_enum : decl := mkDecl FEnum false [[IInt 0; IAlign 2]] [[]; []].         (* #[repr(u8, align(2))] enum E { A, B } *)

Lemma align1_sound_unrepaired_refuted :
  exists d, align1_accepts false d = true /\ fields_wf d
            /\ (forall f, In f (align1_bounded false d) -> f_a1 f = true -> f_align f = 1)
            /\ decl_align d = 2.
Proof.
  exists d13_struct. split; [vm_compute; reflexivity|]. split.
  - intros v f [<-|[]] [<-|[]]. cbn. lia.
  - split; [|vm_compute; reflexivity]. intros f [<-|[]] _. reflexivity.
Qed.

Lemma align1_sound_unrepaired_refuted_enum :
  align1_accepts false d13_enum = true /\ align1_bounded false d13_enum = [] /\ decl_align d13_enum = 2
  /\ decl_size d13_enum = 2.
Proof. vm_compute. repeat split; reflexivity. Qed.

(* the repaired rule rejects both *)
Lemma d13_rejected_by_repaired_rule :
  align1_accepts true d13_struct = false /\ align1_accepts true d13_enum = false.
Proof. vm_compute. split; reflexivity. Qed.

(* ------------------------------------------------------------------------------------------ *)
(* the generated validator sees every field's own bytes and nothing else                        *)
Fixpoint valid_chunks (fs : list fld) (cs : list (list Z)) : bool :=
  match fs, cs with
  | f :: ft, c :: ct => f_valid f c && valid_chunks ft ct
  | _, _ => true
  end.
Definition chunked (fs : list fld) (cs : list (list Z)) : Prop := Forall2 (fun f c => zlen c = f_size f) fs cs.

Lemma zdrop_app {A} (a b : list A) : zdrop (zlen a) (a ++ b) = b.
Proof.
  unfold zdrop, zlen. rewrite Nat2Z.id, skipn_app, skipn_all, Nat.sub_diag. reflexivity.
Qed.
Lemma ztake_app {A} (a b : list A) : ztake (zlen a) (a ++ b) = a.
Proof.
  unfold ztake, zlen. rewrite Nat2Z.id, firstn_app, firstn_all, Nat.sub_diag. cbn. now rewrite app_nil_r.
Qed.

Lemma fields_valid_prefix fs cs : chunked fs cs -> forall pre,
  fields_valid fs (prefix_offsets (zlen pre) (lays fs)) (pre ++ concat cs) = valid_chunks fs cs.
Proof.
  induction 1 as [|f c ft ct Hc _ IH]; intros pre; [reflexivity|].
  cbn [lays map prefix_offsets fields_valid valid_chunks concat lay fsize fst].
  rewrite zdrop_app, <- Hc, ztake_app. f_equal.
  specialize (IH (pre ++ c)). rewrite zlen_app, <- app_assoc in IH. exact IH.
Qed.

Lemma chunked_zlen fs cs : chunked fs cs -> zlen (concat cs) = fsum fs.
Proof.
  unfold fsum. induction 1 as [|f c ft ct Hc _ IH]; [reflexivity|].
  cbn [concat map zsum]. rewrite zlen_app. lia.
Qed.

Lemma fsum_sizes fs : zsum (sizes (lays fs)) = fsum fs.
Proof. unfold fsum, sizes, lays. rewrite map_map. reflexivity. Qed.

(* ------------------------------------------------------------------------------------------ *)
(* bytemuck's parser: a packed(1) / transparent it reports was written in the attributes       *)
Lemma bm_parse_inv items : forall ret r,
  bm_parse ret items = Some r ->
  (forall n, b_packed r = Some n -> b_packed ret = Some n \/ In n (packs items))
  /\ (b_base r = MTransparent -> b_base ret = MTransparent \/ In ITransparent items).
Proof.
  induction items as [|i rest IH]; intros ret r H.
  - cbn [bm_parse] in H. inversion H; subst. split; auto.
  - destruct i as [| |k|n|n]; cbn [bm_parse] in H.
    + destruct (b_base ret) eqn:Eb; try discriminate;
        apply IH in H as [H1 H2]; cbn [b_packed b_base] in *; (split; [intros m Hm; destruct (H1 m Hm); auto|]);
        intros Ht; destruct (H2 Ht) as [C|C]; try discriminate; right; now right.
    + destruct (b_base ret) eqn:Eb; try discriminate;
        apply IH in H as [H1 H2]; cbn [b_packed b_base] in *; (split; [intros m Hm; destruct (H1 m Hm); auto|]);
        intros Ht; right; now left.
    + destruct (b_base ret) eqn:Eb; try discriminate;
        apply IH in H as [H1 H2]; cbn [b_packed b_base] in *; (split; [intros m Hm; destruct (H1 m Hm); auto|]);
        intros Ht; destruct (H2 Ht) as [C|C]; try discriminate; right; now right.
    + destruct (u32_ok n); [|discriminate]. apply IH in H as [H1 H2]. cbn [b_packed b_base packs] in *. split.
      * intros m Hm. destruct (H1 m Hm) as [C|C]; [inversion C; subst; right; now left|right; now right].
      * intros Ht. destruct (H2 Ht) as [C|C]; auto. right; now right.
    + destruct (u32_ok n); [|discriminate]. apply IH in H as [H1 H2]. cbn [b_packed b_base packs] in *. split.
      * intros m Hm. destruct (H1 m Hm) as [C|C]; auto.
      * intros Ht. destruct (H2 Ht) as [C|C]; auto. right; now right.
Qed.

Lemma bm_combine_inv a b c :
  bm_combine a b = Some c ->
  (forall n, b_packed c = Some n -> b_packed a = Some n \/ b_packed b = Some n)
  /\ (b_base c = MTransparent -> b_base a = MTransparent \/ b_base b = MTransparent).
Proof.
  unfold bm_combine. intros H.
  destruct (bm_combine_base (b_base a) (b_base b)) as [bs|] eqn:Eb; [|discriminate].
  destruct (bm_combine_packed (b_packed a) (b_packed b)) as [pk|] eqn:Ep; [|discriminate].
  inversion H; subst; cbn [b_packed b_base]. split.
  - intros n Hn. subst pk. destruct (b_packed a), (b_packed b); cbn in Ep; inversion Ep; auto.
  - intros Ht. subst bs. destruct (b_base a), (b_base b); cbn in Eb; inversion Eb; auto.
Qed.

Lemma bm_fold_inv ats : forall acc r,
  bm_fold acc ats = Some r ->
  (forall n, b_packed r = Some n -> b_packed acc = Some n \/ In n (packs (concat ats)))
  /\ (b_base r = MTransparent -> b_base acc = MTransparent \/ In ITransparent (concat ats)).
Proof.
  induction ats as [|a rest IH]; intros acc r H; cbn [bm_fold concat] in *.
  - inversion H; subst. split; auto.
  - destruct (bm_parse bm_default a) as [b|] eqn:Ep; [|discriminate].
    destruct (bm_combine acc b) as [c|] eqn:Ec; [|discriminate].
    apply IH in H as [H1 H2]. apply bm_combine_inv in Ec as [C1 C2]. apply bm_parse_inv in Ep as [P1 P2].
    cbn [bm_default b_packed b_base] in *. split.
    + intros n Hn. rewrite packs_app, in_app_iff. destruct (H1 n Hn) as [X|X]; auto.
      destruct (C1 n X) as [Y|Y]; auto. destruct (P1 n Y) as [Z|Z]; [discriminate|auto].
    + intros Ht. rewrite in_app_iff. destruct (H2 Ht) as [X|X]; auto.
      destruct (C2 X) as [Y|Y]; auto. destruct (P2 Y) as [Z|Z]; [discriminate|auto].
Qed.

(* ------------------------------------------------------------------------------------------ *)
(* zero_copy                                                                                   *)
Definition is_struct (d : decl) : Prop := d_form d = FStruct \/ d_form d = FTuple.

Lemma zc_attrs_struct a d : is_struct d ->
  zc_attrs a d = (IC :: (if zc_skip_packed a then [] else [IPacked 1])) :: d_attrs d.
Proof. unfold zc_attrs. intros [-> | ->]; reflexivity. Qed.

Lemma zc_struct_repr a d :
  is_struct d -> align1_accepts true (zc_decl a d) = true ->
  exists r bs, sf_get_repr (zc_attrs a d) = Some r /\ sound r (concat (zc_attrs a d)) /\ s_base r = SC
            /\ over_aligned r = false /\ rustc_ok (zc_decl a d) = true
            /\ align1_struct true (zc_attrs a d) (d_fields d) = Some bs.
Proof.
  intros Hs H. unfold align1_accepts in H. apply andb_true_iff in H as [Hok H].
  assert (Hf : d_form (zc_decl a d) = d_form d) by reflexivity.
  assert (Ha : match d_form d with FEnum => False | FUnion => False | _ => True end) by (destruct Hs as [-> | ->]; exact I).
  cbn [zc_decl d_form d_attrs d_generic d_variants] in H.
  assert (exists bs, align1_struct true (zc_attrs a d) (d_fields (zc_decl a d)) = Some bs) as [bs Hbs].
  { destruct (d_form d); try contradiction;
      (destruct (align1_struct true (zc_attrs a d) (d_fields (zc_decl a d))) as [bs|]; [eauto|discriminate]). }
  unfold align1_struct in Hbs.
  destruct (sf_get_repr (zc_attrs a d)) as [r|] eqn:E; [|discriminate].
  destruct (true && over_aligned r) eqn:Eo; [discriminate|]. cbn [andb] in Eo.
  pose proof (sf_get_repr_sound _ _ E) as S.
  exists r, bs. repeat split; auto; try apply S.
  - destruct S as [_ Sb]. unfold base_sound in Sb. rewrite (zc_attrs_struct a d Hs) in Sb.
    cbn [concat app bases filter is_base] in Sb. destruct (s_base r); cbn [base_items] in Sb; try discriminate. reflexivity.
  - unfold align1_struct. rewrite E. cbn [andb]. rewrite Eo. exact Hbs.
Qed.

Lemma zc_struct_base a d r :
  sound r (concat (zc_attrs a d)) -> s_base r = SC -> r_base (decl_repr (zc_decl a d)) = BC.
Proof. intros S E. unfold decl_repr. cbn [zc_decl d_attrs]. eapply rustc_repr_base_c; eauto. Qed.

Lemma struct_decl_size d : is_struct d -> decl_size d = struct_size (decl_repr d) (lays (d_fields d)).
Proof. unfold decl_size. intros [-> | ->]; reflexivity. Qed.
Lemma struct_decl_align d : is_struct d -> decl_align d = struct_align (decl_repr d) (lays (d_fields d)).
Proof. unfold decl_align. intros [-> | ->]; reflexivity. Qed.

Lemma fields_wf_aligns d : fields_wf d -> forall g, In g (lays (d_fields d)) -> 1 <= falign g.
Proof.
  intros Hwf g Hg. apply in_lays in Hg as (f & Hf & ->). apply d_fields_in in Hf as (v & Hv & Hf).
  cbn. apply (Hwf v f Hv Hf).
Qed.

(* bytemuck's "completely packed" shortcut of the Pod derive is justified: under the attributes zero_copy
   produces and the Align1 derive accepted, it implies the compiler packs the struct to 1 *)
Lemma completely_packed_sound a d r br :
  is_struct d -> sound r (concat (zc_attrs a d)) -> s_base r = SC ->
  bm_get_repr (zc_attrs a d) = Some br ->
  (match b_packed br with Some p => p =? 1 | None => false end
   || match b_base br with MTransparent => true | _ => false end) = true ->
  r_packed (rustc_repr (zc_attrs a d)) = Some 1 /\ r_align (rustc_repr (zc_attrs a d)) = None.
Proof.
  intros Hs S Eb Hbm Hcp. pose proof (bm_fold_inv _ _ _ Hbm) as [I1 I2]. cbn [bm_default b_packed b_base] in I1, I2.
  apply orb_true_iff in Hcp as [Hcp|Hcp].
  - destruct (b_packed br) as [p|] eqn:Ep; [|discriminate]. apply Z.eqb_eq in Hcp. subst p.
    destruct (I1 1 eq_refl) as [C|Hin]; [discriminate|].
    pose proof (rustc_repr_mod _ _ S) as Hm. destruct S as [Sm _]. unfold mod_sound in Sm.
    destruct (s_mod r) as [[n|n]|].
    + destruct Sm as (_ & Hall & _). rewrite Forall_forall in Hall. rewrite (Hall 1 Hin) in *. exact Hm.
    + destruct Sm as (Hp & _). rewrite Hp in Hin. destruct Hin.
    + destruct Sm as (Hp & _). rewrite Hp in Hin. destruct Hin.
  - destruct (b_base br) eqn:Ebb; try discriminate.
    destruct (I2 eq_refl) as [C|Hin]; [discriminate|].
    destruct S as [_ Sb]. unfold base_sound in Sb. rewrite Eb in Sb. cbn [base_items] in Sb.
    assert (Hin' : In ITransparent (bases (concat (zc_attrs a d)))) by (apply filter_In; split; [exact Hin|reflexivity]).
    rewrite Sb in Hin'. destruct Hin' as [C|[]]. discriminate.
Qed.

Theorem zero_copy_struct_sound a d :
  is_struct d -> zc_accepts true a d = true -> fields_wf d -> bounds_sound (zc_decl a d) ->
  decl_size (zc_decl a d) = fsum (d_fields d)
  /\ decl_align (zc_decl a d) = 1
  /\ (if zc_pod a then forallb f_pod (d_fields d) = true
      else forallb f_checked (d_fields d) = true /\ forallb f_nouninit (d_fields d) = true
           /\ forall cs, chunked (d_fields d) cs ->
                checked_ok (zc_decl a d) (concat cs) = valid_chunks (d_fields d) cs).
Proof.
  intros Hs H Hwf Hb.
  assert (Hs' : is_struct (zc_decl a d)) by exact Hs.
  assert (Hacc : align1_accepts true (zc_decl a d) = true /\ bm_zeroable (zc_decl a d) = true
                 /\ (if zc_pod a then bm_pod (zc_decl a d) else bm_checked (zc_decl a d) && bm_nouninit (zc_decl a d)) = true).
  { unfold zc_accepts in H. destruct Hs as [E|E]; rewrite E in H; zb; auto. }
  destruct Hacc as (Ha1 & _ & Hbm).
  destruct (zc_struct_repr a d Hs Ha1) as (r & bs & Eg & S & Eb & Eo & Hok & Hst).
  pose proof (zc_struct_base a d r S Eb) as Hbase.
  assert (Hwf' : fields_wf (zc_decl a d)) by exact Hwf.
  assert (Halign : decl_align (zc_decl a d) = 1) by (apply align1_sound; auto).
  (* size = sum of the field sizes *)
  assert (Hsize : decl_size (zc_decl a d) = fsum (d_fields d)).
  { destruct (zc_pod a).
    - unfold bm_pod in Hbm. cbn [zc_decl d_attrs] in Hbm.
      destruct (bm_get_repr (zc_attrs a d)) as [br|] eqn:Ebr; [|discriminate].
      assert (Hbm' : (match b_packed br with Some p => p =? 1 | None => false end
                      || match b_base br with MTransparent => true | _ => false end
                      || no_padding_assert (zc_decl a d)) = true).
      { cbn [d_form zc_decl] in Hbm. destruct Hs as [E|E]; rewrite E in Hbm; zb; assumption. }
      apply orb_true_iff in Hbm' as [Hcp|Hnp].
      + destruct (completely_packed_sound a d r br Hs S Eb Ebr Hcp) as [Hp Hal].
        rewrite (struct_decl_size _ Hs').
        destruct (packed1_struct (decl_repr (zc_decl a d)) (lays (d_fields (zc_decl a d))) Hp Hal
                    (fields_wf_aligns _ Hwf')) as (_ & Hsz & _).
        rewrite Hsz. apply fsum_sizes.
      + unfold no_padding_assert in Hnp. apply Z.eqb_eq in Hnp. exact Hnp.
    - apply andb_true_iff in Hbm as [_ Hnu]. unfold bm_nouninit in Hnu. cbn [zc_decl d_attrs] in Hnu.
      destruct (bm_get_repr (zc_attrs a d)) as [br|]; [|discriminate].
      cbn [d_form zc_decl] in Hnu. destruct Hs as [E|E]; rewrite E in Hnu; zb;
        match goal with H : no_padding_assert _ = true |- _ => unfold no_padding_assert in H; apply Z.eqb_eq in H; exact H end. }
  split; [exact Hsize|]. split; [exact Halign|].
  destruct (zc_pod a).
  - unfold bm_pod in Hbm. cbn [zc_decl d_attrs] in Hbm.
    destruct (bm_get_repr (zc_attrs a d)) as [br|]; [|discriminate].
    cbn [d_form zc_decl] in Hbm. destruct Hs as [E|E]; rewrite E in Hbm; zb; assumption.
  - apply andb_true_iff in Hbm as [Hch Hnu].
    assert (Hc : forallb f_checked (d_fields d) = true).
    { unfold bm_checked in Hch. cbn [zc_decl d_attrs] in Hch.
      destruct (bm_get_repr (zc_attrs a d)) as [br|]; [|discriminate].
      cbn [d_form zc_decl] in Hch. destruct Hs as [E|E]; rewrite E in Hch; zb; assumption. }
    assert (Hn : forallb f_nouninit (d_fields d) = true).
    { unfold bm_nouninit in Hnu. cbn [zc_decl d_attrs] in Hnu.
      destruct (bm_get_repr (zc_attrs a d)) as [br|]; [|discriminate].
      cbn [d_form zc_decl] in Hnu. destruct Hs as [E|E]; rewrite E in Hnu; zb; assumption. }
    split; [exact Hc|]. split; [exact Hn|].
    intros cs Hcs. unfold checked_ok. rewrite (chunked_zlen _ _ Hcs), Hsize, Z.eqb_refl. cbn [andb].
    assert (Hsv : struct_valid (zc_decl a d) (concat cs) = valid_chunks (d_fields d) cs).
    { unfold struct_valid. rewrite no_padding_offsets.
      - exact (fields_valid_prefix _ _ Hcs []).
      - rewrite Hbase. discriminate.
      - rewrite <- (struct_decl_size _ Hs'), Hsize. symmetry. apply fsum_sizes. }
    cbn [d_form zc_decl]. destruct Hs as [E|E]; rewrite E; exact Hsv.
Qed.

(* unit-only enums *)
Lemma variants_end_unit r vs :
  r_packed r = None -> has_data vs = false -> vs <> [] ->
  variants_end r (1, 1) (map lays vs) = 1.
Proof.
  intros Hp. induction vs as [|v t IH]; intros H Hne; [congruence|].
  cbn [has_data existsb] in H. apply orb_false_iff in H as [Hv Ht]. destruct v; [|discriminate].
  cbn [map lays variants_end]. unfold c_end. cbn [c_layout falign fsize fst snd]. unfold cap. rewrite Hp, round_up_1.
  destruct t as [|v' t']; [cbn [map variants_end]; lia|].
  fold (has_data (v' :: t')) in Ht. rewrite IH by (auto; discriminate). lia.
Qed.

Theorem zero_copy_enum_sound a d :
  d_form d = FEnum -> zc_accepts true a d = true ->
  decl_size (zc_decl a d) = 1 /\ decl_align (zc_decl a d) = 1 /\ 0 < zlen (d_variants d)
  /\ forall b, checked_ok (zc_decl a d) [b] = (0 <=? b) && (b <? zlen (d_variants d)).
Proof.
  intros Ef H. unfold zc_accepts in H. rewrite Ef in H. zb.
  match goal with H : align1_accepts true _ = true |- _ => rename H into Ha1 end.
  match goal with H : bm_zeroable _ = true |- _ => rename H into Hz end.
  match goal with H : has_data _ = false |- _ => rename H into Hd end.
  assert (Hnv : 0 < zlen (d_variants d)).
  { unfold bm_zeroable in Hz. destruct (bm_get_repr (d_attrs (zc_decl a d))); [|discriminate].
    cbn [zc_decl d_form d_variants] in Hz. rewrite Ef in Hz. zb. assumption. }
  assert (Hal : decl_align (zc_decl a d) = 1).
  { apply align1_sound; auto.
    - intros v f Hv Hf. cbn [zc_decl d_variants] in Hv.
      assert (v = []) as ->; [|destruct Hf].
      unfold has_data in Hd. destruct v; [reflexivity|]. exfalso.
      assert (existsb (fun v => negb (is_nil v)) (d_variants d) = true) by (apply existsb_exists; eexists; split; [exact Hv|reflexivity]).
      congruence.
    - intros f Hf. unfold align1_bounded in Hf. cbn [zc_decl d_form] in Hf. rewrite Ef in Hf. destruct Hf. }
  (* the pieces of the representation *)
  unfold align1_accepts in Ha1. apply andb_true_iff in Ha1 as [Hok Ha1].
  cbn [zc_decl d_form d_attrs d_generic d_variants] in Ha1. rewrite Ef in Ha1.
  unfold align1_enum in Ha1. unfold zc_attrs in Ha1. rewrite Ef in Ha1.
  destruct (sf_get_repr (d_attrs d)) as [r|] eqn:E; [|discriminate].
  pose proof (sf_get_repr_sound _ _ E) as S.
  destruct (negb (is_u8 (s_base r))) eqn:Eu; [discriminate|]. apply negb_false_iff in Eu.
  unfold is_u8 in Eu. destruct (s_base r) as [| | |k] eqn:Eb; try discriminate. apply Z.eqb_eq in Eu. subst k.
  assert (Hrepr : decl_repr (zc_decl a d) = rustc_repr (d_attrs d)).
  { unfold decl_repr, zc_decl, zc_attrs. cbn [d_attrs]. now rewrite Ef. }
  assert (Hp : r_packed (rustc_repr (d_attrs d)) = None).
  { unfold rustc_ok, rustc_repr_ok in Hok. cbn [zc_decl d_form d_attrs] in Hok. unfold zc_attrs in Hok. rewrite Ef in Hok.
    cbn [kind_of] in Hok. zb. unfold rustc_repr. cbn [r_packed].
    match goal with H : is_nil (packs _) = true |- _ => destruct (packs (concat (d_attrs d))); [reflexivity|discriminate] end. }
  assert (Hsz : decl_size (zc_decl a d) = 1).
  { unfold decl_size. cbn [zc_decl d_form d_variants]. rewrite Ef. unfold enum_size.
    fold (decl_align (zc_decl a d)) in *.
    assert (Ea : enum_align (decl_repr (zc_decl a d)) (map lays (d_variants d)) = 1).
    { unfold decl_align in Hal. cbn [zc_decl d_form d_variants] in Hal. rewrite Ef in Hal. exact Hal. }
    rewrite Ea, round_up_1, Hrepr, (rustc_repr_base_int _ _ _ S Eb).
    cbn [enum_tag int_width Z.ltb Z.compare tag_field Z.leb].
    apply variants_end_unit; auto. intros C. rewrite C in Hnv. cbn in Hnv. lia. }
  repeat split; auto.
  intros b. unfold checked_ok. rewrite Hsz. cbn [zc_decl d_form]. rewrite Ef. reflexivity.
Qed.

(* on the unrepaired derive the zero_copy attribute accepts an enum with a padding byte (same root cause as D13) *)
Lemma zero_copy_sound_unrepaired_refuted :
  zc_accepts false (mkZc false false) d13_enum = true
  /\ decl_size (zc_decl (mkZc false false) d13_enum) = 2 /\ decl_align (zc_decl (mkZc false false) d13_enum) = 2.
Proof. vm_compute. repeat split; reflexivity. Qed.

(* ------------------------------------------------------------------------------------------ *)
(* the generated sized part of unsized structs                                                 *)
Lemma sized_repr : rustc_repr sized_attrs = mkRepr BC (Some 1) None.
Proof. reflexivity. Qed.

Lemma sized_fields g fs : d_fields (sized_decl g fs) = if g then fs ++ [phantom_fld] else fs.
Proof. reflexivity. Qed.

Lemma fsum_app a b : fsum (a ++ b) = fsum a + fsum b.
Proof. unfold fsum. now rewrite map_app, zsum_app. Qed.

(* layout: holds for EVERY field list, because the struct is emitted with repr(C, packed) *)
Theorem sized_part_layout g fs :
  (forall f, In f fs -> 1 <= f_align f) ->
  decl_size (sized_decl g fs) = fsum fs /\ decl_align (sized_decl g fs) = 1
  /\ forall cs, chunked (d_fields (sized_decl g fs)) cs ->
       checked_ok (sized_decl g fs) (concat cs) = valid_chunks (d_fields (sized_decl g fs)) cs.
Proof.
  intros Hal.
  set (d := sized_decl g fs).
  assert (Hw : forall x, In x (lays (d_fields d)) -> 1 <= falign x).
  { intros x Hx. apply in_lays in Hx as (f & Hf & ->). cbn. subst d. rewrite sized_fields in Hf.
    destruct g; [apply in_app_iff in Hf as [Hf|[<-|[]]]|]; auto. cbn. lia. }
  destruct (packed1_struct (decl_repr d) (lays (d_fields d)) eq_refl eq_refl Hw) as (A & B & C).
  assert (Hsum : fsum (d_fields d) = fsum fs).
  { subst d. rewrite sized_fields. destruct g; [|reflexivity]. rewrite fsum_app. cbn. lia. }
  assert (Hsz : decl_size d = fsum fs) by (unfold decl_size; cbn [d_form sized_decl d]; rewrite B, fsum_sizes; exact Hsum).
  split; [exact Hsz|]. split; [exact A|].
  intros cs Hcs. unfold checked_ok. rewrite (chunked_zlen _ _ Hcs), Hsz, Hsum, Z.eqb_refl. cbn [andb d_form sized_decl d].
  unfold struct_valid. fold d. rewrite C. exact (fields_valid_prefix _ _ Hcs []).
Qed.

(* acceptance: every sized field's type has a bit-pattern validator and no uninitialised bytes *)
Theorem sized_part_checked g fs :
  sized_accepts true g fs = true ->
  forallb f_checked fs = true /\ forallb f_nouninit fs = true /\ forallb f_zeroable fs = true.
Proof.
  unfold sized_accepts. intros H. apply andb_true_iff in H as [_ H]. destruct g.
  - rewrite forallb_forall in H. repeat split; apply forallb_forall; intros f Hf; specialize (H f Hf); zb; assumption.
  - zb. unfold bm_checked, bm_nouninit, bm_zeroable in *. cbn [sized_decl d_attrs d_form d_generic] in *.
    destruct (bm_get_repr sized_attrs); [|discriminate]. zb. repeat split; assumption.
Qed.

(* ------------------------------------------------------------------------------------------ *)
(* ZST_STATUS                                                                                  *)
Definition on_payload (P : uty -> Prop) (v : option uty) : Prop := match v with Some t => P t | None => True end.

Fixpoint uty_ind' (P : uty -> Prop)
  (hC : forall n, P (UChecked n)) (hL : P UList) (hR : P URemaining)
  (hS : forall s fs, Forall P fs -> P (UStruct s fs))
  (hE : forall vs, Forall (on_payload P) vs -> P (UEnum vs)) (t : uty) : P t :=
  match t with
  | UChecked n => hC n
  | UList => hL
  | URemaining => hR
  | UStruct s fs =>
      hS s fs ((fix go (l : list uty) : Forall P l :=
                  match l with [] => Forall_nil P | x :: r => Forall_cons x (uty_ind' P hC hL hR hS hE x) (go r) end) fs)
  | UEnum vs =>
      hE vs ((fix go (l : list (option uty)) : Forall (on_payload P) l :=
                match l with
                | [] => Forall_nil _
                | x :: r => Forall_cons x (match x return on_payload P x with
                                           | Some p => uty_ind' P hC hL hR hS hE p
                                           | None => I
                                           end) (go r)
                end) vs)
  end.

(* sizes are never negative *)
Fixpoint uty_wf (t : uty) : Prop :=
  match t with
  | UChecked n => 0 <= n
  | UStruct s fs => (match s with Some n => 0 <= n | None => True end)
                    /\ (fix all (l : list uty) : Prop := match l with [] => True | x :: r => uty_wf x /\ all r end) fs
  | UEnum vs => (fix all (l : list (option uty)) : Prop :=
                   match l with
                   | [] => True
                   | x :: r => match x with Some p => uty_wf p | None => True end /\ all r
                   end) vs
  | _ => True
  end.
Fixpoint all_wf (l : list uty) : Prop := match l with [] => True | x :: r => uty_wf x /\ all_wf r end.
Lemma uty_wf_struct s fs : uty_wf (UStruct s fs) <-> (match s with Some n => 0 <= n | None => True end) /\ all_wf fs.
Proof. cbn [uty_wf]. split; intros [A B]; split; auto; clear A; induction fs; cbn in *; intuition. Qed.
Lemma uty_wf_enum vs : uty_wf (UEnum vs) <-> all_wf (data_variants vs).
Proof. cbn [uty_wf]. induction vs as [|[p|] r IH]; cbn [data_variants all_wf]; tauto. Qed.
Lemma all_wf_in l t : all_wf l -> In t l -> uty_wf t.
Proof. induction l as [|x r IH]; cbn; [tauto|]. intros [Wx Wr] [<-|H]; auto. Qed.

Lemma min_size_nonneg t : uty_wf t -> 0 <= min_size t.
Proof.
  induction t as [n| | |s fs IH|vs _] using uty_ind'; intros W; cbn [min_size]; try lia; [exact W|].
  apply uty_wf_struct in W as [Ws Wf].
  assert (0 <= zsum (map min_size fs)).
  { clear Ws. induction fs as [|x r IHr]; cbn [map zsum]; [lia|]. inversion IH; subst. destruct Wf. specialize (IHr H2 H0). specialize (H1 H). lia. }
  destruct s; lia.
Qed.

Lemma struct_status_true cs : struct_status cs = Some true -> cs <> [] /\ Forall (fun c => c = Some true) cs.
Proof.
  induction cs as [|c r IH]; intros H; [discriminate|]. split; [discriminate|].
  cbn [struct_status] in H. destruct r as [|c' r'].
  - subst. repeat constructor.
  - destruct c as [[|]|]; try discriminate. constructor; [reflexivity|]. apply IH. exact H.
Qed.

(* a certified "no zero-sized component" (status true) really occupies at least one byte *)
Lemma status_true_nonempty t : uty_wf t -> zst_status t = Some true -> 0 < min_size t.
Proof.
  induction t as [n| | |s fs IH|vs _] using uty_ind'; intros W H; cbn [zst_status min_size] in *; [| | | |lia].
  - inversion H as [E]. apply negb_true_iff, Z.eqb_neq in E. cbn [uty_wf] in W. lia.
  - lia.
  - discriminate.
  - apply uty_wf_struct in W as [Ws Wf].
    apply struct_status_true in H as [Hne Hall].
    apply Forall_app in Hall as [Hs Hf].
    assert (Hnn : 0 <= zsum (map min_size fs)).
    { clear -Wf. induction fs as [|x r IHr]; cbn [map zsum]; [lia|]. destruct Wf as [Wx Wr].
      pose proof (min_size_nonneg x Wx). specialize (IHr Wr). lia. }
    destruct s as [n|]; cbn [sized_status] in *.
    + inversion Hs as [|? ? E _]; subst. inversion E as [E']. apply negb_true_iff, Z.eqb_neq in E'. lia.
    + destruct fs as [|x r]; [exfalso; apply Hne; reflexivity|].
      cbn [map zsum] in *. inversion Hf as [|? ? Hx Hr]; subst. inversion IH as [|? ? IHx _]; subst. destruct Wf as [Wx Wr].
      specialize (IHx Wx Hx).
      assert (0 <= zsum (map min_size r)).
      { clear -Wr. induction r as [|y r IHr]; cbn [map zsum]; [lia|]. destruct Wr as [Wy Wr].
        pose proof (min_size_nonneg y Wy). specialize (IHr Wr). lia. }
      lia.
Qed.

Lemma struct_status_some cs b : struct_status cs = Some b ->
  exists init last, cs = init ++ [last] /\ Forall (fun c => c = Some true) init /\ last = Some b.
Proof.
  induction cs as [|c r IH]; intros H; [discriminate|].
  cbn [struct_status] in H. destruct r as [|c' r'].
  - exists [], c. repeat split; auto.
  - destruct c as [[|]|]; try discriminate. destruct (IH H) as (i & l & E & Hi & Hl).
    exists (Some true :: i), l. rewrite E. repeat split; auto.
Qed.

Lemma components_status s fs :
  sized_status s ++ map zst_status fs = map zst_status (components s fs).
Proof. unfold components. rewrite map_app. destruct s; reflexivity. Qed.

(* a component whose status is not `true` anywhere but last: evaluating ZST_STATUS panics = the program is rejected *)
Theorem zst_rejected_status s fs init c rest :
  components s fs = init ++ c :: rest -> rest <> [] -> zst_status c <> Some true ->
  zst_status (UStruct s fs) = None.
Proof.
  intros E Hr Hn. cbn [zst_status]. rewrite components_status, E.
  destruct (struct_status (map zst_status (init ++ c :: rest))) as [b|] eqn:H; [|reflexivity]. exfalso. apply Hn.
  apply struct_status_some in H as (i & l & Ei & Hi & _).
  rewrite map_app in Ei. cbn [map] in Ei.
  destruct rest as [|r0 rest']; [congruence|].
  (* c is not the last element of the status list, hence one of `i` *)
  assert (In (zst_status c) i).
  { assert (Hlen : length (map zst_status init ++ zst_status c :: map zst_status (r0 :: rest')) = length (i ++ [l])) by now rewrite Ei.
    rewrite !app_length in Hlen. cbn [length map] in Hlen. rewrite !map_length in Hlen.
    assert (Hnth : nth_error (i ++ [l]) (length init) = Some (zst_status c)).
    { rewrite <- Ei, nth_error_app2 by (rewrite map_length; lia). rewrite map_length, Nat.sub_diag. reflexivity. }
    rewrite nth_error_app1 in Hnth by lia. eapply nth_error_In; eauto. }
  rewrite Forall_forall in Hi. auto.
Qed.

(* a component that may be zero sized anywhere but last: evaluating ZST_STATUS panics = the program is rejected *)
Theorem zst_rejected s fs init c rest :
  all_wf (components s fs) ->
  components s fs = init ++ c :: rest -> rest <> [] -> min_size c = 0 ->
  zst_status (UStruct s fs) = None.
Proof.
  intros W E Hr Hz. apply (zst_rejected_status s fs init c rest E Hr). intros Hc.
  assert (Wc : uty_wf c) by (apply (all_wf_in _ _ W); rewrite E; apply in_elt).
  pose proof (status_true_nonempty c Wc Hc). lia.
Qed.

(* ---- unsized enums ---- *)
Lemma zst_status_enum vs : zst_status (UEnum vs) = enum_status (map zst_status (data_variants vs)).
Proof.
  cbn [zst_status]. f_equal. induction vs as [|[p|] r IH]; cbn [flat_map data_variants map app]; [reflexivity| |exact IH].
  now rewrite IH.
Qed.

Lemma data_variants_in vs t : In t (data_variants vs) <-> In (Some t) vs.
Proof.
  induction vs as [|[p|] r IH]; cbn [data_variants In]; [tauto| |].
  - rewrite IH. split; intros [H|H]; auto; [left; congruence|]. left. congruence.
  - rewrite IH. split; [auto|]. intros [H|H]; [discriminate|exact H].
Qed.

(* the conjunction: defined exactly when every operand is, and then `true` exactly when every operand is `true` *)
Lemma enum_status_defined cs : enum_status cs <> None <-> Forall (fun c => c <> None) cs.
Proof.
  induction cs as [|[x|] r IH]; cbn [enum_status].
  - split; [constructor|discriminate].
  - split.
    + intros H. constructor; [discriminate|]. apply IH. intros E. rewrite E in H. congruence.
    + intros H. inversion H as [|? ? _ Hr]; subst. apply IH in Hr. destruct (enum_status r); [discriminate|congruence].
  - split; [congruence|]. intros H. inversion H; subst. congruence.
Qed.

Lemma enum_status_value cs b : enum_status cs = Some b -> (b = true <-> Forall (fun c => c = Some true) cs).
Proof.
  revert b. induction cs as [|[x|] r IH]; intros b; cbn [enum_status]; [| |discriminate].
  - intros [= <-]. split; [constructor|reflexivity].
  - destruct (enum_status r) as [y|]; [|discriminate]. intros [= <-]. specialize (IH y eq_refl).
    rewrite andb_true_iff, IH. split.
    + intros [-> H]. constructor; auto.
    + intros H. inversion H as [|? ? E Hr]; subst. split; [congruence|exact Hr].
Qed.

Lemma enum_status_some cs b : enum_status cs = Some b <->
  Forall (fun c => c <> None) cs /\ (b = true <-> Forall (fun c => c = Some true) cs).
Proof.
  split.
  - intros H. split; [apply enum_status_defined; congruence|apply enum_status_value, H].
  - intros [Hd Hb]. apply enum_status_defined in Hd. destruct (enum_status cs) as [y|] eqn:E; [|congruence].
    apply enum_status_value in E. f_equal. destruct y, b; try reflexivity.
    + symmetry. apply Hb, E. reflexivity.
    + apply E, Hb. reflexivity.
Qed.

(* an enum is certified "no zero-sized component" only when every payload is *)
Theorem zst_enum_true vs t : zst_status (UEnum vs) = Some true -> In (Some t) vs -> zst_status t = Some true.
Proof.
  rewrite zst_status_enum. intros H Hin. apply enum_status_some in H as [_ [H _]]. specialize (H eq_refl).
  rewrite Forall_forall in H. apply H, in_map, data_variants_in, Hin.
Qed.

(* a payload whose own ZST_STATUS does not evaluate takes the enum with it *)
Theorem zst_enum_panics vs t : In (Some t) vs -> zst_status t = None -> zst_status (UEnum vs) = None.
Proof.
  intros Hin Ht. rewrite zst_status_enum. destruct (enum_status _) as [b|] eqn:E; [|reflexivity].
  apply enum_status_some in E as [Hd _]. rewrite Forall_forall in Hd. exfalso. apply (Hd (zst_status t)); [|exact Ht].
  apply in_map, data_variants_in, Hin.
Qed.

(* the exact value: every payload evaluates, and the enum's status is their conjunction *)
Theorem zst_enum_value vs b : zst_status (UEnum vs) = Some b <->
  (forall t, In (Some t) vs -> zst_status t <> None)
  /\ (b = true <-> forall t, In (Some t) vs -> zst_status t = Some true).
Proof.
  rewrite zst_status_enum, enum_status_some, !Forall_forall.
  assert (A : (forall c, In c (map zst_status (data_variants vs)) -> c <> None) <-> (forall t, In (Some t) vs -> zst_status t <> None)).
  { split.
    - intros H t Hin. apply H, in_map, data_variants_in, Hin.
    - intros H c Hc. apply in_map_iff in Hc as (t & <- & Ht). apply H, data_variants_in, Ht. }
  assert (B : (forall c, In c (map zst_status (data_variants vs)) -> c = Some true) <-> (forall t, In (Some t) vs -> zst_status t = Some true)).
  { split.
    - intros H t Hin. apply H, in_map, data_variants_in, Hin.
    - intros H c Hc. apply in_map_iff in Hc as (t & <- & Ht). apply H, data_variants_in, Ht. }
  rewrite A, B. reflexivity.
Qed.

(* an enum one of whose variants' payloads may be zero sized, anywhere but last in a struct: rejected *)
Theorem zst_enum_rejected s fs init vs t rest :
  components s fs = init ++ UEnum vs :: rest -> rest <> [] ->
  In (Some t) vs -> uty_wf t -> min_size t = 0 ->
  zst_status (UStruct s fs) = None.
Proof.
  intros E Hr Hin Wt Hz. apply (zst_rejected_status s fs init (UEnum vs) rest E Hr). intros Hc.
  pose proof (status_true_nonempty t Wt (zst_enum_true vs t Hc Hin)). lia.
Qed.

(* conversely: what an accepted struct looks like - every component except the last has status true *)
Theorem zst_accepted_shape s fs b :
  zst_status (UStruct s fs) = Some b ->
  exists init last, components s fs = init ++ [last]
    /\ Forall (fun c => zst_status c = Some true) init /\ zst_status last = Some b.
Proof.
  cbn [zst_status]. rewrite components_status. intros H.
  apply struct_status_some in H as (i & l & E & Hi & Hl).
  assert (components s fs <> []) by (intros C; rewrite C in E; destruct i; discriminate).
  destruct (exists_last H) as (init & last & Ec). exists init, last. split; [exact Ec|].
  rewrite Ec, map_app in E. cbn [map] in E. apply app_inj_tail in E as [E1 E2]. subst. split; auto.
  clear -Hi. induction init as [|x r IH]; [constructor|]. inversion Hi; subst. constructor; auto.
Qed.

(* ------------------------------------------------------------------------------------------ *)
(* the documented valid forms keep compiling under the repaired rule                           *)
Definition struct_form (f : form) : Prop := f = FStruct \/ f = FTuple.
Definition no_param (fs : list fld) : Prop := forallb (fun f => negb (f_param f)) fs = true.

(* #[derive(Align1)] struct S { a: u8, b: [u8; 4], .. }  with the default representation or repr(C) *)
Lemma valid_align1_plain fm c fs :
  struct_form fm -> forallb f_a1 fs = true ->
  align1_accepts true (mkDecl fm false (if c : bool then [[IC]] else []) [fs]) = true.
Proof. intros [-> | ->] H; destruct c; unfold align1_accepts; cbn; now rewrite H. Qed.

(* #[derive(Align1)] #[repr(C, packed)] struct PackedValue<T>(pub T);  any fields, generic or not *)
Lemma valid_align1_packed fm g fs :
  struct_form fm -> (g = true -> existsb f_param fs = true) ->
  align1_accepts true (mkDecl fm g [[IC; IPacked 1]] [fs]) = true.
Proof.
  intros Hf Hg. unfold align1_accepts, rustc_ok. cbn [d_generic].
  assert (E : (negb g || uses_param (mkDecl fm g [[IC; IPacked 1]] [fs])) = true).
  { destruct g; [|reflexivity]. cbn. rewrite Hg by reflexivity. reflexivity. }
  rewrite E. destruct Hf as [-> | ->]; reflexivity.
Qed.

(* #[derive(Align1)] #[repr(transparent)] struct W(inner) *)
Lemma valid_align1_transparent fm f :
  struct_form fm -> f_a1 f = true -> f_param f = false ->
  align1_accepts true (mkDecl fm false [[ITransparent]] [[f]]) = true.
Proof.
  intros Hf Ha Hp. unfold align1_accepts, rustc_ok, rustc_repr_ok, nontrivial_count.
  cbn [d_fields d_variants d_attrs d_form d_generic filter].
  assert (E : zlen (if f_param f || negb ((f_size f =? 0) && (f_align f =? 1)) then [f] else []) <=? 1 = true)
    by (destruct (f_param f || negb ((f_size f =? 0) && (f_align f =? 1))); reflexivity).
  destruct Hf as [-> | ->]; cbn; rewrite Ha; cbn in E; rewrite E; reflexivity.
Qed.

(* #[derive(Align1)] #[repr(u8)] enum E { A, B, .. } *)
Lemma valid_align1_unit_enum vs :
  vs <> [] -> has_data vs = false -> align1_accepts true (mkDecl FEnum false [[IInt 0]] vs) = true.
Proof.
  intros Hne Hd. unfold align1_accepts, rustc_ok, rustc_repr_ok, align1_enum.
  cbn [d_fields d_variants d_attrs d_form d_generic kind_of concat app packs aligns first_int has_transparent existsb
       forallb is_nil andb orb negb]. rewrite Hd.
  assert (0 <? zlen vs = true) as ->. { apply Z.ltb_lt. destruct vs; [congruence|]. rewrite zlen_cons. pose proof (zlen_nonneg vs). lia. }
  reflexivity.
Qed.

Lemma max_align_tag_all1 (v : list fld) :
  (forall f, In f v -> f_align f = 1) -> max_align (mkRepr (BInt 1) None None) ((1, 1) :: lays v) = 1.
Proof.
  intros H. apply max_align_all1. intros g [<-|Hg]; [reflexivity|].
  apply in_lays in Hg as (f & Hf & ->). cbn. auto.
Qed.

(* #[derive(Align1)] #[repr(u8)] enum E { A(u8, [u8; 3]), B }  with 1-aligned fields: the static assertion passes *)
Lemma valid_align1_data_enum vs :
  vs <> [] -> (forall v f, In v vs -> In f v -> f_align f = 1) ->
  align1_accepts true (mkDecl FEnum false [[IInt 0]] vs) = true.
Proof.
  intros Hne Hal.
  assert (Hd : decl_align (mkDecl FEnum false [[IInt 0]] vs) = 1).
  { unfold decl_align, decl_repr, enum_align. cbn [d_form d_variants d_attrs].
    change (rustc_repr [[IInt 0]]) with (mkRepr (BInt 1) None None).
    cbn [r_base enum_tag tag_field Z.leb Z.compare raise r_align].
    clear Hne. induction vs as [|v t IH]; [reflexivity|]. cbn [map variants_align].
    rewrite IH by (intros; eapply Hal; [right|]; eauto).
    rewrite max_align_tag_all1 by (intros; eapply Hal; [left; reflexivity|]; auto). reflexivity. }
  unfold align1_accepts, rustc_ok, rustc_repr_ok, align1_enum.
  rewrite Hd.
  cbn [d_fields d_variants d_attrs d_form d_generic kind_of concat app packs aligns first_int has_transparent existsb
       forallb is_nil andb orb negb].
  assert (0 <? zlen vs = true) as ->. { apply Z.ltb_lt. destruct vs; [congruence|]. rewrite zlen_cons. pose proof (zlen_nonneg vs). lia. }
  cbn. destruct (has_data vs); reflexivity.
Qed.

Lemma packed_decl_size fm ats fs :
  struct_form fm -> r_packed (rustc_repr ats) = Some 1 -> r_align (rustc_repr ats) = None ->
  (forall f, In f fs -> 1 <= f_align f) ->
  decl_size (mkDecl fm false ats [fs]) = fsum fs.
Proof.
  intros Hf Hp Ha Hal.
  assert (Hw : forall x, In x (lays fs) -> 1 <= falign x) by (intros x Hx; apply in_lays in Hx as (f & Hf' & ->); cbn; auto).
  destruct (packed1_struct (rustc_repr ats) (lays fs) Hp Ha Hw) as (_ & B & _).
  unfold decl_size, decl_repr. cbn [d_form d_attrs d_fields d_variants]. destruct Hf as [-> | ->]; rewrite B; apply fsum_sizes.
Qed.

Lemma bm_repr_c_packed : bm_get_repr [[IC; IPacked 1]] = Some (mkBm MC (Some 1) None).
Proof. reflexivity. Qed.

Lemma zc_decl_plain fm pod fs : struct_form fm ->
  zc_decl (mkZc pod false) (mkDecl fm false [] [fs]) = mkDecl fm false [[IC; IPacked 1]] [fs].
Proof. intros [-> | ->]; reflexivity. Qed.

(* #[zero_copy] struct MyStruct { field: u64 }  (macro doc): any CheckedBitPattern + NoUninit + Zeroable fields *)
Lemma valid_zero_copy_struct fm fs :
  struct_form fm -> (forall f, In f fs -> 1 <= f_align f) ->
  forallb f_checked fs = true -> forallb f_nouninit fs = true -> forallb f_zeroable fs = true ->
  zc_accepts true (mkZc false false) (mkDecl fm false [] [fs]) = true.
Proof.
  intros Hf Hal Hc Hn Hz.
  pose proof (packed_decl_size fm [[IC; IPacked 1]] fs Hf eq_refl eq_refl Hal) as Hs.
  pose proof (valid_align1_packed fm false fs Hf ltac:(discriminate)) as Ha.
  assert (Hform : zc_accepts true (mkZc false false) (mkDecl fm false [] [fs]) =
                  (align1_accepts true (zc_decl (mkZc false false) (mkDecl fm false [] [fs]))
                   && bm_zeroable (zc_decl (mkZc false false) (mkDecl fm false [] [fs]))
                   && (bm_checked (zc_decl (mkZc false false) (mkDecl fm false [] [fs]))
                       && bm_nouninit (zc_decl (mkZc false false) (mkDecl fm false [] [fs])))))
    by (destruct Hf as [-> | ->]; reflexivity).
  rewrite Hform, (zc_decl_plain fm false fs Hf), Ha.
  unfold bm_zeroable, bm_checked, bm_nouninit, no_padding_assert. cbn [d_attrs]. rewrite bm_repr_c_packed, Hs.
  cbn [d_form d_generic d_fields d_variants b_base bm_c_or_transparent negb andb]. rewrite Z.eqb_refl, Hc, Hn, Hz.
  destruct Hf as [-> | ->]; reflexivity.
Qed.

(* #[zero_copy(pod)] struct MyAccount { data: u64 }  (ProgramAccount doc) *)
Lemma valid_zero_copy_pod fm fs :
  struct_form fm -> forallb f_pod fs = true -> forallb f_zeroable fs = true ->
  zc_accepts true (mkZc true false) (mkDecl fm false [] [fs]) = true.
Proof.
  intros Hf Hp Hz.
  pose proof (valid_align1_packed fm false fs Hf ltac:(discriminate)) as Ha.
  assert (Hform : zc_accepts true (mkZc true false) (mkDecl fm false [] [fs]) =
                  (align1_accepts true (zc_decl (mkZc true false) (mkDecl fm false [] [fs]))
                   && bm_zeroable (zc_decl (mkZc true false) (mkDecl fm false [] [fs]))
                   && bm_pod (zc_decl (mkZc true false) (mkDecl fm false [] [fs]))))
    by (destruct Hf as [-> | ->]; reflexivity).
  rewrite Hform, (zc_decl_plain fm true fs Hf), Ha.
  unfold bm_zeroable, bm_pod. cbn [d_attrs]. rewrite bm_repr_c_packed.
  cbn [d_form d_generic d_fields d_variants b_base b_packed bm_c_or_transparent negb andb orb Z.eqb Pos.eqb]. rewrite Hp, Hz.
  destruct Hf as [-> | ->]; reflexivity.
Qed.

(* #[zero_copy] #[repr(u8)] enum E { A, B } *)
Lemma valid_zero_copy_enum vs :
  vs <> [] -> has_data vs = false ->
  zc_accepts true (mkZc false false) (mkDecl FEnum false [[IInt 0]] vs) = true.
Proof.
  intros Hne Hd.
  pose proof (valid_align1_unit_enum vs Hne Hd) as Ha.
  assert (Hz : 0 <? zlen vs = true). { apply Z.ltb_lt. destruct vs; [congruence|]. rewrite zlen_cons. pose proof (zlen_nonneg vs). lia. }
  unfold zc_accepts, zc_decl, zc_attrs, bm_zeroable, bm_checked, bm_nouninit.
  cbn [d_form d_generic d_attrs d_variants d_fields zc_skip_packed zc_pod]. rewrite Ha, Hd. cbn. rewrite Hz. reflexivity.
Qed.

(* the ZST doctests' accepted shape: status true everywhere but possibly the last component *)
Lemma struct_status_accepts i b : Forall (fun c => c = Some true) i -> struct_status (i ++ [Some b]) = Some b.
Proof.
  induction 1 as [|c r Hc _ IH]; [reflexivity|]. subst c. cbn [app struct_status].
  destruct (r ++ [Some b]) eqn:E; [destruct r; discriminate|]. exact IH.
Qed.

Lemma valid_unsized_status n init last b :
  n <> 0 -> Forall (fun c => zst_status c = Some true) init -> zst_status last = Some b ->
  zst_status (UStruct (Some n) (init ++ [last])) = Some b.
Proof.
  intros Hn Hi Hl. cbn [zst_status sized_status].
  assert (negb (n =? 0) = true) as -> by (apply negb_true_iff, Z.eqb_neq; exact Hn).
  rewrite map_app. cbn [map]. rewrite Hl.
  change ([Some true] ++ map zst_status init ++ [Some b]) with ((Some true :: map zst_status init) ++ [Some b]).
  apply struct_status_accepts. constructor; [reflexivity|].
  clear -Hi. induction Hi; cbn [map]; constructor; auto.
Qed.

(* a zero-sized field INSIDE a non-empty sized part is not a component of its own: it is accepted (by design: the
   sized part is one CheckedBitPattern value behind one pointer) *)
Lemma zst_inside_sized_part_accepted :
  zst_status (UStruct (Some (fsum [pod_fld 1 1; pod_fld 0 1; pod_fld 1 1])) [UList]) = Some true.
Proof. reflexivity. Qed.

(* #[zero_copy(skip_packed)] struct S { .. }  "all fields must be Align1 if used" (macro doc) *)
Lemma valid_zero_copy_skip_packed fm fs :
  struct_form fm -> (forall f, In f fs -> f_align f = 1) -> forallb f_a1 fs = true ->
  forallb f_checked fs = true -> forallb f_nouninit fs = true -> forallb f_zeroable fs = true ->
  zc_accepts true (mkZc false true) (mkDecl fm false [] [fs]) = true.
Proof.
  intros Hf Hal Ha1 Hc Hn Hz.
  assert (Hd : zc_decl (mkZc false true) (mkDecl fm false [] [fs]) = mkDecl fm false [[IC]] [fs])
    by (destruct Hf as [-> | ->]; reflexivity).
  pose proof (valid_align1_plain fm true fs Hf Ha1) as Ha. cbn [andb] in Ha.
  assert (Hs : decl_size (mkDecl fm false [[IC]] [fs]) = fsum fs).
  { assert (Hw : forall x, In x (lays fs) -> cap (rustc_repr [[IC]]) (falign x) = 1)
      by (intros x Hx; apply in_lays in Hx as (f & Hf' & ->); cbn; auto).
    destruct (all1_struct (rustc_repr [[IC]]) (lays fs) eq_refl Hw) as (_ & B).
    unfold decl_size, decl_repr. cbn [d_form d_attrs d_fields d_variants]. destruct Hf as [-> | ->]; rewrite B; apply fsum_sizes. }
  assert (Hform : zc_accepts true (mkZc false true) (mkDecl fm false [] [fs]) =
                  (align1_accepts true (zc_decl (mkZc false true) (mkDecl fm false [] [fs]))
                   && bm_zeroable (zc_decl (mkZc false true) (mkDecl fm false [] [fs]))
                   && (bm_checked (zc_decl (mkZc false true) (mkDecl fm false [] [fs]))
                       && bm_nouninit (zc_decl (mkZc false true) (mkDecl fm false [] [fs])))))
    by (destruct Hf as [-> | ->]; reflexivity).
  rewrite Hform, Hd, Ha.
  unfold bm_zeroable, bm_checked, bm_nouninit, no_padding_assert. cbn [d_attrs].
  change (bm_get_repr [[IC]]) with (Some (mkBm MC None None)). rewrite Hs.
  cbn [d_form d_generic d_fields d_variants b_base bm_c_or_transparent negb andb]. rewrite Z.eqb_refl, Hc, Hn, Hz.
  destruct Hf as [-> | ->]; reflexivity.
Qed.

(* the sized part of  #[unsized_type] struct X { a: u8, b: u64, #[unsized_start] .. } *)
Lemma valid_sized_part fs :
  (forall f, In f fs -> 1 <= f_align f) ->
  forallb f_checked fs = true -> forallb f_nouninit fs = true -> forallb f_zeroable fs = true ->
  sized_accepts true false fs = true.
Proof.
  intros Hal Hc Hn Hz.
  pose proof (packed_decl_size FStruct [[IC; IPacked 1]] fs (or_introl eq_refl) eq_refl eq_refl Hal) as Hs.
  pose proof (valid_align1_packed FStruct false fs (or_introl eq_refl) ltac:(discriminate)) as Ha.
  unfold sized_accepts, sized_decl, sized_attrs. rewrite Ha.
  unfold bm_zeroable, bm_checked, bm_nouninit, no_padding_assert. cbn [d_attrs]. rewrite bm_repr_c_packed, Hs.
  cbn [d_form d_generic d_fields d_variants b_base bm_c_or_transparent negb andb]. rewrite Z.eqb_refl, Hc, Hn, Hz. reflexivity.
Qed.

(* the whole unsized struct, opened through the wrapper: sized part accepted, statuses fine *)
Lemma valid_unsized fs init last b :
  fs <> [] -> fsum fs <> 0 -> sized_accepts true false fs = true ->
  Forall (fun c => zst_status c = Some true) init -> zst_status last = Some b ->
  unsized_accepts true false true fs (init ++ [last]) = true.
Proof.
  intros Hne Hs Ha Hi Hl. unfold unsized_accepts. rewrite Ha.
  assert (is_nil fs = false) as -> by (destruct fs; [congruence|reflexivity]).
  assert (is_nil (init ++ [last]) = false) as -> by (destruct init; reflexivity).
  rewrite (valid_unsized_status (fsum fs) init last b Hs Hi Hl). reflexivity.
Qed.

Theorem sized_part_sound g fs :
  sized_accepts true g fs = true -> (forall f, In f fs -> 1 <= f_align f) ->
  decl_size (sized_decl g fs) = fsum fs /\ decl_align (sized_decl g fs) = 1
  /\ forallb f_checked fs = true /\ forallb f_nouninit fs = true
  /\ forall cs, chunked (d_fields (sized_decl g fs)) cs ->
       checked_ok (sized_decl g fs) (concat cs) = valid_chunks (d_fields (sized_decl g fs)) cs.
Proof.
  intros H Hal. destruct (sized_part_layout g fs Hal) as (A & B & C).
  destruct (sized_part_checked g fs H) as (D & E & _). auto.
Qed.

(* ------------------------------------------------------------------------------------------ *)
(* the bound style of a generic declaration (the hundreds of the G component) does not reach the decision *)
Lemma g_decode : forall k s : Z, 0 < k < 100 -> 0 <= s <= 2 ->
  g_ok (k + 100 * s) = true /\ g_inst (k + 100 * s) = k.
Proof.
  intros k s Hk Hs. unfold g_ok, g_style, g_inst.
  replace (k + 100 * s) with (k + s * 100) by ring.
  rewrite Z.div_add by discriminate. rewrite Z.mod_add by discriminate.
  rewrite Z.div_small by lia. rewrite Z.mod_small by lia.
  split; [|reflexivity].
  apply andb_true_iff; split; [apply andb_true_iff; split|].
  - apply Z.leb_le. lia.
  - apply Z.leb_le. lia.
  - apply orb_true_iff. right. apply negb_true_iff. apply Z.eqb_neq. lia.
Qed.

Theorem bound_style_irrelevant :
  forall (m f k s : Z) (rest : list Z),
    0 < k < 100 -> 0 <= s <= 2 ->
    run_c19 (m :: f :: (k + 100 * s) :: rest) = run_c19 (m :: f :: k :: rest).
Proof.
  intros m f k s rest Hk Hs.
  destruct (g_decode k s Hk Hs) as [Ho Hi].
  assert (H0 : 0 <= 0 <= 2) by lia.
  destruct (g_decode k 0 Hk H0) as [Ho0 Hi0]. replace (k + 100 * 0) with k in * by ring.
  cbn [run_c19]. rewrite Ho, Hi, Ho0, Hi0. reflexivity.
Qed.


(* ------------------------------------------------------------------------------------------ *)
(* tuple field types: the hypothesis of align1_sound (`f_a1 f = true -> f_align f = 1`) is DISCHARGED for them from the
   same hypothesis on their elements - because the library's impl bounds EVERY element (align1.rs 40-66) *)
Lemma cap_rust a : cap rust_repr a = a.
Proof. reflexivity. Qed.

Theorem tuple_a1_sound :
  forall es : list fld,
    (forall e, In e es -> f_a1 e = true -> f_align e = 1) ->
    f_a1 (tuple_fld es) = true ->
    f_align (tuple_fld es) = 1 /\ f_size (tuple_fld es) = fsum es.
Proof.
  intros es He Ha. cbn [tuple_fld f_a1 f_align f_size] in *.
  rewrite forallb_forall in Ha.
  assert (H1 : forall f, In f (lays es) -> cap rust_repr (falign f) = 1).
  { intros f Hf. unfold lays in Hf. apply in_map_iff in Hf as [e [<- Hin]]. rewrite cap_rust. cbn [lay falign snd].
    apply He; auto. }
  destruct (all1_struct rust_repr (lays es) eq_refl H1) as [A S]. split; [exact A|].
  rewrite S. unfold fsum, lays, sizes. rewrite map_map. reflexivity.
Qed.

(* the converse direction of the impl: a tuple of Align1 elements IS certified (the documented form keeps compiling) *)
Theorem tuple_a1_complete :
  forall es : list fld, forallb f_a1 es = true -> f_a1 (tuple_fld es) = true.
Proof. intros es H. exact H. Qed.

(* an impl that leaves the FIRST element unbounded (`where T2: Align1, .., Tn: Align1`) certifies (u64, u8) *)
Definition tuple_fld_first_unbounded (es : list fld) : fld :=
  mkFld (f_size (tuple_fld es)) (f_align (tuple_fld es)) (forallb f_a1 (tl es))
        false (forallb f_zeroable es) false false (existsb f_param es) (fun _ => false).

Theorem tuple_a1_first_unbounded_refuted :
  exists es : list fld,
    (forall e, In e es -> f_a1 e = true -> f_align e = 1)
    /\ f_a1 (tuple_fld_first_unbounded es) = true
    /\ f_align (tuple_fld_first_unbounded es) = 8
    /\ f_a1 (tuple_fld es) = false.
Proof.
  exists [pod_fld 8 8; pod_fld 1 1]. split; [|vm_compute; repeat split; reflexivity].
  intros e [<-|[<-|[]]]; vm_compute; intros; congruence.
Qed.

(* every field type of the correspondence's menu whose model says "an Align1 impl applies" has alignment 1, and no
   field type has a negative size or a non-positive alignment: the hypotheses of the soundness theorems hold for every
   declaration the runner decodes *)
Lemma pod_fld_a1 s a : f_a1 (pod_fld s a) = true -> f_align (pod_fld s a) = 1.
Proof. cbn. intros H. now apply Z.eqb_eq. Qed.

Theorem menu_a1_sound :
  forall (c : Z) (f : fld), menu c = Some f -> f_a1 f = true -> f_align f = 1.
Proof.
  intros c f H. unfold menu in H.
  destruct ((20 <=? c) && (c <=? 32));
  repeat match type of H with
         | context [c =? ?k] => destruct (c =? k); [inversion H; subst; clear H; vm_compute; intros; congruence|]
         end.
  - inversion H; subst. apply pod_fld_a1.
  - discriminate.
Qed.

Theorem field_of_a1_sound :
  forall (g c : Z) (f : fld),
    field_of (menu g) c = Some f -> f_a1 f = true -> f_align f = 1.
Proof.
  intros g c f. unfold field_of.
  destruct (c =? 99).
  { destruct (menu g) as [i|] eqn:E; [|discriminate]. intros H; inversion H; subst. cbn. apply (menu_a1_sound g i E). }
  assert (T : forall es, (forall e, In e es -> f_a1 e = true -> f_align e = 1) ->
                         f_a1 (tuple_fld es) = true -> f_align (tuple_fld es) = 1)
    by (intros es He Ha; apply (tuple_a1_sound es He Ha)).
  destruct (c =? 97).
  { destruct (menu g) as [i|] eqn:E; [|discriminate]. intros H; inversion H; subst. apply T.
    intros e [<-|[<-|[]]]; [cbn; apply (menu_a1_sound g i E)|vm_compute; congruence]. }
  destruct (c =? 98).
  { destruct (menu g) as [i|] eqn:E; [|discriminate]. intros H; inversion H; subst. apply T.
    intros e [<-|[<-|[]]]; [vm_compute; congruence|cbn; apply (menu_a1_sound g i E)]. }
  apply menu_a1_sound.
Qed.
