(* C19 - Rust's documented type-layout rules as total functions (no proofs here).

   Source: The Rust Reference, "Type layout" (representations: Rust, C, transparent, primitive; the `packed(N)`
   and `align(N)` modifiers) and rustc's attribute checks (error codes cited).  This file is a MODEL of rustc, not
   of /repo: it is tied to the real compiler by the correspondence check of C19, which compiles every generated
   declaration and compares accept/reject, align_of and size_of with these functions.

   A field is a pair (size, align).  A representation is what rustc derives from ALL `#[repr(..)]` attributes of
   an item.  Everything is total; combinations rustc rejects are flagged by `rustc_repr_ok`. *)
From SF Require Import Base.Prelude.

(* ------------------------------------------------------------------------------------------ *)
(* the repr grammar: the items that may appear inside #[repr(...)]                             *)
Inductive ritem :=
| IC                      (* C *)
| ITransparent            (* transparent *)
| IInt (k : Z)            (* primitive integer: 0 u8 1 i8 2 u16 3 i16 4 u32 5 i32 6 u64 7 i64 *)
| IPacked (n : Z)         (* packed(n); bare `packed` is packed(1) *)
| IAlign (n : Z).         (* align(n) *)

Definition attrs := list (list ritem).     (* one inner list per #[repr(..)] attribute, in source order *)

Definition int_width (k : Z) : Z :=
  if k <? 2 then 1 else if k <? 4 then 2 else if k <? 6 then 4 else 8.

(* ------------------------------------------------------------------------------------------ *)
Definition field := (Z * Z)%type.
Definition fsize (f : field) : Z := fst f.
Definition falign (f : field) : Z := snd f.

Inductive base := BRust | BC | BTransparent | BInt (w : Z).
Record repr := mkRepr { r_base : base; r_packed : option Z; r_align : option Z }.

Fixpoint packs (l : list ritem) : list Z :=
  match l with [] => [] | IPacked n :: r => n :: packs r | _ :: r => packs r end.
Fixpoint aligns (l : list ritem) : list Z :=
  match l with [] => [] | IAlign n :: r => n :: aligns r | _ :: r => aligns r end.
Definition is_base (i : ritem) : bool :=
  match i with IC | ITransparent | IInt _ => true | _ => false end.
Definition bases (l : list ritem) : list ritem := filter is_base l.

Fixpoint list_min (l : list Z) : option Z :=
  match l with
  | [] => None
  | x :: r => match list_min r with None => Some x | Some m => Some (Z.min x m) end
  end.
Fixpoint list_max (l : list Z) : option Z :=
  match l with
  | [] => None
  | x :: r => match list_max r with None => Some x | Some m => Some (Z.max x m) end
  end.

Fixpoint first_int (l : list ritem) : option Z :=
  match l with [] => None | IInt k :: _ => Some k | _ :: r => first_int r end.
Definition has_c (l : list ritem) : bool := existsb (fun i => match i with IC => true | _ => false end) l.
Definition has_transparent (l : list ritem) : bool :=
  existsb (fun i => match i with ITransparent => true | _ => false end) l.

(* what rustc makes of all repr attributes together: hints accumulate over attributes; the largest align(N)
   wins; differing packed(N) are an error (E0634), so any choice is fine for them - we take the smallest *)
Definition rustc_repr (ats : attrs) : repr :=
  let l := concat ats in
  mkRepr (match first_int l with
          | Some k => BInt (int_width k)
          | None => if has_c l then BC else if has_transparent l then BTransparent else BRust
          end)
         (list_min (packs l)) (list_max (aligns l)).

(* ------------------------------------------------------------------------------------------ *)
(* alignment and size                                                                          *)
Definition round_up (x a : Z) : Z := if a <=? 0 then x else ((x + a - 1) / a) * a.

(* packed(N) lowers each field's alignment to at most N; align(N) raises the type's alignment to at least N *)
Definition cap (r : repr) (a : Z) : Z := match r_packed r with Some p => Z.min a p | None => a end.
Definition raise (r : repr) (a : Z) : Z := match r_align r with Some n => Z.max a n | None => a end.

Fixpoint max_align (r : repr) (fs : list field) : Z :=
  match fs with [] => 1 | f :: t => Z.max (cap r (falign f)) (max_align r t) end.

(* struct / union / tuple: alignment = max (capped) field alignment, raised by align(N).
   (for repr(Rust) the Reference only promises ">="; rustc gives exactly this) *)
Definition struct_align (r : repr) (fs : list field) : Z := raise r (max_align r fs).

(* repr(C): fields in declaration order, each at the next multiple of its (capped) alignment *)
Fixpoint c_layout (r : repr) (cur : Z) (fs : list field) : list Z * Z :=
  match fs with
  | [] => ([], cur)
  | f :: t => let o := round_up cur (cap r (falign f)) in
              let (os, e) := c_layout r (o + fsize f) t in (o :: os, e)
  end.
Definition c_offsets (r : repr) (fs : list field) : list Z := fst (c_layout r 0 fs).
Definition c_end (r : repr) (fs : list field) : Z := snd (c_layout r 0 fs).

Definition sizes (fs : list field) : list Z := map fsize fs.

(* repr(Rust): rustc orders fields by decreasing (capped) alignment; every size is a multiple of its alignment,
   so no interior padding remains: the size is the sum rounded up to the alignment *)
Definition struct_size (r : repr) (fs : list field) : Z :=
  match r_base r with
  | BRust => round_up (zsum (sizes fs)) (struct_align r fs)
  | _ => round_up (c_end r fs) (struct_align r fs)
  end.
Definition padding (r : repr) (fs : list field) : Z := struct_size r fs - zsum (sizes fs).

Fixpoint max_size (fs : list field) : Z :=
  match fs with [] => 0 | f :: t => Z.max (fsize f) (max_size t) end.
Definition union_size (r : repr) (fs : list field) : Z := round_up (max_size fs) (struct_align r fs).

(* enums.  tag width: the integer repr; repr(C) -> c_int; repr(Rust) -> the smallest that fits *)
Definition enum_tag (b : base) (nvariants : Z) : Z :=
  match b with
  | BInt w => w
  | BC => 4
  | _ => if nvariants <=? 1 then 0 else if nvariants <=? 256 then 1 else if nvariants <=? 65536 then 2 else 4
  end.
Definition tag_field (w : Z) : field := (w, if w <=? 0 then 1 else w).

(* with a primitive repr every variant is a repr(C) struct (tag, fields...) and the enum is their union;
   unit-only enums are the special case of empty field lists *)
Fixpoint variants_align (r : repr) (tag : field) (vs : list (list field)) : Z :=
  match vs with [] => cap r (falign tag) | v :: t => Z.max (max_align r (tag :: v)) (variants_align r tag t) end.
Fixpoint variants_end (r : repr) (tag : field) (vs : list (list field)) : Z :=
  match vs with [] => 0 | v :: t => Z.max (c_end r (tag :: v)) (variants_end r tag t) end.
Definition enum_align (r : repr) (vs : list (list field)) : Z :=
  raise r (variants_align r (tag_field (enum_tag (r_base r) (zlen vs))) vs).
Definition enum_size (r : repr) (vs : list (list field)) : Z :=
  round_up (variants_end r (tag_field (enum_tag (r_base r) (zlen vs))) vs) (enum_align r vs).

(* ------------------------------------------------------------------------------------------ *)
(* rustc's checks of the attribute itself                                                      *)
Inductive kind := KStruct | KEnum | KUnion.

Fixpoint pow2_fuel (n : nat) (x : Z) : bool :=
  match n with
  | O => false
  | S k => (x =? 1) || ((0 <? x) && (x mod 2 =? 0) && pow2_fuel k (x / 2))
  end.
(* E0589: align / packed arguments are powers of two, at most 2^29 *)
Definition pow2 (x : Z) : bool := (0 <? x) && (x <=? 536870912) && pow2_fuel 31 x.

Fixpoint all_eq (l : list Z) : bool :=
  match l with [] => true | [_] => true | x :: ((y :: _) as r) => (x =? y) && all_eq r end.

Definition is_nil {A} (l : list A) : bool := match l with [] => true | _ => false end.

(* E0690 / E0691: a transparent struct has at most one field that is not a 1-aligned zero-sized type; a field
   whose type is a type parameter counts as such a field.  `nontrivial` is that count. *)
Definition rustc_repr_ok (k : kind) (ats : attrs) (nvariants : Z) (nontrivial : Z) : bool :=
  let l := concat ats in
  forallb pow2 (packs l) && forallb pow2 (aligns l)
  && (is_nil (packs l) || is_nil (aligns l))                        (* E0587 packed with align *)
  && all_eq (packs l)                                                (* E0634 conflicting packed *)
  && match k with
     | KEnum => is_nil (packs l)                                     (* E0517 packed on an enum *)
                && (match first_int l with Some _ => 0 <? nvariants | None => true end)  (* E0084 *)
                && negb (has_transparent l && negb (nvariants =? 1))  (* E0731 *)
     | KStruct => match first_int l with Some _ => false | None => true end     (* E0517 int repr on a struct *)
     | KUnion => match first_int l with Some _ => false | None => true end
                 && negb (has_transparent l)                         (* transparent unions are unstable *)
     end
  && (negb (has_transparent l)
      || ((zlen l =? 1) && (nontrivial <=? 1))).                     (* E0692 other hints; E0690/E0691 *)
