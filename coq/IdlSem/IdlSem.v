(* C17 - what an IDL type description MEANS as a byte layout, and what the emitters say about each unsized
   container.  No proofs in this file.

   * `ity`   : the IDL type language as the emitters use it (star_frame_idl/src/ty.rs 46-96 `IdlTypeDef`):
               primitives, Defined references into a definition table, Option, List, UnsizedList, Set, Map,
               Array, Struct, Enum.  `FixedPoint{ty,..}` is its `ty` (codama.rs 488), `Generic` is not lowered.
   * `dec`   : the layout a client following the IDL assigns to it, exactly as the Codama lowering renders each
               node (star_frame_idl/src/codama.rs 458-590): little-endian numbers, u32-size-prefixed utf8 strings,
               u8-prefixed options, size-prefixed arrays / sets / maps, fixed arrays, remainder bytes, structs and
               tuples in field order, enums selected by `discriminant_to_usize` of their variants, and
               `UnsizedList` = struct { unsized_len : len_ty ; offset_list : List{offset_ty,len_ty} ;
               unsized_list : List{item_ty,len_ty} }  (codama.rs 558-587).
               Defined references are looked up in the table, so the decoder takes fuel; `dec_mono` (proofs)
               shows the result does not depend on the fuel once it suffices.
   * `sty`   : the source-level unsized types whose `TypeToIdl` impls exist (List, Map, Set, UnsizedString<u32>,
               RemainingBytes, UnsizedList, UnsizedMap, generated structs and repr(u8) enums), with `erase` into
               the byte-layout universe `ty` of Unsized/Types.v and `to_idl` mirroring each emitter:
                 unsize/impls/list.rs 57-76, map.rs 323-343, set.rs 270-289, unsized_string.rs 82-93,
                 remaining_bytes.rs 31-34, unsized_list.rs 186-205, unsized_map.rs 318-360,
                 star_frame_proc/src/idl/type_to_idl.rs (structs 94-154, enums 156-197),
                 data_types/packed_value.rs 336-351 (PackedValue<T> is T), idl/ty.rs (primitives, [T;N]).
   * `embed` : the owned value as the IDL-decoded tree.
   * `skip_struct_to_idl` / `skip_enum_to_idl` : `#[type_to_idl(skip)]` - the description lists the fields in front of
               the marked one only (type_to_idl.rs `idl_struct_type_def`, take_while). *)
From SF Require Import Base.Prelude Unsized.Types.

(* ---------------------------------------------------------------------------------------------- *)
(* primitives (ty.rs 49-64, 73): code = position in the list below                                   *)
Definition P_BOOL : Z := 0.
Definition P_U8 : Z := 1.
Definition P_I8 : Z := 2.
Definition P_U16 : Z := 3.
Definition P_I16 : Z := 4.
Definition P_U32 : Z := 5.
Definition P_I32 : Z := 6.
Definition P_F32 : Z := 7.
Definition P_U64 : Z := 8.
Definition P_I64 : Z := 9.
Definition P_F64 : Z := 10.
Definition P_U128 : Z := 11.
Definition P_I128 : Z := 12.
Definition P_STRING : Z := 13.
Definition P_PUBKEY : Z := 14.
Definition P_REMAINING : Z := 15.

(* byte size of the fixed-size primitives *)
Definition prim_size (k : Z) : option Z :=
  if (k =? 0) || (k =? 1) || (k =? 2) then Some 1
  else if (k =? 3) || (k =? 4) then Some 2
  else if (k =? 5) || (k =? 6) || (k =? 7) then Some 4
  else if (k =? 8) || (k =? 9) || (k =? 10) then Some 8
  else if (k =? 11) || (k =? 12) then Some 16
  else if k =? 14 then Some 32
  else None.

Inductive ity :=
| IPrim (k : Z)
| IDefined (n : nat)                         (* index into the definition table (types + external_types) *)
| IOption (t : ity) (fixed : bool)
| IList (len item : ity)
| IUList (len off item : ity)
| ISet (len item : ity)
| IMap (len key value : ity)
| IArray (item : ity) (n : Z)
| IStruct (fs : list ity)
| IEnum (size : ity) (vs : list (list Z * option ity)).   (* variant: discriminant bytes, payload *)

Inductive ival :=
| IVBytes (bs : list Z)                      (* a primitive's bytes, a string's bytes, the remainder *)
| IVList (l : list ival)                     (* list / set / array ; a map is a list of [key; value] structs *)
| IVStruct (l : list ival)
| IVEnum (d : Z) (p : option ival)
| IVNone
| IVSome (v : ival).

(* ---------------------------------------------------------------------------------------------- *)
(* the decoder                                                                                      *)
Definition take (n : Z) (bs : list Z) : option (list Z * list Z) :=
  if (n <? 0) || (zlen bs <? n) then None else Some (ztake n bs, zdrop n bs).

(* `as_number()` of a length prefix / enum size (codama.rs 38-45): the unsigned integer formats the emitters use *)
Definition num_width (t : ity) : option Z :=
  match t with
  | IPrim k => if (k =? 1) || (k =? 3) || (k =? 5) || (k =? 8) || (k =? 11) then prim_size k else None
  | _ => None
  end.

Definition dres := option (ival * list Z).

(* n items in sequence; consumes fuel per item (so a bogus huge count cannot diverge) *)
Fixpoint rep (fuel : nat) (f : list Z -> dres) (n : Z) (bs : list Z) {struct fuel} : option (list ival * list Z) :=
  if n <=? 0 then Some ([], bs) else
  match fuel with
  | O => None
  | S k =>
      match f bs with
      | Some (v, r) => match rep k f (n - 1) r with Some (vs, r') => Some (v :: vs, r') | None => None end
      | None => None
      end
  end.

Fixpoint seq (fs : list (list Z -> dres)) (bs : list Z) : option (list ival * list Z) :=
  match fs with
  | [] => Some ([], bs)
  | f :: r =>
      match f bs with
      | Some (v, bs1) => match seq r bs1 with Some (vs, bs2) => Some (v :: vs, bs2) | None => None end
      | None => None
      end
  end.

(* `discriminant_to_usize(variant) == decoded size value`, first declared variant wins *)
Fixpoint find_disc (d : Z) (vs : list (list Z * option ity)) : option (option ity) :=
  match vs with
  | [] => None
  | (bs, p) :: r => if le_decode bs =? d then Some p else find_disc d r
  end.

Definition pair_dec (dk dv : list Z -> dres) (bs : list Z) : dres :=
  match dk bs with
  | Some (k, r) => match dv r with Some (v, r') => Some (IVStruct [k; v], r') | None => None end
  | None => None
  end.

(* prefixed array of `item` with a `lt` length *)
Definition list_dec (fuel : nat) (lt : ity) (item : list Z -> dres) (bs : list Z) : dres :=
  match num_width lt with
  | None => None
  | Some w =>
      match take w bs with
      | None => None
      | Some (h, r) =>
          match rep fuel item (le_decode h) r with
          | Some (vs, r') => Some (IVList vs, r')
          | None => None
          end
      end
  end.

Fixpoint dec (fuel : nat) (defs : list ity) (t : ity) (bs : list Z) {struct fuel} : dres :=
  match fuel with
  | O => None
  | S f =>
      let d := dec f defs in
      match t with
      | IPrim k =>
          if k =? P_STRING then
            match take 4 bs with
            | Some (h, r) => match take (le_decode h) r with Some (s, r') => Some (IVBytes s, r') | None => None end
            | None => None
            end
          else if k =? P_REMAINING then Some (IVBytes bs, [])
          else match prim_size k with
               | Some n => match take n bs with Some (h, r) => Some (IVBytes h, r) | None => None end
               | None => None
               end
      | IDefined n => match nth_error defs n with Some t' => d t' bs | None => None end
      | IOption t' fixed =>
          if fixed then None else
          match take 1 bs with
          | Some ([b], r) =>
              if b =? 0 then Some (IVNone, r)
              else if b =? 1 then match d t' r with Some (v, r') => Some (IVSome v, r') | None => None end
              else None
          | _ => None
          end
      | IList lt it => list_dec f lt (d it) bs
      | ISet lt it => list_dec f lt (d it) bs
      | IMap lt kt vt => list_dec f lt (pair_dec (d kt) (d vt)) bs
      | IArray it n =>
          match rep f (d it) n bs with Some (vs, r) => Some (IVList vs, r) | None => None end
      | IUList lt ot it =>
          match d lt bs with
          | Some (usz, r1) =>
              match list_dec f lt (d ot) r1 with
              | Some (offs, r2) =>
                  match list_dec f lt (d it) r2 with
                  | Some (items, r3) => Some (IVStruct [usz; offs; items], r3)
                  | None => None
                  end
              | None => None
              end
          | None => None
          end
      | IStruct fs =>
          match seq (map d fs) bs with Some (vs, r) => Some (IVStruct vs, r) | None => None end
      | IEnum st vs =>
          match num_width st with
          | None => None
          | Some w =>
              match take w bs with
              | None => None
              | Some (h, r) =>
                  match find_disc (le_decode h) vs with
                  | None => None
                  | Some None => Some (IVEnum (le_decode h) None, r)
                  | Some (Some (IStruct fs)) =>
                      match seq (map d fs) r with
                      | Some (ps, r') => Some (IVEnum (le_decode h) (Some (IVStruct ps)), r')
                      | None => None
                      end
                  | Some (Some _) => None          (* UnsupportedEnumVariantType, codama.rs 622-624 *)
                  end
              end
          end
      end
  end.

(* the layout semantics as a relation (fuel-independent, see dec_mono / idl_decodes_functional) *)
Definition idl_decodes (defs : list ity) (t : ity) (bs : list Z) (v : ival) (rest : list Z) : Prop :=
  exists fuel, forall f, (fuel <= f)%nat -> dec f defs t bs = Some (v, rest).

(* the function a client runs: enough fuel for any input of that length and table (items and nesting both
   consume fuel; every item or reference consumes at least ... one unit, see the runner) *)
Definition idl_decode (fuel : nat) (defs : list ity) (t : ity) (bs : list Z) : dres := dec fuel defs t bs.

(* ---------------------------------------------------------------------------------------------- *)
(* source-level types                                                                               *)
Inductive sfix :=
| XPrim (k : Z)                       (* bool, u8/i8, PackedValue<uN/iN>, Pubkey / KeyFor: IDL primitive k *)
| XArray (n : nat) (x : sfix)         (* [T; N] *)
| XStruct (fs : list sfix)            (* packed struct with derive(TypeToIdl): a Defined struct *)
| XEnum (ds : list Z).                (* unit-only #[repr(u8)] enum with derive(TypeToIdl): a Defined enum *)

Inductive sty :=
| SList (lw : nat) (x : sfix)         (* List<T, L> *)
| SMap (lw : nat) (k v : sfix)        (* Map<K, V, L> *)
| SSet (lw : nat) (k : sfix)          (* Set<K, L> *)
| SString                             (* UnsizedString<u32> *)
| SRem                                (* RemainingBytes *)
| SUList (it : sty)                   (* UnsizedList<T> *)
| SUMap (k : sfix) (it : sty)         (* UnsizedMap<K, V> *)
| SStruct (sized : list sfix) (fs : list sty)     (* #[unsized_type] struct *)
| SEnum (vs : list (Z * option sty)).             (* #[unsized_type] #[repr(u8)] enum; None = unit variant *)

Fixpoint erase_fix (x : sfix) : fcheck :=
  match x with
  | XPrim k => if k =? P_BOOL then FBool else FAny (Z.to_nat (match prim_size k with Some n => n | None => 0 end))
  | XArray n x' => FStruct (repeat (erase_fix x') n)
  | XStruct fs => FStruct (map erase_fix fs)
  | XEnum ds => FDisc ds
  end.

Fixpoint erase (s : sty) : ty :=
  match s with
  | SList lw x => TList (erase_fix x) lw
  | SMap lw k v => TStruct [TList (FStruct [erase_fix k; erase_fix v]) lw]
  | SSet lw k => TStruct [TList (erase_fix k) lw]
  | SString => TStruct [TList (FAny 1) 4]
  | SRem => TRem
  | SUList it => TUList (erase it) 0
  | SUMap k it => TStruct [TUList (erase it) (fsize (erase_fix k))]
  | SStruct sized fs =>
      TStruct (match sized with [] => [] | _ => [TFixed (FStruct (map erase_fix sized))] end ++ map erase fs)
  | SEnum vs =>
      TEnum 1 (map (fun dv => (fst dv, match snd dv with Some t => erase t | None => TStruct [] end)) vs)
  end.

(* L::type_to_idl for the ListLength types u8 / u16 / u32 / u64 *)
Definition len_prim (lw : nat) : ity :=
  IPrim (match lw with 1%nat => P_U8 | 2%nat => P_U16 | 4%nat => P_U32 | _ => P_U64 end).

(* the emitters thread the definition being built: a derived type evaluates its fields (adding their definitions)
   and then adds itself (type_to_idl.rs 67-87: `let type_def = ...; idl_definition.add_type(..)`); a reference is the
   position of the definition in the table.  (In Rust the key is the type's path and a second occurrence of the
   same type finds the first definition; here every occurrence gets its own, identical, entry.) *)
Fixpoint fix_to_idl (x : sfix) (defs : list ity) {struct x} : ity * list ity :=
  match x with
  | XPrim k => (IPrim k, defs)
  | XArray n x' => let (t, d) := fix_to_idl x' defs in (IArray t (Z.of_nat n), d)
  | XStruct fs =>
      let (ts, d) :=
        (fix go (fs : list sfix) (defs : list ity) : list ity * list ity :=
           match fs with
           | [] => ([], defs)
           | f :: r => let (t, d1) := fix_to_idl f defs in let (ts, d2) := go r d1 in (t :: ts, d2)
           end) fs defs in
      (IDefined (length d), d ++ [IStruct ts])
  | XEnum ds => (IDefined (length defs), defs ++ [IEnum (IPrim P_U8) (map (fun d => ([d], None)) ds)])
  end.

Fixpoint fixes_to_idl (fs : list sfix) (defs : list ity) : list ity * list ity :=
  match fs with
  | [] => ([], defs)
  | f :: r => let (t, d1) := fix_to_idl f defs in let (ts, d2) := fixes_to_idl r d1 in (t :: ts, d2)
  end.

Fixpoint to_idl (s : sty) (defs : list ity) {struct s} : ity * list ity :=
  match s with
  | SList lw x => let (t, d) := fix_to_idl x defs in (IList (len_prim lw) t, d)
  | SMap lw k v =>
      let (kt, d1) := fix_to_idl k defs in let (vt, d2) := fix_to_idl v d1 in (IMap (len_prim lw) kt vt, d2)
  | SSet lw k => let (t, d) := fix_to_idl k defs in (ISet (len_prim lw) t, d)
  | SString => (IPrim P_STRING, defs)
  | SRem => (IPrim P_REMAINING, defs)
  | SUList it => let (t, d) := to_idl it defs in (IUList (IPrim P_U32) (IPrim P_U32) t, d)
  | SUMap k it =>
      let (t, d1) := to_idl it defs in
      let (kt, d2) := fix_to_idl k d1 in
      (IUList (IPrim P_U32) (IStruct [IPrim P_U32; kt]) t, d2)
  | SStruct sized fs =>
      let (sts, d1) := fixes_to_idl sized defs in
      let (uts, d2) :=
        (fix go (fs : list sty) (defs : list ity) : list ity * list ity :=
           match fs with
           | [] => ([], defs)
           | f :: r => let (t, d1) := to_idl f defs in let (ts, d2) := go r d1 in (t :: ts, d2)
           end) fs d1 in
      (IDefined (length d2), d2 ++ [IStruct (sts ++ uts)])
  | SEnum vs =>
      let (ivs, d) :=
        (fix go (vs : list (Z * option sty)) (defs : list ity) : list (list Z * option ity) * list ity :=
           match vs with
           | [] => ([], defs)
           | (dv, None) :: r => let (ivs, d2) := go r defs in (([dv], None) :: ivs, d2)
           | (dv, Some t) :: r =>
               let (it, d1) := to_idl t defs in
               let (ivs, d2) := go r d1 in (([dv], Some (IStruct [it])) :: ivs, d2)
           end) vs defs in
      (IDefined (length d), d ++ [IEnum (IPrim P_U8) ivs])
  end.

Definition type_to_idl (s : sty) : ity := fst (to_idl s []).
Definition type_defs (s : sty) : list ity := snd (to_idl s []).

(* ---------------------------------------------------------------------------------------------- *)
(* the owned value as the tree an IDL-following client obtains                                      *)
Fixpoint embed_fix (x : sfix) (bs : list Z) {struct x} : ival :=
  match x with
  | XPrim k => IVBytes bs
  | XArray n x' =>
      IVList ((fix go (n : nat) (bs : list Z) : list ival :=
                 match n with
                 | O => []
                 | S m => embed_fix x' (firstn (fsize (erase_fix x')) bs) :: go m (skipn (fsize (erase_fix x')) bs)
                 end) n bs)
  | XStruct fs =>
      IVStruct ((fix go (fs : list sfix) (bs : list Z) : list ival :=
                   match fs with
                   | [] => []
                   | f :: r => embed_fix f (firstn (fsize (erase_fix f)) bs) :: go r (skipn (fsize (erase_fix f)) bs)
                   end) fs bs)
  | XEnum ds => IVEnum (le_decode bs) None
  end.

Fixpoint embed_fixes (fs : list sfix) (bs : list Z) : list ival :=
  match fs with
  | [] => []
  | f :: r => embed_fix f (firstn (fsize (erase_fix f)) bs) :: embed_fixes r (skipn (fsize (erase_fix f)) bs)
  end.

Definition u32v (n : Z) : ival := IVBytes (le_bytes 4 n).

Fixpoint find_svariant (d : Z) (vs : list (Z * option sty)) : option (option sty) :=
  match vs with
  | [] => None
  | (d', t) :: r => if d =? d' then Some t else find_svariant d r
  end.

Fixpoint embed (s : sty) (v : val) {struct s} : ival :=
  match s, v with
  | SList lw x, VList items => IVList (map (embed_fix x) items)
  | SMap lw k vx, VStruct [VList items] =>
      IVList (map (fun it => IVStruct [embed_fix k (firstn (fsize (erase_fix k)) it);
                                        embed_fix vx (skipn (fsize (erase_fix k)) it)]) items)
  | SSet lw k, VStruct [VList items] => IVList (map (embed_fix k) items)
  | SString, VStruct [VList items] => IVBytes (concat items)
  | SRem, VBytes bs => IVBytes bs
  | SUList it, VUList items =>
      let sizes := map (fun kv => zlen (encode (erase it) (snd kv))) items in
      IVStruct [u32v (zsum sizes); IVList (map u32v (offsets_from 0 sizes));
                IVList (map (fun kv => embed it (snd kv)) items)]
  | SUMap k it, VStruct [VUList items] =>
      let sizes := map (fun kv => zlen (encode (erase it) (snd kv))) items in
      IVStruct [u32v (zsum sizes);
                IVList (map (fun ok => IVStruct [u32v (fst ok); embed_fix k (snd ok)])
                            (combine (offsets_from 0 sizes) (map fst items)));
                IVList (map (fun kv => embed it (snd kv)) items)]
  | SStruct sized fs, VStruct vs =>
      let go :=
        (fix go (fs : list sty) (vs : list val) : list ival :=
           match fs, vs with
           | f :: fr, v :: vr => embed f v :: go fr vr
           | _, _ => []
           end) in
      match sized, vs with
      | [], _ => IVStruct (go fs vs)
      | _, VBytes sb :: vr => IVStruct (embed_fixes sized sb ++ go fs vr)
      | _, _ => IVStruct []
      end
  | SEnum vars, VEnum d p =>
      IVEnum d
        ((fix go (vars : list (Z * option sty)) : option ival :=
            match vars with
            | [] => None
            | (d', None) :: r => if d =? d' then None else go r
            | (d', Some t) :: r => if d =? d' then Some (IVStruct [embed t p]) else go r
            end) vars)
  | _, _ => IVStruct []
  end.

(* shapes the emitters and the macros accept: length prefixes u8/u16/u32/u64, non-empty fixed items with a known
   primitive, RemainingBytes only last (ty_ok of Types.v on the erased type), enum discriminants are bytes and
   pairwise distinct (rustc) *)
Fixpoint fix_ok (x : sfix) : bool :=
  match x with
  | XPrim k => match prim_size k with Some _ => true | None => false end
  | XArray n x' => fix_ok x'
  | XStruct fs => forallb fix_ok fs
  | XEnum ds => forallb (fun d => (0 <=? d) && (d <? 256)) ds
  end.

(* K: Pod (unsized_map.rs 349-353): every bit pattern is a value *)
Fixpoint fix_pod (x : sfix) : bool :=
  match x with
  | XPrim k => negb (k =? P_BOOL)
  | XArray n x' => fix_pod x'
  | XStruct fs => forallb fix_pod fs
  | XEnum ds => false
  end.

Definition lw_ok (lw : nat) : bool := (lw =? 1)%nat || (lw =? 2)%nat || (lw =? 4)%nat || (lw =? 8)%nat.

Fixpoint distinct (l : list Z) : bool :=
  match l with [] => true | a :: r => negb (existsb (Z.eqb a) r) && distinct r end.

Fixpoint sty_ok (last : bool) (s : sty) {struct s} : bool :=
  match s with
  | SList lw x => lw_ok lw && fix_ok x
  | SMap lw k v => lw_ok lw && fix_ok k && fix_ok v
  | SSet lw k => lw_ok lw && fix_ok k
  | SString => true
  | SRem => last
  | SUList it => sty_ok false it
  | SUMap k it => fix_ok k && fix_pod k && sty_ok false it
  | SStruct sized fs =>
      forallb fix_ok sized &&
      (fix go (fs : list sty) : bool :=
         match fs with
         | [] => true
         | [f] => sty_ok last f
         | f :: r => sty_ok false f && go r
         end) fs
  | SEnum vs =>
      distinct (map fst vs) && forallb (fun dv => (0 <=? fst dv) && (fst dv <? 256)) vs &&
      (fix go (vs : list (Z * option sty)) : bool :=
         match vs with
         | [] => true
         | (_, None) :: r => go r
         | (_, Some t) :: r => sty_ok last t && go r
         end) vs
  end.

(* ---------------------------------------------------------------------------------------------- *)
(* #[type_to_idl(skip)]  (star_frame_proc/src/idl/type_to_idl.rs `idl_struct_type_def`, lib.rs 775-777: "this field
   and all remaining fields will be skipped in the IDL definition").  The derive walks the field list of a struct or
   of an enum variant with `take_while(!skip)`: only the fields IN FRONT of the marked one are evaluated (their
   definitions added) and listed, so the description is a prefix of the runtime layout.  `k` is the index of the
   marked field; `k >= length fs` = no field is marked (the struct of `fix_to_idl (XStruct fs)`).
   Fields are the fixed-size leaves `sfix`: what packed Pod structs and borsh structs of fixed-size fields are made
   of; their runtime bytes are the concatenation of the field bytes (`erase_fix (XStruct fs)`). *)
Definition skip_struct_to_idl (fs : list sfix) (k : nat) (defs : list ity) : ity * list ity :=
  let (ts, d) := fixes_to_idl (firstn k fs) defs in (IDefined (length d), d ++ [IStruct ts]).

(* a #[repr(u8)] enum whose variants are unit (None) or carry a field list with its own skip position *)
Fixpoint skip_variants_to_idl (vs : list (Z * option (list sfix * nat))) (defs : list ity)
  : list (list Z * option ity) * list ity :=
  match vs with
  | [] => ([], defs)
  | (d, None) :: r => let (ivs, d2) := skip_variants_to_idl r defs in (([d], None) :: ivs, d2)
  | (d, Some (fs, k)) :: r =>
      let (ts, d1) := fixes_to_idl (firstn k fs) defs in
      let (ivs, d2) := skip_variants_to_idl r d1 in (([d], Some (IStruct ts)) :: ivs, d2)
  end.

Definition skip_enum_to_idl (vs : list (Z * option (list sfix * nat))) (defs : list ity) : ity * list ity :=
  let (ivs, d) := skip_variants_to_idl vs defs in (IDefined (length d), d ++ [IEnum (IPrim P_U8) ivs]).

(* the variant the discriminant byte selects (first declared wins; rustc makes them distinct) *)
Fixpoint find_skip_variant (d : Z) (vs : list (Z * option (list sfix * nat))) : option (option (list sfix * nat)) :=
  match vs with
  | [] => None
  | (d', p) :: r => if d' =? d then Some p else find_skip_variant d r
  end.

Definition skip_variants_ok (vs : list (Z * option (list sfix * nat))) : bool :=
  forallb (fun dv => (0 <=? fst dv) && (fst dv <? 256) &&
                     match snd dv with Some (fs, _) => forallb fix_ok fs | None => true end) vs.

(* byte size of the first k fields: where an IDL-following reader stops *)
Fixpoint fixes_size (fs : list sfix) : nat :=
  match fs with [] => O | f :: r => (fsize (erase_fix f) + fixes_size r)%nat end.

(* what the mutant of the seeded change C17j emits instead: only the marked field is left out *)
Definition hole_struct_to_idl (fs : list sfix) (k : nat) (defs : list ity) : ity * list ity :=
  let (ts, d) := fixes_to_idl (firstn k fs ++ skipn (S k) fs) defs in (IDefined (length d), d ++ [IStruct ts]).

(* ---------------------------------------------------------------------------------------------- *)
(* integer codecs of the runner                                                                    *)
Fixpoint dec_sfix (fuel : nat) (l : list Z) : option (sfix * list Z) :=
  match fuel with
  | O => None
  | S f =>
      match l with
      | 0 :: k :: r => Some (XPrim k, r)
      | 1 :: n :: r => match dec_sfix f r with Some (x, r1) => Some (XArray (Z.to_nat n) x, r1) | None => None end
      | 2 :: n :: r =>
          match
            (fix go (k : nat) (l : list Z) : option (list sfix * list Z) :=
               match k with
               | O => Some ([], l)
               | S k' =>
                   match dec_sfix f l with
                   | Some (c, l1) => match go k' l1 with Some (cs, l2) => Some (c :: cs, l2) | None => None end
                   | None => None
                   end
               end) (Z.to_nat n) r
          with Some (cs, l') => Some (XStruct cs, l') | None => None end
      | 3 :: n :: r => if zlen r <? n then None else Some (XEnum (ztake n r), zdrop n r)
      | _ => None
      end
  end.

Fixpoint dec_sfixes (k : nat) (l : list Z) : option (list sfix * list Z) :=
  match k with
  | O => Some ([], l)
  | S k' =>
      match dec_sfix (length l) l with
      | Some (c, l1) => match dec_sfixes k' l1 with Some (cs, l2) => Some (c :: cs, l2) | None => None end
      | None => None
      end
  end.

Fixpoint dec_sty (fuel : nat) (l : list Z) : option (sty * list Z) :=
  match fuel with
  | O => None
  | S f =>
      match l with
      | 1 :: lw :: r => match dec_sfix (length r) r with Some (x, r1) => Some (SList (Z.to_nat lw) x, r1) | None => None end
      | 2 :: lw :: r =>
          match dec_sfix (length r) r with
          | Some (k, r1) =>
              match dec_sfix (length r1) r1 with Some (v, r2) => Some (SMap (Z.to_nat lw) k v, r2) | None => None end
          | None => None
          end
      | 3 :: lw :: r => match dec_sfix (length r) r with Some (x, r1) => Some (SSet (Z.to_nat lw) x, r1) | None => None end
      | 4 :: r => Some (SString, r)
      | 5 :: r => Some (SRem, r)
      | 6 :: r => match dec_sty f r with Some (it, r1) => Some (SUList it, r1) | None => None end
      | 7 :: r =>
          match dec_sfix (length r) r with
          | Some (k, r1) => match dec_sty f r1 with Some (it, r2) => Some (SUMap k it, r2) | None => None end
          | None => None
          end
      | 8 :: ns :: r =>
          match dec_sfixes (Z.to_nat ns) r with
          | Some (sized, nu :: r1) =>
              match
                (fix go (k : nat) (l : list Z) : option (list sty * list Z) :=
                   match k with
                   | O => Some ([], l)
                   | S k' =>
                       match dec_sty f l with
                       | Some (t, l1) => match go k' l1 with Some (ts, l2) => Some (t :: ts, l2) | None => None end
                       | None => None
                       end
                   end) (Z.to_nat nu) r1
              with Some (ts, l') => Some (SStruct sized ts, l') | None => None end
          | _ => None
          end
      | 9 :: n :: r =>
          match
            (fix go (k : nat) (l : list Z) : option (list (Z * option sty) * list Z) :=
               match k with
               | O => Some ([], l)
               | S k' =>
                   match l with
                   | d :: 0 :: l0 =>
                       match go k' l0 with Some (vs, l2) => Some ((d, None) :: vs, l2) | None => None end
                   | d :: 1 :: l0 =>
                       match dec_sty f l0 with
                       | Some (t, l1) =>
                           match go k' l1 with Some (vs, l2) => Some ((d, Some t) :: vs, l2) | None => None end
                       | None => None
                       end
                   | _ => None
                   end
               end) (Z.to_nat n) r
          with Some (vs, l') => Some (SEnum vs, l') | None => None end
      | _ => None
      end
  end.

(* values: the format of lib/unsized.py  (0 n bytes | 1 n (m bytes)* | 2 n (m key, val)* | 3 n vals | 4 d val) *)
Definition take_bytes (l : list Z) : option (list Z * list Z) :=
  match l with
  | n :: r => if (n <? 0) || (zlen r <? n) then None else Some (ztake n r, zdrop n r)
  | [] => None
  end.

Fixpoint dec_val (fuel : nat) (l : list Z) : option (val * list Z) :=
  match fuel with
  | O => None
  | S f =>
      match l with
      | 0 :: r => match take_bytes r with Some (b, r1) => Some (VBytes b, r1) | None => None end
      | 1 :: n :: r =>
          match
            (fix go (k : nat) (l : list Z) : option (list (list Z) * list Z) :=
               match k with
               | O => Some ([], l)
               | S k' =>
                   match take_bytes l with
                   | Some (b, l1) => match go k' l1 with Some (bs, l2) => Some (b :: bs, l2) | None => None end
                   | None => None
                   end
               end) (Z.to_nat n) r
          with Some (items, l') => Some (VList items, l') | None => None end
      | 2 :: n :: r =>
          match
            (fix go (k : nat) (l : list Z) : option (list (list Z * val) * list Z) :=
               match k with
               | O => Some ([], l)
               | S k' =>
                   match take_bytes l with
                   | Some (key, l1) =>
                       match dec_val f l1 with
                       | Some (v, l2) =>
                           match go k' l2 with Some (es, l3) => Some ((key, v) :: es, l3) | None => None end
                       | None => None
                       end
                   | None => None
                   end
               end) (Z.to_nat n) r
          with Some (es, l') => Some (VUList es, l') | None => None end
      | 3 :: n :: r =>
          match
            (fix go (k : nat) (l : list Z) : option (list val * list Z) :=
               match k with
               | O => Some ([], l)
               | S k' =>
                   match dec_val f l with
                   | Some (v, l1) => match go k' l1 with Some (vs, l2) => Some (v :: vs, l2) | None => None end
                   | None => None
                   end
               end) (Z.to_nat n) r
          with Some (vs, l') => Some (VStruct vs, l') | None => None end
      | 4 :: d :: r => match dec_val f r with Some (v, r1) => Some (VEnum d v, r1) | None => None end
      | _ => None
      end
  end.

(* IDL types: 0 k | 1 idx | 2 fixed t | 3 len item | 4 len off item | 5 len item | 6 len k v | 7 n item |
              8 n fields | 9 size n (dlen dbytes (0 | 1 t))*                                               *)
Fixpoint dec_ity (fuel : nat) (l : list Z) : option (ity * list Z) :=
  match fuel with
  | O => None
  | S f =>
      let two (l : list Z) :=
        match dec_ity f l with
        | Some (a, l1) => match dec_ity f l1 with Some (b, l2) => Some (a, b, l2) | None => None end
        | None => None
        end in
      let three (l : list Z) :=
        match two l with
        | Some (a, b, l2) => match dec_ity f l2 with Some (c, l3) => Some (a, b, c, l3) | None => None end
        | None => None
        end in
      match l with
      | 0 :: k :: r => Some (IPrim k, r)
      | 1 :: n :: r => Some (IDefined (Z.to_nat n), r)
      | 2 :: fx :: r => match dec_ity f r with Some (t, r1) => Some (IOption t (negb (fx =? 0)), r1) | None => None end
      | 3 :: r => match two r with Some (a, b, r1) => Some (IList a b, r1) | None => None end
      | 4 :: r => match three r with Some (a, b, c, r1) => Some (IUList a b c, r1) | None => None end
      | 5 :: r => match two r with Some (a, b, r1) => Some (ISet a b, r1) | None => None end
      | 6 :: r => match three r with Some (a, b, c, r1) => Some (IMap a b c, r1) | None => None end
      | 7 :: n :: r => match dec_ity f r with Some (t, r1) => Some (IArray t n, r1) | None => None end
      | 8 :: n :: r =>
          match
            (fix go (k : nat) (l : list Z) : option (list ity * list Z) :=
               match k with
               | O => Some ([], l)
               | S k' =>
                   match dec_ity f l with
                   | Some (t, l1) => match go k' l1 with Some (ts, l2) => Some (t :: ts, l2) | None => None end
                   | None => None
                   end
               end) (Z.to_nat n) r
          with Some (ts, l') => Some (IStruct ts, l') | None => None end
      | 9 :: r =>
          match dec_ity f r with
          | Some (st, n :: r1) =>
              match
                (fix go (k : nat) (l : list Z) : option (list (list Z * option ity) * list Z) :=
                   match k with
                   | O => Some ([], l)
                   | S k' =>
                       match take_bytes l with
                       | Some (db, 0 :: l1) =>
                           match go k' l1 with Some (vs, l2) => Some ((db, None) :: vs, l2) | None => None end
                       | Some (db, 1 :: l1) =>
                           match dec_ity f l1 with
                           | Some (t, l2) =>
                               match go k' l2 with Some (vs, l3) => Some ((db, Some t) :: vs, l3) | None => None end
                           | None => None
                           end
                       | _ => None
                       end
                   end) (Z.to_nat n) r1
              with Some (vs, l') => Some (IEnum st vs, l') | None => None end
          | _ => None
          end
      | _ => None
      end
  end.

Fixpoint dec_itys (k : nat) (l : list Z) : option (list ity * list Z) :=
  match k with
  | O => Some ([], l)
  | S k' =>
      match dec_ity (length l) l with
      | Some (t, l1) => match dec_itys k' l1 with Some (ts, l2) => Some (t :: ts, l2) | None => None end
      | None => None
      end
  end.

Fixpoint enc_ity (t : ity) : list Z :=
  match t with
  | IPrim k => [0; k]
  | IDefined n => [1; Z.of_nat n]
  | IOption t' fx => 2 :: (if fx then 1 else 0) :: enc_ity t'
  | IList a b => 3 :: enc_ity a ++ enc_ity b
  | IUList a b c => 4 :: enc_ity a ++ enc_ity b ++ enc_ity c
  | ISet a b => 5 :: enc_ity a ++ enc_ity b
  | IMap a b c => 6 :: enc_ity a ++ enc_ity b ++ enc_ity c
  | IArray t' n => 7 :: n :: enc_ity t'
  | IStruct fs => 8 :: zlen fs :: concat (map enc_ity fs)
  | IEnum st vs =>
      9 :: enc_ity st ++ zlen vs ::
      concat (map (fun v => zlen (fst v) :: fst v ++ match snd v with None => [0] | Some t' => 1 :: enc_ity t' end) vs)
  end.

Fixpoint enc_ival (v : ival) : list Z :=
  match v with
  | IVBytes bs => 0 :: zlen bs :: bs
  | IVList l => 1 :: zlen l :: concat (map enc_ival l)
  | IVStruct l => 2 :: zlen l :: concat (map enc_ival l)
  | IVEnum d p => 3 :: d :: match p with None => [0] | Some x => 1 :: enc_ival x end
  | IVNone => [4]
  | IVSome x => 5 :: enc_ival x
  end.

(* Defined references replaced by their definitions (to compare a type up to the naming of its definitions) *)
Fixpoint inline (fuel : nat) (defs : list ity) (t : ity) : ity :=
  match fuel with
  | O => t
  | S f =>
      let i := inline f defs in
      match t with
      | IPrim k => t
      | IDefined n => match nth_error defs n with Some t' => i t' | None => t end
      | IOption t' fx => IOption (i t') fx
      | IList a b => IList (i a) (i b)
      | IUList a b c => IUList (i a) (i b) (i c)
      | ISet a b => ISet (i a) (i b)
      | IMap a b c => IMap (i a) (i b) (i c)
      | IArray t' n => IArray (i t') n
      | IStruct fs => IStruct (map i fs)
      | IEnum st vs => IEnum (i st) (map (fun v => (fst v, match snd v with Some t' => Some (i t') | None => None end)) vs)
      end
  end.

(* runner entries.  A failed input decode is [-1]. *)
Definition FUEL_OF (l : list Z) : nat := (4 * length l + 1000)%nat.

(* c17enc: sdesc ++ val  ->  0 :: FromOwned bytes of the erased layout type, 1 if the value is not well-formed *)
Definition run_c17enc (l : list Z) : list Z :=
  match dec_sty (length l) l with
  | Some (s, r) =>
      match dec_val (length r) r with
      | Some (v, []) =>
          if sty_ok true s && wf (erase s) v then 0 :: encode (erase s) v else [1]
      | _ => [-1]
      end
  | None => [-1]
  end.

(* c17emb: sdesc ++ val -> the embedded value *)
Definition run_c17emb (l : list Z) : list Z :=
  match dec_sty (length l) l with
  | Some (s, r) =>
      match dec_val (length r) r with
      | Some (v, []) => enc_ival (embed s v)
      | _ => [-1]
      end
  | None => [-1]
  end.

(* c17tti: sdesc -> what the emitters say, with the definitions inlined *)
Definition run_c17tti (l : list Z) : list Z :=
  match dec_sty (length l) l with
  | Some (s, []) => enc_ity (inline (FUEL_OF l) (type_defs s) (type_to_idl s))
  | _ => [-1]
  end.

(* c17inl: ndefs defs.. root -> the root type with the definitions inlined (for the real IDL) *)
Definition run_c17inl (l : list Z) : list Z :=
  match l with
  | n :: r =>
      match dec_itys (Z.to_nat n) r with
      | Some (defs, r1) =>
          match dec_ity (length r1) r1 with
          | Some (t, []) => enc_ity (inline (FUEL_OF l) defs t)
          | _ => [-1]
          end
      | None => [-1]
      end
  | [] => [-1]
  end.

(* c17dec: ndefs defs.. root nbytes bytes.. -> 0 :: value :: nrest  |  1 (the layout does not decode the bytes) *)
Definition run_c17dec (l : list Z) : list Z :=
  match l with
  | n :: r =>
      match dec_itys (Z.to_nat n) r with
      | Some (defs, r1) =>
          match dec_ity (length r1) r1 with
          | Some (t, r2) =>
              match take_bytes r2 with
              | Some (bs, []) =>
                  match idl_decode (FUEL_OF l) defs t bs with
                  | Some (v, rest) => 0 :: zlen rest :: enc_ival v
                  | None => [1]
                  end
              | _ => [-1]
              end
          | None => [-1]
          end
      | None => [-1]
      end
  | [] => [-1]
  end.
