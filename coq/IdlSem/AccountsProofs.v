(* C17 - proofs about account sets: the flattened IDL account list equals the client metas (order, signer / writable
   flags, optional placeholders, fixed addresses) for every account-set shape, given that the definition table is
   consistent (one definition per key - what keying by the full type name gives); the Codama lowering lists the
   accounts in declaration order; `discriminant_to_usize` returns the little-endian value. *)
From SF Require Import Base.Prelude IdlSem.Accounts.

Section AsetInd.
  Variable P : aset -> Prop.
  Hypothesis HInfo : P AInfo.
  Hypothesis HMut : forall m a, P a -> P (AMaybeMut m a).
  Hypothesis HSigner : forall s a, P a -> P (AMaybeSigner s a).
  Hypothesis HInit : forall a, P a -> P (AInit a).
  Hypothesis HAddr : forall k, P (AAddr k).
  Hypothesis HOpt : forall a, P a -> P (AOpt a).
  Hypothesis HVec : forall a, P a -> P (AVec a).
  Hypothesis HArr : forall n a, P a -> P (AArr n a).
  Hypothesis HStruct : forall name gens fs, Forall P fs -> P (AStruct name gens fs).
  Fixpoint aset_ind' (a : aset) : P a :=
    match a with
    | AInfo => HInfo
    | AMaybeMut m a' => HMut m a' (aset_ind' a')
    | AMaybeSigner s a' => HSigner s a' (aset_ind' a')
    | AInit a' => HInit a' (aset_ind' a')
    | AAddr k => HAddr k
    | AOpt a' => HOpt a' (aset_ind' a')
    | AVec a' => HVec a' (aset_ind' a')
    | AArr n a' => HArr n a' (aset_ind' a')
    | AStruct name gens fs =>
        HStruct name gens fs
          ((fix all (l : list aset) : Forall P l :=
              match l with [] => Forall_nil P | y :: r => Forall_cons y (aset_ind' y) (all r) end) fs)
    end.
End AsetInd.

(* named versions of the nested recursions *)
Fixpoint cl_rep (c : cfg) (pid : Z) (a : aset) (k : nat) (ts : list tok) : mres :=
  match k with
  | O => Some ([], ts)
  | S k' =>
      match client_metas c pid a ts with
      | Some (m, r1) => match cl_rep c pid a k' r1 with Some (ms, r2) => Some (m ++ ms, r2) | None => None end
      | None => None
      end
  end.
Fixpoint cl_seq (c : cfg) (pid : Z) (fs : list aset) (ts : list tok) : mres :=
  match fs with
  | [] => Some ([], ts)
  | f :: fr =>
      match client_metas c pid f ts with
      | Some (m, r1) => match cl_seq c pid fr r1 with Some (ms, r2) => Some (m ++ ms, r2) | None => None end
      | None => None
      end
  end.
Lemma client_vec c pid a ts :
  client_metas c pid (AVec a) ts =
  match ts with TLen n :: r => if n <? 0 then None else cl_rep c pid a (Z.to_nat n) r | _ => None end.
Proof.
  cbn [client_metas]. destruct ts as [|[| | |n] r]; auto. destruct (n <? 0); auto.
  generalize (Z.to_nat n). intros k. revert r. induction k as [|k IH]; intros r; cbn [cl_rep]; auto.
  destruct (client_metas c pid a r) as [[m r1]|]; auto. now rewrite IH.
Qed.
Lemma client_arr c pid n a ts :
  client_metas c pid (AArr n a) ts =
  match ts with TLen n' :: r => if n' =? Z.of_nat n then cl_rep c pid a n r else None | _ => None end.
Proof.
  cbn [client_metas]. destruct ts as [|[| | |n'] r]; auto. destruct (n' =? Z.of_nat n); auto.
  revert r. induction n as [|k IH]; intros r; cbn [cl_rep]; auto.
  destruct (client_metas c pid a r) as [[m r1]|]; auto. now rewrite IH.
Qed.
Lemma client_struct c pid name gens fs ts : client_metas c pid (AStruct name gens fs) ts = cl_seq c pid fs ts.
Proof.
  cbn [client_metas]. revert ts. induction fs as [|f fs IH]; intros ts; cbn [cl_seq]; auto.
  destruct (client_metas c pid f ts) as [[m r1]|]; auto. now rewrite IH.
Qed.

Fixpoint defs_seq (c : cfg) (pid : Z) (fs : list aset) : list (list Z * iaset) :=
  match fs with [] => [] | f :: r => defs_of c pid f ++ defs_seq c pid r end.
Definition struct_entry (c : cfg) (pid : Z) (name : Z) (gens : list Z) (fs : list aset) : list Z * iaset :=
  (set_key c name gens, IAStruct (map (idl_of c pid) fs)).
Definition passes (c : cfg) (fs : list aset) : bool :=
  match fs with [_] => one_passthrough c | _ => false end.
Lemma defs_struct c pid name gens fs :
  defs_of c pid (AStruct name gens fs) =
  if passes c fs then defs_seq c pid fs else defs_seq c pid fs ++ [struct_entry c pid name gens fs].
Proof.
  assert (E : (fix go (fs : list aset) : list (list Z * iaset) :=
                 match fs with [] => [] | f :: r => defs_of c pid f ++ go r end) fs = defs_seq c pid fs)
    by (induction fs as [|f r IH]; cbn [defs_seq]; auto; now rewrite IH).
  cbn [defs_of]. rewrite E. unfold passes, struct_entry.
  destruct fs as [|f [|g r]]; auto; destruct (one_passthrough c); auto.
Qed.
Lemma idl_struct c pid name gens fs :
  idl_of c pid (AStruct name gens fs) =
  if passes c fs then match fs with [f] => idl_of c pid f | _ => IADefined (set_key c name gens) end
  else IADefined (set_key c name gens).
Proof. cbn [idl_of]. unfold passes. destruct fs as [|f [|g r]]; auto; destruct (one_passthrough c); auto. Qed.

(* ---------------------------------------------------------------------------------------------- *)
(* which account sets the statement covers                                                          *)
Fixpoint ok (c : cfg) (pid : Z) (a : aset) {struct a} : bool :=
  match a with
  | AInfo | AAddr _ => true
  | AMaybeMut m a' =>
      match single_meta c a' with
      | Some (s, w) => ok c pid a' && (negb (false_clears c) || m || negb w)
      | None => false
      end
  | AMaybeSigner sg a' =>
      match single_meta c a' with
      | Some (s, w) => ok c pid a' && (negb (false_clears c) || sg || negb s)
      | None => false
      end
  | AInit a' => match single_meta c a' with Some _ => ok c pid a' | None => false end
  | AOpt a' =>
      ok c pid a' &&
      match idl_of c pid a' with
      | ISingle s => negb (i_optional s)
      | _ => none_placeholder c
      end
  | AVec a' | AArr _ a' => ok c pid a'
  | AStruct _ _ fs => forallb (ok c pid) fs
  end.

Definition consistent (t : list (list Z * iaset)) : Prop := forall k d, In (k, d) t -> lookup k t = Some d.

(* a single-account set: the IDL flags are the client's SingleSetMeta *)
Lemma single_flags c pid a : forall s w, single_meta c a = Some (s, w) -> ok c pid a = true ->
  exists sg, idl_of c pid a = ISingle sg /\ i_signer sg = s /\ i_writable sg = w /\ i_optional sg = false.
Proof.
  induction a as [|m a IH|g a IH|a IH|k|a IH|a IH|n a IH|name gens fs IH] using aset_ind';
    intros s w Hm Hok; cbn [single_meta] in Hm; try discriminate.
  - inversion Hm; subst. exists single0. repeat split.
  - cbn [ok] in Hok. destruct (single_meta c a) as [[s0 w0]|]; [|discriminate].
    apply andb_true_iff in Hok as [Hok Hc]. inversion Hm; subst; clear Hm.
    destruct (IH _ _ eq_refl Hok) as (sg & E & Hs & Hw & Ho). cbn [idl_of]. rewrite E.
    destruct m; cbn [on_single].
    + eexists. split; [reflexivity|]. cbn. repeat split; auto. now destruct (false_clears c).
    + exists sg. repeat split; auto. cbn [orb] in *. destruct (false_clears c); cbn [negb orb] in *; auto.
      rewrite Hw. now apply negb_true_iff in Hc.
  - cbn [ok] in Hok. destruct (single_meta c a) as [[s0 w0]|]; [|discriminate].
    apply andb_true_iff in Hok as [Hok Hc]. inversion Hm; subst; clear Hm.
    destruct (IH _ _ eq_refl Hok) as (sg & E & Hs & Hw & Ho). cbn [idl_of]. rewrite E.
    destruct g; cbn [on_single].
    + eexists. split; [reflexivity|]. cbn. repeat split; auto. now destruct (false_clears c).
    + exists sg. repeat split; auto. cbn [orb] in *. destruct (false_clears c); cbn [negb orb] in *; auto.
      rewrite Hs. now apply negb_true_iff in Hc.
  - cbn [ok] in Hok. destruct (single_meta c a) as [[s0 w0]|]; [|discriminate].
    inversion Hm; subst; clear Hm.
    destruct (IH _ _ eq_refl Hok) as (sg & E & Hs & Hw & Ho). cbn [idl_of]. rewrite E. cbn [on_single].
    eexists. split; [reflexivity|]. cbn. repeat split; auto.
  - inversion Hm; subst. eexists. split; [reflexivity|]. repeat split.
Qed.

(* ---------------------------------------------------------------------------------------------- *)
(* fuel                                                                                             *)
Definition msub (g g' : list tok -> mres) : Prop := forall ts r, g ts = Some r -> g' ts = Some r.

Lemma frep_mono k k' g g' n ts r : msub g g' -> (k <= k')%nat -> frep k g n ts = Some r -> frep k' g' n ts = Some r.
Proof.
  intros Hs. revert k' n ts r. induction k as [|k IH]; intros k' n ts r Hk H.
  - cbn [frep] in H. destruct (n <=? 0) eqn:E; [|discriminate]. destruct k'; cbn [frep]; now rewrite E.
  - destruct k' as [|k']; [lia|]. cbn [frep] in *. destruct (n <=? 0); auto.
    destruct (g ts) as [[m r1]|] eqn:Eg; [|discriminate]. rewrite (Hs _ _ Eg).
    destruct (frep k g (n - 1) r1) as [[ms r2]|] eqn:Er; [|discriminate].
    now rewrite (IH k' _ _ _ ltac:(lia) Er).
Qed.

Lemma fseq_mono (d d' : iaset -> list tok -> mres) fs ts r :
  (forall i, msub (d i) (d' i)) -> fseq (map d fs) ts = Some r -> fseq (map d' fs) ts = Some r.
Proof.
  intros Hs. revert ts r. induction fs as [|f fs IH]; intros ts r H; cbn [map fseq] in *; auto.
  destruct (d f ts) as [[m r1]|] eqn:E; [|discriminate]. rewrite (Hs _ _ _ E).
  destruct (fseq (map d fs) r1) as [[ms r2]|] eqn:E2; [|discriminate]. now rewrite (IH _ _ E2).
Qed.

Lemma flatten_mono_S f pid t : forall f', (f <= f')%nat -> forall i, msub (flatten f pid t i) (flatten f' pid t i).
Proof.
  induction f as [|f IH]; intros f' Hf i ts r H; [discriminate|].
  destruct f' as [|f']; [lia|].
  assert (Hd : forall i, msub (flatten f pid t i) (flatten f' pid t i)) by (intro; apply IH; lia).
  cbn [flatten] in *. destruct i as [s|k|fs|a mn mx|l].
  - exact H.
  - destruct (lookup k t); [|discriminate]. now apply Hd.
  - eapply fseq_mono; eauto.
  - destruct ts as [|[| | |n] r0]; try discriminate.
    destruct ((mn <=? n) && match mx with Some m => n <=? m | None => true end); [|discriminate].
    eapply frep_mono; [apply Hd| |exact H]. lia.
  - destruct l as [|a [|alt [|? ?]]]; try discriminate.
    destruct ts as [|[| | |n] r0]; try discriminate; auto. now apply Hd.
Qed.

Lemma flatten_mono f f' pid t i ts r : (f <= f')%nat -> flatten f pid t i ts = Some r -> flatten f' pid t i ts = Some r.
Proof. intros. eapply flatten_mono_S; eauto. Qed.

(* ---------------------------------------------------------------------------------------------- *)
(* the main induction                                                                               *)
Definition faithful (c : cfg) (pid : Z) (t : list (list Z * iaset)) (a : aset) : Prop :=
  forall ts ms r, client_metas c pid a ts = Some (ms, r) ->
    exists F, forall f, (F <= f)%nat -> flatten f pid t (idl_of c pid a) ts = Some (ms, r).

Lemma rep_faithful c pid t a : faithful c pid t a ->
  forall k ts ms r, cl_rep c pid a k ts = Some (ms, r) ->
    exists F, forall f fuel, (F <= f)%nat -> (k <= fuel)%nat ->
      frep fuel (flatten f pid t (idl_of c pid a)) (Z.of_nat k) ts = Some (ms, r).
Proof.
  intros Ha. induction k as [|k IH]; intros ts ms r H.
  - cbn [cl_rep] in H. inversion H; subst. exists O. intros f fuel _ _. destruct fuel; reflexivity.
  - cbn [cl_rep] in H. destruct (client_metas c pid a ts) as [[m r1]|] eqn:E1; [|discriminate].
    destruct (cl_rep c pid a k r1) as [[ms' r2]|] eqn:E2; [|discriminate]. inversion H; subst; clear H.
    destruct (Ha _ _ _ E1) as [F1 H1]. destruct (IH _ _ _ E2) as [F2 H2].
    exists (Nat.max F1 F2). intros f fuel Hf Hk. destruct fuel as [|fuel]; [lia|].
    cbn [frep]. destruct (Z.of_nat (S k) <=? 0) eqn:E; [zb; lia|].
    rewrite (H1 f ltac:(lia)). replace (Z.of_nat (S k) - 1) with (Z.of_nat k) by lia.
    now rewrite (H2 f fuel ltac:(lia) ltac:(lia)).
Qed.

Lemma seq_faithful c pid t fs : Forall (faithful c pid t) fs ->
  forall ts ms r, cl_seq c pid fs ts = Some (ms, r) ->
    exists F, forall f, (F <= f)%nat -> fseq (map (flatten f pid t) (map (idl_of c pid) fs)) ts = Some (ms, r).
Proof.
  induction 1 as [|a fs Ha _ IH]; intros ts ms r H.
  - cbn [cl_seq] in H. inversion H; subst. exists O. reflexivity.
  - cbn [cl_seq] in H. destruct (client_metas c pid a ts) as [[m r1]|] eqn:E1; [|discriminate].
    destruct (cl_seq c pid fs r1) as [[ms' r2]|] eqn:E2; [|discriminate]. inversion H; subst; clear H.
    destruct (Ha _ _ _ E1) as [F1 H1]. destruct (IH _ _ _ E2) as [F2 H2].
    exists (Nat.max F1 F2). intros f Hf. cbn [map fseq]. rewrite (H1 f ltac:(lia)). now rewrite (H2 f ltac:(lia)).
Qed.

Lemma incl_app_l {A} (a b t : list A) : incl (a ++ b) t -> incl a t /\ incl b t.
Proof. intros H. split; intros x Hx; apply H; apply in_or_app; auto. Qed.

Lemma faithful_all c pid t : consistent t ->
  forall a, ok c pid a = true -> incl (defs_of c pid a) t -> faithful c pid t a.
Proof.
  intros Hc. induction a as [|m a IH|g a IH|a IH|k|a IH|a IH|n a IH|name gens fs IH] using aset_ind';
    intros Hok Hin.
  - intros ts ms r H. cbn [client_metas single_meta] in H. destruct ts as [|[k| | |] r0]; try discriminate.
    inversion H; subst. exists 1%nat. intros f Hf. destruct f; [lia|]. reflexivity.
  - intros ts ms r H. cbn [client_metas] in H.
    destruct (single_meta c (AMaybeMut m a)) as [[s w]|] eqn:Em; [|discriminate].
    destruct ts as [|[k| | |] r0]; try discriminate. inversion H; subst; clear H.
    destruct (single_flags c pid _ _ _ Em Hok) as (sg & E & Hs & Hw & Ho).
    exists 1%nat. intros f Hf. destruct f; [lia|]. rewrite E. cbn [flatten]. unfold single_toks, single_plain.
    now rewrite Ho, Hs, Hw.
  - intros ts ms r H. cbn [client_metas] in H.
    destruct (single_meta c (AMaybeSigner g a)) as [[s w]|] eqn:Em; [|discriminate].
    destruct ts as [|[k| | |] r0]; try discriminate. inversion H; subst; clear H.
    destruct (single_flags c pid _ _ _ Em Hok) as (sg & E & Hs & Hw & Ho).
    exists 1%nat. intros f Hf. destruct f; [lia|]. rewrite E. cbn [flatten]. unfold single_toks, single_plain.
    now rewrite Ho, Hs, Hw.
  - intros ts ms r H. cbn [client_metas] in H.
    destruct (single_meta c (AInit a)) as [[s w]|] eqn:Em; [|discriminate].
    destruct ts as [|[k| | |] r0]; try discriminate. inversion H; subst; clear H.
    destruct (single_flags c pid _ _ _ Em Hok) as (sg & E & Hs & Hw & Ho).
    exists 1%nat. intros f Hf. destruct f; [lia|]. rewrite E. cbn [flatten]. unfold single_toks, single_plain.
    now rewrite Ho, Hs, Hw.
  - intros ts ms r H. cbn [client_metas] in H. exists 1%nat. intros f Hf. destruct f; [lia|].
    cbn [idl_of flatten]. unfold single_toks, single_plain. cbn [i_optional i_addr i_signer i_writable].
    destruct ts as [|[k0| | |] r0]; try discriminate.
    + now inversion H.
    + destruct r0 as [|[k0| | |] r1]; try discriminate. now inversion H.
  - cbn [ok] in Hok. apply andb_true_iff in Hok as [Hoka Hopt]. cbn [defs_of] in Hin.
    specialize (IH Hoka Hin). intros ts ms r H. cbn [client_metas] in H. cbn [idl_of].
    destruct (idl_of c pid a) as [s|k|fs|a0 mn mx|l] eqn:Ei.
    + apply negb_true_iff in Hopt.
      destruct ts as [|[k0| | |] r0]; try discriminate.
      * inversion H; subst. exists 1%nat. intros f Hf. destruct f; [lia|]. reflexivity.
      * destruct (IH _ _ _ H) as [F HF]. rewrite Ei in HF. exists (S F). intros f Hf.
        specialize (HF f ltac:(lia)). destruct f; [lia|]. cbn [flatten] in *.
        unfold single_toks in *. rewrite Hopt in HF. cbn [i_optional]. exact HF.
    + destruct ts as [|[k0| | |] r0]; try discriminate.
      * inversion H; subst. rewrite Hopt. exists 1%nat. intros f Hf. destruct f; [lia|]. reflexivity.
      * destruct (IH _ _ _ H) as [F HF]. rewrite Ei in HF. exists (S F). intros f Hf. destruct f; [lia|]. cbn [flatten]. apply HF. lia.
    + destruct ts as [|[k0| | |] r0]; try discriminate.
      * inversion H; subst. rewrite Hopt. exists 1%nat. intros f Hf. destruct f; [lia|]. reflexivity.
      * destruct (IH _ _ _ H) as [F HF]. rewrite Ei in HF. exists (S F). intros f Hf. destruct f; [lia|]. cbn [flatten]. apply HF. lia.
    + destruct ts as [|[k0| | |] r0]; try discriminate.
      * inversion H; subst. rewrite Hopt. exists 1%nat. intros f Hf. destruct f; [lia|]. reflexivity.
      * destruct (IH _ _ _ H) as [F HF]. rewrite Ei in HF. exists (S F). intros f Hf. destruct f; [lia|]. cbn [flatten]. apply HF. lia.
    + destruct ts as [|[k0| | |] r0]; try discriminate.
      * inversion H; subst. rewrite Hopt. exists 1%nat. intros f Hf. destruct f; [lia|]. reflexivity.
      * destruct (IH _ _ _ H) as [F HF]. rewrite Ei in HF. exists (S F). intros f Hf. destruct f; [lia|]. cbn [flatten]. apply HF. lia.
  - cbn [ok defs_of] in Hok, Hin. specialize (IH Hok Hin). intros ts ms r H. rewrite client_vec in H.
    destruct ts as [|[| | |n] r0]; try discriminate. destruct (n <? 0) eqn:En; [discriminate|]. zb.
    destruct (rep_faithful c pid t a IH _ _ _ _ H) as [F HF].
    exists (S (Nat.max F (Z.to_nat n))). intros f Hf. destruct f; [lia|]. cbn [idl_of flatten].
    replace (0 <=? n) with true by (symmetry; apply Z.leb_le; lia). cbn [andb].
    specialize (HF f f ltac:(lia) ltac:(lia)). now rewrite Z2Nat.id in HF by lia.
  - cbn [ok defs_of] in Hok, Hin. specialize (IH Hok Hin). intros ts ms r H. rewrite client_arr in H.
    destruct ts as [|[| | |n'] r0]; try discriminate. destruct (n' =? Z.of_nat n) eqn:En; [|discriminate]. zb. subst n'.
    destruct (rep_faithful c pid t a IH _ _ _ _ H) as [F HF].
    exists (S (Nat.max F n)). intros f Hf. destruct f; [lia|]. cbn [idl_of flatten].
    rewrite Z.leb_refl. cbn [andb]. apply HF; lia.
  - cbn [ok] in Hok. rewrite defs_struct in Hin. intros ts ms r H. rewrite client_struct in H. rewrite idl_struct.
    assert (Hfs : Forall (faithful c pid t) fs).
    { assert (Hin' : incl (defs_seq c pid fs) t) by (destruct (passes c fs); auto; now apply incl_app_l in Hin).
      clear H Hin. induction IH as [|a fs Ha _ IHfs]; constructor.
      - cbn [forallb] in Hok. apply andb_true_iff in Hok as [H1 _]. cbn [defs_seq] in Hin'.
        apply incl_app_l in Hin' as [Hi _]. auto.
      - cbn [forallb] in Hok. apply andb_true_iff in Hok as [_ H2]. cbn [defs_seq] in Hin'.
        apply incl_app_l in Hin' as [_ Hi]. auto. }
    destruct (passes c fs) eqn:Ep.
    + unfold passes in Ep. destruct fs as [|f [|g fs']]; try discriminate.
      cbn [cl_seq] in H. destruct (client_metas c pid f ts) as [[m r1]|] eqn:E1; [|discriminate].
      inversion H; subst; clear H. rewrite app_nil_r. inversion Hfs; subst. auto.
    + apply incl_app_l in Hin as [_ Hent]. specialize (Hent _ (or_introl eq_refl)).
      pose proof (Hc _ _ Hent) as Hl. cbn [fst snd struct_entry] in Hl.
      destruct (seq_faithful c pid t fs Hfs _ _ _ H) as [F HF].
      exists (S (S F)). intros f Hf. destruct f as [|[|f]]; try lia.
      cbn [flatten]. unfold struct_entry in Hl. rewrite Hl. apply HF. lia.
Qed.

(* the statement over a program: every instruction's account set *)
Theorem idl_accounts_faithful c pid ixs a :
  In a ixs -> ok c pid a = true -> consistent (program_defs c pid ixs) ->
  forall ts ms r, client_metas c pid a ts = Some (ms, r) ->
    exists F, forall f, (F <= f)%nat ->
      flatten f pid (program_defs c pid ixs) (idl_of c pid a) ts = Some (ms, r).
Proof.
  intros Hin Hok Hc. apply faithful_all; auto.
  intros x Hx. unfold program_defs. apply in_concat. exists (defs_of c pid a). split; auto.
  now apply in_map.
Qed.

(* ---------------------------------------------------------------------------------------------- *)
(* consistency of the table from Rust's type identity, when sets are keyed by their full type name    *)
Fixpoint nodes (a : aset) : list (Z * list Z * list aset) :=
  match a with
  | AInfo | AAddr _ => []
  | AMaybeMut _ a' | AMaybeSigner _ a' | AInit a' | AOpt a' | AVec a' | AArr _ a' => nodes a'
  | AStruct name gens fs =>
      (name, gens, fs) :: (fix go (fs : list aset) := match fs with [] => [] | f :: r => nodes f ++ go r end) fs
  end.
Fixpoint nodes_seq (fs : list aset) : list (Z * list Z * list aset) :=
  match fs with [] => [] | f :: r => nodes f ++ nodes_seq r end.
Lemma nodes_struct name gens fs : nodes (AStruct name gens fs) = (name, gens, fs) :: nodes_seq fs.
Proof. reflexivity. Qed.

(* the same generic struct instantiated with the same arguments is the same type: it has the same fields *)
Definition type_identity (ixs : list aset) : Prop :=
  forall n g f1 f2, In (n, g, f1) (nodes_seq ixs) -> In (n, g, f2) (nodes_seq ixs) -> f1 = f2.

Lemma defs_nodes c pid a k d : In (k, d) (defs_of c pid a) ->
  exists name gens fs, In (name, gens, fs) (nodes a) /\ k = set_key c name gens /\ d = IAStruct (map (idl_of c pid) fs).
Proof.
  induction a as [|m a IH|g a IH|a IH|k0|a IH|a IH|n a IH|name gens fs IH] using aset_ind'; intros H;
    try (cbn [defs_of nodes] in *; solve [auto | contradiction]).
  rewrite defs_struct in H. rewrite nodes_struct.
  assert (Hseq : In (k, d) (defs_seq c pid fs) ->
                 exists name0 gens0 fs0, In (name0, gens0, fs0) (nodes_seq fs) /\ k = set_key c name0 gens0 /\
                                         d = IAStruct (map (idl_of c pid) fs0)).
  { clear H. induction IH as [|a fs Ha _ IHfs]; cbn [defs_seq nodes_seq]; intros H; [contradiction|].
    apply in_app_or in H as [H|H].
    - destruct (Ha H) as (n0 & g0 & f0 & Hi & E1 & E2). exists n0, g0, f0. split; auto. apply in_or_app; auto.
    - destruct (IHfs H) as (n0 & g0 & f0 & Hi & E1 & E2). exists n0, g0, f0. split; auto. apply in_or_app; auto. }
  destruct (passes c fs).
  - destruct (Hseq H) as (n0 & g0 & f0 & Hi & E1 & E2). exists n0, g0, f0. split; auto. now right.
  - apply in_app_or in H as [H|[H|[]]].
    + destruct (Hseq H) as (n0 & g0 & f0 & Hi & E1 & E2). exists n0, g0, f0. split; auto. now right.
    + unfold struct_entry in H. inversion H; subst. exists name, gens, fs. split; auto. now left.
Qed.

Lemma key_eqb_eq a b : key_eqb a b = true -> a = b.
Proof.
  revert b. induction a as [|x a IH]; intros [|y b] H; cbn [key_eqb] in H; try discriminate; auto.
  apply andb_true_iff in H as [H1 H2]. apply Z.eqb_eq in H1. subst. f_equal. auto.
Qed.
Lemma key_eqb_refl a : key_eqb a a = true.
Proof. induction a as [|x a IH]; cbn [key_eqb]; auto. now rewrite Z.eqb_refl, IH. Qed.

Lemma lookup_in k t : (exists d, In (k, d) t) -> exists d', lookup k t = Some d' /\ In (k, d') t.
Proof.
  induction t as [|[k' d'] t IH]; intros [d H]; [contradiction|]. cbn [lookup].
  destruct (key_eqb k k') eqn:E.
  - apply key_eqb_eq in E. subst. exists d'. split; auto. now left.
  - destruct H as [H|H]; [inversion H; subst; now rewrite key_eqb_refl in E|].
    destruct IH as (d'' & Hl & Hi); [now exists d|]. exists d''. split; auto. now right.
Qed.

Theorem consistent_of_identity c pid ixs :
  key_full c = true -> type_identity ixs -> consistent (program_defs c pid ixs).
Proof.
  intros Hk Hid k d Hin.
  destruct (lookup_in k _ (ex_intro _ d Hin)) as (d' & Hl & Hin'). rewrite Hl. f_equal.
  assert (Hn : forall d0, In (k, d0) (program_defs c pid ixs) ->
               exists name gens fs, In (name, gens, fs) (nodes_seq ixs) /\ k = set_key c name gens /\
                                    d0 = IAStruct (map (idl_of c pid) fs)).
  { intros d0 H0. unfold program_defs in H0. apply in_concat in H0 as (l & Hl0 & Hx).
    apply in_map_iff in Hl0 as (a & <- & Ha).
    destruct (defs_nodes _ _ _ _ _ Hx) as (n0 & g0 & f0 & Hi & E1 & E2). exists n0, g0, f0. split; auto.
    clear - Ha Hi. induction ixs as [|b ixs IH]; [contradiction|]. cbn [nodes_seq]. apply in_or_app.
    destruct Ha as [->|Ha]; auto. }
  destruct (Hn _ Hin) as (n1 & g1 & f1 & H1 & K1 & D1). destruct (Hn _ Hin') as (n2 & g2 & f2 & H2 & K2 & D2).
  unfold set_key in K1, K2. rewrite Hk in K1, K2. rewrite K1 in K2. inversion K2; subst.
  now rewrite (Hid _ _ _ _ H1 H2).
Qed.

(* ---------------------------------------------------------------------------------------------- *)
(* what the shipped switches break (each witness is replayed on the implementation by the check)    *)
Definition SHIPPED : cfg := mkCfg false true false true.
Definition REPAIRED : cfg := mkCfg true false true false.

(* D15: #[derive(AccountSet)] struct Gen<const MUT: bool> { first: MaybeMut<MUT, AccountInfo>, second: Signer } used as
   Gen<true> and Gen<false>: one definition, the second instruction's first account is declared writable *)
Definition GEN (m : bool) : aset := AStruct 1 [if m then 1 else 0] [AMaybeMut m AInfo; AMaybeSigner true AInfo].

Lemma idl_accounts_generic_refuted :
  exists pid ixs a ts ms ms', In a ixs /\ ok SHIPPED pid a = true /\
    client_metas SHIPPED pid a ts = Some (ms, []) /\
    flatten 10 pid (program_defs SHIPPED pid ixs) (idl_of SHIPPED pid a) ts = Some (ms', []) /\ ms <> ms'.
Proof.
  exists 99, [GEN true; GEN false], (GEN false), [TK 7; TK 8].
  eexists. eexists. split; [right; left; reflexivity|]. split; [reflexivity|].
  split; [reflexivity|]. split; [reflexivity|]. discriminate.
Qed.

Lemma idl_accounts_generic_repaired :
  forall pid ts ms r, client_metas REPAIRED pid (GEN false) ts = Some (ms, r) ->
    exists F, forall f, (F <= f)%nat ->
      flatten f pid (program_defs REPAIRED pid [GEN true; GEN false]) (idl_of REPAIRED pid (GEN false)) ts = Some (ms, r).
Proof.
  intros pid. apply idl_accounts_faithful.
  - right; left; reflexivity.
  - reflexivity.
  - intros k d H. cbn in H. destruct H as [H|[H|[]]]; inversion H; subst; reflexivity.
Qed.

(* option-multi-none: Option of a multi-field set between two accounts: the IDL's `None` alternative is the empty struct, the
   client (and the decoder) use one placeholder account *)
Lemma idl_accounts_option_refuted :
  exists pid a ts ms ms', client_metas SHIPPED pid a ts = Some (ms, []) /\
    flatten 10 pid (program_defs SHIPPED pid [a]) (idl_of SHIPPED pid a) ts = Some (ms', []) /\ length ms <> length ms'.
Proof.
  exists 99, (AStruct 2 [] [AInfo; AOpt (AStruct 3 [] [AMaybeMut true AInfo; AMaybeSigner true AInfo]); AInfo]), [TK 1; TNone; TK 2].
  eexists. eexists. split; [reflexivity|]. split; [reflexivity|]. discriminate.
Qed.

(* false-modifier: MaybeMut<false, Mut<AccountInfo>>: the client clears the writable flag the IDL (and on-chain validation) keep *)
Lemma idl_accounts_false_modifier_refuted :
  exists pid a ts ms ms', client_metas SHIPPED pid a ts = Some (ms, []) /\
    flatten 10 pid [] (idl_of SHIPPED pid a) ts = Some (ms', []) /\ ms <> ms'.
Proof.
  exists 99, (AMaybeMut false (AMaybeMut true AInfo)), [TK 1].
  eexists. eexists. split; [reflexivity|]. split; [reflexivity|]. discriminate.
Qed.

(* ---------------------------------------------------------------------------------------------- *)
(* the Codama lowering keeps the declaration order                                                  *)
Lemma lower_order f t : forall fld i accs rems,
  lower f t fld i = Some (accs, rems) -> singles (S f) t i = Some (accs ++ rems).
Proof.
  induction f as [|f IH]; intros fld i accs rems H; [discriminate|].
  cbn [lower] in H. destruct i as [s|k|fs|a mn mx|l].
  - destruct fld; [|discriminate]. now inversion H.
  - cbn [singles]. destruct (lookup k t); [|discriminate]. eauto.
  - change (singles (S (S f)) t (IAStruct fs)) with (singles_fields (singles (S f) t) fs).
    assert (G : forall gs a0 r0 accs rems, lower_fields (lower f t true) gs a0 r0 = Some (accs, rems) ->
                exists l, singles_fields (singles (S f) t) gs = Some l /\ accs ++ rems = a0 ++ r0 ++ l).
    { clear H. intros gs. induction gs as [|g gs IHfs]; intros a0 r0 accs0 rems0 H; cbn [lower_fields singles_fields] in *.
      - inversion H; subst. exists []. split; auto. now rewrite app_nil_r.
      - destruct (lower f t true g) as [[a1 r1]|] eqn:E; [|discriminate]. rewrite (IH _ _ _ _ E).
        destruct r0 as [|x r0].
        + destruct (IHfs _ _ _ _ H) as (l & Hl & He). rewrite Hl. exists ((a1 ++ r1) ++ l). split; auto.
          rewrite He. cbn [app]. now rewrite <- !app_assoc.
        + destruct a1 as [|y a1]; [|discriminate].
          destruct (IHfs _ _ _ _ H) as (l & Hl & He). rewrite Hl. exists (([] ++ r1) ++ l). split; auto.
          rewrite He. rewrite app_nil_r. cbn [app]. now rewrite <- !app_assoc. }
    destruct (G _ _ _ _ _ H) as (l & Hl & He). rewrite Hl, He. reflexivity.
  - destruct fld; [|discriminate]. destruct a as [s| | | |]; try discriminate.
    destruct (i_addr s); [discriminate|]. inversion H; subst. reflexivity.
  - discriminate.
Qed.

(* whenever the lowering of an instruction's account set succeeds, its account nodes followed by its
   remaining-accounts nodes are the Single leaves of the set in declaration order *)
Theorem codama_accounts_order f t i accs rems :
  lower f t false i = Some (accs, rems) -> singles (S f) t i = Some (accs ++ rems).
Proof. apply lower_order. Qed.

(* ---------------------------------------------------------------------------------------------- *)
(* discriminant_to_usize                                                                            *)
Lemma le_decode_app_zeros bs k : le_decode (bs ++ repeat 0 k) = le_decode bs.
Proof.
  induction bs as [|b bs IH]; cbn [app le_decode].
  - induction k as [|k IHk]; cbn [repeat le_decode]; lia.
  - now rewrite IH.
Qed.

Theorem codama_discriminant bits bs n : discriminant_to_usize bits bs = Some n -> n = le_decode bs.
Proof.
  unfold discriminant_to_usize. destruct (_ >? 8); [discriminate|]. intros H. inversion H.
  apply le_decode_app_zeros.
Qed.

(* with the guard comparing bytes with bytes every discriminant of at most 8 bytes converts *)
Theorem codama_discriminant_total bs : (length bs <= 8)%nat -> discriminant_to_usize false bs = Some (le_decode bs).
Proof.
  intros H. unfold discriminant_to_usize.
  destruct (zlen bs >? 8) eqn:E; [unfold zlen in E; zb; lia|]. now rewrite le_decode_app_zeros.
Qed.

(* the shipped guard compares bits with bytes: nothing wider than one byte converts *)
Theorem codama_discriminant_bits_refuted : forall bs, (2 <= length bs)%nat -> discriminant_to_usize true bs = None.
Proof.
  intros bs H. unfold discriminant_to_usize. destruct (zlen bs * 8 >? 8) eqn:E; auto. unfold zlen in E. zb. lia.
Qed.
