(* C17 - proofs about the IDL layout semantics: fuel monotonicity / functionality of the decoder, and
   `idl_layout_faithful`: for every source-level unsized type and every well-formed owned value, decoding the
   canonical serialisation by the emitted IDL description yields the embedded value and consumes every byte. *)
From SF Require Import Base.Prelude Unsized.Types IdlSem.IdlSem.

(* ---------------------------------------------------------------------------------------------- *)
(* generic facts                                                                                    *)
Lemma take_app (a b : list Z) : take (zlen a) (a ++ b) = Some (a, b).
Proof.
  unfold take. pose proof (zlen_nonneg a) as Hn.
  destruct (zlen a <? 0) eqn:E1; [apply Z.ltb_lt in E1; lia|].
  rewrite zlen_app. pose proof (zlen_nonneg b) as Hb.
  destruct (zlen a + zlen b <? zlen a) eqn:E2; [apply Z.ltb_lt in E2; lia|].
  cbn [orb]. unfold ztake, zdrop, zlen. rewrite Nat2Z.id.
  rewrite firstn_app, skipn_app, Nat.sub_diag, firstn_all, skipn_all. cbn [firstn skipn].
  now rewrite app_nil_r.
Qed.

Lemma take_app_n n (a b : list Z) : zlen a = n -> take n (a ++ b) = Some (a, b).
Proof. intros <-. apply take_app. Qed.

Definition ext (d d' : list ity) : Prop := exists e, d' = d ++ e.

Lemma ext_refl d : ext d d.
Proof. exists []. now rewrite app_nil_r. Qed.

Lemma ext_trans a b c : ext a b -> ext b c -> ext a c.
Proof. intros [e1 ->] [e2 ->]. exists (e1 ++ e2). now rewrite app_assoc. Qed.

Lemma ext_app d e : ext d (d ++ e).
Proof. now exists e. Qed.

Lemma ext_nth d d' n t : ext d d' -> nth_error d n = Some t -> nth_error d' n = Some t.
Proof.
  intros [e ->] H. rewrite nth_error_app1; auto.
  apply nth_error_Some. congruence.
Qed.

Lemma nth_last (d : list ity) t : nth_error (d ++ [t]) (length d) = Some t.
Proof. rewrite nth_error_app2 by lia. now rewrite Nat.sub_diag. Qed.

(* ---------------------------------------------------------------------------------------------- *)
(* fuel monotonicity                                                                                *)
Definition sub (g g' : list Z -> dres) : Prop := forall bs r, g bs = Some r -> g' bs = Some r.

Lemma rep_mono k k' g g' n bs r :
  sub g g' -> (k <= k')%nat -> rep k g n bs = Some r -> rep k' g' n bs = Some r.
Proof.
  intros Hs. revert k' n bs r. induction k as [|k IH]; intros k' n bs r Hk H.
  - cbn [rep] in H. destruct (n <=? 0) eqn:E; [|discriminate].
    destruct k'; cbn [rep]; now rewrite E.
  - destruct k' as [|k']; [lia|]. cbn [rep] in *. destruct (n <=? 0); auto.
    destruct (g bs) as [[v r1]|] eqn:Eg; [|discriminate].
    rewrite (Hs _ _ Eg).
    destruct (rep k g (n - 1) r1) as [[vs r2]|] eqn:Er; [|discriminate].
    rewrite (IH k' _ _ _ ltac:(lia) Er). exact H.
Qed.

Lemma seq_mono (d d' : ity -> list Z -> dres) fs bs r :
  (forall t, sub (d t) (d' t)) -> seq (map d fs) bs = Some r -> seq (map d' fs) bs = Some r.
Proof.
  intros Hs. revert bs r. induction fs as [|f fs IH]; intros bs r H; cbn [map seq] in *; auto.
  destruct (d f bs) as [[v r1]|] eqn:E; [|discriminate]. rewrite (Hs _ _ _ E).
  destruct (seq (map d fs) r1) as [[vs r2]|] eqn:E2; [|discriminate].
  now rewrite (IH _ _ E2).
Qed.

Lemma list_dec_mono k k' lt g g' : sub g g' -> (k <= k')%nat -> sub (list_dec k lt g) (list_dec k' lt g').
Proof.
  intros Hs Hk bs r H. unfold list_dec in *.
  destruct (num_width lt); [|discriminate]. destruct (take z bs) as [[h r1]|]; [|discriminate].
  destruct (rep k g (le_decode h) r1) as [[vs r2]|] eqn:E; [|discriminate].
  now rewrite (rep_mono _ _ _ _ _ _ _ Hs Hk E).
Qed.

Lemma pair_dec_mono a a' b b' : sub a a' -> sub b b' -> sub (pair_dec a b) (pair_dec a' b').
Proof.
  intros Ha Hb bs r H. unfold pair_dec in *.
  destruct (a bs) as [[k r1]|] eqn:E; [|discriminate]. rewrite (Ha _ _ E).
  destruct (b r1) as [[v r2]|] eqn:E2; [|discriminate]. now rewrite (Hb _ _ E2).
Qed.

Lemma dec_mono_S f defs : forall f', (f <= f')%nat -> forall t, sub (dec f defs t) (dec f' defs t).
Proof.
  induction f as [|f IH]; intros f' Hf t bs r H; [discriminate|].
  destruct f' as [|f']; [lia|].
  assert (Hd : forall t, sub (dec f defs t) (dec f' defs t)) by (intro; apply IH; lia).
  assert (Hle : (f <= f')%nat) by lia.
  cbn [dec] in *.
  destruct t as [k|n|t' fx|lt it|lt ot it|lt it|lt kt vt|it n|fs|st vs].
  - exact H.
  - destruct (nth_error defs n); [|discriminate]. now apply Hd.
  - destruct fx; [discriminate|]. destruct (take 1 bs) as [[[|b [|? ?]] r1]|]; try discriminate.
    destruct (b =? 0); auto. destruct (b =? 1); [|discriminate].
    destruct (dec f defs t' r1) as [[v r2]|] eqn:E; [|discriminate]. now rewrite (Hd _ _ _ E).
  - eapply list_dec_mono; eauto.
  - destruct (dec f defs lt bs) as [[usz r1]|] eqn:E1; [|discriminate]. rewrite (Hd _ _ _ E1).
    destruct (list_dec f lt (dec f defs ot) r1) as [[offs r2]|] eqn:E2; [|discriminate].
    rewrite (list_dec_mono _ _ _ _ _ (Hd ot) Hle _ _ E2).
    destruct (list_dec f lt (dec f defs it) r2) as [[items r3]|] eqn:E3; [|discriminate].
    now rewrite (list_dec_mono _ _ _ _ _ (Hd it) Hle _ _ E3).
  - eapply list_dec_mono; eauto.
  - eapply list_dec_mono; [| |exact H]; auto. apply pair_dec_mono; auto.
  - destruct (rep f (dec f defs it) n bs) as [[vs r1]|] eqn:E; [|discriminate].
    now rewrite (rep_mono _ _ _ _ _ _ _ (Hd it) Hle E).
  - destruct (seq (map (dec f defs) fs) bs) as [[vs r1]|] eqn:E; [|discriminate].
    now rewrite (seq_mono _ _ _ _ _ Hd E).
  - destruct (num_width st); [|discriminate]. destruct (take z bs) as [[h r1]|]; [|discriminate].
    destruct (find_disc (le_decode h) vs) as [[p|]|]; try discriminate; auto.
    destruct p; try discriminate.
    destruct (seq (map (dec f defs) fs) r1) as [[ps r2]|] eqn:E; [|discriminate].
    now rewrite (seq_mono _ _ _ _ _ Hd E).
Qed.

Lemma dec_mono f f' defs t bs r : (f <= f')%nat -> dec f defs t bs = Some r -> dec f' defs t bs = Some r.
Proof. intros. eapply dec_mono_S; eauto. Qed.

(* the layout relation is a partial function *)
Lemma idl_decodes_functional defs t bs v r v' r' :
  idl_decodes defs t bs v r -> idl_decodes defs t bs v' r' -> v = v' /\ r = r'.
Proof.
  intros [f1 H1] [f2 H2].
  specialize (H1 (Nat.max f1 f2) ltac:(lia)). specialize (H2 (Nat.max f1 f2) ltac:(lia)).
  rewrite H1 in H2. now inversion H2.
Qed.

(* and agrees with any successful run of the decoder *)
Lemma idl_decodes_run defs t bs v r f v' r' :
  idl_decodes defs t bs v r -> idl_decode f defs t bs = Some (v', r') -> v = v' /\ r = r'.
Proof.
  intros [f1 H1] H2. unfold idl_decode in H2.
  specialize (H1 (Nat.max f1 f) ltac:(lia)).
  rewrite (dec_mono f (Nat.max f1 f) _ _ _ _ ltac:(lia) H2) in H1. now inversion H1.
Qed.
