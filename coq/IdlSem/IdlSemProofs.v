(* C17 - proofs about the IDL layout semantics: fuel monotonicity / functionality of the decoder, and
   `idl_layout_faithful`: for every source-level unsized type and every well-formed owned value, decoding the
   canonical serialisation by the emitted IDL description yields the embedded value and consumes every byte. *)
From SF Require Import Base.Prelude Unsized.Types IdlSem.IdlSem.

(* ---------------------------------------------------------------------------------------------- *)
(* generic facts                                                                                    *)
Lemma take_app (a b : list Z) : take (zlen a) (a ++ b) = Some (a, b).
Proof.
  unfold take. pose proof (zlen_nonneg a) as Hn.
  destruct (zlen a <? 0) eqn:E1; [apply Z.ltb_lt in E1; lia|].
  rewrite zlen_app. pose proof (zlen_nonneg b) as Hb.
  destruct (zlen a + zlen b <? zlen a) eqn:E2; [apply Z.ltb_lt in E2; lia|].
  cbn [orb]. unfold ztake, zdrop, zlen. rewrite Nat2Z.id.
  rewrite firstn_app, skipn_app, Nat.sub_diag, firstn_all, skipn_all. cbn [firstn skipn].
  now rewrite app_nil_r.
Qed.

Lemma take_app_n n (a b : list Z) : zlen a = n -> take n (a ++ b) = Some (a, b).
Proof. intros <-. apply take_app. Qed.

Definition ext (d d' : list ity) : Prop := exists e, d' = d ++ e.

Lemma ext_refl d : ext d d.
Proof. exists []. now rewrite app_nil_r. Qed.

Lemma ext_trans a b c : ext a b -> ext b c -> ext a c.
Proof. intros [e1 ->] [e2 ->]. exists (e1 ++ e2). now rewrite app_assoc. Qed.

Lemma ext_app d e : ext d (d ++ e).
Proof. now exists e. Qed.

Lemma ext_nth d d' n t : ext d d' -> nth_error d n = Some t -> nth_error d' n = Some t.
Proof.
  intros [e ->] H. rewrite nth_error_app1; auto.
  apply nth_error_Some. congruence.
Qed.

Lemma nth_last (d : list ity) t : nth_error (d ++ [t]) (length d) = Some t.
Proof. rewrite nth_error_app2 by lia. now rewrite Nat.sub_diag. Qed.

(* ---------------------------------------------------------------------------------------------- *)
(* fuel monotonicity                                                                                *)
Definition sub (g g' : list Z -> dres) : Prop := forall bs r, g bs = Some r -> g' bs = Some r.

Lemma rep_mono k k' g g' n bs r :
  sub g g' -> (k <= k')%nat -> rep k g n bs = Some r -> rep k' g' n bs = Some r.
Proof.
  intros Hs. revert k' n bs r. induction k as [|k IH]; intros k' n bs r Hk H.
  - cbn [rep] in H. destruct (n <=? 0) eqn:E; [|discriminate].
    destruct k'; cbn [rep]; now rewrite E.
  - destruct k' as [|k']; [lia|]. cbn [rep] in *. destruct (n <=? 0); auto.
    destruct (g bs) as [[v r1]|] eqn:Eg; [|discriminate].
    rewrite (Hs _ _ Eg).
    destruct (rep k g (n - 1) r1) as [[vs r2]|] eqn:Er; [|discriminate].
    rewrite (IH k' _ _ _ ltac:(lia) Er). exact H.
Qed.

Lemma seq_mono (d d' : ity -> list Z -> dres) fs bs r :
  (forall t, sub (d t) (d' t)) -> seq (map d fs) bs = Some r -> seq (map d' fs) bs = Some r.
Proof.
  intros Hs. revert bs r. induction fs as [|f fs IH]; intros bs r H; cbn [map seq] in *; auto.
  destruct (d f bs) as [[v r1]|] eqn:E; [|discriminate]. rewrite (Hs _ _ _ E).
  destruct (seq (map d fs) r1) as [[vs r2]|] eqn:E2; [|discriminate].
  now rewrite (IH _ _ E2).
Qed.

Lemma list_dec_mono k k' lt g g' : sub g g' -> (k <= k')%nat -> sub (list_dec k lt g) (list_dec k' lt g').
Proof.
  intros Hs Hk bs r H. unfold list_dec in *.
  destruct (num_width lt); [|discriminate]. destruct (take z bs) as [[h r1]|]; [|discriminate].
  destruct (rep k g (le_decode h) r1) as [[vs r2]|] eqn:E; [|discriminate].
  now rewrite (rep_mono _ _ _ _ _ _ _ Hs Hk E).
Qed.

Lemma pair_dec_mono a a' b b' : sub a a' -> sub b b' -> sub (pair_dec a b) (pair_dec a' b').
Proof.
  intros Ha Hb bs r H. unfold pair_dec in *.
  destruct (a bs) as [[k r1]|] eqn:E; [|discriminate]. rewrite (Ha _ _ E).
  destruct (b r1) as [[v r2]|] eqn:E2; [|discriminate]. now rewrite (Hb _ _ E2).
Qed.

Lemma dec_mono_S f defs : forall f', (f <= f')%nat -> forall t, sub (dec f defs t) (dec f' defs t).
Proof.
  induction f as [|f IH]; intros f' Hf t bs r H; [discriminate|].
  destruct f' as [|f']; [lia|].
  assert (Hd : forall t, sub (dec f defs t) (dec f' defs t)) by (intro; apply IH; lia).
  assert (Hle : (f <= f')%nat) by lia.
  cbn [dec] in *.
  destruct t as [k|n|t' fx|lt it|lt ot it|lt it|lt kt vt|it n|fs|st vs].
  - exact H.
  - destruct (nth_error defs n); [|discriminate]. now apply Hd.
  - destruct fx; [discriminate|]. destruct (take 1 bs) as [[[|b [|? ?]] r1]|]; try discriminate.
    destruct (b =? 0); auto. destruct (b =? 1); [|discriminate].
    destruct (dec f defs t' r1) as [[v r2]|] eqn:E; [|discriminate]. now rewrite (Hd _ _ _ E).
  - eapply list_dec_mono; eauto.
  - destruct (dec f defs lt bs) as [[usz r1]|] eqn:E1; [|discriminate]. rewrite (Hd _ _ _ E1).
    destruct (list_dec f lt (dec f defs ot) r1) as [[offs r2]|] eqn:E2; [|discriminate].
    rewrite (list_dec_mono _ _ _ _ _ (Hd ot) Hle _ _ E2).
    destruct (list_dec f lt (dec f defs it) r2) as [[items r3]|] eqn:E3; [|discriminate].
    now rewrite (list_dec_mono _ _ _ _ _ (Hd it) Hle _ _ E3).
  - eapply list_dec_mono; eauto.
  - eapply list_dec_mono; [| |exact H]; auto. apply pair_dec_mono; auto.
  - destruct (rep f (dec f defs it) n bs) as [[vs r1]|] eqn:E; [|discriminate].
    now rewrite (rep_mono _ _ _ _ _ _ _ (Hd it) Hle E).
  - destruct (seq (map (dec f defs) fs) bs) as [[vs r1]|] eqn:E; [|discriminate].
    now rewrite (seq_mono _ _ _ _ _ Hd E).
  - destruct (num_width st); [|discriminate]. destruct (take z bs) as [[h r1]|]; [|discriminate].
    destruct (find_disc (le_decode h) vs) as [[p|]|]; try discriminate; auto.
    destruct p; try discriminate.
    destruct (seq (map (dec f defs) fs) r1) as [[ps r2]|] eqn:E; [|discriminate].
    now rewrite (seq_mono _ _ _ _ _ Hd E).
Qed.

Lemma dec_mono f f' defs t bs r : (f <= f')%nat -> dec f defs t bs = Some r -> dec f' defs t bs = Some r.
Proof. intros. eapply dec_mono_S; eauto. Qed.

(* the layout relation is a partial function *)
Lemma idl_decodes_functional defs t bs v r v' r' :
  idl_decodes defs t bs v r -> idl_decodes defs t bs v' r' -> v = v' /\ r = r'.
Proof.
  intros [f1 H1] [f2 H2].
  specialize (H1 (Nat.max f1 f2) ltac:(lia)). specialize (H2 (Nat.max f1 f2) ltac:(lia)).
  rewrite H1 in H2. now inversion H2.
Qed.

(* and agrees with any successful run of the decoder *)
Lemma idl_decodes_run defs t bs v r f v' r' :
  idl_decodes defs t bs v r -> idl_decode f defs t bs = Some (v', r') -> v = v' /\ r = r'.
Proof.
  intros [f1 H1] H2. unfold idl_decode in H2.
  specialize (H1 (Nat.max f1 f) ltac:(lia)).
  rewrite (dec_mono f (Nat.max f1 f) _ _ _ _ ltac:(lia) H2) in H1. now inversion H1.
Qed.

(* ---------------------------------------------------------------------------------------------- *)
(* named versions of the nested recursions of Types.v / IdlSem.v (convertible to the anonymous ones) *)
Fixpoint fsizes (fs : list fcheck) : nat := match fs with [] => O | f :: r => (fsize f + fsizes r)%nat end.
Fixpoint fvalids (fs : list fcheck) (bs : list Z) : bool :=
  match fs with [] => true | f :: r => fvalid f (firstn (fsize f) bs) && fvalids r (skipn (fsize f) bs) end.
Lemma fsize_struct fs : fsize (FStruct fs) = fsizes fs. Proof. reflexivity. Qed.
Lemma fvalid_struct fs bs : fvalid (FStruct fs) bs = fvalids fs bs. Proof. reflexivity. Qed.

Fixpoint encodes (ts : list ty) (vs : list val) : list Z :=
  match ts, vs with t :: ts', v :: vs' => encode t v ++ encodes ts' vs' | _, _ => [] end.
Fixpoint wfs (ts : list ty) (vs : list val) : bool :=
  match ts, vs with [], [] => true | t :: ts', v :: vs' => wf t v && wfs ts' vs' | _, _ => false end.
Lemma encode_struct ts vs : encode (TStruct ts) (VStruct vs) = encodes ts vs. Proof. reflexivity. Qed.
Lemma wf_struct ts vs : wf (TStruct ts) (VStruct vs) = wfs ts vs. Proof. reflexivity. Qed.

Fixpoint enc_variant (d : Z) (p : val) (vars : list (Z * ty)) : list Z :=
  match vars with [] => [] | (d', t) :: r => if d =? d' then encode t p else enc_variant d p r end.
Fixpoint wf_variant (d : Z) (p : val) (vars : list (Z * ty)) : bool :=
  match vars with [] => false | (d', t) :: r => if d =? d' then wf t p else wf_variant d p r end.
Lemma encode_enum rw vars d p : encode (TEnum rw vars) (VEnum d p) = le_bytes rw d ++ enc_variant d p vars.
Proof.
  cbn [encode]. f_equal. induction vars as [|[d' t] r IH]; cbn [enc_variant]; auto.
  destruct (d =? d'); auto.
Qed.
Lemma wf_enum rw vars d p :
  wf (TEnum rw vars) (VEnum d p) = (0 <=? d) && (d <? 256 ^ Z.of_nat rw) && wf_variant d p vars.
Proof.
  cbn [wf]. f_equal. induction vars as [|[d' t] r IH]; cbn [wf_variant]; auto.
  destruct (d =? d'); auto.
Qed.

Lemma fix_to_idl_struct fs defs :
  fix_to_idl (XStruct fs) defs = let (ts, d) := fixes_to_idl fs defs in (IDefined (length d), d ++ [IStruct ts]).
Proof. reflexivity. Qed.

Fixpoint stys_to_idl (fs : list sty) (defs : list ity) : list ity * list ity :=
  match fs with
  | [] => ([], defs)
  | f :: r => let (t, d1) := to_idl f defs in let (ts, d2) := stys_to_idl r d1 in (t :: ts, d2)
  end.
Fixpoint variants_to_idl (vs : list (Z * option sty)) (defs : list ity) : list (list Z * option ity) * list ity :=
  match vs with
  | [] => ([], defs)
  | (dv, None) :: r => let (ivs, d2) := variants_to_idl r defs in (([dv], None) :: ivs, d2)
  | (dv, Some t) :: r =>
      let (it, d1) := to_idl t defs in
      let (ivs, d2) := variants_to_idl r d1 in (([dv], Some (IStruct [it])) :: ivs, d2)
  end.
Lemma to_idl_struct sized fs defs :
  to_idl (SStruct sized fs) defs =
  let (sts, d1) := fixes_to_idl sized defs in
  let (uts, d2) := stys_to_idl fs d1 in (IDefined (length d2), d2 ++ [IStruct (sts ++ uts)]).
Proof. reflexivity. Qed.
Lemma to_idl_enum vs defs :
  to_idl (SEnum vs) defs =
  let (ivs, d) := variants_to_idl vs defs in (IDefined (length d), d ++ [IEnum (IPrim P_U8) ivs]).
Proof. reflexivity. Qed.

Fixpoint embed_array (x : sfix) (n : nat) (bs : list Z) : list ival :=
  match n with
  | O => []
  | S m => embed_fix x (firstn (fsize (erase_fix x)) bs) :: embed_array x m (skipn (fsize (erase_fix x)) bs)
  end.
Lemma embed_fix_array n x bs : embed_fix (XArray n x) bs = IVList (embed_array x n bs).
Proof.
  cbn [embed_fix]. f_equal. revert bs. induction n as [|n IH]; intros bs; cbn [embed_array]; auto.
  now rewrite IH.
Qed.
Lemma embed_fix_struct fs bs : embed_fix (XStruct fs) bs = IVStruct (embed_fixes fs bs). Proof. reflexivity. Qed.

Fixpoint embeds (fs : list sty) (vs : list val) : list ival :=
  match fs, vs with f :: fr, v :: vr => embed f v :: embeds fr vr | _, _ => [] end.
Fixpoint embed_variant (d : Z) (p : val) (vars : list (Z * option sty)) : option ival :=
  match vars with
  | [] => None
  | (d', None) :: r => if d =? d' then None else embed_variant d p r
  | (d', Some t) :: r => if d =? d' then Some (IVStruct [embed t p]) else embed_variant d p r
  end.
Lemma embed_struct sized fs vs :
  embed (SStruct sized fs) (VStruct vs) =
  match sized, vs with
  | [], _ => IVStruct (embeds fs vs)
  | _, VBytes sb :: vr => IVStruct (embed_fixes sized sb ++ embeds fs vr)
  | _, _ => IVStruct []
  end.
Proof. reflexivity. Qed.
Lemma embed_enum vars d p : embed (SEnum vars) (VEnum d p) = IVEnum d (embed_variant d p vars).
Proof.
  cbn [embed]. f_equal. induction vars as [|[d' [t|]] r IH]; cbn [embed_variant]; auto;
  destruct (d =? d'); auto.
Qed.

Fixpoint stys_ok (last : bool) (fs : list sty) : bool :=
  match fs with [] => true | [f] => sty_ok last f | f :: r => sty_ok false f && stys_ok last r end.
Fixpoint variants_ok (last : bool) (vs : list (Z * option sty)) : bool :=
  match vs with [] => true | (_, None) :: r => variants_ok last r | (_, Some t) :: r => sty_ok last t && variants_ok last r end.
Lemma sty_ok_struct last sized fs : sty_ok last (SStruct sized fs) = forallb fix_ok sized && stys_ok last fs.
Proof.
  cbn [sty_ok]. f_equal. induction fs as [|f r IH]; auto.
  destruct r as [|g r]; [reflexivity|]. cbn [stys_ok] in *. now rewrite <- IH.
Qed.
Lemma sty_ok_enum last vs :
  sty_ok last (SEnum vs) =
  distinct (map fst vs) && forallb (fun dv => (0 <=? fst dv) && (fst dv <? 256)) vs && variants_ok last vs.
Proof.
  cbn [sty_ok]. f_equal. induction vs as [|[d [t|]] r IH]; cbn [variants_ok]; auto. now rewrite IH.
Qed.

(* induction principles of the nested inductives *)
Section SfixInd.
  Variable P : sfix -> Prop.
  Hypothesis HPrim : forall k, P (XPrim k).
  Hypothesis HArray : forall n x, P x -> P (XArray n x).
  Hypothesis HStruct : forall fs, Forall P fs -> P (XStruct fs).
  Hypothesis HEnum : forall ds, P (XEnum ds).
  Fixpoint sfix_ind' (x : sfix) : P x :=
    match x with
    | XPrim k => HPrim k
    | XArray n x' => HArray n x' (sfix_ind' x')
    | XStruct fs =>
        HStruct fs ((fix all (l : list sfix) : Forall P l :=
                       match l with [] => Forall_nil P | y :: r => Forall_cons y (sfix_ind' y) (all r) end) fs)
    | XEnum ds => HEnum ds
    end.
End SfixInd.

Definition optP {A} (P : A -> Prop) (o : option A) : Prop := match o with Some a => P a | None => True end.

Section StyInd.
  Variable P : sty -> Prop.
  Hypothesis HList : forall lw x, P (SList lw x).
  Hypothesis HMap : forall lw k v, P (SMap lw k v).
  Hypothesis HSet : forall lw k, P (SSet lw k).
  Hypothesis HString : P SString.
  Hypothesis HRem : P SRem.
  Hypothesis HUList : forall it, P it -> P (SUList it).
  Hypothesis HUMap : forall k it, P it -> P (SUMap k it).
  Hypothesis HStruct : forall sized fs, Forall P fs -> P (SStruct sized fs).
  Hypothesis HEnum : forall vs, Forall (fun dv => optP P (snd dv)) vs -> P (SEnum vs).
  Fixpoint sty_ind' (s : sty) : P s :=
    match s with
    | SList lw x => HList lw x
    | SMap lw k v => HMap lw k v
    | SSet lw k => HSet lw k
    | SString => HString
    | SRem => HRem
    | SUList it => HUList it (sty_ind' it)
    | SUMap k it => HUMap k it (sty_ind' it)
    | SStruct sized fs =>
        HStruct sized fs ((fix all (l : list sty) : Forall P l :=
                             match l with [] => Forall_nil P | y :: r => Forall_cons y (sty_ind' y) (all r) end) fs)
    | SEnum vs =>
        HEnum vs ((fix all (l : list (Z * option sty)) : Forall (fun dv => optP P (snd dv)) l :=
                     match l with
                     | [] => Forall_nil _
                     | y :: r =>
                         Forall_cons y (match snd y as o return optP P o with Some a => sty_ind' a | None => I end) (all r)
                     end) vs)
    end.
End StyInd.

(* ---------------------------------------------------------------------------------------------- *)
(* fixed-size leaves                                                                                *)
Lemma prim_size_cases k n : prim_size k = Some n ->
  (n = 1 \/ n = 2 \/ n = 4 \/ n = 8 \/ n = 16 \/ n = 32) /\ (k =? P_STRING) = false /\ (k =? P_REMAINING) = false.
Proof.
  unfold prim_size, P_STRING, P_REMAINING. intros H.
  repeat match type of H with context [?a =? ?b] => destruct (a =? b) eqn:?; cbn [orb] in H end;
  inversion H; subst; zb; repeat split; try lia; apply Z.eqb_neq; lia.
Qed.

Lemma fsize_prim k n : prim_size k = Some n -> Z.of_nat (fsize (erase_fix (XPrim k))) = n.
Proof.
  intros H. destruct (prim_size_cases _ _ H) as [Hn _]. cbn [erase_fix]. rewrite H.
  destruct (k =? P_BOOL) eqn:E; cbn [fsize].
  - apply Z.eqb_eq in E. subst k. cbn in H. now inversion H.
  - lia.
Qed.

Lemma split_at {A} m (bs : list A) : (m <= length bs)%nat ->
  bs = firstn m bs ++ skipn m bs /\ length (firstn m bs) = m /\ length (skipn m bs) = (length bs - m)%nat.
Proof. intros. rewrite firstn_skipn, firstn_length, skipn_length. repeat split; lia. Qed.

Definition fix_spec (x : sfix) : Prop :=
  forall defs0 t defs1, fix_ok x = true -> fix_to_idl x defs0 = (t, defs1) ->
    ext defs0 defs1 /\
    exists fuel, forall defs2, ext defs1 defs2 -> forall f, (fuel <= f)%nat ->
      forall bs rest, length bs = fsize (erase_fix x) -> fvalid (erase_fix x) bs = true ->
        dec f defs2 t (bs ++ rest) = Some (embed_fix x bs, rest).

Lemma fsizes_repeat c n : fsizes (repeat c n) = (n * fsize c)%nat.
Proof. induction n as [|n IH]; cbn [repeat fsizes]; lia. Qed.

Lemma rep_array x (g : list Z -> dres) :
  (forall chunk rest, length chunk = fsize (erase_fix x) -> fvalid (erase_fix x) chunk = true ->
     g (chunk ++ rest) = Some (embed_fix x chunk, rest)) ->
  forall n k bs rest, (n <= k)%nat -> length bs = (n * fsize (erase_fix x))%nat ->
    fvalids (repeat (erase_fix x) n) bs = true ->
    rep k g (Z.of_nat n) (bs ++ rest) = Some (embed_array x n bs, rest).
Proof.
  intros Hg. induction n as [|n IH]; intros k bs rest Hk Hl Hv.
  - destruct bs; [|cbn in Hl; lia]. destruct k; reflexivity.
  - destruct k as [|k]; [lia|]. cbn [rep].
    destruct (Z.of_nat (S n) <=? 0) eqn:E; [zb; lia|].
    set (sz := fsize (erase_fix x)) in *.
    destruct (split_at sz bs ltac:(lia)) as (Hs & H1 & H2).
    cbn [repeat fvalids] in Hv. apply andb_true_iff in Hv as [Hv1 Hv2]. fold sz in Hv1, Hv2.
    rewrite Hs, <- app_assoc, (Hg _ _ H1 Hv1).
    replace (Z.of_nat (S n) - 1) with (Z.of_nat n) by lia.
    rewrite (IH k _ rest ltac:(lia) ltac:(rewrite H2; lia) Hv2).
    cbn [embed_array]. fold sz. now rewrite <- Hs.
Qed.

Lemma fixes_spec fs : Forall fix_spec fs ->
  forall defs0 ts defs1, forallb fix_ok fs = true -> fixes_to_idl fs defs0 = (ts, defs1) ->
    ext defs0 defs1 /\
    exists fuel, forall defs2, ext defs1 defs2 -> forall f, (fuel <= f)%nat ->
      forall bs rest, length bs = fsizes (map erase_fix fs) -> fvalids (map erase_fix fs) bs = true ->
        seq (map (dec f defs2) ts) (bs ++ rest) = Some (embed_fixes fs bs, rest).
Proof.
  induction 1 as [|x fs Hx _ IH]; intros defs0 ts defs1 Hok Ht.
  - cbn [fixes_to_idl] in Ht. inversion Ht; subst. split; [apply ext_refl|].
    exists O. intros defs2 _ f _ bs rest Hl _. destruct bs; [|cbn in Hl; lia]. reflexivity.
  - cbn [fixes_to_idl] in Ht. cbn [forallb] in Hok. apply andb_true_iff in Hok as [Hok1 Hok2].
    destruct (fix_to_idl x defs0) as [t d1] eqn:E1.
    destruct (fixes_to_idl fs d1) as [ts' d2] eqn:E2. inversion Ht; subst; clear Ht.
    destruct (Hx _ _ _ Hok1 E1) as (He1 & F1 & H1).
    destruct (IH _ _ _ Hok2 E2) as (He2 & F2 & H2).
    split; [eapply ext_trans; eauto|].
    exists (Nat.max F1 F2). intros defs2 He f Hf bs rest Hl Hv.
    cbn [map fsizes fvalids] in *. apply andb_true_iff in Hv as [Hv1 Hv2].
    set (sz := fsize (erase_fix x)) in *.
    destruct (split_at sz bs ltac:(lia)) as (Hs & L1 & L2).
    cbn [seq]. rewrite Hs at 1. rewrite <- app_assoc.
    rewrite (H1 defs2 (ext_trans _ _ _ He2 He) f ltac:(lia) _ _ L1 Hv1).
    rewrite (H2 defs2 He f ltac:(lia) _ rest ltac:(rewrite L2; lia) Hv2).
    cbn [embed_fixes]. reflexivity.
Qed.

Lemma find_disc_unit b ds :
  existsb (Z.eqb b) ds = true -> find_disc b (map (fun d => ([d], @None ity)) ds) = Some None.
Proof.
  induction ds as [|d ds IH]; cbn [existsb map find_disc le_decode]; [discriminate|].
  intros H. replace (d + 256 * 0) with d by lia.
  destruct (d =? b) eqn:E; auto. rewrite Z.eqb_sym, E in H. cbn [orb] in H. auto.
Qed.

Lemma fix_all x : fix_spec x.
Proof.
  induction x as [k|n x IH|fs IH|ds] using sfix_ind'; intros defs0 t defs1 Hok Ht.
  - cbn [fix_to_idl] in Ht. inversion Ht; subst. split; [apply ext_refl|].
    cbn [fix_ok] in Hok. destruct (prim_size k) as [n|] eqn:Ep; [|discriminate].
    destruct (prim_size_cases _ _ Ep) as (Hn & Hs & Hr).
    exists 1%nat. intros defs2 _ f Hf bs rest Hl _. destruct f as [|f]; [lia|].
    cbn [dec]. rewrite Hs, Hr, Ep.
    rewrite take_app_n; [reflexivity|]. unfold zlen. rewrite Hl. now apply fsize_prim.
  - cbn [fix_to_idl] in Ht. destruct (fix_to_idl x defs0) as [t' d] eqn:E. inversion Ht; subst; clear Ht.
    cbn [fix_ok] in Hok. destruct (IH _ _ _ Hok E) as (He & F & H).
    split; auto. exists (S (Nat.max F n)). intros defs2 He2 f Hf bs rest Hl Hv.
    destruct f as [|f]; [lia|]. cbn [dec]. cbn [erase_fix] in Hl, Hv.
    rewrite fsize_struct, fsizes_repeat in Hl. rewrite fvalid_struct in Hv.
    rewrite (rep_array x (dec f defs2 t')); auto; try lia.
    + now rewrite embed_fix_array.
    + intros chunk r L V. apply H; auto. lia.
  - rewrite fix_to_idl_struct in Ht. destruct (fixes_to_idl fs defs0) as [ts d] eqn:E. inversion Ht; subst; clear Ht.
    cbn [fix_ok] in Hok. destruct (fixes_spec fs IH _ _ _ Hok E) as (He & F & H).
    split; [eapply ext_trans; [eauto|apply ext_app]|].
    exists (S (S F)). intros defs2 He2 f Hf bs rest Hl Hv.
    destruct f as [|[|f]]; try lia. cbn [dec].
    rewrite (ext_nth _ _ _ _ He2 (nth_last d (IStruct ts))).
    cbn [erase_fix] in Hl, Hv. rewrite fsize_struct in Hl. rewrite fvalid_struct in Hv.
    rewrite (H defs2 (ext_trans _ _ _ (ext_app d _) He2) f ltac:(lia) _ rest Hl Hv).
    now rewrite embed_fix_struct.
  - cbn [fix_to_idl] in Ht. inversion Ht; subst; clear Ht. split; [apply ext_app|].
    exists 2%nat. intros defs2 He2 f Hf bs rest Hl Hv.
    destruct f as [|[|f]]; try lia. cbn [dec].
    rewrite (ext_nth _ _ _ _ He2 (nth_last defs0 _)).
    cbn [erase_fix fsize fvalid] in Hl, Hv. destruct bs as [|b [|? ?]]; try discriminate.
    change (num_width (IPrim P_U8)) with (Some 1). cbv iota beta.
    rewrite (take_app_n 1 [b] rest eq_refl).
    assert (Hb : le_decode [b] = b) by (cbn [le_decode]; lia).
    rewrite Hb, (find_disc_unit _ _ Hv). cbn [embed_fix]. now rewrite Hb.
Qed.

(* ---------------------------------------------------------------------------------------------- *)
(* sequences of items                                                                               *)
Lemma rep_items {A} (enc : A -> list Z) (emb : A -> ival) (g : list Z -> dres) items :
  (forall a rest, In a items -> g (enc a ++ rest) = Some (emb a, rest)) ->
  forall k rest, (length items <= k)%nat ->
    rep k g (zlen items) (concat (map enc items) ++ rest) = Some (map emb items, rest).
Proof.
  induction items as [|a items IH]; intros Hg k rest Hk.
  - destruct k; reflexivity.
  - destruct k as [|k]; [cbn in Hk; lia|]. cbn [rep]. rewrite zlen_cons.
    pose proof (zlen_nonneg items) as Hn.
    destruct (1 + zlen items <=? 0) eqn:E; [zb; lia|].
    cbn [map concat]. rewrite <- app_assoc, (Hg a _ (or_introl eq_refl)).
    replace (1 + zlen items - 1) with (zlen items) by lia.
    rewrite IH; auto.
    + intros; apply Hg; now right.
    + cbn in Hk; lia.
Qed.

Lemma num_width_len lw : lw_ok lw = true -> num_width (len_prim lw) = Some (Z.of_nat lw).
Proof.
  unfold lw_ok. intros H.
  destruct (lw =? 1)%nat eqn:E1; [apply Nat.eqb_eq in E1; subst; reflexivity|].
  destruct (lw =? 2)%nat eqn:E2; [apply Nat.eqb_eq in E2; subst; reflexivity|].
  destruct (lw =? 4)%nat eqn:E4; [apply Nat.eqb_eq in E4; subst; reflexivity|].
  destruct (lw =? 8)%nat eqn:E8; [apply Nat.eqb_eq in E8; subst; reflexivity|].
  discriminate.
Qed.

Lemma list_dec_items {A} (enc : A -> list Z) (emb : A -> ival) (g : list Z -> dres) lw items k rest :
  lw_ok lw = true -> zlen items < 256 ^ Z.of_nat lw -> (length items <= k)%nat ->
  (forall a rest, In a items -> g (enc a ++ rest) = Some (emb a, rest)) ->
  list_dec k (len_prim lw) g (le_bytes lw (zlen items) ++ concat (map enc items) ++ rest)
  = Some (IVList (map emb items), rest).
Proof.
  intros Hlw Hn Hk Hg. unfold list_dec. rewrite (num_width_len _ Hlw).
  rewrite take_app_n by apply zlen_le_bytes.
  rewrite le_decode_le_bytes by (pose proof (zlen_nonneg items); lia).
  now rewrite (rep_items enc emb g items Hg k rest Hk).
Qed.

(* a uniform amount of fuel for finitely many items *)
Lemma fuel_max {A} (P : A -> nat -> Prop) (l : list A) :
  (forall a F f, P a F -> (F <= f)%nat -> P a f) ->
  (forall a, In a l -> exists F, P a F) -> exists F, forall a, In a l -> P a F.
Proof.
  intros Hm. induction l as [|a l IH]; intros H.
  - exists O. intros a [].
  - destruct (H a (or_introl eq_refl)) as [F1 H1].
    destruct IH as [F2 H2]; [intros; apply H; now right|].
    exists (Nat.max F1 F2). intros b [<-|Hb].
    + eapply Hm; eauto. lia.
    + eapply Hm; [apply H2; auto|lia].
Qed.

(* ---------------------------------------------------------------------------------------------- *)
(* what well-formedness gives (kept apart from the exact shape of `wf`)                             *)
Ltac split_ands :=
  repeat match goal with H : (_ && _) = true |- _ => apply andb_true_iff in H; destruct H end.

Lemma wf_list_inv c lw v : wf (TList c lw) v = true ->
  exists items, v = VList items /\ zlen items < 256 ^ Z.of_nat lw /\
    Forall (fun it => length it = fsize c /\ fvalid c it = true) items.
Proof.
  destruct v as [bs|items|es|vs|d p]; cbn [wf]; try discriminate. intros H.
  exists items. split; auto. split_ands.
  match goal with H : (zlen items <? _) = true |- _ => apply Z.ltb_lt in H; split; [exact H|] end.
  match goal with H : forallb _ items = true |- _ => rewrite forallb_forall in H; rename H into HF end.
  apply Forall_forall. intros it Hi. specialize (HF _ Hi). split_ands.
  match goal with H : (length it =? _)%nat = true |- _ => apply Nat.eqb_eq in H; auto end.
Qed.

Lemma wf_ulist_inv it k v : wf (TUList it k) v = true ->
  exists items, v = VUList items /\ zlen items < U32_LIMIT /\
    Forall (fun kv => length (fst kv) = k /\ wf it (snd kv) = true) items.
Proof.
  destruct v as [bs|items0|items|vs|d p]; cbn [wf]; try discriminate. intros H.
  exists items. split; auto. split_ands.
  match goal with H : (zlen items <? U32_LIMIT) = true |- _ => apply Z.ltb_lt in H; split; [exact H|] end.
  match goal with H : forallb _ items = true |- _ => rewrite forallb_forall in H; rename H into HF end.
  apply Forall_forall. intros kv Hi. specialize (HF _ Hi). split_ands.
  match goal with H : (length (fst kv) =? _)%nat = true |- _ => apply Nat.eqb_eq in H; auto end.
Qed.

Lemma wf_struct_inv ts v : wf (TStruct ts) v = true -> exists vs, v = VStruct vs /\ wfs ts vs = true.
Proof.
  destruct v as [bs|items0|items|vs|d p]; cbn [wf]; try discriminate.
  intros H. exists vs. split; auto.
Qed.

Lemma wf_struct1_inv t v : wf (TStruct [t]) v = true -> exists v1, v = VStruct [v1] /\ wf t v1 = true.
Proof.
  intros H. destruct (wf_struct_inv _ _ H) as (vs & -> & Hw).
  destruct vs as [|v1 [|? ?]]; cbn [wfs] in Hw; try discriminate.
  - exists v1. split; auto. now apply andb_true_iff in Hw as [? _].
  - apply andb_true_iff in Hw as [_ Hw]. discriminate.
Qed.

Lemma wf_fixed_inv c v : wf (TFixed c) v = true ->
  exists bs, v = VBytes bs /\ length bs = fsize c /\ fvalid c bs = true.
Proof.
  destruct v as [bs|items0|items|vs|d p]; cbn [wf]; try discriminate. intros H. exists bs. split; auto.
  split_ands. match goal with H : (length bs =? _)%nat = true |- _ => apply Nat.eqb_eq in H end. auto.
Qed.

Lemma wf_enum_inv rw vars v : wf (TEnum rw vars) v = true ->
  exists d p, v = VEnum d p /\ 0 <= d < 256 ^ Z.of_nat rw /\ wf_variant d p vars = true.
Proof.
  destruct v as [bs|items0|items|vs|d p]; try (cbn [wf]; discriminate). rewrite wf_enum. intros H.
  exists d, p. split; auto. split_ands. zb. auto.
Qed.

(* ---------------------------------------------------------------------------------------------- *)
(* the containers                                                                                   *)
Definition sty_spec (s : sty) : Prop :=
  forall last defs0 t defs1, sty_ok last s = true -> to_idl s defs0 = (t, defs1) ->
    ext defs0 defs1 /\
    forall defs2, ext defs1 defs2 -> forall v, wf (erase s) v = true ->
      exists fuel, forall f, (fuel <= f)%nat -> forall rest, (last = true -> rest = []) ->
        dec f defs2 t (encode (erase s) v ++ rest) = Some (embed s v, rest).

Lemma Forall_In {A} (P : A -> Prop) l a : Forall P l -> In a l -> P a.
Proof. intros H. rewrite Forall_forall in H. auto. Qed.

Lemma concat_map_id (l : list (list Z)) : concat (map (fun x => x) l) = concat l.
Proof. now rewrite map_id. Qed.

Lemma spec_list lw x : sty_spec (SList lw x).
Proof.
  intros last defs0 t defs1 Hok Ht. cbn [to_idl] in Ht. cbn [sty_ok] in Hok.
  apply andb_true_iff in Hok as [Hlw Hx].
  destruct (fix_to_idl x defs0) as [t' d] eqn:E. inversion Ht; subst; clear Ht.
  destruct (fix_all x _ _ _ Hx E) as (He & F & H). split; auto.
  intros defs2 He2 v Hwf. cbn [erase] in Hwf.
  destruct (wf_list_inv _ _ _ Hwf) as (items & -> & Hn & HF).
  exists (S (Nat.max F (length items))). intros f Hf rest _. destruct f as [|f]; [lia|].
  cbn [dec erase encode embed]. rewrite <- app_assoc, <- concat_map_id.
  apply list_dec_items; auto; try lia.
  intros a r Ha. destruct (Forall_In _ _ _ HF Ha) as [L V]. apply H; auto. lia.
Qed.

Lemma encode_struct1 t v : encode (TStruct [t]) (VStruct [v]) = encode t v.
Proof. rewrite encode_struct. cbn [encodes]. now rewrite app_nil_r. Qed.

Lemma spec_set lw k : sty_spec (SSet lw k).
Proof.
  intros last defs0 t defs1 Hok Ht. cbn [to_idl] in Ht. cbn [sty_ok] in Hok.
  apply andb_true_iff in Hok as [Hlw Hx].
  destruct (fix_to_idl k defs0) as [t' d] eqn:E. inversion Ht; subst; clear Ht.
  destruct (fix_all k _ _ _ Hx E) as (He & F & H). split; auto.
  intros defs2 He2 v Hwf. cbn [erase] in Hwf.
  destruct (wf_struct1_inv _ _ Hwf) as (v1 & -> & Hw1).
  destruct (wf_list_inv _ _ _ Hw1) as (items & -> & Hn & HF).
  exists (S (Nat.max F (length items))). intros f Hf rest _. destruct f as [|f]; [lia|].
  cbn [erase]. rewrite encode_struct1. cbn [dec encode embed]. rewrite <- app_assoc, <- concat_map_id.
  apply list_dec_items; auto; try lia.
  intros a r Ha. destruct (Forall_In _ _ _ HF Ha) as [L V]. apply H; auto. lia.
Qed.

Lemma spec_map lw k vx : sty_spec (SMap lw k vx).
Proof.
  intros last defs0 t defs1 Hok Ht. cbn [to_idl] in Ht. cbn [sty_ok] in Hok.
  apply andb_true_iff in Hok as [Hok Hv]. apply andb_true_iff in Hok as [Hlw Hk].
  destruct (fix_to_idl k defs0) as [kt d1] eqn:E1. destruct (fix_to_idl vx d1) as [vt d2] eqn:E2.
  inversion Ht; subst; clear Ht.
  destruct (fix_all k _ _ _ Hk E1) as (He1 & F1 & H1).
  destruct (fix_all vx _ _ _ Hv E2) as (He2 & F2 & H2).
  split; [eapply ext_trans; eauto|].
  intros defs2 He v Hwf. cbn [erase] in Hwf.
  destruct (wf_struct1_inv _ _ Hwf) as (v1 & -> & Hw1).
  destruct (wf_list_inv _ _ _ Hw1) as (items & -> & Hn & HF).
  exists (S (Nat.max (Nat.max F1 F2) (length items))). intros f Hf rest _. destruct f as [|f]; [lia|].
  cbn [erase]. rewrite encode_struct1. cbn [dec encode embed]. rewrite <- app_assoc, <- concat_map_id.
  apply list_dec_items; auto; try lia.
  intros a r Ha. destruct (Forall_In _ _ _ HF Ha) as [L V].
  rewrite fsize_struct in L. rewrite fvalid_struct in V. cbn [fsizes fvalids] in L, V.
  apply andb_true_iff in V as [V1 V2]. apply andb_true_iff in V2 as [V2 _].
  set (sk := fsize (erase_fix k)) in *.
  destruct (split_at sk a ltac:(lia)) as (Hs & L1 & L2).
  rewrite firstn_all2 in V2 by lia.
  unfold pair_dec. rewrite Hs at 1. rewrite <- app_assoc.
  rewrite (H1 defs2 (ext_trans _ _ _ He2 He) f ltac:(lia) _ _ L1 V1).
  assert (L3 : length (skipn sk a) = fsize (erase_fix vx)) by lia.
  rewrite (H2 defs2 He f ltac:(lia) _ r L3 V2). reflexivity.
Qed.

Lemma zlen_concat_ones (items : list (list Z)) :
  Forall (fun it => length it = 1%nat) items -> zlen (concat items) = zlen items.
Proof.
  induction 1 as [|a l Ha _ IH]; auto. cbn [concat]. rewrite zlen_app, zlen_cons, IH. unfold zlen. rewrite Ha. lia.
Qed.

Lemma spec_string : sty_spec SString.
Proof.
  intros last defs0 t defs1 _ Ht. cbn [to_idl] in Ht. inversion Ht; subst; clear Ht.
  split; [apply ext_refl|]. intros defs2 _ v Hwf. cbn [erase] in Hwf.
  destruct (wf_struct1_inv _ _ Hwf) as (v1 & -> & Hw1).
  destruct (wf_list_inv _ _ _ Hw1) as (items & -> & Hn & HF).
  exists 1%nat. intros f Hf rest _. destruct f as [|f]; [lia|].
  cbn [erase]. rewrite encode_struct1. cbn [dec encode embed].
  change (P_STRING =? P_STRING) with true. cbv iota. rewrite <- app_assoc.
  rewrite take_app_n by apply zlen_le_bytes.
  rewrite le_decode_le_bytes by (pose proof (zlen_nonneg items); lia).
  rewrite take_app_n; [reflexivity|].
  apply zlen_concat_ones. eapply Forall_impl; [|exact HF]. cbn [fsize]. intros a [L _]. exact L.
Qed.

Lemma spec_rem : sty_spec SRem.
Proof.
  intros last defs0 t defs1 Hok Ht. cbn [to_idl] in Ht. inversion Ht; subst; clear Ht. cbn [sty_ok] in Hok.
  split; [apply ext_refl|]. intros defs2 _ v Hwf.
  destruct v as [bs| | | |]; cbn [erase wf] in Hwf; try discriminate.
  exists 1%nat. intros f Hf rest Hr. rewrite (Hr Hok). destruct f as [|f]; [lia|].
  cbn [erase encode embed dec]. rewrite app_nil_r. reflexivity.
Qed.

(* the offset table of a canonical encoding is gap-free: entry i is the sum of the sizes before it, so reading
   the elements one after the other (what an IDL client does) finds each element at its recorded offset *)
Lemma offsets_from_length b sizes : length (offsets_from b sizes) = length sizes.
Proof. revert b; induction sizes as [|s r IH]; intros b; cbn [offsets_from length]; auto. Qed.

Lemma offsets_gap_free b sizes i o :
  nth_error (offsets_from b sizes) i = Some o -> o = b + zsum (firstn i sizes).
Proof.
  revert b i. induction sizes as [|s r IH]; intros b i H.
  - destruct i; discriminate.
  - destruct i as [|i]; cbn [offsets_from nth_error firstn zsum] in *.
    + inversion H. lia.
    + rewrite (IH _ _ H). lia.
Qed.

Lemma dec_u32 f defs bs rest : (1 <= f)%nat -> length bs = 4%nat ->
  dec f defs (IPrim P_U32) (bs ++ rest) = Some (IVBytes bs, rest).
Proof.
  intros Hf Hl. destruct f as [|f]; [lia|]. cbn [dec].
  change (P_U32 =? P_STRING) with false. change (P_U32 =? P_REMAINING) with false.
  change (prim_size P_U32) with (Some 4). cbv iota.
  rewrite take_app_n; auto. unfold zlen. now rewrite Hl.
Qed.

Definition item_sizes (it : sty) (items : list (list Z * val)) : list Z :=
  map (fun kv => zlen (encode (erase it) (snd kv))) items.

Lemma ulist_dec (it : sty) (ksz : nat) (ot : ity) (emb_off : Z * list Z -> ival) t' defs2 items F Fo f rest :
  zlen items < U32_LIMIT ->
  (forall kv, In kv items -> length (fst kv) = ksz) ->
  (forall ok r f, (Fo <= f)%nat -> length (snd ok) = ksz ->
     dec f defs2 ot ((le_bytes 4 (fst ok) ++ snd ok) ++ r) = Some (emb_off ok, r)) ->
  (forall kv, In kv items -> forall f, (F <= f)%nat -> forall r,
     dec f defs2 t' (encode (erase it) (snd kv) ++ r) = Some (embed it (snd kv), r)) ->
  (S (Nat.max (Nat.max F Fo) (Nat.max (length items) 1)) <= f)%nat ->
  dec f defs2 (IUList (IPrim P_U32) ot t') (encode (TUList (erase it) ksz) (VUList items) ++ rest) =
  Some (IVStruct [u32v (zsum (item_sizes it items));
                  IVList (map emb_off (combine (offsets_from 0 (item_sizes it items)) (map fst items)));
                  IVList (map (fun kv => embed it (snd kv)) items)], rest).
Proof.
  intros Hn Hk Ho Hi Hf. destruct f as [|f]; [lia|].
  cbn [encode dec]. rewrite map_map. fold (item_sizes it items).
  set (sizes := item_sizes it items).
  repeat rewrite <- app_assoc.
  rewrite dec_u32 by (try lia; apply le_bytes_length).
  assert (Hlen : length (combine (offsets_from 0 sizes) (map fst items)) = length items).
  { rewrite combine_length, offsets_from_length, map_length. unfold sizes, item_sizes. rewrite map_length. lia. }
  unfold offset_entries.
  replace (zlen items) with (zlen (combine (offsets_from 0 sizes) (map fst items))) at 1
    by (unfold zlen; now rewrite Hlen).
  change (IPrim P_U32) with (len_prim 4).
  rewrite (list_dec_items (fun ok : Z * list Z => le_bytes 4 (fst ok) ++ snd ok) emb_off).
  - rewrite (list_dec_items (fun kv : list Z * val => encode (erase it) (snd kv)) (fun kv => embed it (snd kv))).
    + reflexivity.
    + reflexivity.
    + change (256 ^ Z.of_nat 4) with U32_LIMIT. exact Hn.
    + lia.
    + intros a r Ha. apply Hi; auto. lia.
  - reflexivity.
  - unfold zlen. rewrite Hlen. change (256 ^ Z.of_nat 4) with U32_LIMIT. exact Hn.
  - lia.
  - intros [o key] r Hin. apply Ho; [lia|]. cbn [snd].
    apply in_combine_r in Hin. apply in_map_iff in Hin as (kv & <- & Hkv). auto.
Qed.

Lemma map_fst_combine {A B} (a : list A) (b : list B) : length a = length b -> map fst (combine a b) = a.
Proof. revert b; induction a as [|x a IH]; intros [|y b] H; cbn in *; try lia; auto. f_equal. apply IH. lia. Qed.

Lemma spec_ulist it : sty_spec it -> sty_spec (SUList it).
Proof.
  intros IH last defs0 t defs1 Hok Ht. cbn [to_idl] in Ht. cbn [sty_ok] in Hok.
  destruct (to_idl it defs0) as [t' d] eqn:E. inversion Ht; subst; clear Ht.
  destruct (IH false _ _ _ Hok E) as (He & H). split; auto.
  intros defs2 He2 v Hwf. cbn [erase] in Hwf.
  destruct (wf_ulist_inv _ _ _ Hwf) as (items & -> & Hn & HF).
  destruct (fuel_max (fun kv F => forall f, (F <= f)%nat -> forall r,
              dec f defs2 t' (encode (erase it) (snd kv) ++ r) = Some (embed it (snd kv), r)) items) as [F HFu].
  { intros a F f Hp Hle f' Hf' r. apply Hp. lia. }
  { intros kv Hin. destruct (Forall_In _ _ _ HF Hin) as [_ Hw].
    destruct (H defs2 He2 (snd kv) Hw) as [F0 H0]. exists F0. intros f Hf r. apply H0; auto. discriminate. }
  exists (S (Nat.max (Nat.max F 1) (Nat.max (length items) 1))). intros f Hf rest _.
  cbn [erase embed].
  rewrite (ulist_dec it 0 (IPrim P_U32) (fun ok => u32v (fst ok)) t' defs2 items F 1%nat f rest).
  - fold (item_sizes it items). repeat f_equal.
    rewrite <- (map_map fst u32v). rewrite map_fst_combine; auto.
    rewrite offsets_from_length, map_length. unfold item_sizes. apply map_length.
  - exact Hn.
  - intros kv Hin. now destruct (Forall_In _ _ _ HF Hin).
  - intros ok r f' Hf' Hl. destruct (snd ok); [|discriminate]. rewrite app_nil_r.
    apply dec_u32; [lia|apply le_bytes_length].
  - exact HFu.
  - lia.
Qed.

(* Pod keys: every bit pattern is valid *)
Lemma fvalids_repeat_pod c n : (forall bs, fvalid c bs = true) -> forall bs, fvalids (repeat c n) bs = true.
Proof. intros H. induction n as [|n IH]; intros bs; cbn [repeat fvalids]; auto. now rewrite H, IH. Qed.

Lemma pod_valid x : fix_pod x = true -> forall bs, fvalid (erase_fix x) bs = true.
Proof.
  induction x as [k|n x IH|fs IH|ds] using sfix_ind'; cbn [fix_pod]; intros Hp bs.
  - cbn [erase_fix]. apply negb_true_iff in Hp. rewrite Hp. reflexivity.
  - cbn [erase_fix]. rewrite fvalid_struct. apply fvalids_repeat_pod. auto.
  - cbn [erase_fix]. rewrite fvalid_struct. revert bs.
    induction IH as [|y l Hy _ IHl]; intros bs; cbn [map fvalids]; auto.
    cbn [forallb] in Hp. apply andb_true_iff in Hp as [Hp1 Hp2]. now rewrite Hy, IHl.
  - discriminate.
Qed.

Lemma spec_umap k it : sty_spec it -> sty_spec (SUMap k it).
Proof.
  intros IH last defs0 t defs1 Hok Ht. cbn [to_idl] in Ht. cbn [sty_ok] in Hok.
  apply andb_true_iff in Hok as [Hok Hit]. apply andb_true_iff in Hok as [Hk Hpod].
  destruct (to_idl it defs0) as [t' d1] eqn:E1. destruct (fix_to_idl k d1) as [kt d2] eqn:E2.
  inversion Ht; subst; clear Ht.
  destruct (IH false _ _ _ Hit E1) as (He1 & H).
  destruct (fix_all k _ _ _ Hk E2) as (He2 & Fk & Hkd).
  split; [eapply ext_trans; eauto|].
  intros defs2 He v Hwf. cbn [erase] in Hwf.
  destruct (wf_struct1_inv _ _ Hwf) as (v1 & -> & Hw1).
  destruct (wf_ulist_inv _ _ _ Hw1) as (items & -> & Hn & HF).
  destruct (fuel_max (fun kv F => forall f, (F <= f)%nat -> forall r,
              dec f defs2 t' (encode (erase it) (snd kv) ++ r) = Some (embed it (snd kv), r)) items) as [F HFu].
  { intros a F f Hp Hle f' Hf' r. apply Hp. lia. }
  { intros kv Hin. destruct (Forall_In _ _ _ HF Hin) as [_ Hw].
    destruct (H defs2 (ext_trans _ _ _ He2 He) (snd kv) Hw) as [F0 H0]. exists F0. intros f Hf r. apply H0; auto. discriminate. }
  exists (S (Nat.max (Nat.max F (S (S Fk))) (Nat.max (length items) 1))). intros f Hf rest _.
  cbn [erase]. rewrite encode_struct1. cbn [embed].
  rewrite (ulist_dec it (fsize (erase_fix k)) (IStruct [IPrim P_U32; kt])
             (fun ok => IVStruct [u32v (fst ok); embed_fix k (snd ok)]) t' defs2 items F (S (S Fk)) f rest).
  - reflexivity.
  - exact Hn.
  - intros kv Hin. now destruct (Forall_In _ _ _ HF Hin).
  - intros ok r f' Hf' Hl. destruct f' as [|f']; [lia|]. cbn [dec map seq].
    rewrite <- app_assoc. rewrite dec_u32 by (try lia; apply le_bytes_length).
    rewrite (Hkd defs2 He f' ltac:(lia) (snd ok) r Hl (pod_valid _ Hpod _)). reflexivity.
  - exact HFu.
  - lia.
Qed.

(* ---------------------------------------------------------------------------------------------- *)
(* generated structs                                                                                *)
Lemma seq_app a b bs :
  seq (a ++ b) bs =
  match seq a bs with
  | Some (v1, r1) => match seq b r1 with Some (v2, r2) => Some (v1 ++ v2, r2) | None => None end
  | None => None
  end.
Proof.
  revert bs. induction a as [|f a IH]; intros bs; cbn [app seq].
  - destruct (seq b bs) as [[? ?]|]; auto.
  - destruct (f bs) as [[v r1]|]; auto. rewrite IH.
    destruct (seq a r1) as [[v1 r2]|]; auto. destruct (seq b r2) as [[v2 r3]|]; auto.
Qed.

Lemma stys_spec fs : Forall sty_spec fs ->
  forall last defs0 ts defs1, stys_ok last fs = true -> stys_to_idl fs defs0 = (ts, defs1) ->
    ext defs0 defs1 /\
    forall defs2, ext defs1 defs2 -> forall vs, wfs (map erase fs) vs = true ->
      exists fuel, forall f, (fuel <= f)%nat -> forall rest, (last = true -> rest = []) ->
        seq (map (dec f defs2) ts) (encodes (map erase fs) vs ++ rest) = Some (embeds fs vs, rest).
Proof.
  induction 1 as [|s fs Hs _ IH]; intros last defs0 ts defs1 Hok Ht.
  - cbn [stys_to_idl] in Ht. inversion Ht; subst. split; [apply ext_refl|].
    intros defs2 _ vs Hw. exists O. intros f _ rest _.
    destruct vs; cbn [map wfs] in Hw; [|discriminate]. reflexivity.
  - cbn [stys_to_idl] in Ht.
    destruct (to_idl s defs0) as [t d1] eqn:E1. destruct (stys_to_idl fs d1) as [ts' d2] eqn:E2.
    inversion Ht; subst; clear Ht.
    assert (Hoks : exists l1, sty_ok l1 s = true /\ stys_ok last fs = true /\ (l1 = true -> last = true /\ fs = [])).
    { cbn [stys_ok] in Hok. destruct fs as [|g fs'].
      - exists last. repeat split; auto.
      - apply andb_true_iff in Hok as [H1 H2]. exists false. repeat split; auto; discriminate. }
    destruct Hoks as (l1 & Hok1 & Hok2 & Hl1).
    destruct (Hs l1 _ _ _ Hok1 E1) as (He1 & H1).
    destruct (IH last _ _ _ Hok2 E2) as (He2 & H2).
    split; [eapply ext_trans; eauto|].
    intros defs2 He vs Hw. destruct vs as [|v vs]; cbn [map wfs] in Hw; [discriminate|].
    apply andb_true_iff in Hw as [Hw1 Hw2].
    destruct (H1 defs2 (ext_trans _ _ _ He2 He) v Hw1) as [F1 G1].
    destruct (H2 defs2 He vs Hw2) as [F2 G2].
    exists (Nat.max F1 F2). intros f Hf rest Hr.
    cbn [map encodes seq embeds]. rewrite <- app_assoc.
    rewrite (G1 f ltac:(lia)).
    + rewrite (G2 f ltac:(lia) rest Hr). reflexivity.
    + intros Hl. destruct (Hl1 Hl) as [Hlast ->]. destruct vs; cbn [map wfs] in Hw2; [|discriminate].
      cbn [map encodes app]. auto.
Qed.

Lemma spec_struct sized fs : Forall sty_spec fs -> sty_spec (SStruct sized fs).
Proof.
  intros IH last defs0 t defs1 Hok Ht. rewrite to_idl_struct in Ht. rewrite sty_ok_struct in Hok.
  apply andb_true_iff in Hok as [Hsz Hfs].
  destruct (fixes_to_idl sized defs0) as [sts d1] eqn:E1. destruct (stys_to_idl fs d1) as [uts d2] eqn:E2.
  inversion Ht; subst; clear Ht.
  assert (Hall : Forall fix_spec sized) by (apply Forall_forall; intros; apply fix_all).
  destruct (fixes_spec sized Hall _ _ _ Hsz E1) as (He1 & F1 & H1).
  destruct (stys_spec fs IH last _ _ _ Hfs E2) as (He2 & H2).
  split; [eapply ext_trans; [eapply ext_trans; eauto|apply ext_app]|].
  intros defs2 He v Hwf.
  assert (Hd2 : ext d2 defs2) by (eapply ext_trans; [apply ext_app|eauto]).
  assert (Hnth : nth_error defs2 (length d2) = Some (IStruct (sts ++ uts)))
    by (eapply ext_nth; [exact He|apply nth_last]).
  destruct sized as [|x sized'].
  - cbn [fixes_to_idl] in E1. inversion E1; subst; clear E1.
    cbn [erase app] in *. destruct (wf_struct_inv _ _ Hwf) as (vs & -> & Hw).
    destruct (H2 defs2 Hd2 vs Hw) as [F2 G2].
    exists (S (S F2)). intros f Hf rest Hr. destruct f as [|[|f]]; try lia.
    cbn [dec]. rewrite Hnth. rewrite encode_struct, embed_struct. cbn [app].
    rewrite (G2 f ltac:(lia) rest Hr). reflexivity.
  - remember (x :: sized') as sz eqn:Esz.
    assert (Her : erase (SStruct sz fs) = TStruct (TFixed (FStruct (map erase_fix sz)) :: map erase fs))
      by (subst sz; reflexivity).
    rewrite Her in *. destruct (wf_struct_inv _ _ Hwf) as (vs & -> & Hw).
    destruct vs as [|v0 vr]; cbn [wfs] in Hw; [discriminate|].
    apply andb_true_iff in Hw as [Hw0 Hwr].
    destruct (wf_fixed_inv _ _ Hw0) as (sb & -> & Lsb & Vsb).
    rewrite fsize_struct in Lsb. rewrite fvalid_struct in Vsb.
    destruct (H2 defs2 Hd2 vr Hwr) as [F2 G2].
    exists (S (S (Nat.max F1 F2))). intros f Hf rest Hr. destruct f as [|[|f]]; try lia.
    cbn [dec]. rewrite Hnth. rewrite encode_struct. cbn [encodes encode].
    rewrite map_app, seq_app, <- app_assoc.
    rewrite (H1 defs2 (ext_trans _ _ _ He2 Hd2) f ltac:(lia) sb _ Lsb Vsb).
    rewrite (G2 f ltac:(lia) rest Hr).
    rewrite embed_struct. subst sz. reflexivity.
Qed.

(* ---------------------------------------------------------------------------------------------- *)
(* generated enums                                                                                  *)
Definition erase_variants (vs : list (Z * option sty)) : list (Z * ty) :=
  map (fun dv => (fst dv, match snd dv with Some t => erase t | None => TStruct [] end)) vs.

Lemma le_decode_one d : le_decode [d] = d.
Proof. cbn [le_decode]. lia. Qed.

Lemma variants_spec vs : Forall (fun dv => optP sty_spec (snd dv)) vs ->
  forall last defs0 ivs defs1, variants_ok last vs = true -> variants_to_idl vs defs0 = (ivs, defs1) ->
    ext defs0 defs1 /\
    forall defs2, ext defs1 defs2 -> forall d p, wf_variant d p (erase_variants vs) = true ->
      (find_disc d ivs = Some None /\ enc_variant d p (erase_variants vs) = [] /\ embed_variant d p vs = None) \/
      (exists it, find_disc d ivs = Some (Some (IStruct [it])) /\
         exists fuel, forall f, (fuel <= f)%nat -> forall rest, (last = true -> rest = []) ->
           exists pv, embed_variant d p vs = Some (IVStruct [pv]) /\
             dec f defs2 it (enc_variant d p (erase_variants vs) ++ rest) = Some (pv, rest)).
Proof.
  induction 1 as [|[dv o] vs Hs _ IH]; intros last defs0 ivs defs1 Hok Ht.
  - cbn [variants_to_idl] in Ht. inversion Ht; subst. split; [apply ext_refl|].
    intros defs2 _ d p Hw. discriminate.
  - cbn [snd] in Hs. destruct o as [t|].
    + cbn [variants_to_idl variants_ok] in Ht, Hok. apply andb_true_iff in Hok as [Hok1 Hok2].
      destruct (to_idl t defs0) as [it d1] eqn:E1. destruct (variants_to_idl vs d1) as [ivs' d2] eqn:E2.
      inversion Ht; subst; clear Ht.
      destruct (Hs last _ _ _ Hok1 E1) as (He1 & H1). destruct (IH last _ _ _ Hok2 E2) as (He2 & H2).
      split; [eapply ext_trans; eauto|].
      intros defs2 He d p Hw. cbn [erase_variants map fst snd wf_variant enc_variant embed_variant find_disc] in *.
      rewrite le_decode_one. rewrite (Z.eqb_sym dv d).
      destruct (d =? dv) eqn:Ed.
      * right. exists it. split; auto.
        destruct (H1 defs2 (ext_trans _ _ _ He2 He) p Hw) as [F G].
        exists F. intros f Hf rest Hr. exists (embed t p). split; auto.
      * fold (erase_variants vs) in *. apply (H2 defs2 He d p Hw).
    + cbn [variants_to_idl variants_ok] in Ht, Hok.
      destruct (variants_to_idl vs defs0) as [ivs' d2] eqn:E2. inversion Ht; subst; clear Ht.
      destruct (IH last _ _ _ Hok E2) as (He2 & H2). split; auto.
      intros defs2 He d p Hw. cbn [erase_variants map fst snd wf_variant enc_variant embed_variant find_disc] in *.
      rewrite le_decode_one. rewrite (Z.eqb_sym dv d).
      destruct (d =? dv) eqn:Ed.
      * left. repeat split; auto.
        destruct (wf_struct_inv _ _ Hw) as (ps & -> & Hps). now rewrite encode_struct.
      * fold (erase_variants vs) in *. apply (H2 defs2 He d p Hw).
Qed.

Lemma spec_enum vs : Forall (fun dv => optP sty_spec (snd dv)) vs -> sty_spec (SEnum vs).
Proof.
  intros IH last defs0 t defs1 Hok Ht. rewrite to_idl_enum in Ht. rewrite sty_ok_enum in Hok.
  apply andb_true_iff in Hok as [_ Hvo].
  destruct (variants_to_idl vs defs0) as [ivs d] eqn:E. inversion Ht; subst; clear Ht.
  destruct (variants_spec vs IH last _ _ _ Hvo E) as (He & H).
  split; [eapply ext_trans; [eauto|apply ext_app]|].
  intros defs2 He2 v Hwf.
  assert (Hd : ext d defs2) by (eapply ext_trans; [apply ext_app|eauto]).
  assert (Hnth : nth_error defs2 (length d) = Some (IEnum (IPrim P_U8) ivs))
    by (eapply ext_nth; [exact He2|apply nth_last]).
  change (erase (SEnum vs)) with (TEnum 1 (erase_variants vs)) in *.
  destruct (wf_enum_inv _ _ _ Hwf) as (dd & p & -> & Hdd & Hw).
  assert (Hhead : forall rest0, take 1 ((le_bytes 1 dd ++ rest0)) = Some (le_bytes 1 dd, rest0))
    by (intros; apply take_app_n; apply zlen_le_bytes).
  assert (Hdec : le_decode (le_bytes 1 dd) = dd) by (apply le_decode_le_bytes; exact Hdd).
  destruct (H defs2 Hd dd p Hw) as [(Hfd & Henc & Hemb)|(it & Hfd & F & G)].
  - exists 2%nat. intros f Hf rest _. destruct f as [|[|f]]; try lia.
    cbn [dec]. rewrite Hnth. change (num_width (IPrim P_U8)) with (Some 1). cbv iota beta.
    rewrite encode_enum, <- app_assoc, Hhead, Hdec, Hfd, Henc, embed_enum, Hemb. reflexivity.
  - exists (S (S F)). intros f Hf rest Hr. destruct f as [|[|f]]; try lia.
    cbn [dec]. rewrite Hnth. change (num_width (IPrim P_U8)) with (Some 1). cbv iota beta.
    rewrite encode_enum, <- app_assoc, Hhead, Hdec, Hfd.
    destruct (G f ltac:(lia) rest Hr) as (pv & Hemb & Hpv).
    cbn [map seq]. rewrite Hpv, embed_enum, Hemb. reflexivity.
Qed.

Lemma sty_all s : sty_spec s.
Proof.
  induction s using sty_ind'.
  - apply spec_list.
  - apply spec_map.
  - apply spec_set.
  - apply spec_string.
  - apply spec_rem.
  - now apply spec_ulist.
  - now apply spec_umap.
  - now apply spec_struct.
  - now apply spec_enum.
Qed.

(* ---------------------------------------------------------------------------------------------- *)
(* the theorem: every source-level shape, every well-formed value                                   *)
Theorem idl_layout_faithful s v :
  sty_ok true s = true -> wf (erase s) v = true ->
  idl_decodes (type_defs s) (type_to_idl s) (encode (erase s) v) (embed s v) [].
Proof.
  intros Hok Hwf. unfold type_defs, type_to_idl, idl_decodes.
  destruct (to_idl s []) as [t defs] eqn:E. cbn [fst snd].
  destruct (sty_all s true [] t defs Hok E) as (_ & H).
  destruct (H defs (ext_refl defs) v Hwf) as [F G].
  exists F. intros f Hf. specialize (G f Hf [] (fun _ => eq_refl)). now rewrite app_nil_r in G.
Qed.

(* the same inside any larger definition table and followed by any bytes when the shape has no tail RemainingBytes
   (how the type sits inside an account: after the discriminant, before nothing) *)
Theorem idl_layout_faithful_prefix s v defs0 rest :
  sty_ok false s = true -> wf (erase s) v = true ->
  idl_decodes (snd (to_idl s defs0)) (fst (to_idl s defs0)) (encode (erase s) v ++ rest) (embed s v) rest.
Proof.
  intros Hok Hwf. unfold idl_decodes.
  destruct (to_idl s defs0) as [t defs] eqn:E. cbn [fst snd].
  destruct (sty_all s false defs0 t defs Hok E) as (_ & H).
  destruct (H defs (ext_refl defs) v Hwf) as [F G].
  exists F. intros f Hf. apply G; auto. discriminate.
Qed.

(* gap-freeness of the canonical offsets (what makes the sequential reading agree with the offset table) *)
Theorem encode_offsets_gap_free it items i o :
  nth_error (offsets_from 0 (item_sizes it items)) i = Some o ->
  o = zsum (firstn i (item_sizes it items)).
Proof. intros H. rewrite (offsets_gap_free _ _ _ _ H). lia. Qed.

(* ---------------------------------------------------------------------------------------------- *)
(* #[type_to_idl(skip)]: the description is a prefix of the runtime layout                          *)
Lemma fixes_size_fsizes fs : fixes_size fs = fsizes (map erase_fix fs).
Proof. induction fs as [|f fs IH]; cbn [fixes_size map fsizes]; auto. Qed.

Lemma forallb_firstn {A} (p : A -> bool) k l : forallb p l = true -> forallb p (firstn k l) = true.
Proof.
  revert k. induction l as [|a l IH]; intros [|k]; cbn [firstn forallb]; auto.
  intros H. apply andb_true_iff in H as [H1 H2]. rewrite H1. cbn [andb]. auto.
Qed.

(* the first k fields of a valid value: their bytes are the first `fixes_size (firstn k fs)` bytes, they are valid
   on their own, and embedding them gives the first k fields of the embedded value *)
Lemma skip_prefix_facts fs : forall k bs,
  length bs = fsizes (map erase_fix fs) -> fvalids (map erase_fix fs) bs = true ->
  length (firstn (fixes_size (firstn k fs)) bs) = fsizes (map erase_fix (firstn k fs)) /\
  fvalids (map erase_fix (firstn k fs)) (firstn (fixes_size (firstn k fs)) bs) = true /\
  embed_fixes (firstn k fs) (firstn (fixes_size (firstn k fs)) bs) = firstn k (embed_fixes fs bs).
Proof.
  induction fs as [|x fs IH]; intros k bs Hl Hv.
  - destruct k; cbn; auto.
  - destruct k as [|k]; [cbn; auto|].
    cbn [firstn fixes_size map fsizes fvalids embed_fixes] in *.
    set (sz := fsize (erase_fix x)) in *. set (m := fixes_size (firstn k fs)).
    apply andb_true_iff in Hv as [Hv1 Hv2].
    destruct (IH k (skipn sz bs) ltac:(rewrite skipn_length; lia) Hv2) as (L & V & Em). fold m in L, V, Em.
    assert (H1 : firstn sz (firstn (sz + m) bs) = firstn sz bs) by (rewrite firstn_firstn; f_equal; lia).
    assert (H2 : skipn sz (firstn (sz + m) bs) = firstn m (skipn sz bs)) by (now rewrite firstn_skipn_comm).
    rewrite H1, H2, V, Hv1, Em. repeat split; auto.
    rewrite firstn_length. rewrite firstn_length, skipn_length in L. lia.
Qed.

(* a struct whose field k carries the attribute: the description decodes the bytes of the WHOLE value into the
   fields in front of the marked one and leaves exactly the bytes of the marked and the remaining fields *)
Theorem idl_skip_struct_prefix fs k defs0 bs :
  forallb fix_ok fs = true ->
  length bs = fsizes (map erase_fix fs) -> fvalids (map erase_fix fs) bs = true ->
  idl_decodes (snd (skip_struct_to_idl fs k defs0)) (fst (skip_struct_to_idl fs k defs0)) bs
    (IVStruct (firstn k (embed_fixes fs bs))) (skipn (fixes_size (firstn k fs)) bs).
Proof.
  intros Hok Hl Hv. unfold skip_struct_to_idl, idl_decodes.
  destruct (fixes_to_idl (firstn k fs) defs0) as [ts d] eqn:E. cbn [fst snd].
  assert (Hall : Forall fix_spec (firstn k fs)) by (apply Forall_forall; intros; apply fix_all).
  destruct (fixes_spec _ Hall _ _ _ (forallb_firstn _ k _ Hok) E) as (He & F & H).
  destruct (skip_prefix_facts fs k bs Hl Hv) as (L & V & Em).
  exists (S (S F)). intros f Hf. destruct f as [|[|f]]; try lia. cbn [dec].
  rewrite nth_last.
  rewrite <- (firstn_skipn (fixes_size (firstn k fs)) bs) at 1.
  rewrite (H (d ++ [IStruct ts]) (ext_app _ _) f ltac:(lia) _ _ L V). now rewrite Em.
Qed.

(* no field marked: the whole struct, nothing left (the XStruct case of the layout theorem) *)
Corollary idl_skip_struct_none fs defs0 bs :
  forallb fix_ok fs = true ->
  length bs = fsizes (map erase_fix fs) -> fvalids (map erase_fix fs) bs = true ->
  idl_decodes (snd (skip_struct_to_idl fs (length fs) defs0)) (fst (skip_struct_to_idl fs (length fs) defs0)) bs
    (IVStruct (embed_fixes fs bs)) [].
Proof.
  intros Hok Hl Hv. pose proof (idl_skip_struct_prefix fs (length fs) defs0 bs Hok Hl Hv) as H.
  rewrite firstn_all in H. rewrite fixes_size_fsizes, <- Hl, skipn_all in H.
  assert (Hn : length (embed_fixes fs bs) = length fs).
  { clear. revert bs. induction fs as [|x fs IH]; intros bs; cbn [embed_fixes length]; auto. }
  replace (firstn (length fs) (embed_fixes fs bs)) with (embed_fixes fs bs) in H; auto.
  rewrite <- Hn at 1. now rewrite firstn_all.
Qed.

(* enum variants *)
Lemma skip_variants_spec vs : forall defs0 ivs defs1,
  skip_variants_ok vs = true -> skip_variants_to_idl vs defs0 = (ivs, defs1) ->
  ext defs0 defs1 /\
  forall d p, find_skip_variant d vs = Some p ->
    match p with
    | None => find_disc d ivs = Some None
    | Some (fs, k) =>
        forallb fix_ok fs = true /\
        exists ts F, find_disc d ivs = Some (Some (IStruct ts)) /\
          forall defs2, ext defs1 defs2 -> forall f, (F <= f)%nat -> forall bs rest,
            length bs = fsizes (map erase_fix (firstn k fs)) -> fvalids (map erase_fix (firstn k fs)) bs = true ->
            seq (map (dec f defs2) ts) (bs ++ rest) = Some (embed_fixes (firstn k fs) bs, rest)
    end.
Proof.
  induction vs as [|[d' p'] vs IH]; intros defs0 ivs defs1 Hok Ht.
  - cbn [skip_variants_to_idl] in Ht. inversion Ht; subst. split; [apply ext_refl|]. intros d p Hf. discriminate.
  - unfold skip_variants_ok in Hok. cbn [forallb fst snd] in Hok. apply andb_true_iff in Hok as [Hok1 Hok2].
    apply andb_true_iff in Hok1 as [_ Hfs]. fold (skip_variants_ok vs) in Hok2.
    cbn [skip_variants_to_idl] in Ht. destruct p' as [[fs k]|].
    + destruct (fixes_to_idl (firstn k fs) defs0) as [ts d1] eqn:E1.
      destruct (skip_variants_to_idl vs d1) as [ivs' d2] eqn:E2. inversion Ht; subst; clear Ht.
      assert (Hall : Forall fix_spec (firstn k fs)) by (apply Forall_forall; intros; apply fix_all).
      destruct (fixes_spec _ Hall _ _ _ (forallb_firstn _ k _ Hfs) E1) as (He1 & F & H).
      destruct (IH _ _ _ Hok2 E2) as (He2 & H2).
      split; [eapply ext_trans; eauto|]. intros d p Hf. cbn [find_skip_variant] in Hf.
      cbn [find_disc]. rewrite le_decode_one. destruct (d' =? d) eqn:Ed.
      * inversion Hf; subst; clear Hf. split; auto. exists ts, F. split; auto.
        intros defs2 He f Hf bs rest Hl Hv. apply H; auto. eapply ext_trans; eauto.
      * apply H2; auto.
    + destruct (skip_variants_to_idl vs defs0) as [ivs' d2] eqn:E2. inversion Ht; subst; clear Ht.
      destruct (IH _ _ _ Hok2 E2) as (He2 & H2).
      split; auto. intros d p Hf. cbn [find_skip_variant] in Hf.
      cbn [find_disc]. rewrite le_decode_one. destruct (d' =? d) eqn:Ed.
      * inversion Hf; subst; auto.
      * apply H2; auto.
Qed.

(* the variant selected by the discriminant byte: its described fields are read, its marked and remaining fields
   stay unread; a unit variant reads the discriminant only *)
Theorem idl_skip_enum_prefix vs defs0 d fs k bs :
  skip_variants_ok vs = true -> find_skip_variant d vs = Some (Some (fs, k)) ->
  length bs = fsizes (map erase_fix fs) -> fvalids (map erase_fix fs) bs = true ->
  idl_decodes (snd (skip_enum_to_idl vs defs0)) (fst (skip_enum_to_idl vs defs0)) (d :: bs)
    (IVEnum d (Some (IVStruct (firstn k (embed_fixes fs bs))))) (skipn (fixes_size (firstn k fs)) bs).
Proof.
  intros Hok Hf Hl Hv. unfold skip_enum_to_idl, idl_decodes.
  destruct (skip_variants_to_idl vs defs0) as [ivs d1] eqn:E. cbn [fst snd].
  destruct (skip_variants_spec vs _ _ _ Hok E) as (He & H).
  destruct (H d _ Hf) as (Hfs & ts & F & Hd & Hs).
  destruct (skip_prefix_facts fs k bs Hl Hv) as (L & V & Em).
  exists (S (S F)). intros f Hfu. destruct f as [|[|f]]; try lia. cbn [dec].
  rewrite nth_last.
  change (num_width (IPrim P_U8)) with (Some 1). cbv iota beta.
  change (d :: bs) with ([d] ++ bs). rewrite (take_app_n 1 [d] bs eq_refl).
  rewrite le_decode_one, Hd.
  rewrite <- (firstn_skipn (fixes_size (firstn k fs)) bs) at 1.
  rewrite (Hs (d1 ++ [IEnum (IPrim P_U8) ivs]) (ext_app _ _) f ltac:(lia) _ _ L V). now rewrite Em.
Qed.

Theorem idl_skip_enum_unit vs defs0 d rest :
  skip_variants_ok vs = true -> find_skip_variant d vs = Some None ->
  idl_decodes (snd (skip_enum_to_idl vs defs0)) (fst (skip_enum_to_idl vs defs0)) (d :: rest) (IVEnum d None) rest.
Proof.
  intros Hok Hf. unfold skip_enum_to_idl, idl_decodes.
  destruct (skip_variants_to_idl vs defs0) as [ivs d1] eqn:E. cbn [fst snd].
  destruct (skip_variants_spec vs _ _ _ Hok E) as (He & H). pose proof (H d _ Hf) as Hd. cbv beta iota in Hd.
  exists 2%nat. intros f Hfu. destruct f as [|[|f]]; try lia. cbn [dec].
  rewrite nth_last.
  change (num_width (IPrim P_U8)) with (Some 1). cbv iota beta.
  change (d :: rest) with ([d] ++ rest). rewrite (take_app_n 1 [d] rest eq_refl).
  now rewrite le_decode_one, Hd.
Qed.

(* leaving out only the marked field (the seeded change C17j) is NOT faithful: the field behind the hole is read from
   the bytes of the marked one *)
Theorem idl_skip_hole_refuted :
  exists fs k bs v r,
    forallb fix_ok fs = true /\ length bs = fsizes (map erase_fix fs) /\ fvalids (map erase_fix fs) bs = true /\
    idl_decode 10 (snd (hole_struct_to_idl fs k [])) (fst (hole_struct_to_idl fs k [])) bs = Some (IVStruct v, r) /\
    nth_error v k <> nth_error (embed_fixes fs bs) (S k).
Proof.
  exists [XPrim P_U8; XPrim P_U16; XPrim P_U32], 1%nat, [1; 2; 3; 4; 5; 6; 7],
         [IVBytes [1]; IVBytes [2; 3; 4; 5]], [6; 7].
  vm_compute. repeat split; auto; discriminate.
Qed.
