(* C17 - proofs about the IDL layout semantics: fuel monotonicity / functionality of the decoder, and
   `idl_layout_faithful`: for every source-level unsized type and every well-formed owned value, decoding the
   canonical serialisation by the emitted IDL description yields the embedded value and consumes every byte. *)
From SF Require Import Base.Prelude Unsized.Types IdlSem.IdlSem.

(* ---------------------------------------------------------------------------------------------- *)
(* generic facts                                                                                    *)
Lemma take_app (a b : list Z) : take (zlen a) (a ++ b) = Some (a, b).
Proof.
  unfold take. pose proof (zlen_nonneg a) as Hn.
  destruct (zlen a <? 0) eqn:E1; [apply Z.ltb_lt in E1; lia|].
  rewrite zlen_app. pose proof (zlen_nonneg b) as Hb.
  destruct (zlen a + zlen b <? zlen a) eqn:E2; [apply Z.ltb_lt in E2; lia|].
  cbn [orb]. unfold ztake, zdrop, zlen. rewrite Nat2Z.id.
  rewrite firstn_app, skipn_app, Nat.sub_diag, firstn_all, skipn_all. cbn [firstn skipn].
  now rewrite app_nil_r.
Qed.

Lemma take_app_n n (a b : list Z) : zlen a = n -> take n (a ++ b) = Some (a, b).
Proof. intros <-. apply take_app. Qed.

Definition ext (d d' : list ity) : Prop := exists e, d' = d ++ e.

Lemma ext_refl d : ext d d.
Proof. exists []. now rewrite app_nil_r. Qed.

Lemma ext_trans a b c : ext a b -> ext b c -> ext a c.
Proof. intros [e1 ->] [e2 ->]. exists (e1 ++ e2). now rewrite app_assoc. Qed.

Lemma ext_app d e : ext d (d ++ e).
Proof. now exists e. Qed.

Lemma ext_nth d d' n t : ext d d' -> nth_error d n = Some t -> nth_error d' n = Some t.
Proof.
  intros [e ->] H. rewrite nth_error_app1; auto.
  apply nth_error_Some. congruence.
Qed.

Lemma nth_last (d : list ity) t : nth_error (d ++ [t]) (length d) = Some t.
Proof. rewrite nth_error_app2 by lia. now rewrite Nat.sub_diag. Qed.

(* ---------------------------------------------------------------------------------------------- *)
(* fuel monotonicity                                                                                *)
Definition sub (g g' : list Z -> dres) : Prop := forall bs r, g bs = Some r -> g' bs = Some r.

Lemma rep_mono k k' g g' n bs r :
  sub g g' -> (k <= k')%nat -> rep k g n bs = Some r -> rep k' g' n bs = Some r.
Proof.
  intros Hs. revert k' n bs r. induction k as [|k IH]; intros k' n bs r Hk H.
  - cbn [rep] in H. destruct (n <=? 0) eqn:E; [|discriminate].
    destruct k'; cbn [rep]; now rewrite E.
  - destruct k' as [|k']; [lia|]. cbn [rep] in *. destruct (n <=? 0); auto.
    destruct (g bs) as [[v r1]|] eqn:Eg; [|discriminate].
    rewrite (Hs _ _ Eg).
    destruct (rep k g (n - 1) r1) as [[vs r2]|] eqn:Er; [|discriminate].
    rewrite (IH k' _ _ _ ltac:(lia) Er). exact H.
Qed.

Lemma seq_mono (d d' : ity -> list Z -> dres) fs bs r :
  (forall t, sub (d t) (d' t)) -> seq (map d fs) bs = Some r -> seq (map d' fs) bs = Some r.
Proof.
  intros Hs. revert bs r. induction fs as [|f fs IH]; intros bs r H; cbn [map seq] in *; auto.
  destruct (d f bs) as [[v r1]|] eqn:E; [|discriminate]. rewrite (Hs _ _ _ E).
  destruct (seq (map d fs) r1) as [[vs r2]|] eqn:E2; [|discriminate].
  now rewrite (IH _ _ E2).
Qed.

Lemma list_dec_mono k k' lt g g' : sub g g' -> (k <= k')%nat -> sub (list_dec k lt g) (list_dec k' lt g').
Proof.
  intros Hs Hk bs r H. unfold list_dec in *.
  destruct (num_width lt); [|discriminate]. destruct (take z bs) as [[h r1]|]; [|discriminate].
  destruct (rep k g (le_decode h) r1) as [[vs r2]|] eqn:E; [|discriminate].
  now rewrite (rep_mono _ _ _ _ _ _ _ Hs Hk E).
Qed.

Lemma pair_dec_mono a a' b b' : sub a a' -> sub b b' -> sub (pair_dec a b) (pair_dec a' b').
Proof.
  intros Ha Hb bs r H. unfold pair_dec in *.
  destruct (a bs) as [[k r1]|] eqn:E; [|discriminate]. rewrite (Ha _ _ E).
  destruct (b r1) as [[v r2]|] eqn:E2; [|discriminate]. now rewrite (Hb _ _ E2).
Qed.

Lemma dec_mono_S f defs : forall f', (f <= f')%nat -> forall t, sub (dec f defs t) (dec f' defs t).
Proof.
  induction f as [|f IH]; intros f' Hf t bs r H; [discriminate|].
  destruct f' as [|f']; [lia|].
  assert (Hd : forall t, sub (dec f defs t) (dec f' defs t)) by (intro; apply IH; lia).
  assert (Hle : (f <= f')%nat) by lia.
  cbn [dec] in *.
  destruct t as [k|n|t' fx|lt it|lt ot it|lt it|lt kt vt|it n|fs|st vs].
  - exact H.
  - destruct (nth_error defs n); [|discriminate]. now apply Hd.
  - destruct fx; [discriminate|]. destruct (take 1 bs) as [[[|b [|? ?]] r1]|]; try discriminate.
    destruct (b =? 0); auto. destruct (b =? 1); [|discriminate].
    destruct (dec f defs t' r1) as [[v r2]|] eqn:E; [|discriminate]. now rewrite (Hd _ _ _ E).
  - eapply list_dec_mono; eauto.
  - destruct (dec f defs lt bs) as [[usz r1]|] eqn:E1; [|discriminate]. rewrite (Hd _ _ _ E1).
    destruct (list_dec f lt (dec f defs ot) r1) as [[offs r2]|] eqn:E2; [|discriminate].
    rewrite (list_dec_mono _ _ _ _ _ (Hd ot) Hle _ _ E2).
    destruct (list_dec f lt (dec f defs it) r2) as [[items r3]|] eqn:E3; [|discriminate].
    now rewrite (list_dec_mono _ _ _ _ _ (Hd it) Hle _ _ E3).
  - eapply list_dec_mono; eauto.
  - eapply list_dec_mono; [| |exact H]; auto. apply pair_dec_mono; auto.
  - destruct (rep f (dec f defs it) n bs) as [[vs r1]|] eqn:E; [|discriminate].
    now rewrite (rep_mono _ _ _ _ _ _ _ (Hd it) Hle E).
  - destruct (seq (map (dec f defs) fs) bs) as [[vs r1]|] eqn:E; [|discriminate].
    now rewrite (seq_mono _ _ _ _ _ Hd E).
  - destruct (num_width st); [|discriminate]. destruct (take z bs) as [[h r1]|]; [|discriminate].
    destruct (find_disc (le_decode h) vs) as [[p|]|]; try discriminate; auto.
    destruct p; try discriminate.
    destruct (seq (map (dec f defs) fs) r1) as [[ps r2]|] eqn:E; [|discriminate].
    now rewrite (seq_mono _ _ _ _ _ Hd E).
Qed.

Lemma dec_mono f f' defs t bs r : (f <= f')%nat -> dec f defs t bs = Some r -> dec f' defs t bs = Some r.
Proof. intros. eapply dec_mono_S; eauto. Qed.

(* the layout relation is a partial function *)
Lemma idl_decodes_functional defs t bs v r v' r' :
  idl_decodes defs t bs v r -> idl_decodes defs t bs v' r' -> v = v' /\ r = r'.
Proof.
  intros [f1 H1] [f2 H2].
  specialize (H1 (Nat.max f1 f2) ltac:(lia)). specialize (H2 (Nat.max f1 f2) ltac:(lia)).
  rewrite H1 in H2. now inversion H2.
Qed.

(* and agrees with any successful run of the decoder *)
Lemma idl_decodes_run defs t bs v r f v' r' :
  idl_decodes defs t bs v r -> idl_decode f defs t bs = Some (v', r') -> v = v' /\ r = r'.
Proof.
  intros [f1 H1] H2. unfold idl_decode in H2.
  specialize (H1 (Nat.max f1 f) ltac:(lia)).
  rewrite (dec_mono f (Nat.max f1 f) _ _ _ _ ltac:(lia) H2) in H1. now inversion H1.
Qed.

(* ---------------------------------------------------------------------------------------------- *)
(* named versions of the nested recursions of Types.v / IdlSem.v (convertible to the anonymous ones) *)
Fixpoint fsizes (fs : list fcheck) : nat := match fs with [] => O | f :: r => (fsize f + fsizes r)%nat end.
Fixpoint fvalids (fs : list fcheck) (bs : list Z) : bool :=
  match fs with [] => true | f :: r => fvalid f (firstn (fsize f) bs) && fvalids r (skipn (fsize f) bs) end.
Lemma fsize_struct fs : fsize (FStruct fs) = fsizes fs. Proof. reflexivity. Qed.
Lemma fvalid_struct fs bs : fvalid (FStruct fs) bs = fvalids fs bs. Proof. reflexivity. Qed.

Fixpoint encodes (ts : list ty) (vs : list val) : list Z :=
  match ts, vs with t :: ts', v :: vs' => encode t v ++ encodes ts' vs' | _, _ => [] end.
Fixpoint wfs (ts : list ty) (vs : list val) : bool :=
  match ts, vs with [], [] => true | t :: ts', v :: vs' => wf t v && wfs ts' vs' | _, _ => false end.
Lemma encode_struct ts vs : encode (TStruct ts) (VStruct vs) = encodes ts vs. Proof. reflexivity. Qed.
Lemma wf_struct ts vs : wf (TStruct ts) (VStruct vs) = wfs ts vs. Proof. reflexivity. Qed.

Fixpoint enc_variant (d : Z) (p : val) (vars : list (Z * ty)) : list Z :=
  match vars with [] => [] | (d', t) :: r => if d =? d' then encode t p else enc_variant d p r end.
Fixpoint wf_variant (d : Z) (p : val) (vars : list (Z * ty)) : bool :=
  match vars with [] => false | (d', t) :: r => if d =? d' then wf t p else wf_variant d p r end.
Lemma encode_enum rw vars d p : encode (TEnum rw vars) (VEnum d p) = le_bytes rw d ++ enc_variant d p vars.
Proof.
  cbn [encode]. f_equal. induction vars as [|[d' t] r IH]; cbn [enc_variant]; auto.
  destruct (d =? d'); auto.
Qed.
Lemma wf_enum rw vars d p :
  wf (TEnum rw vars) (VEnum d p) = (0 <=? d) && (d <? 256 ^ Z.of_nat rw) && wf_variant d p vars.
Proof.
  cbn [wf]. f_equal. induction vars as [|[d' t] r IH]; cbn [wf_variant]; auto.
  destruct (d =? d'); auto.
Qed.

Lemma fix_to_idl_struct fs defs :
  fix_to_idl (XStruct fs) defs = let (ts, d) := fixes_to_idl fs defs in (IDefined (length d), d ++ [IStruct ts]).
Proof. reflexivity. Qed.

Fixpoint stys_to_idl (fs : list sty) (defs : list ity) : list ity * list ity :=
  match fs with
  | [] => ([], defs)
  | f :: r => let (t, d1) := to_idl f defs in let (ts, d2) := stys_to_idl r d1 in (t :: ts, d2)
  end.
Fixpoint variants_to_idl (vs : list (Z * option sty)) (defs : list ity) : list (list Z * option ity) * list ity :=
  match vs with
  | [] => ([], defs)
  | (dv, None) :: r => let (ivs, d2) := variants_to_idl r defs in (([dv], None) :: ivs, d2)
  | (dv, Some t) :: r =>
      let (it, d1) := to_idl t defs in
      let (ivs, d2) := variants_to_idl r d1 in (([dv], Some (IStruct [it])) :: ivs, d2)
  end.
Lemma to_idl_struct sized fs defs :
  to_idl (SStruct sized fs) defs =
  let (sts, d1) := fixes_to_idl sized defs in
  let (uts, d2) := stys_to_idl fs d1 in (IDefined (length d2), d2 ++ [IStruct (sts ++ uts)]).
Proof. reflexivity. Qed.
Lemma to_idl_enum vs defs :
  to_idl (SEnum vs) defs =
  let (ivs, d) := variants_to_idl vs defs in (IDefined (length d), d ++ [IEnum (IPrim P_U8) ivs]).
Proof. reflexivity. Qed.

Fixpoint embed_array (x : sfix) (n : nat) (bs : list Z) : list ival :=
  match n with
  | O => []
  | S m => embed_fix x (firstn (fsize (erase_fix x)) bs) :: embed_array x m (skipn (fsize (erase_fix x)) bs)
  end.
Lemma embed_fix_array n x bs : embed_fix (XArray n x) bs = IVList (embed_array x n bs). Proof. reflexivity. Qed.
Lemma embed_fix_struct fs bs : embed_fix (XStruct fs) bs = IVStruct (embed_fixes fs bs). Proof. reflexivity. Qed.

Fixpoint embeds (fs : list sty) (vs : list val) : list ival :=
  match fs, vs with f :: fr, v :: vr => embed f v :: embeds fr vr | _, _ => [] end.
Fixpoint embed_variant (d : Z) (p : val) (vars : list (Z * option sty)) : option ival :=
  match vars with
  | [] => None
  | (d', None) :: r => if d =? d' then None else embed_variant d p r
  | (d', Some t) :: r => if d =? d' then Some (IVStruct [embed t p]) else embed_variant d p r
  end.
Lemma embed_struct sized fs vs :
  embed (SStruct sized fs) (VStruct vs) =
  match sized, vs with
  | [], _ => IVStruct (embeds fs vs)
  | _, VBytes sb :: vr => IVStruct (embed_fixes sized sb ++ embeds fs vr)
  | _, _ => IVStruct []
  end.
Proof. reflexivity. Qed.
Lemma embed_enum vars d p : embed (SEnum vars) (VEnum d p) = IVEnum d (embed_variant d p vars).
Proof.
  cbn [embed]. f_equal. induction vars as [|[d' [t|]] r IH]; cbn [embed_variant]; auto;
  destruct (d =? d'); auto.
Qed.

Fixpoint stys_ok (last : bool) (fs : list sty) : bool :=
  match fs with [] => true | [f] => sty_ok last f | f :: r => sty_ok false f && stys_ok last r end.
Fixpoint variants_ok (last : bool) (vs : list (Z * option sty)) : bool :=
  match vs with [] => true | (_, None) :: r => variants_ok last r | (_, Some t) :: r => sty_ok last t && variants_ok last r end.
Lemma sty_ok_struct last sized fs : sty_ok last (SStruct sized fs) = forallb fix_ok sized && stys_ok last fs.
Proof. reflexivity. Qed.
Lemma sty_ok_enum last vs :
  sty_ok last (SEnum vs) =
  distinct (map fst vs) && forallb (fun dv => (0 <=? fst dv) && (fst dv <? 256)) vs && variants_ok last vs.
Proof. reflexivity. Qed.

(* induction principles of the nested inductives *)
Section SfixInd.
  Variable P : sfix -> Prop.
  Hypothesis HPrim : forall k, P (XPrim k).
  Hypothesis HArray : forall n x, P x -> P (XArray n x).
  Hypothesis HStruct : forall fs, Forall P fs -> P (XStruct fs).
  Hypothesis HEnum : forall ds, P (XEnum ds).
  Fixpoint sfix_ind' (x : sfix) : P x :=
    match x with
    | XPrim k => HPrim k
    | XArray n x' => HArray n x' (sfix_ind' x')
    | XStruct fs =>
        HStruct fs ((fix all (l : list sfix) : Forall P l :=
                       match l with [] => Forall_nil P | y :: r => Forall_cons y (sfix_ind' y) (all r) end) fs)
    | XEnum ds => HEnum ds
    end.
End SfixInd.

Definition optP {A} (P : A -> Prop) (o : option A) : Prop := match o with Some a => P a | None => True end.

Section StyInd.
  Variable P : sty -> Prop.
  Hypothesis HList : forall lw x, P (SList lw x).
  Hypothesis HMap : forall lw k v, P (SMap lw k v).
  Hypothesis HSet : forall lw k, P (SSet lw k).
  Hypothesis HString : P SString.
  Hypothesis HRem : P SRem.
  Hypothesis HUList : forall it, P it -> P (SUList it).
  Hypothesis HUMap : forall k it, P it -> P (SUMap k it).
  Hypothesis HStruct : forall sized fs, Forall P fs -> P (SStruct sized fs).
  Hypothesis HEnum : forall vs, Forall (fun dv => optP P (snd dv)) vs -> P (SEnum vs).
  Fixpoint sty_ind' (s : sty) : P s :=
    match s with
    | SList lw x => HList lw x
    | SMap lw k v => HMap lw k v
    | SSet lw k => HSet lw k
    | SString => HString
    | SRem => HRem
    | SUList it => HUList it (sty_ind' it)
    | SUMap k it => HUMap k it (sty_ind' it)
    | SStruct sized fs =>
        HStruct sized fs ((fix all (l : list sty) : Forall P l :=
                             match l with [] => Forall_nil P | y :: r => Forall_cons y (sty_ind' y) (all r) end) fs)
    | SEnum vs =>
        HEnum vs ((fix all (l : list (Z * option sty)) : Forall (fun dv => optP P (snd dv)) l :=
                     match l with
                     | [] => Forall_nil _
                     | y :: r =>
                         Forall_cons y (match snd y as o return optP P o with Some a => sty_ind' a | None => I end) (all r)
                     end) vs)
    end.
End StyInd.
