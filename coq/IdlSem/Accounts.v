(* C17 - account sets: what the IDL emitters say about an instruction's accounts, what the client puts into the
   instruction, what an IDL-following client derives from the IDL, and how the Codama lowering lists them.
   No proofs in this file.

   Sources: star_frame/src/account_set/{impls/{account_info,option,vec,array}.rs, rest.rs, program.rs, sysvar.rs,
   modifiers/{mutable,signer,init}.rs, account.rs} (`ClientAccountSet` and `idl_impl` modules),
   star_frame_proc/src/account_set/struct_impl/{mod.rs 242-262 + 478-529, idl.rs}, star_frame_idl/src/lib.rs
   (`add_account_set` 164-167, `item_source` 198-217), star_frame_idl/src/codama.rs (245-374, 631-640).

   Four switches follow the source text (tools/gen_extra_c17.py regenerates them into Gen/Gen_c17.v on every run):
     key_full        : a multi-field set is keyed by its full type name (generic arguments included) rather than by
                       `item_source` (generics stripped)                                                  [D15]
     one_passthrough : a derived set with exactly one field (and no #[single_account_set]) returns the field's
                       definition instead of a one-field struct                                            [one-field-set]
     none_placeholder: the `None` alternative of `Option<multi-field set>` is the one-account program-id
                       placeholder the client and the decoder use, rather than the empty struct             [option-multi-none]
     false_clears    : the client meta of MaybeMut<false,_> / MaybeSigner<false,_> clears the inner flag    [false-modifier] *)
From SF Require Import Base.Prelude.

Record cfg := mkCfg { key_full : bool; one_passthrough : bool; none_placeholder : bool; false_clears : bool }.

Record meta := mkMeta { m_key : Z; m_signer : bool; m_writable : bool }.

(* the account-set building blocks *)
Inductive aset :=
| AInfo                                        (* AccountInfo, SystemAccount, Account<T>, Seeded<..>, BorshAccount.. *)
| AMaybeMut (m : bool) (a : aset)              (* MaybeMut<M, T> ; Mut<T> = MaybeMut<true, T> *)
| AMaybeSigner (s : bool) (a : aset)           (* MaybeSigner<S, T> ; Signer<T> *)
| AInit (a : aset)                             (* Init<T> *)
| AAddr (addr : Z)                             (* Program<T> / Sysvar<T> : fixed address, client value Option<Pubkey> *)
| AOpt (a : aset)
| AVec (a : aset)                              (* Vec<T> / Rest<T> *)
| AArr (n : nat) (a : aset)                    (* [T; N] *)
| AStruct (name : Z) (gens : list Z) (fs : list aset).   (* derived set without #[single_account_set] *)

(* the client's choices, in the order its accounts value is written down (struct fields in declaration order;
   struct boundaries carry no choice): a key, an absent `Option`, a present `Option`, the length of a Vec / array *)
Inductive tok := TK (k : Z) | TNone | TSome | TLen (n : Z).

(* ---------------------------------------------------------------------------------------------- *)
(* client metas (ClientAccountSet::extend_account_metas)                                            *)
(* SingleSetMeta of a single-account set: (signer, writable) *)
Fixpoint single_meta (c : cfg) (a : aset) : option (bool * bool) :=
  match a with
  | AInfo => Some (false, false)
  | AAddr _ => Some (false, false)
  | AMaybeMut m a' =>                             (* mutable.rs 21: SingleSetMeta { writable: MUT, ..T::meta() } *)
      match single_meta c a' with
      | Some (s, w) => Some (s, if false_clears c then m else m || w)
      | None => None
      end
  | AMaybeSigner sg a' =>                         (* signer.rs 20 *)
      match single_meta c a' with
      | Some (s, w) => Some (if false_clears c then sg else sg || s, w)
      | None => None
      end
  | AInit a' =>                                   (* init.rs 60: #[single_account_set(writable, ..)] *)
      match single_meta c a' with Some (s, w) => Some (s, true) | None => None end
  | _ => None
  end.

Definition mres := option (list meta * list tok).

Fixpoint client_metas (c : cfg) (pid : Z) (a : aset) (ts : list tok) {struct a} : mres :=
  match a with
  | AAddr addr =>                                 (* program.rs 30-42, sysvar.rs 64-79: accounts.unwrap_or(T::ID) *)
      match ts with
      | TNone :: r => Some ([mkMeta addr false false], r)
      | TSome :: TK k :: r => Some ([mkMeta k false false], r)
      | _ => None
      end
  | AInfo | AMaybeMut _ _ | AMaybeSigner _ _ | AInit _ =>     (* struct_impl/mod.rs 245-259: ClientAccounts = Pubkey *)
      match single_meta c a, ts with
      | Some (s, w), TK k :: r => Some ([mkMeta k s w], r)
      | _, _ => None
      end
  | AOpt a' =>                                    (* option.rs 81-99 *)
      match ts with
      | TNone :: r => Some ([mkMeta pid false false], r)
      | TSome :: r => client_metas c pid a' r
      | _ => None
      end
  | AVec a' =>                                    (* vec.rs 48-64, rest.rs 68-82 *)
      match ts with
      | TLen n :: r =>
          if n <? 0 then None else
          (fix go (k : nat) (ts : list tok) : mres :=
             match k with
             | O => Some ([], ts)
             | S k' =>
                 match client_metas c pid a' ts with
                 | Some (m, r1) => match go k' r1 with Some (ms, r2) => Some (m ++ ms, r2) | None => None end
                 | None => None
                 end
             end) (Z.to_nat n) r
      | _ => None
      end
  | AArr n a' =>                                  (* array.rs 55-71 *)
      match ts with
      | TLen n' :: r =>
          if n' =? Z.of_nat n then
            (fix go (k : nat) (ts : list tok) : mres :=
               match k with
               | O => Some ([], ts)
               | S k' =>
                   match client_metas c pid a' ts with
                   | Some (m, r1) => match go k' r1 with Some (ms, r2) => Some (m ++ ms, r2) | None => None end
                   | None => None
                   end
               end) n r
          else None
      | _ => None
      end
  | AStruct _ _ fs =>                             (* struct_impl/mod.rs 515-527: fields in declaration order *)
      (fix go (fs : list aset) (ts : list tok) : mres :=
         match fs with
         | [] => Some ([], ts)
         | f :: fr =>
             match client_metas c pid f ts with
             | Some (m, r1) => match go fr r1 with Some (ms, r2) => Some (m ++ ms, r2) | None => None end
             | None => None
             end
         end) fs ts
  end.

(* ---------------------------------------------------------------------------------------------- *)
(* the IDL side (account_set.rs 35-73)                                                              *)
Record isingle := mkSingle { i_signer : bool; i_writable : bool; i_optional : bool; i_init : bool; i_addr : option Z }.

Inductive iaset :=
| ISingle (s : isingle)
| IADefined (key : list Z)
| IAStruct (fs : list iaset)
| IMany (a : iaset) (mn : Z) (mx : option Z)
| IOr (l : list iaset).

Definition single0 : isingle := mkSingle false false false false None.

Definition on_single (f : isingle -> isingle) (i : iaset) : iaset :=
  match i with ISingle s => ISingle (f s) | _ => i end.       (* `.single()?` fails otherwise: not well-typed Rust *)

Definition set_key (c : cfg) (name : Z) (gens : list Z) : list Z := name :: (if key_full c then gens else []).

(* AccountSetToIdl::account_set_to_idl: the returned definition (the table is `defs_of` below) *)
Fixpoint idl_of (c : cfg) (pid : Z) (a : aset) {struct a} : iaset :=
  match a with
  | AInfo => ISingle single0                                                     (* account_info.rs 233-240 *)
  | AMaybeMut m a' =>                                                            (* mutable.rs 39-54 *)
      let i := idl_of c pid a' in
      if m then on_single (fun s => mkSingle (i_signer s) true (i_optional s) (i_init s) (i_addr s)) i else i
  | AMaybeSigner sg a' =>                                                        (* signer.rs 84-99 *)
      let i := idl_of c pid a' in
      if sg then on_single (fun s => mkSingle true (i_writable s) (i_optional s) (i_init s) (i_addr s)) i else i
  | AInit a' =>                                                                  (* init.rs 106-125 *)
      on_single (fun s => mkSingle (i_signer s) true (i_optional s) true (i_addr s)) (idl_of c pid a')
  | AAddr addr => ISingle (mkSingle false false false false (Some addr))         (* #[idl(address = T::ID)] *)
  | AOpt a' =>                                                                   (* option.rs 171-190 *)
      match idl_of c pid a' with
      | ISingle s => ISingle (mkSingle (i_signer s) (i_writable s) true (i_init s) (i_addr s))
      | i =>
          IOr [i; if none_placeholder c then ISingle (mkSingle false false false false (Some pid)) else IAStruct []]
      end
  | AVec a' => IMany (idl_of c pid a') 0 None                                    (* vec.rs 377-391, rest.rs 107-120 *)
  | AArr n a' => IMany (idl_of c pid a') (Z.of_nat n) (Some (Z.of_nat n))        (* array.rs 187-203 *)
  | AStruct name gens fs =>                                                      (* struct_impl/idl.rs 170-199 *)
      match fs with
      | [f] => if one_passthrough c then idl_of c pid f else IADefined (set_key c name gens)
      | _ => IADefined (set_key c name gens)
      end
  end.

(* the definitions added to the table while emitting `a`, in the order of the add_account_set calls (a set's
   fields are emitted before the set adds itself) *)
Fixpoint defs_of (c : cfg) (pid : Z) (a : aset) {struct a} : list (list Z * iaset) :=
  match a with
  | AInfo | AAddr _ => []
  | AMaybeMut _ a' | AMaybeSigner _ a' | AInit a' | AOpt a' | AVec a' | AArr _ a' => defs_of c pid a'
  | AStruct name gens fs =>
      let inner := (fix go (fs : list aset) : list (list Z * iaset) :=
                      match fs with [] => [] | f :: r => defs_of c pid f ++ go r end) fs in
      match fs with
      | [f] =>
          if one_passthrough c then inner
          else inner ++ [(set_key c name gens, IAStruct (map (idl_of c pid) fs))]
      | _ => inner ++ [(set_key c name gens, IAStruct (map (idl_of c pid) fs))]
      end
  end.

Fixpoint key_eqb (a b : list Z) : bool :=
  match a, b with
  | [], [] => true
  | x :: a', y :: b' => (x =? y) && key_eqb a' b'
  | _, _ => false
  end.

(* `account_sets.entry(source).or_insert(set)` (lib.rs 164-167): the first definition under a key stays *)
Fixpoint lookup (k : list Z) (t : list (list Z * iaset)) : option iaset :=
  match t with
  | [] => None
  | (k', d) :: r => if key_eqb k k' then Some d else lookup k r
  end.

(* a program: its instructions' account sets in instruction-set order (instruction_set.rs 107-117) *)
Definition program_defs (c : cfg) (pid : Z) (ixs : list aset) : list (list Z * iaset) :=
  concat (map (defs_of c pid) ixs).

(* ---------------------------------------------------------------------------------------------- *)
(* what a client following the IDL sends, for the same choices                                       *)
Definition single_plain (s : isingle) (ts : list tok) : mres :=
  match ts, i_addr s with
  | TK k :: r, _ => Some ([mkMeta k (i_signer s) (i_writable s)], r)
  | TNone :: r, Some a => Some ([mkMeta a (i_signer s) (i_writable s)], r)     (* the fixed address is the default *)
  | TSome :: TK k :: r, Some _ => Some ([mkMeta k (i_signer s) (i_writable s)], r)
  | _, _ => None
  end.

Definition single_toks (pid : Z) (s : isingle) (ts : list tok) : mres :=
  if i_optional s then
    match ts with
    | TNone :: r => Some ([mkMeta pid false false], r)   (* an absent optional account is the program id, read-only *)
    | TSome :: r => single_plain s r
    | _ => None
    end
  else single_plain s ts.

Fixpoint frep (fuel : nat) (f : list tok -> mres) (n : Z) (ts : list tok) {struct fuel} : mres :=
  if n <=? 0 then Some ([], ts) else
  match fuel with
  | O => None
  | S k =>
      match f ts with
      | Some (m, r1) => match frep k f (n - 1) r1 with Some (ms, r2) => Some (m ++ ms, r2) | None => None end
      | None => None
      end
  end.

Fixpoint fseq (fs : list (list tok -> mres)) (ts : list tok) : mres :=
  match fs with
  | [] => Some ([], ts)
  | f :: r =>
      match f ts with
      | Some (m, r1) => match fseq r r1 with Some (ms, r2) => Some (m ++ ms, r2) | None => None end
      | None => None
      end
  end.

Fixpoint flatten (fuel : nat) (pid : Z) (t : list (list Z * iaset)) (i : iaset) (ts : list tok) {struct fuel} : mres :=
  match fuel with
  | O => None
  | S f =>
      let fl := flatten f pid t in
      match i with
      | IADefined k => match lookup k t with Some d => fl d ts | None => None end
      | ISingle s => single_toks pid s ts
      | IAStruct fs => fseq (map fl fs) ts
      | IMany a mn mx =>
          match ts with
          | TLen n :: r =>
              if (mn <=? n) && (match mx with Some m => n <=? m | None => true end) then frep f (fl a) n r else None
          | _ => None
          end
      | IOr [a; alt] =>
          match ts with
          | TNone :: r =>
              match alt with
              | IAStruct [] => Some ([], r)
              | ISingle s => match i_addr s with Some k => Some ([mkMeta k (i_signer s) (i_writable s)], r) | None => None end
              | _ => None
              end
          | TSome :: r => fl a r
          | _ => None
          end
      | IOr _ => None
      end
  end.

(* ---------------------------------------------------------------------------------------------- *)
(* the Codama lowering of an instruction's account set (codama.rs 290-374): the account nodes in order and
   the remaining-accounts nodes; None = the lowering returns an error                               *)
Definition cres := option (list isingle * list isingle).

Fixpoint lower_fields (lf : iaset -> cres) (fs : list iaset) (accs rems : list isingle) : cres :=
  match fs with
  | [] => Some (accs, rems)
  | g :: r =>
      match lf g with
      | Some (a1, r1) =>
          match rems, a1 with
          | _ :: _, _ :: _ => None       (* ManyAccountSetsMustComeLast 347-349 *)
          | _, _ => lower_fields lf r (accs ++ a1) (rems ++ r1)
          end
      | None => None
      end
  end.

Fixpoint lower (fuel : nat) (t : list (list Z * iaset)) (field : bool) (i : iaset) {struct fuel} : cres :=
  match fuel with
  | O => None
  | S f =>
      match i with
      | IADefined k =>                              (* both impls: get_defined, then the *definition* impl *)
          match lookup k t with Some d => lower f t false d | None => None end
      | ISingle s => if field then Some ([s], []) else None       (* 358-362: UnsupportedAccountSetType *)
      | IMany a _ _ =>
          if field then
            match a with
            | ISingle s => match i_addr s with None => Some ([], [s]) | Some _ => None end   (* 263-281 *)
            | _ => None                             (* ManySetsMustBeSingle *)
            end
          else None
      | IAStruct fs => lower_fields (lower f t true) fs [] []
      | IOr _ => None
      end
  end.

(* every Single leaf in declaration order (a Many contributes its element once) *)
Fixpoint singles_fields (sf : iaset -> option (list isingle)) (fs : list iaset) : option (list isingle) :=
  match fs with
  | [] => Some []
  | g :: r => match sf g, singles_fields sf r with Some a, Some b => Some (a ++ b) | _, _ => None end
  end.

Fixpoint singles (fuel : nat) (t : list (list Z * iaset)) (i : iaset) {struct fuel} : option (list isingle) :=
  match fuel with
  | O => None
  | S f =>
      match i with
      | IADefined k => match lookup k t with Some d => singles f t d | None => None end
      | ISingle s => Some [s]
      | IMany a _ _ => singles f t a
      | IAStruct fs => singles_fields (singles f t) fs
      | IOr _ => None
      end
  end.

(* discriminant_to_usize (codama.rs 631-640); `bits` = the shipped guard `len * 8 > size_of::<usize>()` *)
Definition discriminant_to_usize (bits : bool) (bs : list Z) : option Z :=
  if (if bits then zlen bs * 8 else zlen bs) >? 8 then None
  else Some (le_decode (bs ++ repeat 0 (8 - length bs))).

(* ---------------------------------------------------------------------------------------------- *)
(* integer codecs of the runner                                                                     *)
Fixpoint dec_aset (fuel : nat) (l : list Z) : option (aset * list Z) :=
  match fuel with
  | O => None
  | S f =>
      match l with
      | 0 :: r => Some (AInfo, r)
      | 1 :: m :: r => match dec_aset f r with Some (a, r1) => Some (AMaybeMut (negb (m =? 0)) a, r1) | None => None end
      | 2 :: m :: r => match dec_aset f r with Some (a, r1) => Some (AMaybeSigner (negb (m =? 0)) a, r1) | None => None end
      | 3 :: r => match dec_aset f r with Some (a, r1) => Some (AInit a, r1) | None => None end
      | 4 :: r => if zlen r <? 32 then None else Some (AAddr (le_decode (ztake 32 r)), zdrop 32 r)
      | 5 :: r => match dec_aset f r with Some (a, r1) => Some (AOpt a, r1) | None => None end
      | 6 :: r => match dec_aset f r with Some (a, r1) => Some (AVec a, r1) | None => None end
      | 7 :: n :: r => match dec_aset f r with Some (a, r1) => Some (AArr (Z.to_nat n) a, r1) | None => None end
      | 8 :: name :: ng :: r =>
          if (ng <? 0) || (zlen r <? ng) then None else
          match zdrop ng r with
          | nf :: r1 =>
              match
                (fix go (k : nat) (l : list Z) : option (list aset * list Z) :=
                   match k with
                   | O => Some ([], l)
                   | S k' =>
                       match dec_aset f l with
                       | Some (a, l1) => match go k' l1 with Some (as_, l2) => Some (a :: as_, l2) | None => None end
                       | None => None
                       end
                   end) (Z.to_nat nf) r1
              with Some (fs, l') => Some (AStruct name (ztake ng r) fs, l') | None => None end
          | [] => None
          end
      | _ => None
      end
  end.

(* tokens: 0 k | 1 | 2 | 3 n *)
Fixpoint dec_toks (fuel : nat) (l : list Z) : option (list tok) :=
  match fuel with
  | O => None
  | S f =>
      match l with
      | [] => Some []
      | 0 :: k :: r => match dec_toks f r with Some ts => Some (TK k :: ts) | None => None end
      | 1 :: r => match dec_toks f r with Some ts => Some (TNone :: ts) | None => None end
      | 2 :: r => match dec_toks f r with Some ts => Some (TSome :: ts) | None => None end
      | 3 :: n :: r => match dec_toks f r with Some ts => Some (TLen n :: ts) | None => None end
      | _ => None
      end
  end.

(* iaset: 0 sg wr opt init (0 | 1 addr) | 1 n key.. | 2 n fields | 3 mn (0 | 1 mx) a | 4 n alts *)
Fixpoint dec_iaset (fuel : nat) (l : list Z) : option (iaset * list Z) :=
  match fuel with
  | O => None
  | S f =>
      let many (n : Z) (l : list Z) :=
        (fix go (k : nat) (l : list Z) : option (list iaset * list Z) :=
           match k with
           | O => Some ([], l)
           | S k' =>
               match dec_iaset f l with
               | Some (c, l1) => match go k' l1 with Some (cs, l2) => Some (c :: cs, l2) | None => None end
               | None => None
               end
           end) (Z.to_nat n) l in
      let b (x : Z) := negb (x =? 0) in
      match l with
      | 0 :: sg :: wr :: op :: ini :: 0 :: r => Some (ISingle (mkSingle (b sg) (b wr) (b op) (b ini) None), r)
      | 0 :: sg :: wr :: op :: ini :: 1 :: a :: r => Some (ISingle (mkSingle (b sg) (b wr) (b op) (b ini) (Some a)), r)
      | 1 :: n :: r => if (n <? 0) || (zlen r <? n) then None else Some (IADefined (ztake n r), zdrop n r)
      | 2 :: n :: r => match many n r with Some (cs, r1) => Some (IAStruct cs, r1) | None => None end
      | 3 :: mn :: 0 :: r => match dec_iaset f r with Some (a, r1) => Some (IMany a mn None, r1) | None => None end
      | 3 :: mn :: 1 :: mx :: r => match dec_iaset f r with Some (a, r1) => Some (IMany a mn (Some mx), r1) | None => None end
      | 4 :: n :: r => match many n r with Some (cs, r1) => Some (IOr cs, r1) | None => None end
      | _ => None
      end
  end.

Definition bz (x : bool) : Z := if x then 1 else 0.

Definition enc_single (s : isingle) : list Z :=
  [bz (i_signer s); bz (i_writable s); bz (i_optional s); bz (i_init s)] ++
  match i_addr s with None => [0] | Some a => [1; a] end.

Fixpoint enc_iaset (i : iaset) : list Z :=
  match i with
  | ISingle s => 0 :: enc_single s
  | IADefined k => 1 :: zlen k :: k
  | IAStruct fs => 2 :: zlen fs :: concat (map enc_iaset fs)
  | IMany a mn mx => 3 :: mn :: match mx with None => [0] | Some m => [1; m] end ++ enc_iaset a
  | IOr l => 4 :: zlen l :: concat (map enc_iaset l)
  end.

Definition enc_metas (o : mres) : list Z :=
  match o with
  | Some (ms, []) => 0 :: zlen ms :: concat (map (fun m => [m_key m; bz (m_signer m); bz (m_writable m)]) ms)
  | Some (ms, _ :: _) => [2]                       (* choices left over *)
  | None => [1]
  end.

Definition dec_cfg (l : list Z) : option (cfg * list Z) :=
  match l with
  | a :: b :: c :: d :: r => Some (mkCfg (negb (a =? 0)) (negb (b =? 0)) (negb (c =? 0)) (negb (d =? 0)), r)
  | _ => None
  end.

(* the table: n (klen key.. def)* *)
Fixpoint dec_table (k : nat) (l : list Z) : option (list (list Z * iaset) * list Z) :=
  match k with
  | O => Some ([], l)
  | S k' =>
      match l with
      | n :: r =>
          if (n <? 0) || (zlen r <? n) then None else
          match dec_iaset (length r) (zdrop n r) with
          | Some (d, r1) => match dec_table k' r1 with Some (t, r2) => Some ((ztake n r, d) :: t, r2) | None => None end
          | None => None
          end
      | [] => None
      end
  end.

Definition AFUEL (l : list Z) : nat := (length l + 100)%nat.

(* c17metas: cfg pid aset tokens -> the client's metas *)
Definition run_c17metas (l : list Z) : list Z :=
  match dec_cfg l with
  | Some (c, pid :: r) =>
      match dec_aset (length r) r with
      | Some (a, r1) =>
          match dec_toks (S (length r1)) r1 with
          | Some ts => enc_metas (client_metas c pid a ts)
          | None => [-1]
          end
      | None => [-1]
      end
  | _ => [-1]
  end.

(* c17idl: cfg pid n asets.. k -> what the emitters say for instruction k of the program: its definition, then the
   program's table with only the first entry of each key kept *)
Fixpoint keep_first (seen : list (list Z)) (t : list (list Z * iaset)) : list (list Z * iaset) :=
  match t with
  | [] => []
  | (k, d) :: r => if existsb (key_eqb k) seen then keep_first seen r else (k, d) :: keep_first (k :: seen) r
  end.

Fixpoint dec_asets (k : nat) (l : list Z) : option (list aset * list Z) :=
  match k with
  | O => Some ([], l)
  | S k' =>
      match dec_aset (length l) l with
      | Some (a, l1) => match dec_asets k' l1 with Some (as_, l2) => Some (a :: as_, l2) | None => None end
      | None => None
      end
  end.

Definition run_c17idl (l : list Z) : list Z :=
  match dec_cfg l with
  | Some (c, pid :: n :: r) =>
      match dec_asets (Z.to_nat n) r with
      | Some (ixs, [k]) =>
          match nth_error ixs (Z.to_nat k) with
          | Some a =>
              let t := keep_first [] (program_defs c pid ixs) in
              enc_iaset (idl_of c pid a) ++ zlen t :: concat (map (fun kd => zlen (fst kd) :: fst kd ++ enc_iaset (snd kd)) t)
          | None => [-1]
          end
      | _ => [-1]
      end
  | _ => [-1]
  end.

(* c17flat: pid ntable table.. iaset tokens -> what an IDL-following client sends *)
Definition run_c17flat (l : list Z) : list Z :=
  match l with
  | pid :: n :: r =>
      match dec_table (Z.to_nat n) r with
      | Some (t, r1) =>
          match dec_iaset (length r1) r1 with
          | Some (i, r2) =>
              match dec_toks (S (length r2)) r2 with
              | Some ts => enc_metas (flatten (AFUEL l) pid t i ts)
              | None => [-1]
              end
          | None => [-1]
          end
      | None => [-1]
      end
  | _ => [-1]
  end.

(* c17lower: ntable table.. iaset -> 0 naccs accs.. nrems rems.. | 1 *)
Definition run_c17lower (l : list Z) : list Z :=
  match l with
  | n :: r =>
      match dec_table (Z.to_nat n) r with
      | Some (t, r1) =>
          match dec_iaset (length r1) r1 with
          | Some (i, []) =>
              match lower (AFUEL l) t false i with
              | Some (accs, rems) =>
                  0 :: zlen accs :: concat (map enc_single accs) ++ zlen rems :: concat (map enc_single rems)
              | None => [1]
              end
          | _ => [-1]
          end
      | None => [-1]
      end
  | _ => [-1]
  end.

(* c17disc: bits n bytes.. -> 0 value | 1 *)
Definition run_c17disc (l : list Z) : list Z :=
  match l with
  | bits :: r => match discriminant_to_usize (negb (bits =? 0)) r with Some n => [0; n] | None => [1] end
  | [] => [-1]
  end.
