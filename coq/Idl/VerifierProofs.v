(* C18 - proofs: the transcribed verifier (Verifier.v) decides exactly the declarative specification
   (VerifierSpec.v), reports only rules that are violated, and does not depend on the order of the definitions. *)
From Coq Require Import Permutation.
From SF Require Import Base.Prelude Gen.Gen_c18 Idl.IdlTypes Idl.Verifier Idl.VerifierSpec.

(* a new / renumbered rule in the Rust source changes this list and breaks the build here *)
Lemma rule_ids_pinned : map snd RULE_IDS = [1; 2; 3; 4; 5; 6; 7; 8; 9; 10; 11].
Proof. reflexivity. Qed.

(* ---------------------------------------------------------------------------------------------- *)
(* names, lookup *)
Lemma name_eqb_eq a b : name_eqb a b = true <-> a = b.
Proof.
  revert b; induction a as [|x a IH]; intros [|y b]; cbn [name_eqb]; split; intros H; try easy.
  - apply andb_true_iff in H as [H1 H2]. apply Z.eqb_eq in H1. apply IH in H2. now subst.
  - inversion H; subst. apply andb_true_iff; split; [apply Z.eqb_refl | now apply IH].
Qed.

Lemma name_eqb_refl a : name_eqb a a = true.
Proof. now apply name_eqb_eq. Qed.

Lemma name_eqb_neq a b : name_eqb a b = false <-> a <> b.
Proof.
  split; intros H.
  - intros E. apply name_eqb_eq in E. congruence.
  - destruct (name_eqb a b) eqn:E; [|reflexivity]. apply name_eqb_eq in E. contradiction.
Qed.

Lemma is_nil_true {A} (l : list A) : is_nil l = true <-> l = [].
Proof. destruct l; cbn; split; congruence. Qed.

Lemma contains_key_true {A} k (m : list (name * A)) : contains_key k m = true <-> exists v, lookup k m = Some v.
Proof.
  unfold contains_key. destruct (lookup k m) as [v|]; split; intros H; try easy.
  - now exists v.
  - now destruct H.
Qed.

Lemma contains_key_false {A} k (m : list (name * A)) : contains_key k m = false <-> lookup k m = None.
Proof. unfold contains_key. destruct (lookup k m); split; congruence. Qed.

(* ---------------------------------------------------------------------------------------------- *)
(* all_ok *)
Definition total {A} (x : out A) : Prop := (exists a, x = Ok a) \/ (exists r, x = Err r).

Lemma unit_ok (x : out unit) a : x = Ok a <-> x = Ok tt.
Proof. now destruct a. Qed.

Section AllOkFacts.
  Context {A : Type}.
  Implicit Types (f g : A -> out unit) (l : list A).

  Lemma all_ok_app f l1 l2 : all_ok f (l1 ++ l2) = (do _ <- all_ok f l1; all_ok f l2).
  Proof.
    induction l1 as [|x l1 IH]; cbn [all_ok app obind]; [reflexivity|].
    destruct (f x); cbn [obind]; auto.
  Qed.

  Lemma all_ok_ext f g l : Forall (fun x => f x = g x) l -> all_ok f l = all_ok g l.
  Proof.
    induction 1 as [|x l Hx _ IH]; cbn [all_ok]; [reflexivity|]. now rewrite Hx, IH.
  Qed.

  Lemma all_ok_ok f l : all_ok f l = Ok tt <-> (forall x, In x l -> f x = Ok tt).
  Proof.
    induction l as [|x l IH]; cbn [all_ok In].
    - split; [intros _ y []|reflexivity].
    - destruct (f x) as [[]| | |] eqn:E; cbn [obind].
      + rewrite IH. split.
        * intros H y [<-|Hy]; auto.
        * intros H y Hy. apply H. now right.
      + split; [discriminate|]. intros H. specialize (H x (or_introl eq_refl)). congruence.
      + split; [discriminate|]. intros H. specialize (H x (or_introl eq_refl)). congruence.
      + split; [discriminate|]. intros H. specialize (H x (or_introl eq_refl)). congruence.
  Qed.

  Lemma all_ok_err f l r : all_ok f l = Err r -> exists x, In x l /\ f x = Err r.
  Proof.
    induction l as [|x l IH]; cbn [all_ok In]; [discriminate|].
    destruct (f x) as [[]| | |] eqn:E; cbn [obind]; intros H; try discriminate.
    - destruct (IH H) as (y & Hy & Ey). exists y. auto.
    - inversion H; subst. exists x. auto.
  Qed.

  Lemma all_ok_total f l : (forall x, In x l -> total (f x)) -> total (all_ok f l).
  Proof.
    induction l as [|x l IH]; cbn [all_ok In]; intros H.
    - left. now exists tt.
    - destruct (H x (or_introl eq_refl)) as [[a E]|[r E]]; rewrite E; cbn [obind].
      + apply IH. intros y Hy. apply H. now right.
      + right. now exists r.
  Qed.
End AllOkFacts.

Lemma all_ok_flat_map {A B} (f : B -> out unit) (g : A -> list B) (l : list A) :
  all_ok f (flat_map g l) = all_ok (fun x => all_ok f (g x)) l.
Proof.
  induction l as [|x l IH]; cbn [flat_map all_ok]; [reflexivity|].
  now rewrite all_ok_app, IH.
Qed.

Lemma all_ok_map {A B} (f : B -> out unit) (g : A -> B) (l : list A) :
  all_ok f (map g l) = all_ok (fun x => f (g x)) l.
Proof.
  induction l as [|x l IH]; cbn [map all_ok]; [reflexivity|]. now rewrite IH.
Qed.

Lemma obind_total {A B} (x : out A) (f : A -> out B) :
  total x -> (forall a, x = Ok a -> total (f a)) -> total (obind x f).
Proof.
  intros [[a E]|[r E]] H; rewrite E; cbn [obind]; [now apply H|]. right. now exists r.
Qed.

(* ---------------------------------------------------------------------------------------------- *)
(* the verifier visits exactly the positions of the specification, in order, applying `check_pos`   *)
Definition check_pos (cur : idl_def) (idx : index) (mode : vmode) (p : pos) : out unit :=
  match p with
  | PType src ns arity => check_type_ref cur idx mode src ns arity
  | PSet src targs aargs => check_set_ref cur src targs aargs
  | PAccount src ns => verify_account_id cur idx mode (mkAccountId ns src)
  | PMany mn mx => check_many mn mx
  | POr n => match n with O => Err RULE_EMPTY_OR | S _ => Ok tt end
  end.

Section Walk.
  Variable cur : idl_def.
  Variable idx : index.
  Variable mode : vmode.
  Notation chk := (check_pos cur idx mode).

  Lemma verify_type_def_walk t : verify_type_def cur idx mode t = all_ok chk (ty_positions t).
  Proof.
    induction t as [k|g|src ns gens IH|t f IH|t f IH|a b IHa IHb|a b c IHa IHb IHc|a b IHa IHb|a b c IHa IHb IHc
                    |t n IH|fs IH|s vs IHs IHv] using tydef_ind';
      cbn [verify_type_def ty_positions all_ok]; auto.
    - rewrite all_ok_flat_map. cbn [check_pos].
      destruct (check_type_ref cur idx mode src ns (length gens)); cbn [obind]; auto.
      now apply all_ok_ext.
    - now rewrite all_ok_app, IHa, IHb.
    - now rewrite !all_ok_app, IHa, IHb, IHc.
    - now rewrite all_ok_app, IHa, IHb.
    - now rewrite !all_ok_app, IHa, IHb, IHc.
    - rewrite all_ok_flat_map. now apply all_ok_ext.
    - rewrite all_ok_app, all_ok_flat_map, IHs.
      destruct (all_ok chk (ty_positions s)); cbn [obind]; auto.
      apply all_ok_ext. eapply Forall_impl; [|exact IHv].
      intros [t|] H; cbn [verify_opt opt_positions optP all_ok] in *; auto.
  Qed.

  Lemma verify_type_id_walk id : verify_type_id cur idx mode id = all_ok chk (type_id_positions id).
  Proof.
    unfold verify_type_id, type_id_positions. cbn [all_ok check_pos].
    rewrite all_ok_flat_map.
    destruct (check_type_ref cur idx mode (ti_src id) (ti_ns id) (length (ti_gens id))); cbn [obind]; auto.
    apply all_ok_ext. apply Forall_forall. intros t _. apply verify_type_def_walk.
  Qed.

  Lemma verify_account_set_def_walk a : verify_account_set_def cur idx mode a = all_ok chk (as_positions a).
  Proof.
    induction a as [src tg ag IH|pa|fs IH|a mn mx IH|bs IH] using asdef_ind';
      cbn [verify_account_set_def as_positions all_ok].
    - cbn [check_pos]. destruct (check_set_ref cur src (length tg) (length ag)); cbn [obind]; auto.
      rewrite all_ok_app, !all_ok_flat_map.
      rewrite (all_ok_ext (verify_type_def cur idx mode) (fun t => all_ok chk (ty_positions t)))
        by (apply Forall_forall; intros t _; apply verify_type_def_walk).
      destruct (all_ok (fun t => all_ok chk (ty_positions t)) tg); cbn [obind]; auto.
      now apply all_ok_ext.
    - rewrite all_ok_map. apply all_ok_ext. apply Forall_forall. intros [ns src] _. reflexivity.
    - rewrite all_ok_flat_map. now apply all_ok_ext.
    - cbn [check_pos]. now rewrite IH.
    - rewrite all_ok_flat_map. cbn [check_pos].
      destruct bs as [|b bs]; cbn [is_nil length obind]; auto.
      now apply all_ok_ext.
  Qed.

  Lemma verify_account_walk a : verify_account cur idx mode a = all_ok chk (account_positions a).
  Proof.
    unfold verify_account, account_positions. rewrite all_ok_app, verify_type_id_walk.
    destruct (all_ok chk (type_id_positions (a_type_id a))); cbn [obind]; auto.
    destruct (a_seeds a) as [seeds|]; cbn [all_ok]; auto.
    rewrite all_ok_flat_map. apply all_ok_ext. apply Forall_forall. intros [bs|ty] _; cbn [verify_seed seed_positions all_ok]; auto.
    apply verify_type_def_walk.
  Qed.

  Lemma verify_instruction_walk i : verify_instruction cur idx mode i = all_ok chk (instruction_positions i).
  Proof.
    unfold verify_instruction, instruction_positions.
    now rewrite all_ok_app, verify_type_id_walk, verify_account_set_def_walk.
  Qed.

  Lemma verify_definition_walk : verify_definition cur idx mode = all_ok chk (def_positions cur).
  Proof.
    unfold verify_definition, def_positions.
    rewrite (all_ok_ext (fun kv => verify_type_def cur idx mode (t_def (snd kv)))
                        (fun kv => all_ok chk (ty_positions (t_def (snd kv)))))
      by (apply Forall_forall; intros; apply verify_type_def_walk).
    rewrite (all_ok_ext (fun kv => verify_account_set_def cur idx mode (s_def (snd kv)))
                        (fun kv => all_ok chk (as_positions (s_def (snd kv)))))
      by (apply Forall_forall; intros; apply verify_account_set_def_walk).
    rewrite (all_ok_ext (fun kv => verify_account cur idx mode (snd kv))
                        (fun kv => all_ok chk (account_positions (snd kv))))
      by (apply Forall_forall; intros; apply verify_account_walk).
    rewrite (all_ok_ext (fun kv => verify_instruction cur idx mode (snd kv))
                        (fun kv => all_ok chk (instruction_positions (snd kv))))
      by (apply Forall_forall; intros; apply verify_instruction_walk).
    rewrite !all_ok_app, !all_ok_flat_map, !all_ok_app.
    destruct (all_ok (fun kv => all_ok chk (ty_positions (t_def (snd kv)))) (d_types cur)); cbn [obind]; auto.
  Qed.
End Walk.

(* ---------------------------------------------------------------------------------------------- *)
(* the namespace index *)
Definition idx_of (l : list idl_def) : index := map (fun d => (ns_of d, d)) l.

Lemma lookup_idx_of_in ns l d : lookup ns (idx_of l) = Some d -> In d l /\ ns_of d = ns.
Proof.
  induction l as [|x l IH]; cbn [idx_of map lookup]; [discriminate|].
  destruct (name_eqb ns (ns_of x)) eqn:E.
  - intros H; inversion H; subst. apply name_eqb_eq in E. split; [now left|auto].
  - intros H. destruct (IH H). split; [now right|auto].
Qed.

Lemma lookup_idx_of_none ns l : lookup ns (idx_of l) = None <-> ~ In ns (map ns_of l).
Proof.
  induction l as [|x l IH]; cbn [idx_of map lookup In]; [tauto|].
  destruct (name_eqb ns (ns_of x)) eqn:E.
  - apply name_eqb_eq in E. split; [discriminate|]. intros H. exfalso. apply H. now left.
  - apply name_eqb_neq in E. fold (idx_of l). rewrite IH. split; [intros H [H1|H1]; auto|tauto].
Qed.

Lemma lookup_idx_of_some ns l d :
  NoDup (map ns_of l) -> In d l -> ns_of d = ns -> lookup ns (idx_of l) = Some d.
Proof.
  induction l as [|x l IH]; cbn [idx_of map lookup In]; intros ND Hin Hns; [easy|].
  inversion ND as [|? ? Hnotin ND']; subst.
  destruct Hin as [->|Hin].
  - now rewrite name_eqb_refl.
  - destruct (name_eqb (ns_of d) (ns_of x)) eqn:E.
    + apply name_eqb_eq in E. exfalso. apply Hnotin. rewrite <- E. now apply in_map.
    + now apply IH.
Qed.

Lemma build_index_ok defs : forall s idx,
  NoDup (map ns_of s) ->
  build_index defs (idx_of s) = Ok idx ->
  idx = idx_of (rev defs ++ s) /\ (forall d, In d defs -> ns_of d <> []) /\ NoDup (map ns_of (rev defs ++ s)).
Proof.
  induction defs as [|d r IH]; intros s idx ND; cbn [build_index rev app].
  - intros H; inversion H; subst. repeat split; auto.
  - fold (ns_of d). destruct (is_nil (ns_of d)) eqn:En; [discriminate|].
    destruct (contains_key (ns_of d) (idx_of s)) eqn:Ec; [discriminate|].
    apply contains_key_false, lookup_idx_of_none in Ec.
    intros H. change ((ns_of d, d) :: idx_of s) with (idx_of (d :: s)) in H.
    apply IH in H; [|cbn [map]; now constructor].
    destruct H as (-> & Hne & ND'). rewrite <- app_assoc. cbn [app].
    repeat split; auto.
    intros x [<-|Hx]; auto. intros E. apply is_nil_true in E. congruence.
Qed.

Lemma build_index_err defs : forall s r,
  build_index defs (idx_of s) = Err r ->
  (r = RULE_EMPTY_NAMESPACE /\ exists d, In d defs /\ ns_of d = []) \/
  (r = RULE_DUPLICATE_NAMESPACE /\ ~ NoDup (map ns_of (rev defs ++ s))).
Proof.
  induction defs as [|d r0 IH]; intros s r; cbn [build_index rev app]; [discriminate|].
  fold (ns_of d). destruct (is_nil (ns_of d)) eqn:En.
  - intros H; inversion H; subst. left. split; auto. exists d. split; [now left|now apply is_nil_true].
  - destruct (contains_key (ns_of d) (idx_of s)) eqn:Ec.
    + intros H; inversion H; subst. right. split; auto.
      rewrite <- app_assoc. cbn [app]. rewrite map_app. cbn [map].
      intros ND. apply NoDup_remove_2 in ND. apply ND. apply in_or_app. right.
      destruct (lookup (ns_of d) (idx_of s)) eqn:El.
      * apply lookup_idx_of_in in El as [Hin Hns]. rewrite <- Hns. now apply in_map.
      * apply contains_key_false in El. congruence.
    + intros H. change ((ns_of d, d) :: idx_of s) with (idx_of (d :: s)) in H.
      apply IH in H as [[-> (x & Hx & Ex)]|[-> ND]].
      * left. split; auto. exists x. split; [now right|auto].
      * right. split; auto. now rewrite <- app_assoc.
Qed.

Lemma build_index_total defs : forall acc, total (build_index defs acc).
Proof.
  induction defs as [|d r IH]; intros acc; cbn [build_index].
  - left. now exists acc.
  - destruct (is_nil (trim (d_name d))); [right; eauto|].
    destruct (contains_key (trim (d_name d)) acc); [right; eauto|]. apply IH.
Qed.

(* what the rest of the proof needs to know about the index *)
Definition index_for (defs : list idl_def) (idx : index) : Prop :=
  forall ns d, by_namespace idx ns = Some d <-> provides defs ns d.

Lemma NoDup_map_rev {A B} (f : A -> B) (l : list A) : NoDup (map f (rev l)) <-> NoDup (map f l).
Proof.
  rewrite map_rev. split; intros H.
  - eapply Permutation_NoDup; [|exact H]. apply Permutation_sym, Permutation_rev.
  - eapply Permutation_NoDup; [|exact H]. apply Permutation_rev.
Qed.

Lemma build_index_for defs idx :
  build_index defs [] = Ok idx ->
  index_for defs idx /\ (forall d, In d defs -> ns_of d <> []) /\ NoDup (map ns_of defs).
Proof.
  intros H. apply (build_index_ok defs [] idx) in H; [|constructor].
  rewrite app_nil_r in H. destruct H as (-> & Hne & ND).
  split; [|split; auto; now apply NoDup_map_rev].
  intros ns d. unfold by_namespace, provides. split.
  - intros H. apply lookup_idx_of_in in H as [Hin Hns]. split; auto. now apply in_rev.
  - intros [Hin Hns]. apply lookup_idx_of_some; auto. now apply in_rev in Hin.
Qed.

Lemma index_for_none defs idx ns : index_for defs idx -> by_namespace idx ns = None -> ~ ns_provided defs ns.
Proof. intros HI H [d Hd]. apply HI in Hd. congruence. Qed.

Lemma index_for_some defs idx ns d : index_for defs idx -> by_namespace idx ns = Some d -> ns_provided defs ns.
Proof. intros HI H. exists d. now apply HI. Qed.

Lemma provides_unique defs idx ns d d' :
  index_for defs idx -> provides defs ns d -> provides defs ns d' -> d = d'.
Proof. intros HI H H'. apply HI in H, H'. congruence. Qed.

(* ---------------------------------------------------------------------------------------------- *)
(* one position: the check succeeds iff the position is sound; its error names a violated rule      *)
Section Pos.
  Variable defs : list idl_def.
  Variable idx : index.
  Hypothesis HI : index_for defs idx.
  Variable mode : vmode.
  Variable cur : idl_def.

  Ltac prov :=
    repeat match goal with
    | H : provides defs _ _ |- _ => apply HI in H
    | H : ns_provided defs _ |- _ => destruct H as [? H]
    end.

  Lemma resolve_type_ok src ns t :
    resolve_type cur idx mode src ns = Ok t <-> resolves_type mode defs cur src ns t.
  Proof.
    unfold resolve_type, require_namespace.
    destruct ns as [n|]; [destruct mode|]; destruct (get_type cur src) as [t0|] eqn:Eg;
      try (destruct (by_namespace idx n) as [d|] eqn:Eb; [destruct (get_type d src) as [t1|] eqn:Ed|]);
      cbn [obind is_compat is_none andb]; rewrite ?Ed; (split; [intros H; inversion H; subst|intros H; inversion H; subst; prov; try congruence]).
    all: try (now constructor).
    all: try (eapply RT_compat_namespace; eauto; now apply HI).
    all: try (eapply RT_strict; eauto; now apply HI).
  Qed.

  Lemma resolve_type_err src ns r :
    resolve_type cur idx mode src ns = Err r ->
    (forall t, ~ resolves_type mode defs cur src ns t) /\
    ((r = RULE_MISSING_NAMESPACE /\ exists n, ns = Some n /\ ~ ns_provided defs n) \/
     (r = RULE_MISSING_TYPE /\ forall n, ns = Some n -> ns_provided defs n)).
  Proof.
    intros H. split.
    - intros t Ht. apply resolve_type_ok in Ht. congruence.
    - revert H. unfold resolve_type, require_namespace.
      destruct ns as [n|]; [destruct mode|]; destruct (get_type cur src) as [t0|] eqn:Eg;
        try (destruct (by_namespace idx n) as [d|] eqn:Eb; [destruct (get_type d src) as [t1|] eqn:Ed|]);
        cbn [obind is_compat is_none andb]; rewrite ?Ed; intros H; inversion H; subst.
      all: try (right; split; [reflexivity|]; intros n' Hn'; inversion Hn'; subst; eapply index_for_some; eauto).
      all: try (left; split; [reflexivity|]; exists n; split; [reflexivity|]; eapply index_for_none; eauto).
      all: try (right; split; [reflexivity|]; intros n' Hn'; discriminate).
  Qed.

  Lemma resolve_type_total src ns : total (resolve_type cur idx mode src ns).
  Proof.
    unfold resolve_type, require_namespace.
    destruct ns as [n|]; [destruct mode|]; destruct (get_type cur src) as [t0|];
      try (destruct (by_namespace idx n) as [d|]; [destruct (get_type d src) as [t1|] eqn:Ed|]);
      cbn [obind is_compat is_none andb]; rewrite ?Ed; (left; eexists; reflexivity) || (right; eexists; reflexivity).
  Qed.

  Lemma has_account_key d src : contains_key src (d_accounts d) = true <-> has_account d src.
  Proof. apply contains_key_true. Qed.

  Lemma has_account_nokey d src : contains_key src (d_accounts d) = false <-> ~ has_account d src.
  Proof.
    rewrite <- has_account_key. destruct (contains_key src (d_accounts d)); split; congruence.
  Qed.

  Lemma verify_account_id_ok src ns :
    verify_account_id cur idx mode (mkAccountId ns src) = Ok tt <-> resolves_account mode defs cur src ns.
  Proof.
    unfold verify_account_id, require_namespace. cbn [ai_src ai_ns].
    destruct ns as [n|]; [destruct mode|]; destruct (contains_key src (d_accounts cur)) eqn:Ec;
      try (destruct (by_namespace idx n) as [d|] eqn:Eb; [destruct (contains_key src (d_accounts d)) eqn:Ed|]);
      cbn [obind is_compat is_none andb orb negb]; rewrite ?Ed;
      (split; [intros H; inversion H; subst|intros H; inversion H; subst; prov; try congruence]).
    all: repeat match goal with
         | H : contains_key _ (d_accounts _) = true |- _ => apply (proj1 (has_account_key _ _)) in H
         | H : contains_key _ (d_accounts _) = false |- _ => apply (proj1 (has_account_nokey _ _)) in H
         end.
    all: try (now constructor).
    all: try (eapply RA_namespace; eauto; now apply HI).
    all: try contradiction.
    all: try (match goal with
              | H1 : by_namespace idx ?n = Some ?a, H2 : by_namespace idx ?n = Some ?b |- _ =>
                  rewrite H1 in H2; inversion H2; subst; contradiction
              end).
  Qed.

  Lemma verify_account_id_err src ns r :
    verify_account_id cur idx mode (mkAccountId ns src) = Err r ->
    ~ resolves_account mode defs cur src ns /\
    ((r = RULE_MISSING_NAMESPACE /\ exists n, ns = Some n /\ ~ ns_provided defs n) \/
     (r = RULE_MISSING_ACCOUNT /\ forall n, ns = Some n -> ns_provided defs n)).
  Proof.
    intros H. split.
    - intros Hr. apply verify_account_id_ok in Hr. congruence.
    - revert H. unfold verify_account_id, require_namespace. cbn [ai_src ai_ns].
      destruct ns as [n|]; [destruct mode|]; destruct (contains_key src (d_accounts cur)) eqn:Ec;
        try (destruct (by_namespace idx n) as [d|] eqn:Eb; [destruct (contains_key src (d_accounts d)) eqn:Ed|]);
        cbn [obind is_compat is_none andb orb negb]; rewrite ?Ed; intros H; inversion H; subst.
      all: try (right; split; [reflexivity|]; intros n' Hn'; inversion Hn'; subst; eapply index_for_some; eauto).
      all: try (left; split; [reflexivity|]; exists n; split; [reflexivity|]; eapply index_for_none; eauto).
      all: try (right; split; [reflexivity|]; intros n' Hn'; discriminate).
  Qed.

  Lemma verify_account_id_total id : total (verify_account_id cur idx mode id).
  Proof.
    unfold verify_account_id, require_namespace. destruct id as [ns src]. cbn [ai_src ai_ns].
    destruct ns as [n|]; [destruct mode|]; destruct (contains_key src (d_accounts cur));
      try (destruct (by_namespace idx n) as [d|]; [destruct (contains_key src (d_accounts d)) eqn:Ed|]);
      cbn [obind is_compat is_none andb orb negb]; rewrite ?Ed; (left; eexists; reflexivity) || (right; eexists; reflexivity).
  Qed.

  Notation chk := (check_pos cur idx mode).

  Lemma check_pos_total p : total (chk p).
  Proof.
    destruct p as [src ns ar|src ta aa|src ns|mn mx|n]; cbn [check_pos].
    - unfold check_type_ref. apply obind_total; [apply resolve_type_total|].
      intros t _. destruct (Nat.eqb ar (length (t_generics t))); [left|right]; eauto.
    - unfold check_set_ref. destruct (lookup src (d_account_sets cur)) as [s|]; [|right; eauto].
      destruct (negb (Nat.eqb ta (length (s_type_generics s)))); [right; eauto|].
      destruct (negb (Nat.eqb aa (length (s_account_generics s)))); [right|left]; eauto.
    - apply verify_account_id_total.
    - unfold check_many. destruct mx as [m|]; [|left; eauto]. destruct (m <? mn); [right|left]; eauto.
    - destruct n; [right|left]; eauto.
  Qed.

  Lemma check_pos_ok p : chk p = Ok tt <-> pos_ok mode defs cur p.
  Proof.
    destruct p as [src ns ar|src ta aa|src ns|mn mx|n]; cbn [check_pos pos_ok].
    - unfold check_type_ref. split.
      + destruct (resolve_type cur idx mode src ns) as [t| | |] eqn:E; cbn [obind]; try discriminate.
        destruct (Nat.eqb ar (length (t_generics t))) eqn:Ea; try discriminate. intros _.
        apply Nat.eqb_eq in Ea. exists t. split; [now apply resolve_type_ok|auto].
      + intros (t & Ht & Ha). apply resolve_type_ok in Ht. rewrite Ht. cbn [obind].
        subst ar. now rewrite Nat.eqb_refl.
    - unfold check_set_ref. split.
      + destruct (lookup src (d_account_sets cur)) as [s|]; try discriminate.
        destruct (Nat.eqb ta (length (s_type_generics s))) eqn:E1; cbn [negb]; try discriminate.
        destruct (Nat.eqb aa (length (s_account_generics s))) eqn:E2; cbn [negb]; try discriminate.
        intros _. apply Nat.eqb_eq in E1, E2. exists s. auto.
      + intros (s & -> & <- & <-). now rewrite !Nat.eqb_refl.
    - apply verify_account_id_ok.
    - unfold check_many. destruct mx as [m|]; [|tauto].
      destruct (m <? mn) eqn:E; zb; split; intros H; try easy; lia.
    - destruct n; split; intros H; try easy; try congruence.
  Qed.

  Lemma check_pos_err p r : chk p = Err r -> pos_violates mode defs cur r p.
  Proof.
    destruct p as [src ns ar|src ta aa|src ns|mn mx|n]; cbn [check_pos].
    - unfold check_type_ref.
      destruct (resolve_type cur idx mode src ns) as [t| | |] eqn:E; cbn [obind]; try discriminate.
      + destruct (Nat.eqb ar (length (t_generics t))) eqn:Ea; try discriminate.
        intros H; inversion H; subst. apply Nat.eqb_neq in Ea.
        eapply V_type_arity; [apply resolve_type_ok; eauto|auto].
      + intros H; inversion H; subst.
        apply resolve_type_err in E as [Hun [[-> (n & -> & Hn)]|[-> Hp]]].
        * now apply V_type_namespace.
        * now apply V_missing_type.
    - unfold check_set_ref.
      destruct (lookup src (d_account_sets cur)) as [s|] eqn:El.
      + destruct (Nat.eqb ta (length (s_type_generics s))) eqn:E1; cbn [negb].
        * destruct (Nat.eqb aa (length (s_account_generics s))) eqn:E2; cbn [negb]; try discriminate.
          intros H; inversion H; subst. apply Nat.eqb_neq in E2. eapply V_set_account_arity; eauto.
        * intros H; inversion H; subst. apply Nat.eqb_neq in E1. eapply V_set_type_arity; eauto.
      + intros H; inversion H; subst. now apply V_missing_set.
    - intros H. apply verify_account_id_err in H as [Hun [[-> (n & -> & Hn)]|[-> Hp]]].
      + now apply V_account_namespace.
      + now apply V_missing_account.
    - unfold check_many. destruct mx as [m|]; try discriminate.
      destruct (m <? mn) eqn:E; try discriminate. intros H; inversion H; subst. zb. now apply V_many.
    - destruct n; try discriminate. intros H; inversion H; subst. apply V_or.
  Qed.
End Pos.

(* ---------------------------------------------------------------------------------------------- *)
(* main theorems *)
Lemma verify_definition_ok defs idx mode d :
  index_for defs idx ->
  (verify_definition d idx mode = Ok tt <-> forall p, In p (def_positions d) -> pos_ok mode defs d p).
Proof.
  intros HI. rewrite verify_definition_walk, all_ok_ok.
  split; intros H p Hp; apply (check_pos_ok defs idx HI); auto.
Qed.

Lemma build_index_err_nil defs r :
  build_index defs [] = Err r ->
  (r = RULE_EMPTY_NAMESPACE /\ exists d, In d defs /\ ns_of d = []) \/
  (r = RULE_DUPLICATE_NAMESPACE /\ ~ NoDup (map ns_of defs)).
Proof.
  intros H. apply (build_index_err defs [] r) in H. rewrite app_nil_r in H.
  destruct H as [H|[-> H]]; [now left|right]. split; auto. intros ND. apply H. now apply NoDup_map_rev.
Qed.

Theorem verify_iff mode defs : verify mode defs = Ok tt <-> Sound mode defs.
Proof.
  unfold verify, Sound. split.
  - destruct (build_index defs []) as [idx| | |] eqn:E; cbn [obind]; try discriminate.
    apply build_index_for in E as (HI & Hne & ND). intros H.
    split; [exact Hne|split; [exact ND|]].
    intros d Hd. apply (verify_definition_ok defs idx mode d HI).
    rewrite all_ok_ok in H. now apply H.
  - intros (Hne & ND & Hpos).
    destruct (build_index_total defs []) as [[idx E]|[r E]].
    + rewrite E. cbn [obind]. apply build_index_for in E as (HI & _ & _).
      apply all_ok_ok. intros d Hd. apply (verify_definition_ok defs idx mode d HI). now apply Hpos.
    + exfalso. apply build_index_err_nil in E as [[_ (d & Hd & Ed)]|[_ Hd]].
      * now apply (Hne d Hd).
      * now apply Hd.
Qed.

Theorem rule_sound mode defs r : verify mode defs = Err r -> Violates r mode defs.
Proof.
  unfold verify, Violates.
  destruct (build_index defs []) as [idx| | |] eqn:E; cbn [obind]; try discriminate.
  - apply build_index_for in E as (HI & _ & _). intros H.
    apply all_ok_err in H as (d & Hd & H). rewrite verify_definition_walk in H.
    apply all_ok_err in H as (p & Hp & H). apply (check_pos_err defs idx HI) in H.
    right. right. exists d, p. auto.
  - intros H; inversion H; subst. apply build_index_err_nil in E as [E|E]; auto.
Qed.

Theorem verify_total mode defs : total (verify mode defs).
Proof.
  unfold verify. apply obind_total; [apply build_index_total|].
  intros idx _. apply all_ok_total. intros d _. rewrite verify_definition_walk.
  apply all_ok_total. intros p _. apply check_pos_total.
Qed.

(* the outcome is Ok or one of the eleven generated rule ids *)
Theorem verify_outcome mode defs :
  verify mode defs = Ok tt \/ exists r, verify mode defs = Err r /\ In r (map snd RULE_IDS).
Proof.
  destruct (verify_total mode defs) as [[[] E]|[r E]]; [now left|right].
  exists r. split; auto. apply rule_sound in E.
  destruct E as [[-> _]|[[-> _]|(d & p & _ & _ & H)]]; [cbn; tauto|cbn; tauto|].
  destruct H; cbn; tauto.
Qed.

(* ---------------------------------------------------------------------------------------------- *)
(* order independence *)
Lemma resolves_type_mono mode defs defs' cur src ns t :
  (forall d, In d defs -> In d defs') ->
  resolves_type mode defs cur src ns t -> resolves_type mode defs' cur src ns t.
Proof.
  intros Hin H. destruct H as [t Hg|n t Hm Hg|n d t Hm Hg [Hd Hn] Hg'|n d t Hm [Hd Hn] Hg'].
  - now apply RT_local.
  - now apply RT_compat_local.
  - eapply RT_compat_namespace; eauto. split; auto.
  - eapply RT_strict; eauto. split; auto.
Qed.

Lemma resolves_account_mono mode defs defs' cur src ns :
  (forall d, In d defs -> In d defs') ->
  resolves_account mode defs cur src ns -> resolves_account mode defs' cur src ns.
Proof.
  intros Hin H. destruct H as [Hh|n Hm Hh|n d [Hd Hn] Hh].
  - now apply RA_local.
  - now apply RA_compat_local.
  - eapply RA_namespace; eauto. split; auto.
Qed.

Lemma pos_ok_mono mode defs defs' cur p :
  (forall d, In d defs -> In d defs') -> pos_ok mode defs cur p -> pos_ok mode defs' cur p.
Proof.
  intros Hin. destruct p as [src ns ar|src ta aa|src ns|mn mx|n]; cbn [pos_ok]; auto.
  - intros (t & Ht & Ha). exists t. split; auto. eapply resolves_type_mono; eauto.
  - apply resolves_account_mono; auto.
Qed.

Lemma Sound_perm mode defs defs' : Permutation defs defs' -> Sound mode defs -> Sound mode defs'.
Proof.
  intros HP (Hne & ND & Hpos). split; [|split].
  - intros d Hd. apply Hne. eapply Permutation_in; [apply Permutation_sym; exact HP|exact Hd].
  - eapply Permutation_NoDup; [apply Permutation_map; exact HP|exact ND].
  - intros d Hd p Hp. apply (pos_ok_mono mode defs defs').
    + intros x. apply Permutation_in. exact HP.
    + apply Hpos; auto. eapply Permutation_in; [apply Permutation_sym; exact HP|exact Hd].
Qed.

Theorem order_independent mode defs defs' :
  Permutation defs defs' -> (verify mode defs = Ok tt <-> verify mode defs' = Ok tt).
Proof.
  intros HP. rewrite !verify_iff. split; apply Sound_perm; auto. now apply Permutation_sym.
Qed.

(* ---------------------------------------------------------------------------------------------- *)
(* sanity of the specification itself: a violated rule really contradicts soundness, and every unsound set
   violates some rule (so `Violates` is neither vacuous nor too generous) *)
Lemma provides_unique_nodup defs n d d' :
  NoDup (map ns_of defs) -> provides defs n d -> provides defs n d' -> d = d'.
Proof.
  intros ND [Hd Hn] [Hd' Hn']. rewrite <- Hn' in Hn. clear Hn'.
  induction defs as [|x l IH]; [easy|].
  cbn [map] in ND. inversion ND as [|? ? Hx ND']; subst.
  destruct Hd as [->|Hd], Hd' as [->|Hd']; auto.
  - exfalso. apply Hx. rewrite Hn. now apply in_map.
  - exfalso. apply Hx. rewrite <- Hn. now apply in_map.
Qed.

Lemma resolves_type_functional mode defs cur src ns t t' :
  NoDup (map ns_of defs) ->
  resolves_type mode defs cur src ns t -> resolves_type mode defs cur src ns t' -> t = t'.
Proof.
  intros ND H H'.
  destruct H as [t Hg|n t Hm Hg|n d t Hm Hg Hp Hg'|n d t Hm Hp Hg']; inversion H'; subst; try congruence.
  - match goal with Hq : provides defs n ?d2 |- _ => assert (d = d2) by (eapply provides_unique_nodup; eauto) end.
    subst. congruence.
  - match goal with Hq : provides defs n ?d2 |- _ => assert (d = d2) by (eapply provides_unique_nodup; eauto) end.
    subst. congruence.
Qed.

Lemma pos_violates_not_ok mode defs cur r p :
  NoDup (map ns_of defs) -> pos_violates mode defs cur r p -> ~ pos_ok mode defs cur p.
Proof.
  intros ND H. destruct H; cbn [pos_ok].
  - intros (t & Ht & _). eapply H; eauto.
  - auto.
  - intros (t & Ht & _). eapply H; eauto.
  - intros (t' & Ht' & Ha). assert (t = t') by (eapply resolves_type_functional; eauto). subst. contradiction.
  - intros (s & Hs & _). congruence.
  - intros (s' & Hs & Ha & _). congruence.
  - intros (s' & Hs & _ & Ha). congruence.
  - auto.
  - lia.
  - congruence.
Qed.

Theorem violates_unsound r mode defs : Violates r mode defs -> ~ Sound mode defs.
Proof.
  intros [[_ (d & Hd & He)]|[[_ Hdup]|(d & p & Hd & Hp & Hv)]] (Hne & ND & Hpos).
  - now apply (Hne d Hd).
  - now apply Hdup.
  - eapply pos_violates_not_ok; eauto.
Qed.

Theorem sound_or_violates mode defs : Sound mode defs \/ exists r, Violates r mode defs.
Proof.
  destruct (verify_total mode defs) as [[[] E]|[r E]].
  - left. now apply verify_iff.
  - right. exists r. now apply rule_sound.
Qed.
