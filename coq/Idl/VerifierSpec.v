(* C18 - what "structurally sound" means, stated declaratively and independently of the verifier's code
   (this file does not import Idl/Verifier.v).

   * `def_positions d` enumerates every position of a definition that the property talks about: every type reference
     (at any depth of a type expression, in types, external types, account type ids and their generic arguments, seed
     types, instruction type ids, generic arguments of account-set references), every account-set reference, every
     account reference of a single account set, every `Many` and every `Or`.
   * `pos_ok mode defs cur p` says when one position is sound; references resolve per mode:
       - no namespace: against the current definition only;
       - namespace n, Compatibility: the current definition's own tables first, otherwise the definition that
         provides n; StrictGraph: only the definition that provides n;
       - a definition provides n when its crate name, trimmed, equals n (the reference's namespace is NOT trimmed:
         that is what the code does, see verifier/mod.rs 52 and 71-73);
       - account-set references have no namespace: current definition only, both modes.
   * `Sound mode defs`: trimmed names non-empty, pairwise distinct, every position of every definition sound.
   * `Violates r mode defs`: rule r is actually violated somewhere. *)
From SF Require Import Base.Prelude Gen.Gen_c18 Idl.IdlTypes.

Inductive pos : Type :=
| PType (src : name) (ns : option name) (arity : nat)        (* IdlTypeId with `arity` provided generics *)
| PSet (src : name) (type_args account_args : nat)           (* IdlAccountSetId *)
| PAccount (src : name) (ns : option name)                   (* IdlAccountId *)
| PMany (mn : Z) (mx : option Z)
| POr (branches : nat).

Definition opt_positions (f : tydef -> list pos) (o : option tydef) : list pos :=
  match o with Some t => f t | None => [] end.

Fixpoint ty_positions (t : tydef) : list pos :=
  match t with
  | TPrim _ | TGeneric _ => []
  | TDefined src ns gens => PType src ns (length gens) :: flat_map ty_positions gens
  | TFixedPoint ty _ => ty_positions ty
  | TOption ty _ => ty_positions ty
  | TList a b => ty_positions a ++ ty_positions b
  | TUnsizedList a b c => ty_positions a ++ ty_positions b ++ ty_positions c
  | TSet a b => ty_positions a ++ ty_positions b
  | TMap a b c => ty_positions a ++ ty_positions b ++ ty_positions c
  | TArray ty _ => ty_positions ty
  | TStruct fields => flat_map ty_positions fields
  | TEnum size variants => ty_positions size ++ flat_map (opt_positions ty_positions) variants
  end.

Definition type_id_positions (id : type_id) : list pos :=
  PType (ti_src id) (ti_ns id) (length (ti_gens id)) :: flat_map ty_positions (ti_gens id).

Definition account_id_position (id : account_id) : pos := PAccount (ai_src id) (ai_ns id).

Fixpoint as_positions (a : asdef) : list pos :=
  match a with
  | ADefined src tgens agens =>
      PSet src (length tgens) (length agens) :: flat_map ty_positions tgens ++ flat_map as_positions agens
  | ASingle accounts => map account_id_position accounts
  | AStruct fields => flat_map as_positions fields
  | AMany set mn mx => PMany mn mx :: as_positions set
  | AOr branches => POr (length branches) :: flat_map as_positions branches
  end.

Definition seed_positions (s : seed) : list pos :=
  match s with SVariable ty => ty_positions ty | SConst _ => [] end.

Definition account_positions (a : idl_account) : list pos :=
  type_id_positions (a_type_id a) ++
  match a_seeds a with Some seeds => flat_map seed_positions seeds | None => [] end.

Definition instruction_positions (i : idl_instruction) : list pos :=
  type_id_positions (i_type_id i) ++ as_positions (i_account_set i).

Definition def_positions (d : idl_def) : list pos :=
  flat_map (fun kv => ty_positions (t_def (snd kv))) (d_types d ++ d_external_types d) ++
  flat_map (fun kv => as_positions (s_def (snd kv))) (d_account_sets d) ++
  flat_map (fun kv => account_positions (snd kv)) (d_accounts d) ++
  flat_map (fun kv => instruction_positions (snd kv)) (d_instructions d).

(* ---------------------------------------------------------------------------------------------- *)
Definition ns_of (d : idl_def) : name := trim (d_name d).

Definition provides (defs : list idl_def) (ns : name) (d : idl_def) : Prop := In d defs /\ ns_of d = ns.
Definition ns_provided (defs : list idl_def) (ns : name) : Prop := exists d, provides defs ns d.

Inductive resolves_type (mode : vmode) (defs : list idl_def) (cur : idl_def) (src : name)
  : option name -> idl_type -> Prop :=
| RT_local t :
    get_type cur src = Some t -> resolves_type mode defs cur src None t
| RT_compat_local n t :
    mode = Compatibility -> get_type cur src = Some t -> resolves_type mode defs cur src (Some n) t
| RT_compat_namespace n d t :
    mode = Compatibility -> get_type cur src = None -> provides defs n d -> get_type d src = Some t ->
    resolves_type mode defs cur src (Some n) t
| RT_strict n d t :
    mode = StrictGraph -> provides defs n d -> get_type d src = Some t ->
    resolves_type mode defs cur src (Some n) t.

Definition has_account (d : idl_def) (src : name) : Prop := exists a, lookup src (d_accounts d) = Some a.

Inductive resolves_account (mode : vmode) (defs : list idl_def) (cur : idl_def) (src : name)
  : option name -> Prop :=
| RA_local : has_account cur src -> resolves_account mode defs cur src None
| RA_compat_local n : mode = Compatibility -> has_account cur src -> resolves_account mode defs cur src (Some n)
| RA_namespace n d : provides defs n d -> has_account d src -> resolves_account mode defs cur src (Some n).

Definition pos_ok (mode : vmode) (defs : list idl_def) (cur : idl_def) (p : pos) : Prop :=
  match p with
  | PType src ns arity =>
      exists t, resolves_type mode defs cur src ns t /\ length (t_generics t) = arity
  | PSet src targs aargs =>
      exists s, lookup src (d_account_sets cur) = Some s /\
                length (s_type_generics s) = targs /\ length (s_account_generics s) = aargs
  | PAccount src ns => resolves_account mode defs cur src ns
  | PMany mn mx => match mx with Some m => mn <= m | None => True end
  | POr branches => branches <> O
  end.

Definition Sound (mode : vmode) (defs : list idl_def) : Prop :=
  (forall d, In d defs -> ns_of d <> []) /\
  NoDup (map ns_of defs) /\
  (forall d, In d defs -> forall p, In p (def_positions d) -> pos_ok mode defs d p).

(* which rule a position violates *)
Inductive pos_violates (mode : vmode) (defs : list idl_def) (cur : idl_def) : Z -> pos -> Prop :=
| V_type_namespace src n arity :
    (forall t, ~ resolves_type mode defs cur src (Some n) t) -> ~ ns_provided defs n ->
    pos_violates mode defs cur RULE_MISSING_NAMESPACE (PType src (Some n) arity)
| V_account_namespace src n :
    ~ resolves_account mode defs cur src (Some n) -> ~ ns_provided defs n ->
    pos_violates mode defs cur RULE_MISSING_NAMESPACE (PAccount src (Some n))
| V_missing_type src ns arity :
    (forall t, ~ resolves_type mode defs cur src ns t) -> (forall n, ns = Some n -> ns_provided defs n) ->
    pos_violates mode defs cur RULE_MISSING_TYPE (PType src ns arity)
| V_type_arity src ns arity t :
    resolves_type mode defs cur src ns t -> length (t_generics t) <> arity ->
    pos_violates mode defs cur RULE_TYPE_GENERIC_ARITY (PType src ns arity)
| V_missing_set src targs aargs :
    lookup src (d_account_sets cur) = None ->
    pos_violates mode defs cur RULE_MISSING_ACCOUNT_SET (PSet src targs aargs)
| V_set_type_arity src targs aargs s :
    lookup src (d_account_sets cur) = Some s -> length (s_type_generics s) <> targs ->
    pos_violates mode defs cur RULE_ACCOUNT_SET_TYPE_ARITY (PSet src targs aargs)
| V_set_account_arity src targs aargs s :
    lookup src (d_account_sets cur) = Some s -> length (s_account_generics s) <> aargs ->
    pos_violates mode defs cur RULE_ACCOUNT_SET_ACCOUNT_ARITY (PSet src targs aargs)
| V_missing_account src ns :
    ~ resolves_account mode defs cur src ns -> (forall n, ns = Some n -> ns_provided defs n) ->
    pos_violates mode defs cur RULE_MISSING_ACCOUNT (PAccount src ns)
| V_many mn mx :
    mx < mn -> pos_violates mode defs cur RULE_MANY_BOUNDS (PMany mn (Some mx))
| V_or :
    pos_violates mode defs cur RULE_EMPTY_OR (POr O).

Definition Violates (r : Z) (mode : vmode) (defs : list idl_def) : Prop :=
  (r = RULE_EMPTY_NAMESPACE /\ exists d, In d defs /\ ns_of d = []) \/
  (r = RULE_DUPLICATE_NAMESPACE /\ ~ NoDup (map ns_of defs)) \/
  (exists d p, In d defs /\ In p (def_positions d) /\ pos_violates mode defs d r p).
