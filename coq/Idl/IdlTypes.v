(* C18 - the IDL definition structures the verifier walks (star_frame_idl/src/{lib,ty,account_set,account,
   instruction,seeds}.rs), reduced to what `verifier/mod.rs` can observe.

   * Strings (`ItemSource`, `IdlNamespace`, crate name) are `name = list Z`: the list of Unicode scalar values.
     Equality of Rust `String`s / `&str`s is equality of these lists; `str::trim` is `trim` below (White_Space
     code points of Unicode, the set `char::is_whitespace` uses).
   * `BTreeMap<ItemSource, X>` is an association list `list (name * X)`; `lookup` is first match.  A real BTreeMap
     has unique keys and iterates in ascending key order: the case decoder (run_c18 in Verifier.v) refuses
     anything but strictly ascending keys, the theorems hold for every association list.
   * Fields that the verifier never reads are dropped (descriptions, discriminants, flags of a single account,
     `IdlFindSeeds`, addresses, `errors`, `required_idl_definitions`, `frac`, `fixed`, array length ...) except
     where they are cheap to keep for readability.  Generic parameter lists (`Vec<IdlGeneric>`) keep one name per
     parameter: only their length is ever inspected.
   No proofs in this file except the induction principles of the two nested inductives. *)
From SF Require Import Base.Prelude.

Definition name := list Z.

Fixpoint name_eqb (a b : name) : bool :=
  match a, b with
  | [], [] => true
  | x :: a', y :: b' => (x =? y) && name_eqb a' b'
  | _, _ => false
  end.

(* char::is_whitespace  (Unicode White_Space) *)
Definition is_ws (c : Z) : bool :=
  ((9 <=? c) && (c <=? 13)) || (c =? 32) || (c =? 133) || (c =? 160) || (c =? 5760) ||
  ((8192 <=? c) && (c <=? 8202)) || (c =? 8232) || (c =? 8233) || (c =? 8239) || (c =? 8287) || (c =? 12288).

Fixpoint drop_ws (l : name) : name :=
  match l with
  | [] => []
  | c :: r => if is_ws c then drop_ws r else l
  end.

(* str::trim *)
Definition trim (l : name) : name := rev (drop_ws (rev (drop_ws l))).

(* ---------------------------------------------------------------------------------------------- *)
(* ty.rs 46-96  enum IdlTypeDef ; ty.rs 17-23 struct IdlTypeId (inlined into TDefined)            *)
Inductive tydef : Type :=
| TPrim (k : Z)                         (* Bool U8 I8 U16 I16 U32 I32 F32 U64 I64 F64 U128 I128 String Pubkey RemainingBytes *)
| TGeneric (g : name)
| TDefined (src : name) (ns : option name) (gens : list tydef)
| TFixedPoint (ty : tydef) (frac : Z)
| TOption (ty : tydef) (fixed : bool)
| TList (len_ty item_ty : tydef)
| TUnsizedList (len_ty offset_ty item_ty : tydef)
| TSet (len_ty item_ty : tydef)
| TMap (len_ty key_ty value_ty : tydef)
| TArray (ty : tydef) (n : Z)
| TStruct (fields : list tydef)         (* IdlStructField.type_def *)
| TEnum (size : tydef) (variants : list (option tydef)).   (* IdlEnumVariant.type_def *)

(* IdlTypeId as it appears outside a type definition (accounts, instructions) *)
Record type_id := mkTypeId { ti_src : name; ti_ns : option name; ti_gens : list tydef }.

(* account.rs 11-15 IdlAccountId *)
Record account_id := mkAccountId { ai_ns : option name; ai_src : name }.

(* account_set.rs 60-73 enum IdlAccountSetDef ; 8-15 IdlAccountSetId (inlined) ; 35-58 IdlSingleAccountSet *)
Inductive asdef : Type :=
| ADefined (src : name) (tgens : list tydef) (agens : list asdef)
| ASingle (program_accounts : list account_id)
| AStruct (fields : list asdef)
| AMany (set : asdef) (min : Z) (max : option Z)
| AOr (branches : list asdef).

(* ty.rs 7-15 IdlType *)
Record idl_type := mkType { t_generics : list name; t_def : tydef }.
(* account_set.rs 17-26 IdlAccountSet *)
Record idl_aset := mkASet { s_type_generics : list name; s_account_generics : list name; s_def : asdef }.
(* seeds.rs 30-40 IdlSeed *)
Inductive seed := SConst (bytes : list Z) | SVariable (ty : tydef).
(* account.rs 4-9 IdlAccount *)
Record idl_account := mkAccount { a_type_id : type_id; a_seeds : option (list seed) }.
(* instruction.rs 4-15 IdlInstruction / IdlInstructionDef *)
Record idl_instruction := mkInstr { i_account_set : asdef; i_type_id : type_id }.

(* lib.rs 118-129 IdlDefinition *)
Record idl_def := mkDef {
  d_name : name;                                  (* metadata.crate_metadata.name *)
  d_instructions : list (name * idl_instruction);
  d_account_sets : list (name * idl_aset);
  d_accounts : list (name * idl_account);
  d_types : list (name * idl_type);
  d_external_types : list (name * idl_type) }.

Fixpoint lookup {A} (k : name) (m : list (name * A)) : option A :=
  match m with
  | [] => None
  | (k', v) :: r => if name_eqb k k' then Some v else lookup k r
  end.

(* lib.rs 178-182 IdlDefinition::get_type : types, else external_types *)
Definition get_type (d : idl_def) (src : name) : option idl_type :=
  match lookup src (d_types d) with
  | Some t => Some t
  | None => lookup src (d_external_types d)
  end.

Definition contains_key {A} (k : name) (m : list (name * A)) : bool :=
  match lookup k m with Some _ => true | None => false end.

(* verifier/mod.rs 33-42 enum VerificationMode *)
Inductive vmode := Compatibility | StrictGraph.

(* ---------------------------------------------------------------------------------------------- *)
(* induction principles for the nested inductives                                                  *)
Definition optP {A} (P : A -> Prop) (o : option A) : Prop := match o with Some a => P a | None => True end.

Section TydefInd.
  Variable P : tydef -> Prop.
  Hypothesis HPrim : forall k, P (TPrim k).
  Hypothesis HGeneric : forall g, P (TGeneric g).
  Hypothesis HDefined : forall src ns gens, Forall P gens -> P (TDefined src ns gens).
  Hypothesis HFixed : forall t f, P t -> P (TFixedPoint t f).
  Hypothesis HOption : forall t f, P t -> P (TOption t f).
  Hypothesis HList : forall a b, P a -> P b -> P (TList a b).
  Hypothesis HUList : forall a b c, P a -> P b -> P c -> P (TUnsizedList a b c).
  Hypothesis HSet : forall a b, P a -> P b -> P (TSet a b).
  Hypothesis HMap : forall a b c, P a -> P b -> P c -> P (TMap a b c).
  Hypothesis HArray : forall t n, P t -> P (TArray t n).
  Hypothesis HStruct : forall fs, Forall P fs -> P (TStruct fs).
  Hypothesis HEnum : forall s vs, P s -> Forall (optP P) vs -> P (TEnum s vs).

  Fixpoint tydef_ind' (t : tydef) : P t :=
    let fix all (l : list tydef) : Forall P l :=
      match l with [] => Forall_nil P | x :: r => Forall_cons x (tydef_ind' x) (all r) end in
    let fix allo (l : list (option tydef)) : Forall (optP P) l :=
      match l with
      | [] => Forall_nil (optP P)
      | x :: r => Forall_cons x (match x return optP P x with Some a => tydef_ind' a | None => I end) (allo r)
      end in
    match t with
    | TPrim k => HPrim k
    | TGeneric g => HGeneric g
    | TDefined src ns gens => HDefined src ns gens (all gens)
    | TFixedPoint t f => HFixed t f (tydef_ind' t)
    | TOption t f => HOption t f (tydef_ind' t)
    | TList a b => HList a b (tydef_ind' a) (tydef_ind' b)
    | TUnsizedList a b c => HUList a b c (tydef_ind' a) (tydef_ind' b) (tydef_ind' c)
    | TSet a b => HSet a b (tydef_ind' a) (tydef_ind' b)
    | TMap a b c => HMap a b c (tydef_ind' a) (tydef_ind' b) (tydef_ind' c)
    | TArray t n => HArray t n (tydef_ind' t)
    | TStruct fs => HStruct fs (all fs)
    | TEnum s vs => HEnum s vs (tydef_ind' s) (allo vs)
    end.
End TydefInd.

Section AsdefInd.
  Variable P : asdef -> Prop.
  Hypothesis HDefined : forall src tg ag, Forall P ag -> P (ADefined src tg ag).
  Hypothesis HSingle : forall pa, P (ASingle pa).
  Hypothesis HStruct : forall fs, Forall P fs -> P (AStruct fs).
  Hypothesis HMany : forall a mn mx, P a -> P (AMany a mn mx).
  Hypothesis HOr : forall bs, Forall P bs -> P (AOr bs).

  Fixpoint asdef_ind' (a : asdef) : P a :=
    let fix all (l : list asdef) : Forall P l :=
      match l with [] => Forall_nil P | x :: r => Forall_cons x (asdef_ind' x) (all r) end in
    match a with
    | ADefined src tg ag => HDefined src tg ag (all ag)
    | ASingle pa => HSingle pa
    | AStruct fs => HStruct fs (all fs)
    | AMany a mn mx => HMany a mn mx (asdef_ind' a)
    | AOr bs => HOr bs (all bs)
    end.
End AsdefInd.
