(* C18 - the IDL verifier, transcribed from /repo/star_frame_idl/src/verifier/mod.rs (line numbers of that file).
   Same traversal order, same resolution rule in both modes, same arity checks, same first error.  Diagnostic
   messages are dropped, the rule id is kept: `Err r` is `Err(verifier_err("SFIDL<r>", ..))`.
   The rule numbers come from SF.Gen.Gen_c18 (regenerated from the source on every run).  No proofs here. *)
From SF Require Import Base.Prelude Gen.Gen_c18 Idl.IdlTypes.

(* `vmode` (lines 33-42, enum VerificationMode) lives in IdlTypes.v: the specification needs it too *)
Definition is_compat (m : vmode) : bool := match m with Compatibility => true | StrictGraph => false end.
Definition is_none {A} (o : option A) : bool := match o with None => true | Some _ => false end.
Definition is_nil {A} (l : list A) : bool := match l with [] => true | _ => false end.

(* `for x in xs { f(x)?; } Ok(())` *)
Section AllOk.
  Context {A : Type} (f : A -> out unit).
  Fixpoint all_ok (l : list A) : out unit :=
    match l with
    | [] => Ok tt
    | x :: r => do _ <- f x; all_ok r
    end.
End AllOk.

(* ---------------------------------------------------------------------------------------------- *)
(* lines 44-83  NamespaceIndex : BTreeMap<&str, &IdlDefinition> keyed by the TRIMMED crate name     *)
Definition index := list (name * idl_def).

(* lines 49-69 build: per definition, in the order supplied: empty check, then duplicate check (`insert(..).is_some()`) *)
Fixpoint build_index (defs : list idl_def) (acc : index) : out index :=
  match defs with
  | [] => Ok acc
  | d :: r =>
      let ns := trim (d_name d) in
      if is_nil ns then Err RULE_EMPTY_NAMESPACE
      else if contains_key ns acc then Err RULE_DUPLICATE_NAMESPACE
      else build_index r ((ns, d) :: acc)
  end.

(* lines 71-73: the key looked up is the reference's namespace string as written (not trimmed) *)
Definition by_namespace (idx : index) (ns : name) : option idl_def := lookup ns idx.

(* lines 75-82 *)
Definition require_namespace (idx : index) (ns : name) : out idl_def :=
  match by_namespace idx ns with
  | Some d => Ok d
  | None => Err RULE_MISSING_NAMESPACE
  end.

(* ---------------------------------------------------------------------------------------------- *)
Section Verify.
  Variable cur : idl_def.      (* `current` *)
  Variable idx : index.        (* `namespace_index` *)
  Variable mode : vmode.

  (* lines 222-262: resolution of a type reference and the choice of the error *)
  Definition resolve_type (src : name) (ns : option name) : out idl_type :=
    do resolved <-
      match ns with
      | None => Ok (get_type cur src)                                            (* 223 *)
      | Some n =>
          match mode with
          | Compatibility =>                                                     (* 225-229 *)
              Ok (match get_type cur src with
                  | Some t => Some t
                  | None => match by_namespace idx n with
                            | Some d => get_type d src
                            | None => None
                            end
                  end)
          | StrictGraph =>                                                       (* 230-232 *)
              do d <- require_namespace idx n; Ok (get_type d src)
          end
      end;
    match resolved with
    | Some t => Ok t
    | None =>                                                                    (* 235-262 *)
        match ns with
        | Some n =>
            if is_compat mode && is_none (by_namespace idx n) && is_none (get_type cur src)
            then Err RULE_MISSING_NAMESPACE
            else Err RULE_MISSING_TYPE
        | None => Err RULE_MISSING_TYPE
        end
    end.

  (* lines 222-274: resolution + `provided_generics.len() != resolved_type.generics.len()` *)
  Definition check_type_ref (src : name) (ns : option name) (provided : nat) : out unit :=
    do t <- resolve_type src ns;
    if Nat.eqb provided (length (t_generics t)) then Ok tt else Err RULE_TYPE_GENERIC_ARITY.

  Definition verify_opt (f : tydef -> out unit) (o : option tydef) : out unit :=
    match o with Some t => f t | None => Ok tt end.

  (* lines 496-586 verify_type_def; the TDefined arm is verify_type_id (215-285) inlined: resolve, arity, then each
     provided generic in order *)
  Fixpoint verify_type_def (t : tydef) : out unit :=
    match t with
    | TDefined src ns gens =>
        do _ <- check_type_ref src ns (length gens);
        all_ok verify_type_def gens                                              (* 276-283 *)
    | TFixedPoint ty _ => verify_type_def ty
    | TOption ty _ => verify_type_def ty
    | TList len_ty item_ty =>
        do _ <- verify_type_def len_ty; verify_type_def item_ty
    | TUnsizedList len_ty offset_ty item_ty =>
        do _ <- verify_type_def len_ty; do _ <- verify_type_def offset_ty; verify_type_def item_ty
    | TSet len_ty item_ty =>
        do _ <- verify_type_def len_ty; verify_type_def item_ty
    | TMap len_ty key_ty value_ty =>
        do _ <- verify_type_def len_ty; do _ <- verify_type_def key_ty; verify_type_def value_ty
    | TArray inner _ => verify_type_def inner
    | TStruct fields => all_ok verify_type_def fields
    | TEnum size variants =>
        do _ <- verify_type_def size;
        all_ok (verify_opt verify_type_def) variants
    | TGeneric _ | TPrim _ => Ok tt                                               (* 566-583 *)
    end.

  (* lines 215-285 for an IdlTypeId outside a type definition (the returned &IdlType is discarded by every caller) *)
  Definition verify_type_id (id : type_id) : out unit :=
    do _ <- check_type_ref (ti_src id) (ti_ns id) (length (ti_gens id));
    all_ok verify_type_def (ti_gens id).

  (* lines 358-413 verify_account_id *)
  Definition verify_account_id (id : account_id) : out unit :=
    let src := ai_src id in
    do account_exists <-
      match ai_ns id with
      | None => Ok (contains_key src (d_accounts cur))                            (* 366 *)
      | Some n =>
          match mode with
          | Compatibility =>                                                     (* 368-376 *)
              Ok (contains_key src (d_accounts cur) ||
                  match by_namespace idx n with
                  | Some d => contains_key src (d_accounts d)
                  | None => false
                  end)
          | StrictGraph =>                                                       (* 377-380 *)
              do d <- require_namespace idx n; Ok (contains_key src (d_accounts d))
          end
      end;
    if account_exists then Ok tt
    else match ai_ns id with                                                     (* 384-410 *)
         | Some n =>
             if is_compat mode && negb (contains_key src (d_accounts cur)) && is_none (by_namespace idx n)
             then Err RULE_MISSING_NAMESPACE
             else Err RULE_MISSING_ACCOUNT
         | None => Err RULE_MISSING_ACCOUNT
         end.

  (* lines 294-330: the non-recursive part of verify_account_set_id.  Account-set ids carry no namespace: only the
     current definition's `account_sets` is consulted, in both modes *)
  Definition check_set_ref (src : name) (ptg pag : nat) : out unit :=
    match lookup src (d_account_sets cur) with
    | None => Err RULE_MISSING_ACCOUNT_SET
    | Some target =>
        if negb (Nat.eqb ptg (length (s_type_generics target))) then Err RULE_ACCOUNT_SET_TYPE_ARITY
        else if negb (Nat.eqb pag (length (s_account_generics target))) then Err RULE_ACCOUNT_SET_ACCOUNT_ARITY
        else Ok tt
    end.

  (* lines 466-478 *)
  Definition check_many (mn : Z) (mx : option Z) : out unit :=
    match mx with
    | Some m => if m <? mn then Err RULE_MANY_BOUNDS else Ok tt
    | None => Ok tt
    end.

  (* lines 434-494 verify_account_set_def; ADefined arm = verify_account_set_id (287-356); ASingle arm =
     verify_single_account_set (415-432) *)
  Fixpoint verify_account_set_def (a : asdef) : out unit :=
    match a with
    | ADefined src tgens agens =>
        do _ <- check_set_ref src (length tgens) (length agens);
        do _ <- all_ok verify_type_def tgens;                                     (* 332-342 *)
        all_ok verify_account_set_def agens                                      (* 344-353 *)
    | ASingle accounts => all_ok verify_account_id accounts
    | AStruct fields => all_ok verify_account_set_def fields
    | AMany set mn mx =>
        do _ <- check_many mn mx;
        verify_account_set_def set
    | AOr branches =>
        if is_nil branches then Err RULE_EMPTY_OR                                (* 481-486 *)
        else all_ok verify_account_set_def branches
    end.

  (* lines 178-193: seeds of an account *)
  Definition verify_seed (s : seed) : out unit :=
    match s with
    | SVariable ty => verify_type_def ty
    | SConst _ => Ok tt
    end.

  Definition verify_account (a : idl_account) : out unit :=
    do _ <- verify_type_id (a_type_id a);                                         (* 171-177 *)
    match a_seeds a with
    | Some seeds => all_ok verify_seed seeds
    | None => Ok tt
    end.

  Definition verify_instruction (i : idl_instruction) : out unit :=
    do _ <- verify_type_id (i_type_id i);                                         (* 198-204 *)
    verify_account_set_def (i_account_set i).                                     (* 205-211 *)

  (* lines 139-213 verify_definition, with `definition` = cur *)
  Definition verify_definition : out unit :=
    do _ <- all_ok (fun kv => verify_type_def (t_def (snd kv))) (d_types cur ++ d_external_types cur);   (* 146-158 *)
    do _ <- all_ok (fun kv => verify_account_set_def (s_def (snd kv))) (d_account_sets cur);             (* 160-168 *)
    do _ <- all_ok (fun kv => verify_account (snd kv)) (d_accounts cur);                                 (* 170-194 *)
    all_ok (fun kv => verify_instruction (snd kv)) (d_instructions cur).                                 (* 196-212 *)
End Verify.

(* lines 126-137 verify_idl_definitions_with_mode *)
Definition verify (mode : vmode) (defs : list idl_def) : out unit :=
  do idx <- build_index defs [];
  all_ok (fun d => verify_definition d idx mode) defs.

(* ============================================================================================== *)
(* Case decoding for the correspondence check (trusted glue; mirrored by harness/src/bin/vh_c18.rs and
   lib/props/c18.py).  A case is a token stream ({x} = repetition, [a|b] = alternative):
     case   := mode ndefs {def}                       mode 0 = Compatibility, 1 = StrictGraph
     def    := name  n {name type}  n {name type}  n {name aset}  n {name account}  n {name instr}
               (types, external types, account sets, accounts, instructions; keys strictly ascending)
     name   := len {c}                                0 <= c < 55296
     type   := ngenerics tydef          aset := ntypegen naccountgen asdef
     tydef  := 0 k | 1 name | 2 typeid | 3 t | 4 t | 5 t t | 6 t t t | 7 t t | 8 t t t | 9 t | 10 n {t} | 11 t n {[0 | 1 t]}
     typeid := name nsopt n {tydef}     nsopt := [0 | 1 name]
     asdef  := 0 name n {tydef} n {asdef} | 1 n {nsopt name} | 2 n {asdef} | 3 asdef min [0 | 1 max] | 4 n {asdef}
     account:= typeid [0 | 1 n {seed}]  seed := 0 n {byte} | 1 tydef        instr := typeid asdef
   Anything else (bad tag, count > 4096, trailing tokens, unsorted keys) decodes to None -> observation [-1]. *)
Definition parser (A : Type) := list Z -> option (A * list Z).

Section Rep.
  Context {A : Type} (p : parser A).
  Fixpoint p_rep (n : nat) (l : list Z) : option (list A * list Z) :=
    match n with
    | O => Some ([], l)
    | S k => match p l with
             | Some (a, r) => match p_rep k r with
                              | Some (xs, r') => Some (a :: xs, r')
                              | None => None
                              end
             | None => None
             end
    end.
End Rep.

Definition p_count : parser nat := fun l =>
  match l with
  | c :: r => if (0 <=? c) && (c <=? 4096) then Some (Z.to_nat c, r) else None
  | [] => None
  end.

Definition p_many {A} (p : parser A) : parser (list A) := fun l =>
  match p_count l with
  | Some (n, r) => p_rep p n r
  | None => None
  end.

Definition p_char : parser Z := fun l =>
  match l with
  | c :: r => if (0 <=? c) && (c <? 55296) then Some (c, r) else None
  | [] => None
  end.

Definition p_name : parser name := p_many p_char.

Definition p_opt {A} (p : parser A) : parser (option A) := fun l =>
  match l with
  | 0 :: r => Some (None, r)
  | 1 :: r => match p r with Some (a, r') => Some (Some a, r') | None => None end
  | _ => None
  end.

Definition p_u64 : parser Z := fun l =>
  match l with
  | c :: r => if (0 <=? c) && (c <? 18446744073709551616) then Some (c, r) else None
  | [] => None
  end.

Definition p_pair {A B} (pa : parser A) (pb : parser B) : parser (A * B) := fun l =>
  match pa l with
  | Some (a, r) => match pb r with Some (b, r') => Some ((a, b), r') | None => None end
  | None => None
  end.

Definition p_map {A B} (f : A -> B) (p : parser A) : parser B := fun l =>
  match p l with Some (a, r) => Some (f a, r) | None => None end.

Fixpoint p_tydef (fuel : nat) (l : list Z) : option (tydef * list Z) :=
  match fuel with
  | O => None
  | S f =>
      let T := p_tydef f in
      match l with
      | 0 :: k :: r => if (0 <=? k) && (k <=? 15) then Some (TPrim k, r) else None
      | 1 :: r => p_map TGeneric p_name r
      | 2 :: r => p_map (fun x => match x with (src, ns, gens) => TDefined src ns gens end)
                        (p_pair (p_pair p_name (p_opt p_name)) (p_many T)) r
      | 3 :: r => p_map (fun t => TFixedPoint t 0) T r
      | 4 :: r => p_map (fun t => TOption t false) T r
      | 5 :: r => p_map (fun x => TList (fst x) (snd x)) (p_pair T T) r
      | 6 :: r => p_map (fun x => TUnsizedList (fst (fst x)) (snd (fst x)) (snd x)) (p_pair (p_pair T T) T) r
      | 7 :: r => p_map (fun x => TSet (fst x) (snd x)) (p_pair T T) r
      | 8 :: r => p_map (fun x => TMap (fst (fst x)) (snd (fst x)) (snd x)) (p_pair (p_pair T T) T) r
      | 9 :: r => p_map (fun t => TArray t 1) T r
      | 10 :: r => p_map TStruct (p_many T) r
      | 11 :: r => p_map (fun x => TEnum (fst x) (snd x)) (p_pair T (p_many (p_opt T))) r
      | _ => None
      end
  end.

Definition p_type_id (fuel : nat) : parser type_id :=
  p_map (fun x => match x with (src, ns, gens) => mkTypeId src ns gens end)
        (p_pair (p_pair p_name (p_opt p_name)) (p_many (p_tydef fuel))).

Definition p_account_id : parser account_id :=
  p_map (fun x => mkAccountId (fst x) (snd x)) (p_pair (p_opt p_name) p_name).

Fixpoint p_asdef (fuel : nat) (l : list Z) : option (asdef * list Z) :=
  match fuel with
  | O => None
  | S f =>
      let S_ := p_asdef f in
      match l with
      | 0 :: r => p_map (fun x => match x with (src, tg, ag) => ADefined src tg ag end)
                        (p_pair (p_pair p_name (p_many (p_tydef f))) (p_many S_)) r
      | 1 :: r => p_map ASingle (p_many p_account_id) r
      | 2 :: r => p_map AStruct (p_many S_) r
      | 3 :: r => p_map (fun x => match x with (a, mn, mx) => AMany a mn mx end)
                        (p_pair (p_pair S_ p_u64) (p_opt p_u64)) r
      | 4 :: r => p_map AOr (p_many S_) r
      | _ => None
      end
  end.

Definition p_generics : parser (list name) := p_map (fun n => repeat [] n) p_count.

Definition p_type (fuel : nat) : parser idl_type :=
  p_map (fun x => mkType (fst x) (snd x)) (p_pair p_generics (p_tydef fuel)).

Definition p_aset (fuel : nat) : parser idl_aset :=
  p_map (fun x => match x with (tg, ag, a) => mkASet tg ag a end)
        (p_pair (p_pair p_generics p_generics) (p_asdef fuel)).

Definition p_byte : parser Z := fun l =>
  match l with
  | c :: r => if (0 <=? c) && (c <? 256) then Some (c, r) else None
  | [] => None
  end.

Definition p_seed (fuel : nat) : parser seed := fun l =>
  match l with
  | 0 :: r => p_map SConst (p_many p_byte) r
  | 1 :: r => p_map SVariable (p_tydef fuel) r
  | _ => None
  end.

Definition p_account (fuel : nat) : parser idl_account :=
  p_map (fun x => mkAccount (fst x) (snd x)) (p_pair (p_type_id fuel) (p_opt (p_many (p_seed fuel)))).

Definition p_instr (fuel : nat) : parser idl_instruction :=
  p_map (fun x => mkInstr (snd x) (fst x)) (p_pair (p_type_id fuel) (p_asdef fuel)).

(* String order = lexicographic order of the code points (UTF-8 preserves it) *)
Fixpoint name_ltb (a b : name) : bool :=
  match a, b with
  | [], [] => false
  | [], _ :: _ => true
  | _ :: _, [] => false
  | x :: a', y :: b' => (x <? y) || ((x =? y) && name_ltb a' b')
  end.

Fixpoint keys_ascending {A} (m : list (name * A)) : bool :=
  match m with
  | [] => true
  | (k, _) :: r => match r with
                   | [] => true
                   | (k', _) :: _ => name_ltb k k' && keys_ascending r
                   end
  end.

Definition p_btree {A} (p : parser A) : parser (list (name * A)) := fun l =>
  match p_many (p_pair p_name p) l with
  | Some (m, r) => if keys_ascending m then Some (m, r) else None
  | None => None
  end.

Definition p_def (fuel : nat) : parser idl_def :=
  p_map (fun x => match x with (nm, tys, ext, sets, accts, instrs) => mkDef nm instrs sets accts tys ext end)
        (p_pair (p_pair (p_pair (p_pair (p_pair p_name (p_btree (p_type fuel))) (p_btree (p_type fuel)))
                                (p_btree (p_aset fuel))) (p_btree (p_account fuel))) (p_btree (p_instr fuel))).

Definition decode_case (c : list Z) : option (vmode * list idl_def) :=
  match c with
  | m :: r =>
      match (if m =? 0 then Some Compatibility else if m =? 1 then Some StrictGraph else None) with
      | Some mode =>
          match p_many (p_def (S (length c))) r with
          | Some (defs, []) => Some (mode, defs)
          | _ => None
          end
      | None => None
      end
  | [] => None
  end.

(* observation: [0] = Ok(()), [1; n] = Err(..SFIDL<n>..), [-1] = malformed case *)
Definition run_c18 (c : list Z) : list Z :=
  match decode_case c with
  | None => [-1]
  | Some (mode, defs) => out_tag (verify mode defs)
  end.
