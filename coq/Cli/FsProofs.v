(* C20 proofs, part 3: lookup laws of the file-system operations. *)
From SF Require Import Base.Prelude Cli.Name Cli.NameProofs Cli.Fs.

Lemma path_eqb_eq a b : path_eqb a b = true <-> a = b.
Proof.
  revert b; induction a as [|x a IH]; intros [|y b]; cbn [path_eqb]; split; intros H; try discriminate; auto.
  - apply andb_true_iff in H as [H1 H2]. apply str_eqb_eq in H1. apply IH in H2. now subst.
  - inversion H; subst. apply andb_true_iff; split; [apply str_eqb_refl | now apply IH].
Qed.

Lemma path_eqb_refl a : path_eqb a a = true.
Proof. now apply path_eqb_eq. Qed.

Lemma path_eqb_neq a b : a <> b -> path_eqb a b = false.
Proof. intros H. destruct (path_eqb a b) eqn:E; [|reflexivity]. apply path_eqb_eq in E. contradiction. Qed.

Lemma path_eq_dec (a b : path) : {a = b} + {a <> b}.
Proof. destruct (path_eqb a b) eqn:E; [left; now apply path_eqb_eq | right; intros H; apply path_eqb_eq in H; congruence]. Qed.

Lemma is_prefix_iff a p : is_prefix a p = true <-> exists r, p = a ++ r.
Proof.
  revert p; induction a as [|x a IH]; intros p; cbn [is_prefix].
  - split; [intros _; now exists p | reflexivity].
  - destruct p as [|y p].
    + split; [discriminate | intros [r H]; discriminate].
    + rewrite andb_true_iff, str_eqb_eq, IH. split.
      * intros [-> [r ->]]. now exists r.
      * intros [r H]. inversion H; subst. split; [reflexivity | now exists r].
Qed.

Lemma is_prefix_refl a : is_prefix a a = true.
Proof. apply is_prefix_iff. exists []. now rewrite app_nil_r. Qed.

Lemma is_prefix_app a r : is_prefix a (a ++ r) = true.
Proof. apply is_prefix_iff. now exists r. Qed.

Lemma is_prefix_trans a b c : is_prefix a b = true -> is_prefix b c = true -> is_prefix a c = true.
Proof.
  rewrite !is_prefix_iff. intros [r ->] [r' ->]. exists (r ++ r'). now rewrite app_assoc.
Qed.

Lemma is_prefix_nil_r a : is_prefix a [] = true -> a = [].
Proof. destruct a; [reflexivity | discriminate]. Qed.

Lemma parent_app_last (a : path) x : parent (a ++ [x]) = a.
Proof. unfold parent. apply removelast_last. Qed.

Lemma parent_prefix p : is_prefix (parent p) p = true.
Proof.
  destruct p as [|x p] using rev_ind; [reflexivity|]. rewrite parent_app_last. apply is_prefix_app.
Qed.

Lemma path_last_cases (p : path) : p = [] \/ exists a x, p = a ++ [x].
Proof. destruct p as [|x p] using rev_ind; [now left | right; now exists p, x]. Qed.

(* a proper extension of S has its parent inside S's subtree *)
Lemma parent_under S q : is_prefix S q = true -> q <> S -> is_prefix S (parent q) = true /\ q <> [] /\ parent q <> q.
Proof.
  intros H Hne. apply is_prefix_iff in H as [r ->].
  destruct (path_last_cases r) as [->|[a [x ->]]]; [now rewrite app_nil_r in Hne|].
  rewrite app_assoc, parent_app_last. split; [apply is_prefix_app|]. split.
  - intros H. apply app_eq_nil in H as [_ H]. discriminate.
  - intros H. apply (f_equal (@length str)) in H. rewrite !app_length in H. cbn in H. lia.
Qed.

Lemma prefix_of_single x q : is_prefix q [x] = true -> q = [] \/ q = [x].
Proof.
  destruct q as [|y q]; [now left|]. cbn [is_prefix]. intros H. apply andb_true_iff in H as [H1 H2].
  apply str_eqb_eq in H1. apply is_prefix_nil_r in H2. subst. now right.
Qed.

(* prefixes of a path are totally ordered *)
Lemma prefixes_comparable a b p : is_prefix a p = true -> is_prefix b p = true -> is_prefix a b = true \/ is_prefix b a = true.
Proof.
  revert b p; induction a as [|x a IH]; intros b p Ha Hb; [now left|].
  destruct b as [|y b]; [now right|]. destruct p as [|z p]; [discriminate|].
  cbn [is_prefix] in *. apply andb_true_iff in Ha as [Ha1 Ha2]. apply andb_true_iff in Hb as [Hb1 Hb2].
  apply str_eqb_eq in Ha1, Hb1. subst. rewrite str_eqb_refl. cbn [andb]. exact (IH b p Ha2 Hb2).
Qed.

(* ------------------------------------------------------------------------------------------ *)
(* lookup laws *)
Lemma lookup_remove_key p q f : lookup q (remove_key p f) = if path_eqb q p then None else lookup q f.
Proof.
  unfold remove_key. induction f as [|[k n] f IH]; cbn [filter lookup fst].
  - now destruct (path_eqb q p).
  - destruct (path_eqb p k) eqn:E; cbn [negb].
    + apply path_eqb_eq in E. subst k. rewrite IH. now destruct (path_eqb q p).
    + cbn [lookup]. destruct (path_eqb q k) eqn:E2; [|exact IH].
      apply path_eqb_eq in E2. subst k. destruct (path_eqb q p) eqn:E3; [|reflexivity].
      apply path_eqb_eq in E3. subst. now rewrite path_eqb_refl in E.
Qed.

Lemma lookup_set_eq p n f : lookup p (set p n f) = Some n.
Proof. unfold set. cbn [lookup]. now rewrite path_eqb_refl. Qed.

Lemma lookup_set_neq p q n f : q <> p -> lookup q (set p n f) = lookup q f.
Proof.
  intros H. unfold set. cbn [lookup]. rewrite (path_eqb_neq q p H), lookup_remove_key. now rewrite (path_eqb_neq q p H).
Qed.

Lemma lookup_remove_tree p q f : lookup q (remove_tree p f) = if is_prefix p q then None else lookup q f.
Proof.
  unfold remove_tree. induction f as [|[k n] f IH]; cbn [filter lookup fst].
  - now destruct (is_prefix p q).
  - destruct (is_prefix p k) eqn:E; cbn [negb].
    + rewrite IH. destruct (is_prefix p q) eqn:E2; [reflexivity|].
      destruct (path_eqb q k) eqn:E3; [|reflexivity]. apply path_eqb_eq in E3. subst. congruence.
    + cbn [lookup]. destruct (path_eqb q k) eqn:E3; [|exact IH].
      apply path_eqb_eq in E3. subst. now rewrite E.
Qed.

(* moving the subtree of [x] onto the absent-or-emptied [y], x <> y *)
Lemma move_tree_cons a b k n f :
  move_tree a b ((k, n) :: f) =
  if is_prefix b k then move_tree a b f
  else (if is_prefix a k then (b ++ skipn (length a) k, n) else (k, n)) :: move_tree a b f.
Proof. unfold move_tree, remove_tree. cbn [filter fst]. destruct (is_prefix b k); reflexivity. Qed.

Lemma str_eqb_sym a b : str_eqb a b = str_eqb b a.
Proof.
  destruct (str_eqb a b) eqn:E.
  - apply str_eqb_eq in E. subst. symmetry. apply str_eqb_refl.
  - destruct (str_eqb b a) eqn:E2; [|reflexivity]. apply str_eqb_eq in E2. subst. now rewrite str_eqb_refl in E.
Qed.

Lemma str_eqb_neq a b : a <> b -> str_eqb a b = false.
Proof. intros H. destruct (str_eqb a b) eqn:E; [|reflexivity]. apply str_eqb_eq in E. contradiction. Qed.

Lemma is_prefix_single x k : is_prefix [x] k = match k with z :: _ => str_eqb x z | [] => false end.
Proof. destruct k as [|z k]; [reflexivity|]. cbn [is_prefix]. apply andb_true_r. Qed.

Definition moved_lookup (x y : str) (f : fs) (q : path) : option node :=
  match q with
  | z :: r => if str_eqb y z then lookup (x :: r) f
              else if str_eqb x z then None else lookup q f
  | [] => lookup [] f
  end.

Lemma lookup_move_tree_single x y f q : x <> y ->
  lookup q (move_tree [x] [y] f) = moved_lookup x y f q.
Proof.
  intros Hxy. induction f as [|[k n] f IH].
  - unfold move_tree, moved_lookup. cbn. destruct q as [|z r]; [reflexivity|].
    destruct (str_eqb y z); [reflexivity|]. now destruct (str_eqb x z).
  - rewrite move_tree_cons, !is_prefix_single.
    destruct k as [|k0 k].
    + (* the root entry: kept as it is *)
      cbn [lookup]. rewrite IH. destruct q as [|z r]; [reflexivity|]. unfold moved_lookup.
      cbn [path_eqb lookup]. destruct (str_eqb y z); [reflexivity|]. now destruct (str_eqb x z).
    + destruct (str_eqb y k0) eqn:Ey.
      * (* removed *)
        apply str_eqb_eq in Ey. subst k0. rewrite IH. unfold moved_lookup. destruct q as [|z r]; [reflexivity|].
        cbn [lookup path_eqb]. destruct (str_eqb y z) eqn:E1.
        -- now rewrite (str_eqb_neq x y Hxy).
        -- destruct (str_eqb x z); [reflexivity|]. now rewrite (str_eqb_sym z y), E1.
      * destruct (str_eqb x k0) eqn:Ex.
        -- (* moved: x :: k  becomes  y :: k *)
           apply str_eqb_eq in Ex. subst k0. cbn [length skipn app lookup]. rewrite IH.
           unfold moved_lookup. destruct q as [|z r]; [reflexivity|]. cbn [path_eqb lookup].
           destruct (str_eqb y z) eqn:E1.
           ++ apply str_eqb_eq in E1. subst z. rewrite !str_eqb_refl. cbn [andb]. reflexivity.
           ++ rewrite (str_eqb_sym z y), E1. cbn [andb]. destruct (str_eqb x z) eqn:E2; [reflexivity|].
              now rewrite (str_eqb_sym z x), E2.
        -- (* untouched *)
           cbn [lookup]. rewrite IH. unfold moved_lookup. destruct q as [|z r]; [reflexivity|].
           cbn [path_eqb lookup]. destruct (str_eqb y z) eqn:E1.
           ++ apply str_eqb_eq in E1. subst z. now rewrite Ey, Ex.
           ++ destruct (str_eqb x z) eqn:E2; [|reflexivity].
              apply str_eqb_eq in E2. subst z. now rewrite Ex.
Qed.

(* ------------------------------------------------------------------------------------------ *)
(* global well-formedness of a state: every entry's parent directory is present *)
Definition wf (f : fs) : Prop :=
  forall q, lookup q f <> None -> q <> [] -> lookup (parent q) f = Some Dir.

Lemma wf_absent_subtree f S : wf f -> lookup S f = None -> forall q, is_prefix S q = true -> lookup q f = None.
Proof.
  intros Hwf Habs q Hq. apply is_prefix_iff in Hq as [r ->].
  induction r as [|x r IH] using rev_ind; [now rewrite app_nil_r|].
  destruct (lookup (S ++ r ++ [x]) f) eqn:E; [|reflexivity]. exfalso.
  assert (Hp : lookup (parent (S ++ r ++ [x])) f = Some Dir).
  { apply Hwf; [congruence|]. intros H. apply app_eq_nil in H as [_ H]. apply app_eq_nil in H as [_ H]. discriminate. }
  rewrite app_assoc, parent_app_last in Hp. congruence.
Qed.

Lemma resolve_no_symlink fuel f p : (forall t, lookup p f <> Some (Symlink t)) -> resolve (S fuel) f p = lookup p f.
Proof. intros H. cbn [resolve]. destruct (lookup p f) as [[| |t]|]; try reflexivity. exfalso. exact (H t eq_refl). Qed.
