(* C20 proofs, part 1: the name validator accepts exactly the documented strict subset. *)
From SF Require Import Base.Prelude Gen.Gen_c20 Cli.Name.

(* ------------------------------------------------------------------------------------------ *)
(* the documented subset, stated without reference to the validator's loop *)
Definition allowed (c : Z) : bool := is_lower c || is_digit c || is_sep c.

Definition crate_safe (s : str) : Prop :=
  (exists c r, s = c :: r /\ is_lower c = true /\ forallb allowed r = true)
  /\ (forall pre a b post, s = pre ++ a :: b :: post -> ~ (is_sep a = true /\ is_sep b = true))
  /\ (forall pre a, s = pre ++ [a] -> is_sep a = false)
  /\ ~ In (dash_to_us s) c20_keywords.

(* ------------------------------------------------------------------------------------------ *)
Lemma str_eqb_eq a b : str_eqb a b = true <-> a = b.
Proof.
  revert b; induction a as [|x a IH]; intros [|y b]; cbn [str_eqb]; split; intros H; try discriminate; auto.
  - apply andb_true_iff in H as [H1 H2]. apply Z.eqb_eq in H1. apply IH in H2. now subst.
  - inversion H; subst. apply andb_true_iff; split; [apply Z.eqb_refl | now apply IH].
Qed.

Lemma str_eqb_refl a : str_eqb a a = true.
Proof. now apply str_eqb_eq. Qed.

Lemma is_rust_keyword_iff s : is_rust_keyword s = true <-> In s c20_keywords.
Proof.
  unfold is_rust_keyword. rewrite existsb_exists. split.
  - intros [k [Hin He]]. apply str_eqb_eq in He. now subst.
  - intros Hin. exists s. split; [assumption | apply str_eqb_refl].
Qed.

Lemma lower_not_sep c : is_lower c = true -> is_sep c = false.
Proof. unfold is_lower, is_sep. intros H. zb. apply orb_false_iff; split; apply Z.eqb_neq; lia. Qed.

Lemma digit_not_sep c : is_digit c = true -> is_sep c = false.
Proof. unfold is_digit, is_sep. intros H. zb. apply orb_false_iff; split; apply Z.eqb_neq; lia. Qed.

Lemma alnum_not_sep c : is_lower c || is_digit c = true -> is_sep c = false.
Proof. intros H. apply orb_true_iff in H as [H|H]; [now apply lower_not_sep | now apply digit_not_sep]. Qed.

(* boolean shadows of the two separator conditions, threaded like the loop's flag *)
Fixpoint adj_sep (prev : bool) (s : str) : bool :=
  match s with
  | [] => false
  | c :: r => (prev && is_sep c) || adj_sep (is_sep c) r
  end.

Fixpoint last_sep (prev : bool) (s : str) : bool :=
  match s with
  | [] => prev
  | c :: r => last_sep (is_sep c) r
  end.

Lemma scan_spec s : forall prev q,
  scan prev s = ScanEnd q <-> (forallb allowed s = true /\ adj_sep prev s = false /\ q = last_sep prev s).
Proof.
  induction s as [|c r IH]; intros prev q; cbn [scan forallb adj_sep last_sep].
  - split.
    + intros H. inversion H. auto.
    + intros [_ [_ H]]. now subst.
  - unfold allowed at 1. destruct (is_lower c || is_digit c) eqn:Han.
    + rewrite (alnum_not_sep c Han). rewrite andb_false_r. cbn [orb andb]. apply IH.
    + cbn [orb]. destruct (is_sep c) eqn:Hs.
      * destruct prev; cbn [andb orb].
        -- split; [discriminate | intros [_ [H _]]; discriminate].
        -- apply IH.
      * split; [discriminate | intros [H _]; discriminate].
Qed.

Lemma scan_bad_reason s : forall prev r, scan prev s = ScanBad r -> r = R_CONSECUTIVE \/ r = R_CHAR.
Proof.
  induction s as [|c s IH]; intros prev r; cbn [scan]; [discriminate|].
  destruct (is_lower c || is_digit c); [apply IH|].
  destruct (is_sep c).
  - destruct prev; [intros H; inversion H; auto | apply IH].
  - intros H; inversion H; auto.
Qed.

(* the boolean shadows against the declarative conditions *)
Lemma adj_sep_spec s : forall prev,
  adj_sep prev s = false <->
  ((prev = true -> forall a r, s = a :: r -> is_sep a = false) /\
   (forall pre a b post, s = pre ++ a :: b :: post -> ~ (is_sep a = true /\ is_sep b = true))).
Proof.
  induction s as [|c r IH]; intros prev; cbn [adj_sep].
  - split; [|reflexivity]. intros _. split.
    + intros _ a r H; discriminate.
    + intros [|x pre] a b post H; discriminate.
  - rewrite orb_false_iff, IH. split.
    + intros [H1 [H2 H3]]. split.
      * intros Hp a r' He. inversion He; subst. cbn [andb] in H1. exact H1.
      * intros [|x pre] a b post He [Ha Hb].
        -- cbn [app] in He. inversion He; subst. specialize (H2 Ha b post eq_refl). congruence.
        -- cbn [app] in He. inversion He; subst. exact (H3 pre a b post eq_refl (conj Ha Hb)).
    + intros [H1 H2]. split; [|split].
      * destruct prev; [|reflexivity]. cbn [andb]. exact (H1 eq_refl c r eq_refl).
      * intros Hc a r' He. subst r. destruct (is_sep a) eqn:Ha; [|reflexivity].
        exfalso. exact (H2 [] c a r' eq_refl (conj Hc Ha)).
      * intros pre a b post He. subst r. exact (H2 (c :: pre) a b post eq_refl).
Qed.

Lemma last_sep_app s : forall prev a, last_sep prev (s ++ [a]) = is_sep a.
Proof. induction s as [|c r IH]; intros prev a; cbn [app last_sep]; auto. Qed.

Lemma last_sep_spec s : s <> [] -> forall prev,
  last_sep prev s = false <-> (forall pre a, s = pre ++ [a] -> is_sep a = false).
Proof.
  intros Hne prev. destruct (exists_last Hne) as [pre [a He]]. subst s. rewrite last_sep_app. split.
  - intros H pre' a' He. apply app_inj_tail in He as [_ He]. now subst.
  - intros H. exact (H pre a eq_refl).
Qed.

(* ------------------------------------------------------------------------------------------ *)
Theorem validate_accepts_iff name :
  (exists n, validate_program_name name = Accept n) <-> crate_safe name.
Proof.
  unfold crate_safe, validate_program_name. destruct name as [|c rest].
  - split.
    + intros [n H]. discriminate.
    + intros [[c [r [H _]]] _]. discriminate.
  - destruct (is_lower c) eqn:Hl; cbn [negb].
    + destruct (scan false rest) as [q|bad] eqn:Hs.
      * apply scan_spec in Hs as [Hall [Hadj Hq]].
        assert (Hadj' : adj_sep false (c :: rest) = false).
        { cbn [adj_sep andb orb]. now rewrite (lower_not_sep c Hl). }
        assert (Hlast : last_sep false (c :: rest) = q).
        { cbn [last_sep]. now rewrite (lower_not_sep c Hl). }
        apply adj_sep_spec in Hadj' as [_ Hadj'].
        destruct q.
        -- split; [intros [n H]; discriminate|].
           intros [_ [_ [Hend _]]].
           apply (last_sep_spec (c :: rest) ltac:(discriminate) false) in Hend. congruence.
        -- destruct (is_rust_keyword (dash_to_us (c :: rest))) eqn:Hk.
           ++ split; [intros [n H]; discriminate|].
              intros [_ [_ [_ Hnk]]]. apply is_rust_keyword_iff in Hk. contradiction.
           ++ split; [|intros _; eexists; reflexivity].
              intros _. split; [|split; [|split]].
              ** exists c, rest. auto.
              ** exact Hadj'.
              ** apply (last_sep_spec (c :: rest) ltac:(discriminate) false). exact Hlast.
              ** intros Hin. apply is_rust_keyword_iff in Hin. congruence.
      * split; [intros [n H]; discriminate|].
        intros [[c' [r' [He [_ Hall]]]] [Hadj [Hend _]]]. inversion He; subst c' r'.
        assert (Hs' : scan false rest = ScanEnd (last_sep false rest)).
        { apply scan_spec. split; [exact Hall|]. split; [|reflexivity].
          apply adj_sep_spec. split; [discriminate|].
          intros pre a b post He'. subst rest. exact (Hadj (c :: pre) a b post eq_refl). }
        congruence.
    + split; [intros [n H]; discriminate|].
      intros [[c' [r' [He [Hl' _]]]] _]. inversion He; subst. congruence.
Qed.

Lemma validate_returns_name name n : validate_program_name name = Accept n -> n = name.
Proof.
  unfold validate_program_name. destruct name as [|c rest]; [discriminate|].
  destruct (negb (is_lower c)); [discriminate|].
  destruct (scan false rest) as [[|]|]; try discriminate.
  destruct (is_rust_keyword _); [discriminate|]. intros H; now inversion H.
Qed.

Lemma validate_reject_reason name r : validate_program_name name = Reject r -> 1 <= r <= 6.
Proof.
  unfold validate_program_name. destruct name as [|c rest].
  - intros H; inversion H. unfold R_EMPTY; lia.
  - destruct (negb (is_lower c)).
    + intros H; inversion H. unfold R_FIRST; lia.
    + destruct (scan false rest) as [[|]|bad] eqn:Hs.
      * intros H; inversion H. unfold R_TRAILING; lia.
      * destruct (is_rust_keyword _); intros H; inversion H. unfold R_KEYWORD; lia.
      * intros H; inversion H; subst. apply scan_bad_reason in Hs as [->| ->]; unfold R_CONSECUTIVE, R_CHAR; lia.
Qed.

(* ------------------------------------------------------------------------------------------ *)
(* trim removes exactly the maximal whitespace prefix and suffix *)
Lemma trim_start_spec s : exists a, s = a ++ trim_start s /\ forallb is_ws a = true /\
  (forall c r, trim_start s = c :: r -> is_ws c = false).
Proof.
  induction s as [|c r [a [He [Ha Hh]]]]; cbn [trim_start].
  - exists []. split; [reflexivity|]. split; [reflexivity|]. intros; discriminate.
  - destruct (is_ws c) eqn:Hc.
    + exists (c :: a). cbn [app forallb]. rewrite Hc, Ha. split; [now rewrite <- He|]. split; [reflexivity|exact Hh].
    + exists []. split; [reflexivity|]. split; [reflexivity|]. intros c' r' H. inversion H; now subst.
Qed.

Lemma forallb_rev {A} (f : A -> bool) l : forallb f (rev l) = forallb f l.
Proof.
  induction l as [|x l IH]; [reflexivity|]. cbn [rev forallb]. rewrite forallb_app, IH. cbn [forallb].
  rewrite andb_true_r. apply andb_comm.
Qed.

Lemma trim_end_spec s : exists b, s = trim_end s ++ b /\ forallb is_ws b = true /\
  (forall pre c, trim_end s = pre ++ [c] -> is_ws c = false).
Proof.
  unfold trim_end. destruct (trim_start_spec (rev s)) as [a [He [Ha Hh]]].
  exists (rev a). split; [|split].
  - rewrite <- rev_app_distr, <- He. now rewrite rev_involutive.
  - now rewrite forallb_rev.
  - intros pre c H. apply (f_equal (@rev Z)) in H. rewrite rev_involutive, rev_app_distr in H. cbn in H.
    exact (Hh c (rev pre) H).
Qed.

Lemma trim_start_trim_end_head s c r :
  (forall c' r', s = c' :: r' -> is_ws c' = false) -> trim_end s = c :: r -> is_ws c = false.
Proof.
  intros Hs H. destruct (trim_end_spec s) as [b [He _]]. rewrite H in He. cbn [app] in He. exact (Hs c (r ++ b) He).
Qed.

Theorem trim_spec s : exists a b, s = a ++ trim s ++ b /\ forallb is_ws a = true /\ forallb is_ws b = true /\
  (forall c r, trim s = c :: r -> is_ws c = false) /\ (forall pre c, trim s = pre ++ [c] -> is_ws c = false).
Proof.
  unfold trim. destruct (trim_start_spec s) as [a [He [Ha Hh]]].
  destruct (trim_end_spec (trim_start s)) as [b [He' [Hb Hl]]].
  exists a, b. split; [|split; [exact Ha|split; [exact Hb|split]]].
  - rewrite <- He'. exact He.
  - intros c r H. exact (trim_start_trim_end_head _ c r Hh H).
  - exact Hl.
Qed.

Theorem name_iff_proof raw :
  (exists n, validate_arg raw = Accept n) <-> crate_safe (trim raw).
Proof. unfold validate_arg. apply validate_accepts_iff. Qed.

Lemma validate_arg_name raw n : validate_arg raw = Accept n -> n = trim raw.
Proof. unfold validate_arg. apply validate_returns_name. Qed.

(* ------------------------------------------------------------------------------------------ *)
(* facts about accepted names used by the rendering and consistency theorems *)
Lemma crate_safe_chars s : crate_safe s -> forallb allowed s = true.
Proof.
  intros [[c [r [He [Hl Hr]]]] _]. subst s. cbn [forallb]. rewrite Hr, andb_true_r.
  unfold allowed. now rewrite Hl.
Qed.

Definition is_upper (c : Z) : bool := (65 <=? c) && (c <=? 90).
Definition no_brace (s : str) : Prop := ~ In 123 s.

Lemma allowed_range c : allowed c = true -> c <> 123.
Proof.
  unfold allowed, is_lower, is_digit, is_sep. intros H Hc. subst c. cbn in H. discriminate.
Qed.

Lemma forallb_no_brace (f : Z -> bool) s : (forall c, f c = true -> c <> 123) -> forallb f s = true -> no_brace s.
Proof.
  intros Hf H Hin. rewrite forallb_forall in H. exact (Hf 123 (H 123 Hin) eq_refl).
Qed.

Lemma dash_to_us_chars s : forallb allowed s = true ->
  forallb (fun c => is_lower c || is_digit c || (c =? 95)) (dash_to_us s) = true.
Proof.
  induction s as [|c r IH]; [reflexivity|]. unfold dash_to_us. cbn [forallb map]. fold (dash_to_us r). intros H.
  apply andb_true_iff in H as [Hc Hr]. rewrite (IH Hr), andb_true_r.
  destruct (c =? 45) eqn:E; [reflexivity|].
  unfold allowed, is_sep in Hc. rewrite E in Hc. cbn [orb] in Hc. exact Hc.
Qed.

Lemma to_upper_class c : allowed c = true ->
  (is_upper (to_upper c) || is_digit (to_upper c) || is_sep (to_upper c)) = true.
Proof.
  unfold allowed, to_upper. destruct (is_lower c) eqn:Hl.
  - intros _. unfold is_lower in Hl. zb. unfold is_upper.
    replace ((65 <=? c - 32) && (c - 32 <=? 90)) with true; [reflexivity|].
    symmetry. apply andb_true_iff; split; apply Z.leb_le; lia.
  - cbn [orb]. intros H. apply orb_true_iff in H as [H|H]; rewrite H; now rewrite ?orb_true_r.
Qed.

Lemma v_upper_chars s : forallb allowed s = true ->
  forallb (fun c => is_upper c || is_digit c || is_sep c) (v_upper s) = true.
Proof.
  induction s as [|c r IH]; [reflexivity|]. unfold v_upper. cbn [forallb map]. fold (v_upper r). intros H.
  apply andb_true_iff in H as [Hc Hr]. rewrite (IH Hr), andb_true_r. now apply to_upper_class.
Qed.

Definition alnum_mixed (c : Z) : bool := is_lower c || is_upper c || is_digit c.

Lemma pascal_chars s : forall p, forallb allowed s = true -> forallb alnum_mixed (pascal_go p s) = true.
Proof.
  induction s as [|c r IH]; intros p; [reflexivity|]. cbn [forallb pascal_go]. intros H.
  apply andb_true_iff in H as [Hc Hr].
  destruct (is_sep c) eqn:Hs; [apply IH; exact Hr|].
  destruct (is_digit c) eqn:Hd.
  - cbn [forallb]. rewrite (IH _ Hr), andb_true_r. unfold alnum_mixed. rewrite Hd. apply orb_true_r.
  - assert (Hl : is_lower c = true).
    { unfold allowed in Hc. rewrite Hs, Hd in Hc. now rewrite !orb_false_r in Hc. }
    assert (Hu : alnum_mixed (to_upper c) = true).
    { unfold alnum_mixed, to_upper. rewrite Hl. unfold is_lower in Hl. zb. unfold is_upper.
      replace ((65 <=? c - 32) && (c - 32 <=? 90)) with true; [now rewrite orb_true_r|].
      symmetry. apply andb_true_iff; split; apply Z.leb_le; lia. }
    destruct p; cbn [forallb]; rewrite (IH _ Hr), andb_true_r; try exact Hu.
    unfold alnum_mixed. now rewrite Hl.
Qed.

Lemma pascal_head c r : is_lower c = true -> v_pascal (c :: r) = to_upper c :: pascal_go PLower r.
Proof.
  intros Hl. unfold v_pascal. cbn [pascal_go]. rewrite (lower_not_sep c Hl).
  destruct (is_digit c) eqn:Hd; [|reflexivity].
  unfold is_lower in Hl. unfold is_digit in Hd. zb. lia.
Qed.

Lemma no_brace_of (f : Z -> bool) s : (f 123 = false) -> forallb f s = true -> no_brace s.
Proof.
  intros Hf H Hin. rewrite forallb_forall in H. specialize (H 123 Hin). congruence.
Qed.

Lemma accepted_values_no_brace n : crate_safe n ->
  no_brace n /\ no_brace (dash_to_us n) /\ no_brace (v_upper n) /\ no_brace (v_pascal n).
Proof.
  intros Hs. pose proof (crate_safe_chars n Hs) as Hc. split; [|split; [|split]].
  - exact (no_brace_of allowed n eq_refl Hc).
  - exact (no_brace_of _ _ eq_refl (dash_to_us_chars n Hc)).
  - exact (no_brace_of _ _ eq_refl (v_upper_chars n Hc)).
  - exact (no_brace_of _ _ eq_refl (pascal_chars n PStart Hc)).
Qed.

(* the derived names are usable Rust identifiers *)
Definition ident_char (c : Z) : bool := is_lower c || is_digit c || (c =? 95).

Lemma lib_name_ident n : crate_safe n ->
  exists c r, dash_to_us n = c :: r /\ is_lower c = true /\ forallb ident_char r = true /\
              is_rust_keyword (dash_to_us n) = false.
Proof.
  intros Hs. pose proof Hs as [[c [r [He [Hl Hr]]]] [_ [_ Hk]]]. subst n.
  exists c, (dash_to_us r). split; [|split; [exact Hl|split]].
  - cbn [dash_to_us map]. destruct (c =? 45) eqn:E; [|reflexivity].
    apply Z.eqb_eq in E. subst c. discriminate.
  - exact (dash_to_us_chars r Hr).
  - destruct (is_rust_keyword _) eqn:E; [|reflexivity]. apply is_rust_keyword_iff in E. contradiction.
Qed.

Lemma pascal_ident n : crate_safe n ->
  exists c r, v_pascal n = c :: r /\ is_upper c = true /\ forallb alnum_mixed r = true.
Proof.
  intros [[c [r [He [Hl Hr]]]] _]. subst n. rewrite (pascal_head c r Hl).
  exists (to_upper c), (pascal_go PLower r). split; [reflexivity|]. split.
  - unfold to_upper. rewrite Hl. unfold is_lower in Hl. zb. unfold is_upper.
    apply andb_true_iff; split; apply Z.leb_le; lia.
  - exact (pascal_chars r PLower Hr).
Qed.
