(* C20 proofs, part 2: rendering.  A template is cut into literal chunks and holes; under side conditions that are
   CHECKED BY COMPUTATION on the regenerated placeholder chain and template bytes (chain_ok, tpl_ok), the chain of
   `str::replace` calls equals filling the holes, for every name and key whose derived values contain no '{'.
   From that: no placeholder survives, and the text around each hole is known. *)
From SF Require Import Base.Prelude Gen.Gen_c20 Cli.Name Cli.NameProofs Cli.Template.

(* ------------------------------------------------------------------------------------------ *)
Lemma prefixb_app_self p s : prefixb p (p ++ s) = true.
Proof. induction p as [|x p IH]; [reflexivity|]. cbn [prefixb app]. now rewrite Z.eqb_refl, IH. Qed.

Lemma prefixb_true p s : prefixb p s = true -> exists r, s = p ++ r.
Proof.
  revert s; induction p as [|x p IH]; intros s H.
  - now exists s.
  - destruct s as [|y s]; [discriminate|]. cbn [prefixb] in H. apply andb_true_iff in H as [H1 H2].
    apply Z.eqb_eq in H1. subst y. destruct (IH s H2) as [r ->]. now exists r.
Qed.

(* p and u differ at an index inside both *)
Fixpoint clash (p u : str) : bool :=
  match p, u with
  | x :: p', y :: u' => negb (x =? y) || clash p' u'
  | _, _ => false
  end.

Lemma clash_no_prefix p u : clash p u = true -> forall rest, prefixb p (u ++ rest) = false.
Proof.
  revert u; induction p as [|x p IH]; intros [|y u] H rest; try discriminate.
  cbn [clash] in H. cbn [prefixb app]. destruct (x =? y); cbn [negb orb andb] in *; [now apply IH | reflexivity].
Qed.

(* no match of p can START inside the chunk, whatever follows it *)
Fixpoint inert (p chunk : str) : bool :=
  match chunk with
  | [] => true
  | _ :: r => clash p chunk && inert p r
  end.

Lemma repl_skip p v l : forall s, repl p v (length l) (l ++ s) = repl p v 0 s.
Proof. induction l as [|x l IH]; intros s; [reflexivity|]. cbn [length app repl]. apply IH. Qed.

Lemma repl_inert p v chunk : inert p chunk = true -> forall s, repl p v 0 (chunk ++ s) = chunk ++ repl p v 0 s.
Proof.
  induction chunk as [|c r IH]; intros H s; [reflexivity|].
  cbn [inert] in H. apply andb_true_iff in H as [Hc Hr].
  cbn [app repl]. change (c :: r ++ s) with ((c :: r) ++ s). rewrite (clash_no_prefix p (c :: r) Hc s).
  cbn [app]. now rewrite IH.
Qed.

Lemma repl_match p v : p <> [] -> forall s, repl p v 0 (p ++ s) = v ++ repl p v 0 s.
Proof.
  destruct p as [|x p]; [congruence|]. intros _ s.
  cbn [app repl]. change (x :: p ++ s) with ((x :: p) ++ s). rewrite prefixb_app_self.
  replace (length (x :: p) - 1)%nat with (length p) by (cbn [length]; lia). now rewrite repl_skip.
Qed.

Lemma inert_no_brace p v : (exists r, p = 123 :: r) -> no_brace v -> inert p v = true.
Proof.
  intros [r ->] Hv. induction v as [|c v IH]; [reflexivity|].
  cbn [inert clash]. assert (Hc : c <> 123) by (intros ->; apply Hv; now left).
  replace (123 =? c) with false by (symmetry; apply Z.eqb_neq; congruence).
  cbn [negb orb andb]. apply IH. intros Hin. apply Hv. now right.
Qed.

(* ------------------------------------------------------------------------------------------ *)
Inductive seg := Lit (t : str) | Hole (field : nat).

Definition flat (ph : nat -> str) (segs : list seg) : str :=
  flat_map (fun s => match s with Lit t => t | Hole f => ph f end) segs.

Definition chain := list (str * nat).

(* a field that is still to be replaced shows its pattern, any other field its value *)
Definition ph (todo : chain) (vals : nat -> str) (f : nat) : str :=
  match find (fun e => Nat.eqb (snd e) f) todo with
  | Some e => fst e
  | None => vals f
  end.

Definition starts_brace (p : str) : bool := match p with c :: _ => c =? 123 | [] => false end.

Fixpoint chain_ok (todo : chain) : bool :=
  match todo with
  | [] => true
  | (p, f) :: r => starts_brace p && negb (existsb (fun e => Nat.eqb (snd e) f) r) &&
                   forallb (fun e => inert p (fst e)) r && chain_ok r
  end.

Definition lits_ok (c : chain) (segs : list seg) : bool :=
  forallb (fun s => match s with Lit t => forallb (fun e => inert (fst e) t) c | Hole _ => true end) segs.

Lemma starts_brace_inv p : starts_brace p = true -> exists r, p = 123 :: r.
Proof. destruct p as [|c r]; [discriminate|]. cbn. intros H. apply Z.eqb_eq in H. subst. now exists r. Qed.

Lemma ph_other p f0 todo vals f : f <> f0 -> ph ((p, f0) :: todo) vals f = ph todo vals f.
Proof.
  intros H. unfold ph. cbn [find snd]. destruct (Nat.eqb f0 f) eqn:E; [|reflexivity].
  apply Nat.eqb_eq in E. congruence.
Qed.

Lemma ph_head p f0 todo vals : ph ((p, f0) :: todo) vals f0 = p.
Proof. unfold ph. cbn [find snd]. now rewrite Nat.eqb_refl. Qed.

Lemma ph_absent todo vals f : existsb (fun e => Nat.eqb (snd e) f) todo = false -> ph todo vals f = vals f.
Proof.
  unfold ph. induction todo as [|e r IH]; [reflexivity|]. cbn [existsb find]. intros H.
  apply orb_false_iff in H as [H1 H2]. rewrite H1. now apply IH.
Qed.

Lemma ph_inert p todo vals f :
  (exists r, p = 123 :: r) -> (forall g, no_brace (vals g)) ->
  forallb (fun e => inert p (fst e)) todo = true -> inert p (ph todo vals f) = true.
Proof.
  intros Hp Hv Hall. unfold ph. destruct (find _ todo) as [e|] eqn:E.
  - apply find_some in E as [Hin _]. rewrite forallb_forall in Hall. now apply Hall.
  - now apply inert_no_brace.
Qed.

(* one pass of the chain *)
Lemma pass p f0 todo vals segs :
  starts_brace p = true -> existsb (fun e => Nat.eqb (snd e) f0) todo = false ->
  forallb (fun e => inert p (fst e)) todo = true ->
  (forall g, no_brace (vals g)) ->
  forallb (fun s => match s with Lit t => inert p t | Hole _ => true end) segs = true ->
  replace p (vals f0) (flat (ph ((p, f0) :: todo) vals) segs) = flat (ph todo vals) segs.
Proof.
  intros Hb Hnd Hlater Hv Hl. destruct (starts_brace_inv p Hb) as [pr Hp].
  assert (Hne : p <> []) by (subst p; discriminate).
  assert (Hrep : forall v s, replace p v s = repl p v 0 s) by (intros; rewrite Hp; reflexivity).
  rewrite Hrep. clear Hrep Hp.
  induction segs as [|s segs IH]; [reflexivity|].
  cbn [forallb] in Hl. apply andb_true_iff in Hl as [Hs Hl]. specialize (IH Hl).
  unfold flat in *. cbn [flat_map]. destruct s as [t|f].
  - rewrite (repl_inert p _ t Hs). now rewrite IH.
  - destruct (Nat.eq_dec f f0) as [->|Hf].
    + rewrite ph_head. rewrite (repl_match p _ Hne). rewrite IH. now rewrite (ph_absent todo vals f0 Hnd).
    + rewrite (ph_other p f0 todo vals f Hf).
      rewrite (repl_inert p _ (ph todo vals f)); [now rewrite IH|].
      apply ph_inert; auto. now apply starts_brace_inv.
Qed.

Lemma lits_ok_head p f r segs : lits_ok ((p, f) :: r) segs = true ->
  forallb (fun s => match s with Lit t => inert p t | Hole _ => true end) segs = true /\ lits_ok r segs = true.
Proof.
  unfold lits_ok. induction segs as [|s segs IH]; [auto|]. cbn [forallb]. intros H.
  apply andb_true_iff in H as [H1 H2]. destruct (IH H2) as [Ha Hb]. rewrite Ha, Hb.
  destruct s as [t|g]; [|auto]. cbn [forallb fst] in H1. apply andb_true_iff in H1 as [H3 H4]. now rewrite H3, H4.
Qed.

Lemma passes (todo : chain) vals segs :
  chain_ok todo = true -> lits_ok todo segs = true -> (forall g, no_brace (vals g)) ->
  fold_left (fun acc e => replace (fst e) (vals (snd e)) acc) todo (flat (ph todo vals) segs) = flat vals segs.
Proof.
  intros Hc Hl Hv. induction todo as [|[p f] r IH].
  - cbn [fold_left]. unfold flat. f_equal.
  - cbn [chain_ok] in Hc. apply andb_true_iff in Hc as [Hc Hc4]. apply andb_true_iff in Hc as [Hc Hc3].
    apply andb_true_iff in Hc as [Hc1 Hc2]. apply negb_true_iff in Hc2.
    apply lits_ok_head in Hl as [Hl1 Hl2].
    cbn [fold_left fst snd]. rewrite (pass p f r vals segs Hc1 Hc2 Hc3 Hv Hl1). now apply IH.
Qed.

(* ------------------------------------------------------------------------------------------ *)
(* cutting a template: maximal literal runs between matches of any pattern of the chain *)
Definition flush (acc : str) : list seg := match acc with [] => [] | _ => [Lit (rev acc)] end.

Fixpoint tok (c : chain) (skip : nat) (acc : str) (s : str) : list seg :=
  match s with
  | [] => flush acc
  | ch :: r =>
      match skip with
      | S k => tok c k acc r
      | O => match find (fun e => prefixb (fst e) s) c with
             | Some e => flush acc ++ Hole (snd e) :: tok c (length (fst e) - 1) [] r
             | None => tok c 0 (ch :: acc) r
             end
      end
  end.

Definition tokenize (c : chain) (tpl : str) : list seg := tok c 0 [] tpl.

Definition holes_in (c : chain) (segs : list seg) : bool :=
  forallb (fun s => match s with Lit _ => true | Hole f => existsb (fun e => Nat.eqb (snd e) f) c end) segs.

(* all side conditions of one template; decided by computation *)
Definition tpl_ok (c : chain) (tpl : str) : bool :=
  let segs := tokenize c tpl in
  str_eqb (flat (ph c (fun _ => [])) segs) tpl && holes_in c segs && lits_ok c segs.

Lemma flat_ph_indep c vals vals' segs : holes_in c segs = true -> flat (ph c vals) segs = flat (ph c vals') segs.
Proof.
  unfold flat. induction segs as [|s segs IH]; [reflexivity|]. cbn [holes_in forallb flat_map]. intros H.
  apply andb_true_iff in H as [H1 H2]. fold (holes_in c segs) in H2. rewrite (IH H2). f_equal.
  destruct s as [t|f]; [reflexivity|]. unfold ph.
  destruct (find (fun e => Nat.eqb (snd e) f) c) as [e|] eqn:E; [reflexivity|].
  exfalso. rewrite existsb_exists in H1. destruct H1 as [e [Hin He]].
  exact (eq_true_false_abs _ He (find_none _ _ E e Hin)).
Qed.

Definition vals_of (name pubkey : str) : nat -> str := fun f => value_of f name pubkey.

Theorem render_fills_holes tpl name pubkey :
  chain_ok c20_placeholders = true -> tpl_ok c20_placeholders tpl = true ->
  (forall g, no_brace (vals_of name pubkey g)) ->
  render tpl name pubkey = flat (vals_of name pubkey) (tokenize c20_placeholders tpl).
Proof.
  intros Hc Ht Hv. unfold tpl_ok in Ht. apply andb_true_iff in Ht as [Ht Hl]. apply andb_true_iff in Ht as [He Hh].
  apply str_eqb_eq in He. unfold render.
  rewrite <- He at 1. rewrite (flat_ph_indep _ _ (vals_of name pubkey) _ Hh).
  exact (passes c20_placeholders (vals_of name pubkey) _ Hc Hl Hv).
Qed.

(* ------------------------------------------------------------------------------------------ *)
(* no placeholder survives *)
Lemma inert_chunk_no_occ p t : p <> [] -> inert p t = true -> forall s,
  (forall pre post, s <> pre ++ p ++ post) -> forall pre post, t ++ s <> pre ++ p ++ post.
Proof.
  intros Hne. induction t as [|c r IH]; intros Hi s Hs pre post; [apply Hs|].
  cbn [inert] in Hi. apply andb_true_iff in Hi as [Hc Hr].
  destruct pre as [|x pre]; cbn [app]; intros He.
  - pose proof (clash_no_prefix p (c :: r) Hc s) as Hn. cbn [app] in Hn. rewrite He in Hn.
    now rewrite prefixb_app_self in Hn.
  - inversion He; subst. exact (IH Hr s Hs pre post H1).
Qed.

Lemma flat_no_occ p vals segs : (exists r, p = 123 :: r) -> (forall g, no_brace (vals g)) ->
  forallb (fun s => match s with Lit t => inert p t | Hole _ => true end) segs = true ->
  forall pre post, flat vals segs <> pre ++ p ++ post.
Proof.
  intros Hp Hv. assert (Hne : p <> []) by (destruct Hp as [r ->]; discriminate).
  induction segs as [|s segs IH]; intros Hl pre post.
  - cbn. intros H. symmetry in H. apply app_eq_nil in H as [_ H]. apply app_eq_nil in H as [H _]. contradiction.
  - cbn [forallb] in Hl. apply andb_true_iff in Hl as [Hs Hl]. unfold flat. cbn [flat_map].
    apply inert_chunk_no_occ; [exact Hne | | exact (IH Hl)].
    destruct s as [t|f]; [exact Hs | now apply inert_no_brace].
Qed.

Lemma lits_ok_in c segs p f : lits_ok c segs = true -> In (p, f) c ->
  forallb (fun s => match s with Lit t => inert p t | Hole _ => true end) segs = true.
Proof.
  intros Hl Hin. induction c as [|[q g] r IH]; [contradiction|].
  apply lits_ok_head in Hl as [H1 H2]. destruct Hin as [He|Hin]; [inversion He; now subst | now apply IH].
Qed.

Lemma chain_ok_braces c p f : chain_ok c = true -> In (p, f) c -> exists r, p = 123 :: r.
Proof.
  induction c as [|[q g] r IH]; [contradiction|]. cbn [chain_ok]. intros H Hin.
  apply andb_true_iff in H as [H H4]. apply andb_true_iff in H as [H H3]. apply andb_true_iff in H as [H1 H2].
  destruct Hin as [He|Hin]; [inversion He; subst; now apply starts_brace_inv | now apply IH].
Qed.

Theorem no_placeholder_proof tpl name pubkey p f :
  chain_ok c20_placeholders = true -> tpl_ok c20_placeholders tpl = true ->
  (forall g, no_brace (vals_of name pubkey g)) -> In (p, f) c20_placeholders ->
  ~ occurs p (render tpl name pubkey).
Proof.
  intros Hc Ht Hv Hin [pre [post He]]. rewrite (render_fills_holes tpl name pubkey Hc Ht Hv) in He.
  unfold tpl_ok in Ht. apply andb_true_iff in Ht as [_ Hl].
  exact (flat_no_occ p _ _ (chain_ok_braces _ p f Hc Hin) Hv (lits_ok_in _ _ p f Hl Hin) pre post He).
Qed.

(* ------------------------------------------------------------------------------------------ *)
(* the text around the k-th hole *)
Fixpoint hole_ctx (k : nat) (prev : str) (segs : list seg) : option (str * nat * str) :=
  match segs with
  | [] => None
  | Lit t :: r => hole_ctx k t r
  | Hole f :: r => match k with
                   | O => Some (prev, f, match r with Lit t :: _ => t | _ => [] end)
                   | S k' => hole_ctx k' [] r
                   end
  end.

Lemma hole_ctx_spec vals segs : forall k prev t1 f t2 X,
  hole_ctx k prev segs = Some (t1, f, t2) ->
  exists pre post, X ++ prev ++ flat vals segs = pre ++ t1 ++ vals f ++ t2 ++ post.
Proof.
  induction segs as [|s segs IH]; intros k prev t1 f t2 X H; [discriminate|].
  destruct s as [t|g]; cbn [hole_ctx] in H.
  - destruct (IH k t t1 f t2 (X ++ prev) H) as [pre [post He]]. exists pre, post.
    unfold flat in *. cbn [flat_map]. rewrite <- He. now rewrite <- ?app_assoc.
  - destruct k as [|k].
    + inversion H; subst. unfold flat. cbn [flat_map]. destruct segs as [|[t|g'] segs'].
      * exists X, []. cbn. now rewrite !app_nil_r.
      * exists X, (flat_map (fun s => match s with Lit t => t | Hole f => vals f end) segs').
        cbn [flat_map]. now rewrite <- ?app_assoc.
      * exists X, (flat_map (fun s => match s with Lit t => t | Hole f => vals f end) (Hole g' :: segs')).
        reflexivity.
    + destruct (IH k [] t1 f t2 (X ++ prev ++ vals g) H) as [pre [post He]]. exists pre, post.
      unfold flat in *. cbn [flat_map]. rewrite <- He. cbn [app]. now rewrite <- ?app_assoc.
Qed.

Fixpoint suffixb (l t : str) : bool := str_eqb l t || match t with [] => false | _ :: r => suffixb l r end.

Lemma suffixb_true l t : suffixb l t = true -> exists a, t = a ++ l.
Proof.
  induction t as [|c r IH]; cbn [suffixb]; intros H.
  - rewrite orb_false_r in H. apply str_eqb_eq in H. subst. now exists [].
  - apply orb_true_iff in H as [H|H].
    + apply str_eqb_eq in H. subst. now exists [].
    + destruct (IH H) as [a ->]. now exists (c :: a).
Qed.

(* decidable: the k-th hole is field f and is surrounded by l1 ... l2 *)
Definition ctx_ok (k : nat) (l1 : str) (f : nat) (l2 : str) (segs : list seg) : bool :=
  match hole_ctx k [] segs with
  | Some (t1, g, t2) => Nat.eqb f g && suffixb l1 t1 && prefixb l2 t2
  | None => false
  end.

Lemma ctx_occurs vals k l1 f l2 segs :
  ctx_ok k l1 f l2 segs = true -> occurs (l1 ++ vals f ++ l2) (flat vals segs).
Proof.
  unfold ctx_ok. destruct (hole_ctx k [] segs) as [[[t1 g] t2]|] eqn:E; [|discriminate].
  intros H. apply andb_true_iff in H as [H H3]. apply andb_true_iff in H as [H1 H2].
  apply Nat.eqb_eq in H1. subst g.
  destruct (suffixb_true _ _ H2) as [a ->]. destruct (prefixb_true _ _ H3) as [b ->].
  destruct (hole_ctx_spec vals segs k [] _ f _ [] E) as [pre [post He]]. cbn [app] in He.
  exists (pre ++ a), (b ++ post). rewrite He. now rewrite <- ?app_assoc.
Qed.

(* ------------------------------------------------------------------------------------------ *)
(* the side conditions hold for the regenerated chain and templates *)
Lemma c20_chain_ok : chain_ok c20_placeholders = true.
Proof. vm_compute. reflexivity. Qed.

Lemma c20_templates_ok : forallb (fun ft => tpl_ok c20_placeholders (snd ft)) c20_files = true.
Proof. vm_compute. reflexivity. Qed.

Lemma c20_template_ok rel tpl : In (rel, tpl) c20_files -> tpl_ok c20_placeholders tpl = true.
Proof.
  intros Hin. pose proof c20_templates_ok as H. rewrite forallb_forall in H. exact (H (rel, tpl) Hin).
Qed.

Lemma vals_no_brace raw name pubkey :
  validate_arg raw = Accept name -> no_brace pubkey -> forall g, no_brace (vals_of name pubkey g).
Proof.
  intros Hv Hpk g. assert (Hs : crate_safe name).
  { pose proof (validate_arg_name raw name Hv) as ->. apply name_iff_proof. now exists (trim raw). }
  destruct (accepted_values_no_brace name Hs) as [H0 [H1 [H2 H3]]].
  unfold vals_of, value_of. destruct g as [|[|[|[|g]]]]; assumption.
Qed.
