(* C20 proofs, part 4: the scaffolding sequence is all-or-nothing for EVERY injection oracle. *)
From SF Require Import Base.Prelude Gen.Gen_c20 Cli.Name Cli.NameProofs Cli.Template Cli.Fs Cli.FsProofs Cli.Scaffold.

(* ------------------------------------------------------------------------------------------ *)
(* the complete project, as a function of the path below the target directory (specification) *)
Definition project_tree (name pubkey keyjson : str) (rel : path) : option node :=
  match find (fun ft => path_eqb rel (fst ft)) (rendered_files name pubkey) with
  | Some ft => Some (File (snd ft))
  | None =>
      if path_eqb rel (keypair_rel name) then Some (File keyjson)
      else if existsb (fun d => is_prefix rel d) (c20_keypair_dir :: c20_dirs) then Some Dir
      else None
  end.

(* side conditions on the regenerated tables; decided by computation *)
Fixpoint nodupb (l : list path) : bool :=
  match l with
  | [] => true
  | p :: r => negb (existsb (path_eqb p) r) && nodupb r
  end.

Definition tables_ok : bool :=
  nodupb (map fst c20_files) &&
  forallb (fun ft => match fst ft with [] => false | _ => negb (is_prefix c20_keypair_dir (fst ft)) end) c20_files &&
  (0 <? length c20_staging_prefix + length c20_staging_infix)%nat.

Lemma c20_tables_ok : tables_ok = true.
Proof. vm_compute. reflexivity. Qed.

Lemma nodupb_NoDup l : nodupb l = true -> NoDup l.
Proof.
  induction l as [|p r IH]; intros H; [constructor|]. cbn [nodupb] in H. apply andb_true_iff in H as [H1 H2].
  constructor; [|now apply IH]. intros Hin. apply negb_true_iff in H1.
  assert (existsb (path_eqb p) r = true) by (apply existsb_exists; exists p; split; [assumption|apply path_eqb_refl]).
  congruence.
Qed.

(* ------------------------------------------------------------------------------------------ *)
Section WithOracle.
Variable inj : oracle.
Variable x : str.                 (* the staging directory's name; S = [x] *)
Notation S := [x].

Definition strict (q : path) : Prop := is_prefix S q = true /\ q <> S.

(* f evolved from f0 by changes confined to the subtree of S, which is a well-formed tree of dirs and files *)
Record Good (f0 f : fs) : Prop := {
  g_conf : forall q, is_prefix S q = false -> lookup q f = lookup q f0;
  g_root : lookup S f = Some Dir;
  g_par : forall q, strict q -> lookup q f <> None -> lookup (parent q) f = Some Dir;
  g_nosym : forall q t, is_prefix S q = true -> lookup q f <> Some (Symlink t)
}.

Lemma strict_parent q : strict q -> is_prefix S (parent q) = true /\ q <> [] /\ parent q <> q.
Proof. intros [H1 H2]. now apply parent_under. Qed.

Lemma good_set f0 f p n :
  Good f0 f -> strict p -> lookup p f <> Some Dir -> (forall t, n <> Symlink t) ->
  lookup (parent p) f = Some Dir -> Good f0 (set p n f).
Proof.
  intros G Hp Hnd Hn Hpar. destruct (strict_parent p Hp) as [Hpp [Hne Hpne]]. destruct Hp as [Hp1 Hp2]. constructor.
  - intros q Hq. rewrite lookup_set_neq; [now apply (g_conf _ _ G)|]. intros ->. congruence.
  - rewrite lookup_set_neq; [exact (g_root _ _ G) | congruence].
  - intros q Hq Hpres. destruct (path_eq_dec q p) as [->|Hqp].
    + rewrite lookup_set_neq; assumption.
    + rewrite lookup_set_neq in Hpres by assumption. pose proof (g_par _ _ G q Hq Hpres) as Hd.
      rewrite lookup_set_neq; [exact Hd|]. intros He. rewrite He in Hd. contradiction.
  - intros q t Hq. destruct (path_eq_dec q p) as [->|Hqp].
    + rewrite lookup_set_eq. intros H. inversion H. exact (Hn t H1).
    + rewrite lookup_set_neq by assumption. exact (g_nosym _ _ G q t Hq).
Qed.

Lemma good_is_dir f0 f p : Good f0 f -> is_prefix S p = true -> path_is_dir f p = true -> lookup p f = Some Dir.
Proof.
  intros G Hp. unfold path_is_dir, stat. rewrite resolve_no_symlink by (intros t; exact (g_nosym _ _ G p t Hp)).
  destruct (lookup p f) as [[| |]|]; congruence.
Qed.

(* every ancestor (inside S) of a present directory entry is a directory *)
Lemma good_ancestors f0 f a : Good f0 f -> is_prefix S a = true -> forall r,
  lookup (a ++ r) f <> None -> lookup a f = Some Dir \/ r = [].
Proof.
  intros G Ha r. induction r as [|y r IH] using rev_ind; [now right|]. intros Hpres. left.
  assert (Hs : strict (a ++ r ++ [y])).
  { split.
    - apply (is_prefix_trans S a); [assumption | apply is_prefix_app].
    - intros He. apply is_prefix_iff in Ha as [r0 ->]. apply (f_equal (@length str)) in He.
      rewrite !app_length in He. cbn in He. lia. }
  pose proof (g_par _ _ G _ Hs Hpres) as Hp. rewrite app_assoc, parent_app_last in Hp.
  destruct (IH ltac:(congruence)) as [H| ->]; [exact H | now rewrite app_nil_r in Hp].
Qed.

Lemma good_prefix_dir f0 f a q : Good f0 f -> is_prefix S a = true -> is_prefix a q = true ->
  lookup q f = Some Dir -> lookup a f = Some Dir.
Proof.
  intros G Ha Hq Hd. apply is_prefix_iff in Hq as [r ->].
  destruct (good_ancestors f0 f a G Ha r ltac:(congruence)) as [H| ->]; [exact H | now rewrite app_nil_r in Hd].
Qed.

(* ------------------------------------------------------------------------------------------ *)
Lemma sys_cases c k s s' r : sys inj c k s = (s', r) ->
  (cur s' = cur s /\ exists e, r = RErr e) \/ (k (cur s) = ROk (cur s') /\ r = ROk tt).
Proof.
  unfold sys. destruct (inj c (count c s)) as [e|].
  - intros H; inversion H; subst. left. split; [now destruct c | now exists e].
  - destruct (k (cur s)) as [f'|e] eqn:E; intros H; inversion H; subst.
    + right. split; [now destruct c | reflexivity].
    + left. split; [now destruct c | now exists e].
Qed.

(* a directory entry appears: nothing else changes *)
Definition OnlyNewDirs (p : path) (f f' : fs) : Prop :=
  (forall q, lookup q f <> None -> lookup q f' = lookup q f) /\
  (forall q, lookup q f = None -> lookup q f' <> None -> lookup q f' = Some Dir /\ is_prefix q p = true /\ strict q).

Lemma ond_refl p f : OnlyNewDirs p f f.
Proof. split; [reflexivity | intros q H1 H2; contradiction]. Qed.

Lemma ond_trans p1 p2 f f1 f2 :
  OnlyNewDirs p1 f f1 -> OnlyNewDirs p2 f1 f2 -> (forall q, is_prefix q p1 = true -> is_prefix q p2 = true) ->
  OnlyNewDirs p2 f f2.
Proof.
  intros [A1 A2] [B1 B2] Hp. split.
  - intros q Hq. rewrite B1; [now apply A1 | rewrite A1; assumption].
  - intros q Hq Hq2. destruct (lookup q f1) eqn:E.
    + assert (Hq1 : lookup q f1 <> None) by congruence. destruct (A2 q Hq Hq1) as [Hd [Hpre Hs]].
      rewrite (B1 q Hq1). split; [exact Hd|]. split; [now apply Hp | exact Hs].
    + exact (B2 q E Hq2).
Qed.

Lemma ond_set p f : strict p -> lookup p f = None -> OnlyNewDirs p f (set p Dir f).
Proof.
  intros Hs Hn. split.
  - intros q Hq. apply lookup_set_neq. intros ->. contradiction.
  - intros q Hq Hq2. destruct (path_eq_dec q p) as [->|Hne].
    + rewrite lookup_set_eq. split; [reflexivity|]. split; [apply is_prefix_refl | exact Hs].
    + rewrite lookup_set_neq in Hq2 by assumption. contradiction.
Qed.

Lemma mkdir_root_fails f : forall f', k_mkdir [] f <> ROk f'.
Proof.
  intros f'. unfold k_mkdir, parent_check. cbn [parent removelast].
  destruct (lookup [] f) as [n|] eqn:E; discriminate.
Qed.

Lemma sys_mkdir_post f0 p s s' r :
  Good f0 (cur s) -> (is_prefix S p = true \/ p = []) -> sys_mkdir inj p s = (s', r) ->
  (cur s' = cur s /\ exists e, r = RErr e) \/
  (r = ROk tt /\ strict p /\ lookup p (cur s) = None /\ lookup (parent p) (cur s) = Some Dir /\ cur s' = set p Dir (cur s)).
Proof.
  intros G Hp H. apply sys_cases in H as [H|[Hk Hr]]; [now left|]. right.
  destruct Hp as [Hp| ->]; [|exfalso; exact (mkdir_root_fails _ _ Hk)].
  unfold k_mkdir, parent_check in Hk. destruct (lookup p (cur s)) as [n|] eqn:E; [discriminate|].
  destruct (lookup (parent p) (cur s)) as [[| |]|] eqn:E2; try discriminate.
  inversion Hk. split; [exact Hr|]. split; [|auto].
  split; [exact Hp|]. intros ->. rewrite (g_root _ _ G) in E. discriminate.
Qed.

Lemma comparable_parent p : (is_prefix S p = true \/ p = []) -> is_prefix S (parent p) = true \/ parent p = [].
Proof.
  intros [H| ->]; [|now right]. destruct (path_eq_dec p S) as [->|Hne]; [now right|].
  left. now apply parent_under.
Qed.

Lemma create_dir_all_post f0 fuel : forall p s s' r,
  Good f0 (cur s) -> (is_prefix S p = true \/ p = []) -> create_dir_all inj fuel p s = (s', r) ->
  Good f0 (cur s') /\ OnlyNewDirs p (cur s) (cur s') /\
  (r = ROk tt -> is_prefix S p = true -> lookup p (cur s') = Some Dir).
Proof.
  induction fuel as [|fuel IH]; intros p s s' r G Hp H; cbn [create_dir_all] in H.
  - inversion H; subst. split; [exact G|]. split; [apply ond_refl | discriminate].
  - destruct (sys_mkdir inj p s) as [s1 r1] eqn:E1.
    destruct (sys_mkdir_post f0 p s s1 r1 G Hp E1) as [[Hc [e He]]|[Hr [Hs [Hn [Hpar Hc]]]]].
    + subst r1. destruct (e =? ENOENT) eqn:Een.
      * destruct (match p with [] => (s1, ROk tt) | _ :: _ => create_dir_all inj fuel (parent p) s1 end) as [s2 r2] eqn:E2.
        assert (H2 : Good f0 (cur s2) /\ OnlyNewDirs p (cur s) (cur s2)).
        { destruct p as [|p0 pr].
          - inversion E2; subst. rewrite Hc. split; [exact G | apply ond_refl].
          - rewrite <- Hc in G. destruct (IH _ _ _ _ G (comparable_parent _ Hp) E2) as [G2 [O2 _]].
            split; [exact G2|]. rewrite <- Hc. apply (ond_trans (parent (p0 :: pr)) _ _ _ _ O2 (ond_refl _ _)).
            intros q Hq. exact (is_prefix_trans _ _ _ Hq (parent_prefix _)). }
        destruct H2 as [G2 O2]. destruct r2 as [[]|e2].
        -- destruct (sys_mkdir inj p s2) as [s3 r3] eqn:E3.
           destruct (sys_mkdir_post f0 p s2 s3 r3 G2 Hp E3) as [[Hc3 [e3 He3]]|[Hr3 [Hs3 [Hn3 [Hpar3 Hc3]]]]].
           ++ subst r3. destruct (path_is_dir (cur s3) p) eqn:Ed; inversion H; subst; rewrite Hc3.
              ** split; [exact G2|]. split; [exact O2|]. intros _ Hpp. rewrite Hc3 in Ed. exact (good_is_dir f0 _ p G2 Hpp Ed).
              ** split; [exact G2|]. split; [exact O2 | discriminate].
           ++ subst r3. inversion H; subst. rewrite Hc3. split; [|split].
              ** apply good_set; auto; [congruence | discriminate].
              ** apply (ond_trans p p _ _ _ O2 (ond_set p _ Hs3 Hn3)). auto.
              ** intros _ _. apply lookup_set_eq.
        -- inversion H; subst. split; [exact G2|]. split; [exact O2 | discriminate].
      * destruct (path_is_dir (cur s1) p) eqn:Ed; inversion H; subst; rewrite Hc.
        -- split; [exact G|]. split; [apply ond_refl|]. intros _ Hpp. rewrite Hc in Ed. exact (good_is_dir f0 _ p G Hpp Ed).
        -- split; [exact G|]. split; [apply ond_refl | discriminate].
    + subst r1. inversion H; subst. rewrite Hc. split; [|split].
      * apply good_set; auto; [congruence | discriminate].
      * now apply ond_set.
      * intros _ _. apply lookup_set_eq.
Qed.

Lemma mkdir_all_post f0 p s s' r :
  Good f0 (cur s) -> is_prefix S p = true -> mkdir_all inj p s = (s', r) ->
  Good f0 (cur s') /\ OnlyNewDirs p (cur s) (cur s') /\ (r = ROk tt -> lookup p (cur s') = Some Dir).
Proof.
  intros G Hp H. unfold mkdir_all in H.
  destruct (create_dir_all_post f0 _ p s s' r G (or_introl Hp) H) as [G' [O Hd]]. auto.
Qed.

(* ------------------------------------------------------------------------------------------ *)
(* only the file at p changes, and only from absent-or-file to file *)
Definition OnlyFile (p : path) (f f' : fs) : Prop :=
  (forall q, q <> p -> lookup q f' = lookup q f) /\
  (lookup p f' = lookup p f \/ (lookup p f <> Some Dir /\ exists c, lookup p f' = Some (File c))).

Lemma write_file_post f0 p b s s' r :
  Good f0 (cur s) -> strict p -> write_file inj p b s = (s', r) ->
  Good f0 (cur s') /\ OnlyFile p (cur s) (cur s') /\ (r = ROk tt -> lookup p (cur s') = Some (File b)).
Proof.
  intros G Hp H. unfold write_file in H. destruct (sys_open inj p s) as [s1 r1] eqn:E1.
  apply sys_cases in E1 as [[Hc [e He]]|[Hk Hr]].
  - subst r1. inversion H; subst. rewrite Hc. split; [exact G|]. split; [|discriminate].
    split; [reflexivity | now left].
  - subst r1.
    assert (H1 : exists c0, cur s1 = set p (File c0) (cur s) /\ lookup p (cur s) <> Some Dir /\ lookup (parent p) (cur s) = Some Dir).
    { unfold k_open_create, parent_check in Hk. destruct (lookup p (cur s)) as [[|c|t]|] eqn:E; try discriminate.
      - inversion Hk. exists []. split; [reflexivity|]. split; [discriminate|].
        apply (g_par _ _ G p Hp). congruence.
      - destruct (lookup (parent p) (cur s)) as [[| |]|] eqn:E2; try discriminate. inversion Hk.
        exists []. split; [reflexivity|]. split; [discriminate | reflexivity]. }
    destruct H1 as [c0 [Hc1 [Hnd Hpar]]].
    assert (G1 : Good f0 (cur s1)) by (rewrite Hc1; apply good_set; auto; discriminate).
    assert (Hl1 : lookup p (cur s1) = Some (File c0)) by (rewrite Hc1; apply lookup_set_eq).
    apply sys_cases in H as [[Hc [e He]]|[Hk2 Hr2]].
    + subst r. rewrite Hc. split; [exact G1|]. split; [|discriminate]. split.
      * intros q Hq. rewrite Hc1. now apply lookup_set_neq.
      * right. split; [exact Hnd | now exists c0].
    + unfold k_write in Hk2. rewrite Hl1 in Hk2. inversion Hk2 as [Hc2].
      assert (Hpar1 : lookup (parent p) (cur s1) = Some Dir) by (apply (g_par _ _ G1 p Hp); congruence).
      split; [|split].
      * apply good_set; auto; [congruence | discriminate].
      * split.
        -- intros q Hq. rewrite lookup_set_neq by assumption. rewrite Hc1. now apply lookup_set_neq.
        -- right. split; [exact Hnd|]. exists b. apply lookup_set_eq.
      * intros _. apply lookup_set_eq.
Qed.

(* ------------------------------------------------------------------------------------------ *)
Lemma is_prefix_app_inv (a r d : path) : is_prefix (a ++ r) (a ++ d) = is_prefix r d.
Proof. induction a as [|y a IH]; [reflexivity|]. cbn [app is_prefix]. now rewrite str_eqb_refl, IH. Qed.

Lemma mkdirs_post f0 ds : forall s s' r,
  Good f0 (cur s) -> mkdirs inj S ds s = (s', r) ->
  Good f0 (cur s') /\
  (forall q, lookup q (cur s) <> None -> lookup q (cur s') = lookup q (cur s)) /\
  (forall q, lookup q (cur s) = None -> lookup q (cur s') <> None ->
     lookup q (cur s') = Some Dir /\ exists d, In d ds /\ is_prefix q (S ++ d) = true) /\
  (r = ROk tt -> forall d, In d ds -> lookup (S ++ d) (cur s') = Some Dir).
Proof.
  induction ds as [|d ds IH]; intros s s' r G H; cbn [mkdirs] in H.
  - inversion H; subst. split; [exact G|]. split; [reflexivity|]. split; [intros q H1 H2; contradiction|].
    intros _ d [].
  - destruct (mkdir_all inj (S ++ d) s) as [s1 r1] eqn:E1.
    destruct (mkdir_all_post f0 _ s s1 r1 G (is_prefix_app S d) E1) as [G1 [[O1 O2] Hd1]].
    destruct r1 as [[]|e1].
    + destruct (IH s1 s' r G1 H) as [G' [P1 [P2 P3]]]. split; [exact G'|]. split; [|split].
      * intros q Hq. rewrite P1; [now apply O1 | rewrite O1; assumption].
      * intros q Hq Hq'. destruct (lookup q (cur s1)) eqn:E.
        -- assert (Hq1 : lookup q (cur s1) <> None) by congruence. destruct (O2 q Hq Hq1) as [Hdir [Hpre _]].
           rewrite (P1 q Hq1). split; [exact Hdir|]. exists d. split; [now left | exact Hpre].
        -- destruct (P2 q E Hq') as [Hdir [d' [Hin Hpre]]]. split; [exact Hdir|]. exists d'. split; [now right | exact Hpre].
      * intros Hr d' [<-|Hin]; [|now apply P3].
        rewrite P1; [now apply Hd1 | rewrite (Hd1 eq_refl); discriminate].
    + inversion H; subst. split; [exact G1|]. split; [exact O1|]. split; [|discriminate].
      intros q Hq Hq'. destruct (O2 q Hq Hq') as [Hdir [Hpre _]]. split; [exact Hdir|]. exists d. split; [now left | exact Hpre].
Qed.

Lemma write_files_post f0 files : forall s s' r,
  Good f0 (cur s) -> NoDup (map fst files) -> (forall rel, In rel (map fst files) -> rel <> []) ->
  write_files inj S files s = (s', r) ->
  Good f0 (cur s') /\
  (forall q, (forall rel, In rel (map fst files) -> q <> S ++ rel) -> lookup q (cur s') = lookup q (cur s)) /\
  (r = ROk tt -> forall rel b, In (rel, b) files -> lookup (S ++ rel) (cur s') = Some (File b)).
Proof.
  induction files as [|[rel b] files IH]; intros s s' r G Hnd Hne H; cbn [write_files] in H.
  - inversion H; subst. split; [exact G|]. split; [reflexivity|]. intros _ rel b [].
  - destruct (write_file inj (S ++ rel) b s) as [s1 r1] eqn:E1.
    assert (Hs : strict (S ++ rel)).
    { split; [apply is_prefix_app|]. intros He. apply (Hne rel); [now left|].
      apply (f_equal (@length str)) in He. rewrite app_length in He. cbn in He. destruct rel; [reflexivity | cbn in He; lia]. }
    destruct (write_file_post f0 _ b s s1 r1 G Hs E1) as [G1 [[O1 O2] Hf1]].
    cbn [map fst] in Hnd. inversion Hnd as [|? ? Hnotin Hnd']; subst.
    destruct r1 as [[]|e1].
    + destruct (IH s1 s' r G1 Hnd' (fun rel' Hin => Hne rel' (or_intror Hin)) H) as [G' [P1 P2]].
      split; [exact G'|]. split.
      * intros q Hq. rewrite P1; [apply O1; apply Hq; now left | intros rel' Hin; apply Hq; now right].
      * intros Hr rel' b' [He|Hin].
        -- inversion He; subst. rewrite P1; [now apply Hf1|].
           intros rel'' Hin He'. apply app_inv_head in He'. subst. contradiction.
        -- now apply (P2 Hr).
    + inversion H; subst. split; [exact G1|]. split; [|discriminate].
      intros q Hq. apply O1. apply Hq. now left.
Qed.

(* ------------------------------------------------------------------------------------------ *)
Lemma find_rendered name pubkey rel ft :
  find (fun ft => path_eqb rel (fst ft)) (rendered_files name pubkey) = Some ft ->
  In (rel, snd ft) (rendered_files name pubkey).
Proof.
  intros H. apply find_some in H as [Hin He]. apply path_eqb_eq in He. destruct ft as [k b]. cbn [fst snd] in *. now subst.
Qed.

Lemma rendered_paths name pubkey : map fst (rendered_files name pubkey) = map fst c20_files.
Proof. unfold rendered_files. rewrite map_map. apply map_ext. reflexivity. Qed.

Lemma find_none_not_in rel (files : list (path * list Z)) :
  find (fun ft => path_eqb rel (fst ft)) files = None -> ~ In rel (map fst files).
Proof.
  intros H Hin. apply in_map_iff in Hin as [[k b] [He Hin]]. cbn [fst] in He. subst k.
  pose proof (find_none _ _ H (rel, b) Hin) as Hn. cbn [fst] in Hn. now rewrite path_eqb_refl in Hn.
Qed.

Lemma tables_files_nodup : NoDup (map fst c20_files).
Proof.
  pose proof c20_tables_ok as H. unfold tables_ok in H. apply andb_true_iff in H as [H _]. apply andb_true_iff in H as [H _].
  now apply nodupb_NoDup.
Qed.

Lemma tables_files_shape rel : In rel (map fst c20_files) -> rel <> [] /\ is_prefix c20_keypair_dir rel = false.
Proof.
  intros Hin. pose proof c20_tables_ok as H. unfold tables_ok in H. apply andb_true_iff in H as [H _].
  apply andb_true_iff in H as [_ H]. rewrite forallb_forall in H.
  apply in_map_iff in Hin as [ft [He Hin]]. specialize (H ft Hin). destruct ft as [k b]. cbn [fst] in *. subst k.
  destruct rel; [discriminate|]. split; [discriminate | now apply negb_true_iff].
Qed.

Lemma keypair_not_a_file name : ~ In (keypair_rel name) (map fst c20_files).
Proof.
  intros Hin. destruct (tables_files_shape _ Hin) as [_ H]. unfold keypair_rel in H. now rewrite is_prefix_app in H.
Qed.

Lemma parent_keypair name : parent (S ++ keypair_rel name) = S ++ c20_keypair_dir.
Proof. unfold keypair_rel. rewrite app_assoc. apply parent_app_last. Qed.

(* the body of the closure: confined to S, and on success S holds exactly the project *)
Lemma scaffold_body_post f0 name pubkey keyjson s s' r :
  Good f0 (cur s) -> (forall q, strict q -> lookup q (cur s) = None) ->
  scaffold_body inj S name pubkey keyjson s = (s', r) ->
  Good f0 (cur s') /\ (r = None -> forall rel, lookup (S ++ rel) (cur s') = project_tree name pubkey keyjson rel).
Proof.
  intros G Hempty H. unfold scaffold_body in H.
  destruct (mkdirs inj S c20_dirs s) as [s1 r1] eqn:E1.
  destruct (mkdirs_post f0 _ s s1 r1 G E1) as [G1 [A1 [A2 A3]]].
  destruct r1 as [[]|e1]; [|inversion H; subst; split; [exact G1 | discriminate]].
  destruct (write_files inj S (rendered_files name pubkey) s1) as [s2 r2] eqn:E2.
  assert (Hnd : NoDup (map fst (rendered_files name pubkey))) by (rewrite rendered_paths; apply tables_files_nodup).
  assert (Hne : forall rel, In rel (map fst (rendered_files name pubkey)) -> rel <> []).
  { intros rel Hin. rewrite rendered_paths in Hin. now apply tables_files_shape. }
  destruct (write_files_post f0 _ s1 s2 r2 G1 Hnd Hne E2) as [G2 [B1 B2]].
  destruct r2 as [[]|e2]; [|inversion H; subst; split; [exact G2 | discriminate]].
  rewrite parent_keypair in H.
  destruct (mkdir_all inj (S ++ c20_keypair_dir) s2) as [s3 r3] eqn:E3.
  destruct (mkdir_all_post f0 _ s2 s3 r3 G2 (is_prefix_app _ _) E3) as [G3 [[C1 C2] C3]].
  destruct r3 as [[]|e3]; [|inversion H; subst; split; [exact G3 | discriminate]].
  destruct (mkdir_all inj (S ++ c20_keypair_dir) s3) as [s4 r4] eqn:E4.
  destruct (mkdir_all_post f0 _ s3 s4 r4 G3 (is_prefix_app _ _) E4) as [G4 [[D1 D2] D3]].
  destruct r4 as [[]|e4]; [|inversion H; subst; split; [exact G4 | discriminate]].
  destruct (write_file inj (S ++ keypair_rel name) keyjson s4) as [s5 r5] eqn:E5.
  assert (Hks : strict (S ++ keypair_rel name)).
  { split; [apply is_prefix_app|]. unfold keypair_rel. intros He. apply (f_equal (@length str)) in He.
    rewrite !app_length in He. cbn in He. lia. }
  destruct (write_file_post f0 _ keyjson s4 s5 r5 G4 Hks E5) as [G5 [[F1 F2] F3]].
  destruct r5 as [[]|e5]; inversion H; subst; (split; [exact G5|]); [|discriminate].
  intros _ rel. unfold project_tree.
  assert (Hkd3 : lookup (S ++ c20_keypair_dir) (cur s3) = Some Dir) by now apply C3.
  destruct (find (fun ft => path_eqb rel (fst ft)) (rendered_files name pubkey)) as [ft|] eqn:Ef.
  - (* a rendered file *)
    pose proof (find_rendered _ _ _ _ Ef) as Hin.
    assert (Hrel : In rel (map fst c20_files)).
    { rewrite <- (rendered_paths name pubkey). apply in_map_iff. exists (rel, snd ft). auto. }
    pose proof (B2 eq_refl rel (snd ft) Hin) as Hf2.
    rewrite F1.
    + rewrite D1; [rewrite C1; [exact Hf2 | congruence] | rewrite C1; congruence].
    + intros He. apply app_inv_head in He. subst rel. exact (keypair_not_a_file name Hrel).
  - pose proof (find_none_not_in _ _ Ef) as Hnf.
    destruct (path_eqb rel (keypair_rel name)) eqn:Ek.
    + apply path_eqb_eq in Ek. subst rel. now apply F3.
    + assert (Hnk : S ++ rel <> S ++ keypair_rel name).
      { intros He. apply app_inv_head in He. subst. now rewrite path_eqb_refl in Ek. }
      rewrite (F1 _ Hnk).
      assert (Hunch2 : lookup (S ++ rel) (cur s2) = lookup (S ++ rel) (cur s1)).
      { apply B1. intros rel' Hin He. apply app_inv_head in He. subst. contradiction. }
      destruct (existsb (fun d => is_prefix rel d) (c20_keypair_dir :: c20_dirs)) eqn:Ee.
      * (* a directory of the project *)
        apply existsb_exists in Ee as [d [Hd Hpre]].
        assert (Hpre' : is_prefix (S ++ rel) (S ++ d) = true) by now rewrite is_prefix_app_inv.
        destruct Hd as [<-|Hd].
        -- pose proof (good_prefix_dir f0 _ _ _ G3 (is_prefix_app _ _) Hpre' Hkd3) as H3.
           rewrite D1; [exact H3 | congruence].
        -- pose proof (A3 eq_refl d Hd) as Hd1.
           pose proof (good_prefix_dir f0 _ _ _ G1 (is_prefix_app _ _) Hpre' Hd1) as H1.
           rewrite D1; [rewrite C1; [congruence | congruence] | rewrite C1; congruence].
      * (* nothing else *)
        destruct (lookup (S ++ rel) (cur s4)) as [n|] eqn:E; [|reflexivity]. exfalso.
        assert (Hcontra : forall d, In d (c20_keypair_dir :: c20_dirs) -> is_prefix (S ++ rel) (S ++ d) = true -> False).
        { intros d Hd Hp. rewrite is_prefix_app_inv in Hp.
          assert (existsb (fun d => is_prefix rel d) (c20_keypair_dir :: c20_dirs) = true)
            by (apply existsb_exists; exists d; auto). congruence. }
        destruct (lookup (S ++ rel) (cur s3)) as [n3|] eqn:E3'.
        -- destruct (lookup (S ++ rel) (cur s2)) as [n2|] eqn:E2'.
           ++ rewrite Hunch2 in E2'. destruct (lookup (S ++ rel) (cur s)) as [n0|] eqn:E0.
              ** (* present from the start: it is S itself *)
                 destruct rel as [|y rel].
                 --- apply (Hcontra c20_keypair_dir); [now left|]. rewrite app_nil_r. apply is_prefix_app.
                 --- assert (Hst : strict (S ++ y :: rel)).
                     { split; [apply is_prefix_app|]. intros He. apply (f_equal (@length str)) in He.
                       rewrite app_length in He. cbn in He. lia. }
                     rewrite (Hempty _ Hst) in E0. discriminate.
              ** destruct (A2 _ E0 ltac:(congruence)) as [_ [d [Hd Hp]]]. apply (Hcontra d); [now right | exact Hp].
           ++ destruct (C2 _ E2' ltac:(congruence)) as [_ [Hp _]]. apply (Hcontra c20_keypair_dir); [now left | exact Hp].
        -- destruct (D2 _ E3' ltac:(congruence)) as [_ [Hp _]]. apply (Hcontra c20_keypair_dir); [now left | exact Hp].
Qed.

(* ------------------------------------------------------------------------------------------ *)
(* staging_directory_for: on success a fresh directory entry directly below `.` *)
Lemma staging_loop_post tag name left : forall i s s' stg code,
  staging_loop inj tag name left i s = (s', stg, code) ->
  match stg with
  | None => cur s' = cur s
  | Some p => exists j, p = [staging_name tag name j] /\ lookup p (cur s) = None /\
                        lookup [] (cur s) = Some Dir /\ cur s' = set p Dir (cur s)
  end.
Proof.
  induction left as [|left IH]; intros i s s' stg code H; cbn [staging_loop] in H.
  - inversion H; subst. reflexivity.
  - destruct (sys_mkdir inj [staging_name tag name i] s) as [s1 r1] eqn:E1.
    apply sys_cases in E1 as [[Hc [e He]]|[Hk Hr]].
    + subst r1. destruct (e =? EEXIST).
      * specialize (IH _ _ _ _ _ H). rewrite Hc in IH. exact IH.
      * inversion H; subst. exact Hc.
    + subst r1. inversion H; subst. exists i. split; [reflexivity|].
      unfold k_mkdir, parent_check in Hk. cbn [parent removelast] in Hk.
      destruct (lookup [staging_name tag name i] (cur s)) eqn:E; [discriminate|].
      destruct (lookup [] (cur s)) as [[| |]|] eqn:E0; try discriminate. inversion Hk. auto.
Qed.

End WithOracle.

(* ------------------------------------------------------------------------------------------ *)
Lemma staging_name_neq tag name i : staging_name tag name i <> name.
Proof.
  unfold staging_name. intros He. apply (f_equal (@length Z)) in He. rewrite !app_length in He.
  pose proof c20_tables_ok as H. unfold tables_ok in H. apply andb_true_iff in H as [_ H]. apply Nat.ltb_lt in H. lia.
Qed.

Lemma good_initial x f : wf f -> lookup [x] f = None -> lookup [] f = Some Dir ->
  Good x f (set [x] Dir f) /\ (forall q, strict x q -> lookup q (set [x] Dir f) = None).
Proof.
  intros Hwf Habs Hroot.
  assert (Hsub : forall q, strict x q -> lookup q (set [x] Dir f) = None).
  { intros q [Hq Hne]. rewrite lookup_set_neq by assumption. exact (wf_absent_subtree f [x] Hwf Habs q Hq). }
  split; [|exact Hsub]. constructor.
  - intros q Hq. apply lookup_set_neq. intros ->. now rewrite is_prefix_refl in Hq.
  - apply lookup_set_eq.
  - intros q Hq Hpres. rewrite (Hsub q Hq) in Hpres. contradiction.
  - intros q t Hq. destruct (path_eq_dec q [x]) as [->|Hne].
    + rewrite lookup_set_eq. discriminate.
    + rewrite (Hsub q (conj Hq Hne)). discriminate.
Qed.

(* after the best-effort cleanup the state is pointwise the initial one *)
Lemma cleanup_restores x f0 f : wf f0 -> lookup [x] f0 = None -> Good x f0 f ->
  forall s, cur s = f -> forall q, lookup q (cur (cleanup true [x] s)) = lookup q f0.
Proof.
  intros Hwf Habs G s Hs q. unfold cleanup, k_remove_dir_all. rewrite Hs, (g_root _ _ _ G).
  destruct s as [a b c d f']. cbn [with_fs cur] in *. subst f'. rewrite lookup_remove_tree.
  destruct (is_prefix [x] q) eqn:E.
  - symmetry. exact (wf_absent_subtree f0 [x] Hwf Habs q E).
  - exact (g_conf _ _ _ G q E).
Qed.

Definition outcome_ok (o : outcome) : bool := match o with Done => true | Failed _ => false end.

(* scaffold_project: all or nothing *)
Theorem scaffold_project_atomic inj tag name pubkey keyjson s s' o :
  wf (cur s) ->
  scaffold_project inj tag true name pubkey keyjson s = (s', o) ->
  match o with
  | Done => lookup [name] (cur s) = None /\
            (forall q, is_prefix [name] q = false -> lookup q (cur s') = lookup q (cur s)) /\
            (forall rel, lookup ([name] ++ rel) (cur s') = project_tree name pubkey keyjson rel)
  | Failed _ => forall q, lookup q (cur s') = lookup q (cur s)
  end.
Proof.
  intros Hwf H. unfold scaffold_project in H.
  destruct (path_exists (cur s) [name]) eqn:Eex; [inversion H; subst; reflexivity|].
  destruct (staging_loop inj tag name c20_staging_attempts 0 s) as [[s1 stg] code] eqn:E1.
  pose proof (staging_loop_post inj tag name _ _ _ _ _ _ E1) as Hst.
  destruct stg as [stg|]; [|inversion H; subst; now rewrite Hst].
  destruct Hst as [j [-> [Habs [Hroot Hc1]]]].
  set (x := staging_name tag name j) in *.
  assert (Hxn : x <> name) by apply staging_name_neq.
  destruct (good_initial x (cur s) Hwf Habs Hroot) as [G1 Hempty]. rewrite <- Hc1 in G1, Hempty.
  destruct (scaffold_body inj [x] name pubkey keyjson s1) as [s2 r] eqn:E2.
  destruct (scaffold_body_post inj x (cur s) name pubkey keyjson s1 s2 r G1 Hempty E2) as [G2 Hproj].
  destruct r as [stage|].
  - inversion H; subst. exact (cleanup_restores x (cur s) (cur s2) Hwf Habs G2 s2 eq_refl).
  - destruct (sys_rename inj [x] [name] s2) as [s3 r3] eqn:E3.
    apply sys_cases in E3 as [[Hc3 [e He]]|[Hk Hr]].
    + subst r3. inversion H; subst. rewrite <- Hc3 in G2. exact (cleanup_restores x (cur s) (cur s3) Hwf Habs G2 s3 eq_refl).
    + subst r3. inversion H; subst. clear H.
      unfold k_rename in Hk. rewrite (g_root _ _ _ G2) in Hk.
      assert (Hpre : is_prefix [x] [name] = false).
      { cbn [is_prefix]. rewrite (str_eqb_neq x name Hxn). reflexivity. }
      rewrite Hpre in Hk. cbn [andb] in Hk.
      assert (Hdn : lookup [name] (cur s2) = lookup [name] (cur s)) by exact (g_conf _ _ _ G2 [name] Hpre).
      rewrite Hdn in Hk.
      destruct (lookup [name] (cur s)) as [nb|] eqn:En.
      * (* something is there although exists() said no: a dangling symlink; the rename fails *)
        exfalso. destruct nb as [|c|t]; try discriminate.
        unfold path_exists, stat in Eex. cbn [resolve] in Eex. now rewrite En in Eex.
      * unfold parent_check in Hk. cbn [parent removelast] in Hk.
        destruct (lookup [] (cur s2)) as [[| |]|] eqn:E0; try discriminate. inversion Hk as [Hc3]. clear Hk.
        split; [reflexivity|]. split.
        -- intros q Hq. rewrite (lookup_move_tree_single x name (cur s2) q Hxn). unfold moved_lookup.
           destruct q as [|z r]; [exact (g_conf _ _ _ G2 [] eq_refl)|].
           rewrite is_prefix_single in Hq. rewrite Hq.
           destruct (str_eqb x z) eqn:Ez.
           ++ apply str_eqb_eq in Ez. subst z. symmetry. apply (wf_absent_subtree (cur s) [x] Hwf Habs).
              rewrite is_prefix_single. apply str_eqb_refl.
           ++ apply (g_conf _ _ _ G2). now rewrite is_prefix_single.
        -- intros rel. rewrite (lookup_move_tree_single x name (cur s2) _ Hxn). cbn [app moved_lookup].
           rewrite str_eqb_refl. exact (Hproj eq_refl rel).
Qed.

(* the whole command *)
Theorem sf_new_atomic inj tag raw pubkey keyjson f f' o :
  wf f -> sf_new inj tag true raw pubkey keyjson f = (f', o) ->
  match o with
  | Done => exists name, validate_arg raw = Accept name /\ lookup [name] f = None /\
            (forall q, is_prefix [name] q = false -> lookup q f' = lookup q f) /\
            (forall rel, lookup ([name] ++ rel) f' = project_tree name pubkey keyjson rel)
  | Failed _ => forall q, lookup q f' = lookup q f
  end.
Proof.
  intros Hwf H. unfold sf_new in H. destruct (validate_arg raw) as [name|reason] eqn:Ev.
  - destruct (scaffold_project inj tag true name pubkey keyjson (mkSt 0 0 0 0 f)) as [s' o'] eqn:E.
    inversion H; subst.
    pose proof (scaffold_project_atomic inj tag name pubkey keyjson (mkSt 0 0 0 0 f) s' o Hwf E) as Hs.
    cbn [cur] in Hs. destruct o; [|exact Hs]. exists name. split; [reflexivity | exact Hs].
  - inversion H; subst. reflexivity.
Qed.

(* an existing target (file, directory, any symbolic link) is refused and nothing changes *)
Theorem sf_new_existing inj tag raw pubkey keyjson f f' o name :
  wf f -> validate_arg raw = Accept name -> lookup [name] f <> None ->
  sf_new inj tag true raw pubkey keyjson f = (f', o) ->
  (exists stage, o = Failed stage) /\ forall q, lookup q f' = lookup q f.
Proof.
  intros Hwf Hv Hex H. pose proof (sf_new_atomic inj tag raw pubkey keyjson f f' o Hwf H) as Ha.
  destruct o as [|stage].
  - destruct Ha as [n [Hv' [Habs _]]]. rewrite Hv in Hv'. inversion Hv'; subst. contradiction.
  - split; [now exists stage | exact Ha].
Qed.

(* no staging directory of this run (whatever candidate index it used) is left, and none that was there is touched *)
Theorem sf_new_no_staging inj tag raw pubkey keyjson f f' o name i :
  wf f -> validate_arg raw = Accept name -> sf_new inj tag true raw pubkey keyjson f = (f', o) ->
  forall rel, lookup ([staging_name tag name i] ++ rel) f' = lookup ([staging_name tag name i] ++ rel) f.
Proof.
  intros Hwf Hv H rel. pose proof (sf_new_atomic inj tag raw pubkey keyjson f f' o Hwf H) as Ha.
  destruct o as [|stage]; [|apply Ha].
  destruct Ha as [n [Hv' [_ [Hout _]]]]. rewrite Hv in Hv'. inversion Hv'; subst n. apply Hout.
  cbn [app is_prefix]. rewrite (str_eqb_neq name (staging_name tag name i)); [reflexivity|].
  intros He. symmetry in He. exact (staging_name_neq tag name i He).
Qed.

(* the single failure of the property text is an instance *)
Theorem sf_new_atomic_one_fault c k e tag raw pubkey keyjson f f' o :
  wf f -> sf_new (one_fault c k e) tag true raw pubkey keyjson f = (f', o) ->
  match o with
  | Done => exists name, validate_arg raw = Accept name /\ lookup [name] f = None /\
            (forall q, is_prefix [name] q = false -> lookup q f' = lookup q f) /\
            (forall rel, lookup ([name] ++ rel) f' = project_tree name pubkey keyjson rel)
  | Failed _ => forall q, lookup q f' = lookup q f
  end.
Proof. apply sf_new_atomic. Qed.

(* when the best-effort cleanup fails too, the staging directory stays: a witness *)
Definition demo_fs : fs := [([], Dir)].
Definition demo_name : str := [97; 98].

Lemma cleanup_failure_leaves_staging :
  let '(f', o) := sf_new (one_fault CMkdir 2 EIO) fake_tag false demo_name [] [] demo_fs in
  o = Failed ST_DIRS /\ lookup [demo_name] f' = None /\ lookup [staging_name fake_tag demo_name 0] f' = Some Dir.
Proof. vm_compute. repeat split; reflexivity. Qed.
