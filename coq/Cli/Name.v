(* C20 model, part 1: program-name validation and the values derived from an accepted name.
   Mirrors /repo/star_frame_cli/src/new_project.rs:
     new_project_in          26-28   (trim, validate)
     validate_program_name   239-291
     is_rust_keyword         300-354 (the literal list is regenerated into Gen_c20.c20_keywords)
     TemplateValues::new     371-381
     program_keypair_relative_path 156-161
   Strings are lists of Unicode scalar values (Rust `char`s) as Z.  No proofs in this file. *)
From SF Require Import Base.Prelude Gen.Gen_c20.

Definition str := list Z.

Fixpoint str_eqb (a b : str) : bool :=
  match a, b with
  | [], [] => true
  | x :: a', y :: b' => (x =? y) && str_eqb a' b'
  | _, _ => false
  end.

(* ------------------------------------------------------------------------------------------ *)
(* str::trim: strips leading and trailing chars with the Unicode White_Space property
   (core::unicode::white_space; the table below is that property's code points). *)
Definition is_ws (c : Z) : bool :=
  ((9 <=? c) && (c <=? 13)) || (c =? 32) || (c =? 133) || (c =? 160) || (c =? 5760) ||
  ((8192 <=? c) && (c <=? 8202)) || (c =? 8232) || (c =? 8233) || (c =? 8239) || (c =? 8287) || (c =? 12288).

Fixpoint trim_start (s : str) : str :=
  match s with
  | [] => []
  | c :: r => if is_ws c then trim_start r else s
  end.

Definition trim_end (s : str) : str := rev (trim_start (rev s)).
Definition trim (s : str) : str := trim_end (trim_start s).

(* ------------------------------------------------------------------------------------------ *)
Definition is_lower (c : Z) : bool := (97 <=? c) && (c <=? 122).      (* 'a'..='z' / is_ascii_lowercase *)
Definition is_digit (c : Z) : bool := (48 <=? c) && (c <=? 57).       (* '0'..='9' *)
Definition is_sep (c : Z) : bool := (c =? 45) || (c =? 95).           (* '-' | '_' *)

(* name.replace('-', "_") *)
Definition dash_to_us (s : str) : str := map (fun c => if c =? 45 then 95 else c) s.

Definition is_rust_keyword (s : str) : bool := existsb (str_eqb s) c20_keywords.

(* rejection reasons, in the order of the `invalid_name(name, "...")` calls of the source *)
Definition R_EMPTY : Z := 1.        (* name cannot be empty *)
Definition R_FIRST : Z := 2.        (* must start with a lowercase ASCII letter *)
Definition R_CONSECUTIVE : Z := 3.  (* cannot contain consecutive '-' or '_' separators *)
Definition R_CHAR : Z := 4.         (* can only include lowercase letters, digits, '-' or '_' *)
Definition R_TRAILING : Z := 5.     (* cannot end with '-' or '_' *)
Definition R_KEYWORD : Z := 6.      (* cannot be a Rust keyword once '-' is normalized to '_' *)

Inductive scan_res := ScanEnd (previous_separator : bool) | ScanBad (reason : Z).

(* the `for character in chars` loop, lines 256-276 *)
Fixpoint scan (previous_separator : bool) (s : str) : scan_res :=
  match s with
  | [] => ScanEnd previous_separator
  | c :: r =>
      if is_lower c || is_digit c then scan false r
      else if is_sep c then (if previous_separator then ScanBad R_CONSECUTIVE else scan true r)
      else ScanBad R_CHAR
  end.

Inductive verdict := Accept (name : str) | Reject (reason : Z).

Definition validate_program_name (name : str) : verdict :=
  match name with
  | [] => Reject R_EMPTY                                              (* 240-247 *)
  | first :: rest =>
      if negb (is_lower first) then Reject R_FIRST                    (* 249-254 *)
      else match scan false rest with
           | ScanBad r => Reject r
           | ScanEnd true => Reject R_TRAILING                        (* 278-280 *)
           | ScanEnd false =>
               if is_rust_keyword (dash_to_us name) then Reject R_KEYWORD   (* 282-288 *)
               else Accept name                                             (* 290 *)
           end
  end.

(* new_project_in line 27 *)
Definition validate_arg (raw : str) : verdict := validate_program_name (trim raw).

(* ------------------------------------------------------------------------------------------ *)
(* TemplateValues::new.  to_ascii_uppercase maps only a-z.  to_case(Case::Pascal) is convert_case 0.8:
   split at '_' '-' ' ' (removed) and at lower|digit, digit|lower, lower|upper ... boundaries, capitalise each word,
   join with "".  On the validator's image (lowercase letters, digits, single separators) that is: a letter that
   starts the name or follows a separator or a digit is upper-cased, everything else is kept, separators vanish.
   Outside that image the function below is not claimed to equal convert_case. *)
Definition to_upper (c : Z) : Z := if is_lower c then c - 32 else c.
Definition v_upper (s : str) : str := map to_upper s.

Inductive pclass := PStart | PLower | PDigit.

Fixpoint pascal_go (prev : pclass) (s : str) : str :=
  match s with
  | [] => []
  | c :: r =>
      if is_sep c then pascal_go PStart r
      else if is_digit c then c :: pascal_go PDigit r
      else match prev with
           | PLower => c :: pascal_go PLower r
           | _ => to_upper c :: pascal_go PLower r
           end
  end.
Definition v_pascal (s : str) : str := pascal_go PStart s.

(* field index as in Gen_c20.c20_placeholders *)
Definition value_of (field : nat) (name pubkey : str) : str :=
  match field with
  | 0%nat => name
  | 1%nat => dash_to_us name
  | 2%nat => v_upper name
  | 3%nat => v_pascal name
  | _ => pubkey
  end.

(* program_keypair_relative_path: target/deploy/{artifact_name}-keypair.json, artifact_name = name.replace('-',"_") *)
Definition keypair_rel (name : str) : list str :=
  c20_keypair_dir ++ [dash_to_us name ++ c20_keypair_suffix].
