(* C20 model, part 2: template rendering.
   Mirrors new_project.rs render_template 224-234: a chain of `str::replace(pattern, value)` calls in the order
   regenerated into Gen_c20.c20_placeholders, over the template bytes regenerated into Gen_c20.c20_tpl_*.
   `str::replace` substitutes the non-overlapping matches found scanning left to right.  No proofs here. *)
From SF Require Import Base.Prelude Gen.Gen_c20 Cli.Name.

Fixpoint prefixb (p s : str) : bool :=
  match p with
  | [] => true
  | x :: p' => match s with
               | [] => false
               | y :: s' => (x =? y) && prefixb p' s'
               end
  end.

(* `skip` = how many further chars of a match that has just been replaced are still to be dropped *)
Fixpoint repl (pat v : str) (skip : nat) (s : str) : str :=
  match s with
  | [] => []
  | c :: r =>
      match skip with
      | S k => repl pat v k r
      | O => if prefixb pat s then v ++ repl pat v (length pat - 1) r
             else c :: repl pat v O r
      end
  end.

(* every pattern of the chain is non-empty (checked by an Example in TemplateProofs); for an empty pattern Rust
   inserts the value around every char, which is not modelled *)
Definition replace (pat v s : str) : str :=
  match pat with
  | [] => s
  | _ => repl pat v O s
  end.

Definition render (template name pubkey : str) : str :=
  fold_left (fun acc ph => replace (fst ph) (value_of (snd ph) name pubkey) acc) c20_placeholders template.

(* occurrence of a substring, used by the statements *)
Definition occurs (p s : str) : Prop := exists pre post, s = pre ++ p ++ post.

Fixpoint occursb (p s : str) : bool :=
  prefixb p s || match s with [] => false | _ :: r => occursb p r end.
