(* C20 proofs, part 5: the names written into the manifests and sources are consistent with the accepted name.
   The text around the holes of the regenerated templates is found by computation (ctx_somewhere); the statement
   then holds for EVERY accepted name and key because rendering = filling the holes (TemplateProofs). *)
From Coq Require Import String Ascii.
From SF Require Import Base.Prelude Gen.Gen_c20 Cli.Name Cli.NameProofs Cli.Template Cli.TemplateProofs
  Cli.Fs Cli.FsProofs Cli.Scaffold Cli.ScaffoldProofs.
Local Open Scope list_scope.
Local Open Scope Z_scope.

(* text literals *)
Definition s2z (s : string) : str := map (fun a => Z.of_N (N_of_ascii a)) (list_ascii_of_string s).
Definition nl : str := [10].
Definition dq : str := [34].

Definition p_cargo_toml : path := [s2z "Cargo.toml"].
Definition p_lib_rs : path := [s2z "src"; s2z "lib.rs"].
Definition p_test_rs : path := [s2z "src"; s2z "tests"; s2z "counter.rs"].

(* the rendered text written to a path of the file table *)
Definition file_text (rel : path) (name pubkey : str) : str :=
  match find (fun ft => path_eqb rel (fst ft)) c20_files with
  | Some ft => render (snd ft) name pubkey
  | None => []
  end.

Definition ctx_somewhere (l1 : str) (f : nat) (l2 : str) (segs : list seg) : bool :=
  existsb (fun k => ctx_ok k l1 f l2 segs) (seq 0 (length segs)).

(* decidable: in the template written to `rel`, some hole of field f is surrounded by l1 ... l2 *)
Definition tpl_ctx (rel : path) (l1 : str) (f : nat) (l2 : str) : bool :=
  match find (fun ft => path_eqb rel (fst ft)) c20_files with
  | Some ft => ctx_somewhere l1 f l2 (tokenize c20_placeholders (snd ft))
  | None => false
  end.

Lemma tpl_ctx_occurs rel l1 f l2 raw name pubkey :
  tpl_ctx rel l1 f l2 = true -> validate_arg raw = Accept name -> no_brace pubkey ->
  occurs (l1 ++ value_of f name pubkey ++ l2) (file_text rel name pubkey).
Proof.
  unfold tpl_ctx, file_text. destruct (find (fun ft => path_eqb rel (fst ft)) c20_files) as [ft|] eqn:E; [|discriminate].
  intros H Hv Hpk. apply find_some in E as [Hin _].
  assert (Hok : tpl_ok c20_placeholders (snd ft) = true) by (destruct ft as [k t]; exact (c20_template_ok k t Hin)).
  rewrite (render_fills_holes (snd ft) name pubkey c20_chain_ok Hok (vals_no_brace raw name pubkey Hv Hpk)).
  unfold ctx_somewhere in H. apply existsb_exists in H as [k [_ Hk]].
  exact (ctx_occurs (vals_of name pubkey) k l1 f l2 _ Hk).
Qed.

(* field numbers of Gen_c20.c20_placeholders *)
Definition F_LOWER : nat := 0.
Definition F_UNDER : nat := 1.
Definition F_PASCAL : nat := 3.
Definition F_PUBKEY : nat := 4.

Definition consistent_names (name pubkey : str) : Prop :=
  let lib := dash_to_us name in
  let pas := v_pascal name in
  (* the library / artefact name is a Rust identifier that is not a keyword; the type prefix is an identifier *)
  (exists c r, lib = c :: r /\ is_lower c = true /\ forallb ident_char r = true /\ is_rust_keyword lib = false) /\
  (exists c r, pas = c :: r /\ is_upper c = true /\ forallb alnum_mixed r = true) /\
  (* the keypair is written where cargo build-sbf expects the keypair of the cdylib `lib` *)
  keypair_rel name = [s2z "target"; s2z "deploy"; lib ++ s2z "-keypair.json"] /\
  (* Cargo.toml: package = the name, [lib] = the name with '-' read as '_' *)
  occurs (s2z "[package]" ++ nl ++ s2z "name = " ++ dq ++ name ++ dq ++ nl) (file_text p_cargo_toml name pubkey) /\
  occurs (s2z "lib" ++ dq ++ s2z "]" ++ nl ++ s2z "name = " ++ dq ++ lib ++ dq ++ nl) (file_text p_cargo_toml name pubkey) /\
  (* src/lib.rs: the declared program id is the key, the program / instruction set / error types carry the prefix *)
  occurs (s2z "id = " ++ dq ++ pubkey ++ dq ++ nl) (file_text p_lib_rs name pubkey) /\
  occurs (s2z "pub struct " ++ pas ++ s2z "Program;") (file_text p_lib_rs name pubkey) /\
  occurs (s2z "instruction_set = " ++ pas ++ s2z "InstructionSet,") (file_text p_lib_rs name pubkey) /\
  occurs (s2z "pub enum " ++ pas ++ s2z "InstructionSet {") (file_text p_lib_rs name pubkey) /\
  occurs (s2z "pub enum " ++ pas ++ s2z "Error {") (file_text p_lib_rs name pubkey) /\
  (* src/tests/counter.rs loads the program binary under the artefact name, for the declared program type *)
  occurs (s2z "sbf_out_dir.join(" ++ dq ++ lib ++ s2z ".so" ++ dq ++ s2z ")") (file_text p_test_rs name pubkey) /\
  occurs (s2z "Mollusk::new(&" ++ pas ++ s2z "Program::ID, " ++ dq ++ lib ++ dq ++ s2z ")") (file_text p_test_rs name pubkey).

(* the hole contexts of the regenerated templates, by computation *)
Lemma ctx_cargo_package : tpl_ctx p_cargo_toml (s2z "[package]" ++ nl ++ s2z "name = " ++ dq) F_LOWER (dq ++ nl) = true.
Proof. vm_compute. reflexivity. Qed.
Lemma ctx_cargo_lib : tpl_ctx p_cargo_toml (s2z "lib" ++ dq ++ s2z "]" ++ nl ++ s2z "name = " ++ dq) F_UNDER (dq ++ nl) = true.
Proof. vm_compute. reflexivity. Qed.
Lemma ctx_lib_id : tpl_ctx p_lib_rs (s2z "id = " ++ dq) F_PUBKEY (dq ++ nl) = true.
Proof. vm_compute. reflexivity. Qed.
Lemma ctx_lib_program : tpl_ctx p_lib_rs (s2z "pub struct ") F_PASCAL (s2z "Program;") = true.
Proof. vm_compute. reflexivity. Qed.
Lemma ctx_lib_iset_attr : tpl_ctx p_lib_rs (s2z "instruction_set = ") F_PASCAL (s2z "InstructionSet,") = true.
Proof. vm_compute. reflexivity. Qed.
Lemma ctx_lib_iset : tpl_ctx p_lib_rs (s2z "pub enum ") F_PASCAL (s2z "InstructionSet {") = true.
Proof. vm_compute. reflexivity. Qed.
Lemma ctx_lib_error : tpl_ctx p_lib_rs (s2z "pub enum ") F_PASCAL (s2z "Error {") = true.
Proof. vm_compute. reflexivity. Qed.
Lemma ctx_test_so : tpl_ctx p_test_rs (s2z "sbf_out_dir.join(" ++ dq) F_UNDER (s2z ".so" ++ dq ++ s2z ")") = true.
Proof. vm_compute. reflexivity. Qed.
(* two holes in one expression: the contexts are checked hole by hole and glued below *)
Lemma ctx_test_mollusk_name : tpl_ctx p_test_rs (s2z "Program::ID, " ++ dq) F_UNDER (dq ++ s2z ")") = true.
Proof. vm_compute. reflexivity. Qed.

(* Mollusk::new(&{pascal}Program::ID, "{lib}") spans two holes: decidable check on three consecutive segments *)
Fixpoint two_holes (l0 : str) (f1 : nat) (mid : str) (f2 : nat) (l3 : str) (prev : str) (segs : list seg) : bool :=
  match segs with
  | Lit t :: r => two_holes l0 f1 mid f2 l3 t r
  | Hole g1 :: r =>
      (match r with
       | Lit m :: Hole g2 :: r2 =>
           Nat.eqb f1 g1 && Nat.eqb f2 g2 && str_eqb m mid && suffixb l0 prev &&
           prefixb l3 (match r2 with Lit t3 :: _ => t3 | _ => [] end)
       | _ => false
       end) || two_holes l0 f1 mid f2 l3 [] r
  | [] => false
  end.

Lemma two_holes_occurs vals l0 f1 mid f2 l3 segs : forall prev X,
  two_holes l0 f1 mid f2 l3 prev segs = true ->
  occurs (l0 ++ vals f1 ++ mid ++ vals f2 ++ l3) (X ++ prev ++ flat vals segs).
Proof.
  induction segs as [|s segs IH]; intros prev X H; [discriminate|].
  destruct s as [t|g1]; cbn [two_holes] in H.
  - destruct (IH t (X ++ prev) H) as [pre [post He]]. exists pre, post.
    unfold flat in *. cbn [flat_map]. rewrite <- He. now rewrite <- ?app_assoc.
  - apply orb_true_iff in H as [H|H].
    + destruct segs as [|[m|?] [|[?|g2] r2]]; try discriminate.
      apply andb_true_iff in H as [H H5]. apply andb_true_iff in H as [H H4]. apply andb_true_iff in H as [H H3].
      apply andb_true_iff in H as [H1 H2]. apply Nat.eqb_eq in H1, H2. apply str_eqb_eq in H3. subst g1 g2 m.
      destruct (suffixb_true _ _ H4) as [a ->].
      unfold flat. cbn [flat_map].
      destruct r2 as [|[t3|g3] r3].
      * destruct (prefixb_true _ _ H5) as [b Hb]. destruct l3; [|discriminate].
        exists (X ++ a), []. cbn [flat_map]. now rewrite <- ?app_assoc, ?app_nil_r.
      * destruct (prefixb_true _ _ H5) as [b ->].
        exists (X ++ a), (b ++ flat_map (fun s => match s with Lit t => t | Hole f => vals f end) r3).
        cbn [flat_map]. now rewrite <- ?app_assoc.
      * destruct (prefixb_true _ _ H5) as [b Hb]. destruct l3; [|discriminate].
        exists (X ++ a), (flat_map (fun s => match s with Lit t => t | Hole f => vals f end) (Hole g3 :: r3)).
        now rewrite <- ?app_assoc.
    + destruct (IH [] (X ++ prev ++ vals g1) H) as [pre [post He]]. exists pre, post.
      unfold flat in *. cbn [flat_map]. rewrite <- He. cbn [app]. now rewrite <- ?app_assoc.
Qed.

Definition tpl_two_holes (rel : path) l0 f1 mid f2 l3 : bool :=
  match find (fun ft => path_eqb rel (fst ft)) c20_files with
  | Some ft => two_holes l0 f1 mid f2 l3 [] (tokenize c20_placeholders (snd ft))
  | None => false
  end.

Lemma tpl_two_holes_occurs rel l0 f1 mid f2 l3 raw name pubkey :
  tpl_two_holes rel l0 f1 mid f2 l3 = true -> validate_arg raw = Accept name -> no_brace pubkey ->
  occurs (l0 ++ value_of f1 name pubkey ++ mid ++ value_of f2 name pubkey ++ l3) (file_text rel name pubkey).
Proof.
  unfold tpl_two_holes, file_text. destruct (find (fun ft => path_eqb rel (fst ft)) c20_files) as [ft|] eqn:E; [|discriminate].
  intros H Hv Hpk. apply find_some in E as [Hin _].
  assert (Hok : tpl_ok c20_placeholders (snd ft) = true) by (destruct ft as [k t]; exact (c20_template_ok k t Hin)).
  rewrite (render_fills_holes (snd ft) name pubkey c20_chain_ok Hok (vals_no_brace raw name pubkey Hv Hpk)).
  exact (two_holes_occurs (vals_of name pubkey) _ _ _ _ _ _ [] [] H).
Qed.

Lemma ctx_test_mollusk :
  tpl_two_holes p_test_rs (s2z "Mollusk::new(&") F_PASCAL (s2z "Program::ID, " ++ dq) F_UNDER (dq ++ s2z ")") = true.
Proof. vm_compute. reflexivity. Qed.

Lemma keypair_rel_shape name :
  keypair_rel name = [s2z "target"; s2z "deploy"; dash_to_us name ++ s2z "-keypair.json"].
Proof. reflexivity. Qed.

Theorem names_consistent_proof raw name pubkey :
  validate_arg raw = Accept name -> no_brace pubkey -> consistent_names name pubkey.
Proof.
  intros Hv Hpk.
  assert (Hs : crate_safe name).
  { pose proof (validate_arg_name raw name Hv) as ->. apply name_iff_proof. now exists (trim raw). }
  unfold consistent_names. cbv zeta.
  split; [exact (lib_name_ident name Hs)|]. split; [exact (pascal_ident name Hs)|].
  split; [apply keypair_rel_shape|].
  repeat rewrite <- app_assoc.
  split; [exact (tpl_ctx_occurs _ _ _ _ raw name pubkey ctx_cargo_package Hv Hpk) |].
  split; [exact (tpl_ctx_occurs _ _ _ _ raw name pubkey ctx_cargo_lib Hv Hpk) |].
  split; [exact (tpl_ctx_occurs _ _ _ _ raw name pubkey ctx_lib_id Hv Hpk) |].
  split; [exact (tpl_ctx_occurs _ _ _ _ raw name pubkey ctx_lib_program Hv Hpk) |].
  split; [exact (tpl_ctx_occurs _ _ _ _ raw name pubkey ctx_lib_iset_attr Hv Hpk) |].
  split; [exact (tpl_ctx_occurs _ _ _ _ raw name pubkey ctx_lib_iset Hv Hpk) |].
  split; [exact (tpl_ctx_occurs _ _ _ _ raw name pubkey ctx_lib_error Hv Hpk) |].
  split; [exact (tpl_ctx_occurs _ _ _ _ raw name pubkey ctx_test_so Hv Hpk) |].
  exact (tpl_two_holes_occurs _ _ _ _ _ _ raw name pubkey ctx_test_mollusk Hv Hpk).
Qed.

(* base58 text (the Display of a Pubkey) contains no brace *)
Definition is_base58 (c : Z) : bool :=
  ((49 <=? c) && (c <=? 57)) || ((65 <=? c) && (c <=? 72)) || ((74 <=? c) && (c <=? 78)) || ((80 <=? c) && (c <=? 90)) ||
  ((97 <=? c) && (c <=? 107)) || ((109 <=? c) && (c <=? 122)).

Lemma base58_no_brace pk : forallb is_base58 pk = true -> no_brace pk.
Proof. apply no_brace_of. reflexivity. Qed.

Theorem no_placeholder_left_proof raw name pubkey rel tpl p fld :
  validate_arg raw = Accept name -> forallb is_base58 pubkey = true ->
  In (rel, tpl) c20_files -> In (p, fld) c20_placeholders ->
  ~ occurs p (render tpl name pubkey).
Proof.
  intros Hv Hpk Hin Hp.
  exact (no_placeholder_proof tpl name pubkey p fld c20_chain_ok (c20_template_ok rel tpl Hin)
           (vals_no_brace raw name pubkey Hv (base58_no_brace pubkey Hpk)) Hp).
Qed.

Theorem names_consistent_base58 raw name pubkey :
  validate_arg raw = Accept name -> forallb is_base58 pubkey = true -> consistent_names name pubkey.
Proof. intros Hv Hpk. exact (names_consistent_proof raw name pubkey Hv (base58_no_brace pubkey Hpk)). Qed.

(* the complete project's files are exactly the rendered templates of the file table *)
Lemma project_tree_file name pubkey keyjson rel tpl :
  In (rel, tpl) c20_files -> project_tree name pubkey keyjson rel = Some (File (render tpl name pubkey)).
Proof.
  intros Hin. unfold project_tree.
  assert (Hin' : In (rel, render tpl name pubkey) (rendered_files name pubkey)).
  { unfold rendered_files. apply in_map_iff. exists (rel, tpl). auto. }
  destruct (find (fun ft => path_eqb rel (fst ft)) (rendered_files name pubkey)) as [ft|] eqn:E.
  - pose proof (find_rendered _ _ _ _ E) as Hin2.
    (* paths of the table are distinct, so the entry found is the one given *)
    assert (Hnd : NoDup (map fst (rendered_files name pubkey))) by (rewrite rendered_paths; apply tables_files_nodup).
    assert (snd ft = render tpl name pubkey) as ->; [|reflexivity].
    clear E. revert Hin' Hin2 Hnd. generalize (rendered_files name pubkey) as l. generalize (snd ft) as b1. generalize (render tpl name pubkey) as b2.
    intros b2 b1 l. induction l as [|[k b] l IH]; [contradiction|]. cbn [map fst]. intros [H1|H1] [H2|H2] Hnd; inversion Hnd as [|? ? Hni Hnd']; subst.
    + congruence.
    + inversion H1; subst. exfalso. apply Hni. apply in_map_iff. now exists (rel, b1).
    + inversion H2; subst. exfalso. apply Hni. apply in_map_iff. now exists (rel, b2).
    + now apply IH.
  - exfalso. pose proof (find_none _ _ E _ Hin') as Hn. cbn [fst] in Hn. now rewrite path_eqb_refl in Hn.
Qed.
