(* C20 model, part 4: the scaffolding sequence of `sf new <name>` with injected system-call failures.
   Mirrors new_project.rs  new_project_in 26-52, scaffold_project 54-101, staging_directory_for 103-136,
   create_project_directories 138-154, write_program_keypair 163-184, write_project_files 186-218,
   and the library code it calls: std::fs::create_dir_all (DirBuilder::create_dir_all), std::fs::write,
   solana_signer::EncodableKey::write_to_file (create_dir_all(parent); open write|create|truncate 0o600; write_all).
   Every mkdir / open(O_CREAT) / write / rename system call draws the next index of its class and asks the injection
   oracle `inj class index`; `Some errno` makes the call fail with that errno WITHOUT being executed (the semantics
   of `strace -e inject=<syscall>:error=<errno>:when=<index>`).  The oracle is arbitrary, so any number of failures
   at any positions is covered; `one_fault c k e` is the single failure of the property text.
   External inputs: `tag i` = the "{pid}-{nanos+i}" part of the i-th staging candidate; `pubkey`, `keyjson` = the base58
   public key and the JSON text of the fresh `Keypair::new()`; `cleanup_ok` = whether the best-effort
   `let _ = fs::remove_dir_all(&staging_dir)` succeeds.  No proofs in this file. *)
From SF Require Import Base.Prelude Gen.Gen_c20 Cli.Name Cli.Template Cli.Fs.

Inductive cls := CMkdir | COpen | CWrite | CRename.

Record st := mkSt { n_mkdir : nat; n_open : nat; n_write : nat; n_rename : nat; cur : fs }.

Definition count (c : cls) (s : st) : nat :=
  match c with CMkdir => n_mkdir s | COpen => n_open s | CWrite => n_write s | CRename => n_rename s end.

Definition bump (c : cls) (s : st) : st :=
  match c with
  | CMkdir => mkSt (S (n_mkdir s)) (n_open s) (n_write s) (n_rename s) (cur s)
  | COpen => mkSt (n_mkdir s) (S (n_open s)) (n_write s) (n_rename s) (cur s)
  | CWrite => mkSt (n_mkdir s) (n_open s) (S (n_write s)) (n_rename s) (cur s)
  | CRename => mkSt (n_mkdir s) (n_open s) (n_write s) (S (n_rename s)) (cur s)
  end.

Definition with_fs (s : st) (f : fs) : st := mkSt (n_mkdir s) (n_open s) (n_write s) (n_rename s) f.

Definition oracle := cls -> nat -> option Z.

Definition cls_eqb (a b : cls) : bool :=
  match a, b with
  | CMkdir, CMkdir | COpen, COpen | CWrite, CWrite | CRename, CRename => true
  | _, _ => false
  end.

Definition no_fault : oracle := fun _ _ => None.
Definition one_fault (c : cls) (k : nat) (e : Z) : oracle :=
  fun c' k' => if cls_eqb c c' && Nat.eqb k k' then Some e else None.

(* one system call of class c whose kernel semantics is k *)
Definition sys (inj : oracle) (c : cls) (k : fs -> res fs) (s : st) : st * res unit :=
  let s1 := bump c s in
  match inj c (count c s) with
  | Some e => (s1, RErr e)
  | None => match k (cur s) with
            | ROk f' => (with_fs s1 f', ROk tt)
            | RErr e => (s1, RErr e)
            end
  end.

Section WithOracle.
Variable inj : oracle.

Definition sys_mkdir (p : path) := sys inj CMkdir (k_mkdir p).
Definition sys_open (p : path) := sys inj COpen (k_open_create p).
Definition sys_write (p : path) (b : list Z) := sys inj CWrite (k_write p b).
Definition sys_rename (a b : path) := sys inj CRename (k_rename a b).

(* DirBuilder::create_dir_all (std/src/fs.rs):
     match mkdir(path) { Ok => return Ok, Err(NotFound) => {}, Err(_) if path.is_dir() => return Ok, Err(e) => return Err(e) }
     match path.parent() { Some(p) => create_dir_all(p)?, None => return Err(..) }
     match mkdir(path) { Ok => Ok, Err(_) if path.is_dir() => Ok, Err(e) => Err(e) }
   `.`'s parent is the empty path, for which create_dir_all returns Ok at once. *)
Fixpoint create_dir_all (fuel : nat) (p : path) (s : st) : st * res unit :=
  match fuel with
  | O => (s, RErr EINVAL)
  | S fuel' =>
      let '(s1, r1) := sys_mkdir p s in
      match r1 with
      | ROk _ => (s1, ROk tt)
      | RErr e =>
          if e =? ENOENT then
            let '(s2, r2) := match p with
                             | [] => (s1, ROk tt)
                             | _ => create_dir_all fuel' (parent p) s1
                             end in
            match r2 with
            | RErr e2 => (s2, RErr e2)
            | ROk _ =>
                let '(s3, r3) := sys_mkdir p s2 in
                match r3 with
                | ROk _ => (s3, ROk tt)
                | RErr e3 => if path_is_dir (cur s3) p then (s3, ROk tt) else (s3, RErr e3)
                end
            end
          else if path_is_dir (cur s1) p then (s1, ROk tt) else (s1, RErr e)
      end
  end.
Definition mkdir_all (p : path) := create_dir_all (S (S (length p))) p.

(* std::fs::write / OpenOptions...open + write_all: open(O_WRONLY|O_CREAT|O_TRUNC), one write of the whole buffer *)
Definition write_file (p : path) (bytes : list Z) (s : st) : st * res unit :=
  let '(s1, r1) := sys_open p s in
  match r1 with
  | RErr e => (s1, RErr e)
  | ROk _ => sys_write p bytes s1
  end.

(* create_project_directories 138-154 *)
Fixpoint mkdirs (base : path) (ds : list path) (s : st) : st * res unit :=
  match ds with
  | [] => (s, ROk tt)
  | d :: r => let '(s1, r1) := mkdir_all (base ++ d) s in
              match r1 with
              | RErr e => (s1, RErr e)
              | ROk _ => mkdirs base r s1
              end
  end.

(* write_project_files 186-218 over already rendered contents *)
Fixpoint write_files (base : path) (files : list (path * list Z)) (s : st) : st * res unit :=
  match files with
  | [] => (s, ROk tt)
  | (rel, bytes) :: r => let '(s1, r1) := write_file (base ++ rel) bytes s in
                         match r1 with
                         | RErr e => (s1, RErr e)
                         | ROk _ => write_files base r s1
                         end
  end.

(* outcome of the process: exit status 0, or exit status 1 with the outermost error context *)
Inductive outcome := Done | Failed (stage : Z).
Definition ST_INVALID_NAME : Z := 1.    (* "Invalid program name ..." *)
Definition ST_EXISTS : Z := 2.          (* "Target path `..` already exists ..." *)
Definition ST_STAGING : Z := 3.         (* "Failed to create staging directory ..." *)
Definition ST_STAGING_EXHAUSTED : Z := 4. (* "Unable to allocate a temporary staging directory ..." *)
Definition ST_DIRS : Z := 5.            (* "Failed to create scaffold directories in ..." *)
Definition ST_FILES : Z := 6.           (* "Failed to write scaffold files in ..." *)
Definition ST_KEYPAIR_DIR : Z := 7.     (* "Failed to create keypair directory ..." *)
Definition ST_KEYPAIR_WRITE : Z := 8.   (* "Failed to write program keypair ..." *)
Definition ST_RENAME : Z := 9.          (* "Failed to move scaffold from .. to .." *)

Variable tag : nat -> str.

(* ".{name}.sf-new-{pid}-{nanos+attempt}" *)
Definition staging_name (name : str) (attempt : nat) : str :=
  c20_staging_prefix ++ name ++ c20_staging_infix ++ tag attempt.

(* staging_directory_for 111-135: `left` attempts remain, the next one is number i *)
Fixpoint staging_loop (name : str) (left i : nat) (s : st) : st * option path * Z :=
  match left with
  | O => (s, None, ST_STAGING_EXHAUSTED)
  | S left' =>
      let cand := [staging_name name i] in
      let '(s1, r) := sys_mkdir cand s in
      match r with
      | ROk _ => (s1, Some cand, 0)
      | RErr e => if e =? EEXIST then staging_loop name left' (S i) s1 else (s1, None, ST_STAGING)
      end
  end.

Definition rendered_files (name pubkey : str) : list (path * list Z) :=
  map (fun ft => (fst ft, render (snd ft) name pubkey)) c20_files.

(* the closure of scaffold_project 66-81 *)
Definition scaffold_body (staging : path) (name pubkey keyjson : str) (s : st) : st * option Z :=
  let '(s1, r1) := mkdirs staging c20_dirs s in
  match r1 with
  | RErr _ => (s1, Some ST_DIRS)
  | ROk _ =>
      let '(s2, r2) := write_files staging (rendered_files name pubkey) s1 in
      match r2 with
      | RErr _ => (s2, Some ST_FILES)
      | ROk _ =>
          (* write_program_keypair 163-184 *)
          let kp := staging ++ keypair_rel name in
          let '(s3, r3) := mkdir_all (parent kp) s2 in
          match r3 with
          | RErr _ => (s3, Some ST_KEYPAIR_DIR)
          | ROk _ =>
              (* write_keypair_file = write_to_file: create_dir_all(parent); open; write *)
              let '(s4, r4) := mkdir_all (parent kp) s3 in
              match r4 with
              | RErr _ => (s4, Some ST_KEYPAIR_WRITE)
              | ROk _ =>
                  let '(s5, r5) := write_file kp keyjson s4 in
                  match r5 with
                  | RErr _ => (s5, Some ST_KEYPAIR_WRITE)
                  | ROk _ => (s5, None)
                  end
              end
          end
      end
  end.

Variable cleanup_ok : bool.

(* `let _ = fs::remove_dir_all(&staging_dir);` *)
Definition cleanup (staging : path) (s : st) : st :=
  if cleanup_ok then
    match k_remove_dir_all staging (cur s) with
    | ROk f' => with_fs s f'
    | RErr _ => s
    end
  else s.

(* scaffold_project 54-101 *)
Definition scaffold_project (name pubkey keyjson : str) (s : st) : st * outcome :=
  let dest := [name] in
  if path_exists (cur s) dest then (s, Failed ST_EXISTS)
  else
    let '(s1, staging, code) := staging_loop name c20_staging_attempts 0 s in
    match staging with
    | None => (s1, Failed code)
    | Some stg =>
        let '(s2, r) := scaffold_body stg name pubkey keyjson s1 in
        match r with
        | Some stage => (cleanup stg s2, Failed stage)
        | None =>
            let '(s3, r3) := sys_rename stg dest s2 in
            match r3 with
            | RErr _ => (cleanup stg s3, Failed ST_RENAME)
            | ROk _ => (s3, Done)
            end
        end
    end.

(* new_project_in 26-30 (what follows only prints) *)
Definition sf_new (raw pubkey keyjson : str) (f : fs) : fs * outcome :=
  match validate_arg raw with
  | Reject _ => (f, Failed ST_INVALID_NAME)
  | Accept name =>
      let '(s', o) := scaffold_project name pubkey keyjson (mkSt 0 0 0 0 f) in
      (cur s', o)
  end.

End WithOracle.

(* ------------------------------------------------------------------------------------------ *)
(* runner entry points                                                                         *)

Definition znat (z : Z) : nat := Z.to_nat z.

(* take a length-prefixed list *)
Definition take_lp (l : list Z) : list Z * list Z :=
  match l with
  | [] => ([], [])
  | n :: r => (firstn (znat n) r, skipn (znat n) r)
  end.

Definition lp (l : list Z) : list Z := zlen l :: l.

Definition poly_hash (l : list Z) : Z :=
  fold_left (fun h c => (h * 1000003 + c + 1) mod 2305843009213693951) l 7.

(* run_c20n: [ |pk| ; pk ... ; raw name chars ... ]
   ->  [reason]                                  when rejected
       [0; lp name; lp under; lp upper; lp pascal; lp keypair-file-name; (|rendered|, hash) per template when |pk|>0] *)
Definition run_c20n (ints : list Z) : list Z :=
  let '(pk, raw) := take_lp ints in
  match validate_arg raw with
  | Reject r => [r]
  | Accept n =>
      [0] ++ lp n ++ lp (dash_to_us n) ++ lp (v_upper n) ++ lp (v_pascal n) ++ lp (last (keypair_rel n) []) ++
      (match pk with
       | [] => []
       | _ => flat_map (fun ft => let r := render (snd ft) n pk in [zlen r; poly_hash r]) c20_files
       end)
  end.

(* observation of a tree: per entry  kind(0 dir,1 file,2 symlink) ; #components ; lp component ... ; lp content|target-as-joined *)
Definition enc_path (p : path) : list Z := zlen p :: flat_map lp p.
Definition enc_entry (e : path * node) : list Z :=
  match snd e with
  | Dir => [0] ++ enc_path (fst e)
  | File c => [1] ++ enc_path (fst e) ++ lp c
  | Symlink t => [2] ++ enc_path (fst e) ++ enc_path t
  end.

Definition cls_of (z : Z) : cls :=
  if z =? 0 then CMkdir else if z =? 1 then COpen else if z =? 2 then CWrite else CRename.

(* faults: list of (class, index, errno) *)
Fixpoint faults_oracle (fl : list (Z * Z * Z)) : oracle :=
  match fl with
  | [] => no_fault
  | (c, k, e) :: r => fun c' k' => if cls_eqb (cls_of c) c' && Nat.eqb (znat k) k' then Some e else faults_oracle r c' k'
  end.

Fixpoint take_faults (n : nat) (l : list Z) : list (Z * Z * Z) * list Z :=
  match n with
  | O => ([], l)
  | S k => match l with
           | c :: i :: e :: r => let '(fl, rest) := take_faults k r in ((c, i, e) :: fl, rest)
           | _ => ([], [])
           end
  end.

Definition s_keep : str := [107; 101; 101; 112; 46; 116; 120; 116].        (* keep.txt *)
Definition s_inner : str := [105; 110; 110; 101; 114].                     (* inner *)
Definition s_nowhere : str := [110; 111; 119; 104; 101; 114; 101].         (* nowhere *)
Definition s_elsewhere : str := [101; 108; 115; 101; 119; 104; 101; 114; 101]. (* elsewhere *)
Definition fake_tag (i : nat) : str := [80; 45] ++ repeat 84 (S i).        (* "P-T", "P-TT", ... *)

(* the initial directory of a scaffold case: `keep.txt` (content "k"), a directory `elsewhere`, and at the target:
   0 nothing, 1 a file, 2 an empty dir, 3 a dir with a file `inner`, 4 a symlink to keep.txt, 5 a dangling symlink
   (to `nowhere`), 6 a symlink to the directory `elsewhere`, 7 a symlink to itself *)
Definition initial_fs (pre : Z) (target : str) : fs :=
  let basefs := [([], Dir); ([s_keep], File [107]); ([s_elsewhere], Dir)] in
  if pre =? 1 then ([target], File [120]) :: basefs
  else if pre =? 2 then ([target], Dir) :: basefs
  else if pre =? 3 then ([target; s_inner], File [105]) :: ([target], Dir) :: basefs
  else if pre =? 4 then ([target], Symlink [s_keep]) :: basefs
  else if pre =? 5 then ([target], Symlink [s_nowhere]) :: basefs
  else if pre =? 6 then ([target], Symlink [s_elsewhere]) :: basefs
  else if pre =? 7 then ([target], Symlink [target]) :: basefs
  else basefs.

(* run_c20s: [pre; cleanup_ok; nfaults; (class, index, errno)*; lp raw-name; lp pubkey; lp keyjson]
   -> [stage (0 = exit 0)] ++ entries of the final tree (in model order; the comparator sorts) *)
Definition run_c20s (ints : list Z) : list Z :=
  match ints with
  | pre :: cok :: nf :: r =>
      let '(fl, r1) := take_faults (znat nf) r in
      let '(raw, r2) := take_lp r1 in
      let '(pk, r3) := take_lp r2 in
      let '(kj, _) := take_lp r3 in
      let '(f', o) := sf_new (faults_oracle fl) fake_tag (negb (cok =? 0)) raw pk kj (initial_fs pre (trim raw)) in
      (match o with Done => 0 | Failed c => c end) :: flat_map enc_entry f'
  | _ => [-1]
  end.
