(* C20 model, part 3: a file-system state and the kernel / std::fs operations `sf new` uses.
   The state is an association list  path -> node  rooted at the process's working directory (the scaffolder's
   output directory is always `.`, new_project.rs 22-24); a path is the list of its components below `.`.
   The failure rules are those of Linux mkdir(2) / open(2) O_CREAT|O_TRUNC / write(2) / rename(2) as far as the
   scaffolder can meet them; they are a MODEL of the kernel (trusted base), exercised by the strace replay.
   Limitation: only the final component of a path may be a symbolic link (intermediate components of every path the
   scaffolder touches are `.` or directories it created itself).  No proofs in this file. *)
From SF Require Import Base.Prelude Cli.Name.

Definition path := list str.

Inductive node :=
| Dir
| File (content : list Z)
| Symlink (target : path).

Definition fs := list (path * node).

Fixpoint path_eqb (a b : path) : bool :=
  match a, b with
  | [], [] => true
  | x :: a', y :: b' => str_eqb x y && path_eqb a' b'
  | _, _ => false
  end.

(* a is a prefix of p (a = p included): p lies in the subtree rooted at a *)
Fixpoint is_prefix (a p : path) : bool :=
  match a with
  | [] => true
  | x :: a' => match p with
               | [] => false
               | y :: p' => str_eqb x y && is_prefix a' p'
               end
  end.

Definition parent (p : path) : path := removelast p.

Fixpoint lookup (p : path) (f : fs) : option node :=
  match f with
  | [] => None
  | (q, n) :: r => if path_eqb p q then Some n else lookup p r
  end.

Definition remove_key (p : path) (f : fs) : fs := filter (fun e => negb (path_eqb p (fst e))) f.
Definition set (p : path) (n : node) (f : fs) : fs := (p, n) :: remove_key p f.
Definition remove_tree (p : path) (f : fs) : fs := filter (fun e => negb (is_prefix p (fst e))) f.
Definition move_tree (a b : path) (f : fs) : fs :=
  map (fun e => if is_prefix a (fst e) then (b ++ skipn (length a) (fst e), snd e) else e) (remove_tree b f).
Definition has_children (p : path) (f : fs) : bool :=
  existsb (fun e => is_prefix p (fst e) && negb (path_eqb p (fst e))) f.

(* stat(2): follows a symbolic link in the final component, at most 40 times (ELOOP) *)
Fixpoint resolve (fuel : nat) (f : fs) (p : path) : option node :=
  match fuel with
  | O => None
  | S k => match lookup p f with
           | Some (Symlink t) => resolve k f t
           | x => x
           end
  end.
Definition stat (f : fs) (p : path) : option node := resolve 40 f p.
Definition path_exists (f : fs) (p : path) : bool := match stat f p with Some _ => true | None => false end. (* Path::exists *)
Definition path_is_dir (f : fs) (p : path) : bool := match stat f p with Some Dir => true | _ => false end.  (* Path::is_dir *)

(* errno values (Linux) *)
Definition ENOENT : Z := 2.
Definition EIO : Z := 5.
Definition EBADF : Z := 9.
Definition EEXIST : Z := 17.
Definition ENOTDIR : Z := 20.
Definition EISDIR : Z := 21.
Definition EINVAL : Z := 22.
Definition ENOTEMPTY : Z := 39.
Definition ELOOP : Z := 40.

Inductive res (A : Type) := ROk (a : A) | RErr (errno : Z).
Arguments ROk {A} a.
Arguments RErr {A} errno.

(* what the directory entry's parent must be for an entry to be created in it *)
Definition parent_check (p : path) (f : fs) : option Z :=
  match lookup (parent p) f with
  | Some Dir => None
  | None => Some ENOENT
  | Some _ => Some ENOTDIR
  end.

(* mkdir(2) *)
Definition k_mkdir (p : path) (f : fs) : res fs :=
  match lookup p f with
  | Some _ => RErr EEXIST
  | None => match parent_check p f with
            | Some e => RErr e
            | None => ROk (set p Dir f)
            end
  end.

(* open(2) with O_WRONLY|O_CREAT|O_TRUNC (fs::write, OpenOptions write+create+truncate).  A symbolic link in the
   final component would be followed by the kernel; the scaffolder only opens paths below the directory it has just
   created, so that case is given an error here and never arises (see ScaffoldProofs). *)
Definition k_open_create (p : path) (f : fs) : res fs :=
  match lookup p f with
  | Some Dir => RErr EISDIR
  | Some (File _) => ROk (set p (File []) f)
  | Some (Symlink _) => RErr ELOOP
  | None => match parent_check p f with
            | Some e => RErr e
            | None => ROk (set p (File []) f)
            end
  end.

(* write_all of the whole buffer to the descriptor just opened on p (offset 0 of an empty file) *)
Definition k_write (p : path) (bytes : list Z) (f : fs) : res fs :=
  match lookup p f with
  | Some (File _) => ROk (set p (File bytes) f)
  | _ => RErr EBADF
  end.

(* rename(2) *)
Definition k_rename (a b : path) (f : fs) : res fs :=
  match lookup a f with
  | None => RErr ENOENT
  | Some na =>
      if is_prefix a b && negb (path_eqb a b) then RErr EINVAL
      else match lookup b f with
           | None => match parent_check b f with
                     | Some e => RErr e
                     | None => ROk (move_tree a b f)
                     end
           | Some nb =>
               match na, nb with
               | Dir, Dir => if has_children b f then RErr ENOTEMPTY else ROk (move_tree a b f)
               | Dir, _ => RErr ENOTDIR
               | _, Dir => RErr EISDIR
               | _, _ => ROk (move_tree a b f)
               end
           end
  end.

(* std::fs::remove_dir_all: lstat; a symlink is unlinked, a directory is removed with everything below it *)
Definition k_remove_dir_all (p : path) (f : fs) : res fs :=
  match lookup p f with
  | None => RErr ENOENT
  | Some (File _) => RErr ENOTDIR
  | Some _ => ROk (remove_tree p f)
  end.
