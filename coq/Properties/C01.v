(* C01 - Unsized values behave like their owned models under any operation history.  Statements only.

   FULL statement (DESIGN.md section 5, C01): for every shape of the universe `ty`, every well-formed value
   and every finite history of public operations at any nesting depth, the pointer machine (Unsized/Machine.v,
   Ops.v) succeeds / fails exactly when the owned model does and every observation agrees.
   PROVED here (named ..._general, from Unsized/Proofs/{Layout,Observe,Table,Path,Context,Focus,FocusOps,NotifyInside,
   Resize,GenOps,History}.v): for EVERY shape of the universe (structs, lists, trailing bytes, lists and maps of unsized
   elements, generated enums - all nested to any depth; the hypothesis `plain t = true` that the statements carry is
   true of every shape, C01_every_shape), every well-formed value, every path and every finite history of
   List::insert_all / remove_range (push, insert, pop, remove, clear are instances) issued at ANY nesting depth through
   get_mut / get_exclusive on every list of unsized elements on the way: the machine succeeds exactly when the owned
   model does, every ancestor header / offset table / live pointer is updated, and every observation agrees.
   The same for the FULL operation set (C01_all_ops_...): in-place stores (List / RemainingBytes index_mut),
   RemainingBytes::set_len, and the element-level operations of lists of unsized elements - insert of default-initialised
   elements, remove_range, clear - with their offset-table surgery, again at any depth.  C01_dispatcher_tie connects the
   functions the theorems are about with `exec`, the dispatcher the extracted runner executes in the correspondence check.
   The keyed views (C01_keyed_...): Set / Map (sorted lists) and UnsizedMap (sorted offset table) insert and remove through the
   binary search refine the sorted-association-list model and keep the keys strictly ascending.  Whole-value replacement
   (set_from_owned, C01_set_data_refines) for every sub-value whose chain of first fields ends in a non-struct.
   UnsizedMap insert on an EXISTING key replaces the element by the default value through get_exclusive + set_from_init
   (C01_keyed_unsized_map_overwrite).
   Generated enums (since the enum extension of the theory: Unsized/Proofs/EnumFacts.v, Enums.v and an enum case in every
   induction): paths descend into the live variant's payload (step SV), every operation above works inside it, whole enum
   values are replaced by set_from_owned, and the generated setter set_<variant>(DefaultInit) (C01_enum_switch_refines,
   C01_run_refines_with_switches, C01_dispatcher_tie_switch) refines assigning the new variant's default value.
   NOT covered by a theorem: UnsizedString, non-default initialisers, failing initialisers (D16).
   Also (named ..._flat, the earlier special case): the full refinement for FLAT shapes - generated structs whose fields are
   fixed-size values, lists of any element type and prefix width, and a trailing RemainingBytes - under
   histories of insert_all / remove_range (push, insert, pop, remove, clear are instances) with interleaving
   between sibling fields, unbounded in sizes and steps; and the shape-generic lemmas below (the shift lemma covers the
   repaired D7 branch for every shape). *)
From SF Require Import Base.Prelude Gen.Generated Unsized.Types Unsized.Parse Unsized.Machine Unsized.Ops.
From SF Require Import Unsized.Proofs.EncodeParse Unsized.Proofs.Mem Unsized.Proofs.Notify Unsized.Proofs.Flat.
From SF Require Import Unsized.Proofs.Layout Unsized.Proofs.Observe Unsized.Proofs.Path Unsized.Proofs.Context Unsized.Proofs.FocusOps
  Unsized.Proofs.NotifyInside Unsized.Proofs.Resize Unsized.Proofs.GenOps Unsized.Proofs.History.
From SF Require Import Unsized.Run Unsized.Proofs.Init Unsized.Proofs.History2 Unsized.Proofs.ExecTie.
From SF Require Import Unsized.Proofs.ExecTie2 Unsized.Proofs.Keyed Unsized.Proofs.NotifyInside2 Unsized.Proofs.SetData.
From SF Require Import Unsized.Proofs.History3 Unsized.Proofs.History4 Unsized.Proofs.Enums Unsized.Proofs.InitKinds Unsized.Proofs.StringSet.

(* one operation: same success, and the new machine state represents the owned model's new value *)
Theorem C01_flat_step_refines :
  forall ts vs s top o vs',
    Rep ts vs s top -> m_refuse s <> 1 -> ostep (m_cap s) ts vs o = Some vs' ->
    exists s', mstep ts s top o = Ok (s', PStruct (lay ts vs' 0), []) /\
               Rep ts vs' s' (PStruct (lay ts vs' 0)) /\ m_cap s' = m_cap s /\ m_refuse s' = m_refuse s.
Proof. exact flat_step_refines. Qed.

(* any history, by induction on its length *)
Theorem C01_flat_run_refines :
  forall ts h vs s top vs',
    Rep ts vs s top -> m_refuse s <> 1 -> orun (m_cap s) ts vs h = Some vs' ->
    exists s', mrun ts s top h = Ok (s', PStruct (lay ts vs' 0)) /\ Rep ts vs' s' (PStruct (lay ts vs' 0)).
Proof. exact flat_run_refines. Qed.

(* failures agree with the owned model's (Vec: index, range; the length prefix; the growth allowance), and
   an `Err` outcome of the machine is returned before any write *)
Theorem C01_flat_insert_index_error :
  forall tsA tsB vsA vsB c lw items, length tsA = length vsA -> forall s top idx new,
    Rep (tsA ++ TList c lw :: tsB) (vsA ++ VList items :: vsB) s top -> zlen items < idx ->
    list_insert (TStruct (tsA ++ TList c lw :: tsB)) s top [PF (length tsA)] idx new = Err E_INDEX.
Proof. exact list_insert_index_error. Qed.

Theorem C01_flat_insert_prefix_error :
  forall tsA tsB vsA vsB c lw items, length tsA = length vsA -> forall s top idx new,
    Rep (tsA ++ TList c lw :: tsB) (vsA ++ VList items :: vsB) s top -> idx <= zlen items ->
    256 ^ Z.of_nat lw <= zlen items + zlen new ->
    list_insert (TStruct (tsA ++ TList c lw :: tsB)) s top [PF (length tsA)] idx new = Err E_TOPRIM.
Proof. exact list_insert_prefix_error. Qed.

Theorem C01_flat_remove_range_error :
  forall tsA tsB vsA vsB c lw items, length tsA = length vsA -> forall s top st en,
    Rep (tsA ++ TList c lw :: tsB) (vsA ++ VList items :: vsB) s top -> en < st ->
    list_remove (TStruct (tsA ++ TList c lw :: tsB)) s top [PF (length tsA)] st en = Err E_RANGE.
Proof. exact list_remove_range_error. Qed.

Theorem C01_flat_remove_index_error :
  forall tsA tsB vsA vsB c lw items, length tsA = length vsA -> forall s top st en,
    Rep (tsA ++ TList c lw :: tsB) (vsA ++ VList items :: vsB) s top -> st <= en -> zlen items < en ->
    list_remove (TStruct (tsA ++ TList c lw :: tsB)) s top [PF (length tsA)] st en = Err E_INDEX.
Proof. exact list_remove_index_error. Qed.

(* every observation in a represented state equals the owned value: through the still-live accessors, as
   raw bytes, and through a fresh parse (shared borrow / owned conversion) *)
Theorem C01_flat_observable :
  forall ovf ts vs s top, Rep ts vs s top ->
    owned_ptr ovf (TStruct ts) (m_mem s) top = Ok (VStruct vs) /\
    ztake (m_len s) (m_mem s) = encode (TStruct ts) (VStruct vs) /\
    m_len s = byte_size (TStruct ts) (VStruct vs) /\
    parse ovf (TStruct ts) (ztake (m_len s) (m_mem s)) = Ok (VStruct vs, m_len s).
Proof. exact rep_observable. Qed.

(* releasing and re-borrowing: the pointers derived from canonical bytes are the layout *)
Theorem C01_flat_reborrow :
  forall ovf ts vs s,
    forallb leaf ts = true -> ty_ok true (TStruct ts) = true -> wf (TStruct ts) (VStruct vs) = true ->
    (exists junk, m_mem s = encs ts vs ++ junk) -> m_len s = zlen (encs ts vs) ->
    exists top, get_ptr ovf (TStruct ts) (m_mem s) 0 (m_len s) = Ok (top, m_len s) /\ Rep ts vs s top.
Proof. exact rep_borrow. Qed.

(* ALL shapes: a resize located before a pointer tree shifts the whole tree, recorded inner pointers of
   lists of unsized elements included (the repaired "change happened before me" branch, D7) *)
Theorem C01_notify_shift :
  forall t p src c m, after src t p = true -> notify t p src c m = Ok (shift c p, m).
Proof. exact notify_shift. Qed.

(* ---------------------------------------------------------------------------------------------- *)
(* ANY nesting depth                                                                               *)

(* the descent through get_mut / get_exclusive: every list of unsized elements on the path records the layout of
   exactly the element the path goes through, nothing else changes *)
Theorem C01_general_descent :
  forall ovf r pre t v s top X xv,
    RepF pre t v s top -> resolve t v (pre ++ r) = Some (X, xv) ->
    exists top', menter ovf t s top (mpath pre) r = Ok top' /\ RepF (pre ++ r) t v s top'.
Proof. exact menter_ok. Qed.

(* one operation anywhere inside the value: same success, the new state represents the owned model's new value *)
Theorem C01_general_step_refines :
  forall ovf t v s top pi0 o v',
    RepF pi0 t v s top -> m_refuse s <> 1 -> ostepG (m_cap s) t v o = Some v' ->
    exists s' top', mstepG ovf t s top o = Ok (s', top', []) /\ RepF (focus_of o) t v' s' top' /\
                    m_cap s' = m_cap s /\ m_refuse s' = m_refuse s.
Proof. exact gstep_refines. Qed.

(* any history, by induction on its length *)
Theorem C01_general_run_refines :
  forall ovf t h v s top pi0 v',
    RepF pi0 t v s top -> m_refuse s <> 1 -> orunG (m_cap s) t v h = Some v' ->
    exists s' top' pi', mrunG ovf t s top h = Ok (s', top') /\ RepF pi' t v' s' top' /\ m_cap s' = m_cap s.
Proof. exact grun_refines. Qed.

(* the resize notification of a container anywhere inside the value fixes exactly the ancestors' headers and
   offset tables (the byte context of the container with the size change applied) and yields the layout of
   the new value, the container's own node apart *)
Theorem C01_general_notify_inside :
  forall pi t last v p X xv xv' c h pre post,
    plain t = true -> ty_ok last t = true -> wf t v = true ->
    resolve t v pi = Some (X, xv) -> container X = true ->
    LayP Lay pi t v (zlen pre) p ->
    zlen h = zlen (encode X xv) + c ->
    zlen (encode X xv') = zlen (encode X xv) + c ->
    0 <= zlen (encode X xv) + c ->
    zlen (encode t v) + c < U32_LIMIT ->
    exists p',
      notify t p (addr_of t v pi (zlen pre)) c (pre ++ fst (hctx t v pi 0) ++ h ++ snd (hctx t v pi 0) ++ post)
      = Ok (p', pre ++ fst (hctx t v pi c) ++ h ++ snd (hctx t v pi 0) ++ post)
      /\ LayP (EndNotified xv c) pi t (plug t v pi xv') (zlen pre) p'.
Proof. exact notify_inside. Qed.

(* every observation in a represented state equals the owned value: through the live accessors (whatever the
   lists of unsized elements remember), as raw bytes, through a fresh parse; and no pointer assertion can fire *)
Theorem C01_general_observable :
  forall ovf pi t v s top, RepF pi t v s top ->
    owned_ptr ovf t (m_mem s) top = Ok v /\
    ztake (m_len s) (m_mem s) = encode t v /\
    m_len s = byte_size t v /\
    parse ovf t (ztake (m_len s) (m_mem s)) = Ok (v, m_len s) /\
    top_check s top = true.
Proof. exact repf_observable. Qed.

(* releasing and re-borrowing *)
Theorem C01_general_reborrow :
  forall ovf t v s,
    plain t = true -> ty_ok true t = true -> wf t v = true ->
    (exists junk, m_mem s = encode t v ++ junk) -> m_len s = zlen (encode t v) -> m_cap s < U32_LIMIT ->
    exists top, get_ptr ovf t (m_mem s) 0 (m_len s) = Ok (top, m_len s) /\ RepF [] t v s top.
Proof. exact repf_borrow. Qed.

(* non-vacuity on a nested shape: a struct holding a list of unsized elements whose elements are structs holding
   lists; operations two levels down, interleaved with a sibling and a top-level list *)
Example C01_nonvacuous_general :
  let et := TStruct [TFixed (FAny 2); TList (FAny 1) 1] in
  let t := TStruct [TList (FAny 1) 4; TUList et 0; TList (FAny 2) 4] in
  let e x y := VStruct [VBytes [x; x]; VList y] in
  let v := VStruct [VList [[1]]; VUList [([], e 3 [[5]; [6]]); ([], e 4 []); ([], e 5 [[9]])]; VList [[9; 9]]] in
  let s := mkMach (encode t v ++ zrepeat 0 10240) (zlen (encode t v)) 0 0 in
  let h := [GInsert [SF 1; SE 1; SF 1] 0 [[7]; [7]; [7]]; GInsert [SF 0] 1 [[2]; [2]];
            GRemove [SF 1; SE 0; SF 1] 0 1; GInsert [SF 1; SE 2; SF 1] 1 [[8]]; GRemove [SF 2] 0 1;
            GRemove [SF 1; SE 1; SF 1] 1 3] in
  let v' := VStruct [VList [[1]; [2]; [2]]; VUList [([], e 3 [[6]]); ([], e 4 [[7]]); ([], e 5 [[9]; [8]])]; VList []] in
  orunG (m_cap s) t v h = Some v' /\
  match get_ptr true t (m_mem s) 0 (m_len s) with
  | Ok (top, _) =>
      match mrunG true t s top h with
      | Ok (s', top') => ztake (m_len s') (m_mem s') = encode t v' /\ owned_ptr true t (m_mem s') top' = Ok v' /\ top_check s' top' = true
      | _ => False
      end
  | _ => False
  end.
Proof. vm_compute. repeat split; reflexivity. Qed.

(* ---------------------------------------------------------------------------------------------- *)
(* the full operation set, any depth                                                                *)
Theorem C01_all_ops_step_refines :
  forall ovf t v s top pi0 o v',
    RepF pi0 t v s top -> m_refuse s <> 1 -> ostepX (m_cap s) t v o = Some v' ->
    exists s' top', mstepX ovf t s top o = Ok (s', top', []) /\ RepF (xfocus o) t v' s' top' /\
                    m_cap s' = m_cap s /\ m_refuse s' = m_refuse s.
Proof. exact xstep_refines. Qed.

Theorem C01_all_ops_run_refines :
  forall ovf t h v s top pi0 v',
    RepF pi0 t v s top -> m_refuse s <> 1 -> orunX (m_cap s) t v h = Some v' ->
    exists s' top' pi', mrunX ovf t s top h = Ok (s', top') /\ RepF pi' t v' s' top' /\ m_cap s' = m_cap s.
Proof. exact History2.xrun_refines. Qed.

(* the dispatcher of the extracted runner (Run.exec, what the correspondence check executes) returns exactly what the
   descent followed by the operation returns *)
Theorem C01_dispatcher_tie :
  forall ovf t v s top o r,
    RepF [] t v s top ->
    (exists X xv, resolve t v (focus_of o) = Some (X, xv) /\ (exists c lw, X = TList c lw)) ->
    mstepG ovf t s top o = Ok r ->
    forall fuel, (length (focus_of o) < fuel)%nat -> exec fuel ovf t s top [] (enc_op t v o) = Ok r.
Proof. exact exec_tie_ok. Qed.

(* the dispatcher tie for the full operation set *)
Theorem C01_dispatcher_tie_all_ops :
  forall ovf t v s top o r,
    RepF [] t v s top -> (exists v', ostepX (m_cap s) t v o = Some v') ->
    mstepX ovf t s top o = Ok r ->
    forall fuel, (length (xfocus o) < fuel)%nat -> exec fuel ovf t s top [] (enc_xop t v o) = Ok r.
Proof. exact exec_tie_x_ok. Qed.

(* whole-value replacement anywhere inside the value: ExclusiveWrapper::set_from_owned refines assignment *)
Theorem C01_set_data_refines :
  forall ovf pi t v X xv xv' s top,
    resolve t v pi = Some (X, xv) -> headed X = true -> wf X xv' = true -> 0 < zlen (encode X xv) ->
    RepF pi t v s top -> m_refuse s <> 1 -> m_len s + (zlen (encode X xv') - zlen (encode X xv)) <= m_cap s ->
    exists s' top', set_data ovf t s top (mpath pi) (zlen (encode X xv')) (Ok (encode X xv')) = Ok (s', top', []) /\
                    RepF pi t (plug t v pi xv') s' top' /\ m_cap s' = m_cap s /\ m_refuse s' = m_refuse s.
Proof. exact set_data_general. Qed.

(* the keyed views: binary search, then the list operation; the keys stay strictly ascending *)
Theorem C01_keyed_lower_bound :
  forall keys k, strictly_ascending keys = true ->
    let '(idx, found) := lower_bound keys k 0 in
    0 <= idx <= zlen keys /\ Forall (fun x => x < k) (firstn (Z.to_nat idx) keys) /\
    Forall (fun x => k <= x) (skipn (Z.to_nat idx) keys) /\
    (found = true <-> nth_error keys (Z.to_nat idx) = Some k) /\ (found = false -> ~ In k keys).
Proof. exact lower_bound_spec. Qed.

Theorem C01_keyed_set_insert :
  forall pi t v c lw items x,
    resolve t v (pi ++ [SF 0]) = Some (TList c lw, VList items) ->
    strictly_ascending (map le_decode items) = true ->
    forall s top idx,
    RepF (pi ++ [SF 0]) t v s top -> item_ok c x ->
    lower_bound (map le_decode items) (le_decode x) 0 = (idx, false) ->
    m_refuse s <> 1 -> m_len s + Z.of_nat (fsize c) <= m_cap s ->
    zlen items + 1 < 256 ^ Z.of_nat lw -> Z.of_nat (fsize c) * (zlen items + 1) < U64_LIMIT ->
    let items' := firstn (Z.to_nat idx) items ++ x :: skipn (Z.to_nat idx) items in
    exists s' top',
      set_insert_op t s top (mpath pi) c lw x = Ok (s', top', [1]) /\
      RepF (pi ++ [SF 0]) t (plug t v (pi ++ [SF 0]) (VList items')) s' top' /\
      m_cap s' = m_cap s /\ m_refuse s' = m_refuse s /\ strictly_ascending (map le_decode items') = true.
Proof. exact set_insert_absent. Qed.

Theorem C01_keyed_map_overwrite :
  forall pi t v c lw items key,
    resolve t v (pi ++ [SF 0]) = Some (TList c lw, VList items) ->
    strictly_ascending (lkeys (length key) items) = true ->
    forall value, item_ok c (key ++ value) ->
    forall s top idx,
    RepF (pi ++ [SF 0]) t v s top ->
    lower_bound (lkeys (length key) items) (le_decode key) 0 = (idx, true) ->
    let items' := firstn (Z.to_nat idx) items ++ (key ++ value) :: skipn (S (Z.to_nat idx)) items in
    exists s',
      map_insert_op t s top (mpath pi) c lw key value = Ok (s', top, [1]) /\
      RepF (pi ++ [SF 0]) t (plug t v (pi ++ [SF 0]) (VList items')) s' top /\
      m_cap s' = m_cap s /\ m_refuse s' = m_refuse s /\
      lkeys (length key) items' = lkeys (length key) items /\ strictly_ascending (lkeys (length key) items') = true.
Proof. exact map_insert_present. Qed.

Theorem C01_keyed_unsized_map_insert :
  forall pi t v it k items key,
    resolve t v (pi ++ [SF 0]) = Some (TUList it k, VUList items) -> k <> 0%nat ->
    forall ovf s top idx,
    RepF (pi ++ [SF 0]) t v s top -> zero_ok it = true -> 0 <= key < 256 ^ Z.of_nat k ->
    lower_bound (ukeys items) key 0 = (idx, false) ->
    m_refuse s <> 1 -> m_len s + (zlen (encode it (dflt it)) + (4 + Z.of_nat k)) <= m_cap s ->
    let items' := firstn (Z.to_nat idx) items ++ (le_bytes k key, dflt it) :: skipn (Z.to_nat idx) items in
    exists s' top',
      umap_insert_op ovf t s top (mpath pi) it k key 0 = Ok (s', top', [1]) /\
      RepF (pi ++ [SF 0]) t (plug t v (pi ++ [SF 0]) (VUList items')) s' top' /\
      m_cap s' = m_cap s /\ m_refuse s' = m_refuse s /\ strictly_ascending (ukeys items') = true.
Proof. exact umap_insert_absent. Qed.

Theorem C01_keyed_unsized_map_remove :
  forall pi t v it k items key,
    resolve t v (pi ++ [SF 0]) = Some (TUList it k, VUList items) -> k <> 0%nat ->
    forall s top idx,
    RepF (pi ++ [SF 0]) t v s top -> lower_bound (ukeys items) key 0 = (idx, true) ->
    let items' := firstn (Z.to_nat idx) items ++ skipn (Z.to_nat (idx + 1)) items in
    exists s' top',
      umap_remove_op t s top (mpath pi) k key = Ok (s', top', [1]) /\
      RepF (pi ++ [SF 0]) t (plug t v (pi ++ [SF 0]) (VUList items')) s' top' /\
      m_cap s' = m_cap s /\ m_refuse s' = m_refuse s /\ strictly_ascending (ukeys items') = true.
Proof. exact umap_remove_present. Qed.

Theorem C01_keyed_unsized_map_overwrite :
  forall ovf pi t v it k items key s top idx,
    resolve t v (pi ++ [SF 0]) = Some (TUList it k, VUList items) -> k <> 0%nat ->
    RepF (pi ++ [SF 0]) t v s top -> zero_ok it = true -> headed it = true ->
    lower_bound (ukeys items) key 0 = (idx, true) -> m_refuse s <> 1 ->
    (forall kv, nth_error items (Z.to_nat idx) = Some kv ->
       0 < zlen (encode it (snd kv)) /\ m_len s + (zlen (encode it (dflt it)) - zlen (encode it (snd kv))) <= m_cap s) ->
    exists kv s' top',
      nth_error items (Z.to_nat idx) = Some kv /\
      (let items' := firstn (Z.to_nat idx) items ++ (fst kv, dflt it) :: skipn (S (Z.to_nat idx)) items in
       umap_insert_op ovf t s top (mpath pi) it k key 0 = Ok (s', top', [0]) /\
       RepF (pi ++ [SF 0; SE (Z.to_nat idx)]) t (plug t v (pi ++ [SF 0]) (VUList items')) s' top' /\
       m_cap s' = m_cap s /\ m_refuse s' = m_refuse s /\ ukeys items' = ukeys items /\
       strictly_ascending (ukeys items') = true).
Proof. exact umap_insert_present_items. Qed.

(* ONE history theorem for everything above: List / trailing-bytes / list-of-unsized-elements operations, whole-value
   replacement, and the keyed views (Set / Map / UnsizedMap with binary search), at any nesting depth, in any order;
   the machine returns the owned model's observation of every step ([0] / [1] of the keyed operations) *)
Theorem C01_full_step_refines :
  forall ovf t v s top pi0 o v' obs,
    RepF pi0 t v s top -> m_refuse s <> 1 -> ostepY (m_cap s) t v o = Some (v', obs) ->
    exists s' top' pi', mstepY ovf t s top o = Ok (s', top', obs) /\ RepF pi' t v' s' top' /\
                        m_cap s' = m_cap s /\ m_refuse s' = m_refuse s.
Proof. exact ystep_refines. Qed.

Theorem C01_full_run_refines :
  forall ovf t h v s top pi0 v' obss,
    RepF pi0 t v s top -> m_refuse s <> 1 -> orunY (m_cap s) t v h = Some (v', obss) ->
    exists s' top' pi', mrunY ovf t s top h = Ok (s', top', obss) /\ RepF pi' t v' s' top' /\ m_cap s' = m_cap s.
Proof. exact yrun_refines. Qed.

(* key-ordered containers stay strictly sorted and duplicate free: a keyed step of the owned model is only defined on a
   sorted view and leaves the view sorted *)
Theorem C01_keyed_views_stay_sorted :
  forall cap t v o v' obs, ostepY cap t v o = Some (v', obs) -> sorted_view t v o /\ sorted_view t v' o.
Proof. intros. split; [eapply ostepY_domain|eapply ostepY_keeps_sorted]; eauto. Qed.

(* ---- generated enums ---- *)
(* the hypothesis `plain t = true` of the statements above holds of every shape *)
Theorem C01_every_shape : forall t, plain t = true.
Proof. exact plain_all. Qed.

(* set_<variant d>(DefaultInit) at an enum reached by any path (through struct fields, elements of lists of unsized
   elements, payloads of other enums): the machine rewrites discriminant and payload, resizes, updates every ancestor
   header / offset table / live pointer, and represents the value with that enum replaced by variant d's default *)
Theorem C01_enum_switch_refines :
  forall ovf pi t v rw vs xv d vt s top,
    resolve t v pi = Some (TEnum rw vs, xv) -> find_variant d vs = Some vt ->
    0 <= d < 256 ^ Z.of_nat rw -> zero_ok vt = true ->
    RepF pi t v s top -> m_refuse s <> 1 ->
    m_len s + (Z.of_nat rw + init_size vt 0 - zlen (encode (TEnum rw vs) xv)) <= m_cap s ->
    exists s' top', set_data ovf t s top (mpath pi) (init_variant_size rw vt 0) (init_variant rw d vt 0) = Ok (s', top', []) /\
                    RepF pi t (plug t v pi (VEnum d (dflt vt))) s' top' /\ m_cap s' = m_cap s /\ m_refuse s' = m_refuse s.
Proof. exact enum_switch_general. Qed.

(* ONE history theorem for the full operation set plus variant switches, on every shape *)
Theorem C01_run_refines_with_switches :
  forall ovf t h v s top pi0 v' obss,
    RepF pi0 t v s top -> m_refuse s <> 1 -> orunZ (m_cap s) t v h = Some (v', obss) ->
    exists s' top' pi', mrunZ ovf t s top h = Ok (s', top', obss) /\ RepF pi' t v' s' top' /\ m_cap s' = m_cap s.
Proof. exact zrun_refines. Qed.

(* the dispatcher the extracted runner executes, on the op-code stream the harness sends for a switch *)
Theorem C01_dispatcher_tie_switch :
  forall ovf t v s top pi d r,
    RepF [] t v s top ->
    (exists X xv, resolve t v pi = Some (X, xv) /\ (exists rw vs, X = TEnum rw vs)) ->
    mstepZ ovf t s top (ZSwitch pi d) = Ok r ->
    forall fuel, (length pi < fuel)%nat -> exec fuel ovf t s top [] (enc_path t v pi ++ [60; d]) = Ok r.
Proof. exact exec_tie_switch. Qed.

(* NON-DEFAULT initializers (InitKinds.v): elements and values created by an initializer other than DefaultInit - the
   arrays of all-ones items of the harness family, `[1;1;1]` for RemainingBytes - through UnsizedList::insert, set_from_init
   and UnsizedMap::insert (new key and existing key).  `ival it kind` is the value the initializer creates (None when it
   fails: then the statement does not apply, see C06_failing_initializer_refuted).  Histories mixing these with every
   operation of C01_run_refines_with_switches refine the owned model; the dispatcher on the op codes does the same. *)
Theorem C01_initializer_writes_its_value :
  forall it kind dv, ival it kind = Some dv -> ones_ok it kind = true ->
    init_bytes it kind = Ok (encode it dv) /\ init_size it kind = zlen (encode it dv) /\ wf it dv = true.
Proof. exact ival_init. Qed.

Theorem C01_run_refines_with_initializers :
  forall ovf t h v s top pi0 v' obss,
    RepF pi0 t v s top -> m_refuse s <> 1 -> orunK (m_cap s) t v h = Some (v', obss) ->
    exists s' top' pi', mrunK ovf t s top h = Ok (s', top', obss) /\ RepF pi' t v' s' top' /\ m_cap s' = m_cap s.
Proof. exact krun_refines. Qed.

Theorem C01_dispatcher_refines_initializers :
  forall ovf t v s top o v' obs,
    RepF [] t v s top -> m_refuse s <> 1 -> is_new o -> ostepK (m_cap s) t v o = Some (v', obs) ->
    forall fuel, (length (kfocus o) < fuel)%nat ->
    exists s' top' pi', exec fuel ovf t s top [] (enc_kop t v o) = Ok (s', top', obs) /\
                        RepF pi' t v' s' top' /\ m_cap s' = m_cap s /\ m_refuse s' = m_refuse s.
Proof. exact exec_k_refines. Qed.

(* UnsizedString (StringSet.v): `set(s)` = clear + push_all on the byte list behind the string.  The owned model assigns
   the new bytes; a string that no longer fits its length prefix or the allocation leaves the string CLEARED and reports
   the error (the composite is not atomic - accepted: the bytes stay canonical).  `sop` adds it to the operations of
   C01_run_refines_with_initializers: ONE history theorem over every operation of the family, and the same through the
   dispatcher the extracted runner executes. *)
Theorem C01_string_set_refines :
  forall ovf t v s top pi0 pi bs v',
    RepF pi0 t v s top -> m_refuse s <> 1 -> ostepStr (m_cap s) t v pi bs = Some v' ->
    exists s' top' pi', mstepStr ovf t s top pi bs = Ok (s', top', []) /\ RepF pi' t v' s' top' /\
                        m_cap s' = m_cap s /\ m_refuse s' = m_refuse s.
Proof. exact string_set_refines. Qed.

Theorem C01_run_refines_every_operation :
  forall ovf t h v s top pi0 v' obss,
    RepF pi0 t v s top -> m_refuse s <> 1 -> orunS (m_cap s) t v h = Some (v', obss) ->
    exists s' top' pi', mrunS ovf t s top h = Ok (s', top', obss) /\ RepF pi' t v' s' top' /\ m_cap s' = m_cap s.
Proof. exact srun_refines. Qed.

Theorem C01_dispatcher_run_refines :
  forall fuel ovf t h v s top pi0 v' obss,
    RepF pi0 t v s top -> m_refuse s <> 1 -> Forall snew h -> Forall (fun o => (length (sfocus o) < fuel)%nat) h ->
    orunS (m_cap s) t v h = Some (v', obss) ->
    exists s' top' pi', xrunS fuel ovf (m_cap s) t v s top h = Ok (s', top', obss) /\ RepF pi' t v' s' top' /\ m_cap s' = m_cap s.
Proof. exact StringSet.xrun_refines. Qed.

Example C01_nonvacuous_enums :
  (* an enum inside a list of unsized elements inside a struct: switch to a data variant, insert into the list inside its
     payload (path through SV), switch back to the unit variant *)
  let t := TStruct [TFixed (FAny 1); TUList (TEnum 1 [(0, TStruct []); (3, TList (FAny 1) 1)]) 0; TList (FAny 1) 1] in
  let v := VStruct [VBytes [9]; VUList [([], VEnum 0 (VStruct [])); ([], VEnum 3 (VList [[5]]))]; VList [[7]]] in
  let s := mkMach (encode t v ++ zrepeat 0 32) (zlen (encode t v)) 0 0 in
  let h := [ZSwitch [SF 1; SE 0] 3; ZY (YX (XList (GInsert [SF 1; SE 0; SV] 0 [[4]])))] in
  let v' := VStruct [VBytes [9]; VUList [([], VEnum 3 (VList [[4]])); ([], VEnum 3 (VList [[5]]))]; VList [[7]]] in
  orunZ (m_cap s) t v h = Some (v', [[]; []]) /\
  match get_ptr true t (m_mem s) 0 (m_len s) with
  | Ok (top, _) =>
      match mrunZ true t s top h with
      | Ok (s', top', _) => ztake (m_len s') (m_mem s') = encode t v' /\ owned_ptr true t (m_mem s') top' = Ok v' /\ top_check s' top' = true
      | _ => False
      end
  | _ => False
  end.
Proof. vm_compute. repeat split; reflexivity. Qed.

Example C01_nonvacuous_all_ops :
  let et := TStruct [TFixed (FAny 2); TList (FAny 1) 1] in
  let t := TStruct [TList (FAny 1) 4; TUList et 0; TUList (TUList (TList (FAny 1) 4) 0) 0; TRem] in
  let e x y := VStruct [VBytes [x; x]; VList y] in
  let v := VStruct [VList [[1]]; VUList [([], e 3 [[5]; [6]]); ([], e 4 [])];
                    VUList [([], VUList [([], VList [[1]; [2]])])]; VBytes [9]] in
  let s := mkMach (encode t v ++ zrepeat 0 10240) (zlen (encode t v)) 0 0 in
  let h := [XUInsert [SF 1] 1 2; XList (GInsert [SF 1; SE 1; SF 1] 0 [[7]]); XWrite [SF 1; SE 0; SF 1] 1 [8];
            XUInsert [SF 2; SE 0] 0 1; XList (GInsert [SF 2; SE 0; SE 0] 0 [[4]; [4]]); XRemLen [SF 3] 3;
            XRemWrite [SF 3] 2 5; XURemove [SF 1] 2 4; XUClear [SF 2; SE 0]; XRemLen [SF 3] 1] in
  let v' := VStruct [VList [[1]]; VUList [([], e 3 [[5]; [8]]); ([], e 0 [[7]])]; VUList [([], VUList [])]; VBytes [9]] in
  orunX (m_cap s) t v h = Some v' /\
  match get_ptr true t (m_mem s) 0 (m_len s) with
  | Ok (top, _) =>
      match mrunX true t s top h with
      | Ok (s', top') => ztake (m_len s') (m_mem s') = encode t v' /\ owned_ptr true t (m_mem s') top' = Ok v' /\ top_check s' top' = true
      | _ => False
      end
  | _ => False
  end.
Proof. vm_compute. repeat split; reflexivity. Qed.

(* non-vacuity, and the D7 history on a nested shape evaluated on the machine: touch an element of a list of
   unsized elements, grow a preceding sibling, touch again - no panic, canonical bytes *)
Example C01_nonvacuous_flat :
  let ts := [TFixed (FAny 2); TList (FAny 1) 4; TList (FAny 2) 1; TRem] in
  let vs := [VBytes [1; 2]; VList [[5]]; VList []; VBytes [9]] in
  let s := mkMach (encs ts vs ++ zrepeat 0 10240) (zlen (encs ts vs)) 0 0 in
  orun (m_cap s) ts vs [FInsert 2 0 [[7; 7]; [8; 8]]; FInsert 1 1 [[6]]; FRemove 2 0 1; FRemove 1 0 2]
  = Some [VBytes [1; 2]; VList []; VList [[8; 8]]; VBytes [9]].
Proof. vm_compute. reflexivity. Qed.

Example C01_d7_history_on_the_machine :
  let t := TStruct [TList (FAny 1) 4; TUList (TList (FAny 1) 4) 0; TList (FAny 1) 4] in
  let v := VStruct [VList [[1]]; VUList [([], VList [[5]; [6]]); ([], VList [])]; VList [[9]]] in
  let bs := encode t v in
  let s0 := mkMach (bs ++ zrepeat 0 10240) (zlen bs) 0 0 in
  match get_ptr true t (m_mem s0) 0 (m_len s0) with
  | Ok (top, _) =>
      match ulist_touch true t s0 top [PF 1] 0 with
      | Ok (s1, top1, _) =>
          match list_insert t s1 top1 [PF 0] 1 [[7]; [7]; [7]] with
          | Ok (s2, top2, _) =>
              match ulist_touch true t s2 top2 [PF 1] 1 with
              | Ok (s3, top3, _) => top_check s3 top3 = true
              | _ => False
              end
          | _ => False
          end
      | _ => False
      end
  | _ => False
  end.
Proof. vm_compute. reflexivity. Qed.
