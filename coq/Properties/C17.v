(* C17 - The generated IDL is structurally valid and faithful to runtime behaviour. Statements only.
   (Structural validity, determinism and the shipped programs are facts of the harness run: see lib/props/c17.py.) *)
From SF Require Import Base.Prelude Unsized.Types Gen.Gen_c17 IdlSem.IdlSem IdlSem.IdlSemProofs
  IdlSem.Accounts IdlSem.AccountsProofs.

(* the switches of the source this run was built against (tools/gen_extra_c17.py) *)
Definition SOURCE_CFG : cfg := mkCfg C17_KEY_FULL C17_ONE_PASSTHROUGH C17_NONE_PLACEHOLDER C17_FALSE_CLEARS.

(* ---- type layouts ---------------------------------------------------------------------------------------- *)
(* every source-level unsized shape, every well-formed owned value: the emitted description decodes the canonical
   serialisation into the value and consumes every byte *)
Theorem C17_layout_faithful :
  forall s v, sty_ok true s = true -> wf (erase s) v = true ->
    idl_decodes (type_defs s) (type_to_idl s) (encode (erase s) v) (embed s v) [].
Proof. exact idl_layout_faithful. Qed.

(* inside any larger definition table and followed by any bytes, for shapes without a trailing RemainingBytes *)
Theorem C17_layout_faithful_prefix :
  forall s v defs0 rest, sty_ok false s = true -> wf (erase s) v = true ->
    idl_decodes (snd (to_idl s defs0)) (fst (to_idl s defs0)) (encode (erase s) v ++ rest) (embed s v) rest.
Proof. exact idl_layout_faithful_prefix. Qed.

(* the layout relation is a partial function and agrees with every successful run of the fuelled decoder *)
Theorem C17_layout_functional :
  forall defs t bs v r v' r', idl_decodes defs t bs v r -> idl_decodes defs t bs v' r' -> v = v' /\ r = r'.
Proof. exact idl_decodes_functional. Qed.

Theorem C17_layout_run :
  forall defs t bs v r f v' r', idl_decodes defs t bs v r -> idl_decode f defs t bs = Some (v', r') -> v = v' /\ r = r'.
Proof. exact idl_decodes_run. Qed.

(* canonical offsets are gap-free: element i starts at the sum of the sizes before it *)
Theorem C17_offsets_gap_free :
  forall it items i o, nth_error (offsets_from 0 (item_sizes it items)) i = Some o ->
    o = zsum (firstn i (item_sizes it items)).
Proof. exact encode_offsets_gap_free. Qed.

(* ---- #[type_to_idl(skip)] ------------------------------------------------------------------------------------ *)
(* "this field and all remaining fields will be skipped in the IDL definition": for a struct of fixed-size fields
   whose field k carries the attribute, the emitted description decodes the bytes of the WHOLE value (the
   concatenation of the field bytes, valid bit patterns) into the fields in front of field k - the first k fields of
   the embedded value - and leaves exactly the bytes of field k and the fields behind it unread *)
Theorem C17_skip_struct_prefix :
  forall fs k defs0 bs, forallb fix_ok fs = true ->
    length bs = fsizes (map erase_fix fs) -> fvalids (map erase_fix fs) bs = true ->
    idl_decodes (snd (skip_struct_to_idl fs k defs0)) (fst (skip_struct_to_idl fs k defs0)) bs
      (IVStruct (firstn k (embed_fixes fs bs))) (skipn (fixes_size (firstn k fs)) bs).
Proof. exact idl_skip_struct_prefix. Qed.

(* the same for the variant of a #[repr(u8)] enum that the discriminant byte selects; a unit variant reads that byte *)
Theorem C17_skip_enum_prefix :
  forall vs defs0 d fs k bs, skip_variants_ok vs = true -> find_skip_variant d vs = Some (Some (fs, k)) ->
    length bs = fsizes (map erase_fix fs) -> fvalids (map erase_fix fs) bs = true ->
    idl_decodes (snd (skip_enum_to_idl vs defs0)) (fst (skip_enum_to_idl vs defs0)) (d :: bs)
      (IVEnum d (Some (IVStruct (firstn k (embed_fixes fs bs))))) (skipn (fixes_size (firstn k fs)) bs).
Proof. exact idl_skip_enum_prefix. Qed.

Theorem C17_skip_enum_unit :
  forall vs defs0 d rest, skip_variants_ok vs = true -> find_skip_variant d vs = Some None ->
    idl_decodes (snd (skip_enum_to_idl vs defs0)) (fst (skip_enum_to_idl vs defs0)) (d :: rest) (IVEnum d None) rest.
Proof. exact idl_skip_enum_unit. Qed.

(* a description that leaves out ONLY the marked field is not faithful: the field behind the hole is read from the
   bytes of the marked one *)
Theorem C17_skip_hole_refuted :
  exists fs k bs v r,
    forallb fix_ok fs = true /\ length bs = fsizes (map erase_fix fs) /\ fvalids (map erase_fix fs) bs = true /\
    idl_decode 10 (snd (hole_struct_to_idl fs k [])) (fst (hole_struct_to_idl fs k [])) bs = Some (IVStruct v, r) /\
    nth_error v k <> nth_error (embed_fixes fs bs) (S k).
Proof. exact idl_skip_hole_refuted. Qed.

(* ---- instruction account lists ----------------------------------------------------------------------------- *)
(* for every switch setting, every program, every instruction whose account set is covered (`ok`) when the
   definition table holds one definition per key: the IDL flattening equals the client metas - order, signer and
   writable flags, optional placeholders, fixed addresses - for every choice of the client *)
Theorem C17_accounts_faithful :
  forall c pid ixs a, In a ixs -> ok c pid a = true -> consistent (program_defs c pid ixs) ->
    forall ts ms r, client_metas c pid a ts = Some (ms, r) ->
      exists F, forall f, (F <= f)%nat -> flatten f pid (program_defs c pid ixs) (idl_of c pid a) ts = Some (ms, r).
Proof. exact idl_accounts_faithful. Qed.

(* keyed by the full type name the table is consistent for every Rust program (one type, one field list) *)
Theorem C17_accounts_consistent :
  forall c pid ixs, key_full c = true -> type_identity ixs -> consistent (program_defs c pid ixs).
Proof. exact consistent_of_identity. Qed.

(* the statement at the switches of this source tree *)
Theorem C17_accounts_faithful_source :
  forall pid ixs a, In a ixs -> ok SOURCE_CFG pid a = true -> consistent (program_defs SOURCE_CFG pid ixs) ->
    forall ts ms r, client_metas SOURCE_CFG pid a ts = Some (ms, r) ->
      exists F, forall f, (F <= f)%nat ->
        flatten f pid (program_defs SOURCE_CFG pid ixs) (idl_of SOURCE_CFG pid a) ts = Some (ms, r).
Proof. exact (idl_accounts_faithful SOURCE_CFG). Qed.

(* what the shipped switches break *)
Theorem C17_accounts_generic_refuted :
  exists pid ixs a ts ms ms', In a ixs /\ ok SHIPPED pid a = true /\
    client_metas SHIPPED pid a ts = Some (ms, []) /\
    flatten 10 pid (program_defs SHIPPED pid ixs) (idl_of SHIPPED pid a) ts = Some (ms', []) /\ ms <> ms'.
Proof. exact idl_accounts_generic_refuted. Qed.

Theorem C17_accounts_option_refuted :
  exists pid a ts ms ms', client_metas SHIPPED pid a ts = Some (ms, []) /\
    flatten 10 pid (program_defs SHIPPED pid [a]) (idl_of SHIPPED pid a) ts = Some (ms', []) /\ length ms <> length ms'.
Proof. exact idl_accounts_option_refuted. Qed.

Theorem C17_accounts_false_modifier_refuted :
  exists pid a ts ms ms', client_metas SHIPPED pid a ts = Some (ms, []) /\
    flatten 10 pid [] (idl_of SHIPPED pid a) ts = Some (ms', []) /\ ms <> ms'.
Proof. exact idl_accounts_false_modifier_refuted. Qed.

(* ---- Codama ------------------------------------------------------------------------------------------------- *)
(* whenever the lowering of an instruction's account set succeeds its account nodes, then its remaining-accounts
   nodes, are the Single leaves of the set in declaration order (flags, optional, address carried along) *)
Theorem C17_codama_accounts_order :
  forall f t i accs rems, lower f t false i = Some (accs, rems) -> singles (S f) t i = Some (accs ++ rems).
Proof. exact codama_accounts_order. Qed.

(* whenever discriminant_to_usize succeeds the value is the little-endian value of the bytes - either guard *)
Theorem C17_codama_discriminant :
  forall bits bs n, discriminant_to_usize bits bs = Some n -> n = le_decode bs.
Proof. exact codama_discriminant. Qed.

(* with the guard comparing bytes with bytes every width up to 8 converts; the guard comparing bits with bytes
   refuses every width above one byte *)
Theorem C17_codama_discriminant_total :
  forall bs, (length bs <= 8)%nat -> discriminant_to_usize false bs = Some (le_decode bs).
Proof. exact codama_discriminant_total. Qed.

Theorem C17_codama_discriminant_bits_refuted :
  forall bs, (2 <= length bs)%nat -> discriminant_to_usize true bs = None.
Proof. exact codama_discriminant_bits_refuted. Qed.

(* ---- non-vacuity ---------------------------------------------------------------------------------------------- *)
(* struct { tag: u8; #[unsized_start] m: UnsizedMap<u8, List<u16, u8>>; e: enum { A(List<u8>), B }; rest: RemainingBytes } *)
Example C17_nonvacuous_layout :
  let s := SStruct [XPrim P_U8]
             [SUMap (XPrim P_U8) (SList 1 (XPrim P_U16)); SEnum [(0, Some (SList 4 (XPrim P_U8))); (7, None)]; SRem] in
  let v := VStruct [VBytes [9]; VStruct [VUList [([1], VList [[1; 0]; [2; 0]]); ([5], VList [])]];
                    VEnum 0 (VList [[4]; [5]]); VBytes [250; 251]] in
  sty_ok true s = true /\ wf (erase s) v = true /\
  encode (erase s) v = [9; 6;0;0;0; 2;0;0;0; 0;0;0;0;1; 5;0;0;0;5; 2;0;0;0; 2;1;0;2;0; 0; 0; 2;0;0;0;4;5; 250;251] /\
  idl_decode 50 (type_defs s) (type_to_idl s) (encode (erase s) v) = Some (embed s v, []).
Proof. vm_compute. repeat split; reflexivity. Qed.

Example C17_nonvacuous_accounts :
  let a := AStruct 1 [] [AMaybeMut true (AMaybeSigner true AInfo); AAddr 5; AOpt (AMaybeMut true AInfo); AVec (AMaybeSigner true AInfo)] in
  ok REPAIRED 99 a = true /\
  client_metas REPAIRED 99 a [TK 1; TNone; TNone; TLen 2; TK 2; TK 3] =
    Some ([mkMeta 1 true true; mkMeta 5 false false; mkMeta 99 false false; mkMeta 2 true false; mkMeta 3 true false], []) /\
  flatten 10 99 (program_defs REPAIRED 99 [a]) (idl_of REPAIRED 99 a) [TK 1; TNone; TNone; TLen 2; TK 2; TK 3] =
    client_metas REPAIRED 99 a [TK 1; TNone; TNone; TLen 2; TK 2; TK 3].
Proof. vm_compute. repeat split; reflexivity. Qed.

(* struct { version: u8; owner: [u8; 2]; #[type_to_idl(skip)] scratch: u16; total: u32 } *)
Example C17_nonvacuous_skip :
  let fs := [XPrim P_U8; XArray 2 (XPrim P_U8); XPrim P_U16; XPrim P_U32] in
  let bs := [7; 8; 9; 52; 18; 1; 2; 3; 4] in
  forallb fix_ok fs = true /\ length bs = fsizes (map erase_fix fs) /\ fvalids (map erase_fix fs) bs = true /\
  idl_decode 10 (snd (skip_struct_to_idl fs 2 [])) (fst (skip_struct_to_idl fs 2 [])) bs =
    Some (IVStruct [IVBytes [7]; IVList [IVBytes [8]; IVBytes [9]]], [52; 18; 1; 2; 3; 4]).
Proof. vm_compute. repeat split; reflexivity. Qed.
