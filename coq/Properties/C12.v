(* C12 - Account initialization creates exactly what was asked and conserves lamports.  Statements only.
   Model: Rent/Ledger.v (ledger + system-program simulator, an oracle), Rent/Init.v (Init<T> with Create /
   CreateIfNeeded).  `pda` / `findp` (create_ / find_program_address) and `minb` (Rent::minimum_balance) are arbitrary
   functions; the one fact used about minb is that it is not negative.  The first argument of init_validate is the
   top-up form (true = repaired, false = shipped, D5), the second the needs_init form (D10). *)
From SF Require Import Base.Prelude Gen.Generated Gen.Gen_c12 Rent.Ledger Rent.Init Rent.InitProofs.

(* the working tree has the repaired top-up: the theorems below for `true` are about the code that exists *)
Theorem C12_source_has_repaired_topup :
  TOPUP_FIXED = true.
Proof. reflexivity. Qed.

Theorem C12_create_post :
  forall pda findp minb, (forall n, 0 <= minb n) ->
  forall shortf cfg tk sa f ib l log l' log' ni a0 fa0,
  find tk l = Some a0 -> find (f_key f) l = Some fa0 -> f_key f <> tk -> 0 <= a_lam a0 -> 0 <= a_lam fa0 ->
  init_validate true shortf pda findp minb cfg false tk sa (Ok f) ib (l, log) = Ok ((l', log'), ni) ->
  exists a1 fa1,
    find tk l' = Some a1 /\ find (f_key f) l' = Some fa1 /\ ni = true /\
    a_owner a1 = t_prog cfg /\
    a_data a1 = t_disc cfg ++ (if t_borsh cfg then zrepeat 0 (zlen ib) else ib) /\
    zlen (a_data a1) = zlen (t_disc cfg) + zlen ib /\
    borsh_held cfg ni ib a0 = (if t_borsh cfg then Some ib else None) /\
    minb (zlen (a_data a1)) <= a_lam a1 /\
    a_lam fa0 - a_lam fa1 = Z.max 0 (minb (zlen (t_disc cfg) + zlen ib) - a_lam a0) /\
    a_lam a1 - a_lam a0 = a_lam fa0 - a_lam fa1 /\
    (forall k, k <> tk -> k <> f_key f -> find k l' = find k l) /\
    total l' = total l.
Proof. exact create_post. Qed.

(* D5: with the shipped top-up the funder loses a lamport although the account already holds the minimum *)
Theorem C12_create_post_refuted :
  exists pda findp minb shortf cfg tk sa f ib l l' log' a0 fa0 fa1,
    (forall n, 0 <= minb n) /\ find tk l = Some a0 /\ find (f_key f) l = Some fa0 /\ f_key f <> tk /\
    0 <= a_lam a0 /\ 0 <= a_lam fa0 /\
    init_validate false shortf pda findp minb cfg false tk sa (Ok f) ib (l, []) = Ok ((l', log'), true) /\
    find (f_key f) l' = Some fa1 /\
    a_lam fa0 - a_lam fa1 = 1 /\ Z.max 0 (minb (zlen (t_disc cfg) + zlen ib) - a_lam a0) = 0.
Proof. exact create_post_refuted. Qed.

Theorem C12_create_on_initialized_errs :
  forall pda findp minb, (forall n, 0 <= minb n) ->
  forall fixed shortf cfg tk sa cx w ib l log a0,
  find tk l = Some a0 ->
  (a_owner a0 <> SYS \/ a_data a0 <> []) ->
  (forall f, resolve_funder cx w = Ok f -> f_key f <> tk) ->
  exists c, init_validate fixed shortf pda findp minb cfg false tk sa (resolve_funder cx w) ib (l, log) = Err c.
Proof. exact create_on_initialized_errs. Qed.

Theorem C12_if_needed_untouched :
  forall pda findp minb fixed shortf cfg tk sa f ib l log a0 r,
  find tk l = Some a0 -> initialized cfg a0 ->
  init_validate fixed shortf pda findp minb cfg true tk sa (Ok f) ib (l, log) = Ok r ->
  r = ((l, log), false).
Proof. exact if_needed_untouched. Qed.

Theorem C12_if_needed_skips :
  forall pda minb fixed shortf cfg tk f aseeds ib s a0,
  find tk (fst s) = Some a0 -> initialized cfg a0 ->
  init_account fixed shortf pda minb cfg true tk (Ok f) aseeds ib s = Ok (s, false).
Proof. exact if_needed_skips. Qed.

Theorem C12_seeds_sign :
  forall pda findp minb fixed shortf cfg ifn tk sa f ib l l' log' ni sd b,
  seeds_of findp sa = Some (sd, b) -> f_key f <> tk ->
  init_validate fixed shortf pda findp minb cfg ifn tk sa (Ok f) ib (l, []) = Ok ((l', log'), ni) ->
  (match sa with SAFind _ => fst (findp sd) = tk | _ => pda (with_bump sd b) = Some tk end) /\
  Forall (cpi_seeds_ok f tk (Some (with_bump sd b))) log' /\
  (ni = true -> log' <> []).
Proof. exact seeds_sign. Qed.

(* D10: create-if-needed on a foreign-owned account shorter than the discriminant panics in the shipped form ... *)
Theorem C12_if_needed_short_refuted :
  exists pda findp minb fixed cfg tk sa f ib l a0,
    find tk l = Some a0 /\ a_owner a0 <> SYS /\ zlen (a_data a0) < zlen (t_disc cfg) /\
    init_validate fixed false pda findp minb cfg true tk sa (Ok f) ib (l, []) = Panic.
Proof. exact if_needed_short_refuted. Qed.

(* ... and is an error in the repaired form *)
Theorem C12_if_needed_short_errs :
  forall pda findp minb fixed cfg tk sa cx w ib l log a0,
  find tk l = Some a0 -> a_owner a0 <> SYS -> zlen (a_data a0) < zlen (t_disc cfg) ->
  exists c, init_validate fixed true pda findp minb cfg true tk sa (resolve_funder cx w) ib (l, log) = Err c.
Proof. exact if_needed_short_errs. Qed.

(* the simulator (oracle) itself conserves lamports, whatever it is asked *)
Theorem C12_system_program_conserves :
  forall pda c l l', sys_exec pda c l = Ok l' -> total l' = total l.
Proof. exact LedgerProofs.sys_exec_total. Qed.

(* non-vacuity: a fresh account is created, a pre-funded one costs the funder nothing, an initialised one is skipped,
   seeds of account and funder reach the CPI *)
Example C12_nonvacuous :
  summary (init_validate true false no_pda no_find ex_minb ex_cfg false 4 SANone (Ok ex_funder) ex_ib (ex_ledger SYS 0 [], []))
  = Some (true, Some (1000000000 - 1037040),
          Some (mkAcct 4 77 1037040 ([1; 2; 3; 4; 5; 6; 7; 8] ++ ex_ib) false true true), 1) /\
  summary (init_validate true false no_pda no_find ex_minb ex_cfg false 4 SANone (Ok ex_funder) ex_ib (ex_ledger SYS 1037040 [], []))
  = Some (true, Some 1000000000, Some (mkAcct 4 77 1037040 ([1; 2; 3; 4; 5; 6; 7; 8] ++ ex_ib) false true true), 2) /\
  init_validate true false no_pda no_find ex_minb ex_cfg true 4 SANone (Ok ex_funder) ex_ib
                (ex_ledger 77 1037040 ([1; 2; 3; 4; 5; 6; 7; 8] ++ ex_ib), [])
  = Ok ((ex_ledger 77 1037040 ([1; 2; 3; 4; 5; 6; 7; 8] ++ ex_ib), []), false) /\
  init_validate true false no_pda no_find ex_minb ex_cfg false 4 SANone (Ok ex_funder) ex_ib
                (ex_ledger 77 1037040 ([1; 2; 3; 4; 5; 6; 7; 8] ++ ex_ib), []) = Err SYS_ALREADY_IN_USE.
Proof.
  split; [exact create_fresh_fixed|]. split; [exact create_prefunded_fixed|].
  split; [exact (proj2 if_needed_example)|exact create_on_initialized_example].
Qed.
