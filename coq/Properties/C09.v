(* C09 - Signer, writable, address, program, sysvar and owner checks are exact. Statements only. *)
From SF Require Import Base.Prelude Gen.Generated Account.Validate Account.ValidateProofs.

Theorem C09_fast_eq_iff :
  forall a b, key_ok a -> key_ok b -> (fast_eq a b = true <-> a = b).
Proof. exact fast_eq_iff. Qed.

Theorem C09_layer_exact :
  forall a l, key_ok (a_key a) -> key_ok (a_owner a) -> layer_wf l -> (layer_check a l = Ok tt <-> layer_ok a l).
Proof. exact layer_check_iff. Qed.

Theorem C09_nesting_accepts_iff_every_layer :
  forall a ls, key_ok (a_key a) -> key_ok (a_owner a) -> Forall layer_wf ls ->
    (validate_layers a ls = Ok tt <-> Forall (layer_ok a) ls).
Proof. exact validate_layers_iff. Qed.

Theorem C09_first_error_is_innermost :
  forall a pre l post c,
    validate_layers a pre = Ok tt -> layer_check a l = Err c -> validate_layers a (pre ++ l :: post) = Err c.
Proof. exact validate_layers_first_error. Qed.

Theorem C09_optional_absent : forall prog ls, validate_optional prog None ls = Ok false.
Proof. exact optional_absent. Qed.

Theorem C09_optional_present :
  forall prog a ls, key_ok prog -> key_ok (a_key a) -> key_ok (a_owner a) -> Forall layer_wf ls -> a_key a <> prog ->
    (validate_optional prog (Some a) ls = Ok true <-> Forall (layer_ok a) ls).
Proof. exact optional_present. Qed.

Theorem C09_optional_placeholder :
  forall prog a ls, key_ok prog -> key_ok (a_key a) -> a_key a = prog -> validate_optional prog (Some a) ls = Ok false.
Proof. exact optional_placeholder. Qed.

(* containers forward the checks to EVERY element: Vec<T> with its four argument forms *)
Theorem C09_vec_accepts_iff_every_account :
  forall accs ls form k, Forall acct_ok accs -> Forall layer_wf ls ->
    (validate_vec accs ls form k = Ok tt <-> args_fit form k (zlen accs) /\ Forall (fun a => Forall (layer_ok a) ls) accs).
Proof. exact validate_vec_iff. Qed.

Theorem C09_vec_no_account_skipped :
  forall accs ls form k a, Forall acct_ok accs -> Forall layer_wf ls -> In a accs -> ~ Forall (layer_ok a) ls ->
    validate_vec accs ls form k <> Ok tt.
Proof. exact validate_vec_no_account_skipped. Qed.

(* derived sets with several fields: every field's account is checked against THAT field's stack of checks *)
Theorem C09_set_accepts_iff_every_field :
  forall fs, Forall (fun '(a, ls) => acct_ok a /\ Forall layer_wf ls) fs ->
    (validate_fields fs = Ok tt <-> Forall (fun '(a, ls) => Forall (layer_ok a) ls) fs).
Proof. exact validate_fields_iff. Qed.

Theorem C09_set_first_error :
  forall fs e, validate_fields fs = Err e ->
    exists pre a ls post,
      fs = pre ++ (a, ls) :: post /\ Forall (fun '(a', ls') => validate_layers a' ls' = Ok tt) pre /\ validate_layers a ls = Err e.
Proof. exact validate_fields_first_error. Qed.

Theorem C09_set_first_error_conv :
  forall pre a ls post e,
    Forall (fun '(a', ls') => validate_layers a' ls' = Ok tt) pre -> validate_layers a ls = Err e ->
    validate_fields (pre ++ (a, ls) :: post) = Err e.
Proof. exact validate_fields_first_error_conv. Qed.

Theorem C09_set_check_stays_with_its_field :
  forall fs i a ls k, Forall (fun '(a, ls) => acct_ok a /\ Forall layer_wf ls) fs ->
    nth_error fs i = Some (a, ls) -> In (LAddress k) ls -> a_key a <> k ->
    validate_fields fs <> Ok tt.
Proof. exact validate_fields_check_stays_with_its_field. Qed.

(* the address pinned on the SECOND field: the accounts in their places are accepted; swapped, the set is rejected although
   the pinned key is present (on the first field), and a set whose pinned field has another key is rejected even when every
   other field's account has the pinned key *)
Example C09_set_nonvacuous :
  let k := repeat 5 32 in
  let other := repeat 6 32 in
  let pinned := mkAcct k (repeat 0 32) false false [] true in
  let free := mkAcct other (repeat 0 32) true false [] true in
  Forall (fun '(a, ls) => acct_ok a /\ Forall layer_wf ls) [(free, [LSigner]); (pinned, [LAddress k])] /\
  validate_fields [(free, [LSigner]); (pinned, [LAddress k])] = Ok tt /\
  validate_fields [(pinned, []); (free, [LAddress k])] = Err EC_ADDRESS_MISMATCH /\
  validate_fields [(pinned, []); (pinned, []); (free, [LAddress k; LSigner])] = Err EC_ADDRESS_MISMATCH /\
  validate_fields [(pinned, [LSigner]); (free, [LAddress k])] = Err EC_EXPECTED_SIGNER /\
  run_c09s (repeat 55 32 ++ [3; 2] ++ other ++ repeat 0 32 ++ [1; 0; 1; 1] ++ k ++ repeat 0 32 ++ [0; 0; 33; 6] ++ k) = [0] /\
  run_c09s (repeat 55 32 ++ [3; 2] ++ k ++ repeat 0 32 ++ [1; 0; 1; 1] ++ other ++ repeat 0 32 ++ [0; 0; 33; 6] ++ k)
    = [1; EC_ADDRESS_MISMATCH].
Proof. vm_compute. repeat split; try reflexivity; repeat constructor. Qed.

Example C09_vec_nonvacuous :
  let k := repeat 5 32 in
  let good := mkAcct k (repeat 0 32) true true [] true in
  let bad := mkAcct k (repeat 0 32) false true [] true in
  Forall acct_ok [good; good; bad] /\
  validate_vec [good; good] [LSigner; LMut] 2 2 = Ok tt /\ validate_vec [good; good] [LSigner; LMut] 2 5 = Ok tt /\
  validate_vec [good; good; bad] [LSigner] 2 2 = Err PE_INVALID_ARGUMENT /\
  validate_vec [good; good; bad] [LSigner] 2 3 = Err EC_EXPECTED_SIGNER /\
  validate_vec [good; good] [LSigner] 3 3 = Err PE_INVALID_ARGUMENT.
Proof. vm_compute. repeat split; try reflexivity; repeat constructor. Qed.

Example C09_nonvacuous :
  let k := repeat 5 32 in
  let a := mkAcct k (repeat 0 32) true true [] true in
  key_ok k /\ validate_layers a [LSigner; LMut; LAddress k; LSystemAccount (repeat 0 32)] = Ok tt /\
  validate_layers a [LSigner; LAddress (set_nth 31 4 k)] = Err EC_ADDRESS_MISMATCH.
Proof. vm_compute. repeat split; reflexivity. Qed.
