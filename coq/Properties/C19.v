(* C19 - Derived safety markers only certify what actually holds.  Statements only.

   Model: Meta/Layout.v (rustc's layout rules, from the Reference) and Meta/Derives.v (the macros' decisions,
   transcribed from star_frame_proc and bytemuck_derive).  `true` as first argument of the *_accepts functions
   selects the REPAIRED Align1 derive (align(N) with N > 1 is rejected); the *_unrepaired_refuted theorems are
   about the derive as it was when D13 was found.

   A declaration `d : decl` is ANY form (struct / tuple struct / enum / union, generic or not), ANY list of
   #[repr(..)] attributes built from C | transparent | integer | packed(N) | align(N), and ANY list of fields; a field
   is its size, its alignment, the marker traits its type implements and its own bit-pattern validator. *)
From SF Require Import Base.Prelude Meta.Layout Meta.LayoutProofs Meta.Derives Meta.DerivesProofs.

(* an alignment-1 certification implies alignment 1 *)
Theorem C19_align1_sound :
  forall d : decl,
    align1_accepts true d = true ->
    (forall v f, In v (d_variants d) -> In f v -> 1 <= f_align f /\ 0 <= f_size f) ->
    (forall f, In f (align1_bounded true d) -> f_a1 f = true -> f_align f = 1) ->
    decl_align d = 1.
Proof. exact align1_sound. Qed.

(* ... which the derive as shipped did not guarantee (D13) *)
Theorem C19_align1_sound_unrepaired_refuted :
  exists d : decl,
    align1_accepts false d = true
    /\ (forall v f, In v (d_variants d) -> In f v -> 1 <= f_align f /\ 0 <= f_size f)
    /\ (forall f, In f (align1_bounded false d) -> f_a1 f = true -> f_align f = 1)
    /\ decl_align d = 2.
Proof. exact align1_sound_unrepaired_refuted. Qed.

(* #[zero_copy(..)] on a struct / tuple struct: no padding, alignment 1, every field validated on exactly its bytes *)
Theorem C19_zero_copy_sound :
  forall (a : zc_args) (d : decl),
    d_form d = FStruct \/ d_form d = FTuple ->
    zc_accepts true a d = true ->
    (forall v f, In v (d_variants d) -> In f v -> 1 <= f_align f /\ 0 <= f_size f) ->
    (forall f, In f (align1_bounded true (zc_decl a d)) -> f_a1 f = true -> f_align f = 1) ->
    decl_size (zc_decl a d) = fsum (d_fields d)
    /\ decl_align (zc_decl a d) = 1
    /\ (if zc_pod a then forallb f_pod (d_fields d) = true
        else forallb f_checked (d_fields d) = true /\ forallb f_nouninit (d_fields d) = true
             /\ forall cs : list (list Z), Forall2 (fun f c => zlen c = f_size f) (d_fields d) cs ->
                  checked_ok (zc_decl a d) (concat cs) = valid_chunks (d_fields d) cs).
Proof. exact zero_copy_struct_sound. Qed.

(* #[zero_copy] on a unit-only enum: one byte, alignment 1, exactly the declared discriminants are valid *)
Theorem C19_zero_copy_enum_sound :
  forall (a : zc_args) (d : decl),
    d_form d = FEnum -> zc_accepts true a d = true ->
    decl_size (zc_decl a d) = 1 /\ decl_align (zc_decl a d) = 1 /\ 0 < zlen (d_variants d)
    /\ forall b : Z, checked_ok (zc_decl a d) [b] = (0 <=? b) && (b <? zlen (d_variants d)).
Proof. exact zero_copy_enum_sound. Qed.

Theorem C19_zero_copy_sound_unrepaired_refuted :
  zc_accepts false (mkZc false false) d13_enum = true
  /\ decl_size (zc_decl (mkZc false false) d13_enum) = 2 /\ decl_align (zc_decl (mkZc false false) d13_enum) = 2.
Proof. exact zero_copy_sound_unrepaired_refuted. Qed.

(* the generated sized part of an unsized struct (generic or not) *)
Theorem C19_sized_part_sound :
  forall (g : bool) (fs : list fld),
    sized_accepts true g fs = true -> (forall f, In f fs -> 1 <= f_align f) ->
    decl_size (sized_decl g fs) = fsum fs /\ decl_align (sized_decl g fs) = 1
    /\ forallb f_checked fs = true /\ forallb f_nouninit fs = true
    /\ forall cs : list (list Z), Forall2 (fun f c => zlen c = f_size f) (d_fields (sized_decl g fs)) cs ->
         checked_ok (sized_decl g fs) (concat cs) = valid_chunks (d_fields (sized_decl g fs)) cs.
Proof. exact sized_part_sound. Qed.

(* Rust's rule behind it: repr(.., packed) without align(N) has alignment 1, no padding, prefix-sum offsets *)
Theorem C19_packed_no_padding :
  forall (r : repr) (fs : list field),
    r_packed r = Some 1 -> r_align r = None -> (forall f, In f fs -> 1 <= falign f) ->
    struct_align r fs = 1 /\ struct_size r fs = zsum (sizes fs) /\ c_offsets r fs = prefix_offsets 0 fs.
Proof. exact packed1_struct. Qed.

(* a component that may be zero sized anywhere but last: ZST_STATUS panics at compile time *)
Theorem C19_zst_rejected :
  forall (s : option Z) (fs init : list uty) (c : uty) (rest : list uty),
    all_wf (components s fs) ->
    components s fs = init ++ c :: rest -> rest <> [] -> min_size c = 0 ->
    zst_status (UStruct s fs) = None.
Proof. exact zst_rejected. Qed.

(* and a status `true` is only ever given to types that occupy at least one byte *)
Theorem C19_zst_status_true_nonempty :
  forall t : uty, uty_wf t -> zst_status t = Some true -> 0 < min_size t.
Proof. exact status_true_nonempty. Qed.

Theorem C19_zst_accepted_shape :
  forall (s : option Z) (fs : list uty) (b : bool),
    zst_status (UStruct s fs) = Some b ->
    exists init last, components s fs = init ++ [last]
      /\ Forall (fun c => zst_status c = Some true) init /\ zst_status last = Some b.
Proof. exact zst_accepted_shape. Qed.

(* the same for any component whose status is not `true` (the decision the macro actually takes) *)
Theorem C19_zst_rejected_status :
  forall (s : option Z) (fs init : list uty) (c : uty) (rest : list uty),
    components s fs = init ++ c :: rest -> rest <> [] -> zst_status c <> Some true ->
    zst_status (UStruct s fs) = None.
Proof. exact zst_rejected_status. Qed.

(* ---- unsized enums: the status is the conjunction of the payloads' statuses ---- *)
Theorem C19_zst_enum_value :
  forall (vs : list (option uty)) (b : bool),
    zst_status (UEnum vs) = Some b <->
    (forall t, In (Some t) vs -> zst_status t <> None)
    /\ (b = true <-> forall t, In (Some t) vs -> zst_status t = Some true).
Proof. exact zst_enum_value. Qed.

(* an enum one of whose variants' payloads may be zero sized, anywhere but last in a struct: rejected at compile time *)
Theorem C19_zst_enum_rejected :
  forall (s : option Z) (fs init : list uty) (vs : list (option uty)) (t : uty) (rest : list uty),
    components s fs = init ++ UEnum vs :: rest -> rest <> [] ->
    In (Some t) vs -> uty_wf t -> min_size t = 0 ->
    zst_status (UStruct s fs) = None.
Proof. exact zst_enum_rejected. Qed.

(* ---- the documented valid forms keep compiling (repaired rule) ---- *)
Theorem C19_valid_align1_plain :
  forall (fm : form) (c : bool) (fs : list fld),
    fm = FStruct \/ fm = FTuple -> forallb f_a1 fs = true ->
    align1_accepts true (mkDecl fm false (if c then [[IC]] else []) [fs]) = true.
Proof. exact valid_align1_plain. Qed.

Theorem C19_valid_align1_packed :
  forall (fm : form) (g : bool) (fs : list fld),
    fm = FStruct \/ fm = FTuple -> (g = true -> existsb f_param fs = true) ->
    align1_accepts true (mkDecl fm g [[IC; IPacked 1]] [fs]) = true.
Proof. exact valid_align1_packed. Qed.

Theorem C19_valid_align1_transparent :
  forall (fm : form) (f : fld),
    fm = FStruct \/ fm = FTuple -> f_a1 f = true -> f_param f = false ->
    align1_accepts true (mkDecl fm false [[ITransparent]] [[f]]) = true.
Proof. exact valid_align1_transparent. Qed.

Theorem C19_valid_align1_unit_enum :
  forall vs : list (list fld),
    vs <> [] -> has_data vs = false -> align1_accepts true (mkDecl FEnum false [[IInt 0]] vs) = true.
Proof. exact valid_align1_unit_enum. Qed.

Theorem C19_valid_align1_data_enum :
  forall vs : list (list fld),
    vs <> [] -> (forall v f, In v vs -> In f v -> f_align f = 1) ->
    align1_accepts true (mkDecl FEnum false [[IInt 0]] vs) = true.
Proof. exact valid_align1_data_enum. Qed.

Theorem C19_valid_zero_copy_struct :
  forall (fm : form) (fs : list fld),
    fm = FStruct \/ fm = FTuple -> (forall f, In f fs -> 1 <= f_align f) ->
    forallb f_checked fs = true -> forallb f_nouninit fs = true -> forallb f_zeroable fs = true ->
    zc_accepts true (mkZc false false) (mkDecl fm false [] [fs]) = true.
Proof. exact valid_zero_copy_struct. Qed.

Theorem C19_valid_zero_copy_pod :
  forall (fm : form) (fs : list fld),
    fm = FStruct \/ fm = FTuple -> forallb f_pod fs = true -> forallb f_zeroable fs = true ->
    zc_accepts true (mkZc true false) (mkDecl fm false [] [fs]) = true.
Proof. exact valid_zero_copy_pod. Qed.

Theorem C19_valid_zero_copy_skip_packed :
  forall (fm : form) (fs : list fld),
    fm = FStruct \/ fm = FTuple -> (forall f, In f fs -> f_align f = 1) -> forallb f_a1 fs = true ->
    forallb f_checked fs = true -> forallb f_nouninit fs = true -> forallb f_zeroable fs = true ->
    zc_accepts true (mkZc false true) (mkDecl fm false [] [fs]) = true.
Proof. exact valid_zero_copy_skip_packed. Qed.

Theorem C19_valid_zero_copy_enum :
  forall vs : list (list fld),
    vs <> [] -> has_data vs = false ->
    zc_accepts true (mkZc false false) (mkDecl FEnum false [[IInt 0]] vs) = true.
Proof. exact valid_zero_copy_enum. Qed.

Theorem C19_valid_unsized :
  forall (fs : list fld) (init : list uty) (last : uty) (b : bool),
    fs <> [] -> fsum fs <> 0 ->
    (forall f, In f fs -> 1 <= f_align f) ->
    forallb f_checked fs = true -> forallb f_nouninit fs = true -> forallb f_zeroable fs = true ->
    Forall (fun c => zst_status c = Some true) init -> zst_status last = Some b ->
    unsized_accepts true false true fs (init ++ [last]) = true.
Proof.
  intros fs init last b Hne Hs Hal Hc Hn Hz Hi Hl.
  exact (valid_unsized fs init last b Hne Hs (valid_sized_part fs Hal Hc Hn Hz) Hi Hl).
Qed.

(* ---- the decision does not depend on the way a generic declaration writes its bounds: the encoding's G component is
   k + 100 * style (style 0 none | 1 inline `T: Copy` | 2 `where T: Copy` clause) and every style decides like style 0 ---- *)
Theorem C19_bound_style_irrelevant :
  forall (m f k s : Z) (rest : list Z),
    0 < k < 100 -> 0 <= s <= 2 ->
    run_c19 (m :: f :: (k + 100 * s) :: rest) = run_c19 (m :: f :: k :: rest).
Proof. exact bound_style_irrelevant. Qed.

(* ---- tuple field types: the library's `unsafe impl<T1..Tn> Align1 for (T1, .., Tn) where T1: Align1, .., Tn: Align1`
   (star_frame/src/align1.rs 40-66) certifies a tuple iff EVERY element is certified; then the certification of the
   tuple is true whenever its elements' certifications are - the hypothesis of C19_align1_sound on a tuple-typed field
   is discharged from the same hypothesis on the elements ---- *)
Theorem C19_tuple_align1_sound :
  forall es : list fld,
    (forall e, In e es -> f_a1 e = true -> f_align e = 1) ->
    f_a1 (tuple_fld es) = true ->
    f_align (tuple_fld es) = 1 /\ f_size (tuple_fld es) = fsum es.
Proof. exact tuple_a1_sound. Qed.

(* ... which an impl that leaves the first element unbounded does not guarantee: (u64, u8) *)
Theorem C19_tuple_align1_first_unbounded_refuted :
  exists es : list fld,
    (forall e, In e es -> f_a1 e = true -> f_align e = 1)
    /\ f_a1 (tuple_fld_first_unbounded es) = true
    /\ f_align (tuple_fld_first_unbounded es) = 8
    /\ f_a1 (tuple_fld es) = false.
Proof. exact tuple_a1_first_unbounded_refuted. Qed.

(* every field the correspondence's decoder produces (a menu type, the parameter T instantiated with a menu type, or
   the tuples (T, u8) / (u8, T)) is certified Align1 by the model only when its alignment is 1 *)
Theorem C19_field_menu_align1_sound :
  forall (g c : Z) (f : fld),
    field_of (menu g) c = Some f -> f_a1 f = true -> f_align f = 1.
Proof. exact field_of_a1_sound. Qed.

(* ---- non-vacuity: the theorems' hypotheses are met by real declarations, and the models compute ---- *)
Definition ex_bool : fld := mk 1 1 true true true true false VBool.
Definition ex_tri : fld := mk 1 1 true true true true false VLe2.

Example C19_nonvacuous_align1 :
  let d := mkDecl FStruct false [] [[pod_fld 1 1; pod_fld 4 1; ex_bool]] in      (* struct { u8, [u8;4], bool } *)
  align1_accepts true d = true /\ decl_align d = 1 /\ decl_size d = 6
  /\ align1_accepts true (mkDecl FStruct false [] [[pod_fld 1 1; pod_fld 2 2]]) = false      (* struct { u8, u16 } *)
  /\ align1_accepts true (mkDecl FStruct false [[IC; IPacked 1]] [[pod_fld 8 8; pod_fld 1 1]]) = true
  /\ align1_accepts true d13_struct = false /\ align1_accepts false d13_struct = true /\ decl_align d13_struct = 2.
Proof. vm_compute. repeat split; reflexivity. Qed.

Example C19_nonvacuous_zero_copy :
  let d := mkDecl FStruct false [] [[ex_bool; ex_tri; pod_fld 4 4]] in           (* #[zero_copy] struct { bool, Tri, u32 } *)
  let z := mkZc false false in
  zc_accepts true z d = true /\ decl_size (zc_decl z d) = 6 /\ decl_align (zc_decl z d) = 1
  /\ checked_ok (zc_decl z d) [1; 2; 9; 9; 9; 9] = true
  /\ checked_ok (zc_decl z d) [2; 2; 9; 9; 9; 9] = false           (* bool = 2 *)
  /\ checked_ok (zc_decl z d) [1; 3; 9; 9; 9; 9] = false           (* enum = 3 *)
  /\ zc_accepts true (mkZc false true) (mkDecl FStruct false [] [[pod_fld 1 1; pod_fld 2 2]]) = false   (* skip_packed, u16 *)
  /\ zc_accepts true (mkZc false true) (mkDecl FStruct false [[IAlign 2]] [[pod_fld 1 1; pod_fld 1 1]]) = false
  /\ zc_accepts false (mkZc false true) (mkDecl FStruct false [[IAlign 2]] [[pod_fld 1 1; pod_fld 1 1]]) = true.
Proof. vm_compute. repeat split; reflexivity. Qed.

Example C19_nonvacuous_zst :
  zst_status (UStruct (Some 0) [UList]) = None                                  (* doctest SizedZst *)
  /\ zst_status zst_at_end = Some false                                         (* doctest ZstAtEnd *)
  /\ zst_status (UStruct (Some 1) [zst_at_end; UList]) = None                   (* doctest NestedZst *)
  /\ zst_status (UStruct (Some 1) [UList; zst_at_end]) = Some false
  /\ zst_status (UStruct None [UList; UList]) = Some true
  /\ run_c19 [0; 0; 0; 2; 1; 0; 6; 2; 1; 1; 0; 0] = [0]                         (* the D13 declaration is rejected *)
  /\ run_c19 [0; 0; 0; 1; 1; 0; 1; 1; 0; 0] = [1; 1; 1; 1; 0].                  (* #[repr(C)] struct { u8 } *)
Proof. vm_compute. repeat split; reflexivity. Qed.

Example C19_nonvacuous_zst_enum :
  let may_end_empty := UEnum [None; Some UList; Some URemaining] in
  let never_empty := UEnum [None; Some UList] in
  let of_zst_struct := UEnum [None; Some zst_at_end] in
  zst_status may_end_empty = Some false /\ zst_status never_empty = Some true /\ zst_status of_zst_struct = Some false
  /\ zst_status (UEnum [None]) = Some true
  /\ zst_status (UEnum [Some URemaining; Some (UStruct (Some 0) [UList])]) = None      (* a payload that does not evaluate *)
  /\ zst_status (UStruct (Some 1) [may_end_empty; UList]) = None
  /\ zst_status (UStruct (Some 1) [UList; may_end_empty]) = Some false
  /\ zst_status (UStruct (Some 1) [never_empty; UList]) = Some true
  /\ zst_status (UStruct (Some 1) [UList; of_zst_struct; UList]) = None
  /\ zst_status (UStruct None [of_zst_struct]) = Some false
  /\ umenu 10 = Some may_end_empty /\ umenu 11 = Some never_empty /\ umenu 12 = Some of_zst_struct
  /\ run_c19 [5; 0; 0; 0; 1; 1; 0; 2; 10; 0] = [0]                               (* struct { u8, EnumMayEndEmpty, List<u8> } *)
  /\ run_c19 [5; 0; 0; 0; 1; 1; 0; 2; 11; 0] = [1; 1; 1; 1; 8; 1; 1; 1; 1; 1; 1; 1; 1].
Proof. vm_compute. repeat split; reflexivity. Qed.

(* the bound styles through the runner: struct D<T> where T: Copy { f0: u8, f1: T } with T = u64 is rejected like its
   style-0 twin, with T = u8 it is certified; a style without a parameter or an unknown style is not an encoding *)
Example C19_nonvacuous_bound_style :
  run_c19 [0; 0; 213; 0; 1; 2; 0; 99; 0] = [0] /\ run_c19 [0; 0; 13; 0; 1; 2; 0; 99; 0] = [0]
  /\ run_c19 [0; 0; 201; 0; 1; 2; 0; 99; 0] = [1; 1; 2; 2; 0] /\ run_c19 [0; 0; 101; 0; 1; 2; 0; 99; 0] = [1; 1; 2; 2; 0]
  /\ run_c19 [0; 0; 200; 0; 1; 1; 0; 0] = [-1] /\ run_c19 [0; 0; 301; 0; 1; 2; 0; 99; 0] = [-1].
Proof. vm_compute. repeat split; reflexivity. Qed.

(* tuple field types through the runner: #[derive(Align1)] #[repr(C)] struct D<T> { f0: (T, u8), f1: bool } is rejected
   with T = u64 and with T = u16, certified (3 bytes, alignment 1) with T = u8; (u8, T) likewise; struct { f0: (u64, u8) }
   and struct { f0: (u16,) } are rejected, struct { f0: (u8, bool, u8) } is certified, and under repr(C, packed) the
   16-byte (u64, u8) is accepted unconditionally; #[zero_copy] struct { f0: (u8, u8) } is rejected (no CheckedBitPattern) *)
Example C19_nonvacuous_tuple :
  run_c19 [0; 0; 13; 1; 1; 0; 1; 2; 97; 1; 0] = [0] /\ run_c19 [0; 0; 11; 1; 1; 0; 1; 2; 97; 1; 0] = [0]
  /\ run_c19 [0; 0; 1; 1; 1; 0; 1; 2; 97; 1; 0] = [1; 1; 3; 3; 0]
  /\ run_c19 [0; 0; 13; 1; 1; 0; 1; 2; 98; 1; 0] = [0] /\ run_c19 [0; 0; 1; 1; 1; 0; 1; 2; 98; 1; 0] = [1; 1; 3; 3; 0]
  /\ run_c19 [0; 0; 0; 0; 1; 1; 36; 0] = [0] /\ run_c19 [0; 0; 0; 0; 1; 1; 33; 0] = [0]
  /\ run_c19 [0; 0; 0; 0; 1; 1; 38; 0] = [1; 1; 3; 3; 0]
  /\ run_c19 [0; 0; 0; 2; 1; 0; 4; 0; 1; 1; 36; 0] = [1; 1; 16; 16; 0]
  /\ run_c19 [1; 0; 0; 0; 1; 1; 18; 0] = [0]
  /\ run_c19 [0; 0; 98; 0; 1; 1; 99; 0] = [-1] /\ run_c19 [0; 0; 0; 0; 1; 1; 97; 0] = [-1].
Proof. vm_compute. repeat split; reflexivity. Qed.
