From SF Require Import Base.Prelude Unsized.Types Unsized.Parse Unsized.Machine Unsized.Ops.
