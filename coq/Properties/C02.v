(* C02 - Stored bytes are always the canonical serialization, with exact length.  Statements only.
   FULL statement: in every reachable state of every history on every shape, firstn len mem = encode value and
   len = byte_size value.  PROVED: for EVERY shape (generated enums included since the enum extension of the theory; `plain t = true` holds of every shape, C01_every_shape) and every history of list operations at any nesting depth,
   failing operations included (C02_general_..., lists and maps of unsized elements with their offset tables,
   unsized_size and trailing length copy); for flat shapes (the earlier special case) as an invariant of all histories;
   for ALL shapes: canonical encodings are unique (any other reader sees the same value) and their size is
   the announced one.  Lists of unsized elements (offset table, unsized_size, trailing length copy) are tied by
   the correspondence check, which compares the account bytes with from_owned(value) after every step. *)
From SF Require Import Base.Prelude Gen.Generated Unsized.Types Unsized.Parse Unsized.Machine Unsized.Ops.
From SF Require Import Unsized.Proofs.EncodeParse Unsized.Proofs.Flat.
From SF Require Import Unsized.Proofs.Layout Unsized.Proofs.Path Unsized.Proofs.Resize Unsized.Proofs.History Unsized.Proofs.History2.
From SF Require Import Unsized.Proofs.History3 Unsized.Proofs.Enums Unsized.Proofs.InitKinds Unsized.Proofs.StringSet.

(* the full operation set (stores, set_len, element-level insert / remove / clear of lists of unsized elements) *)
Theorem C02_all_ops_canonical_after_any_history :
  forall ovf t h v s top pi0 v',
    RepF pi0 t v s top -> m_refuse s <> 1 -> orunX (m_cap s) t v h = Some v' ->
    exists s' top', mrunX ovf t s top h = Ok (s', top') /\
      ztake (m_len s') (m_mem s') = encode t v' /\ m_len s' = byte_size t v'.
Proof.
  intros ovf t h v s top pi0 v' R Hn Ho.
  destruct (History2.xrun_refines ovf t h v s top pi0 v' R Hn Ho) as (s' & top' & pi' & Hrun & R' & _).
  exists s', top'. split; [exact Hrun|].
  destruct (repf_observable ovf pi' t v' s' top' R') as (_ & Hb & Hl & _). auto.
Qed.

(* EVERY operation the theory knows, in any interleaving: list operations, stores, set_len, element-level operations of lists
   of unsized elements, the keyed views (Set / Map / UnsizedMap through the binary search), whole-value replacement
   (set_from_owned) and variant switches of generated enums (set_<variant>(DefaultInit)) *)
Theorem C02_canonical_after_any_full_history :
  forall ovf t h v s top pi0 v' obss,
    RepF pi0 t v s top -> m_refuse s <> 1 -> orunZ (m_cap s) t v h = Some (v', obss) ->
    exists s' top', mrunZ ovf t s top h = Ok (s', top', obss) /\
      ztake (m_len s') (m_mem s') = encode t v' /\ m_len s' = byte_size t v'.
Proof.
  intros ovf t h v s top pi0 v' obss R Hn Ho.
  destruct (zrun_refines ovf t h v s top pi0 v' obss R Hn Ho) as (s' & top' & pi' & Hrun & R' & _).
  exists s', top'. split; [exact Hrun|].
  destruct (repf_observable ovf pi' t v' s' top' R') as (_ & Hb & Hl & _). auto.
Qed.

(* ... and with non-default initializers and UnsizedString::set (whose failures leave the string cleared) among the
   operations: the final history theorem of C01 (C01_run_refines_every_operation) *)
Theorem C02_canonical_after_any_history_of_every_operation :
  forall ovf t h v s top pi0 v' obss,
    RepF pi0 t v s top -> m_refuse s <> 1 -> orunS (m_cap s) t v h = Some (v', obss) ->
    exists s' top', mrunS ovf t s top h = Ok (s', top', obss) /\
      ztake (m_len s') (m_mem s') = encode t v' /\ m_len s' = byte_size t v'.
Proof.
  intros ovf t h v s top pi0 v' obss R Hn Ho.
  destruct (srun_refines ovf t h v s top pi0 v' obss R Hn Ho) as (s' & top' & pi' & Hrun & R' & _).
  exists s', top'. split; [exact Hrun|].
  destruct (repf_observable ovf pi' t v' s' top' R') as (_ & Hb & Hl & _). auto.
Qed.

(* any shape, any depth, any history (operations that fail leave the value alone): the stored bytes are the canonical
   serialization of the owned model's value, with exact length *)
Theorem C02_general_canonical_after_any_history :
  forall ovf t h v s top pi0 v' l,
    RepF pi0 t v s top -> m_refuse s <> 1 -> orunE (m_cap s) (m_refuse s) t v h = Some (v', l) ->
    exists s' top', mrunE ovf t s top h = Ok (s', top', l) /\
      ztake (m_len s') (m_mem s') = encode t v' /\ m_len s' = byte_size t v'.
Proof.
  intros ovf t h v s top pi0 v' l R Hn Ho.
  destruct (grunE_refines ovf t h v s top pi0 v' l R Hn Ho) as (s' & top' & pi' & Hrun & R').
  exists s', top'. split; [exact Hrun|].
  destruct (repf_observable ovf pi' t v' s' top' R') as (_ & Hb & Hl & _). auto.
Qed.

Theorem C02_flat_canonical_after_any_history :
  forall ts h vs s top vs',
    Rep ts vs s top -> m_refuse s <> 1 -> orun (m_cap s) ts vs h = Some vs' ->
    exists s' top', mrun ts s top h = Ok (s', top') /\
      ztake (m_len s') (m_mem s') = encode (TStruct ts) (VStruct vs') /\
      m_len s' = byte_size (TStruct ts) (VStruct vs').
Proof.
  intros ts h vs s top vs' R Hn Ho.
  destruct (flat_run_refines ts h vs s top vs' R Hn Ho) as (s' & Hrun & R').
  exists s', (PStruct (lay ts vs' 0)). split; [exact Hrun|].
  destruct (rep_observable true ts vs' s' _ R') as (_ & Hb & Hl & _). auto.
Qed.

Theorem C02_encode_size : forall t v, wf t v = true -> zlen (encode t v) = byte_size t v.
Proof. exact encode_size. Qed.

Theorem C02_encode_injective :
  forall t v v', ty_ok true t = true -> wf t v = true -> wf t v' = true -> encode t v = encode t v' -> v = v'.
Proof. exact encode_injective. Qed.

(* what any other reader of the raw account sees is the value *)
Theorem C02_any_reader_sees_the_value :
  forall ovf t v, ty_ok true t = true -> wf t v = true -> parse ovf t (encode t v) = Ok (v, byte_size t v).
Proof. exact parse_encode. Qed.

(* the header of a list of unsized elements is exactly: unsized size, length, gap-free ascending offsets from 0,
   trailing copy of the length (stated on the encoder, which the correspondence ties to the account bytes) *)
Example C02_ulist_header_exact :
  encode (TUList (TList (FAny 1) 1) 0) (VUList [([], VList [[7]; [8]]); ([], VList []); ([], VList [[9]])])
  = [6;0;0;0] ++ [3;0;0;0] ++ ([0;0;0;0] ++ [3;0;0;0] ++ [4;0;0;0]) ++ [3;0;0;0] ++ ([2;7;8] ++ [0] ++ [1;9]).
Proof. vm_compute. reflexivity. Qed.
