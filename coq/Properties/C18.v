(* C18 - The IDL verifier accepts exactly the structurally sound definition graphs. Statements only. *)
From Coq Require Import Permutation.
From SF Require Import Base.Prelude Gen.Gen_c18 Idl.IdlTypes Idl.Verifier Idl.VerifierSpec Idl.VerifierProofs.

(* accepts iff sound: every definition set, every size, both modes *)
Theorem C18_verify_iff :
  forall mode defs, verify mode defs = Ok tt <-> Sound mode defs.
Proof. exact verify_iff. Qed.

(* a reported rule id is the id of a rule that is actually violated *)
Theorem C18_rule_sound :
  forall mode defs r, verify mode defs = Err r -> Violates r mode defs.
Proof. exact rule_sound. Qed.

(* acceptance does not depend on the order in which the definitions are supplied *)
Theorem C18_order_independent :
  forall mode defs defs', Permutation defs defs' -> (verify mode defs = Ok tt <-> verify mode defs' = Ok tt).
Proof. exact order_independent. Qed.

(* the verifier always answers, with Ok or one of the rule ids generated from the source *)
Theorem C18_outcome :
  forall mode defs, verify mode defs = Ok tt \/ exists r, verify mode defs = Err r /\ In r (map snd RULE_IDS).
Proof. exact verify_outcome. Qed.

(* per definition, the walk is exactly "check every position of the specification, in order, stop at the first error" *)
Theorem C18_walk_exact :
  forall cur idx mode, verify_definition cur idx mode = all_ok (check_pos cur idx mode) (def_positions cur).
Proof. exact verify_definition_walk. Qed.

(* the specification is consistent: a violated rule contradicts soundness; an unsound set violates some rule *)
Theorem C18_violates_unsound :
  forall r mode defs, Violates r mode defs -> ~ Sound mode defs.
Proof. exact violates_unsound. Qed.

Theorem C18_sound_or_violates :
  forall mode defs, Sound mode defs \/ exists r, Violates r mode defs.
Proof. exact sound_or_violates. Qed.

(* non-vacuity and documented corner: two definitions "a" and " b " (indexed as "b"); a strict-mode reference to
   namespace "b" resolves, a reference to the definition's verbatim crate name " b " does not (the reference's
   namespace is looked up untrimmed, verifier/mod.rs 52 vs 71-73), a missing type is SFIDL004, swapping the
   definitions changes nothing *)
Example C18_nonvacuous :
  let nb := [32; 98; 32] in
  let b := mkDef nb [] [] [] [([84], mkType [] (TPrim 1))] [] in
  let a (ns : name) (src : name) :=
    mkDef [97] [] [] [([65], mkAccount (mkTypeId src (Some ns) []) None)] [([80], mkType [] (TOption (TDefined src (Some ns) []) false))] [] in
  verify StrictGraph [a [98] [84]; b] = Ok tt /\
  verify StrictGraph [b; a [98] [84]] = Ok tt /\
  verify StrictGraph [a nb [84]; b] = Err RULE_MISSING_NAMESPACE /\
  verify StrictGraph [a [98] [85]; b] = Err RULE_MISSING_TYPE /\
  verify Compatibility [a [98] [84]] = Err RULE_MISSING_NAMESPACE /\
  verify Compatibility [a [98] [84]; b; b] = Err RULE_DUPLICATE_NAMESPACE.
Proof. vm_compute. repeat split; reflexivity. Qed.
