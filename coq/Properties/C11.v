(* C11 - Exact dispatch; lifecycle phases run in order and short-circuit on error. Statements only. *)
From SF Require Import Base.Prelude Gen.Generated Gen.Gen_c11 Dispatch.ReqOrder Dispatch.ReqOrderProofs
  Dispatch.Dispatch Dispatch.DispatchProofs Dispatch.Lifecycle Dispatch.LifecycleProofs Dispatch.RunC11.
From Coq Require Import Permutation.

(* ---- dispatch: exactly the instruction whose discriminant prefixes the data ---- *)
Theorem C11_dispatch_exact :
  forall w align1 ds aligned data,
  NoDup ds -> Forall (fun d => length d = w) ds -> align1 || aligned = true ->
  forall i, (i < length ds)%nat ->
    (dispatch w align1 ds aligned data = Ok (i, skipn w data) <-> firstn w data = nth i ds []).
Proof. exact dispatch_exact. Qed.

Theorem C11_dispatch_total :
  forall w align1 ds aligned data,
  (exists i, (i < length ds)%nat /\ dispatch w align1 ds aligned data = Ok (i, skipn w data) /\
             firstn w data = nth i ds [] /\ (w <= length data)%nat) \/
  (exists c, dispatch w align1 ds aligned data = Err c /\
     (c = PE_INVALID_INSTRUCTION_DATA \/ c = EC_ADVANCE_ERROR \/ c = EC_POD_CAST_ERROR)).
Proof. exact dispatch_total. Qed.

(* for every hash oracle H: the selected instruction is the one that runs, on the remaining data *)
Theorem C11_entrypoint_selected :
  forall H p aligned data nacc armed i ix,
  NoDup (program_discs H p) ->
  Forall (fun d => length d = disc_width (p_mode p)) (program_discs H p) ->
  mode_align1 (p_mode p) || aligned = true ->
  (i < length (program_discs H p))%nat -> nth_error (p_ixs p) i = Some ix ->
  firstn (disc_width (p_mode p)) data = nth i (program_discs H p) [] ->
  entrypoint H p aligned data nacc armed =
  strip (process_from_raw armed ix (skipn (disc_width (p_mode p)) data) nacc).
Proof. exact entrypoint_selected. Qed.

(* no discriminant prefixes the data: an error and an EMPTY trace (no handler, no account-set code ran) *)
Theorem C11_entrypoint_rejected :
  forall H p aligned data nacc armed,
  (forall i, (i < length (program_discs H p))%nat ->
     firstn (disc_width (p_mode p)) data <> nth i (program_discs H p) []) ->
  exists c, entrypoint H p aligned data nacc armed = ([], Err c).
Proof. exact entrypoint_rejected. Qed.

(* ---- phases: a prefix of the phase list, cut exactly at the first failing phase ---- *)
Theorem C11_phases_ordered :
  forall (S : Type) (ps : list (Z * phase S)) (s : S),
  (entered ps s = map fst ps /\ exists s', snd (seq_phases (map snd ps) s) = Ok s') \/
  (exists pre tag p post t1 s1,
      ps = pre ++ (tag, p) :: post /\
      seq_phases (map snd pre) s = (t1, Ok s1) /\
      failed (snd (p s1)) /\
      seq_phases (map snd ps) s = (t1 ++ fst (p s1), snd (p s1)) /\
      entered ps s = map fst pre ++ [tag]).
Proof. exact phases_ordered. Qed.

Theorem C11_phases_once :
  forall (S : Type) (ps : list (Z * phase S)) (s : S),
  NoDup (map fst ps) -> NoDup (entered ps s).
Proof. exact entered_nodup. Qed.

Theorem C11_ix_phases_ordered :
  forall armed ix data nacc,
  exists rest, [PH_ARGS; PH_DECODE; PH_VALIDATE; PH_PROCESS; PH_CLEANUP] = entered (ix_phases armed ix data) nacc ++ rest.
Proof. exact ix_phases_ordered. Qed.

(* the trace of an instruction: a prefix of  decode ++ validate ++ [process] ++ cleanup, cut at the first
   failing step; the code handed back is the one raised there *)
Theorem C11_lifecycle_cut :
  forall armed ix data nacc,
  let full := decode_steps (ix_accounts ix) ++ validate_steps (ix_accounts ix) ++
              [SEvent (ix_process_ev ix)] ++ cleanup_steps (ix_accounts ix) in
  ((length data < ix_args_len ix)%nat /\ process_from_raw armed ix data nacc = ([], Err EC_IO_ERROR)) \/
  ((ix_args_len ix <= length data)%nat /\ unarmed armed full /\ (ndec full <= nacc)%nat /\
     process_from_raw armed ix data nacc = (map step_ev full, Ok (nacc - ndec full)%nat)) \/
  ((ix_args_len ix <= length data)%nat /\
   exists pre s post, full = pre ++ s :: post /\ unarmed armed pre /\ (ndec pre <= nacc)%nat /\
     ((exists c, armed_code armed (step_ev s) = Some c /\ (ndec (pre ++ [s]) <= nacc)%nat /\
         process_from_raw armed ix data nacc = (map step_ev pre ++ [step_ev s], Err c)) \/
      (exists ev, s = SDecode ev /\ ndec pre = nacc /\
         process_from_raw armed ix data nacc = (map step_ev pre, Err EC_ADVANCE_ERROR)))).
Proof. exact lifecycle_cut. Qed.

(* ---- the order of field validation (repaired algorithm): ALL field lists, ALL acyclic graphs ---- *)
Theorem C11_order_correct :
  forall (fields : list nat) (req : nat -> list nat),
  NoDup fields -> closed fields req -> acyclic fields req ->
  Permutation (order_fixed req fields) fields /\
  NoDup (order_fixed req fields) /\
  (forall f r, In f fields -> In r (req f) -> before r f (order_fixed req fields)).
Proof. exact order_correct. Qed.

Theorem C11_order_once :
  forall fields req f,
  NoDup fields -> closed fields req -> acyclic fields req ->
  count_occ Nat.eq_dec (order_fixed req fields) f = count_occ Nat.eq_dec fields f /\
  (In f fields -> count_occ Nat.eq_dec (order_fixed req fields) f = 1%nat).
Proof. exact order_once. Qed.

Theorem C11_order_default :
  forall fields req, (forall f, req f = []) -> order_fixed req fields = fields.
Proof. exact order_default. Qed.

(* stability: each step emits the FIRST field, in declaration order, whose requirements are all placed *)
Theorem C11_order_first_ready :
  forall req placed pending f rest,
  pick req placed pending = Some (f, rest) ->
  exists l1 l2, pending = l1 ++ f :: l2 /\ rest = l1 ++ l2 /\
    (forall r, In r (req f) -> In r placed) /\
    (forall g, In g l1 -> exists r, In r (req g) /\ ~ In r placed).
Proof. exact order_first_ready. Qed.

(* D4: the algorithm the macro shipped with is refuted on three fields *)
Theorem C11_order_shipped_refuted :
  exists fields req, NoDup fields /\ closed fields req /\ acyclic fields req /\
    ~ (forall f r, In f fields -> In r (req f) -> before r f (order_shipped req fields)).
Proof. exact order_shipped_refuted. Qed.

(* inside one derived struct: every field's validation block runs exactly once ... *)
Theorem C11_validate_once :
  forall id hb he hc fs req,
  Permutation (validate_steps (Node id hb he hc fs req))
              (opt_step hb (EV_BEFORE + id) ++ concat (map validate_steps fs) ++ opt_step he (EV_EXTRA + id)).
Proof. exact validate_once. Qed.

(* ... after the block of every field it requires ... *)
Theorem C11_validate_after_required :
  forall id hb he hc fs req i j,
  closed (seq 0 (length fs)) (req_of req) -> acyclic (seq 0 (length fs)) (req_of req) ->
  (i < length fs)%nat -> In j (req_of req i) ->
  exists s1 s2 s3,
    validate_steps (Node id hb he hc fs req) =
    s1 ++ validate_steps (nth j fs (Leaf 0)) ++ s2 ++ validate_steps (nth i fs (Leaf 0)) ++ s3.
Proof. exact validate_after_required. Qed.

(* ... and in declaration order when nothing is required *)
Theorem C11_validate_default :
  forall id hb he hc fs req,
  (forall f, req_of req f = []) ->
  validate_steps (Node id hb he hc fs req) =
  opt_step hb (EV_BEFORE + id) ++ concat (map validate_steps fs) ++ opt_step he (EV_EXTRA + id).
Proof. exact validate_default. Qed.

(* ---- the model's literals are the ones found in the Rust sources on this run ---- *)
Theorem C11_source_ties :
  C11_SIGHASH_NAMESPACE ++ [C11_SIGHASH_SEP] = global_prefix /\
  (forall H name, sighash H name = firstn (Z.to_nat C11_SIGHASH_LEN) (H (sighash_preimage name))) /\
  Z.of_nat (disc_width DSighash) = C11_DEFAULT_DISC_WIDTH /\
  (forall offset disc, sfe_code offset disc = offset * 2 ^ C11_SFE_SHIFT + disc) /\
  (forall vs, enum_discs vs C11_ENUM_DISC_START = enum_discs vs 0) /\ C11_ENUM_DISC_STEP = 1 /\
  C11_PHASE_ORDER = [PH_ARGS; PH_DECODE; PH_VALIDATE; PH_PROCESS; PH_CLEANUP] /\
  (forall armed ix data, map fst (ix_phases armed ix data) = C11_PHASE_ORDER).
Proof. exact source_ties. Qed.

(* ---- non-vacuity ---- *)
(* the D4 witness: a requires c, b requires a.  shipped: b, c, a (b before its requirement a); repaired: c, a, b *)
Example C11_d4_witness :
  order_shipped d4_req d4_fields = [1; 2; 0]%nat /\ order_fixed d4_req d4_fields = [2; 0; 1]%nat /\
  beforeb 0 1 (order_shipped d4_req d4_fields) false = false /\
  beforeb 0 1 (order_fixed d4_req d4_fields) false = true /\ beforeb 2 0 (order_fixed d4_req d4_fields) false = true.
Proof. vm_compute. repeat split; reflexivity. Qed.

(* a 5-field diamond with a tail: the hypotheses of C11_order_correct are satisfiable with a non-trivial order *)
Example C11_order_nonvacuous :
  let fields := [0; 1; 2; 3; 4]%nat in
  let req := req_of [[3; 4]; [0]; []; [2]; [2]]%nat in
  NoDup fields /\ closed fields req /\ acyclic fields req /\ order_fixed req fields = [2; 3; 4; 0; 1]%nat.
Proof.
  cbv zeta. split; [|split; [|split]].
  - repeat constructor; cbn; intuition lia.
  - intros f r Hf Hr. cbn in Hf. destruct Hf as [<-|[<-|[<-|[<-|[<-|[]]]]]]; cbn in Hr; intuition (subst; cbn; auto 10).
  - apply (rank_acyclic _ _ (fun f => match f with 2 => 0 | 3 => 1 | 4 => 1 | 0 => 2 | _ => 3 end)%nat).
    intros f r Hf Hr. cbn in Hf. destruct Hf as [<-|[<-|[<-|[<-|[<-|[]]]]]]; cbn in Hr; intuition (subst; lia).
  - vm_compute. reflexivity.
Qed.

(* a two-instruction program with u8 repr discriminants 3 and 4: selection, trailing bytes, too few accounts,
   an armed validator, an unknown discriminant, truncated data *)
Example C11_lifecycle_nonvacuous :
  let set := Node 50 true true true [Leaf 1; Leaf 2; Leaf 3] [[2]; [0]; []]%nat in
  let p := mkProgram (DRepr 1) [[65]; [66]] [Some 3; None]
             [mkInstr 0 7000 (Leaf 9); mkInstr 2 7001 set] in
  let H := fun _ : list Z => [] in
  entrypoint H p true [4; 0; 0; 99] 3 [] =
    ([1001; 1002; 1003; 4050; 2003; 2001; 2002; 5050; 7001; 3001; 3002; 3003; 6050], Ok tt) /\
  entrypoint H p true [4; 0; 0] 2 [] = ([1001; 1002], Err EC_ADVANCE_ERROR) /\
  entrypoint H p true [4; 0; 0] 3 [(2001, 77)] = ([1001; 1002; 1003; 4050; 2003; 2001], Err 77) /\
  entrypoint H p true [3] 1 [] = ([1009; 2009; 7000; 3009], Ok tt) /\
  entrypoint H p true [5; 0; 0] 3 [] = ([], Err PE_INVALID_INSTRUCTION_DATA) /\
  entrypoint H p true [] 3 [] = ([], Err EC_ADVANCE_ERROR) /\
  entrypoint H p true [4; 0] 3 [] = ([], Err EC_IO_ERROR).
Proof. vm_compute. repeat split; reflexivity. Qed.

(* the default discriminant goes through the oracle: with a table oracle the sighash of `DoThing` is the first
   8 bytes listed for "global:do_thing" *)
Example C11_sighash_nonvacuous :
  let pre := [103; 108; 111; 98; 97; 108; 58; 100; 111; 95; 116; 104; 105; 110; 103] in
  let H := table_oracle [(pre, [72; 36; 181; 152; 19; 6; 103; 41; 1; 2; 3])] in
  sighash_preimage [68; 111; 84; 104; 105; 110; 103] = pre /\
  sighash H [68; 111; 84; 104; 105; 110; 103] = [72; 36; 181; 152; 19; 6; 103; 41].
Proof. vm_compute. split; reflexivity. Qed.
