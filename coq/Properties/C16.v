(* C16 - System / SPL Token / Associated Token bindings are wire- and layout-compatible with the
   reference interface crates.  Statements only (proofs: Wire/WireProofs.v, Wire/TokenStateProofs.v).

   sf_*  : the framework side.  Instruction data = repr discriminant ++ borsh of the argument struct, metas =
           what the binding's account set declares; the declarations (enum discriminants, struct fields and
           their Rust types, account-set fields, ids, packed state layouts) are re-extracted from /repo into
           Gen/Gen_c16.v on every run and interpreted by Wire/Desc.v and Wire/TokenState.v.
   ref_* : the reference side, written separately from the crates' sources (solana-system-interface 2.0.0 under
           bincode, spl-token-interface 2.0.0 `pack` + builders + `Pack` state, spl-associated-token-account-
           interface 2.0.0).
   All theorems hold for ALL keys / integers / images: no bound on values; u8 arguments carry `is_u8`
   (a Rust u8), client-side optional accounts are `None` or the default id (`default_or_none`).      *)
From SF Require Import Base.Prelude Gen.Generated Gen.Gen_c16 Wire.Borsh Wire.Desc Wire.SystemWire Wire.TokenWire
  Wire.AtaWire Wire.TokenState Wire.WireProofs Wire.TokenStateProofs.
From Coq Require Import String.
Open Scope string_scope.
Open Scope list_scope.
Open Scope Z_scope.

Theorem C16_ids_agree :
  SF_SYSTEM_ID = REF_SYSTEM_ID /\ SF_TOKEN_ID = REF_TOKEN_ID /\ SF_ATA_ID = REF_ATA_ID /\
  SF_RENT_ID = REF_RENT_ID /\ SF_RECENT_BLOCKHASHES_ID = REF_RECENT_BLOCKHASHES_ID.
Proof. exact ids_agree. Qed.

Theorem C16_u64_encoding_lossless :
  forall n, is_u64 n = true -> ref_u64_le n = borsh_u64 n /\ le_decode (ref_u64_le n) = n.
Proof. exact (fun n H => conj (ref_u64_le_eq n) (u64_roundtrip n H)). Qed.

Theorem C16_sys_create_account_agrees :
  forall funder new_account lamports space owner,
  sf_sys_create_account funder new_account lamports space owner = Some (ref_sys_create_account funder new_account lamports space owner).
Proof. exact sys_create_account_agrees. Qed.

Theorem C16_sys_assign_agrees :
  forall account owner,
  sf_sys_assign account owner = Some (ref_sys_assign account owner).
Proof. exact sys_assign_agrees. Qed.

Theorem C16_sys_transfer_agrees :
  forall funder recipient lamports,
  sf_sys_transfer funder recipient lamports = Some (ref_sys_transfer funder recipient lamports).
Proof. exact sys_transfer_agrees. Qed.

Theorem C16_sys_advance_nonce_agrees :
  forall nonce authority,
  sf_sys_advance_nonce nonce SF_RECENT_BLOCKHASHES_ID authority = Some (ref_sys_advance_nonce nonce authority).
Proof. exact sys_advance_nonce_agrees. Qed.

Theorem C16_sys_withdraw_nonce_agrees :
  forall nonce recipient rent authority lamports,
  default_or_none rent SF_RENT_ID -> sf_sys_withdraw_nonce nonce recipient SF_RECENT_BLOCKHASHES_ID rent authority lamports = Some (ref_sys_withdraw_nonce nonce authority recipient lamports).
Proof. exact sys_withdraw_nonce_agrees. Qed.

Theorem C16_sys_initialize_nonce_agrees :
  forall nonce rent authority,
  default_or_none rent SF_RENT_ID -> sf_sys_initialize_nonce nonce SF_RECENT_BLOCKHASHES_ID rent authority = Some (ref_sys_initialize_nonce nonce authority).
Proof. exact sys_initialize_nonce_agrees. Qed.

Theorem C16_sys_authorize_nonce_agrees :
  forall nonce authority new_authority,
  sf_sys_authorize_nonce nonce authority new_authority = Some (ref_sys_authorize_nonce nonce authority new_authority).
Proof. exact sys_authorize_nonce_agrees. Qed.

Theorem C16_sys_allocate_agrees :
  forall account space,
  sf_sys_allocate account space = Some (ref_sys_allocate account space).
Proof. exact sys_allocate_agrees. Qed.

Theorem C16_sys_upgrade_nonce_agrees :
  forall nonce,
  sf_sys_upgrade_nonce nonce = Some (ref_sys_upgrade_nonce nonce).
Proof. exact sys_upgrade_nonce_agrees. Qed.

Theorem C16_tok_initialize_mint_agrees :
  forall mint rent decimals mint_authority freeze_authority,
  is_u8 decimals = true -> default_or_none rent SF_RENT_ID -> sf_tok_initialize_mint mint rent decimals mint_authority freeze_authority = Some (ref_tok_initialize_mint mint mint_authority freeze_authority decimals).
Proof. exact tok_initialize_mint_agrees. Qed.

Theorem C16_tok_initialize_account_agrees :
  forall account mint owner rent,
  default_or_none rent SF_RENT_ID -> sf_tok_initialize_account account mint owner rent = Some (ref_tok_initialize_account account mint owner).
Proof. exact tok_initialize_account_agrees. Qed.

Theorem C16_tok_initialize_multisig_agrees :
  forall multisig rent signers m ix,
  default_or_none rent SF_RENT_ID -> ref_tok_initialize_multisig multisig signers m = Some ix -> sf_tok_initialize_multisig multisig rent signers m = Some ix.
Proof. exact tok_initialize_multisig_agrees. Qed.

Theorem C16_tok_transfer_agrees :
  forall source destination owner amount,
  sf_tok_transfer source destination owner amount = Some (ref_tok_transfer source destination owner [] amount).
Proof. exact tok_transfer_agrees. Qed.

Theorem C16_tok_approve_agrees :
  forall source delegate owner amount,
  sf_tok_approve source delegate owner amount = Some (ref_tok_approve source delegate owner [] amount).
Proof. exact tok_approve_agrees. Qed.

Theorem C16_tok_revoke_agrees :
  forall source owner,
  sf_tok_revoke source owner = Some (ref_tok_revoke source owner []).
Proof. exact tok_revoke_agrees. Qed.

Theorem C16_tok_set_authority_agrees :
  forall account current_authority t new_authority,
  sf_tok_set_authority account current_authority t new_authority = Some (ref_tok_set_authority account new_authority t current_authority []).
Proof. exact tok_set_authority_agrees. Qed.

Theorem C16_tok_mint_to_agrees :
  forall mint account mint_authority amount,
  sf_tok_mint_to mint account mint_authority amount = Some (ref_tok_mint_to mint account mint_authority [] amount).
Proof. exact tok_mint_to_agrees. Qed.

Theorem C16_tok_burn_agrees :
  forall account mint owner amount,
  sf_tok_burn account mint owner amount = Some (ref_tok_burn account mint owner [] amount).
Proof. exact tok_burn_agrees. Qed.

Theorem C16_tok_close_account_agrees :
  forall account destination owner,
  sf_tok_close_account account destination owner = Some (ref_tok_close_account account destination owner []).
Proof. exact tok_close_account_agrees. Qed.

Theorem C16_tok_freeze_account_agrees :
  forall account mint authority,
  sf_tok_freeze_account account mint authority = Some (ref_tok_freeze_account account mint authority []).
Proof. exact tok_freeze_account_agrees. Qed.

Theorem C16_tok_thaw_account_agrees :
  forall account mint authority,
  sf_tok_thaw_account account mint authority = Some (ref_tok_thaw_account account mint authority []).
Proof. exact tok_thaw_account_agrees. Qed.

Theorem C16_tok_transfer_checked_agrees :
  forall source mint destination owner amount decimals,
  is_u8 decimals = true -> sf_tok_transfer_checked source mint destination owner amount decimals = Some (ref_tok_transfer_checked source mint destination owner [] amount decimals).
Proof. exact tok_transfer_checked_agrees. Qed.

Theorem C16_tok_approve_checked_agrees :
  forall source mint delegate owner amount decimals,
  is_u8 decimals = true -> sf_tok_approve_checked source mint delegate owner amount decimals = Some (ref_tok_approve_checked source mint delegate owner [] amount decimals).
Proof. exact tok_approve_checked_agrees. Qed.

Theorem C16_tok_mint_to_checked_agrees :
  forall mint account mint_authority amount decimals,
  is_u8 decimals = true -> sf_tok_mint_to_checked mint account mint_authority amount decimals = Some (ref_tok_mint_to_checked mint account mint_authority [] amount decimals).
Proof. exact tok_mint_to_checked_agrees. Qed.

Theorem C16_tok_burn_checked_agrees :
  forall account mint owner amount decimals,
  is_u8 decimals = true -> sf_tok_burn_checked account mint owner amount decimals = Some (ref_tok_burn_checked account mint owner [] amount decimals).
Proof. exact tok_burn_checked_agrees. Qed.

Theorem C16_tok_initialize_account2_agrees :
  forall account mint rent owner,
  default_or_none rent SF_RENT_ID -> sf_tok_initialize_account2 account mint rent owner = Some (ref_tok_initialize_account2 account mint owner).
Proof. exact tok_initialize_account2_agrees. Qed.

Theorem C16_tok_sync_native_agrees :
  forall account,
  sf_tok_sync_native account = Some (ref_tok_sync_native account).
Proof. exact tok_sync_native_agrees. Qed.

Theorem C16_tok_initialize_account3_agrees :
  forall account mint owner,
  sf_tok_initialize_account3 account mint owner = Some (ref_tok_initialize_account3 account mint owner).
Proof. exact tok_initialize_account3_agrees. Qed.

Theorem C16_tok_initialize_multisig2_agrees :
  forall multisig signers m ix,
  ref_tok_initialize_multisig2 multisig signers m = Some ix -> sf_tok_initialize_multisig2 multisig signers m = Some ix.
Proof. exact tok_initialize_multisig2_agrees. Qed.

Theorem C16_tok_initialize_mint2_agrees :
  forall mint decimals mint_authority freeze_authority,
  is_u8 decimals = true -> sf_tok_initialize_mint2 mint decimals mint_authority freeze_authority = Some (ref_tok_initialize_mint2 mint mint_authority freeze_authority decimals).
Proof. exact tok_initialize_mint2_agrees. Qed.

Theorem C16_tok_get_account_data_size_agrees :
  forall mint,
  sf_tok_get_account_data_size mint = Some (ref_tok_get_account_data_size mint).
Proof. exact tok_get_account_data_size_agrees. Qed.

Theorem C16_tok_initialize_immutable_owner_agrees :
  forall account,
  sf_tok_initialize_immutable_owner account = Some (ref_tok_initialize_immutable_owner account).
Proof. exact tok_initialize_immutable_owner_agrees. Qed.

Theorem C16_tok_amount_to_ui_amount_agrees :
  forall mint amount,
  sf_tok_amount_to_ui_amount mint amount = Some (ref_tok_amount_to_ui_amount mint amount).
Proof. exact tok_amount_to_ui_amount_agrees. Qed.

Theorem C16_multisig_builder_domain :
  forall multisig signers m,
  (exists ix, ref_tok_initialize_multisig2 multisig signers m = Some ix) <-> (1 <= m <= 11 /\ 1 <= zlen signers <= 11 /\ m <= zlen signers).
Proof. exact ref_multisig_builds. Qed.

Theorem C16_note_tok_transfer_no_multisig :
  forall s d o a s' d' o' a' signers,
  signers <> [] -> sf_tok_transfer s d o a <> Some (ref_tok_transfer s' d' o' signers a').
Proof. exact tok_transfer_no_multisig. Qed.

Theorem C16_note_tok_approve_no_multisig :
  forall s d o a s' d' o' a' signers,
  signers <> [] -> sf_tok_approve s d o a <> Some (ref_tok_approve s' d' o' signers a').
Proof. exact tok_approve_no_multisig. Qed.

Theorem C16_note_tok_revoke_no_multisig :
  forall s o s' o' signers,
  signers <> [] -> sf_tok_revoke s o <> Some (ref_tok_revoke s' o' signers).
Proof. exact tok_revoke_no_multisig. Qed.

Theorem C16_note_tok_set_authority_no_multisig :
  forall a c t n a' c' t' n' signers,
  signers <> [] -> sf_tok_set_authority a c t n <> Some (ref_tok_set_authority a' n' t' c' signers).
Proof. exact tok_set_authority_no_multisig. Qed.

Theorem C16_note_tok_mint_to_no_multisig :
  forall s d o a s' d' o' a' signers,
  signers <> [] -> sf_tok_mint_to s d o a <> Some (ref_tok_mint_to s' d' o' signers a').
Proof. exact tok_mint_to_no_multisig. Qed.

Theorem C16_note_tok_burn_no_multisig :
  forall s d o a s' d' o' a' signers,
  signers <> [] -> sf_tok_burn s d o a <> Some (ref_tok_burn s' d' o' signers a').
Proof. exact tok_burn_no_multisig. Qed.

Theorem C16_note_tok_close_account_no_multisig :
  forall s d o s' d' o' signers,
  signers <> [] -> sf_tok_close_account s d o <> Some (ref_tok_close_account s' d' o' signers).
Proof. exact tok_close_account_no_multisig. Qed.

Theorem C16_note_tok_freeze_account_no_multisig :
  forall s d o s' d' o' signers,
  signers <> [] -> sf_tok_freeze_account s d o <> Some (ref_tok_freeze_account s' d' o' signers).
Proof. exact tok_freeze_account_no_multisig. Qed.

Theorem C16_note_tok_thaw_account_no_multisig :
  forall s d o s' d' o' signers,
  signers <> [] -> sf_tok_thaw_account s d o <> Some (ref_tok_thaw_account s' d' o' signers).
Proof. exact tok_thaw_account_no_multisig. Qed.

Theorem C16_note_tok_transfer_checked_no_multisig :
  forall s m d o a c s' m' d' o' a' c' signers,
  signers <> [] -> sf_tok_transfer_checked s m d o a c <> Some (ref_tok_transfer_checked s' m' d' o' signers a' c').
Proof. exact tok_transfer_checked_no_multisig. Qed.

Theorem C16_note_tok_approve_checked_no_multisig :
  forall s m d o a c s' m' d' o' a' c' signers,
  signers <> [] -> sf_tok_approve_checked s m d o a c <> Some (ref_tok_approve_checked s' m' d' o' signers a' c').
Proof. exact tok_approve_checked_no_multisig. Qed.

Theorem C16_note_tok_mint_to_checked_no_multisig :
  forall s d o a c s' d' o' a' c' signers,
  signers <> [] -> sf_tok_mint_to_checked s d o a c <> Some (ref_tok_mint_to_checked s' d' o' signers a' c').
Proof. exact tok_mint_to_checked_no_multisig. Qed.

Theorem C16_note_tok_burn_checked_no_multisig :
  forall s d o a c s' d' o' a' c' signers,
  signers <> [] -> sf_tok_burn_checked s d o a c <> Some (ref_tok_burn_checked s' d' o' signers a' c').
Proof. exact tok_burn_checked_no_multisig. Qed.

Theorem C16_ata_address_agrees :
  forall (pda : list (list Z) -> key -> key) wallet mint,
  sf_ata_find_address pda wallet mint = Some (ref_ata_address pda wallet mint).
Proof. exact ata_address_agrees. Qed.

Theorem C16_ata_create_agrees :
  forall (pda : list (list Z) -> key -> key) funder wallet mint system_program token_program,
  default_or_none system_program SF_SYSTEM_ID -> let tp := unwrap_or token_program SF_TOKEN_ID in sf_ata_create funder (ref_ata_address_with_program_id pda wallet mint tp) wallet mint system_program token_program = Some (ref_ata_create pda funder wallet mint tp).
Proof. exact ata_create_agrees. Qed.

Theorem C16_ata_create_idempotent_agrees :
  forall (pda : list (list Z) -> key -> key) funder wallet mint system_program token_program,
  default_or_none system_program SF_SYSTEM_ID -> let tp := unwrap_or token_program SF_TOKEN_ID in sf_ata_create_idempotent funder (ref_ata_address_with_program_id pda wallet mint tp) wallet mint system_program token_program = Some (ref_ata_create_idempotent pda funder wallet mint tp).
Proof. exact ata_create_idempotent_agrees. Qed.

Theorem C16_ata_create_with_find_address :
  forall (pda : list (list Z) -> key -> key) funder wallet mint a,
  sf_ata_find_address pda wallet mint = Some a -> sf_ata_create funder a wallet mint None None = Some (ref_ata_create pda funder wallet mint REF_TOKEN_ID).
Proof. exact ata_create_with_find_address. Qed.

Theorem C16_ata_recover_nested_agrees :
  forall (pda : list (list Z) -> key -> key) wallet owner_mint nested_mint token_program,
  let tp := unwrap_or token_program SF_TOKEN_ID in let owner_ata := ref_ata_address_with_program_id pda wallet owner_mint tp in let destination_ata := ref_ata_address_with_program_id pda wallet nested_mint tp in let nested_ata := ref_ata_address_with_program_id pda owner_ata nested_mint tp in sf_ata_recover_nested nested_ata nested_mint destination_ata owner_ata owner_mint wallet token_program = Some (ref_ata_recover_nested pda wallet owner_mint nested_mint tp).
Proof. exact ata_recover_nested_agrees. Qed.

Theorem C16_mint_view_agrees :
  forall img m, ref_mint_unpack img = Ok m ->
  exists v, sf_mint_data_unchecked img = Ok v /\ sf_mint_validate SF_TOKEN_ID img = Ok tt /\
            (forall writable, sf_mint_data SF_TOKEN_ID writable img = Ok v) /\ sf_mint_fields v = Some m.
Proof. exact mint_view_agrees. Qed.

Theorem C16_token_view_agrees :
  forall img a, ref_account_unpack img = Ok a ->
  exists v, sf_token_data_unchecked img = Ok v /\ sf_token_validate SF_TOKEN_ID img = Ok tt /\
            (forall writable, sf_token_data SF_TOKEN_ID writable img = Ok v) /\ sf_token_fields v = Some a.
Proof. exact token_view_agrees. Qed.

Theorem C16_mint_view_unchecked_agrees :
  forall img m, ref_mint_unpack_unchecked img = Ok m ->
  exists v, sf_mint_data_unchecked img = Ok v /\ sf_mint_fields v = Some m.
Proof. exact mint_view_unchecked_agrees. Qed.

Theorem C16_token_view_unchecked_agrees :
  forall img a, ref_account_unpack_unchecked img = Ok a ->
  exists v, sf_token_data_unchecked img = Ok v /\ sf_token_fields v = Some a.
Proof. exact token_view_unchecked_agrees. Qed.

Theorem C16_layout_sizes :
  option_map total_size (sizes_of fty_size SF_MINT_LAYOUT) = Some 82%nat /\ SF_MINT_LEN = 82 /\
  option_map total_size (sizes_of fty_size SF_TOKENACC_LAYOUT) = Some 165%nat /\ SF_TOKENACC_LEN = 165.
Proof. exact (conj (proj1 mint_layout_size) (conj (proj2 mint_layout_size) token_layout_size)). Qed.

Theorem C16_note_mint_view_accepts_more :
  ref_mint_unpack mint_tag2_image = Err REF_INVALID_ACCOUNT_DATA /\
  sf_mint_validate SF_TOKEN_ID mint_tag2_image = Ok tt /\
  exists v, sf_mint_data_unchecked mint_tag2_image = Ok v /\
            view_optkey v "mint_authority" = Some None /\
            lookupf "mint_authority" v = Some (FPodKey [2; 0; 0; 0] (repeat 5 32)) /\
            pod_is_some [2; 0; 0; 0] = false /\ pod_is_none [2; 0; 0; 0] = false.
Proof. exact mint_view_accepts_more. Qed.

(* ---------------------------------- non-vacuity ---------------------------------- *)
Definition kk (b : Z) : key := repeat b 32.

(* u64 extreme, u8 extreme: the data bytes are the expected ones *)
Example C16_nonvacuous_transfer_checked :
  option_map ix_data (sf_tok_transfer_checked (kk 1) (kk 2) (kk 3) (kk 4) 18446744073709551615 255)
  = Some [12; 255; 255; 255; 255; 255; 255; 255; 255; 255] /\
  option_map (fun i => map (fun m => (m_signer m, m_writable m)) (ix_metas i))
             (sf_tok_transfer_checked (kk 1) (kk 2) (kk 3) (kk 4) 18446744073709551615 255)
  = Some [(false, true); (false, false); (false, true); (true, false)].
Proof. vm_compute. split; reflexivity. Qed.

Example C16_nonvacuous_system_create :
  option_map ix_data (sf_sys_create_account (kk 1) (kk 2) 4294967296 1 (kk 9))
  = Some ([0; 0; 0; 0] ++ [0; 0; 0; 0; 1; 0; 0; 0] ++ [1; 0; 0; 0; 0; 0; 0; 0] ++ kk 9).
Proof. vm_compute. reflexivity. Qed.

(* 11 multisig signers: the reference builder accepts and the binding produces the same 12 metas *)
Example C16_nonvacuous_multisig11 :
  let signers := map kk [1; 2; 3; 4; 5; 6; 7; 8; 9; 10; 11] in
  exists ix, ref_tok_initialize_multisig2 (kk 0) signers 11 = Some ix /\
             sf_tok_initialize_multisig2 (kk 0) signers 11 = Some ix /\ List.length (ix_metas ix) = 12%nat.
Proof. eexists. split; [reflexivity|]. split; vm_compute; reflexivity. Qed.

(* a valid initialised mint image: the hypothesis of C16_mint_view_agrees is inhabited *)
Definition mint_ok_image : list Z :=
  [1; 0; 0; 0] ++ kk 5 ++ [9; 0; 0; 0; 0; 0; 0; 128] ++ [6; 1] ++ [0; 0; 0; 0] ++ kk 0.
Example C16_nonvacuous_mint :
  ref_mint_unpack mint_ok_image = Ok (mkRefMint (Some (kk 5)) (9 + 128 * 256 ^ 7) 6 true None).
Proof. vm_compute. reflexivity. Qed.

Definition token_ok_image : list Z :=
  kk 1 ++ kk 2 ++ [7; 0; 0; 0; 0; 0; 0; 0] ++ ([1; 0; 0; 0] ++ kk 3) ++ [2] ++ ([1; 0; 0; 0] ++ [255; 255; 255; 255; 255; 255; 255; 255])
  ++ [4; 0; 0; 0; 0; 0; 0; 0] ++ ([0; 0; 0; 0] ++ kk 0).
Example C16_nonvacuous_token :
  ref_account_unpack token_ok_image
  = Ok (mkRefAccount (kk 1) (kk 2) 7 (Some (kk 3)) Frozen (Some 18446744073709551615) 4 None).
Proof. vm_compute. reflexivity. Qed.
