(* C06 - A failed mutation never corrupts, and single-container operations are atomic.  Statements only.
   In the machine an `Err c` outcome carries no state: it is only produced on paths that return before any
   write (errors raised after a write are modelled as `efail` and keep the modified state - that is how the
   recorded finding D16 shows up in the model).  PROVED for EVERY shape (generated enums included; `plain t = true` holds of every shape, C01_every_shape) and list operations at any
   nesting depth (C06_general_...): every failure - index, range, length prefix, growth beyond the allowance, growth
   refused - is a clean `Err` with the owned model's code, the state reached by the descent still represents the same
   value, and histories with failures in them keep refining the owned model.  PROVED for flat shapes (special case): every failure of a list operation -
   index, range, length prefix, growth beyond the allowance, growth refused by the data access - is such a
   clean `Err`, the state still represents the same value, and the history continues to refine the owned
   model from it.  Lists of unsized elements: correspondence check (refusal of growth at every step of
   growth-heavy histories) and the known finding D16. *)
From SF Require Import Base.Prelude Gen.Generated Unsized.Types Unsized.Parse Unsized.Machine Unsized.Ops.
From SF Require Import Unsized.Proofs.EncodeParse Unsized.Proofs.Mem Unsized.Proofs.Notify Unsized.Proofs.Flat.
From SF Require Import Unsized.Proofs.Layout Unsized.Proofs.Path Unsized.Proofs.Resize Unsized.Proofs.GenOps Unsized.Proofs.History.
From SF Require Import Unsized.Proofs.History2 Unsized.Proofs.ExecTie2 Unsized.Proofs.History4 Unsized.Proofs.InitFail Unsized.Proofs.StringSet.

(* histories of the full operation set with failures in them: the machine reports the owned model's outcome of every step
   (success, or the error code) and every reachable state represents the owned model's value *)
Theorem C06_all_ops_continue_after_failures :
  forall ovf t h v s top pi0 v' l,
    RepF pi0 t v s top -> m_refuse s <> 1 -> orunXE (m_cap s) (m_refuse s) t v h = Some (v', l) ->
    exists s' top' pi', mrunXE ovf t s top h = Ok (s', top', l) /\ RepF pi' t v' s' top'.
Proof. exact xrunE_refines. Qed.

(* the full operation set (stores, set_len, element-level insert / remove of lists of unsized elements): a failure - index,
   range, growth beyond the allowance, growth refused - leaves the machine state untouched and the value represented; the
   List operations, the stores and set_len return a plain Err, lists of unsized elements return the error with the pointer
   tree whose possible_mut_borrow flag was cleared *)
Theorem C06_all_ops_failure_is_clean :
  forall ovf t v s top pi0 o code,
    RepF pi0 t v s top -> oerrX (m_cap s) (m_refuse s) t v o = Some code ->
    exists top1, menter ovf t s top [] (xfocus o) = Ok top1 /\
      (mopX t s top1 o = Err code /\ RepF (xfocus o) t v s top1 \/
       (exists top0, mopX t s top1 o = Ok (s, top0, [-1; code]) /\ RepF (xfocus o) t v s top0)).
Proof. exact xstep_error. Qed.

(* a failing list operation anywhere inside the value: the descent succeeds, the operation returns the owned model's
   error before any write, and the state still represents the same value *)
Theorem C06_general_failure_is_clean :
  forall ovf t v s top pi0 o code,
    RepF pi0 t v s top -> oerrG (m_cap s) (m_refuse s) t v o = Some code ->
    exists top1, menter ovf t s top [] (focus_of o) = Ok top1 /\ mopG t s top1 o = Err code /\
                 RepF (focus_of o) t v s top1.
Proof. exact gstep_error. Qed.

(* histories with failures in them: the machine reports exactly the owned model's outcome of every step and every
   reachable state represents the owned model's value *)
Theorem C06_general_continue_after_failures :
  forall ovf t h v s top pi0 v' l,
    RepF pi0 t v s top -> m_refuse s <> 1 -> orunE (m_cap s) (m_refuse s) t v h = Some (v', l) ->
    exists s' top' pi', mrunE ovf t s top h = Ok (s', top', l) /\ RepF pi' t v' s' top'.
Proof. exact grunE_refines. Qed.

Example C06_nonvacuous_general :
  let et := TStruct [TFixed (FAny 2); TList (FAny 1) 1] in
  let t := TStruct [TList (FAny 1) 4; TUList et 0] in
  let e x y := VStruct [VBytes [x; x]; VList y] in
  let v := VStruct [VList [[1]]; VUList [([], e 3 (repeat [1] 255)); ([], e 4 [])]] in
  let s := mkMach (encode t v ++ zrepeat 0 10240) (zlen (encode t v)) 0 0 in
  let h := [GInsert [SF 1; SE 0; SF 1] 0 [[9]]; GInsert [SF 1; SE 1; SF 1] 5 [[9]]; GRemove [SF 1; SE 0; SF 1] 3 2;
            GInsert [SF 1; SE 1; SF 1] 0 [[9]]; GInsert [SF 0] 0 (zrepeat [0] 10240)] in
  orunE (m_cap s) 0 t v h
  = Some (VStruct [VList [[1]]; VUList [([], e 3 (repeat [1] 255)); ([], e 4 [[9]])]],
          [Some E_TOPRIM; Some E_INDEX; Some E_RANGE; None; Some E_REALLOC]).
Proof. vm_compute. reflexivity. Qed.

Theorem C06_flat_growth_refused_is_clean :
  forall tsA tsB vsA vsB c lw items, length tsA = length vsA -> forall s top idx new,
    Rep (tsA ++ TList c lw :: tsB) (vsA ++ VList items :: vsB) s top ->
    0 <= idx <= zlen items -> zlen items + zlen new < 256 ^ Z.of_nat lw -> new <> [] ->
    (m_refuse s = 1 \/ m_cap s < m_len s + Z.of_nat (fsize c) * zlen new) ->
    list_insert (TStruct (tsA ++ TList c lw :: tsB)) s top [PF (length tsA)] idx new = Err E_REALLOC.
Proof. exact list_insert_realloc_error. Qed.

Theorem C06_flat_index_error_is_clean :
  forall tsA tsB vsA vsB c lw items, length tsA = length vsA -> forall s top idx new,
    Rep (tsA ++ TList c lw :: tsB) (vsA ++ VList items :: vsB) s top -> zlen items < idx ->
    list_insert (TStruct (tsA ++ TList c lw :: tsB)) s top [PF (length tsA)] idx new = Err E_INDEX.
Proof. exact list_insert_index_error. Qed.

Theorem C06_flat_prefix_overflow_is_clean :
  forall tsA tsB vsA vsB c lw items, length tsA = length vsA -> forall s top idx new,
    Rep (tsA ++ TList c lw :: tsB) (vsA ++ VList items :: vsB) s top -> idx <= zlen items ->
    256 ^ Z.of_nat lw <= zlen items + zlen new ->
    list_insert (TStruct (tsA ++ TList c lw :: tsB)) s top [PF (length tsA)] idx new = Err E_TOPRIM.
Proof. exact list_insert_prefix_error. Qed.

Theorem C06_flat_remove_errors_are_clean :
  forall tsA tsB vsA vsB c lw items, length tsA = length vsA -> forall s top st en,
    Rep (tsA ++ TList c lw :: tsB) (vsA ++ VList items :: vsB) s top ->
    (en < st -> list_remove (TStruct (tsA ++ TList c lw :: tsB)) s top [PF (length tsA)] st en = Err E_RANGE) /\
    (st <= en -> zlen items < en -> list_remove (TStruct (tsA ++ TList c lw :: tsB)) s top [PF (length tsA)] st en = Err E_INDEX).
Proof.
  intros. split; intros; [eapply list_remove_range_error|eapply list_remove_index_error]; eauto.
Qed.

(* after a failed operation the state is the one before the call (an Err carries none), still represents
   the same value with canonical bytes and exact length, and later operations behave correctly on it *)
Theorem C06_flat_continue_after_failure :
  forall ts vs s top o c h vs',
    Rep ts vs s top -> m_refuse s <> 1 -> mstep ts s top o = Err c ->
    orun (m_cap s) ts vs h = Some vs' ->
    ztake (m_len s) (m_mem s) = encode (TStruct ts) (VStruct vs) /\
    exists s', mrun ts s top h = Ok (s', PStruct (lay ts vs' 0)) /\ Rep ts vs' s' (PStruct (lay ts vs' 0)).
Proof.
  intros ts vs s top o c h vs' R Hn _ Ho. split.
  - destruct (rep_observable true ts vs s top R) as (_ & Hb & _). exact Hb.
  - exact (flat_run_refines ts h vs s top vs' R Hn Ho).
Qed.

(* errors raised by the machine's resize primitives are raised before memory is touched: the allocation and the
   fault flag are what they were (all shapes) *)
Theorem C06_realloc_refusal_precedes_writes :
  forall s n, m_len s < n -> m_refuse s = 1 -> realloc s n = Err E_REALLOC.
Proof.
  intros s n Hg Hr. unfold realloc. destruct (m_len s <? n) eqn:E; [|zb; lia]. rewrite Hr, Z.eqb_refl. reflexivity.
Qed.

(* D16 (known finding), machine-checked: WITHOUT the restriction to initializers that cannot fail the clean-failure
   statement is false of the faithful model - a failing element initializer runs after the container was grown and its
   header rewritten, the call returns the error and the modified bytes stay.  The theorems above therefore quantify over
   the default initializer only; the witness (the d16_ definitions of InitFail.v) is the history the registered check replays on the
   implementation and reports as KNOWN-FINDING. *)
Theorem C06_failing_initializer_refuted :
  ~ (forall t v s top ps idx kind keys s' top' c,
       wf t v = true -> ztake (m_len s) (m_mem s) = encode t v ->
       get_ptr true t (m_mem s) 0 (m_len s) = Ok (top, m_len s) ->
       ulist_insert t s top ps idx kind keys = Ok (s', top', [-1; c]) ->
       ztake (m_len s') (m_mem s') = encode t v).
Proof. exact insert_failure_clean_refuted. Qed.

(* UnsizedString::set with a string that does not fit the length prefix: the error is reported and the string is left
   CLEARED - still the canonical encoding of a value of the type, accessors valid (set is clear + push_all, a composite,
   not one of the single-container operations the atomicity clause names) *)
Theorem C06_string_set_failure_leaves_a_value :
  forall ovf t v s top pi0 pi c lw old bs,
    RepF pi0 t v s top -> resolve t v pi = Some (TStruct [TList c lw], VStruct [VList old]) ->
    256 ^ Z.of_nat lw <= zlen bs ->
    exists s' top' pi', mstepStr ovf t s top pi bs = Ok (s', top', [-1; E_TOPRIM]) /\
                        RepF pi' t (plug t v pi (VStruct [VList []])) s' top' /\
                        m_cap s' = m_cap s /\ m_refuse s' = m_refuse s.
Proof. exact string_set_too_long. Qed.

Example C06_nonvacuous :
  let ts := [TList (FAny 1) 1; TList (FAny 1) 4] in
  let vs := [VList (repeat [1] 255); VList [[2]]] in
  let s := mkMach (encs ts vs ++ zrepeat 0 10240) (zlen (encs ts vs)) 0 0 in
  match get_ptr true (TStruct ts) (m_mem s) 0 (m_len s) with
  | Ok (top, _) =>
      list_insert (TStruct ts) s top [PF 0] 0 [[9]] = Err E_TOPRIM /\
      list_insert (TStruct ts) s top [PF 1] 5 [[9]] = Err E_INDEX /\
      list_remove (TStruct ts) s top [PF 1] 1 0 = Err E_RANGE
  | _ => False
  end.
Proof. vm_compute. repeat split; reflexivity. Qed.
